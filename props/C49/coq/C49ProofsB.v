(* C49 -- lemmas, part B: the Delta2 / 2Delta variants (fixed points, exactness on scalar affine maps), the Anderson weights as
   the code computes them (Gram-Schmidt with dropped directions), Cast3M in its square-root form, control flow of the solver. *)
From Coq Require Import List Reals Lra Lia Psatz Bool Arith ZArith QArith.
From C49 Require Import C49Spec C49Model C49Proofs.
Import ListNotations.
Local Open Scope R_scope.
Local Notation V := (list R).
Ltac dif := match goal with |- context [if ?c then _ else _] => destruct c end.

(* ---- list algebra over RF: lengths *)
Lemma map2_length (f : R -> R -> R) (a : V) : forall b, length a = length b -> length (map2 f a b) = length a.
Proof. induction a; intros [|y b] H; simpl in *; try discriminate; auto. Qed.
Lemma vsub_length (a b : V) : length a = length b -> length (vsub RF a b) = length a.
Proof. apply map2_length. Qed.
Lemma vadd_length (a b : V) : length a = length b -> length (vadd RF a b) = length a.
Proof. apply map2_length. Qed.
Lemma vscal_length k (a : V) : length (vscal RF k a) = length a.
Proof. apply map_length. Qed.
Lemma vopp_length (a : V) : length (vopp RF a) = length a.
Proof. apply map_length. Qed.
Lemma zeros_length n : length (zeros RF n) = n.
Proof. apply repeat_length. Qed.
Lemma dot_zeros_r (a : V) : forall n, dot RF a (zeros RF n) = 0.
Proof. induction a; intros [|n]; try reflexivity. unfold zeros in *. simpl. rewrite IHa. ring. Qed.
Lemma dot_zeros_l (a : V) : forall n, dot RF (zeros RF n) a = 0.
Proof. induction a; intros [|n]; try reflexivity. unfold zeros in *. simpl. rewrite IHa. ring. Qed.
Lemma vsub_scal0 (x v : V) : length v = length x -> vsub RF x (vscal RF 0 v) = x.
Proof. intros H. rewrite vscal_zero, H. apply vsub_zeros. Qed.
Lemma vadd_zeros_zeros n : vadd RF (zeros RF n) (zeros RF n) = zeros RF n.
Proof. induction n; [reflexivity|]. unfold vadd, zeros in *. simpl. f_equal; [ring|exact IHn]. Qed.
Lemma vsub_two_scal0 (x v w : V) : length v = length x -> length w = length x ->
  vsub RF x (vadd RF (vscal RF 0 v) (vscal RF 0 w)) = x.
Proof. intros Hv Hw. rewrite !vscal_zero, Hv, Hw, vadd_zeros_zeros. apply vsub_zeros. Qed.
Lemma div0 a : 0 / a = 0.
Proof. unfold Rdiv. ring. Qed.

(* ================================================================ fixed points are preserved *)
Definition wf5 (n : nat) (st : @st5 R) : Prop :=
  length (d_u st) = n /\ length (d_du st) = n /\ length (d_r st) = n /\ length (d_dr st) = n.

(* Alternate variants: the current iterate is a fixed point of G (rx = x_n - G x_n = 0): whatever the history *)
Lemma altdelta2_fixed trig thr st iter (x : V) : wf5 (length x) st ->
  snd (altdelta2_step RF trig thr st iter x (zeros RF (length x))) = x.
Proof.
  intros (L1 & L2 & L3 & L4). unfold altdelta2_step. cbn [snd]. rewrite vopp_zeros.
  dif; [|reflexivity]. dif; (dif; [|reflexivity]).
  - rewrite dot_zeros_r. cbn [RF fdiv]. rewrite div0. apply vsub_scal0. rewrite vsub_length; congruence.
  - rewrite dot_zeros_r. cbn [RF fdiv]. rewrite div0. apply vsub_scal0. rewrite !vsub_length; try congruence. rewrite vsub_length; congruence.
Qed.
Lemma alt2delta_fixed trig thr thr99 st iter (x : V) : wf5 (length x) st ->
  snd (alt2delta_step RF trig thr thr99 st iter x (zeros RF (length x))) = x.
Proof.
  intros (L1 & L2 & L3 & L4). unfold alt2delta_step. cbn [snd]. rewrite vopp_zeros.
  dif; [|reflexivity]. dif; [dif; [|reflexivity]|dif; [|dif; [|reflexivity]]].
  - rewrite dot_zeros_r. cbn [RF fdiv]. rewrite div0. apply vsub_scal0. rewrite vsub_length; congruence.
  - rewrite !dot_zeros_r. cbn [RF fdiv fmul fsub].
    replace ((dot RF (d_dr st) (d_dr st) * 0 - dot RF (vsub RF (zeros RF (length x)) (d_r st)) (d_dr st) * 0) / _) with 0 by (unfold Rdiv; ring).
    replace ((dot RF (vsub RF (zeros RF (length x)) (d_r st)) (vsub RF (zeros RF (length x)) (d_r st)) * 0 - dot RF (vsub RF (zeros RF (length x)) (d_r st)) (d_dr st) * 0) / _) with 0 by (unfold Rdiv; ring).
    apply vsub_two_scal0; [rewrite vsub_length; congruence|congruence].
  - rewrite dot_zeros_r. cbn [RF fdiv]. rewrite div0. apply vsub_scal0. rewrite vsub_length; congruence.
Qed.
(* Crossed variants: the stored G-value and the incoming one coincide (both are the fixed point) *)
Lemma crosseddelta2_fixed trig thr st iter (x rx : V) : wf5 (length x) st -> length rx = length x -> d_u st = x ->
  snd (crosseddelta2_step RF trig thr st iter x rx) = x.
Proof.
  intros (L1 & L2 & L3 & L4) Lr Hu. unfold crosseddelta2_step. cbn [snd]. rewrite Hu, vsub_self.
  dif; [|reflexivity]. dif; (dif; [|reflexivity]); rewrite dot_zeros_l; cbn [RF fdiv]; rewrite div0; apply vsub_scal0.
  - rewrite vopp_length. exact Lr.
  - rewrite vsub_length; rewrite vopp_length; congruence.
Qed.
Lemma crossed2delta_fixed trig thr thr99 st iter (x rx : V) : wf5 (length x) st -> length rx = length x -> d_u st = x ->
  snd (crossed2delta_step RF trig thr thr99 st iter x rx) = x.
Proof.
  intros (L1 & L2 & L3 & L4) Lr Hu. unfold crossed2delta_step. cbn [snd]. rewrite Hu, vsub_self.
  dif; [|reflexivity]. dif; [dif; [|reflexivity]|dif; [|dif; [|reflexivity]]].
  - rewrite dot_zeros_l. cbn [RF fdiv]. rewrite div0. apply vsub_scal0. rewrite vopp_length. exact Lr.
  - rewrite !dot_zeros_r. cbn [RF fdiv fmul fsub].
    match goal with |- vsub RF x (vadd RF (vscal RF ?a _) (vscal RF ?b _)) = x =>
      replace a with 0 by (unfold Rdiv; ring); replace b with 0 by (unfold Rdiv; ring) end.
    apply vsub_two_scal0; [rewrite vopp_length; exact Lr|exact L3].
  - rewrite dot_zeros_l. cbn [RF fdiv]. rewrite div0. apply vsub_scal0. rewrite vopp_length. exact Lr.
Qed.
Definition wf6 (n : nat) (st : @st6 R) : Prop :=
  length (b_u st) = n /\ length (b_x1 st) = n /\ length (b_x2 st) = n /\ length (b_dx1 st) = n /\ length (b_dx2 st) = n /\ length (b_r st) = n.
Lemma crossed2deltabis_fixed ffi trig thr thr99 st iter (x rx : V) : wf6 (length x) st -> length rx = length x -> b_u st = x ->
  snd (crossed2deltabis_step RF ffi trig thr thr99 st iter x rx) = x.
Proof.
  intros (L1 & L2 & L3 & L4 & L5 & L6) Lr Hu. unfold crossed2deltabis_step. cbn [snd]. rewrite Hu, vsub_self.
  dif; [|reflexivity]. dif; [dif; [|reflexivity]|dif; [|dif; [|reflexivity]]].
  - rewrite dot_zeros_l. cbn [RF fdiv]. rewrite div0. apply vsub_scal0. rewrite vopp_length. exact Lr.
  - rewrite !dot_zeros_r. cbn [RF fdiv fmul fsub].
    match goal with |- vsub RF x (vadd RF (vscal RF ?a _) (vscal RF ?b _)) = x =>
      replace a with 0 by (unfold Rdiv; ring); replace b with 0 by (unfold Rdiv; ring) end.
    apply vsub_two_scal0; [rewrite vopp_length; exact Lr|rewrite vsub_length; congruence].
  - rewrite dot_zeros_l. cbn [RF fdiv]. rewrite div0. apply vsub_scal0. rewrite vopp_length. exact Lr.
Qed.
(* CrossedDelta2 with only `the current iterate is a fixed point` (rx = 0) and an arbitrary history does NOT keep it: the correction
   is along dr1 = rho_n - rho_{n-1}, not along rho_n.  (Not reachable through GenericSolver with MTest's convergence test, which accepts
   such an iterate before the acceleration is called.) *)
Lemma crosseddelta2_moves_fixed_point :
  exists st x, wf5 1 st /\ snd (crosseddelta2_step RF 3 0 st 3 x [0]) <> x.
Proof.
  exists {| d_u := [0]; d_du := [0]; d_r := [1]; d_dr := [3] |}, [1]. split; [repeat split|].
  unfold crosseddelta2_step. cbn. destruct (Rlt_dec _ _) as [_|N]; [|exfalso; apply N; lra].
  intros E. injection E as E.
  match type of E with ?a = _ => assert (H : a = 3 / 4) by (field; lra) end. lra.
Qed.

(* ================================================================ exactness on scalar affine problems
   G x = xs + c (x - xs); at iteration n the algorithm receives u1 = G x_n and rx = x_n - G x_n; rho_n = -rx. *)
Definition rho1 (c xs x : R) : R := - (x - G1 c xs x).

(* AlternateDelta2 (iteration <> 2): exact from ANY three iterates x0 x1 x2 whose second difference of rho passes the guard *)
Lemma altdelta2_exact_1d c xs x0 x1 x2 trig thr iter st :
  0 <= thr -> (trig <=? iter)%nat = true -> (iter =? 2)%nat = false ->
  d_u st = [G1 c xs x1] -> d_du st = [G1 c xs x1 - G1 c xs x0] ->
  d_r st = [rho1 c xs x1] -> d_dr st = [rho1 c xs x1 - rho1 c xs x0] ->
  thr < (rho1 c xs x2 - rho1 c xs x1 - (rho1 c xs x1 - rho1 c xs x0)) * (rho1 c xs x2 - rho1 c xs x1 - (rho1 c xs x1 - rho1 c xs x0)) ->
  snd (altdelta2_step RF trig thr st iter [G1 c xs x2] [x2 - G1 c xs x2]) = [xs].
Proof.
  intros Ht Hi H2 Hu Hdu Hr Hdr Hg. unfold altdelta2_step. cbn [snd]. rewrite Hi, H2, Hu, Hdu, Hr, Hdr. cbn.
  fold (rho1 c xs x2).
  set (d := rho1 c xs x2 - rho1 c xs x1 - (rho1 c xs x1 - rho1 c xs x0)) in *.
  assert (NZ : d <> 0) by (apply sqr_pos_neq; lra).
  destruct (Rlt_dec _ _) as [_|N]; [|exfalso; apply N; lra].
  f_equal. unfold d, rho1, G1 in *. field. intros E. apply NZ. nra.
Qed.

(* in dimension 1 the 2x2 system of the 2Delta variants is singular: (a b)^2/(a^2 b^2) is 1 (or 0/0), never < 0.99 *)
Lemma ratio_lt_1d a b thr99 : thr99 < 1 -> ratio_lt RF (a * b * (a * b)) (a * a * (b * b)) thr99 = false.
Proof.
  intros H. unfold ratio_lt. cbn [RF feqb fltb fdiv fofZ]. destruct (Req_EM_T _ _) as [|NZ]; [reflexivity|].
  destruct (Rlt_dec _ _) as [L|]; [|reflexivity]. exfalso.
  assert (Ha : a <> 0) by (intros Z; apply NZ; rewrite Z; ring).
  assert (Hb : b <> 0) by (intros Z; apply NZ; rewrite Z; ring).
  replace (a * b * (a * b) / (a * a * (b * b))) with 1 in L by (field; auto). lra.
Qed.
Lemma dot1 a b : dot RF [a] [b] = a * b.
Proof. cbn. ring. Qed.

(* Alternate2Delta: at iteration 2 and afterwards (where, in dimension 1, it falls back to the secant formula): exact from two iterates *)
Lemma alt2delta_exact_1d c xs x0 x1 a b trig thr thr99 iter st :
  0 <= thr -> thr99 < 1 -> (trig <=? iter)%nat = true ->
  d_u st = [G1 c xs x0] -> d_r st = [rho1 c xs x0] -> d_du st = [a] -> d_dr st = [b] ->
  thr < (rho1 c xs x1 - rho1 c xs x0) * (rho1 c xs x1 - rho1 c xs x0) ->
  snd (alt2delta_step RF trig thr thr99 st iter [G1 c xs x1] [x1 - G1 c xs x1]) = [xs].
Proof.
  intros Ht H99 Hi Hu Hr Hdu Hdr Hg. unfold alt2delta_step. cbn [snd]. rewrite Hi, Hu, Hr, Hdu, Hdr.
  change (vopp RF [x1 - G1 c xs x1]) with [rho1 c xs x1].
  change (vsub RF [rho1 c xs x1] [rho1 c xs x0]) with [rho1 c xs x1 - rho1 c xs x0].
  change (vsub RF [G1 c xs x1] [G1 c xs x0]) with [G1 c xs x1 - G1 c xs x0].
  rewrite !dot1. cbn [RF fmul]. rewrite ratio_lt_1d by exact H99.
  set (d := rho1 c xs x1 - rho1 c xs x0) in *.
  assert (NZ : d <> 0) by (apply sqr_pos_neq; lra).
  assert (E : vsub RF [G1 c xs x1] (vscal RF (fdiv RF (d * rho1 c xs x1) (d * d)) [G1 c xs x1 - G1 c xs x0]) = [xs]).
  { cbn. f_equal. unfold d, rho1, G1 in *. field. intros Z. apply NZ. nra. }
  cbn [RF fltb]. destruct (Rlt_dec thr (d * d)) as [_|N]; [|exfalso; apply N; lra].
  destruct (iter =? 2)%nat; exact E.
Qed.

(* CrossedDelta2 (iteration <> 2): Aitken's formula on the G-values: exact from three CONSECUTIVE base iterates *)
Lemma crosseddelta2_exact_1d c xs x0 trig thr iter st :
  0 <= thr -> (trig <=? iter)%nat = true -> (iter =? 2)%nat = false ->
  let x1 := G1 c xs x0 in let x2 := G1 c xs x1 in
  d_u st = [G1 c xs x1] -> d_r st = [rho1 c xs x1] -> d_dr st = [rho1 c xs x1 - rho1 c xs x0] ->
  thr < (rho1 c xs x2 - rho1 c xs x1 - (rho1 c xs x1 - rho1 c xs x0)) * (rho1 c xs x2 - rho1 c xs x1 - (rho1 c xs x1 - rho1 c xs x0)) ->
  snd (crosseddelta2_step RF trig thr st iter [G1 c xs x2] [x2 - G1 c xs x2]) = [xs].
Proof.
  intros Ht Hi H2 x1 x2 Hu Hr Hdr Hg. unfold crosseddelta2_step. cbn [snd]. rewrite Hi, H2, Hu, Hr, Hdr. cbn.
  fold (rho1 c xs x2).
  set (d := rho1 c xs x2 - rho1 c xs x1 - (rho1 c xs x1 - rho1 c xs x0)) in *.
  assert (NZ : d <> 0) by (apply sqr_pos_neq; lra).
  destruct (Rlt_dec _ _) as [_|N]; [|exfalso; apply N; lra].
  f_equal. unfold d, x2, x1, rho1, G1 in *. field. intros E. apply NZ. nra.
Qed.

(* Crossed2Delta, Crossed2Deltabis: crossed secant formula in dimension 1: exact from two iterates *)
Lemma crossed2delta_exact_1d c xs x0 x1 a b trig thr thr99 iter st :
  0 <= thr -> thr99 < 1 -> (trig <=? iter)%nat = true ->
  d_u st = [G1 c xs x0] -> d_r st = [rho1 c xs x0] -> d_du st = [a] -> d_dr st = [b] ->
  thr < (rho1 c xs x1 - rho1 c xs x0) * (rho1 c xs x1 - rho1 c xs x0) ->
  snd (crossed2delta_step RF trig thr thr99 st iter [G1 c xs x1] [x1 - G1 c xs x1]) = [xs].
Proof.
  intros Ht H99 Hi Hu Hr Hdu Hdr Hg. unfold crossed2delta_step. cbn [snd]. rewrite Hi, Hu, Hr, Hdr.
  change (vopp RF [x1 - G1 c xs x1]) with [rho1 c xs x1].
  change (vsub RF [rho1 c xs x1] [rho1 c xs x0]) with [rho1 c xs x1 - rho1 c xs x0].
  change (vsub RF [G1 c xs x1] [G1 c xs x0]) with [G1 c xs x1 - G1 c xs x0].
  rewrite !dot1. cbn [RF fmul]. rewrite ratio_lt_1d by exact H99.
  set (d := rho1 c xs x1 - rho1 c xs x0) in *.
  assert (NZ : d <> 0) by (apply sqr_pos_neq; lra).
  assert (E : vsub RF [G1 c xs x1] (vscal RF (fdiv RF ((G1 c xs x1 - G1 c xs x0) * d) (d * d)) [rho1 c xs x1]) = [xs]).
  { cbn. f_equal. unfold d, rho1, G1 in *. field. intros Z. apply NZ. nra. }
  cbn [RF fltb]. destruct (Rlt_dec thr (d * d)) as [_|N]; [|exfalso; apply N; lra].
  destruct (iter =? 2)%nat; exact E.
Qed.
Lemma crossed2deltabis_exact_1d c xs x0 x1 a ffi trig thr thr99 iter st :
  0 <= thr -> thr99 < 1 -> (trig <=? iter)%nat = true ->
  b_u st = [G1 c xs x0] -> b_r st = [rho1 c xs x0] -> b_dx1 st = [a] ->
  thr < (rho1 c xs x1 - rho1 c xs x0) * (rho1 c xs x1 - rho1 c xs x0) ->
  snd (crossed2deltabis_step RF ffi trig thr thr99 st iter [G1 c xs x1] [x1 - G1 c xs x1]) = [xs].
Proof.
  intros Ht H99 Hi Hu Hr Hdx Hg. unfold crossed2deltabis_step. cbn [snd]. rewrite Hi, Hu, Hr, Hdx.
  change (vopp RF [x1 - G1 c xs x1]) with [rho1 c xs x1].
  change (vsub RF [rho1 c xs x1] [rho1 c xs x0]) with [rho1 c xs x1 - rho1 c xs x0].
  change (vsub RF [G1 c xs x1] [G1 c xs x0]) with [G1 c xs x1 - G1 c xs x0].
  change (vsub RF [G1 c xs x1 - G1 c xs x0] [a]) with [G1 c xs x1 - G1 c xs x0 - a].
  rewrite !dot1. cbn [RF fmul]. rewrite ratio_lt_1d by exact H99.
  set (d := rho1 c xs x1 - rho1 c xs x0) in *.
  assert (NZ : d <> 0) by (apply sqr_pos_neq; lra).
  assert (E : vsub RF [G1 c xs x1] (vscal RF (fdiv RF ((G1 c xs x1 - G1 c xs x0) * d) (d * d)) [rho1 c xs x1]) = [xs]).
  { cbn. f_equal. unfold d, rho1, G1 in *. field. intros Z. apply NZ. nra. }
  cbn [RF fltb]. destruct (Rlt_dec thr (d * d)) as [_|N]; [|exfalso; apply N; lra].
  destruct (iter =? 2)%nat; exact E.
Qed.

(* ================================================================ Anderson weights by Gram-Schmidt (as the code computes them) *)
Lemma unitv_length n : forall k, length (unitv RF n k) = n.
Proof. induction n; intros [|k]; simpl; auto. f_equal. apply repeat_length. Qed.
Definition tlen (N : nat) (gs : list (@gsv R)) : Prop := Forall (fun g => length (g_t g) = N) gs.
Lemma gs_project_fold_len N D : forall gs (acc : V * V), tlen N gs -> length (snd acc) = N ->
  length (snd (fold_left (gs_project RF D) gs acc)) = N.
Proof.
  induction gs as [|g gs IH]; intros acc Hg Ha; simpl; [exact Ha|].
  inversion Hg as [|g' gs' Hg1 Hg2]; subst g' gs'; cbv beta in Hg1. apply IH; auto. unfold gs_project. dif; [|exact Ha]. cbn [snd].
  rewrite vsub_length; [exact Ha|]. rewrite vscal_length. transitivity N; [exact Ha|symmetry; exact Hg1].
Qed.
Lemma gs_build_len thr N : forall Ds done k, tlen N done -> tlen N (gs_build RF thr N done k Ds).
Proof.
  induction Ds as [|D Ds IH]; intros done k Hd; simpl; [exact Hd|].
  apply IH. apply Forall_app. split; [exact Hd|]. constructor; [|constructor]. cbn [g_t].
  apply gs_project_fold_len; [exact Hd|]. cbn [snd]. apply unitv_length.
Qed.
Lemma gs_v_len N : forall gs (acc : V), tlen N gs -> length acc = N ->
  length (fold_left (fun acc g => if fltb RF (fofZ RF 0) (g_ne g) then vadd RF acc (vscal RF (fdiv RF (vsum RF (g_t g)) (g_ne g)) (g_t g)) else acc) gs acc) = N.
Proof.
  induction gs as [|g gs IH]; intros acc Hg Ha; simpl; [exact Ha|]. inversion Hg as [|g' gs' Hg1 Hg2]; subst g' gs'; cbv beta in Hg1. apply IH; auto.
  dif; [|exact Ha]. rewrite vadd_length; [exact Ha|]. rewrite vscal_length. transitivity N; [exact Ha|symmetry; exact Hg1].
Qed.
Lemma vsum_app (a b : V) : vsum RF (a ++ b) = vsum RF a + vsum RF b.
Proof. unfold vsum. induction a; cbn [app fold_right]; [cbn; ring|]. rewrite IHa. cbn [RF fadd]. ring. Qed.
Lemma vsum_rev (a : V) : vsum RF (rev a) = vsum RF a.
Proof. induction a; [reflexivity|]. simpl rev. rewrite vsum_app, IHa. unfold vsum. simpl. ring. Qed.

Lemma weights_gs_sum eps2 Ds w : anderson_weights_gs RF eps2 Ds = Some w -> vsum RF w = 1 /\ length w = length Ds.
Proof.
  unfold anderson_weights_gs, gs_weights_desc. set (N := length (rev Ds)).
  match goal with |- context [normalise RF ?vv] => set (v := vv) end.
  assert (Lv : length v = N).
  { unfold v. apply gs_v_len; [|apply zeros_length]. apply gs_build_len. constructor. }
  unfold normalise. destruct (feqb RF _ _) eqn:Z; [discriminate|]. intros H; injection H as <-. split.
  - rewrite vsum_rev, vsum_div. simpl in Z. destruct (Req_EM_T (vsum RF v) 0); [discriminate|]. field. auto.
  - rewrite rev_length, map_length, Lv. unfold N. apply rev_length.
Qed.

Lemma anderson_core_gs_fixed eps2 Nmax alMax st (x D : V) st' out :
  Forall (fun e => fst e = x) (a_hist st) ->
  anderson_core_gs RF eps2 Nmax alMax st x D = Some (st', out) -> out = x /\ Forall (fun e => fst e = x) (a_hist st').
Proof.
  intros H. unfold anderson_core_gs.
  set (h := push Nmax (a_hist st) (x, D)).
  assert (Hh : Forall (fun e => fst e = x) h).
  { unfold h, push. apply Forall_app. split; [|repeat constructor].
    destruct (_ <? _)%nat; auto. destruct (a_hist st); simpl; auto. inversion H; auto. }
  destruct (_ && _).
  - destruct (anderson_weights_gs RF eps2 _) as [w|] eqn:W; [|discriminate].
    intros E; injection E as <- <-. split; [|exact Hh].
    apply weights_gs_sum in W. destruct W as [S L]. rewrite map_length in L.
    rewrite lincomb_const.
    + rewrite S. apply vscal_one.
    + rewrite map_length. exact L.
    + apply Forall_map. exact Hh.
  - intros E; injection E as <- <-. split; [reflexivity|exact Hh].
Qed.
Lemma uanderson_gs_fixed eps2 Nmax alMax st iter (x du : V) st' out :
  Forall (fun e => fst e = x) (a_hist st) ->
  uanderson_gs_step RF eps2 Nmax alMax st iter x du = Some (st', out) -> out = x /\ Forall (fun e => fst e = x) (a_hist st').
Proof. intros H. unfold uanderson_gs_step. apply anderson_core_gs_fixed; auto. Qed.
Lemma fanderson_gs_fixed eps2 Nmax alMax st iter (x r : V) st' out :
  Forall (fun e => fst e = x) (a_hist st) ->
  fanderson_gs_step RF eps2 Nmax alMax st iter x r = Some (st', out) -> out = x /\ Forall (fun e => fst e = x) (a_hist st').
Proof. intros H. unfold fanderson_gs_step. apply anderson_core_gs_fixed; auto. Qed.

(* dimension 1, two stored fields: they are linearly dependent, Gram-Schmidt drops the OLDER one (rank-deficient path of GSFactorD):
   the weights are (0, 1), i.e. the output is the newest G-value: no acceleration.  Exactness of Anderson on scalar affine maps is
   not a property of the exact-arithmetic algorithm. *)
Lemma gs_1d_drops_older eps2 d0 d1 : 0 <= eps2 -> d1 <> 0 -> d0 * d0 * eps2 <= d1 * d1 ->
  anderson_weights_gs RF eps2 [[d0]; [d1]] = Some [0; 1].
Proof.
  intros He H1 Hthr. unfold anderson_weights_gs, gs_weights_desc. cbn [rev app length].
  cbn [gs_build fold_left unitv zeros repeat]. cbn [RF fofZ fmul fadd fsub fdiv fltb feqb dot fst snd g_ne g_e g_t].
  (* first (newest) field: kept *)
  destruct (Rlt_dec (d1 * d1 + 0) ((d0 * d0 + 0) * eps2)) as [L|_]; [exfalso; nra|].
  unfold gs_project. cbn [app fold_left g_ne g_e g_t RF fofZ fltb].
  destruct (Rlt_dec 0 (d1 * d1 + 0)) as [_|N]; [|exfalso; apply N; nra].
  cbn [fst snd vsub vscal map2 map dot RF fofZ fmul fadd fsub fdiv fltb g_ne g_e g_t].
  set (a := (d1 * d0 + 0) / (d1 * d1 + 0)).
  assert (Z : (d0 - a * d1) * d0 + 0 = 0) by (unfold a; field; lra).
  (* second (older) field: its orthogonalised norm is 0: dropped *)
  assert (Drop : forall thr, (if (if Rlt_dec ((d0 - a * d1) * d0 + 0) thr then true else false) then 0 else (d0 - a * d1) * d0 + 0) = 0)
    by (intros thr; destruct (Rlt_dec _ thr); [reflexivity|exact Z]).
  rewrite !Drop.
  destruct (Rlt_dec 0 0) as [L|_]; [lra|].
  unfold normalise. cbn [vadd vscal vsum fold_right RF fadd fmul feqb fofZ fdiv map map2].
  destruct (Req_EM_T _ 0) as [E|NE].
  - exfalso. assert (P : 0 < d1 * d1) by nra.
    assert (Q : 0 < 0 + (1 + (0 + 0)) / (d1 * d1 + 0) * 1 + (0 + (1 + (0 + 0)) / (d1 * d1 + 0) * 0 + 0)).
    { replace (0 + (1 + (0 + 0)) / (d1 * d1 + 0) * 1 + (0 + (1 + (0 + 0)) / (d1 * d1 + 0) * 0 + 0)) with (/ (d1 * d1)) by (field; lra).
      apply Rinv_0_lt_compat. exact P. }
    lra.
  - cbn [rev app]. f_equal. f_equal; [|f_equal]; field; repeat split; try lra; nra.
Qed.

(* ================================================================ Cast3M: the square-root form of the code = the algebraic model *)
Lemma dot_vscal_r k (a : V) : forall b, dot RF a (vscal RF k b) = k * dot RF a b.
Proof. induction a; intros [|y b]; simpl; try ring. unfold vscal in *. rewrite IHa. ring. Qed.
Lemma vscal_vscal k1 k2 (a : V) : vscal RF k1 (vscal RF k2 a) = vscal RF (k1 * k2) a.
Proof. unfold vscal. rewrite map_map. apply map_ext. intros; simpl; ring. Qed.
Lemma sqrt_lt_sq eps a : 0 <= eps -> 0 <= a -> (eps < sqrt a <-> eps * eps < a).
Proof.
  intros He Ha. split; intros H.
  - rewrite <- (sqrt_sqrt a Ha). apply Rmult_le_0_lt_compat; auto.
  - destruct (Rlt_dec eps (sqrt a)) as [|N]; [assumption|]. exfalso. apply Rnot_lt_le in N.
    assert (sqrt a * sqrt a <= eps * eps) by (apply Rmult_le_compat; auto; apply sqrt_pos). rewrite sqrt_sqrt in H0 by assumption. lra.
Qed.

Lemma castem_sqrt_form ca_eps (u0 u1 u2 r0 r1 r2 unew : V) : 0 <= ca_eps ->
  castem_combine_sqrt ca_eps u0 u1 u2 r0 r1 r2 unew = castem_combine RF (ca_eps * ca_eps) u0 u1 u2 r0 r1 r2 unew.
Proof.
  intros He. unfold castem_combine_sqrt, castem_combine.
  set (t0 := vsub RF r1 r0). set (t1 := vsub RF r2 r0). set (n0sq := dot RF t0 t0).
  assert (P0 : 0 <= n0sq) by (unfold n0sq; pose proof (sdot_self_nonneg t0) as Q; clear - Q; revert Q;
                               assert (E : sdot t0 t0 = dot RF t0 t0) by (induction t0; simpl; [reflexivity|rewrite IHt0; reflexivity]); rewrite E; auto).
  cbn [RF fltb fofZ fmul fdiv fsub fopp].
  destruct (Rlt_dec ca_eps (sqrt n0sq)) as [L|NL]; destruct (Rlt_dec (ca_eps * ca_eps) n0sq) as [L'|NL'];
    try (exfalso; apply (sqrt_lt_sq ca_eps n0sq He P0) in L; contradiction);
    try (exfalso; apply (sqrt_lt_sq ca_eps n0sq He P0) in L'; contradiction); [|reflexivity].
  assert (Pn : 0 < sqrt n0sq) by lra. assert (Sq : sqrt n0sq * sqrt n0sq = n0sq) by (apply sqrt_sqrt; exact P0).
  assert (Nz : n0sq <> 0) by (intros Z; rewrite Z, sqrt_0 in Pn; lra).
  set (nr0 := sqrt n0sq) in *. set (s := dot RF t1 t0).
  (* ntmp1 = s / nr0, the orthogonalised vector is the same *)
  assert (E1 : dot RF t1 (vscal RF (/ nr0) t0) = s / nr0) by (rewrite dot_vscal_r; unfold s, Rdiv; ring).
  rewrite E1.
  assert (E2 : vscal RF (s / nr0) (vscal RF (/ nr0) t0) = vscal RF (s / n0sq) t0).
  { rewrite vscal_vscal. f_equal. rewrite <- Sq. field. lra. }
  rewrite E2. set (t1' := vsub RF t1 (vscal RF (s / n0sq) t0)). set (n1sq := dot RF t1' t1').
  assert (P1 : 0 <= n1sq) by (unfold n1sq; pose proof (sdot_self_nonneg t1') as Q; clear - Q; revert Q;
                               assert (E : sdot t1' t1' = dot RF t1' t1') by (induction t1'; simpl; [reflexivity|rewrite IHt1'; reflexivity]); rewrite E; auto).
  assert (Cond : Rabs (s / nr0) / 10 < sqrt n1sq <-> s * s < 100 * n1sq * n0sq).
  { assert (A : 0 <= Rabs (s / nr0) / 10) by (pose proof (Rabs_pos (s / nr0)); lra).
    rewrite (sqrt_lt_sq _ n1sq A P1).
    assert (A2 : Rabs (s / nr0) * Rabs (s / nr0) = (s / nr0) * (s / nr0)) by (unfold Rabs; destruct (Rcase_abs _); ring).
    assert (A3 : (s / nr0) * (s / nr0) = s * s / n0sq) by (rewrite <- Sq; field; lra).
    replace (Rabs (s / nr0) / 10 * (Rabs (s / nr0) / 10)) with (s * s / n0sq / 100)
      by (transitivity (Rabs (s / nr0) * Rabs (s / nr0) / 100); [rewrite A2, A3; reflexivity|field]).
    assert (Pp : 0 < n0sq) by lra. split; intros H.
    - apply (Rmult_lt_compat_r n0sq) in H; [|exact Pp]. unfold Rdiv in H.
      replace (s * s * / n0sq * / 100 * n0sq) with (s * s / 100) in H by (field; exact Nz). lra.
    - apply (Rmult_lt_reg_r n0sq); [exact Pp|].
      replace (s * s / n0sq / 100 * n0sq) with (s * s / 100) by (field; exact Nz). lra. }
  destruct (Rlt_dec (Rabs (s / nr0) / 10) (sqrt n1sq)) as [C|NC]; destruct (Rlt_dec (s * s) (100 * n1sq * n0sq)) as [C'|NC'];
    try (exfalso; apply Cond in C; contradiction); try (exfalso; apply Cond in C'; contradiction).
  - assert (Pn1 : 0 < sqrt n1sq) by (pose proof (Rabs_pos (s / nr0)); lra).
    assert (Sq1 : sqrt n1sq * sqrt n1sq = n1sq) by (apply sqrt_sqrt; exact P1).
    assert (Nz1 : n1sq <> 0) by (intros Z; rewrite Z, sqrt_0 in Pn1; lra).
    set (nr1 := sqrt n1sq) in *.
    rewrite !dot_vscal_r.
    assert (C2 : - (/ nr1 * dot RF r0 t1') / nr1 = - dot RF r0 t1' / n1sq) by (rewrite <- Sq1; field; lra).
    rewrite C2.
    assert (C1 : (- (/ nr0 * dot RF r0 t0) - s / nr0 * (- dot RF r0 t1' / n1sq)) / nr0 = (- dot RF r0 t0 - s * (- dot RF r0 t1' / n1sq)) / n0sq)
      by (rewrite <- Sq; field; split; lra).
    rewrite C1. reflexivity.
  - rewrite dot_vscal_r.
    assert (C0 : - (/ nr0 * dot RF r0 t0) / nr0 = - dot RF r0 t0 / n0sq) by (rewrite <- Sq; field; lra).
    rewrite C0. reflexivity.
Qed.

(* ================================================================ control flow of GenericSolver::iterate / execute *)
(* a resolution is accepted only on a `converged` verdict, obtained within iterMax iterations (and not at the first iteration
   without prediction); after iterMax iterations without convergence it is rejected *)
Lemma it_loop_sound k : forall iter nopred vs n rest, (0 < k)%nat ->
  it_loop k iter nopred vs = (true, n, rest) ->
  (iter < n <= iter + k)%nat /\ nth (n - iter - 1) vs false = true /\ (nopred = true -> 1 < n)%nat /\ rest = skipn (n - iter) vs.
Proof.
  induction k as [|k IH]; intros iter nopred vs n rest Hk H; [lia|]. cbn [it_loop] in H.
  destruct vs as [|v vs']; [discriminate|].
  destruct ((if nopred then (1 <? S iter)%nat else true) && v) eqn:C.
  - injection H as <- <-. apply andb_prop in C. destruct C as [C1 C2]. subst v.
    replace (S iter - iter - 1)%nat with 0%nat by lia. replace (S iter - iter)%nat with 1%nat by lia. repeat split; try lia.
    intros ->. apply Nat.ltb_lt in C1. exact C1.
  - destruct (k =? 0)%nat eqn:K; [discriminate|]. apply Nat.eqb_neq in K.
    apply IH in H; [|lia]. destruct H as (H1 & H2 & H3 & H4). repeat split; try lia; auto.
    + replace (n - iter - 1)%nat with (S (n - S iter - 1)) by lia. exact H2.
    + replace (n - iter)%nat with (S (n - S iter)) by lia. exact H4.
Qed.
Lemma iterate_model_sound iterMax nopred vs n rest : (0 < iterMax)%nat ->
  iterate_model iterMax nopred vs = (true, n, rest) ->
  (0 < n <= iterMax)%nat /\ nth (n - 1) vs false = true /\ (nopred = true -> 1 < n)%nat.
Proof.
  intros H0 H. apply it_loop_sound in H; [|exact H0]. destruct H as (H1 & H2 & H3 & _).
  replace (n - 0 - 1)%nat with (n - 1)%nat in H2 by lia. repeat split; try lia; auto.
Qed.
(* iterMax iterations, none converged: rejected (what the mutation `iter > iterMax` breaks) *)
Lemma it_loop_rejects nopred k : forall vs iter, (0 < k)%nat -> (k <= length vs)%nat ->
  (forall i, (i < k)%nat -> nth i vs false = false) -> fst (fst (it_loop k iter nopred vs)) = false.
Proof.
  induction k as [|k IH]; intros vs iter H0 HL Hv; [lia|].
  cbn [it_loop]. destruct vs as [|v vs']; [reflexivity|]. pose proof (Hv 0%nat ltac:(lia)) as V0. cbn in V0. subst v.
  rewrite andb_false_r. destruct (k =? 0)%nat eqn:K; [reflexivity|]. apply Nat.eqb_neq in K.
  simpl in HL. apply IH; try lia. intros i Hi. exact (Hv (S i) ltac:(lia)).
Qed.
Lemma iterate_model_rejects iterMax nopred vs : (0 < iterMax)%nat -> (iterMax <= length vs)%nat ->
  (forall i, (i < iterMax)%nat -> nth i vs false = false) -> fst (fst (iterate_model iterMax nopred vs)) = false.
Proof. intros. unfold iterate_model. apply it_loop_rejects; assumption. Qed.
(* every event of execute marked `accepted` ended on a `converged` verdict within iterMax iterations *)
Lemma execute_model_sound fuel : forall mSub iterMax nopred sub t dt te teps vs evs status, (0 < iterMax)%nat ->
  execute_model fuel mSub iterMax nopred sub t dt te teps vs = (evs, status) ->
  Forall (fun ev : Q * Q * nat * bool => snd ev = true -> (0 < snd (fst ev) <= iterMax)%nat /\ (nopred = true -> 1 < snd (fst ev))%nat) evs.
Proof.
  induction fuel as [|f IH]; intros mSub iterMax nopred sub t dt te teps vs evs status H0 H; cbn [execute_model] in H.
  - injection H as <- _. constructor.
  - destruct (iterate_model iterMax nopred vs) as [[acc n] vs'] eqn:I.
    destruct acc.
    + apply iterate_model_sound in I; [|exact H0]. destruct I as (I1 & _ & I3).
      destruct (_ || _).
      * injection H as <- _. constructor; [|constructor]. cbn. auto.
      * destruct (execute_model f _ _ _ _ _ _ _ _ _) as [evs' st'] eqn:R. injection H as <- _. cbn [fst].
        constructor; [cbn; auto|]. eapply IH; eauto.
    + destruct (S sub =? mSub)%nat.
      * injection H as <- _. constructor; [|constructor]. cbn. discriminate.
      * destruct (execute_model f _ _ _ _ _ _ _ _ _) as [evs' st'] eqn:R. injection H as <- _. cbn [fst].
        constructor; [cbn; discriminate|]. eapply IH; eauto.
Qed.

(* C49 -- lemmas.  Part 1: two states accepted by the convergence predicate for a strongly monotone residual are close
   (Cauchy-Schwarz on lists).  Part 2: fixed points are preserved by every modelled acceleration step.  Part 3: exactness on
   scalar affine problems; least-squares optimality of the Anderson weights for two stored fields; the degenerate cases. *)
From Coq Require Import List Reals Lra Lia Psatz Bool Arith ZArith.
From C49 Require Import C49Spec C49Model.
Import ListNotations.
Local Open Scope R_scope.
Local Notation V := (list R).
Ltac dif := match goal with |- context [if ?c then _ else _] => destruct c end.

(* ==================================================================================================== *)

Lemma sdot_self_nonneg a : 0 <= sdot a a.
Proof. induction a; simpl; nra. Qed.

Lemma ssub_length a b : length a = length b -> length (ssub a b) = length a.
Proof. revert b; induction a; destruct b; simpl; intros; try lia. f_equal. apply IHa. lia. Qed.

Lemma quad_nonneg a b t : length a = length b -> 0 <= sdot a a * (t * t) + 2 * sdot a b * t + sdot b b.
Proof.
  revert b; induction a; destruct b; simpl; intros H; try discriminate.
  - nra.
  - injection H as H. specialize (IHa b H). pose proof (Rle_0_sqr (a * t + r)) as S. unfold Rsqr in S. nra.
Qed.

Lemma cauchy_schwarz a b : length a = length b -> sdot a b * sdot a b <= sdot a a * sdot b b.
Proof.
  intros H. pose proof (sdot_self_nonneg a) as Ha. pose proof (sdot_self_nonneg b) as Hb.
  destruct (Req_dec (sdot a a) 0) as [Z|NZ].
  - destruct (Req_dec (sdot a b) 0) as [Zb|NZb]; [rewrite Zb, Z; lra|].
    pose proof (quad_nonneg a b (- (sdot b b + 1) / (2 * sdot a b)) H) as Q.
    rewrite Z in Q. exfalso.
    replace (2 * sdot a b * (- (sdot b b + 1) / (2 * sdot a b))) with (- (sdot b b + 1)) in Q by (field; lra). lra.
  - pose proof (quad_nonneg a b (- sdot a b / sdot a a) H) as Q.
    assert (E : sdot a a * (- sdot a b / sdot a a * (- sdot a b / sdot a a)) + 2 * sdot a b * (- sdot a b / sdot a a) + sdot b b
                = (sdot a a * sdot b b - sdot a b * sdot a b) / sdot a a) by (field; lra).
    rewrite E in Q. assert (P : 0 < sdot a a) by lra.
    assert (0 <= (sdot a a * sdot b b - sdot a b * sdot a b)).
    { apply Rmult_le_reg_r with (/ sdot a a). apply Rinv_0_lt_compat; lra. unfold Rdiv in Q. lra. }
    lra.
Qed.

Lemma all_le_sdot bound a : all_le bound a -> sdot a a <= INR (length a) * (bound * bound).
Proof.
  intros H. induction H.
  - simpl. lra.
  - change (length (x :: l)) with (S (length l)). rewrite S_INR. simpl sdot.
    assert (x * x <= bound * bound).
    { pose proof (Rabs_pos x). rewrite <- (Rabs_mult_self_eq x) || idtac.
      replace (x * x) with (Rabs x * Rabs x) by (unfold Rabs; destruct (Rcase_abs x); ring). nra. }
    nra.
Qed.

Lemma sdot_all_le B a : 0 <= B -> sdot a a <= B * B -> all_le B a.
Proof.
  intros HB. induction a; intros H; constructor.
  - simpl in H. pose proof (sdot_self_nonneg a0). apply Rabs_le. split; nra.
  - apply IHa. simpl in H. nra.
Qed.

Lemma all_le_ssub p q a b : length a = length b -> all_le p a -> all_le q b -> all_le (p + q) (ssub a b).
Proof.
  revert b; induction a; destruct b; simpl; intros L Ha Hb; try discriminate; constructor.
  - inversion Ha; inversion Hb; subst. unfold Rminus. eapply Rle_trans. apply Rabs_triang. rewrite Rabs_Ropp. lra.
  - inversion Ha; inversion Hb; subst. apply IHa; auto.
Qed.

Lemma shift_all_le B e x y du dv :
  length x = length y -> length du = length x -> length dv = length x ->
  all_le B (ssub x y) -> all_le e du -> all_le e dv -> all_le (B + 2 * e) (ssub (ssub x du) (ssub y dv)).
Proof.
  revert y du dv; induction x; destruct y, du, dv; simpl; intros L1 L2 L3 H Hu Hv; try discriminate; constructor.
  - inversion H; inversion Hu; inversion Hv; subst.
    replace (a - r0 - (r - r1)) with ((a - r) + (- r0 + r1)) by ring.
    eapply Rle_trans. apply Rabs_triang.
    assert (Rabs (- r0 + r1) <= 2 * e). { eapply Rle_trans. apply Rabs_triang. rewrite Rabs_Ropp. lra. } lra.
  - inversion H; inversion Hu; inversion Hv; subst. apply IHx; auto.
Qed.

(* distance between the two iterates whose residuals passed the test *)
Lemma iterates_close n m r seps x y :
  0 < m -> 0 <= seps -> strongly_monotone n m r -> length x = n -> length y = n ->
  all_le seps (r x) -> all_le seps (r y) ->
  all_le (2 * sqrt (INR n) * seps / m) (ssub x y).
Proof.
  intros Hm Hs SM Lx Ly Hx Hy.
  destruct (SM x y Lx Ly) as [Lrx Hmon]. destruct (SM y x Ly Lx) as [Lry _].
  set (d := ssub x y) in *. set (rho := ssub (r x) (r y)) in *.
  assert (Ld : length d = n) by (unfold d; rewrite ssub_length; lia).
  assert (Lrho : length rho = n) by (unfold rho; rewrite ssub_length; lia).
  assert (Hrho : all_le (seps + seps) rho) by (apply all_le_ssub; auto; lia).
  apply all_le_sdot in Hrho. rewrite Lrho in Hrho.
  pose proof (cauchy_schwarz rho d ltac:(lia)) as CS.
  pose proof (sdot_self_nonneg d) as Hd. pose proof (sdot_self_nonneg rho) as Hr.
  pose proof (pos_INR n) as Hn. pose proof (sqrt_sqrt (INR n) Hn) as Hsq. pose proof (sqrt_pos (INR n)) as Hsp.
  set (B := 2 * sqrt (INR n) * seps / m).
  assert (HB : 0 <= B). { unfold B. apply Rmult_le_pos; [|left; apply Rinv_0_lt_compat; lra]. nra. }
  apply sdot_all_le; auto.
  assert (HBB : B * B = INR n * ((seps + seps) * (seps + seps)) / (m * m)).
  { unfold B. field_simplify; try lra. rewrite <- Hsq at 2. field. lra. }
  rewrite HBB.
  destruct (Req_dec (sdot d d) 0) as [Z|NZ].
  - rewrite Z. apply Rmult_le_pos; [nra|]. left. apply Rinv_0_lt_compat. nra.
  - assert (P : 0 < sdot d d) by lra.
    assert (K : m * m * sdot d d <= sdot rho rho).
    { assert (Q : (m * sdot d d) * (m * sdot d d) <= sdot rho rho * sdot d d).
      { eapply Rle_trans; [|apply CS]. assert (0 <= m * sdot d d) by nra. nra. }
      apply Rmult_le_reg_r with (sdot d d); auto. nra. }
    apply Rmult_le_reg_r with (m * m). nra.
    unfold Rdiv. rewrite Rmult_assoc, Rinv_l by nra. nra.
Qed.

Lemma accepted_states_close n m r eeps seps u v :
  0 < m -> 0 <= seps -> strongly_monotone n m r ->
  accepted n r eeps seps u -> accepted n r eeps seps v ->
  all_le (tolerance_bound n m eeps seps) (ssub u v).
Proof.
  intros Hm Hs SM (x & du & Lx & Ldu & -> & Hdu & Hrx) (y & dv & Ly & Ldv & -> & Hdv & Hry).
  unfold tolerance_bound. apply shift_all_le; try lia; auto.
  eapply iterates_close; eauto.
Qed.

(* ==================================================================================================== *)


(* ---- list algebra over RF *)
Lemma vsub_self (x : V) : vsub RF x x = zeros RF (length x).
Proof. induction x; [reflexivity|]. unfold vsub, zeros in *. simpl. f_equal; [ring|exact IHx]. Qed.
Lemma vscal_zeros a n : vscal RF a (zeros RF n) = zeros RF n.
Proof. induction n; [reflexivity|]. unfold vscal, zeros in *. simpl. f_equal; [ring|exact IHn]. Qed.
Lemma vsub_zeros (x : V) : vsub RF x (zeros RF (length x)) = x.
Proof. induction x; [reflexivity|]. unfold vsub, zeros in *. simpl. f_equal; [ring|exact IHx]. Qed.
Lemma vopp_zeros n : vopp RF (zeros RF n) = zeros RF n.
Proof. induction n; [reflexivity|]. unfold vopp, zeros in *. simpl. f_equal; [ring|exact IHn]. Qed.
Lemma vscal_add a b (x : V) : vadd RF (vscal RF a x) (vscal RF b x) = vscal RF (a + b) x.
Proof. induction x; [reflexivity|]. unfold vadd, vscal in *. simpl. f_equal; [ring|exact IHx]. Qed.
Lemma vscal_one (x : V) : vscal RF 1 x = x.
Proof. induction x; [reflexivity|]. unfold vscal in *. simpl. f_equal; [ring|exact IHx]. Qed.
Lemma vscal_zero (x : V) : vscal RF 0 x = zeros RF (length x).
Proof. induction x; [reflexivity|]. unfold vscal, zeros in *. simpl. f_equal; [ring|exact IHx]. Qed.
Lemma vadd_zeros (x : V) : vadd RF x (zeros RF (length x)) = x.
Proof. induction x; [reflexivity|]. unfold vadd, zeros in *. simpl. f_equal; [ring|exact IHx]. Qed.

Lemma ltb_false_nonneg eps : 0 <= eps -> fltb RF eps (fabs RF 0) = false.
Proof. intros H. simpl. rewrite Rabs_R0. destruct (Rlt_dec eps 0); [lra|reflexivity]. Qed.

(* ================================================================ fixed points are preserved *)
(* secant, alternate secant: the last two G-values coincide (in particular both are the fixed point) *)
Lemma secant_fixed trig thr st iter (x r : V) :
  p_u st = x -> snd (secant_step RF trig thr st iter x r) = x.
Proof.
  intros H. unfold secant_step. simpl snd. rewrite H.
  dif; [|reflexivity].
  dif; [|reflexivity].
  rewrite vsub_self, vscal_zeros, vsub_zeros. reflexivity.
Qed.
Lemma altsecant_fixed trig thr st iter (x du : V) :
  p_u st = x -> snd (altsecant_step RF trig thr st iter x du) = x.
Proof.
  intros H. unfold altsecant_step. simpl snd. rewrite H.
  dif; [|reflexivity].
  dif; [|reflexivity].
  rewrite vsub_self, vscal_zeros, vsub_zeros. reflexivity.
Qed.
(* Irons-Tuck, crossed secant: the current iterate is a fixed point of G (du = x_n - G x_n = 0), whatever the history *)
Lemma ironstuck_fixed trig thr st iter (x : V) :
  snd (ironstuck_step RF trig thr st iter x (zeros RF (length x))) = x.
Proof.
  unfold ironstuck_step. simpl snd. rewrite vopp_zeros.
  dif; [|reflexivity].
  dif; [|reflexivity].
  rewrite vscal_zeros, vsub_zeros. reflexivity.
Qed.
Lemma crossedsecant_fixed trig thr st iter (x : V) :
  snd (crossedsecant_step RF trig thr st iter x (zeros RF (length x))) = x.
Proof.
  unfold crossedsecant_step. simpl snd. rewrite vopp_zeros.
  dif; [|reflexivity].
  dif; [|reflexivity].
  rewrite vscal_zeros, vsub_zeros. reflexivity.
Qed.
(* Steffensen: the last two G-values coincide *)
Lemma steffensen_map_fixed eps (a x : V) :
  0 <= eps -> length a = length x -> map3 (steffensen_comp RF eps) a x x = x.
Proof.
  intros He. revert a; induction x as [|y x IH]; intros [|b a] L; simpl in *; try discriminate; [reflexivity|].
  f_equal; [|apply IH; lia].
  unfold steffensen_comp.
  replace (fsub RF y y) with 0 by (simpl; ring).
  rewrite (ltb_false_nonneg eps He). reflexivity.
Qed.
Lemma steffensen_fixed trig eps st iter (x : V) :
  0 <= eps -> q_u2 st = x -> length (q_u1 st) = length x -> snd (steffensen_step RF trig eps st iter x) = x.
Proof.
  intros He H L. unfold steffensen_step. simpl snd. rewrite H.
  dif; [|reflexivity]. apply steffensen_map_fixed; auto.
Qed.
(* Cast3M: the last three G-values coincide *)
Lemma castem_fixed trig per eps2 st iter (x r : V) :
  q_u1 st = x -> q_u2 st = x -> snd (castem_step RF trig per eps2 st iter x r) = x.
Proof.
  intros H1 H2. unfold castem_step. simpl snd. rewrite H1, H2.
  dif; [|reflexivity].
  unfold castem_combine.
  dif; [|reflexivity].
  dif.
  - rewrite !vscal_add. transitivity (vscal RF 1 x); [f_equal; simpl; ring|apply vscal_one].
  - rewrite !vscal_add. transitivity (vscal RF 1 x); [f_equal; simpl; ring|apply vscal_one].
Qed.

(* Anderson: every stored G-value and the new one are x; whenever the weights are defined the output is x *)
Lemma gsolve_length n : forall M v, gsolve RF n M = Some v -> length v = n.
Proof.
  induction n; intros M v H; simpl in H.
  - injection H as <-. reflexivity.
  - destruct M as [|[|p row0] others]; try discriminate.
    destruct (Req_EM_T p 0); try discriminate.
    match type of H with context [gsolve RF n ?m] => destruct (gsolve RF n m) eqn:E; try discriminate end.
    injection H as <-. simpl. f_equal. eapply IHn; eauto.
Qed.
Lemma vsum_div (v : V) d : vsum RF (map (fun x => fdiv RF x d) v) = vsum RF v / d.
Proof. induction v; [simpl; unfold Rdiv; ring|]. unfold vsum in *. simpl in *. rewrite IHv. unfold Rdiv. ring. Qed.
Lemma weights_sum Ds w : anderson_weights RF Ds = Some w -> vsum RF w = 1 /\ length w = length Ds.
Proof.
  unfold anderson_weights. destruct (gsolve RF _ _) eqn:E; [|discriminate].
  unfold normalise. destruct (feqb RF _ _) eqn:Z; [discriminate|]. intros H; injection H as <-. split.
  - rewrite vsum_div. simpl in Z. destruct (Req_EM_T (vsum RF v) 0); [discriminate|]. field. auto.
  - rewrite map_length. eapply gsolve_length; eauto.
Qed.
Lemma lincomb_const (x : V) : forall (w : V) (us : list V),
  length w = length us -> Forall (fun u => u = x) us -> lincomb RF (length x) w us = vscal RF (vsum RF w) x.
Proof.
  induction w; destruct us; simpl; intros L H; try discriminate.
  - rewrite vscal_zero. reflexivity.
  - inversion H; subst. rewrite IHw; auto. rewrite vscal_add. reflexivity.
Qed.
Lemma anderson_core_fixed Nmax alMax st (x D : V) st' out :
  Forall (fun e => fst e = x) (a_hist st) ->
  anderson_core RF Nmax alMax st x D = Some (st', out) -> out = x /\ Forall (fun e => fst e = x) (a_hist st').
Proof.
  intros H. unfold anderson_core.
  set (h := push Nmax (a_hist st) (x, D)).
  assert (Hh : Forall (fun e => fst e = x) h).
  { unfold h, push. apply Forall_app. split; [|repeat constructor].
    destruct (_ <? _)%nat; auto. destruct (a_hist st); simpl; auto. inversion H; auto. }
  destruct (_ && _).
  - destruct (anderson_weights RF _) as [w|] eqn:W; [|discriminate].
    intros E; injection E as <- <-. split; [|exact Hh].
    apply weights_sum in W. destruct W as [S L]. rewrite map_length in L.
    rewrite lincomb_const.
    + rewrite S. apply vscal_one.
    + rewrite map_length. exact L.
    + apply Forall_map. exact Hh.
  - intros E; injection E as <- <-. split; [reflexivity|exact Hh].
Qed.
Lemma uanderson_fixed Nmax alMax st iter (x du : V) st' out :
  Forall (fun e => fst e = x) (a_hist st) ->
  uanderson_step RF Nmax alMax st iter x du = Some (st', out) -> out = x /\ Forall (fun e => fst e = x) (a_hist st').
Proof. intros H. unfold uanderson_step. apply anderson_core_fixed; auto. Qed.
Lemma fanderson_fixed Nmax alMax st iter (x r : V) st' out :
  Forall (fun e => fst e = x) (a_hist st) ->
  fanderson_step RF Nmax alMax st iter x r = Some (st', out) -> out = x /\ Forall (fun e => fst e = x) (a_hist st').
Proof. intros H. unfold fanderson_step. apply anderson_core_fixed; auto. Qed.
(* ... and when every stored D field vanishes (all iterates are fixed points) the weights are NOT defined: 0/0, NaN in the C++ *)
Lemma anderson_all_zero_undefined n (k : nat) : anderson_weights RF (repeat (zeros RF n) (S k)) = None.
Proof.
  unfold anderson_weights. rewrite repeat_length. simpl.
  assert (E : dot RF (zeros RF n) (zeros RF n) = 0).
  { induction n; simpl; [reflexivity|]. unfold zeros in *. simpl in *. rewrite IHn. ring. }
  rewrite E. simpl. destruct (Req_EM_T 0 0); [reflexivity|congruence].
Qed.

(* ==================================================================================================== *)

Lemma sqr_pos_neq a : 0 < a * a -> a <> 0.
Proof. intros H E. rewrite E in H. lra. Qed.

(* ================================================================ exactness on scalar affine problems *)
Lemma secant_exact_1d k c xs x0 x1 trig thr iter st :
  0 <= thr -> (trig <=? iter)%nat = true ->
  p_u st = [G1 c xs x0] -> p_r st = [res1 k xs x0] ->
  thr < (res1 k xs x1 - res1 k xs x0) * (res1 k xs x1 - res1 k xs x0) ->
  snd (secant_step RF trig thr st iter [G1 c xs x1] [res1 k xs x1]) = [xs].
Proof.
  intros Ht Hi Hu Hr Hg. unfold secant_step. simpl snd. rewrite Hi, Hu, Hr. cbn.
  assert (NZ : res1 k xs x1 - res1 k xs x0 <> 0) by (apply sqr_pos_neq; lra).
  destruct (Rlt_dec _ _) as [_|N]; [|exfalso; apply N; lra].
  f_equal. unfold G1, res1 in *. field. intros E. apply NZ. nra.
Qed.

Lemma ironstuck_exact_1d c xs x0 trig thr iter st :
  0 <= thr -> ((trig <=? iter)%nat && Nat.even (iter - trig))%bool = true ->
  let x1 := G1 c xs x0 in
  p_r st = [- (x0 - G1 c xs x0)] ->
  thr < ((- (x1 - G1 c xs x1)) - (- (x0 - G1 c xs x0))) * ((- (x1 - G1 c xs x1)) - (- (x0 - G1 c xs x0))) ->
  snd (ironstuck_step RF trig thr st iter [G1 c xs x1] [x1 - G1 c xs x1]) = [xs].
Proof.
  intros Ht Hi x1 Hr Hg. unfold ironstuck_step. simpl snd. rewrite Hi, Hr. cbn.
  assert (NZ : (- (x1 - G1 c xs x1)) - (- (x0 - G1 c xs x0)) <> 0) by (apply sqr_pos_neq; lra).
  destruct (Rlt_dec _ _) as [_|N]; [|exfalso; apply N; lra].
  f_equal. unfold x1, G1 in *. field. intros E. apply NZ. nra.
Qed.

Lemma steffensen_exact_1d c xs x0 trig eps iter st :
  0 <= eps -> ((trig <=? iter)%nat && Nat.even (iter - trig))%bool = true ->
  let x1 := G1 c xs x0 in let x2 := G1 c xs x1 in
  let u0 := G1 c xs x0 in let u1 := G1 c xs x1 in let u2 := G1 c xs x2 in
  q_u1 st = [u0] -> q_u2 st = [u1] ->
  eps < Rabs (u2 - u1) -> eps < Rabs (u1 - u0) -> eps < Rabs (1 / (u2 - u1) - 1 / (u1 - u0)) ->
  snd (steffensen_step RF trig eps st iter [u2]) = [xs].
Proof.
  intros He Hi x1 x2 u0 u1 u2 H1 H2 G2 G1' G3. unfold steffensen_step. simpl snd. rewrite Hi, H1, H2. cbn.
  unfold steffensen_comp. cbn.
  destruct (Rlt_dec eps (Rabs (u2 - u1))) as [_|N]; [|contradiction].
  destruct (Rlt_dec eps (Rabs (u1 - u0))) as [_|N]; [|contradiction]. cbn.
  destruct (Rlt_dec _ _) as [_|N]; [|contradiction].
  assert (A : u2 - u1 <> 0) by (intros E; rewrite E, Rabs_R0 in G2; lra).
  assert (B : u1 - u0 <> 0) by (intros E; rewrite E, Rabs_R0 in G1'; lra).
  assert (C : 1 / (u2 - u1) - 1 / (u1 - u0) <> 0) by (intros E; rewrite E, Rabs_R0 in G3; lra).
  f_equal.
  assert (E : u1 + 1 / (1 / (u2 - u1) - 1 / (u1 - u0)) = u1 + (u2 - u1) * (u1 - u0) / ((u1 - u0) - (u2 - u1))).
  { field. repeat split; auto. intros Z. apply C. field_simplify_eq; auto. lra. }
  rewrite E. clear E C G3.
  unfold u0, u1, u2, x2, x1, G1 in *.
  assert (c <> 0) by (intros Z; apply B; rewrite Z; ring).
  assert (x0 - xs <> 0) by (intros Z; apply B; replace x0 with xs by lra; ring).
  assert (c - 1 <> 0) by (intros Z; apply B; replace c with 1 by lra; ring).
  field. intros Z. apply A. nra.
Qed.

Lemma castem_exact_1d k c xs x0 x1 x2 trig per eps2 iter st :
  0 <= eps2 -> ((trig <=? iter)%nat && ((iter - trig) mod per =? 0)%nat)%bool = true ->
  q_u1 st = [G1 c xs x0] -> q_u2 st = [G1 c xs x1] -> q_r1 st = [res1 k xs x0] -> q_r2 st = [res1 k xs x1] ->
  eps2 < (res1 k xs x1 - res1 k xs x0) * (res1 k xs x1 - res1 k xs x0) ->
  snd (castem_step RF trig per eps2 st iter [G1 c xs x2] [res1 k xs x2]) = [xs].
Proof.
  intros He Hi U1 U2 R1 R2 Hg. unfold castem_step. simpl snd. rewrite Hi, U1, U2, R1, R2.
  unfold castem_combine. cbn.
  assert (NZ : res1 k xs x1 - res1 k xs x0 <> 0) by (apply sqr_pos_neq; lra).
  destruct (Rlt_dec eps2 _) as [_|N]; [|exfalso; apply N; lra].
  set (t0 := res1 k xs x1 - res1 k xs x0) in *. set (t1 := res1 k xs x2 - res1 k xs x0).
  assert (Z : t1 - (t1 * t0 + 0) / (t0 * t0 + 0) * t0 = 0) by (field; auto).
  rewrite Z.
  destruct (Rlt_dec _ _) as [L|_]; [exfalso; nra|].
  cbn. f_equal. unfold t0, G1, res1 in *. field. intros E. apply NZ. nra.
Qed.

Lemma altsecant_exact_1d c xs x0 x1 trig thr iter st :
  0 <= thr -> (trig <=? iter)%nat = true ->
  p_u st = [G1 c xs x0] -> p_r st = [- (x0 - G1 c xs x0)] ->
  thr < ((- (x1 - G1 c xs x1)) - (- (x0 - G1 c xs x0))) * ((- (x1 - G1 c xs x1)) - (- (x0 - G1 c xs x0))) ->
  snd (altsecant_step RF trig thr st iter [G1 c xs x1] [x1 - G1 c xs x1]) = [xs].
Proof.
  intros Ht Hi Hu Hr Hg. unfold altsecant_step. simpl snd. rewrite Hi, Hu, Hr. cbn.
  assert (NZ : (- (x1 - G1 c xs x1)) - (- (x0 - G1 c xs x0)) <> 0) by (apply sqr_pos_neq; lra).
  destruct (Rlt_dec _ _) as [_|N]; [|exfalso; apply N; lra].
  f_equal. unfold G1 in *. field. intros E. apply NZ. nra.
Qed.

Lemma crossedsecant_exact_1d c xs x0 x1 trig thr iter st :
  0 <= thr -> (trig <=? iter)%nat = true ->
  p_u st = [G1 c xs x0] -> p_r st = [- (x0 - G1 c xs x0)] ->
  thr < ((- (x1 - G1 c xs x1)) - (- (x0 - G1 c xs x0))) * ((- (x1 - G1 c xs x1)) - (- (x0 - G1 c xs x0))) ->
  snd (crossedsecant_step RF trig thr st iter [G1 c xs x1] [x1 - G1 c xs x1]) = [xs].
Proof.
  intros Ht Hi Hu Hr Hg. unfold crossedsecant_step. simpl snd. rewrite Hi, Hu, Hr. cbn.
  assert (NZ : (- (x1 - G1 c xs x1)) - (- (x0 - G1 c xs x0)) <> 0) by (apply sqr_pos_neq; lra).
  destruct (Rlt_dec _ _) as [_|N]; [|exfalso; apply N; lra].
  f_equal. unfold G1 in *. field. intros E. apply NZ. nra.
Qed.

(* ================================================================ Anderson weights, two stored fields *)
Lemma dot_comm (a : V) : forall b, dot RF a b = dot RF b a.
Proof. induction a; destruct b; simpl; auto. rewrite IHa. ring. Qed.

(* the weights sum to one and the combined D field  w0 D0 + w1 D1  is orthogonal to D0 - D1 (least-squares optimality) *)
Lemma anderson2_optimal (D0 D1 : V) w0 w1 :
  anderson_weights RF [D0; D1] = Some [w0; w1] ->
  w0 + w1 = 1 /\ w0 * dot RF D0 D0 + w1 * dot RF D0 D1 = w0 * dot RF D0 D1 + w1 * dot RF D1 D1.
Proof.
  unfold anderson_weights, gram, normalise. simpl length. cbn -[dot].
  rewrite (dot_comm D1 D0).
  set (c00 := dot RF D0 D0). set (c01 := dot RF D0 D1). set (c11 := dot RF D1 D1).
  destruct (Req_EM_T c00 0) as [|P0]; [discriminate|].
  destruct (Req_EM_T (c11 - c01 / c00 * c01) 0) as [|P1]; [discriminate|].
  cbn.
  set (b := (1 - c01 / c00 * 1 - 0) / (c11 - c01 / c00 * c01)).
  set (a := (1 - (c01 * b + 0)) / c00).
  destruct (Req_EM_T _ 0) as [|Pd]; [discriminate|].
  intros E. injection E as <- <-.
  assert (E1 : a * c00 + b * c01 = 1) by (unfold a; field; auto).
  assert (P1' : c11 * c00 - c01 * c01 <> 0).
  { intros Z. apply P1. replace (c11 - c01 / c00 * c01) with ((c11 * c00 - c01 * c01) / c00) by (field; auto).
    rewrite Z. unfold Rdiv. ring. }
  assert (E2 : a * c01 + b * c11 = 1).
  { unfold a, b. field. repeat split; auto; intros Q; apply P1'; lra. }
  assert (Pd' : a + b <> 0) by (intros Z; apply Pd; lra).
  split.
  - field. intros Z; apply Pd'; lra.
  - replace (a / (a + (b + 0)) * c00 + b / (a + (b + 0)) * c01) with ((a * c00 + b * c01) / (a + b)) by (field; auto).
    replace (a / (a + (b + 0)) * c01 + b / (a + (b + 0)) * c11) with ((a * c01 + b * c11) / (a + b)) by (field; auto).
    rewrite E1, E2. reflexivity.
Qed.

(* in dimension one two stored fields are always linearly dependent: the weights are not defined by C^-1 1 (zero pivot).
   (The C++ then goes through the degenerate path of GSFactorD, which is not modelled.) *)
Lemma anderson_1d_degenerate d0 d1 : anderson_weights RF [[d0]; [d1]] = None.
Proof.
  unfold anderson_weights, gram, normalise. cbn.
  destruct (Req_EM_T (d0 * d0 + 0) 0) as [|P0]; [reflexivity|].
  destruct (Req_EM_T _ 0) as [|P1]; [reflexivity|].
  assert (d0 <> 0) by (intros Z; apply P0; rewrite Z; ring).
  exfalso. apply P1. field. repeat split; auto; nra.
Qed.

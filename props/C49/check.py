import sys
sys.path.insert(0, "/verif/tools")
from vlib import guarded_main
ALGOS = ["Cast3M", "Secant", "AlternateSecant", "AlternateDelta2", "Alternate2Delta", "CrossedSecant", "CrossedDelta2", "Crossed2Delta", "Crossed2Deltabis", "Steffensen", "IronsTuck", "UAnderson", "FAnderson"]
FILES = {"Cast3M": "Castem"}
REPO_SRC = ["mtest/src/GenericSolver.cxx", "mtest/src/AccelerationAlgorithm.cxx", "mtest/src/AccelerationAlgorithmFactory.cxx", "mtest/src/RoundingMode.cxx",
            "mtest/src/StudyCurrentState.cxx", "mtest/src/SolverOptions.cxx", "mtest/src/Solver.cxx", "mtest/src/Study.cxx"] + \
           ["mtest/src/%sAccelerationAlgorithm.cxx" % FILES.get(a, a) for a in ALGOS]
LIBS = ["-lTFELMTest", "-lTFELMathParser", "-lTFELMathKriging", "-lTFELMath", "-lTFELUtilities", "-lTFELException", "-lTFELTests", "-lTFELSystem", "-lMFrontLogStream"]
def main(c):
    exe = c.cxx("driver", ["driver.cxx"], REPO_SRC, flags=["-ffp-contract=off"], libs=LIBS, link_repo_libs=True)
    print(exe)
guarded_main("C49", main)

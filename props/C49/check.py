"""C49 -- MTest results do not depend on solver options (acceleration algorithms, GenericSolver).
Engine H: Gallina models (C49Model.v, over a record of field operations) of the 13 acceleration algorithms (Anderson weights both as C^-1 1 and
as the Gram-Schmidt factorisation with dropped directions of the code; Cast3M also in the square-root form of the source) and of the control flow
of GenericSolver::iterate/execute; Coq theorems over R (fixed points preserved, exactness on scalar affine problems, Anderson weights, Cast3M
forms equal, a step is accepted only on a `converged` verdict within iterMax iterations, distance between two accepted states for a strongly
monotone residual).  Tie: the REAL classes compiled from the working tree, fed scripted iterate sequences of dyadic rationals (one or several
resolutions; rank-deficient Anderson data), outputs compared with the models run on Q inside Coq (vm_compute); closed-loop runs of the real
classes on affine maps checked against the theorem statements; the REAL GenericSolver::execute on scripted convergence verdicts against the
control-flow model, and on scripted monotone problems under every algorithm x prediction policy x stiffness type x rounding mode x iterMax: no
step accepted on a `not converged` verdict, converged states compared pairwise with the proved bound (search only)."""
import math, re
from concurrent.futures import ThreadPoolExecutor
from fractions import Fraction as Fr
from vlib import guarded_main

ALGOS = ["Cast3M", "Secant", "AlternateSecant", "AlternateDelta2", "Alternate2Delta", "CrossedSecant", "CrossedDelta2", "Crossed2Delta",
         "Crossed2Deltabis", "Steffensen", "IronsTuck", "UAnderson", "FAnderson"]
NEW5 = ["AlternateDelta2", "Alternate2Delta", "CrossedDelta2", "Crossed2Delta", "Crossed2Deltabis"]
MODELLED = ["Secant", "AlternateSecant", "CrossedSecant", "IronsTuck", "Steffensen", "Cast3M"] + NEW5 + ["UAnderson", "FAnderson"]
FILES = {"Cast3M": "Castem"}
REPO_SRC = ["mtest/src/GenericSolver.cxx", "mtest/src/AccelerationAlgorithm.cxx", "mtest/src/AccelerationAlgorithmFactory.cxx",
            "mtest/src/RoundingMode.cxx", "mtest/src/StudyCurrentState.cxx", "mtest/src/SolverOptions.cxx", "mtest/src/Solver.cxx",
            "mtest/src/Study.cxx"] + ["mtest/src/%sAccelerationAlgorithm.cxx" % FILES.get(a, a) for a in ALGOS]
LIBS = ["-lTFELMTest", "-lTFELMathParser", "-lTFELMathKriging", "-lTFELMath", "-lTFELUtilities", "-lTFELException", "-lTFELTests",
        "-lTFELSystem", "-lMFrontLogStream"]
EPS = Fr(1, 2 ** 52)
# default triggers / periods of the classes (initialize()), also given explicitly through setParameter in part of the cases
DEFAULT_TRIGGER = {"Secant": 3, "AlternateSecant": 2, "CrossedSecant": 2, "IronsTuck": 2, "Steffensen": 3, "Cast3M": 4,
                   "AlternateDelta2": 3, "Alternate2Delta": 2, "CrossedDelta2": 3, "Crossed2Delta": 2, "Crossed2Deltabis": 2}
THR99 = Fr(0.99)                  # the double 0.99 of the 2Delta variants
GS_EPS2 = (100 * EPS) ** 2        # eps^2 of CovarianceMatrix::GSFactorD (eps = 100*epsilon)
NEW5_STEP = {"AlternateDelta2": ("altdelta2_step QF %(trig)d %(thr)s", "st5_init"), "Alternate2Delta": ("alt2delta_step QF %(trig)d %(thr)s %(t99)s", "st5_init"),
             "CrossedDelta2": ("crosseddelta2_step QF %(trig)d %(thr)s", "st5_init"), "Crossed2Delta": ("crossed2delta_step QF %(trig)d %(thr)s %(t99)s", "st5_init"),
             "Crossed2Deltabis": ("crossed2deltabis_step QF true %(trig)d %(thr)s %(t99)s", "st6_init")}

HEADER = """From Coq Require Import List ZArith QArith.
From C49 Require Import C49Model.
Import ListNotations.
Definition pq (q : Q) := (Qnum q, Zpos (Qden q)).
Definition pv (l : list (list Q)) := map (map pq) l.
Definition po (l : list (option (list Q))) := map (fun o => match o with Some v => Some (map pq v) | None => None end) l.
Definition I2 := (list Q * list Q)%type.
"""


def q(x):
    """Q literal; dyadic denominators are written as powers of two (large decimal literals are slow to elaborate)"""
    x = Fr(x)
    d = x.denominator
    if d > 1 and d & (d - 1) == 0:
        return "(Qmake (%d) (Pos.pow 2 %d))" % (x.numerator, d.bit_length() - 1)
    return "(Qmake (%d) %d)" % (x.numerator, d)


def qv(v):
    return "[" + "; ".join(q(x) for x in v) + "]"


def hexf(x):
    return float(x).hex()


def model_term(algo, params, dim, eeps, seps, script, iters=None, thr99=THR99, gs=True):
    """Coq term computing the outputs of the model on a script of (u1, du, r); iters: the iteration number of every entry (several
    resolutions in a row), default 1, 2, 3, ..."""
    it_eps = 100 * eeps * EPS
    sa_eps = 100 * seps * EPS
    trig = params.get("AccelerationTrigger", DEFAULT_TRIGGER.get(algo, 0))
    iters = iters or list(range(1, len(script) + 1))

    def runner(stepfun, init, entries):
        data = "[" + "; ".join("(%d%%nat, %s)" % (it, e) for it, e in zip(iters, entries)) + "]"
        return "pv (run_it (fun st it (x : I2) => %s st it (fst x) (snd x)) (%s QF %d) %s)" % (stepfun, init, dim, data)
    if algo == "Secant":
        return runner("secant_step QF %d %s" % (trig, q(sa_eps)), "st2_init", ["(%s, %s)" % (qv(u), qv(r)) for u, du, r in script])
    if algo in ("AlternateSecant", "CrossedSecant", "IronsTuck"):
        f = {"AlternateSecant": "altsecant_step", "CrossedSecant": "crossedsecant_step", "IronsTuck": "ironstuck_step"}[algo]
        return runner("%s QF %d %s" % (f, trig, q(it_eps * it_eps)), "st2_init", ["(%s, %s)" % (qv(u), qv(du)) for u, du, r in script])
    if algo in NEW5:
        f, init = NEW5_STEP[algo]
        return runner(f % {"trig": trig, "thr": q(it_eps * it_eps), "t99": q(thr99)}, init, ["(%s, %s)" % (qv(u), qv(du)) for u, du, r in script])
    if algo == "Steffensen":
        data = "[" + "; ".join("(%d%%nat, %s)" % (it, qv(u)) for it, (u, du, r) in zip(iters, script)) + "]"
        return "pv (run_it (fun st it (x : list Q) => steffensen_step QF %d %s st it x) (st3_init QF %d) %s)" % (trig, q(it_eps), dim, data)
    if algo == "Cast3M":
        per = params.get("AccelerationPeriod", 2)
        return runner("castem_step QF %d %d %s" % (trig, per, q(sa_eps * sa_eps)), "st3_init", ["(%s, %s)" % (qv(u), qv(r)) for u, du, r in script])
    nmax, almax = params.get("MethodOrder", 4), params.get("AccelerationPeriod", 2)
    # gs: the weights as the code computes them (Gram-Schmidt, dropped directions); else C^-1 1/(1^T C^-1 1) by Gauss elimination
    if algo == "UAnderson":
        data = "[" + "; ".join("(%s, %s)" % (qv(u), qv(du)) for u, du, r in script) + "]"
        f = ("uanderson_gs_step QF %s" % q(GS_EPS2)) if gs else "uanderson_step QF"
    else:
        data = "[" + "; ".join("(%s, %s)" % (qv(u), qv(r)) for u, du, r in script) + "]"
        f = ("fanderson_gs_step QF %s" % q(GS_EPS2)) if gs else "fanderson_step QF"
    return "po (run_opt (fun st it (x : I2) => %s %d %d st it (fst x) (snd x)) (ast_init QF %d %d) 1%%nat %s)" % (f, nmax, almax, almax, dim, data)


def castem_near_tie(script, seps):
    """True when one Cast3M branch condition of the script is (nearly) an equality: the real code evaluates it with sqrt and
    rounding, the model exactly; such scripts are not used (filter only, never an oracle)"""
    ca2 = (100 * seps * EPS) ** 2
    dot = lambda a, b: sum(x * y for x, y in zip(a, b))
    rs = [None, None] + [r for u, du, r in script]
    for i in range(2, len(rs)):
        r0, r1, r2 = rs[i - 2], rs[i - 1], rs[i]
        if r0 is None or r1 is None:
            z = [Fr(0)] * len(r2)
            r0 = r0 or z
            r1 = r1 or z
        t0 = [a - b for a, b in zip(r1, r0)]
        t1 = [a - b for a, b in zip(r2, r0)]
        n0 = dot(t0, t0)
        if n0 != 0 and abs(n0 - ca2) <= Fr(1, 10 ** 6) * ca2:
            return True
        if n0 > ca2:
            s = dot(t1, t0)
            t1p = [a - s / n0 * b for a, b in zip(t1, t0)]
            lhs, rhs = s * s, 100 * dot(t1p, t1p) * n0
            if lhs != 0 and lhs != rhs and abs(lhs - rhs) <= Fr(1, 10 ** 6) * max(lhs, rhs):
                return True
            if lhs == rhs and lhs != 0:
                return True
    return False


def gen_script(rng, algo, dim, niter, kind):
    """scripted (u1, du, r) per iteration, dyadic rationals k/8 * 2^-j"""
    if kind == "tiny":
        j = rng.randint(18, 30) if algo == "Secant" else rng.randint(40, 56)
        scale = Fr(1, 2 ** j)
    else:
        scale = Fr(1)
    val = lambda: Fr(rng.randint(-40, 40), 8) * scale
    vec = lambda: [val() for _ in range(dim)]
    script = []
    base, dirv = vec(), vec()
    for it in range(niter):
        u, du, r = vec(), vec(), vec()
        if kind == "collinear":       # residuals on a line (Cast3M second branch), G-values generic
            k = Fr(rng.randint(-6, 6))
            r = [b + k * d for b, d in zip(base, dirv)]
            du = [b - k * d for b, d in zip(base, dirv)]
        if kind == "repeat" and script and rng.random() < 0.4:   # unchanged inputs: zero differences, guards fail
            u, du, r = script[-1]
            if rng.random() < 0.5:
                u = vec()
        if kind == "arith" and len(script) >= 2 and rng.random() < 0.6:   # arithmetic progression of G-values (Steffensen: i1 = i2)
            u = [2 * a - b for a, b in zip(script[-1][0], script[-2][0])]
        if kind == "collinear2":      # du on a line: the 2x2 systems of the 2Delta variants are singular, or nearly (fallback branch)
            k = Fr(rng.randint(-6, 6))
            du = [b + k * d for b, d in zip(base, dirv)] if rng.random() < 0.7 else du
        script.append((u, du, r))
    return script


def gen_deficient(rng, algo, dim, niter, family):
    """Anderson scripts whose stored D fields are linearly dependent, chosen so that every floating-point operation of GSFactorD is exact:
    rank1: every D field is +-2^m times one small-integer vector (all but the newest direction dropped);
    axes (FAnderson): D fields +-2^m e_a along the coordinate axes, with repeats (a repeated axis is dropped)."""
    base = [Fr(rng.randint(-3, 3)) for _ in range(dim)]
    if all(b == 0 for b in base):
        base[0] = Fr(1)

    def field():
        sgn, m = rng.choice([-1, 1]), rng.randint(-3, 3)
        if family == "axes":
            a = rng.randrange(dim)
            return [Fr(sgn) * Fr(2) ** m if i == a else Fr(0) for i in range(dim)]
        return [Fr(sgn) * Fr(2) ** m * b for b in base]
    val = lambda: Fr(rng.randint(-40, 40), 8)
    script, prev = [], None
    for it in range(niter):
        D = field()
        if algo == "FAnderson":
            u, du, r = [val() for _ in range(dim)], [val() for _ in range(dim)], D
        else:
            # UAnderson: D_1 = -du_1; D_n = (previous output) - u1_n, and with every older direction dropped the previous output is u1_{n-1}
            if prev is None:
                u, du = [val() for _ in range(dim)], [-x for x in D]
            else:
                u, du = [a - x for a, x in zip(prev, D)], [val() for _ in range(dim)]
            r = [val() for _ in range(dim)]
            prev = u
        script.append((u, du, r))
    return script


def parse_pairs(txt):
    """[[(n, d); ...]; ...] or [Some [...]; None] -> list of lists of Fractions / None"""
    out = []
    body = txt.strip()
    for m in re.finditer(r"None|\[((?:\s*\(\s*\(?-?\d+\)?\s*,\s*\d+\s*\)\s*;?)*)\]", body):
        if m.group(0) == "None":
            out.append(None)
        else:
            out.append([Fr(int(a), int(b)) for a, b in re.findall(r"\(\s*\(?(-?\d+)\)?\s*,\s*(\d+)\s*\)", m.group(1))])
    return out


def main(c):
    exe = c.cxx("driver", ["driver.cxx"], REPO_SRC, flags=["-ffp-contract=off", "-frounding-math"], libs=LIBS, link_repo_libs=True)
    c.trusted("driver props/C49/driver.cxx (SEQ: scripted inputs to AccelerationAlgorithm::execute; LOOP: closed loop on an affine map; SOLVE: scripted "
              "monotone Study around the real GenericSolver::execute, modelled on MTest::checkConvergence / initializeWorkSpace)",
              "files not listed in the driver's repo_sources (LUSolve is header-only; MFrontLogStream, tfel::raise, vector/matrix support) come from /repo/include and the "
              "libraries built in /repo/_build",
              "the harness computes the thresholds handed to the models (100*eps*2^-52 and its square) and filters Cast3M scripts whose branch conditions are near ties",
              "the Anderson weights of the code (GSFactorD on the packed Gram matrix) are modelled on the vectors themselves (same numbers in exact arithmetic)")
    rng = c.rng
    # ================================================================ theorems: in the background (2 coqc at a time + the evaluations of the main thread)
    r0 = c.coq(["C49Model.v"], timeout=900)
    if not r0.ok:
        c.coq_failures(r0)
        return
    results = [r0]

    def prove():
        r1 = c.coq(["C49Spec.v", "C49Proofs.v"], 900)
        results.append(r1)
        if not r1.ok:
            return
        with ThreadPoolExecutor(max_workers=2) as pool:
            fa = pool.submit(c.coq, ["Properties_C49.v"], 900)
            fb = pool.submit(c.coq, ["C49ProofsB.v", "Properties_C49_b.v"], 900)
            results.extend([fa.result(), fb.result()])
    bg = ThreadPoolExecutor(max_workers=1)
    fut = bg.submit(prove)
    try:
        stages(c, exe, rng)
    finally:
        fut.result()
        bg.shutdown()
    c.coverage["obligations"] = max(sum(len(r.theorems) for r in results), NTHEOREMS)
    c.coverage["discharged"] = sum(len(r.discharged) for r in results)
    c.coverage["checker_cmd"] = ("coqc -Q coq/lib VLib -R <scratch> C49 <files: C49Model.v C49Spec.v C49Proofs.v C49ProofsB.v Properties_C49.v Properties_C49_b.v> "
                                 "(Coq 8.16.1, full .vo compilation)")
    for r in results:
        if not r.ok:
            c.coq_failures(r)


NTHEOREMS = 38      # Properties_C49.v 19 + Properties_C49_b.v 19


def stages(c, exe, rng):
    # ================================================================ (1) scripted sequences: real classes vs model on Q
    ncase = c.pick(22, 150)
    cases = []      # (algo, params, dim, eeps, seps, kind, script, iters)
    for algo in MODELLED:
        kinds = ["random", "random", "repeat", "tiny", "multi"]
        if algo == "Cast3M":
            kinds = ["random", "random", "collinear", "collinear", "repeat", "tiny", "multi"]
        if algo == "Steffensen":
            kinds = ["random", "arith", "arith", "repeat", "tiny", "multi"]
        if algo in NEW5:
            kinds = ["random", "random", "collinear2", "repeat", "tiny", "multi", "multi"]
        if algo in ("UAnderson", "FAnderson"):
            kinds = ["random", "random", "rank1", "axes" if algo == "FAnderson" else "rank1"]
        k = 0
        while k < ncase:
            kind = kinds[k % len(kinds)]
            params = {}
            iters = None
            if algo in ("UAnderson", "FAnderson"):
                params = {"MethodOrder": rng.choice([2, 2, 3, 4]), "AccelerationPeriod": rng.choice([1, 2, 3])}
                niter = rng.randint(4, 9)
                if kind == "random":
                    dim = params["MethodOrder"] + rng.randint(1, 2)    # Gram matrices non singular
                    if algo == "UAnderson":
                        # the previous (accelerated) output is fed back into the D fields: in exact arithmetic the size of the rationals is
                        # multiplied by ~8 at every accelerated iteration; at most 4 of them
                        niter = min(niter, 2 + 3 * params["AccelerationPeriod"])
                    script = gen_script(rng, algo, dim, niter, kind)
                else:
                    dim = rng.randint(1, 3) if kind == "rank1" else rng.randint(2, 3)
                    script = gen_deficient(rng, algo, dim, niter, kind)
            else:
                dim = rng.randint(1, 3)
                niter = rng.randint(4, 8)
                if rng.random() < 0.5:
                    lo = 3 if algo in ("Secant", "Steffensen", "Cast3M") else 2
                    params["AccelerationTrigger"] = rng.randint(lo, 5)
                if algo == "Cast3M" and rng.random() < 0.5:
                    params["AccelerationPeriod"] = rng.randint(1, 3)
                if kind == "multi":       # two or three resolutions in a row (the state of the algorithm is kept from one to the next)
                    iters = []
                    for _ in range(rng.randint(2, 3)):
                        iters += list(range(1, rng.randint(2, 5) + 1))
                    niter = len(iters)
                script = gen_script(rng, algo, dim, niter, "random" if kind == "multi" else kind)
            eeps, seps = Fr(1, 2 ** rng.choice([3, 10, 20])), Fr(1, 2 ** rng.choice([3, 10, 20]))
            if algo == "Cast3M" and castem_near_tie(script, seps):
                continue
            cases.append((algo, params, dim, eeps, seps, kind, script, iters))
            k += 1
    lines, v, vmap = [], [HEADER], []
    for algo, params, dim, eeps, seps, kind, script, iters in cases:
        head = "%s %d %s %d %d %s %s" % (algo, len(params), " ".join("%s %d" % kv for kv in sorted(params.items())), dim, len(script), hexf(eeps), hexf(seps))
        if iters is None:
            lines.append("SEQ " + head + " " + " ".join(" ".join(hexf(x) for x in u + du + r) for u, du, r in script))
        else:
            lines.append("SEQI " + head + " " + " ".join("%d " % it + " ".join(hexf(x) for x in u + du + r) for it, (u, du, r) in zip(iters, script)))
        v.append("Eval vm_compute in %s." % model_term(algo, params, dim, eeps, seps, script, iters))
        vmap.append(len(v) - 2)
        if "Anderson" in algo and kind == "random":
            # full-rank sequences also through the weights defined by C^-1 1 / (1^T C^-1 1) (the model the optimality theorem is about)
            v.append("Eval vm_compute in %s." % model_term(algo, params, dim, eeps, seps, script, iters, gs=False))
    rc, out, err = c.run([exe], input="\n".join(lines) + "\n", timeout=300)
    res = [l for l in out.splitlines() if l[:2] in ("O ", "X ", "E ") or l == "O"]
    if rc != 0 or len(res) != len(lines):
        c.report("driver", "driver failed (rc=%d, %d answers for %d commands): %s" % (rc, len(res), len(lines), err[-400:]), {"stderr": err[-3000:]}, False)
        return
    rc, mout, merr = c.coq_eval(["C49Model.v"], "\n".join(v) + "\n", timeout=900)
    if rc != 0:
        c.report("model-eval", "model evaluation failed: " + merr[-600:], {"stderr": merr[-3000:]}, False)
        return
    mall = [parse_pairs(ch.split("\n     : ")[0].replace("%Z", "")) for ch in re.split(r"(?m)^\s{5}= ", mout)[1:]]
    if len(mall) != len(v) - 1:
        c.report("model-eval", "model returned %d results for %d queries" % (len(mall), len(v) - 1), {"stdout": mout[-2000:]}, False)
        return
    mres = [mall[i] for i in vmap]
    nundef, nties, ndrop = 0, 0, 0
    accel = {a: 0 for a in MODELLED}

    def differs(mm, real, script, dim, tol_rel):
        mag = max([abs(x) for u, du, r in script for x in u + du + r] + [Fr(0)])
        for it, (mo, ro) in enumerate(zip(mm, real)):
            if mo is None:
                return None
            for i in range(dim):
                if not (abs(ro[i] - float(mo[i])) <= tol_rel * float(mag + abs(mo[i]))):
                    return (it + 1, i, ro[i], float(mo[i]))
        return None
    for ci, ((algo, params, dim, eeps, seps, kind, script, iters), line, mm) in enumerate(zip(cases, res, mres)):
        key = "seq:%s:%s:%d:%s:%s:%s:%s" % (algo, ",".join("%s=%d" % kv for kv in sorted(params.items())), dim, hexf(eeps), hexf(seps),
                                           ",".join(map(str, iters)) if iters else "-", ";".join(",".join(str(x) for x in u + du + r) for u, du, r in script))
        if not line.startswith("O"):
            c.count(1, key, False)
            c.report(key, "%s%r raised on the script %r: %s" % (algo, params, script, line), {"algo": algo, "params": params, "script": repr(script), "real": line}, True)
            continue
        real = [float.fromhex(x) if "x" in x else float(x) for x in line.split()[1:]]
        real = [real[i * dim:(i + 1) * dim] for i in range(len(script))]
        tol_rel = 1e-7 if "Anderson" in algo else 1e-9
        nontrivial = False
        for it, mo in enumerate(mm):
            if mo is None:       # weights undefined in the model (0/0: every direction dropped)
                nundef += 1
                break
            if any(a != b for a, b in zip(mo, script[it][0])):
                nontrivial = True
                accel[algo] += 1
        if kind in ("rank1", "axes"):
            ndrop += 1
        bad = differs(mm, real, script, dim, tol_rel)
        if bad and algo in NEW5 and algo != "AlternateDelta2" and algo != "CrossedDelta2":
            # the branch test `ratio < 0.99` is evaluated in floating point by the code, exactly by the model: a script on which the model run
            # with a slightly different threshold agrees with the code is a near tie and is not used (filter only, never an oracle)
            alt = [model_term(algo, params, dim, eeps, seps, script, iters, thr99=THR99 + d) for d in (Fr(1, 10 ** 6), -Fr(1, 10 ** 6))]
            rc2, o2, e2 = c.coq_eval(["C49Model.v"], HEADER + "".join("Eval vm_compute in %s.\n" % t for t in alt), timeout=300)
            alts = [parse_pairs(ch.split("\n     : ")[0].replace("%Z", "")) for ch in re.split(r"(?m)^\s{5}= ", o2)[1:]] if rc2 == 0 else []
            if any(differs(a, real, script, dim, tol_rel) is None for a in alts):
                nties += 1
                bad = None
        if not bad and "Anderson" in algo and kind == "random":
            bad = differs(mall[vmap[ci] + 1], real, script, dim, tol_rel)
        c.count(1, key, nontrivial)
        if bad and len(c.violations) < 4:
            c.report(key, "%s (parameters %r, dimension %d, eeps=%s, seps=%s) fed the scripted iterates (u1, du, r) = %s%s returns at entry %d component %d "
                     "the value %r; the model of the acceleration formula (run on Q) gives %r" % (
                         algo, params, dim, eeps, seps, [tuple([float(x) for x in w] for w in t) for t in script],
                         " with iteration numbers %r" % iters if iters else "", bad[0], bad[1], bad[2], bad[3]),
                     {"algo": algo, "params": params, "dim": dim, "eeps": str(eeps), "seps": str(seps), "script": [[[str(x) for x in w] for w in t] for t in script],
                      "iterations": iters, "real": real, "model": [[str(x) for x in mo] if mo is not None else None for mo in mm], "driver_line": line}, True)
    c.sample({"seq_case": {"algo": cases[0][0], "params": cases[0][1], "dim": cases[0][2], "script": [[[str(x) for x in w] for w in t] for t in cases[0][6]]},
              "real": res[0][:200], "model": [[str(x) for x in mo] for mo in mres[0] if mo is not None]})
    # ================================================================ (2) the theorem statements on the real classes (independent of the model)
    lines2, meta = [], []
    nloop = c.pick(6, 40)
    for algo in ALGOS:
        for k in range(nloop):
            # (a) scalar affine map G(x) = xs + cc (x - xs), r = kk (x - G x): exactness
            xs = Fr(rng.randint(-16, 16), 4)
            cc = Fr(rng.choice([-5, -3, -2, 2, 3, 5, 6]), 8)
            kk = Fr(rng.choice([1, 2, 4, 8]))
            x0 = xs + Fr(rng.choice([-8, -4, -2, 2, 4, 8]), 2)
            lines2.append("LOOP %s 0 1 8 %s %s %s %s %s %s" % (algo, hexf(Fr(1, 2 ** 30)), hexf(Fr(1, 2 ** 30)), hexf(kk), hexf(xs), hexf(cc), hexf(x0)))
            meta.append(("affine1", algo, (xs, cc, kk, x0)))
        for k in range(c.pick(3, 20)):
            # (b) iterates at the fixed point: u1 = x*, du = 0, r = 0 at every iteration
            dim = rng.randint(1, 3)
            xst = [Fr(rng.randint(-40, 40), 8) for _ in range(dim)]
            one = " ".join(hexf(x) for x in xst + [Fr(0)] * (2 * dim))
            lines2.append("SEQ %s 0 %d 6 %s %s %s" % (algo, dim, hexf(Fr(1, 2 ** 30)), hexf(Fr(1, 2 ** 30)), " ".join([one] * 6)))
            meta.append(("fixed", algo, xst))
    rc, out, err = c.run([exe], input="\n".join(lines2) + "\n", timeout=300)
    res2 = [l for l in out.splitlines() if l[:2] in ("O ", "L ", "X ", "E ")]
    if rc != 0 or len(res2) != len(lines2):
        c.report("driver2", "driver failed on the closed-loop runs: " + err[-400:], {"stderr": err[-3000:]}, False)
        return
    # first iteration after which the iterate must be the solution of the scalar affine problem (from the theorems + default triggers);
    # None: no exactness claimed (Anderson: rank-deficient Gram matrix in dimension 1, theorem C49_anderson_gs_1d_drops_older)
    EXACT_AT = {"Secant": 3, "AlternateSecant": 2, "CrossedSecant": 2, "IronsTuck": 2, "Steffensen": 3, "Cast3M": 4,
                "AlternateDelta2": 3, "Alternate2Delta": 2, "CrossedDelta2": 3, "Crossed2Delta": 2, "Crossed2Deltabis": 2}
    nan_fixed = {}
    for (kind, algo, data), line in zip(meta, res2):
        vals = [float.fromhex(x) if "x" in x else float(x) for x in line.split()[1:]] if line[0] in "OL" else None
        if kind == "affine1":
            xs, cc, kk, x0 = data
            key = "loop:%s:%s:%s:%s:%s" % (algo, xs, cc, kk, x0)
            it = EXACT_AT.get(algo)
            c.count(1, key, it is not None)
            if vals is None:
                c.report(key, "%s raised in a closed loop on G(x) = %s + %s (x - %s): %s" % (algo, xs, cc, xs, line), {"line": line}, True)
            elif it is not None:
                tol = 1e-11 * (1 + abs(float(xs)) + abs(float(x0)))
                # CrossedDelta2 reaches the fixed point at that iteration, then leaves it: its correction is along rho_n - rho_{n-1}, which does not
                # vanish at a fixed-point iterate (theorem C49_crosseddelta2_moves_fixed_point); GenericSolver accepts the iterate before that
                tail = vals[it:it + 1] if algo == "CrossedDelta2" else vals[it:]
                if not all(abs(x - float(xs)) <= tol for x in tail) and len(c.violations) < 6:
                    c.report(key, "%s in a closed loop x_{n+1} = accelerate(G(x_n)) on the scalar affine map G(x) = %s + %s (x - %s), residual r = %s (x - G x), from x0 = %s "
                             "gives the iterates %r: not at the fixed point %s from iteration %d on (exactness theorem of the model)" % (
                                 algo, xs, cc, xs, kk, x0, vals, xs, it), {"algo": algo, "xs": str(xs), "c": str(cc), "k": str(kk), "x0": str(x0), "iterates": vals}, True)
        else:
            key = "fixed:%s:%s" % (algo, ",".join(str(x) for x in data))
            c.count(1, key, True)
            dim = len(data)
            ok = vals is not None and all(vals[i] == float(data[i % dim]) for i in range(len(vals)))
            if not ok:
                if vals is not None and "Anderson" in algo and all(x != x or x == float(data[i % dim]) for i, x in enumerate(vals)):
                    nan_fixed[algo] = nan_fixed.get(algo, 0) + 1     # 0/0 in the normalisation of the weights: theorem anderson_all_zero_undefined
                elif len(c.violations) < 6:
                    c.report(key, "%s fed iterates that all sit at the fixed point %r (du = 0, r = 0) returns %r" % (algo, [float(x) for x in data], vals),
                             {"algo": algo, "fixed_point": [str(x) for x in data], "outputs": vals}, True)
    if nan_fixed:
        c.notes.append("Anderson fed iterates that all sit at a fixed point (every D field zero) returns NaN (0/0 in the normalisation of the weights, theorem "
                       "C49_anderson_all_zero_undefined): %r runs. Not reachable through GenericSolver::iterate with MTest's convergence test, which accepts such an "
                       "iterate before calling the acceleration; reported as an observation, not as a violation." % nan_fixed)
    # ================================================================ (3) the real GenericSolver under every option: pairwise agreement (search only)
    nprob = c.pick(6, 40)
    nconf = c.pick(28, 60)
    RM = ["ToNearest", "UpWard", "DownWard", "TowardZero"]
    lines3, meta3 = [], []
    for p in range(nprob + c.pick(2, 6)):
        hard = p >= nprob       # strongly non-linear increment, constant (elastic) stiffness, few iterations allowed: steps that do not converge
        N = rng.randint(1, 2) if hard else rng.randint(1, 4)
        A = [[Fr(0)] * N for _ in range(N)]
        for i in range(N):
            for j in range(i):
                A[i][j] = A[j][i] = Fr(rng.randint(-4, 4), 4)
        for i in range(N):
            A[i][i] = sum(abs(A[i][j]) for j in range(N) if j != i) + Fr(rng.randint(2, 12), 4)
        m = min(A[i][i] - sum(abs(A[i][j]) for j in range(N) if j != i) for i in range(N))   # Gershgorin: lambda_min(A) >= m > 0
        b = [Fr(rng.randint(-16, 16), 4) for _ in range(N)]
        g = Fr(rng.choice([0, 0, 1, 4]), 2)
        eeps, seps = rng.choice([1e-6, 1e-9, 1e-11]), rng.choice([1e-4, 1e-7, 1e-10])
        if hard:
            b = [Fr(rng.choice([-1, 1]) * rng.randint(8, 24)) for _ in range(N)]
            g = Fr(rng.choice([1, 2, 4]))
            eeps, seps = rng.choice([1e-3, 1e-6]), rng.choice([1e-2, 1e-5])
        times = [Fr(0)]
        for _ in range(rng.randint(1, 3)):
            times.append(times[-1] + Fr(rng.randint(1, 4), 4))
        confs = [("none", 0, 4, "ToNearest", Fr(0), 200)]
        if hard:
            for kt in (1, 1, 1, 5, 2):
                confs.append((rng.choice(["none", "none"] + ALGOS), rng.randint(0, 5), kt, "ToNearest", Fr(0), rng.choice([2, 3, 4, 6])))
        else:
            for a in ALGOS:
                confs.append((a, rng.randint(0, 5), rng.choice([1, 2, 3, 4, 5]), rng.choice(RM), Fr(rng.choice([0, 1, 2]), 4), 200))
            while len(confs) < nconf:
                confs.append((rng.choice(["none"] + ALGOS), rng.randint(0, 5), rng.choice([1, 2, 3, 4, 5]), rng.choice(RM), Fr(rng.choice([0, 1, 2]), 4),
                              rng.choice([200, 200, 200, 5, 8])))
        for (a, pp, kt, rm, s, itmax) in confs:
            lines3.append("SOLVE %s 0 %d %s %s %s %s %d %d %s %s %s %d 12 %d %s" % (
                a, N, " ".join(hexf(x) for row in A for x in row), " ".join(hexf(x) for x in b), hexf(g), hexf(s), pp, kt, rm, repr(eeps), repr(seps), itmax,
                len(times) - 1, " ".join(hexf(t) for t in times)))
            meta3.append((p, N, A, b, g, m, eeps, seps, times, (a, pp, kt, rm, s, itmax)))
    rc, out, err = c.run([exe], input="\n".join(lines3) + "\n", timeout=600)
    res3 = [l for l in out.splitlines() if l[:2] in ("R ", "X ", "E ")]
    if rc != 0 or len(res3) != len(lines3):
        c.report("driver3", "driver failed on the solver runs: " + err[-400:], {"stderr": err[-3000:]}, False)
        return
    byprob, failed = {}, {}
    nsub, nsmall = 0, 0
    for mt, line, cmdline in zip(meta3, res3, lines3):
        t = line.split()
        conf = mt[9]
        if t[0] == "R" and int(t[5]) > 0 and len(c.violations) < 6:
            # independent statement of theorem C49_iterate_accepts_only_converged on the real solver: the hypothesis `accepted` of
            # C49_accepted_states_close holds for every step that GenericSolver::execute keeps
            c.report("solve:accepted-not-converged:%d:%s:%s:%r" % (mt[1], ",".join(str(x) for row in mt[2] for x in row), ",".join(str(x) for x in mt[3]), conf),
                     "GenericSolver::execute on r(u,t) = A u + g u^3 - b t with A=%r b=%r g=%s, eeps=%r seps=%r, times %r, options (algorithm, prediction policy, stiffness "
                     "type, rounding mode, s, iterMax) = %r with 12 sub-steps allowed: %s step(s) were accepted (postConvergence called, state updated) although the last "
                     "verdict of checkConvergence was `not converged` (%s accepted steps in all)" % (
                         [[float(x) for x in r] for r in mt[2]], [float(x) for x in mt[3]], mt[4], mt[6], mt[7], [float(x) for x in mt[8]], conf, t[5], t[4]),
                     {"driver_command": cmdline, "driver_answer": line}, True)
        if t[0] != "R" or t[1] != "done":
            failed[conf[0]] = failed.get(conf[0], 0) + 1
            c.count(1, ("solve", mt[0], conf), False)
            continue
        u = [float.fromhex(x) for x in t[t.index("U") + 1:]]
        byprob.setdefault(mt[0], []).append((conf, u, int(t[2]), mt))
        nsub += int(t[3]) > 0
        nsmall += conf[5] < 200
        c.count(1, ("solve", mt[0], conf), int(t[2]) > len(mt[8]) - 1)
    npairs = 0
    for p, runs in sorted(byprob.items()):
        _, N, A, b, g, m, eeps, seps, times, _ = runs[0][3]
        bound = 2 * math.sqrt(N) * seps / float(m) + 2 * eeps
        nval = len(runs[0][1])
        for idx in range(nval):
            vals = [(u[idx], conf) for conf, u, _, _ in runs]
            lo, hi = min(vals), max(vals)
            slack = 1e-12 * (1 + abs(lo[0]) + abs(hi[0]))
            if not (hi[0] - lo[0] <= bound + slack) and len(c.violations) < 6:
                c.report("solve:%d:%s:%s:%d:%r:%r" % (N, ",".join(str(x) for row in A for x in row), ",".join(str(x) for x in b), idx, lo[1], hi[1]),
                         "GenericSolver on r(u,t) = A u + g u^3 - b t with A=%r b=%r g=%s (strongly monotone, modulus >= %s), eeps=%r seps=%r, times %r: unknown %d after "
                         "step %d converges to %r with options (algorithm, prediction policy, stiffness type, rounding mode, s, iterMax) = %r and to %r with %r; difference %r > "
                         "tolerance-derived bound %r" % ([[float(x) for x in r] for r in A], [float(x) for x in b], g, m, eeps, seps, [float(t) for t in times],
                                                         idx % N, idx // N + 1, lo[0], lo[1], hi[0], hi[1], hi[0] - lo[0], bound),
                         {"A": [[str(x) for x in r] for r in A], "b": [str(x) for x in b], "g": str(g), "eeps": eeps, "seps": seps, "times": [str(t) for t in times],
                          "low": [lo[0], list(map(str, lo[1]))], "high": [hi[0], list(map(str, hi[1]))], "bound": bound}, True)
        npairs += len(runs) * (len(runs) - 1) // 2
    if byprob:
        r0 = byprob[min(byprob)]
        c.sample({"solve_problem": {"A": [[str(x) for x in r] for r in r0[0][3][2]], "b": [str(x) for x in r0[0][3][3]], "g": str(r0[0][3][4])},
                  "final_states": [{"options": list(map(str, conf)), "u": u, "iterations": it} for conf, u, it, _ in r0[:4]]})
    if failed:
        c.notes.append("GenericSolver runs that did not converge (exception after sub-stepping; not a violation of C49, which speaks of converged results): %r of %d runs" % (
            failed, len(lines3)))
    # ================================================================ (4) control flow of GenericSolver::iterate / execute: scripted verdicts
    nver = c.pick(60, 600)
    vcases, lines4, v4 = [], [], [HEADER + "Definition pe (r : list (Q * Q * nat * bool) * bool) := (map (fun e => (pq (fst (fst (fst e))), pq (snd (fst (fst e))), "
                                  "snd (fst e), snd e)) (fst r), snd r).\n"]
    for k in range(nver):
        pp = rng.choice([0, 0, 1, 2, 3, 4, 5])
        itmax, msub = rng.randint(1, 5), rng.randint(1, 5)
        ti = Fr(rng.randint(0, 8), 4)
        te = ti + Fr(rng.randint(1, 8), 4)
        ptrue = rng.choice([0.0, 0.15, 0.3, 0.6])
        verd = [1 if rng.random() < ptrue else 0 for _ in range(220)]
        if k % 7 == 0:
            verd = [0] * 220           # never converges: iterMax iterations, rejection, sub-steps, exception
        vcases.append((pp, itmax, msub, ti, te, verd))
        lines4.append("VERD %d %d %d %s %s %d %s" % (pp, itmax, msub, hexf(ti), hexf(te), len(verd), " ".join(map(str, verd))))
        teps = (te - ti) * 100 * EPS
        v4.append("Eval vm_compute in pe (execute_model 64 %d %d %s 0 %s %s %s %s [%s])." % (
            msub, itmax, "true" if pp == 0 else "false", q(ti), q(te - ti), q(te), q(teps), "; ".join("true" if x else "false" for x in verd)))
    rc, out, err = c.run([exe], input="\n".join(lines4) + "\n", timeout=300)
    res4 = [l for l in out.splitlines() if l[:2] in ("V ", "X ", "E ")]
    rc2, mout, merr = c.coq_eval(["C49Model.v"], "\n".join(v4) + "\n", timeout=900)
    mblocks = re.split(r"(?m)^\s{5}= ", mout)[1:] if rc2 == 0 else []
    if rc != 0 or len(res4) != len(lines4) or len(mblocks) != len(lines4):
        c.report("driver4", "driver or model failed on the scripted-verdict runs (%d driver answers, %d model answers for %d commands): %s %s" % (
            len(res4), len(mblocks), len(lines4), err[-300:], merr[-300:]), {"stderr": err[-2000:], "coq": merr[-2000:]}, False)
        return
    nrej = nraise = 0
    for (pp, itmax, msub, ti, te, verd), line, mb in zip(vcases, res4, mblocks):
        t = line.split()
        key = "verdicts:%d:%d:%d:%s:%s:%s" % (pp, itmax, msub, ti, te, "".join(map(str, verd[:64])))
        mb = mb.split("\n     : ")[0].replace("%Z", "").replace("%nat", "")
        mev = [(Fr(int(a), int(b)), Fr(int(cc), int(d)), int(n), acc == "true") for a, b, cc, d, n, acc in
               re.findall(r"\(\(?(-?\d+)\)?,\s*(\d+),\s*\(\(?(-?\d+)\)?,\s*(\d+)\),\s*(\d+),\s*(true|false)\)", mb)]
        mstatus = "done" if re.search(r",\s*true\)\s*$", mb.strip()) else "raise"
        if t[0] != "V" or t[1] == "exhausted":
            c.count(1, key, False)
            continue
        rev = [(Fr(float.fromhex(t[i])), Fr(float.fromhex(t[i + 1])), int(t[i + 2]), t[i + 3] == "1") for i in range(2, len(t), 4)]
        nrej += any(not e[3] for e in rev)
        nraise += t[1] == "raise"
        c.count(1, key, any(not e[3] for e in rev))
        if (rev != mev or t[1] != mstatus) and len(c.violations) < 6:
            c.report(key, "GenericSolver::execute around a study whose convergence test answers the scripted verdicts %s... (prediction policy %d, iterMax=%d, mSubSteps=%d, "
                     "from t=%s to %s): calls of iterate (t, dt, iterations, accepted) = %s, status %s; the model of the control flow of iterate/execute (C49Model.v "
                     "execute_model; theorem C49_iterate_accepts_only_converged) gives %s, status %s" % (
                         "".join(map(str, verd[:40])), pp, itmax, msub, ti, te, [(float(a), float(b), n, acc) for a, b, n, acc in rev], t[1],
                         [(float(a), float(b), n, acc) for a, b, n, acc in mev], mstatus),
                     {"driver_command": "VERD %d %d %d %s %s %d %s" % (pp, itmax, msub, hexf(ti), hexf(te), len(verd), " ".join(map(str, verd))), "driver_answer": line}, True)
    c.coverage["rule"] = (
        "seeded (VERIF_SEED). (1) %d scripted sequences (4-9 iterations, dimension 1-3, 3-6 for full-rank Anderson; dyadic rationals k/8, also scaled by 2^-18..2^-56 so "
        "that the guards `> eps` fall on both sides; kinds random / repeated inputs / collinear residuals or corrections / arithmetic progressions / several resolutions in a "
        "row (state kept, iteration numbers restarting at 1) / %d Anderson sequences with linearly dependent stored fields (rank-deficient path of GSFactorD, data chosen so "
        "that the floating-point Gram-Schmidt is exact)) through the real %s, every output compared with the model on Q (tolerance 1e-9 relative to the magnitudes, 1e-7 for "
        "Anderson; full-rank Anderson sequences against both the Gram-Schmidt model and the C^-1 1 model); accelerated outputs (model output differs from the input u1): %r; "
        "%d sequences cut where the weights are undefined, %d dropped as near ties of the 0.99 branch test. non-trivial = at least one iteration really accelerated. "
        "(2) %d closed-loop runs of all 13 real classes on scalar affine maps (exactness where a theorem claims it) and at a fixed point. (3) %d problems x %d option sets "
        "(13 algorithms + none, 6 prediction policies, 5 stiffness types, 4 rounding modes, iterMax 200 or 5/8) + %d strongly non-linear problems with constant stiffness and "
        "iterMax 2..6 through the real GenericSolver: no step accepted on a `not converged` verdict; %d pairs of converged runs compared with the bound 2 sqrt(n) seps/m + "
        "2 eeps (search only); %d converged runs used sub-stepping, %d had a small iterMax. (4) %d scripted-verdict runs of the real GenericSolver::execute against the "
        "control-flow model (%d with a rejected resolution, %d ending in `maximum number of sub stepping`)" % (
            len(cases), ndrop, ", ".join(MODELLED), accel, nundef, nties, len(lines2), nprob, nconf, c.pick(2, 6), npairs, nsub, nsmall, len(lines4), nrej, nraise))
    c.coverage["traces_validated_against_impl"] = len(cases) + len(lines4)


guarded_main("C49", main)

"""C45 -- generators: archetypes, random declarations (per-element bounds, hypothesis-specialised variables, Implicit DSL with the
StandardElasticity brick), parameter probes, and declarations mfront must refuse."""
import copy
from c45decl import V, D, implicit, VALUES, USABLE_HYPS, eff_phys, quirk


def inside(vals, ph):
    if ph is None:
        return vals
    return [x for x in vals if (ph[0] == "U" or float(x) >= float(ph[1])) and (ph[0] == "L" or float(x) <= float(ph[2]))]


def pick_bounds(rng, ph, kinds="LUB"):
    """bounds contained in the (effective) physical bounds ph, with at least the sides ph has (mfront refuses otherwise)"""
    vals = inside(VALUES, ph)
    if len(vals) < 2:
        return None
    a, b = sorted(rng.sample(vals, 2), key=float)
    ok = {"L": "LB", "U": "UB", "B": "B"}[ph[0]] if ph else kinds
    k = rng.choice(ok)
    if ph and ph[0] == "U" and float(a) <= 0:
        k = "U"   # front-end quirk: an unset physical lower bound is numeric_limits<long double>::min() (see props/C38, C27)
    return (k, a, b)


def rand_var(rng, G, unit, name, used, gloss_pool, ty="real", size=1, allow_bounds=True, default=False, elem=False):
    v = V(name, ty=ty, size=size)
    r = rng.random()
    if ty == "real" and r < 0.45 and gloss_pool:
        k = rng.choice(gloss_pool)
        if k not in used:
            v["gloss"] = k
            used.add(k)
    elif r < 0.75:
        v["entry"] = "E%s" % name
    if allow_bounds and ty == "real":
        if rng.random() < 0.35:
            p = pick_bounds(rng, None)
            if p:
                v["phys"] = ("L", p[1], "0") if p[0] == "L" else ("U", "0", p[2]) if p[0] == "U" else p
        if rng.random() < 0.55:
            ph = eff_phys(G, unit, v)
            if elem and size > 1 and rng.random() < 0.6:
                for i in rng.sample(range(size), rng.choice(range(1, size + 1))):
                    b = pick_bounds(rng, ph)
                    if b:
                        v["ebounds"].append((i, b))
            else:
                v["bounds"] = pick_bounds(rng, ph)
    if default:
        v["default"] = [rng.choice(VALUES) for _ in range(size)]
    return v


def archetypes(G):
    two = [e["key"] for e in G if e["sys"] == "SI" and e["low"] is not None and e["up"] is not None and e["type"] == "scalar"]
    low = [e["key"] for e in G if e["sys"] == "SI" and e["low"] is not None and e["up"] is None and e["type"] == "scalar" and e["key"] != "Temperature"]
    t0, t1 = (two + [None, None])[:2]
    l0 = (low + [None])[0]
    a = []
    # material property: inputs attached to two-sided / lower-only glossary entries, with and without @Bounds, declared physical
    # bounds without @Bounds (finding D1), entry names, a parameter
    a.append(D("MP", unit="SI", output=V("y", gloss=l0),
               inputs=[V("T", gloss="Temperature"), V("f", gloss=t0), V("g", gloss=t1, bounds=("B", "0", "0.25")), V("x", entry="MyX", phys=("L", "0", "0")),
                       V("z", bounds=("B", "0", "1"), phys=("B", "-1", "2.5")), V("w", bounds=("U", "0", "100"))],
               params=[V("a", entry="AA", default=["2.5"]), V("b", default=["1.23456789"])]))
    # the same declarations without a unit system: nothing is inherited
    a.append(dict(copy.deepcopy(a[0]), unit=None))
    # behaviour: two-sided entries on a material property, a state variable (finding D3), a parameter; arrays with bounds (finding D2),
    # per-element bounds, hypothesis-specialised variables (one name, two hypotheses, two default values)
    a.append(D("B", unit="SI", hyps=["Tridimensional", "PlaneStrain"],
               mps=[V("young", gloss=l0), V("nu", gloss=t1), V("mpa", entry="MyArr", size=3, bounds=("B", "0", "100")),
                    V("mps", hyps=["PlaneStrain"], bounds=("L", "0.5", "0"))],
               svs=[V("f", gloss=t0), V("eel2", entry="MyStrain", ty="Stensor"), V("sa", size=2, phys=("L", "0", "0")),
                    V("se", size=3, ebounds=[(2, ("B", "0", "1")), (0, ("U", "0", "2.5"))])],
               asvs=[V("aux", bounds=("U", "0", "2.5")), V("w", ty="Tensor"), V("a3", hyps=["Tridimensional"], size=2, ebounds=[(1, ("L", "1", "0"))])],
               esvs=[V("flu", entry="Fluence", bounds=("B", "1.5", "100"))],
               params=[V("p1", entry="PP1", bounds=("B", "0", "2.5"), default=["1.23456789"]), V("pa", size=2, default=["1.5", "2.5"]),
                       V("q", hyps=["PlaneStrain"], default=["2.5"]), V("q", hyps=["Tridimensional"], default=["0.25"]),
                       V("pe", size=2, default=["1", "100"], ebounds=[(0, ("B", "0", "1.5"))])]))
    a.append(dict(copy.deepcopy(a[2]), unit=None, hyps=["GeneralisedPlaneStrain", "Axisymmetrical", "Tridimensional", "PlaneStrain"]))
    return a


def implicit_archetypes():
    """Implicit DSL with `@Brick StandardElasticity`: no option (material properties) with a unit system; constants and the
    @Epsilon / @Theta / @IterMax keywords (parameters), which is also the probe of the unsigned short parameter"""
    a = D("B", unit="SI", hyps=["Tridimensional", "PlaneStrain"], dsl=implicit(brick="mp", pos=1),
          mps=[V("m0", entry="MyMP")], svs=[V("s0", bounds=("B", "0", "1"))], asvs=[V("a0", size=2)],
          params=[V("p", default=["1.5"]), V("q", entry="QQ", default=["2.5"])])
    code = ("@UpdateAuxiliaryStateVariables{\n  r[0] = epsilon;\n  r[1] = theta;\n  r[2] = iterMax;\n  r[3] = young;\n  r[4] = nu;\n  r[5] = p;\n"
            "  r[6] = relative_value_for_the_equivalent_stress_lower_bound;\n  r[7] = numerical_jacobian_epsilon;\n}\n")
    b = D("B", hyps=["Tridimensional", "PlaneStrain"], dsl=implicit(eps="1e-14", theta="1", itermax="50", brick=("const", "150e9", "0.3"), pos=1),
          asvs=[V("r", size=8)], params=[V("p", default=["1.5"]), V("q", default=["0.25"])], code=code,
          probe=dict(out="r", reads=["epsilon", "theta", "iterMax", "YoungModulus", "PoissonRatio", "p",
                                     "RelativeValueForTheEquivalentStressLowerBoundDefinition", "numerical_jacobian_epsilon"]))
    return [a, b]


def probes():
    """declarations whose result is the list of their parameters"""
    mp = D("MP", output=V("y"), inputs=[V("x")], params=[V("a", entry="AA", default=["2.5"]), V("b", default=["1.23456789"]), V("c", default=["-0.5"])],
           code="y = (a + 3 * b) * x + c;", probe=dict(out=None, reads=["AA", "b", "c"]))
    code = "@Integrator{\n  static_cast<void>(smt);\n  r[0] = p0;\n  r[1] = pa[0];\n  r[2] = pa[1];\n  r[3] = q;\n  r[4] = minimal_time_step_scaling_factor;\n}\n"
    b = D("B", hyps=["Tridimensional", "PlaneStrain"], asvs=[V("r", size=5)],
          params=[V("p0", entry="P0", default=["1.5"]), V("pa", size=2, default=["0.25", "100"]), V("q", hyps=["PlaneStrain"], default=["2.5"]),
                  V("q", hyps=["Tridimensional"], default=["0.5"]), V("q2", hyps=["PlaneStrain"], default=["1"])],
          code=code, probe=dict(out="r", reads=["P0", "pa[0]", "pa[1]", "q", "minimal_time_step_scaling_factor"]))
    return [mp, b]


def gen_decl(rng, G, idx):
    unit = rng.choice(["SI", "SI", "SI", None])
    scal = sorted({e["key"] for e in G if e["type"] == "scalar"})
    with_b = sorted({e["key"] for e in G if e["type"] == "scalar" and (e["low"] is not None or e["up"] is not None)})
    pool = [k for k in (with_b * 3 + rng.sample(scal, min(len(scal), 12)))]
    used = set()
    if idx % 2 == 0:
        ni = rng.choice([1, 2, 3, 4])
        return D("MP", unit=unit, output=rand_var(rng, G, unit, "y", used, pool, allow_bounds=False),
                 inputs=[rand_var(rng, G, unit, "x%d" % j, used, pool) for j in range(ni)],
                 params=[rand_var(rng, G, unit, "p%d" % j, used, pool, allow_bounds=False, default=True) for j in range(rng.choice([0, 1, 2]))])
    pool = [k for k in pool if k not in ("Temperature", "ElasticStrain", "YoungModulus", "PoissonRatio")]
    used.add("Temperature")
    hyps = rng.sample(USABLE_HYPS, rng.choice([1, 2, 3, 5]))
    imp = idx % 8 == 7

    def some(prefix, n, types=("real",), arrays=True, default=False):
        out = []
        for j in range(n):
            ty = rng.choice(types)
            size = rng.choice([1, 1, 1, 2, 3]) if arrays and ty == "real" else 1
            v = rand_var(rng, G, unit, "%s%d" % (prefix, j), used, pool, ty=ty, size=size, default=default, elem=True)
            if len(hyps) > 1 and not imp and not v["gloss"] and not v["entry"] and rng.random() < 0.3:
                v["hyps"] = rng.sample(hyps, rng.choice(range(1, len(hyps))))
            out.append(v)
        return out
    d = D("B", unit=unit, hyps=hyps, mps=some("m", rng.choice([0, 1, 2, 3])),
          svs=some("s", rng.choice([0, 1, 2, 3]), types=("real", "real", "Stensor") if imp else ("real", "real", "Stensor", "Tensor", "TVector"), arrays=not imp),
          asvs=some("a", rng.choice([0, 1, 2]), types=("real", "real", "Stensor")),
          esvs=some("e", rng.choice([0, 1, 2])),
          params=some("p", rng.choice([0, 1, 2, 3]), default=True))
    if len(hyps) > 1 and not imp and rng.random() < 0.5:
        k = rng.choice(range(1, len(hyps)))
        d["params"] += [V("ph", hyps=hyps[:k], default=[rng.choice(VALUES)]), V("ph", hyps=hyps[k:], default=[rng.choice(VALUES)])]
    if imp:
        d["dsl"] = implicit(eps=rng.choice([None, "1e-12"]), theta=rng.choice([None, "0.75"]), itermax=rng.choice([None, "20"]),
                            brick=rng.choice(["none", "mp", ("const", "210e9", "0.25")]), pos=rng.choice(range(len(d["params"]) + 1)))
    return d


# ----------------------------------------------------------------------------- declarations mfront must refuse (and neighbours it must accept)
def invalid_cases(rng, G, n):
    """(tag, declaration) list: one edit of a valid declaration each; the verdict is NOT attached, it is computed by accepts_py and
    by the Gallina `accepts`"""
    two = [e["key"] for e in G if e["sys"] == "SI" and e["low"] is not None and e["up"] is not None and e["type"] == "scalar"]
    g2 = two[0]
    e2 = [e for e in G if e["key"] == g2 and e["sys"] == "SI"][0]
    keys = sorted({e["key"] for e in G if e["type"] == "scalar"})

    def baseB(**kw):
        d = D("B", hyps=["Tridimensional", "PlaneStrain"], mps=[V("m0"), V("m1", entry="EM1")], svs=[V("s0"), V("sa", size=2)], asvs=[V("a0")],
              esvs=[V("e0")], params=[V("p0", default=["1.5"]), V("pa", size=2, default=["1", "2.5"])])
        d.update(kw)
        return d

    def baseM(**kw):
        d = D("MP", output=V("y"), inputs=[V("x0"), V("x1", entry="EX1")], params=[V("p0", default=["1.5"])])
        d.update(kw)
        return d
    out = []

    def B(tag, f, **kw):
        d = baseB(**kw)
        f(d)
        out.append((tag, d))

    def M(tag, f, **kw):
        d = baseM(**kw)
        f(d)
        out.append((tag, d))
    up = lambda v, **kw: v.update(kw)
    # the two front-end findings come first (the variant is read from them)
    B("elem-index-equals-size", lambda d: up(d["svs"][1], ebounds=[(2, ("B", "0", "1"))]))
    M("mp-entry-is-other-variable", lambda d: up(d["inputs"][1], entry="x0"))
    B("valid", lambda d: None)
    M("valid", lambda d: None)
    B("lower-gt-upper", lambda d: up(d["svs"][0], bounds=("B", "2.5", "1")))
    B("phys-lower-gt-upper", lambda d: up(d["mps"][0], phys=("B", "2.5", "1")))
    M("lower-gt-upper", lambda d: up(d["inputs"][0], bounds=("B", "100", "-1")))
    B("lower-eq-upper", lambda d: up(d["svs"][0], bounds=("B", "1", "1")))
    B("not-contained", lambda d: up(d["svs"][0], phys=("B", "0", "1"), bounds=("B", "0", "2.5")))
    M("not-contained", lambda d: up(d["inputs"][0], phys=("L", "0", "0"), bounds=("B", "-1", "2.5")))
    B("contained-equal", lambda d: up(d["svs"][0], phys=("B", "0", "1"), bounds=("B", "0", "1")))
    B("missing-lower-side", lambda d: up(d["esvs"][0], phys=("B", "0", "1"), bounds=("U", "0", "0.5")))
    B("missing-upper-side", lambda d: up(d["mps"][0], phys=("U", "0", "100"), bounds=("L", "0.5", "0")))
    B("glossary-not-contained-SI", lambda d: up(d["mps"][0], gloss=g2, bounds=("B", str(float(e2["low"]) - 1), e2["up"])), unit="SI")
    B("glossary-not-contained-no-unit", lambda d: up(d["mps"][0], gloss=g2, bounds=("B", str(float(e2["low"]) - 1), e2["up"])))
    M("glossary-missing-side-SI", lambda d: up(d["inputs"][0], gloss=g2, bounds=("L", e2["low"], "0")), unit="SI")
    B("elem-and-whole", lambda d: up(d["svs"][1], bounds=("B", "0", "1"), ebounds=[(0, ("B", "0", "1"))]))
    B("elem-duplicate-index", lambda d: up(d["svs"][1], ebounds=[(1, ("B", "0", "1")), (1, ("L", "0", "0"))]))
    B("elem-index-beyond-size", lambda d: up(d["svs"][1], ebounds=[(3, ("B", "0", "1"))]))
    B("elem-valid", lambda d: up(d["svs"][1], ebounds=[(1, ("B", "0", "1")), (0, ("L", "0", "0"))]))
    B("elem-on-scalar", lambda d: up(d["svs"][0], ebounds=[(0, ("B", "0", "1"))]))
    B("elem-not-contained", lambda d: up(d["svs"][1], phys=("B", "0", "1"), ebounds=[(1, ("B", "0", "2.5"))]))
    B("elem-lower-gt-upper", lambda d: up(d["params"][1], ebounds=[(0, ("B", "1", "0"))]))
    B("elem-physical-bounds", lambda d: up(d["svs"][1], ephys=[(0, ("L", "0", "0"))]))
    M("elem-on-input", lambda d: up(d["inputs"][0], ebounds=[(0, ("B", "0", "1"))]))
    B("duplicate-name-same-container", lambda d: up(d["mps"][1], name="m0"))
    B("duplicate-name-across-containers", lambda d: up(d["asvs"][0], name="s0"))
    M("duplicate-name", lambda d: up(d["inputs"][1], name="x0", entry=None))
    M("input-named-as-output", lambda d: up(d["inputs"][0], name="y"))
    B("duplicate-glossary-name", lambda d: (up(d["mps"][0], gloss=g2), up(d["svs"][0], gloss=g2)))
    M("duplicate-glossary-name", lambda d: (up(d["inputs"][0], gloss=g2), up(d["params"][0], gloss=g2)))
    B("duplicate-entry-name", lambda d: up(d["svs"][0], entry="EM1"))
    M("duplicate-entry-name", lambda d: up(d["params"][0], entry="EX1"))
    B("entry-is-other-variable", lambda d: up(d["mps"][1], entry="s0"))
    B("entry-is-own-name", lambda d: up(d["mps"][1], entry="m1"))
    M("glossary-name-is-other-variable", lambda d: (up(d["inputs"][0], name=g2), up(d["inputs"][1], entry=None, gloss=g2)))
    B("entry-is-glossary-key", lambda d: up(d["mps"][1], entry=g2))
    M("entry-is-glossary-key", lambda d: up(d["inputs"][1], entry=g2))
    B("unknown-glossary-name", lambda d: up(d["mps"][0], gloss="NotAGlossaryName"))
    B("glossary-and-entry", lambda d: up(d["mps"][1], gloss=g2))
    B("temperature-glossary-name", lambda d: up(d["esvs"][0], gloss="Temperature"))
    for nme in ("dt", "T", "sig", "eto", "D", "N", "smt", "real"):
        B("reserved-" + nme, lambda d, nme=nme: up(d["mps"][0], name=nme))
    M("reserved-real", lambda d: up(d["inputs"][0], name="real"))
    B("specialised-undeclared-hypothesis", lambda d: up(d["params"][0], hyps=["Axisymmetrical"]))
    B("specialised-valid", lambda d: up(d["svs"][0], hyps=["PlaneStrain"], bounds=("B", "0", "1")))
    B("specialised-same-name-disjoint", lambda d: d["params"].__iadd__([V("q", hyps=["PlaneStrain"], default=["1"]), V("q", hyps=["Tridimensional"], default=["2.5"])]))
    B("specialised-same-name-overlap", lambda d: d["params"].__iadd__([V("q", hyps=["PlaneStrain"], default=["1"]), V("q", default=["2.5"])]))
    B("specialised-same-name-twice", lambda d: d["params"].__iadd__([V("q", hyps=["PlaneStrain"], default=["1"]), V("q", hyps=["PlaneStrain"], default=["2.5"])]))
    B("no-hypothesis", lambda d: None, hyps=[])
    B("duplicate-hypothesis", lambda d: None, hyps=["Tridimensional", "PlaneStrain", "Tridimensional"])
    B("unknown-unit-system", lambda d: None, unit="Foo")
    M("unknown-unit-system", lambda d: None, unit="Foo")
    B("parameter-without-default", lambda d: up(d["params"][0], default=[]))
    M("parameter-without-default", lambda d: up(d["params"][0], default=[]))
    B("parameter-array-default-count", lambda d: up(d["params"][1], default=["1", "2.5", "100"]))
    M("parameter-with-bounds", lambda d: up(d["params"][0], bounds=("B", "0", "2.5")))
    M("parameter-array", lambda d: up(d["params"][0], size=2, default=["1", "2.5"]))
    M("input-array", lambda d: up(d["inputs"][0], size=2))
    B("array-size-zero", lambda d: up(d["svs"][1], size=0))
    B("implicit-brick-name-clash", lambda d: up(d["mps"][0], name="young"), dsl=implicit(brick="mp"))
    B("implicit-brick-glossary-clash", lambda d: up(d["esvs"][0], gloss="ElasticStrain"), dsl=implicit(brick="mp"))
    B("implicit-parameter-name-clash", lambda d: up(d["params"][0], name="theta"), dsl=implicit())
    B("implicit-valid", lambda d: None, dsl=implicit(brick=("const", "150e9", "0.3"), pos=1))
    fixed = len(out)
    # random single edits
    while len(out) < max(n, fixed):
        k = rng.choice(["bounds", "elem", "names", "hyps"])
        if k == "bounds":
            ph = rng.choice([None, ("B", "0", "1"), ("L", "0", "0"), ("U", "0", "100"), ("B", "-1", "2.5")])
            a, b = rng.sample(VALUES, 2)
            bd = (rng.choice("LUB"), a, b)
            if quirk(bd, ph):
                continue
            B("random-bounds", lambda d: up(rng.choice(d["mps"] + d["esvs"] + [d["svs"][0]] + d["asvs"]), phys=ph, bounds=bd))
        elif k == "elem":
            idx = [rng.choice(range(4)) for _ in range(rng.choice([1, 2]))]
            B("random-elem", lambda d: up(rng.choice([d["svs"][1], d["params"][1], d["svs"][0]]), ebounds=[(i, ("B", "0", "1")) for i in idx]))
        elif k == "names":
            names = ["m0", "m1", "s0", "e0", "EM1", "zz", rng.choice(keys)]
            fld = rng.choice(["name", "entry", "gloss"])
            val = rng.choice(names)
            if fld == "gloss":
                val = rng.choice(keys + ["m0"])
            B("random-names", lambda d: up(rng.choice(d["mps"] + d["esvs"] + d["asvs"]), **{fld: val}))
        else:
            hs = rng.sample(["Tridimensional", "PlaneStrain", "Axisymmetrical"], rng.choice([1, 2]))
            B("random-hyps", lambda d: up(rng.choice([d["mps"][0], d["svs"][0], d["params"][0]]), hyps=hs))
    return out

"""C45 -- declarations (AST), their .mfront text, the independent Python statement of what a generated library must export,
the Python statement of which declarations mfront must refuse, and the printers to Gallina terms."""
import os, sys
from decimal import Decimal
sys.path.insert(0, os.path.join(os.path.dirname(os.path.abspath(__file__)), "..", "C38"))
from mplib import mfront_bounds

VALUES = ["-273.15", "-1", "-0.5", "0", "0.000123456789", "0.25", "0.5", "1", "1.23456789", "1.5", "2.5", "100", "293.15", "1234567.5"]
HYPS = ["AxisymmetricalGeneralisedPlaneStrain", "AxisymmetricalGeneralisedPlaneStress", "Axisymmetrical", "PlaneStress", "PlaneStrain",
        "GeneralisedPlaneStrain", "Tridimensional"]
HYP_COQ = dict(zip(HYPS, ["AGPStrain", "AGPStress", "Axisymmetrical", "PlaneStress", "PlaneStrain", "GeneralisedPlaneStrain", "Tridimensional"]))
USABLE_HYPS = ["AxisymmetricalGeneralisedPlaneStrain", "Axisymmetrical", "PlaneStrain", "GeneralisedPlaneStrain", "Tridimensional"]
TYPES = {"real": 0, "Stensor": 1, "TVector": 2, "Tensor": 3, "int": 1, "ushort": 2}
TYCOQ = {"real": "TScalar", "Stensor": "TStensor", "TVector": "TVector", "Tensor": "TTensor", "int": "TInt", "ushort": "TUShort"}
RESERVED_B = ["dt", "T", "sig", "eto", "D", "N", "smt", "real"]
RESERVED_MP = ["real"]


def V(name, **kw):
    v = dict(name=name, gloss=None, entry=None, ty="real", size=1, bounds=None, phys=None, default=[], ebounds=[], ephys=[], hyps=[])
    v.update(kw)
    return v


def D(kind, **kw):
    d = dict(kind=kind, unit=None, output=None, inputs=[], mps=[], svs=[], asvs=[], esvs=[], params=[], hyps=[], dsl=None)
    d.update(kw)
    return d


def implicit(eps=None, theta=None, itermax=None, brick="none", pos=0):
    """brick: "none" | "mp" | ("const", E, nu)"""
    return dict(eps=eps, theta=theta, itermax=itermax, brick=brick, pos=pos)


# ----------------------------------------------------------------------------- independent statement: inheritance rule
def eff_phys(G, unit, v):
    """declared physical bounds win; otherwise, with a unit system and a glossary name, the bounds the glossary entry has for that
    unit system (lower only / upper only / both)"""
    if v["phys"]:
        return v["phys"]
    if unit is None or v["gloss"] is None:
        return None
    for e in G:
        if e["key"] == v["gloss"] and e["sys"] == unit:
            if e["low"] is not None and e["up"] is not None:
                return ("B", e["low"], e["up"])
            if e["low"] is not None:
                return ("L", e["low"], "0")
            if e["up"] is not None:
                return ("U", "0", e["up"])
            return None
    return None


# ----------------------------------------------------------------------------- what the DSL and the brick declare (independent restatement)
def elaborate(d):
    """user declarations + what `@DSL Implicit`, `@Epsilon/@Theta/@IterMax`, `@Brick StandardElasticity` and every behaviour DSL add.
    Read from ImplicitDSL.cxx (eel), ImplicitDSLBase.cxx (treatEpsilon..., completeVariableDeclaration), HookeStressPotentialBase.cxx
    (initialize: parameters at the place of @Brick; completeVariableDeclaration: young / nu material properties at the end),
    BehaviourDSLCommon (time step scaling factors, last)."""
    if d["kind"] == "MP":
        return dict(mps=[], svs=[], asvs=[], esvs=[], params=list(d["params"]))
    mps, svs, params = list(d["mps"]), list(d["svs"]), list(d["params"])
    s = d.get("dsl")
    if s:
        svs = [V("eel", gloss="ElasticStrain", ty="Stensor")] + svs
        pre, post = [], []
        eps = s["eps"] or "1e-8"
        if s["eps"]:
            pre.append(V("epsilon", entry="epsilon", default=[s["eps"]]))
        if s["theta"]:
            pre.append(V("theta", entry="theta", default=[s["theta"]]))
        if s["itermax"]:
            pre.append(V("iterMax", ty="ushort", default=[s["itermax"]]))
        if not s["eps"]:
            post.append(V("epsilon", entry="epsilon", default=["1e-8"]))
        if not s["theta"]:
            post.append(V("theta", entry="theta", default=["0.5"]))
        post.append(V("numerical_jacobian_epsilon", default=[str(Decimal(eps) * Decimal("0.1"))]))
        if not s["itermax"]:
            post.append(V("iterMax", ty="ushort", default=["100"]))
        bp = []
        if s["brick"] != "none":
            if isinstance(s["brick"], tuple):
                bp += [V("young", gloss="YoungModulus", default=[s["brick"][1]]), V("nu", gloss="PoissonRatio", default=[s["brick"][2]])]
            else:
                mps = mps + [V("young", gloss="YoungModulus"), V("nu", gloss="PoissonRatio")]
            bp.append(V("relative_value_for_the_equivalent_stress_lower_bound", entry="RelativeValueForTheEquivalentStressLowerBoundDefinition",
                        default=["1e-12"]))
        params = pre + params[:s["pos"]] + bp + params[s["pos"]:] + post
    params = params + [V("minimal_time_step_scaling_factor", default=["0.1"]), V("maximal_time_step_scaling_factor", default=["17976931348623e295"])]
    return dict(mps=mps, svs=svs, asvs=list(d["asvs"]), esvs=list(d["esvs"]), params=params)


TEMPERATURE = V("T", gloss="Temperature")


def visible(v, h):
    return not v["hyps"] or h in v["hyps"]


# ----------------------------------------------------------------------------- .mfront text
def hsel(v):
    return "<%s>" % ",".join(v["hyps"]) if v["hyps"] else ""


def var_text(kw, v):
    t = "%s%s %s %s%s" % (kw, hsel(v), v["ty"], v["name"], "[%d]" % v["size"] if v["size"] != 1 else "")
    if v["default"]:
        t += " = " + (v["default"][0] if v["size"] == 1 and len(v["default"]) == 1 else "{" + ", ".join(v["default"]) + "}")
    t += ";\n"
    if v["gloss"]:
        t += '%s.setGlossaryName("%s");\n' % (v["name"], v["gloss"])
    if v["entry"]:
        t += '%s.setEntryName("%s");\n' % (v["name"], v["entry"])
    if v["phys"]:
        t += "@PhysicalBounds%s %s in %s;\n" % (hsel(v), v["name"], mfront_bounds(v["phys"]))
    for i, b in v["ephys"]:
        t += "@PhysicalBounds%s %s[%d] in %s;\n" % (hsel(v), v["name"], i, mfront_bounds(b))
    if v["bounds"]:
        t += "@Bounds%s %s in %s;\n" % (hsel(v), v["name"], mfront_bounds(v["bounds"]))
    for i, b in v["ebounds"]:
        t += "@Bounds%s %s[%d] in %s;\n" % (hsel(v), v["name"], i, mfront_bounds(b))
    return t


def mfront_text(d):
    if d["kind"] == "MP":
        t = "@DSL MaterialProperty;\n@Law %s;\n" % d["name"]
        if d["unit"]:
            t += "@UnitSystem %s;\n" % d["unit"]
        t += var_text("@Output", d["output"])
        for v in d["inputs"]:
            t += var_text("@Input", v)
        for v in d["params"]:
            t += var_text("@Parameter", v)
        body = d.get("code") or "%s = %s;" % (d["output"]["name"], " + ".join([v["name"] for v in d["inputs"] + d["params"]] + ["1"]))
        t += "@Function{\n  %s\n}\n" % body
        return t
    s = d.get("dsl")
    t = "@DSL %s;\n@Behaviour %s;\n" % ("Implicit" if s else "Default", d["name"])
    if d["unit"]:
        t += "@UnitSystem %s;\n" % d["unit"]
    t += "@ModellingHypotheses {%s};\n" % ", ".join(d["hyps"])
    if s:
        for kw, val in (("@Epsilon", s["eps"]), ("@Theta", s["theta"]), ("@IterMax", s["itermax"])):
            if val:
                t += "%s %s;\n" % (kw, val)
    for kw, l in (("@MaterialProperty", d["mps"]), ("@StateVariable", d["svs"]), ("@AuxiliaryStateVariable", d["asvs"]),
                  ("@ExternalStateVariable", d["esvs"])):
        for v in l:
            t += var_text(kw, v)
    for i, v in enumerate(d["params"] + [None]):
        if s and s["brick"] != "none" and i == min(s["pos"], len(d["params"])):
            t += "@Brick StandardElasticity%s;\n" % ("{young_modulus : %s, poisson_ratio : %s}" % s["brick"][1:] if isinstance(s["brick"], tuple) else "")
        if v is not None:
            t += var_text("@Parameter", v)
    if d.get("code"):
        t += d["code"]
    elif s:
        t += "" if s["brick"] != "none" else "@Integrator{\n}\n"
    else:
        t += "@Integrator{\n  static_cast<void>(smt);\n}\n"
    return t


# ----------------------------------------------------------------------------- independent statement: expected metadata
def fb(b):
    if b is None:
        return None
    return {"L": ("L", float(b[1])), "U": ("U", float(b[2])), "B": ("B", float(b[1]), float(b[2]))}[b[0]]


def ext_name(v):
    return v["gloss"] or v["entry"] or v["name"]


def collapse(l):
    """per-element answers -> the common answer, or ("MIXED", answers)"""
    return l[0] if all(x == l[0] for x in l) else ("MIXED", l)


def elem_bounds(v):
    eb = dict(v["ebounds"])
    return [fb(v["bounds"] if v["bounds"] else eb.get(i)) for i in range(v["size"])]


def expect_var(G, unit, v):
    return dict(ext=ext_name(v), code=TYPES[v["ty"]], size=v["size"], bounds=collapse(elem_bounds(v)), phys=fb(eff_phys(G, unit, v)),
                default=[float(x) for x in v["default"]], var=v)


def expected(G, d, h=None):
    """the table ExternalLibraryManager must answer with (behaviours: under hypothesis h)"""
    E = lambda l: [expect_var(G, d["unit"], v) for v in l if h is None or visible(v, h)]
    if d["kind"] == "MP":
        return dict(kind=0, unit=d["unit"] or "", output=ext_name(d["output"]), args=E(d["inputs"]), hyps=[], mps=[], isvs=[], esvs=[], temperature=None,
                    params=E(d["params"]))
    e = elaborate(d)
    return dict(kind=1, unit=d["unit"] or "", output="", args=[], hyps=[x for x in HYPS if x in d["hyps"]], mps=E(e["mps"]),
                isvs=E(e["svs"]) + E(e["asvs"]), esvs=E(e["esvs"]), temperature=expect_var(G, d["unit"], TEMPERATURE), params=E(e["params"]))


def expanded(l):
    return [m["ext"] if m["size"] == 1 else "%s[%d]" % (m["ext"], i) for m in l for i in range(m["size"])]


# ----------------------------------------------------------------------------- independent statement: which declarations are refused
def dle(a, b):
    return Decimal(a) <= Decimal(b)


def contained(b, p):
    if p is None:
        return True
    if p[0] in "LB" and not (b[0] in "LB" and dle(p[1], b[1])):
        return False
    if p[0] in "UB" and not (b[0] in "UB" and dle(b[2], p[2])):
        return False
    return True


def ordered(b):
    return b[0] != "B" or dle(b[1], b[2])


def quirk(b, p):
    """region where checkBoundsCompatibility compares with the unset side of the physical bounds (numeric_limits<long double>::min()):
    never generated, never judged (examined under C27 / C38)"""
    return p is not None and p[0] == "U" and b[0] in "LB" and Decimal(b[1]) <= 0


def accepts_py(G, d, off_by_one=False, mp_loose=False):
    """None when the declaration falls in the region of the known quirk"""
    gkeys = {e["key"] for e in G}
    if d["unit"] not in (None, "SI"):
        return False

    def bounds_ok(v, arrays):
        p = eff_phys(G, d["unit"], v)
        for b in ([v["bounds"]] if v["bounds"] else []) + [b for _, b in v["ebounds"]]:
            if quirk(b, p):
                return None
            if not (ordered(b) and contained(b, p)):
                return False
        if v["phys"] and not ordered(v["phys"]):
            return False
        if v["ephys"]:
            return False
        if v["ebounds"]:
            idx = [i for i, _ in v["ebounds"]]
            if not arrays or v["size"] == 1 or v["bounds"] or len(set(idx)) != len(idx):
                return False
            if any(i > v["size"] if off_by_one else i >= v["size"] for i in idx):
                return False
        return True

    def names_ok(v):
        if v["gloss"] and (v["gloss"] not in gkeys or v["entry"]):
            return False
        return not (v["entry"] and v["entry"] in gkeys)

    def clash(v, w, loose):
        if loose:
            return v["name"] == w["name"] or (v["gloss"] and v["gloss"] == w["gloss"]) or (v["entry"] and v["entry"] == w["entry"])
        return bool({v["name"], ext_name(v)} & {w["name"], ext_name(w)})

    def no_clash(l, loose):
        return not any(clash(l[i], l[j], loose) for i in range(len(l)) for j in range(i + 1, len(l)))
    if d["kind"] == "MP":
        allv = [d["output"]] + d["inputs"] + d["params"]
        if any(v["size"] != 1 or not names_ok(v) or v["name"] in RESERVED_MP or v["hyps"] for v in allv):
            return False
        for v in [d["output"]] + d["inputs"]:
            r = bounds_ok(v, False)
            if not r:
                return r
        if any(len(v["default"]) != 1 or v["bounds"] or v["phys"] or v["ebounds"] or v["ephys"] for v in d["params"]):
            return False
        return no_clash(allv, mp_loose)
    if not d["hyps"] or len(set(d["hyps"])) != len(d["hyps"]):
        return False
    user = d["mps"] + d["svs"] + d["asvs"] + d["esvs"] + d["params"]
    if any(not names_ok(v) or v["name"] in gkeys or v["name"] in RESERVED_B or not set(v["hyps"]) <= set(d["hyps"]) for v in user):
        return False
    e = elaborate(d)
    allv = e["mps"] + e["svs"] + e["asvs"] + [TEMPERATURE] + e["esvs"] + e["params"]
    for v in allv:
        r = bounds_ok(v, True)
        if not r:
            return r
    if any(v["size"] == 0 for v in user) or any(len(v["default"]) != v["size"] for v in d["params"]):
        return False
    return all(no_clash([v for v in allv if visible(v, h)], False) for h in d["hyps"])


# ----------------------------------------------------------------------------- Gallina terms
def cstr(s):
    return '"%s"' % s


def copt(x, f):
    return "None" if x is None else "(Some %s)" % f(x)


def cdec(s):
    t = Decimal(s).as_tuple()
    m = int("".join(map(str, t.digits))) * (-1 if t.sign else 1)
    return "(mkDec (%d) (%d))" % (m, t.exponent)


def cbnd(b):
    return {"L": lambda: "(Lower %s)" % cdec(b[1]), "U": lambda: "(Upper %s)" % cdec(b[2]), "B": lambda: "(Both %s %s)" % (cdec(b[1]), cdec(b[2]))}[b[0]]()


def cvar(v):
    eb = lambda l: "[" + "; ".join("(%d%%nat, %s)" % (i, cbnd(b)) for i, b in l) + "]"
    return "(mkVar %s %s %s %s %d %s %s [%s] %s %s [%s])" % (
        cstr(v["name"]), copt(v["gloss"], cstr), copt(v["entry"], cstr), TYCOQ[v["ty"]], v["size"], copt(v["bounds"], cbnd), copt(v["phys"], cbnd),
        "; ".join(cdec(x) for x in v["default"]), eb(v["ebounds"]), eb(v["ephys"]), "; ".join(HYP_COQ[h] for h in v["hyps"]))


def cdsl(s):
    if not s:
        return "DefaultDSL"
    b = s["brick"]
    cb = "NoBrick" if b == "none" else "BrickMP" if b == "mp" else "(BrickConst %s %s)" % (cdec(b[1]), cdec(b[2]))
    return "(ImplicitDSL (mkImplicit %s %s %s %s %d%%nat))" % (copt(s["eps"], cdec), copt(s["theta"], cdec), copt(s["itermax"], cdec), cb, s["pos"])


def cdecl(d):
    L = lambda l: "[" + "; ".join(cvar(v) for v in l) + "]"
    out = d["output"] or V("none")
    return "(mkDecl %s %s %s %s %s %s %s %s %s [%s] %s)" % (
        "MaterialProperty" if d["kind"] == "MP" else "Behaviour", copt(d["unit"], cstr), cvar(out), L(d["inputs"]), L(d["mps"]), L(d["svs"]), L(d["asvs"]),
        L(d["esvs"]), L(d["params"]), "; ".join(HYP_COQ[h] for h in d["hyps"]), cdsl(d.get("dsl")))


def cgloss(G):
    return "[" + ";\n ".join("mkG %s %s %s %s" % (cstr(e["key"]), cstr(e["sys"]), copt(e["low"], cdec), copt(e["up"], cdec)) for e in G) + "]"


def cvariant(flags):
    return "(mkVariant %s)" % " ".join("true" if x else "false" for x in flags)

(* C45, per-element bounds, front-end / generator as found: `@Bounds x[n] in ...` on an array of size n is accepted (and then ignored) *)
From Coq Require Import String List ZArith Bool Arith Sorted.
From C45 Require Import C45Model C45Spec C45Proofs.
Import ListNotations.
Local Open Scope string_scope.
Local Open Scope list_scope.
Theorem C45_accepted_declarations_are_well_formed_refuted : forall vr, index_off_by_one vr = true -> exists g d, accepts vr g d = true /\ ~ decl_wf d.
Proof. exact e1_refuted_ex. Qed.
Print Assumptions C45_accepted_declarations_are_well_formed_refuted.
Theorem C45_accepted_declarations_are_well_formed_once_repaired : forall vr g d, index_off_by_one vr = false -> accepts vr g d = true -> decl_wf d.
Proof. exact accepts_wf. Qed.
Print Assumptions C45_accepted_declarations_are_well_formed_once_repaired.

(* C45, array variables: used when the bounds of array variables are readable through ExternalLibraryManager *)
From Coq Require Import String List.
From C45 Require Import C45Model C45Spec C45Proofs.
Local Open Scope list_scope.
Theorem C45_array_variables_bounds_faithful : forall vr g d,
  array_bounds_unreadable vr = false -> dkind d = Behaviour -> let T := symbols vr g d in
  Forall2 (faithful_var g (dunit d)) (dmps d) (t_mps T) /\ Forall2 (faithful_var g (dunit d)) (desvs d) (t_esvs T) /\
  Forall2 (faithful_var g (dunit d)) (dparams d ++ builtin_parameters) (t_params T).
Proof. exact d2_holds. Qed.
Print Assumptions C45_array_variables_bounds_faithful.

(* C45, array variables: used when the bounds of array variables are readable through ExternalLibraryManager *)
From Coq Require Import String List ZArith Bool Arith Sorted.
From C45 Require Import C45Model C45Spec C45Proofs.
Import ListNotations.
Local Open Scope string_scope.
Local Open Scope list_scope.
Theorem C45_array_variables_bounds_faithful : forall vr g d,
  array_bounds_unreadable vr = false -> dkind d = Behaviour -> let T := symbols vr g d in
  Forall2 (wf_faithful g (dunit d)) (dsl_mps (ddsl d) (dmps d)) (t_mps T) /\ Forall2 (wf_faithful g (dunit d)) (desvs d) (t_esvs T) /\
  Forall2 (wf_faithful g (dunit d)) (dsl_params (ddsl d) (dparams d)) (t_params T).
Proof. exact d2_holds. Qed.
Print Assumptions C45_array_variables_bounds_faithful.

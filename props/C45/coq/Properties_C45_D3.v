(* C45, state variables: used when state variables inherit the physical bounds of their glossary entry in the library *)
From Coq Require Import String List ZArith Bool Arith Sorted.
From C45 Require Import C45Model C45Spec C45Proofs.
Import ListNotations.
Local Open Scope string_scope.
Local Open Scope list_scope.
Theorem C45_state_variables_inherit_glossary_bounds : forall vr g d,
  persistent_not_completed vr = false -> dkind d = Behaviour ->
  Forall2 (scalar_faithful g (dunit d)) (dsl_svs (ddsl d) (dsvs d) ++ dasvs d) (t_isvs (symbols vr g d)).
Proof. exact d3_holds. Qed.
Print Assumptions C45_state_variables_inherit_glossary_bounds.

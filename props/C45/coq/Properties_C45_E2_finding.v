(* C45, material-property names, front-end / generator as found: an entry / glossary name equal to the name of another variable is accepted: two exported variables bear the same name *)
From Coq Require Import String List ZArith Bool Arith Sorted.
From C45 Require Import C45Model C45Spec C45Proofs.
Import ListNotations.
Local Open Scope string_scope.
Local Open Scope list_scope.
Theorem C45_accepted_material_property_names_unique_refuted : forall vr, mp_names_unchecked vr = true ->
  exists g d, dkind d = MaterialProperty /\ accepts vr g d = true /\ ~ NoDup (map ext_name (all_vars d)).
Proof. exact e2_refuted_ex. Qed.
Print Assumptions C45_accepted_material_property_names_unique_refuted.
Theorem C45_accepted_material_property_names_unique_once_repaired : forall vr g d, mp_names_unchecked vr = false -> dkind d = MaterialProperty -> accepts vr g d = true ->
  NoDup (map ext_name (all_vars d)) /\ NoDup (map ext_name (dparams d)).
Proof. exact e2_holds. Qed.
Print Assumptions C45_accepted_material_property_names_unique_once_repaired.

(* C45, material-property inputs: used when the generated code exports the physical bounds of an input without @Bounds *)
From Coq Require Import String List ZArith Bool Arith Sorted.
From C45 Require Import C45Model C45Spec C45Proofs.
Import ListNotations.
Local Open Scope string_scope.
Local Open Scope list_scope.
Theorem C45_material_property_inputs_faithful : forall vr g d,
  mp_phys_needs_bounds vr = false -> dkind d = MaterialProperty ->
  Forall2 (scalar_faithful g (dunit d)) (dinputs d) (t_args (symbols vr g d)).
Proof. exact d1_holds. Qed.
Print Assumptions C45_material_property_inputs_faithful.

(* C45 -- lemmas *)
From Coq Require Import String List ZArith Bool Arith Sorted Lia.
From C45 Require Import C45Model C45Spec.
Import ListNotations.
Local Open Scope string_scope.
Local Open Scope list_scope.

(* ---------------------------------------------------------------- names *)
Lemma ext_name_ok : forall v, ext_name_spec v (ext_name v).
Proof.
  intros v. unfold ext_name. destruct (vgloss v) eqn:G.
  - now apply EN_gloss.
  - destruct (ventry v) eqn:E; [now apply EN_entry | now apply EN_name].
Qed.

Lemma ext_name_spec_det : forall v a b, ext_name_spec v a -> ext_name_spec v b -> a = b.
Proof. intros v a b Ha Hb. inversion Ha; inversion Hb; congruence. Qed.

(* ---------------------------------------------------------------- glossary lookup *)
Definition gmatch (k s : string) (e : gentry) : bool := String.eqb (gkey e) k && String.eqb (gsys e) s.

Lemma gmatch_true : forall k s e, gmatch k s e = true <-> (gkey e = k /\ gsys e = s).
Proof. intros. unfold gmatch. rewrite andb_true_iff, !String.eqb_eq. tauto. Qed.

Lemma glookup_some : forall g k s e, glookup g k s = Some e -> first_entry g k s e.
Proof.
  induction g as [|a g IH]; intros k s e H; [discriminate|].
  unfold glookup in *. simpl in H. fold (gmatch k s a) in H. destruct (gmatch k s a) eqn:M.
  - inversion H; subst. apply gmatch_true in M. exists [], g. simpl. split; [reflexivity|]. split; [tauto|]. split; [tauto|]. intros e' [].
  - destruct (IH _ _ _ H) as (g1 & g2 & -> & Hk & Hs & Hn). exists (a :: g1), g2. simpl. repeat split; auto.
    intros e' [<-|Hin]; [intro C; apply gmatch_true in C; congruence | now apply Hn].
Qed.

Lemma glookup_none : forall g k s, glookup g k s = None -> forall e, In e g -> ~ (gkey e = k /\ gsys e = s).
Proof.
  intros g k s H e Hin C. unfold glookup in H. apply (find_none _ _ H) in Hin.
  fold (gmatch k s e) in Hin. apply gmatch_true in C. congruence.
Qed.

Lemma first_entry_glookup : forall g k s e, first_entry g k s e -> glookup g k s = Some e.
Proof.
  intros g k s e (g1 & g2 & -> & Hk & Hs & Hn). unfold glookup. induction g1 as [|a g1 IH]; simpl.
  - fold (gmatch k s e). now rewrite (proj2 (gmatch_true k s e) (conj Hk Hs)).
  - fold (gmatch k s a). destruct (gmatch k s a) eqn:M.
    + apply gmatch_true in M. exfalso. apply (Hn a); simpl; auto.
    + apply IH. intros e' Hin. apply Hn. simpl; auto.
Qed.

Lemma unknown_glookup : forall g k s, (forall e, In e g -> ~ (gkey e = k /\ gsys e = s)) -> glookup g k s = None.
Proof.
  intros g k s H. unfold glookup. destruct (find _ g) eqn:F; [|reflexivity].
  apply find_some in F. destruct F as [Hin M]. fold (gmatch k s g0) in M. apply gmatch_true in M. now apply H in Hin.
Qed.

(* ---------------------------------------------------------------- completion rule *)
Lemma complete_ok : forall g u v, phys_spec g u v (complete g u v).
Proof.
  intros g u v. unfold complete. destruct (vphys v) eqn:P; [now apply PS_declared|].
  destruct u as [s|]; [|now apply PS_no_unit].
  destruct (vgloss v) as [k|] eqn:G; [|now apply PS_no_gloss].
  destruct (glookup g k s) as [e|] eqn:L.
  - apply glookup_some in L. unfold entry_bounds. destruct (glow e) eqn:A, (gup e) eqn:B.
    + eapply PS_both; eauto. + eapply PS_lower; eauto. + eapply PS_upper; eauto. + eapply PS_none; eauto.
  - eapply PS_unknown; eauto. now apply glookup_none.
Qed.

Lemma phys_spec_complete : forall g u v r, phys_spec g u v r -> r = complete g u v.
Proof.
  intros g u v r H. unfold complete.
  destruct H as [b P | P U | P G | s k P U G N | s k e l up P U G F A B | s k e l P U G F A B
                 | s k e up P U G F A B | s k e P U G F A B]; rewrite P; try reflexivity.
  - now rewrite U.
  - rewrite G. now destruct u.
  - now rewrite U, G, (unknown_glookup _ _ _ N).
  - rewrite U, G, (first_entry_glookup _ _ _ _ F). unfold entry_bounds. now rewrite A, B.
  - rewrite U, G, (first_entry_glookup _ _ _ _ F). unfold entry_bounds. now rewrite A, B.
  - rewrite U, G, (first_entry_glookup _ _ _ _ F). unfold entry_bounds. now rewrite A, B.
  - rewrite U, G, (first_entry_glookup _ _ _ _ F). unfold entry_bounds. now rewrite A, B.
Qed.

Lemma phys_spec_det : forall g u v a b, phys_spec g u v a -> phys_spec g u v b -> a = b.
Proof. intros. rewrite (phys_spec_complete _ _ _ _ H), (phys_spec_complete _ _ _ _ H0). reflexivity. Qed.

(* a two-sided glossary entry yields BOTH bounds *)
Lemma complete_two_sided : forall g s k e l u v,
  vphys v = None -> vgloss v = Some k -> first_entry g k s e -> glow e = Some l -> gup e = Some u ->
  complete g (Some s) v = Some (Both l u).
Proof.
  intros. symmetry. apply phys_spec_complete. eapply PS_both; eauto.
Qed.

Lemma complete_declared : forall g u v b, vphys v = Some b -> complete g u v = Some b.
Proof. intros. unfold complete. now rewrite H. Qed.

(* ---------------------------------------------------------------- bounds of the elements *)
Lemma elem_decl_in : forall l i b, NoDup (map fst l) -> In (i, b) l -> elem_decl l i = Some b.
Proof.
  induction l as [|[j c] l IH]; intros i b ND Hin; [contradiction|]. unfold elem_decl. simpl.
  inversion ND; subst. destruct Hin as [E|Hin].
  - inversion E; subst. now rewrite Nat.eqb_refl.
  - destruct (Nat.eqb j i) eqn:J.
    + apply Nat.eqb_eq in J. subst. exfalso. apply H1. change i with (fst (i, b)). now apply in_map.
    + now apply IH.
Qed.

Lemma elem_decl_none : forall l i, (forall b, ~ In (i, b) l) -> elem_decl l i = None.
Proof.
  induction l as [|[j c] l IH]; intros i H; [reflexivity|]. unfold elem_decl. simpl.
  destruct (Nat.eqb j i) eqn:J.
  - apply Nat.eqb_eq in J. subst. exfalso. apply (H c). now left.
  - apply IH. intros b Hb. apply (H b). now right.
Qed.

Lemma elem_bounds_ok : forall v i, bounds_wf v -> elem_bounds_spec v i (elem_bounds v i).
Proof.
  intros v i ([W|W] & ND & _ & _); unfold elem_bounds_spec, elem_bounds; rewrite W.
  - repeat split; [discriminate | intros; now apply elem_decl_in | intros _ H; now apply elem_decl_none].
  - destruct (vbounds v); simpl; repeat split; try congruence; try contradiction; reflexivity.
Qed.

Lemma elem_bounds_spec_det : forall v i a b, bounds_wf v -> elem_bounds_spec v i a -> elem_bounds_spec v i b -> a = b.
Proof.
  intros v i a b W (A1 & A2 & A3) (B1 & B2 & B3). destruct (vbounds v) as [c|] eqn:V.
  - now rewrite (A1 c), (B1 c).
  - destruct (elem_decl (vebounds v) i) as [c|] eqn:E.
    + assert (Hin : In (i, c) (vebounds v)).
      { unfold elem_decl in E. destruct (find _ (vebounds v)) as [[j c']|] eqn:F; [|discriminate]. apply find_some in F.
        destruct F as [F1 F2]. simpl in *. apply Nat.eqb_eq in F2. inversion E. now subst. }
      now rewrite (A2 c), (B2 c).
    + assert (Hn : forall c, ~ In (i, c) (vebounds v)).
      { intros c Hin. destruct W as (_ & ND & _). rewrite (elem_decl_in _ _ _ ND Hin) in E. discriminate. }
      now rewrite A3, B3.
Qed.

(* ---------------------------------------------------------------- one variable *)
Lemma meta_names : forall vr g u c v, faithful_var_names v (meta vr g u c v).
Proof. intros. unfold faithful_var_names, meta; simpl. repeat split. apply ext_name_ok. Qed.

Lemma meta_input_names : forall vr g u v, faithful_var_names v (meta_input vr g u v).
Proof.
  intros. unfold meta_input. destruct (mp_phys_needs_bounds vr); [|apply meta_names].
  destruct (vbounds v); [apply meta_names|]. unfold faithful_var_names; simpl. repeat split. apply ext_name_ok.
Qed.

Lemma hide_scalar : forall vr v b, vsize v = 1 -> hide_arrays vr v b = b.
Proof. intros. unfold hide_arrays. rewrite H. simpl. now rewrite andb_false_r. Qed.

Lemma hide_off : forall vr v b, array_bounds_unreadable vr = false -> hide_arrays vr v b = b.
Proof. intros. unfold hide_arrays. now rewrite H. Qed.

Lemma nth_map_seq : forall (A : Type) (f : nat -> A) n i d, i < n -> nth i (map f (seq 0 n)) d = f i.
Proof.
  intros A f n i d H. rewrite (nth_indep _ d (f 0)) by now rewrite map_length, seq_length.
  rewrite (map_nth f (seq 0 n) 0 i). now rewrite seq_nth.
Qed.

Lemma meta_faithful_gen : forall vr g u v,
  (forall b, hide_arrays vr v b = b) -> bounds_wf v -> faithful_var g u v (meta vr g u true v).
Proof.
  intros vr g u v H W. unfold faithful_var, meta; simpl. rewrite !map_length, !seq_length.
  split; [apply ext_name_ok|]. do 3 (split; [reflexivity|]).
  split; [intros i Hi; rewrite nth_map_seq, H by assumption; now apply elem_bounds_ok|].
  split; [reflexivity|]. split; [|reflexivity].
  intros i Hi. rewrite nth_map_seq, H by assumption. apply complete_ok.
Qed.

Lemma meta_faithful_scalar : forall vr g u v, vsize v = 1 -> bounds_wf v -> faithful_var g u v (meta vr g u true v).
Proof. intros. apply meta_faithful_gen; auto. intros. now apply hide_scalar. Qed.

Lemma meta_faithful : forall vr g u v, array_bounds_unreadable vr = false -> bounds_wf v -> faithful_var g u v (meta vr g u true v).
Proof. intros. apply meta_faithful_gen; auto. intros. now apply hide_off. Qed.

Lemma meta_input_faithful_scalar : forall vr g u v,
  mp_phys_needs_bounds vr = false -> vsize v = 1 -> bounds_wf v -> faithful_var g u v (meta_input vr g u v).
Proof. intros. unfold meta_input. rewrite H. now apply meta_faithful_scalar. Qed.

Lemma Forall2_map_r : forall (A B : Type) (P : A -> B -> Prop) (f : A -> B) l,
  (forall a, In a l -> P a (f a)) -> Forall2 P l (map f l).
Proof. induction l; simpl; intros; constructor; auto. Qed.

(* ---------------------------------------------------------------- hypotheses *)
Lemma hyp_eqb_eq : forall a b, hyp_eqb a b = true <-> a = b.
Proof. intros a b; split; [destruct a, b; simpl; intro; congruence || discriminate | intros ->; destruct b; reflexivity]. Qed.

Lemma in_all_hyps : forall h, In h all_hyps.
Proof. destruct h; simpl; tauto. Qed.

Lemma all_hyps_sorted : StronglySorted (fun a b => hyp_rank a < hyp_rank b) all_hyps.
Proof. unfold all_hyps. repeat (constructor; [|repeat constructor; simpl; lia]). constructor. Qed.

Lemma sorted_filter : forall (A : Type) (R : A -> A -> Prop) f l, StronglySorted R l -> StronglySorted R (filter f l).
Proof.
  induction l; simpl; intros H; [constructor|]. inversion H; subst. destruct (f a); auto.
  constructor; auto. rewrite Forall_forall in *. intros x Hx. apply filter_In in Hx. now apply H3.
Qed.

Lemma sorted_nodup : forall l, StronglySorted (fun a b => hyp_rank a < hyp_rank b) l -> NoDup l.
Proof.
  induction l; intros H; constructor; inversion H; subst; auto.
  intro Hin. rewrite Forall_forall in H3. specialize (H3 _ Hin). lia.
Qed.

Lemma hyps_ok : forall l, hyps_spec l (hyps_exported l).
Proof.
  intros l. unfold hyps_spec, hyps_exported.
  assert (S : StronglySorted (fun a b => hyp_rank a < hyp_rank b) (filter (fun h => existsb (hyp_eqb h) l) all_hyps))
    by (apply sorted_filter, all_hyps_sorted).
  split; [now apply sorted_nodup|]. split; [|assumption].
  intros h. rewrite filter_In, existsb_exists. split.
  - intros [_ (x & Hx & E)]. apply hyp_eqb_eq in E. now subst.
  - intros Hin. split; [apply in_all_hyps|]. exists h. split; auto. now apply hyp_eqb_eq.
Qed.

(* ---------------------------------------------------------------- sizes *)
Lemma expand_length : forall m, length (expand m) = m_size m.
Proof.
  intros m. unfold expand. destruct (Nat.eqb (m_size m) 1) eqn:E.
  - apply Nat.eqb_eq in E. now rewrite E.
  - now rewrite map_length, seq_length.
Qed.

Lemma expanded_names_length : forall vr g u c l,
  length (expanded_names (map (meta vr g u c) l)) = sum_sizes l.
Proof.
  induction l; simpl; auto. unfold expanded_names in *. simpl. rewrite app_length, expand_length, IHl. reflexivity.
Qed.

Lemma expanded_types_length : forall vr g u c l,
  length (expanded_types (map (meta vr g u c) l)) = sum_sizes l.
Proof.
  induction l; simpl; auto. unfold expanded_types in *. simpl. rewrite app_length, repeat_length, IHl. reflexivity.
Qed.

(* ---------------------------------------------------------------- the whole table, repaired generator *)
Definition decl_wf (d : decl) : Prop := forall v, In v (all_vars d) -> bounds_wf v.

Lemma plain_wf : forall n g e t def, bounds_wf (plain n g e t def).
Proof. intros. unfold bounds_wf, plain; simpl. split; [now left|]. split; [constructor|]. split; [reflexivity|]. intros i b []. Qed.

Lemma in_all_vars_mp : forall d v, dkind d = MaterialProperty -> In v (dinputs d) \/ In v (dparams d) -> In v (all_vars d).
Proof. intros d v K H. unfold all_vars. rewrite K. right. apply in_or_app. tauto. Qed.

Lemma in_all_vars_b : forall d v, dkind d = Behaviour ->
  In v (dsl_mps (ddsl d) (dmps d)) \/ In v (dsl_svs (ddsl d) (dsvs d) ++ dasvs d) \/ In v (desvs d) \/
  In v (dsl_params (ddsl d) (dparams d)) -> In v (all_vars d).
Proof.
  intros d v K H. unfold all_vars. rewrite K. rewrite !in_app_iff in *. simpl. rewrite !in_app_iff. tauto.
Qed.

Lemma faithful_repaired : forall g d, decl_wf d -> faithful g d (symbols repaired g d).
Proof.
  intros g d W. unfold faithful, symbols.
  assert (F : forall l, (forall v, In v l -> In v (all_vars d)) ->
                        Forall2 (faithful_var g (dunit d)) l (map (meta repaired g (dunit d) true) l))
    by (intros l Hl; apply Forall2_map_r; intros v Hv; apply meta_faithful; auto).
  destruct (dkind d) eqn:K; simpl.
  - split; [|reflexivity]. split; [reflexivity|]. split; [apply ext_name_ok|]. split.
    + apply Forall2_map_r. intros v Hv. unfold meta_input; simpl. apply meta_faithful; auto. apply W. apply in_all_vars_mp; auto.
    + apply F. intros v Hv. apply in_all_vars_mp; auto.
  - split; [|reflexivity]. split; [reflexivity|]. split; [apply hyps_ok|].
    split; [apply F; intros; apply in_all_vars_b; auto|]. split; [apply F; intros; apply in_all_vars_b; auto|].
    split; [apply F; intros; apply in_all_vars_b; auto|]. apply F; intros; apply in_all_vars_b; auto 6.
Qed.

(* ---------------------------------------------------------------- the findings: witnesses *)
Definition v0 : var := plain "y" None None TScalar [].

(* D1: input of a material property with @PhysicalBounds and no @Bounds *)
Definition w1_var : var := mkVar "x" None None TScalar 1 None (Some (Lower (mkDec 0 0))) [] [] [] [].
Definition w1 : decl := mkDecl MaterialProperty None v0 [w1_var] [] [] [] [] [] [] DefaultDSL.
(* D2: array material property of a behaviour with @Bounds *)
Definition w2_var : var := mkVar "a" None None TScalar 3 (Some (Both (mkDec 0 0) (mkDec 10 0))) None [] [] [] [].
Definition w2 : decl := mkDecl Behaviour None v0 [] [w2_var] [] [] [] [] [Tridimensional] DefaultDSL.
(* D3: state variable attached to the two-sided glossary entry Porosity, unit system SI *)
Definition w3_var : var := mkVar "f" (Some "Porosity") None TScalar 1 None None [] [] [] [].
Definition w3_g : glossary := [mkG "Porosity" "SI" (Some (mkDec 0 0)) (Some (mkDec 1 0))].
Definition w3 : decl := mkDecl Behaviour (Some "SI") v0 [] [] [w3_var] [] [] [] [Tridimensional] DefaultDSL.

Definition scalar_faithful (g : glossary) (u : option string) (v : var) (m : vmeta) : Prop :=
  vsize v = 1 -> bounds_wf v -> faithful_var g u v m.

Lemma w1_wf : bounds_wf w1_var. Proof. unfold bounds_wf; simpl. split; [now right|]. split; [constructor|]. split; [reflexivity|]. intros i b []. Qed.
Lemma w2_wf : bounds_wf w2_var. Proof. unfold bounds_wf; simpl. split; [now right|]. split; [constructor|]. split; [reflexivity|]. intros i b []. Qed.
Lemma w3_wf : bounds_wf w3_var. Proof. unfold bounds_wf; simpl. split; [now right|]. split; [constructor|]. split; [reflexivity|]. intros i b []. Qed.

Lemma d1_refuted : forall vr, mp_phys_needs_bounds vr = true ->
  ~ Forall2 (scalar_faithful [] (dunit w1)) (dinputs w1) (t_args (symbols vr [] w1)).
Proof.
  intros vr F H. unfold symbols, w1 in H; simpl in H. inversion H; subst. clear H H5.
  destruct (H3 eq_refl w1_wf) as (_ & _ & _ & _ & _ & _ & P & _). specialize (P 0 (Nat.lt_0_1)).
  unfold meta_input in P. rewrite F in P. simpl in P. inversion P; discriminate.
Qed.

Definition wf_faithful (g : glossary) (u : option string) (v : var) (m : vmeta) : Prop := bounds_wf v -> faithful_var g u v m.

Lemma d2_refuted : forall vr, array_bounds_unreadable vr = true ->
  ~ Forall2 (wf_faithful [] (dunit w2)) (dsl_mps (ddsl w2) (dmps w2)) (t_mps (symbols vr [] w2)).
Proof.
  intros vr F H. unfold symbols, w2 in H; simpl in H. inversion H; subst. clear H H5.
  destruct (H3 w2_wf) as (_ & _ & _ & _ & B & _). assert (L : 0 < 3) by repeat constructor. destruct (B 0 L) as (B1 & _).
  specialize (B1 _ eq_refl). simpl in B1. unfold hide_arrays in B1. rewrite F in B1. simpl in B1. discriminate.
Qed.

Lemma d3_refuted : forall vr, persistent_not_completed vr = true ->
  ~ Forall2 (scalar_faithful w3_g (dunit w3)) (dsl_svs (ddsl w3) (dsvs w3) ++ dasvs w3) (t_isvs (symbols vr w3_g w3)).
Proof.
  intros vr F H. unfold symbols, w3 in H; simpl in H. rewrite F in H. simpl in H. inversion H; subst. clear H H5.
  destruct (H3 eq_refl w3_wf) as (_ & _ & _ & _ & _ & _ & P & _). specialize (P 0 (Nat.lt_0_1)). simpl in P.
  rewrite hide_scalar in P by reflexivity. apply phys_spec_complete in P. vm_compute in P. discriminate.
Qed.

(* ---------------------------------------------------------------- the table, any variant *)
Lemma names_any : forall vr g d, let T := symbols vr g d in
  match dkind d with
  | MaterialProperty =>
      t_kind T = 0%Z /\ ext_name_spec (doutput d) (t_output T) /\ Forall2 faithful_var_names (dinputs d) (t_args T) /\
      Forall2 faithful_var_names (dparams d) (t_params T)
  | Behaviour =>
      t_kind T = 1%Z /\ hyps_spec (dhyps d) (t_hyps T) /\ Forall2 faithful_var_names (dsl_mps (ddsl d) (dmps d)) (t_mps T) /\
      Forall2 faithful_var_names (dsl_svs (ddsl d) (dsvs d) ++ dasvs d) (t_isvs T) /\ Forall2 faithful_var_names (desvs d) (t_esvs T) /\
      Forall2 faithful_var_names (dsl_params (ddsl d) (dparams d)) (t_params T)
  end /\ t_unit T = match dunit d with Some s => s | None => "" end.
Proof.
  intros vr g d T. subst T. unfold symbols.
  assert (F : forall c l, Forall2 faithful_var_names l (map (meta vr g (dunit d) c) l))
    by (intros c l; apply Forall2_map_r; intros v _; apply meta_names).
  destruct (dkind d); simpl.
  - split; [|reflexivity]. split; [reflexivity|]. split; [apply ext_name_ok|]. split; [|apply F].
    apply Forall2_map_r. intros v _. apply meta_input_names.
  - split; [|reflexivity]. split; [reflexivity|]. split; [apply hyps_ok|]. repeat (split; [apply F|]). apply F.
Qed.

(* containers that none of the first three findings touches, non-array variables: faithful whatever the variant *)
Lemma scalars_any : forall vr g d, let T := symbols vr g d in
  match dkind d with
  | MaterialProperty => Forall2 (scalar_faithful g (dunit d)) (dparams d) (t_params T)
  | Behaviour =>
      Forall2 (scalar_faithful g (dunit d)) (dsl_mps (ddsl d) (dmps d)) (t_mps T) /\
      Forall2 (scalar_faithful g (dunit d)) (desvs d) (t_esvs T) /\
      Forall2 (scalar_faithful g (dunit d)) (dsl_params (ddsl d) (dparams d)) (t_params T) /\
      (exists m, t_temperature T = Some m /\ faithful_var g (dunit d) temperature_var m)
  end.
Proof.
  intros vr g d T. subst T. unfold symbols.
  assert (F : forall l, Forall2 (scalar_faithful g (dunit d)) l (map (meta vr g (dunit d) true) l))
    by (intros l; apply Forall2_map_r; intros v _ Hs W; now apply meta_faithful_scalar).
  destruct (dkind d); simpl; [apply F|]. repeat (split; [apply F|]).
  eexists. split; [reflexivity|]. apply meta_faithful_scalar; [reflexivity|apply plain_wf].
Qed.

Lemma sizes_any : forall vr g d, dkind d = Behaviour -> let T := symbols vr g d in
  length (expanded_names (t_mps T)) = sum_sizes (dsl_mps (ddsl d) (dmps d)) /\
  length (expanded_names (t_isvs T)) = sum_sizes (dsl_svs (ddsl d) (dsvs d) ++ dasvs d) /\
  length (expanded_types (t_isvs T)) = sum_sizes (dsl_svs (ddsl d) (dsvs d) ++ dasvs d) /\
  length (expanded_names (t_esvs T)) = sum_sizes (desvs d) /\
  length (expanded_types (t_esvs T)) = sum_sizes (desvs d) /\
  length (expanded_names (t_params T)) = sum_sizes (dsl_params (ddsl d) (dparams d)) /\
  length (expanded_types (t_params T)) = sum_sizes (dsl_params (ddsl d) (dparams d)).
Proof.
  intros vr g d K T. subst T. unfold symbols. rewrite K. simpl.
  repeat split; auto using expanded_names_length, expanded_types_length.
Qed.

(* ---------------------------------------------------------------- positive statements, one per finding *)
Lemma d1_holds : forall vr g d, mp_phys_needs_bounds vr = false -> dkind d = MaterialProperty ->
  Forall2 (scalar_faithful g (dunit d)) (dinputs d) (t_args (symbols vr g d)).
Proof.
  intros vr g d F K. unfold symbols. rewrite K. simpl. apply Forall2_map_r. intros v _ Hs W. now apply meta_input_faithful_scalar.
Qed.

Lemma d2_holds : forall vr g d, array_bounds_unreadable vr = false -> dkind d = Behaviour -> let T := symbols vr g d in
  Forall2 (wf_faithful g (dunit d)) (dsl_mps (ddsl d) (dmps d)) (t_mps T) /\ Forall2 (wf_faithful g (dunit d)) (desvs d) (t_esvs T) /\
  Forall2 (wf_faithful g (dunit d)) (dsl_params (ddsl d) (dparams d)) (t_params T).
Proof.
  intros vr g d F K T. subst T. unfold symbols. rewrite K. simpl.
  repeat split; apply Forall2_map_r; intros v _ W; now apply meta_faithful.
Qed.

Lemma d3_holds : forall vr g d, persistent_not_completed vr = false -> dkind d = Behaviour ->
  Forall2 (scalar_faithful g (dunit d)) (dsl_svs (ddsl d) (dsvs d) ++ dasvs d) (t_isvs (symbols vr g d)).
Proof.
  intros vr g d F K. unfold symbols. rewrite K, F. simpl. apply Forall2_map_r. intros v _ Hs W. now apply meta_faithful_scalar.
Qed.

(* once repaired, nothing else changes: the flags only touch bounds entries *)
Lemma repair_changes_only_bounds : forall vr g d,
  map (fun m => (m_ext m, m_code m, m_size m, m_def m)) (t_isvs (symbols vr g d)) =
  map (fun m => (m_ext m, m_code m, m_size m, m_def m)) (t_isvs (symbols repaired g d)) /\
  map (fun m => (m_ext m, m_code m, m_size m, m_def m)) (t_args (symbols vr g d)) =
  map (fun m => (m_ext m, m_code m, m_size m, m_def m)) (t_args (symbols repaired g d)) /\
  t_hyps (symbols vr g d) = t_hyps (symbols repaired g d) /\ t_output (symbols vr g d) = t_output (symbols repaired g d).
Proof.
  intros vr g d. unfold symbols. destruct (dkind d); simpl; repeat split; rewrite ?map_map; simpl; auto.
  apply map_ext. intros v. unfold meta_input. destruct (mp_phys_needs_bounds vr); simpl; auto. destruct (vbounds v); reflexivity.
Qed.

(* ---------------------------------------------------------------- parameters: setParameter = editing the default value *)
Lemma map_nth_seq : forall (l : list dec), map (fun i => nth i l zero) (seq 0 (length l)) = l.
Proof.
  intros l. apply (nth_ext _ _ zero zero); [now rewrite map_length, seq_length|].
  intros n Hn. rewrite map_length, seq_length in Hn. now rewrite nth_map_seq.
Qed.

Lemma pad_length : forall v, length (pad v) = vsize v.
Proof. intros. unfold pad. now rewrite map_length, seq_length. Qed.

Lemma set_nth_length : forall (A : Type) i (x : A) l, i < length l -> length (set_nth i x l) = length l.
Proof.
  intros A i x l H. unfold set_nth. rewrite app_length, firstn_length_le by lia.
  change (length (x :: skipn (Datatypes.S i) l)) with (Datatypes.S (length (skipn (Datatypes.S i) l))). rewrite skipn_length. lia.
Qed.

Lemma matches_index : forall h k key s, slot_matches h k key s = true -> key_index key < length (s_vals s).
Proof.
  intros h k [n [i|]] s H; unfold slot_matches, key_index in *; simpl in *.
  - rewrite !andb_true_iff, orb_true_iff in H. destruct H as (_ & [H|H]).
    + rewrite !andb_true_iff in H. destruct H as (_ & _ & H). now apply Nat.ltb_lt in H.
    + destruct (s_alias s); discriminate.
  - rewrite !andb_true_iff, orb_true_iff in H. destruct H as (_ & [H|H]).
    + rewrite andb_true_iff in H. destruct H as (_ & H). apply Nat.eqb_eq in H. lia.
    + destruct (s_alias s); [|discriminate]. rewrite andb_true_iff in H. destruct H as (_ & H). apply Nat.eqb_eq in H. lia.
Qed.

Lemma slot_of_with_default : forall mp v i x, i < vsize v ->
  slot_of mp (with_default v i x) =
  mkSlot (s_owner (slot_of mp v)) (s_name (slot_of mp v)) (s_alias (slot_of mp v)) (s_kind (slot_of mp v))
         (set_nth i x (s_vals (slot_of mp v))).
Proof.
  intros mp v i x H. unfold slot_of, with_default; simpl. f_equal. unfold pad at 1; simpl.
  assert (L : vsize v = length (set_nth i x (pad v))) by (rewrite set_nth_length; rewrite pad_length; auto).
  rewrite L at 1. apply map_nth_seq.
Qed.

Lemma set_param_store_of : forall mp params h k key x,
  set_param (store_of mp params) h k key x = option_map (store_of mp) (set_default mp params h k key x).
Proof.
  induction params as [|v r IH]; intros h k key x; simpl; [reflexivity|].
  destruct (slot_matches h k key (slot_of mp v)) eqn:M; simpl.
  - f_equal. f_equal. symmetry. apply slot_of_with_default. apply matches_index in M. simpl in M. now rewrite pad_length in M.
  - rewrite IH. destruct (set_default mp r h k key x); reflexivity.
Qed.

Lemma load_file_store_of : forall mp lines params h,
  load_file (store_of mp params) h lines = option_map (store_of mp) (edit_defaults mp params h lines).
Proof.
  induction lines as [|[[k key] x] r IH]; intros params h; simpl; [reflexivity|].
  rewrite set_param_store_of. destruct (set_default mp params h k key x); simpl; [apply IH|reflexivity].
Qed.

(* the call fails exactly when no parameter of that type, visible under that hypothesis, has that name *)
Lemma set_param_none : forall st h k key x,
  set_param st h k key x = None <-> forall s, In s st -> slot_matches h k key s = false.
Proof.
  induction st as [|s r IH]; intros h k key x; simpl; [split; [intros _ s []|reflexivity]|].
  destruct (slot_matches h k key s) eqn:M.
  - split; [discriminate|]. intros H. rewrite (H s) in M by now left. discriminate.
  - destruct (set_param r h k key x) eqn:E; simpl.
    + split; [discriminate|]. intros H. assert (N : set_param r h k key x = None) by (apply IH; intros; apply H; now right). congruence.
    + split; [|reflexivity]. intros _ s0 [<-|Hin]; [assumption|]. apply (proj1 (IH h k key x) E). assumption.
Qed.

(* exactly one member changes: the first one that matches, at the index given by the key *)
Lemma set_param_some : forall st h k key x st',
  set_param st h k key x = Some st' ->
  exists l1 s l2, st = l1 ++ s :: l2 /\ (forall s0, In s0 l1 -> slot_matches h k key s0 = false) /\ slot_matches h k key s = true /\
                  st' = l1 ++ mkSlot (s_owner s) (s_name s) (s_alias s) (s_kind s) (set_nth (key_index key) x (s_vals s)) :: l2.
Proof.
  induction st as [|s r IH]; intros h k key x st' H; simpl in H; [discriminate|].
  destruct (slot_matches h k key s) eqn:M.
  - inversion H; subst. exists [], s, r. simpl. repeat split; auto. intros s0 [].
  - destruct (set_param r h k key x) eqn:E; simpl in H; [|discriminate]. inversion H; subst.
    destruct (IH _ _ _ _ _ E) as (l1 & s1 & l2 & -> & N & M1 & ->). exists (s :: l1), s1, l2. simpl. repeat split; auto.
    intros s0 [<-|Hin]; auto.
Qed.

Lemma set_recompile : forall mp params h k key x st',
  set_param (store_of mp params) h k key x = Some st' ->
  exists params', set_default mp params h k key x = Some params' /\ st' = store_of mp params' /\
                  forall h', view st' h' = view (store_of mp params') h'.
Proof.
  intros mp params h k key x st' H. rewrite set_param_store_of in H.
  destruct (set_default mp params h k key x) as [p'|]; simpl in H; [|discriminate]. inversion H; subst. exists p'. auto.
Qed.

Lemma file_recompile : forall mp params h lines st',
  load_file (store_of mp params) h lines = Some st' ->
  exists params', edit_defaults mp params h lines = Some params' /\ st' = store_of mp params' /\
                  forall h', view st' h' = view (store_of mp params') h'.
Proof.
  intros mp params h lines st' H. rewrite load_file_store_of in H.
  destruct (edit_defaults mp params h lines) as [p'|]; simpl in H; [|discriminate]. inversion H; subst. exists p'. auto.
Qed.

Lemma nth_set_nth : forall (A : Type) (l : list A) i x j d, i < length l ->
  nth j (set_nth i x l) d = if Nat.eqb j i then x else nth j l d.
Proof.
  induction l as [|a l IH]; intros i x j d H; simpl in H; [lia|]. destruct i as [|i].
  - unfold set_nth. simpl. destruct j; reflexivity.
  - change (set_nth (Datatypes.S i) x (a :: l)) with (a :: set_nth i x l). destruct j as [|j]; [reflexivity|].
    simpl. apply IH. lia.
Qed.

(* editing a default value touches nothing but that default value *)
Lemma with_default_same_declaration : forall v i x,
  let w := with_default v i x in
  vname w = vname v /\ vgloss w = vgloss v /\ ventry w = ventry v /\ vty w = vty v /\ vsize w = vsize v /\ vbounds w = vbounds v /\
  vphys w = vphys v /\ vebounds w = vebounds v /\ vhyps w = vhyps v /\
  (i < vsize v -> nth i (vdefault w) zero = x /\ forall j, j <> i -> nth j (vdefault w) zero = nth j (pad v) zero).
Proof.
  intros v i x w. subst w. unfold with_default; simpl. do 9 (split; [reflexivity|]). intros H.
  split; [|intros j Hj]; rewrite nth_set_nth by (rewrite pad_length; assumption).
  - now rewrite Nat.eqb_refl.
  - apply Nat.eqb_neq in Hj. now rewrite Hj.
Qed.

(* ---------------------------------------------------------------- hypothesis-specialised declarations *)
Lemma declared_for_ok : forall h v, declared_for h v = true <-> declared_for_spec h v.
Proof.
  intros h v. unfold declared_for, declared_for_spec. destruct (vhyps v) as [|a l]; [tauto|].
  rewrite existsb_exists. split.
  - intros (x & Hx & E). apply hyp_eqb_eq in E. subst. now right.
  - intros [H|H]; [discriminate|]. exists h. split; [assumption|now apply hyp_eqb_eq].
Qed.

Lemma filter_sublist : forall (A : Type) (f : A -> bool) l, sublist (filter f l) l.
Proof. induction l; simpl; [constructor|]. destruct (f a); now constructor. Qed.

Lemma restrict_container : forall h l,
  sublist (filter (declared_for h) l) l /\ forall v, In v (filter (declared_for h) l) <-> In v l /\ declared_for_spec h v.
Proof. intros h l. split; [apply filter_sublist|]. intros v. rewrite filter_In, declared_for_ok. tauto. Qed.

Lemma restrict_ok : forall h d, let r := restrict h d in
  dkind r = dkind d /\ dunit r = dunit d /\ dhyps r = dhyps d /\ ddsl r = ddsl d /\
  (sublist (dmps r) (dmps d) /\ forall v, In v (dmps r) <-> In v (dmps d) /\ declared_for_spec h v) /\
  (sublist (dsvs r) (dsvs d) /\ forall v, In v (dsvs r) <-> In v (dsvs d) /\ declared_for_spec h v) /\
  (sublist (dasvs r) (dasvs d) /\ forall v, In v (dasvs r) <-> In v (dasvs d) /\ declared_for_spec h v) /\
  (sublist (desvs r) (desvs d) /\ forall v, In v (desvs r) <-> In v (desvs d) /\ declared_for_spec h v) /\
  (sublist (dparams r) (dparams d) /\ forall v, In v (dparams r) <-> In v (dparams d) /\ declared_for_spec h v).
Proof. intros h d r. subst r. unfold restrict; simpl. do 4 (split; [reflexivity|]). do 4 (split; [apply restrict_container|]). apply restrict_container. Qed.

(* ---------------------------------------------------------------- the DSLs add declarations, they never drop or reorder the user's *)
Lemma sublist_refl : forall (A : Type) (l : list A), sublist l l.
Proof. induction l; now constructor. Qed.

Lemma sublist_app_r : forall (A : Type) (x l1 l2 : list A), sublist l1 l2 -> sublist l1 (x ++ l2).
Proof. induction x; simpl; intros; [assumption|]. constructor. now apply IHx. Qed.

Lemma sublist_app : forall (A : Type) (a b c e : list A), sublist a b -> sublist c e -> sublist (a ++ c) (b ++ e).
Proof. intros A a b c e H. induction H; simpl; intros; [now apply sublist_app_r | constructor; auto | constructor; auto]. Qed.

Lemma sublist_app_l : forall (A : Type) (l x : list A), sublist l (l ++ x).
Proof. intros. rewrite <- (app_nil_r l) at 1. apply sublist_app; [apply sublist_refl|constructor]. Qed.

Lemma dsl_keeps : forall s l, sublist l (dsl_params s l) /\ sublist l (dsl_mps s l) /\ sublist l (dsl_svs s l).
Proof.
  intros s l. destruct s as [|o]; simpl; repeat split; try apply sublist_refl; try apply sublist_app_l.
  - unfold dsl_params. rewrite <- (app_nil_r l) at 1. apply sublist_app; [|constructor].
    apply sublist_app_r. rewrite <- (firstn_skipn (i_brick_pos o) l) at 1.
    apply sublist_app; [apply sublist_refl|]. apply sublist_app_r. apply sublist_app_l.
  - constructor. apply sublist_refl.
Qed.

(* ---------------------------------------------------------------- accepted declarations *)
Lemma dec_leb_le : forall a b, dec_leb a b = true -> dec_le a b.
Proof. intros a b H. unfold dec_leb in H. unfold dec_le. now apply Z.leb_le. Qed.

Lemma contained_within : forall b p, contained b p = true -> within b p.
Proof.
  intros [l|u|l u] [pl|pu|pl pu]; simpl; intros H; try discriminate; try (now apply dec_leb_le);
    apply andb_true_iff in H; destruct H; split; now apply dec_leb_le.
Qed.

Lemma nodupb_nat : forall l, nodupb Nat.eqb l = true -> NoDup l.
Proof.
  induction l as [|a l IH]; simpl; intros H; constructor; apply andb_true_iff in H; destruct H as [H1 H2]; auto.
  intros Hin. apply negb_true_iff in H1. assert (E : existsb (Nat.eqb a) l = true) by (apply existsb_exists; exists a; split; auto; apply Nat.eqb_refl).
  congruence.
Qed.

Lemma elem_decl_some : forall l i b, elem_decl l i = Some b -> In (i, b) l.
Proof.
  intros l i b E. unfold elem_decl in E. destruct (find _ l) as [[j c]|] eqn:F; [|discriminate]. apply find_some in F.
  destruct F as [F1 F2]. simpl in *. apply Nat.eqb_eq in F2. inversion E. now subst.
Qed.

Lemma var_bounds_ok_wf : forall vr g u ar v, index_off_by_one vr = false -> var_bounds_ok vr g u ar v = true -> bounds_wf v.
Proof.
  intros vr g u ar v O H. unfold var_bounds_ok in H. rewrite O in H. rewrite !andb_true_iff in H. destruct H as (((_ & _) & C) & D).
  unfold bounds_wf. destruct (vephys v); [|discriminate]. destruct (vebounds v) as [|q l] eqn:E.
  - split; [now right|]. split; [constructor|]. split; [reflexivity|]. intros i b [].
  - rewrite !andb_true_iff in D. destruct D as ((((_ & _) & V) & ND) & F).
    split; [left; destruct (vbounds v); [discriminate|reflexivity]|]. split; [now apply nodupb_nat|]. split; [reflexivity|].
    intros i b Hin. rewrite forallb_forall in F. specialize (F _ Hin). cbv beta in F. rewrite !andb_true_iff in F. destruct F as ((F & _) & _).
    simpl in F. now apply Nat.ltb_lt in F.
Qed.

Lemma var_bounds_ok_within : forall vr g u ar v i b p, var_bounds_ok vr g u ar v = true ->
  elem_bounds v i = Some b -> complete g u v = Some p -> within b p.
Proof.
  intros vr g u ar v i b p H EB CP. unfold var_bounds_ok in H. rewrite !andb_true_iff in H. destruct H as (((A & _) & _) & D).
  unfold elem_bounds in EB. destruct (vbounds v) as [c|] eqn:V.
  - inversion EB; subst. rewrite CP in A. apply andb_true_iff in A. destruct A as [_ A]. now apply contained_within.
  - apply elem_decl_some in EB. destruct (vebounds v) as [|q l] eqn:E; [contradiction|].
    rewrite !andb_true_iff in D. destruct D as (_ & F). rewrite forallb_forall in F. specialize (F _ EB). cbv beta in F.
    rewrite !andb_true_iff in F. destruct F as (_ & F). simpl in F. rewrite CP in F. now apply contained_within.
Qed.

Lemma accepts_vars : forall vr g d v, accepts vr g d = true -> In v (all_vars d) -> exists ar, var_bounds_ok vr g (dunit d) ar v = true.
Proof.
  intros vr g d v H Hin. unfold accepts in H. apply andb_true_iff in H. destruct H as [_ H]. unfold all_vars in *.
  destruct (dkind d).
  - rewrite !andb_true_iff in H. destruct H as (((_ & B) & P) & _). exists false. simpl in Hin. rewrite in_app_iff in Hin.
    rewrite forallb_forall in B, P. destruct Hin as [<-|[Hin|Hin]]; [apply B; now left | apply B; now right|].
    specialize (P _ Hin). cbv beta in P. apply andb_true_iff in P. destruct P as [_ P]. unfold var_bounds_ok.
    destruct (vbounds v); [discriminate|]. destruct (vphys v); [discriminate|]. destruct (vebounds v); [|discriminate].
    destruct (vephys v); [reflexivity|discriminate].
  - rewrite !andb_true_iff in H. destruct H as (((((_ & _) & B) & _) & _) & _). exists true. rewrite forallb_forall in B.
    now apply B.
Qed.

Lemma accepts_wf : forall vr g d, index_off_by_one vr = false -> accepts vr g d = true -> decl_wf d.
Proof. intros vr g d O H v Hin. destruct (accepts_vars _ _ _ _ H Hin) as [ar A]. eapply var_bounds_ok_wf; eauto. Qed.

Lemma accepts_within : forall vr g d v i b p, accepts vr g d = true -> In v (all_vars d) ->
  elem_bounds v i = Some b -> complete g (dunit d) v = Some p -> within b p.
Proof. intros vr g d v i b p H Hin. destruct (accepts_vars _ _ _ _ H Hin) as [ar A]. eapply var_bounds_ok_within; eauto. Qed.

Lemma no_clash_nodup : forall l, no_clash false l = true -> NoDup (map ext_name l) /\ NoDup (map vname l).
Proof.
  induction l as [|v r IH]; simpl; intros H; [split; constructor|]. apply andb_true_iff in H. destruct H as [H1 H2].
  destruct (IH H2) as [I1 I2]. apply negb_true_iff in H1.
  split; constructor; auto; intros Hin; apply in_map_iff in Hin; destruct Hin as (w & E & Hw);
    (assert (X : existsb (clash false v) r = true); [apply existsb_exists; exists w; split; auto; unfold clash; rewrite E|congruence]).
  - rewrite (String.eqb_refl (ext_name v)). now rewrite !orb_true_r.
  - now rewrite (String.eqb_refl (vname v)).
Qed.

Lemma filter_incl : forall (A : Type) (f : A -> bool) l v, In v (filter f l) -> In v l.
Proof. intros. apply filter_In in H. tauto. Qed.

Lemma all_vars_restrict : forall h d v, In v (all_vars (restrict h d)) -> In v (all_vars d).
Proof.
  intros h d v. unfold all_vars. change (dkind (restrict h d)) with (dkind d).
  unfold restrict; cbn [doutput dinputs dparams dmps dsvs dasvs desvs ddsl]. destruct (dkind d).
  { intros [H|H]; [now left|right]. rewrite in_app_iff in *. destruct H; eauto using filter_incl. }
  assert (P : forall s l, In v (dsl_params s (filter (declared_for h) l)) -> In v (dsl_params s l)).
  { intros s l. unfold dsl_params. destruct s as [|o]; rewrite !in_app_iff; [intros [H|H]; [left; eapply filter_incl; eauto|now right]|].
    assert (Q : forall n, In v (firstn n (filter (declared_for h) l)) \/ In v (skipn n (filter (declared_for h) l)) ->
                          In v (firstn (i_brick_pos o) l) \/ In v (skipn (i_brick_pos o) l)).
    { intros n HH. apply in_app_or. rewrite firstn_skipn. apply (filter_incl _ (declared_for h)).
      rewrite <- (firstn_skipn n (filter (declared_for h) l)). now apply in_or_app. }
    intros [[H|[H|[H|[H|H]]]]|H]; auto 7.
    - destruct (Q _ (or_introl H)); auto 7.
    - destruct (Q _ (or_intror H)); auto 7. }
  assert (M : forall s l, In v (dsl_mps s (filter (declared_for h) l)) -> In v (dsl_mps s l)).
  { intros s l. destruct s; simpl; [apply filter_incl|]. rewrite !in_app_iff. intros [H|H]; [left; eapply filter_incl; eauto|now right]. }
  assert (S : forall s l, In v (dsl_svs s (filter (declared_for h) l)) -> In v (dsl_svs s l)).
  { intros s l. destruct s; simpl; [apply filter_incl|]. intros [H|H]; [now left|right; eapply filter_incl; eauto]. }
  rewrite !in_app_iff. simpl. rewrite !in_app_iff.
  intros [H|[H|[H|[H|[H|H]]]]]; eauto 10 using filter_incl.
Qed.

Lemma decl_wf_restrict : forall h d, decl_wf d -> decl_wf (restrict h d).
Proof. intros h d W v Hin. apply W. eapply all_vars_restrict; eauto. Qed.

(* an accepted declaration is exported faithfully, under every declared hypothesis *)
Lemma accepts_faithful : forall g d, accepts repaired g d = true ->
  faithful g d (symbols repaired g d) /\ forall h, faithful g (restrict h d) (symbols_at repaired g d h).
Proof.
  intros g d H. assert (W : decl_wf d) by (apply (accepts_wf repaired g d eq_refl H)).
  split; [now apply faithful_repaired|]. intros h. unfold symbols_at. apply faithful_repaired. now apply decl_wf_restrict.
Qed.

Lemma nodup_app_r : forall (A : Type) (l1 l2 : list A), NoDup (l1 ++ l2) -> NoDup l2.
Proof. induction l1; simpl; intros; [assumption|]. inversion H; auto. Qed.

(* names: within the scope of a hypothesis no external name is used twice, in particular by two parameters *)
Lemma accepts_names : forall vr g d, accepts vr g d = true ->
  match dkind d with
  | MaterialProperty => mp_names_unchecked vr = false -> NoDup (map ext_name (all_vars d)) /\ NoDup (map ext_name (dparams d))
  | Behaviour => forall h, In h (dhyps d) ->
      NoDup (map ext_name (all_vars (restrict h d))) /\ NoDup (map ext_name (params_of (restrict h d)))
  end.
Proof.
  intros vr g d H. unfold accepts in H. apply andb_true_iff in H. destruct H as [_ H]. destruct (dkind d) eqn:K.
  - intros O. rewrite O in H. rewrite !andb_true_iff in H. destruct H as (_ & C). destruct (no_clash_nodup _ C) as [N _].
    split; [assumption|]. unfold all_vars in N. rewrite K in N. simpl in N. inversion N; subst. rewrite map_app in H2. now apply nodup_app_r in H2.
  - intros h Hh. rewrite !andb_true_iff in H. destruct H as (_ & C). rewrite forallb_forall in C. specialize (C _ Hh).
    destruct (no_clash_nodup _ C) as [N _]. split; [assumption|]. unfold params_of, all_vars in *.
    change (dkind (restrict h d)) with (dkind d) in *. rewrite K in *. rewrite !map_app in N.
    do 3 apply nodup_app_r in N. simpl in N. inversion N; subst. rewrite map_app in H2. now apply nodup_app_r in H2.
Qed.

(* E1: `@Bounds r[2] in [0:1];` on `real r[2]` *)
Definition w4_var : var := mkVar "r" None None TScalar 2 None None [] [(2, Both (mkDec 0 0) (mkDec 1 0))] [] [].
Definition w4 : decl := mkDecl Behaviour None v0 [] [] [w4_var] [] [] [] [Tridimensional] DefaultDSL.

Lemma e1_refuted : forall vr, index_off_by_one vr = true -> accepts vr [] w4 = true /\ ~ decl_wf w4.
Proof.
  intros [a b c o n] H. simpl in H. subst o. split; [reflexivity|]. intros W.
  assert (I : In w4_var (all_vars w4)) by (simpl; auto). destruct (W _ I) as (_ & _ & _ & L). specialize (L 2 _ (or_introl eq_refl)).
  simpl in L. lia.
Qed.

(* E2: `@Input real x; @Input real z; z.setEntryName("x");` *)
Definition w5_x : var := plain "x" None None TScalar [].
Definition w5_z : var := plain "z" None (Some "x") TScalar [].
Definition w5 : decl := mkDecl MaterialProperty None v0 [w5_x; w5_z] [] [] [] [] [] [] DefaultDSL.

Lemma e2_refuted : forall vr, mp_names_unchecked vr = true -> accepts vr [] w5 = true /\ ~ NoDup (map ext_name (all_vars w5)).
Proof.
  intros [a b c o n] H. simpl in H. subst n. split; [reflexivity|]. intros N. simpl in N. inversion N; subst. inversion H2; subst.
  apply H3. now left.
Qed.

(* ---------------------------------------------------------------- existential forms of the refutations *)
Lemma d1_refuted_ex : forall vr, mp_phys_needs_bounds vr = true ->
  exists g d, dkind d = MaterialProperty /\ ~ Forall2 (scalar_faithful g (dunit d)) (dinputs d) (t_args (symbols vr g d)).
Proof. intros vr F. exists nil, w1. split; [reflexivity | exact (d1_refuted vr F)]. Qed.

Lemma d2_refuted_ex : forall vr, array_bounds_unreadable vr = true ->
  exists g d, dkind d = Behaviour /\ ~ Forall2 (wf_faithful g (dunit d)) (dsl_mps (ddsl d) (dmps d)) (t_mps (symbols vr g d)).
Proof. intros vr F. exists nil, w2. split; [reflexivity | exact (d2_refuted vr F)]. Qed.

Lemma d3_refuted_ex : forall vr, persistent_not_completed vr = true ->
  exists g d, dkind d = Behaviour /\
              ~ Forall2 (scalar_faithful g (dunit d)) (dsl_svs (ddsl d) (dsvs d) ++ dasvs d) (t_isvs (symbols vr g d)).
Proof. intros vr F. exists w3_g, w3. split; [reflexivity | exact (d3_refuted vr F)]. Qed.

Lemma e1_refuted_ex : forall vr, index_off_by_one vr = true -> exists g d, accepts vr g d = true /\ ~ decl_wf d.
Proof. intros vr F. exists nil, w4. exact (e1_refuted vr F). Qed.

Lemma e2_refuted_ex : forall vr, mp_names_unchecked vr = true ->
  exists g d, dkind d = MaterialProperty /\ accepts vr g d = true /\ ~ NoDup (map ext_name (all_vars d)).
Proof. intros vr F. exists nil, w5. split; [reflexivity | exact (e2_refuted vr F)]. Qed.

Lemma e2_holds : forall vr g d, mp_names_unchecked vr = false -> dkind d = MaterialProperty -> accepts vr g d = true ->
  NoDup (map ext_name (all_vars d)) /\ NoDup (map ext_name (dparams d)).
Proof. intros vr g d F K H. pose proof (accepts_names vr g d H) as N. rewrite K in N. now apply N. Qed.

Lemma accepts_names_behaviour : forall vr g d, dkind d = Behaviour -> accepts vr g d = true -> forall h, In h (dhyps d) ->
  NoDup (map ext_name (all_vars (restrict h d))) /\ NoDup (map ext_name (params_of (restrict h d))).
Proof. intros vr g d K H. pose proof (accepts_names vr g d H) as N. now rewrite K in N. Qed.

Lemma per_element_roundtrip : forall vr g u v, array_bounds_unreadable vr = false -> bounds_wf v ->
  forall i, i < vsize v -> elem_bounds_spec v i (nth i (m_bounds (meta vr g u true v)) None).
Proof. intros vr g u v F W. exact (proj1 (proj2 (proj2 (proj2 (proj2 (meta_faithful vr g u v F W)))))). Qed.

Lemma faithful_at_hypotheses : forall g d, decl_wf d -> forall h, faithful g (restrict h d) (symbols_at repaired g d h).
Proof. intros g d W h. unfold symbols_at. apply faithful_repaired. now apply decl_wf_restrict. Qed.

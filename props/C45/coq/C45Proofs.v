(* C45 -- lemmas *)
From Coq Require Import String List ZArith Bool Arith Sorted Lia.
From C45 Require Import C45Model C45Spec.
Import ListNotations.
Local Open Scope string_scope.
Local Open Scope list_scope.

(* ---------------------------------------------------------------- names *)
Lemma ext_name_ok : forall v, ext_name_spec v (ext_name v).
Proof.
  intros v. unfold ext_name. destruct (vgloss v) eqn:G.
  - now apply EN_gloss.
  - destruct (ventry v) eqn:E; [now apply EN_entry | now apply EN_name].
Qed.

Lemma ext_name_spec_det : forall v a b, ext_name_spec v a -> ext_name_spec v b -> a = b.
Proof. intros v a b Ha Hb. inversion Ha; inversion Hb; congruence. Qed.

(* ---------------------------------------------------------------- glossary lookup *)
Definition gmatch (k s : string) (e : gentry) : bool := String.eqb (gkey e) k && String.eqb (gsys e) s.

Lemma gmatch_true : forall k s e, gmatch k s e = true <-> (gkey e = k /\ gsys e = s).
Proof. intros. unfold gmatch. rewrite andb_true_iff, !String.eqb_eq. tauto. Qed.

Lemma glookup_some : forall g k s e, glookup g k s = Some e -> first_entry g k s e.
Proof.
  induction g as [|a g IH]; intros k s e H; [discriminate|].
  unfold glookup in *. simpl in H. fold (gmatch k s a) in H. destruct (gmatch k s a) eqn:M.
  - inversion H; subst. apply gmatch_true in M. exists [], g. simpl. split; [reflexivity|]. split; [tauto|]. split; [tauto|]. intros e' [].
  - destruct (IH _ _ _ H) as (g1 & g2 & -> & Hk & Hs & Hn). exists (a :: g1), g2. simpl. repeat split; auto.
    intros e' [<-|Hin]; [intro C; apply gmatch_true in C; congruence | now apply Hn].
Qed.

Lemma glookup_none : forall g k s, glookup g k s = None -> forall e, In e g -> ~ (gkey e = k /\ gsys e = s).
Proof.
  intros g k s H e Hin C. unfold glookup in H. apply (find_none _ _ H) in Hin.
  fold (gmatch k s e) in Hin. apply gmatch_true in C. congruence.
Qed.

Lemma first_entry_glookup : forall g k s e, first_entry g k s e -> glookup g k s = Some e.
Proof.
  intros g k s e (g1 & g2 & -> & Hk & Hs & Hn). unfold glookup. induction g1 as [|a g1 IH]; simpl.
  - fold (gmatch k s e). now rewrite (proj2 (gmatch_true k s e) (conj Hk Hs)).
  - fold (gmatch k s a). destruct (gmatch k s a) eqn:M.
    + apply gmatch_true in M. exfalso. apply (Hn a); simpl; auto.
    + apply IH. intros e' Hin. apply Hn. simpl; auto.
Qed.

Lemma unknown_glookup : forall g k s, (forall e, In e g -> ~ (gkey e = k /\ gsys e = s)) -> glookup g k s = None.
Proof.
  intros g k s H. unfold glookup. destruct (find _ g) eqn:F; [|reflexivity].
  apply find_some in F. destruct F as [Hin M]. fold (gmatch k s g0) in M. apply gmatch_true in M. now apply H in Hin.
Qed.

(* ---------------------------------------------------------------- completion rule *)
Lemma complete_ok : forall g u v, phys_spec g u v (complete g u v).
Proof.
  intros g u v. unfold complete. destruct (vphys v) eqn:P; [now apply PS_declared|].
  destruct u as [s|]; [|now apply PS_no_unit].
  destruct (vgloss v) as [k|] eqn:G; [|now apply PS_no_gloss].
  destruct (glookup g k s) as [e|] eqn:L.
  - apply glookup_some in L. unfold entry_bounds. destruct (glow e) eqn:A, (gup e) eqn:B.
    + eapply PS_both; eauto. + eapply PS_lower; eauto. + eapply PS_upper; eauto. + eapply PS_none; eauto.
  - eapply PS_unknown; eauto. now apply glookup_none.
Qed.

Lemma phys_spec_complete : forall g u v r, phys_spec g u v r -> r = complete g u v.
Proof.
  intros g u v r H. unfold complete.
  destruct H as [b P | P U | P G | s k P U G N | s k e l up P U G F A B | s k e l P U G F A B
                 | s k e up P U G F A B | s k e P U G F A B]; rewrite P; try reflexivity.
  - now rewrite U.
  - rewrite G. now destruct u.
  - now rewrite U, G, (unknown_glookup _ _ _ N).
  - rewrite U, G, (first_entry_glookup _ _ _ _ F). unfold entry_bounds. now rewrite A, B.
  - rewrite U, G, (first_entry_glookup _ _ _ _ F). unfold entry_bounds. now rewrite A, B.
  - rewrite U, G, (first_entry_glookup _ _ _ _ F). unfold entry_bounds. now rewrite A, B.
  - rewrite U, G, (first_entry_glookup _ _ _ _ F). unfold entry_bounds. now rewrite A, B.
Qed.

Lemma phys_spec_det : forall g u v a b, phys_spec g u v a -> phys_spec g u v b -> a = b.
Proof. intros. rewrite (phys_spec_complete _ _ _ _ H), (phys_spec_complete _ _ _ _ H0). reflexivity. Qed.

(* a two-sided glossary entry yields BOTH bounds *)
Lemma complete_two_sided : forall g s k e l u v,
  vphys v = None -> vgloss v = Some k -> first_entry g k s e -> glow e = Some l -> gup e = Some u ->
  complete g (Some s) v = Some (Both l u).
Proof.
  intros. symmetry. apply phys_spec_complete. eapply PS_both; eauto.
Qed.

Lemma complete_declared : forall g u v b, vphys v = Some b -> complete g u v = Some b.
Proof. intros. unfold complete. now rewrite H. Qed.

(* ---------------------------------------------------------------- one variable *)
Lemma meta_names : forall vr g u c v, faithful_var_names v (meta vr g u c v).
Proof. intros. unfold faithful_var_names, meta; simpl. repeat split. apply ext_name_ok. Qed.

Lemma meta_input_names : forall vr g u v, faithful_var_names v (meta_input vr g u v).
Proof.
  intros. unfold meta_input. destruct (mp_phys_needs_bounds vr); [|apply meta_names].
  destruct (vbounds v); [apply meta_names|]. unfold faithful_var_names; simpl. repeat split. apply ext_name_ok.
Qed.

Lemma hide_scalar : forall vr v b, vsize v = 1 -> hide_arrays vr v b = b.
Proof. intros. unfold hide_arrays. rewrite H. simpl. now rewrite andb_false_r. Qed.

Lemma hide_off : forall vr v b, array_bounds_unreadable vr = false -> hide_arrays vr v b = b.
Proof. intros. unfold hide_arrays. now rewrite H. Qed.

Lemma meta_faithful_scalar : forall vr g u v, vsize v = 1 -> faithful_var g u v (meta vr g u true v).
Proof.
  intros. unfold faithful_var, meta; simpl. rewrite !hide_scalar by assumption.
  repeat split; auto using ext_name_ok, complete_ok.
Qed.

Lemma meta_faithful : forall vr g u v, array_bounds_unreadable vr = false -> faithful_var g u v (meta vr g u true v).
Proof.
  intros. unfold faithful_var, meta; simpl. rewrite !hide_off by assumption.
  repeat split; auto using ext_name_ok, complete_ok.
Qed.

Lemma meta_input_faithful_scalar : forall vr g u v,
  mp_phys_needs_bounds vr = false -> vsize v = 1 -> faithful_var g u v (meta_input vr g u v).
Proof. intros. unfold meta_input. rewrite H. now apply meta_faithful_scalar. Qed.

Lemma Forall2_map_r : forall (A B : Type) (P : A -> B -> Prop) (f : A -> B) l,
  (forall a, P a (f a)) -> Forall2 P l (map f l).
Proof. induction l; simpl; intros; constructor; auto. Qed.

(* ---------------------------------------------------------------- hypotheses *)
Lemma hyp_eqb_eq : forall a b, hyp_eqb a b = true <-> a = b.
Proof. intros a b; split; [destruct a, b; simpl; intro; congruence || discriminate | intros ->; destruct b; reflexivity]. Qed.

Lemma in_all_hyps : forall h, In h all_hyps.
Proof. destruct h; simpl; tauto. Qed.

Lemma all_hyps_sorted : StronglySorted (fun a b => hyp_rank a < hyp_rank b) all_hyps.
Proof. unfold all_hyps. repeat (constructor; [|repeat constructor; simpl; lia]). constructor. Qed.

Lemma sorted_filter : forall (A : Type) (R : A -> A -> Prop) f l, StronglySorted R l -> StronglySorted R (filter f l).
Proof.
  induction l; simpl; intros H; [constructor|]. inversion H; subst. destruct (f a); auto.
  constructor; auto. rewrite Forall_forall in *. intros x Hx. apply filter_In in Hx. now apply H3.
Qed.

Lemma sorted_nodup : forall l, StronglySorted (fun a b => hyp_rank a < hyp_rank b) l -> NoDup l.
Proof.
  induction l; intros H; constructor; inversion H; subst; auto.
  intro Hin. rewrite Forall_forall in H3. specialize (H3 _ Hin). lia.
Qed.

Lemma hyps_ok : forall l, hyps_spec l (hyps_exported l).
Proof.
  intros l. unfold hyps_spec, hyps_exported.
  assert (S : StronglySorted (fun a b => hyp_rank a < hyp_rank b) (filter (fun h => existsb (hyp_eqb h) l) all_hyps))
    by (apply sorted_filter, all_hyps_sorted).
  split; [now apply sorted_nodup|]. split; [|assumption].
  intros h. rewrite filter_In, existsb_exists. split.
  - intros [_ (x & Hx & E)]. apply hyp_eqb_eq in E. now subst.
  - intros Hin. split; [apply in_all_hyps|]. exists h. split; auto. now apply hyp_eqb_eq.
Qed.

(* ---------------------------------------------------------------- sizes *)
Lemma expand_length : forall m, length (expand m) = m_size m.
Proof.
  intros m. unfold expand. destruct (Nat.eqb (m_size m) 1) eqn:E.
  - apply Nat.eqb_eq in E. now rewrite E.
  - now rewrite map_length, seq_length.
Qed.

Lemma expanded_names_length : forall vr g u c l,
  length (expanded_names (map (meta vr g u c) l)) = sum_sizes l.
Proof.
  induction l; simpl; auto. unfold expanded_names in *. simpl. rewrite app_length, expand_length, IHl. reflexivity.
Qed.

Lemma expanded_types_length : forall vr g u c l,
  length (expanded_types (map (meta vr g u c) l)) = sum_sizes l.
Proof.
  induction l; simpl; auto. unfold expanded_types in *. simpl. rewrite app_length, repeat_length, IHl. reflexivity.
Qed.

Lemma expanded_types_codes : forall vr g u c l x,
  In x (expanded_types (map (meta vr g u c) l)) -> exists v, In v l /\ x = type_code (vty v).
Proof.
  induction l; simpl; intros x H; [contradiction|]. unfold expanded_types in H. simpl in H. apply in_app_or in H.
  destruct H as [H|H].
  - apply repeat_spec in H. exists a. auto.
  - destruct (IHl _ H) as (v & Hv & E). exists v. auto.
Qed.

(* ---------------------------------------------------------------- the whole table, repaired generator *)
Lemma faithful_repaired : forall g d, faithful g d (symbols repaired g d).
Proof.
  intros g d. unfold faithful, symbols.
  assert (F : forall l, Forall2 (faithful_var g (dunit d)) l (map (meta repaired g (dunit d) true) l))
    by (intros l; apply Forall2_map_r; intros v; now apply meta_faithful).
  destruct (dkind d); simpl.
  - split; [|reflexivity]. split; [reflexivity|]. split; [apply ext_name_ok|]. split; [|apply F].
    apply Forall2_map_r. intros v. unfold meta_input; simpl. now apply meta_faithful.
  - split; [|reflexivity]. split; [reflexivity|]. split; [apply hyps_ok|]. split; [apply F|]. split; [apply F|].
    split; [apply F|]. exists (map (meta repaired g (dunit d) true) (dparams d)). split; [apply map_app|apply F].
Qed.

(* ---------------------------------------------------------------- the three findings: witnesses *)
Definition v0 : var := mkVar "y" None None TScalar 1 None None [].
Definition decl0 (k : kind) : decl := mkDecl k (Some "SI") v0 [] [] [] [] [] [] [Tridimensional].

(* D1: input of a material property with @PhysicalBounds and no @Bounds *)
Definition w1_var : var := mkVar "x" None None TScalar 1 None (Some (Lower (mkDec 0 0))) [].
Definition w1 : decl := mkDecl MaterialProperty None v0 [w1_var] [] [] [] [] [] [].
(* D2: array material property of a behaviour with @Bounds *)
Definition w2_var : var := mkVar "a" None None TScalar 3 (Some (Both (mkDec 0 0) (mkDec 10 0))) None [].
Definition w2 : decl := mkDecl Behaviour None v0 [] [w2_var] [] [] [] [] [Tridimensional].
(* D3: state variable attached to the two-sided glossary entry Porosity, unit system SI *)
Definition w3_var : var := mkVar "f" (Some "Porosity") None TScalar 1 None None [].
Definition w3_g : glossary := [mkG "Porosity" "SI" (Some (mkDec 0 0)) (Some (mkDec 1 0))].
Definition w3 : decl := mkDecl Behaviour (Some "SI") v0 [] [] [w3_var] [] [] [] [Tridimensional].

Lemma d1_refuted : forall vr, mp_phys_needs_bounds vr = true ->
  ~ Forall2 (fun v m => vsize v = 1 -> faithful_var [] (dunit w1) v m) (dinputs w1) (t_args (symbols vr [] w1)).
Proof.
  intros vr F H. unfold symbols, w1 in H; simpl in H. inversion H; subst. clear H H5.
  destruct (H3 eq_refl) as (_ & _ & _ & _ & P & _). unfold meta_input in P. rewrite F in P. simpl in P.
  inversion P; discriminate.
Qed.

Lemma d2_refuted : forall vr, array_bounds_unreadable vr = true ->
  ~ Forall2 (faithful_var [] (dunit w2)) (dmps w2) (t_mps (symbols vr [] w2)).
Proof.
  intros vr F H. unfold symbols, w2 in H; simpl in H. inversion H; subst. clear H H5.
  destruct H3 as (_ & _ & _ & B & _). unfold meta, hide_arrays in B. rewrite F in B. simpl in B. discriminate.
Qed.

Lemma d3_refuted : forall vr, persistent_not_completed vr = true ->
  ~ Forall2 (fun v m => vsize v = 1 -> faithful_var w3_g (dunit w3) v m) (dsvs w3 ++ dasvs w3) (t_isvs (symbols vr w3_g w3)).
Proof.
  intros vr F H. unfold symbols, w3 in H; simpl in H. rewrite F in H. simpl in H. inversion H; subst. clear H H5.
  destruct (H3 eq_refl) as (_ & _ & _ & _ & P & _). simpl in P. rewrite hide_scalar in P by reflexivity.
  apply phys_spec_complete in P. vm_compute in P. discriminate.
Qed.

(* ---------------------------------------------------------------- the table, any variant *)
Definition scalar_faithful (g : glossary) (u : option string) (v : var) (m : vmeta) : Prop :=
  vsize v = 1 -> faithful_var g u v m.

Lemma names_any : forall vr g d, let T := symbols vr g d in
  match dkind d with
  | MaterialProperty =>
      t_kind T = 0%Z /\ ext_name_spec (doutput d) (t_output T) /\ Forall2 faithful_var_names (dinputs d) (t_args T) /\
      Forall2 faithful_var_names (dparams d) (t_params T)
  | Behaviour =>
      t_kind T = 1%Z /\ hyps_spec (dhyps d) (t_hyps T) /\ Forall2 faithful_var_names (dmps d) (t_mps T) /\
      Forall2 faithful_var_names (dsvs d ++ dasvs d) (t_isvs T) /\ Forall2 faithful_var_names (desvs d) (t_esvs T) /\
      Forall2 faithful_var_names (dparams d ++ builtin_parameters) (t_params T)
  end /\ t_unit T = match dunit d with Some s => s | None => "" end.
Proof.
  intros vr g d T. subst T. unfold symbols.
  assert (F : forall c l, Forall2 faithful_var_names l (map (meta vr g (dunit d) c) l))
    by (intros c l; apply Forall2_map_r; intros v; apply meta_names).
  destruct (dkind d); simpl.
  - split; [|reflexivity]. split; [reflexivity|]. split; [apply ext_name_ok|]. split; [|apply F].
    apply Forall2_map_r. intros v. apply meta_input_names.
  - split; [|reflexivity]. split; [reflexivity|]. split; [apply hyps_ok|]. repeat (split; [apply F|]). apply F.
Qed.

(* containers that none of the three findings touches, non-array variables: faithful whatever the variant *)
Lemma scalars_any : forall vr g d, let T := symbols vr g d in
  match dkind d with
  | MaterialProperty => Forall2 (scalar_faithful g (dunit d)) (dparams d) (t_params T)
  | Behaviour =>
      Forall2 (scalar_faithful g (dunit d)) (dmps d) (t_mps T) /\
      Forall2 (scalar_faithful g (dunit d)) (desvs d) (t_esvs T) /\
      Forall2 (scalar_faithful g (dunit d)) (dparams d ++ builtin_parameters) (t_params T) /\
      (exists m, t_temperature T = Some m /\ faithful_var g (dunit d) temperature_var m)
  end.
Proof.
  intros vr g d T. subst T. unfold symbols.
  assert (F : forall l, Forall2 (scalar_faithful g (dunit d)) l (map (meta vr g (dunit d) true) l))
    by (intros l; apply Forall2_map_r; intros v Hs; now apply meta_faithful_scalar).
  destruct (dkind d); simpl; [apply F|]. repeat (split; [apply F|]).
  eexists. split; [reflexivity|]. now apply meta_faithful_scalar.
Qed.

Lemma sizes_any : forall vr g d, dkind d = Behaviour -> let T := symbols vr g d in
  length (expanded_names (t_mps T)) = sum_sizes (dmps d) /\
  length (expanded_names (t_isvs T)) = sum_sizes (dsvs d ++ dasvs d) /\
  length (expanded_types (t_isvs T)) = sum_sizes (dsvs d ++ dasvs d) /\
  length (expanded_names (t_esvs T)) = sum_sizes (desvs d) /\
  length (expanded_types (t_esvs T)) = sum_sizes (desvs d) /\
  length (expanded_names (t_params T)) = sum_sizes (dparams d ++ builtin_parameters) /\
  length (expanded_types (t_params T)) = sum_sizes (dparams d ++ builtin_parameters).
Proof.
  intros vr g d K T. subst T. unfold symbols. rewrite K. simpl.
  repeat split; auto using expanded_names_length, expanded_types_length.
Qed.

(* ---------------------------------------------------------------- positive statements, one per finding *)
Lemma d1_holds : forall vr g d, mp_phys_needs_bounds vr = false -> dkind d = MaterialProperty ->
  Forall2 (scalar_faithful g (dunit d)) (dinputs d) (t_args (symbols vr g d)).
Proof.
  intros vr g d F K. unfold symbols. rewrite K. simpl. apply Forall2_map_r. intros v Hs. now apply meta_input_faithful_scalar.
Qed.

Lemma d2_holds : forall vr g d, array_bounds_unreadable vr = false -> dkind d = Behaviour -> let T := symbols vr g d in
  Forall2 (faithful_var g (dunit d)) (dmps d) (t_mps T) /\ Forall2 (faithful_var g (dunit d)) (desvs d) (t_esvs T) /\
  Forall2 (faithful_var g (dunit d)) (dparams d ++ builtin_parameters) (t_params T).
Proof.
  intros vr g d F K T. subst T. unfold symbols. rewrite K. simpl.
  repeat split; apply Forall2_map_r; intros v; now apply meta_faithful.
Qed.

Lemma d3_holds : forall vr g d, persistent_not_completed vr = false -> dkind d = Behaviour ->
  Forall2 (scalar_faithful g (dunit d)) (dsvs d ++ dasvs d) (t_isvs (symbols vr g d)).
Proof.
  intros vr g d F K. unfold symbols. rewrite K, F. simpl. apply Forall2_map_r. intros v Hs. now apply meta_faithful_scalar.
Qed.

(* once repaired, nothing else changes: the three flags only touch bounds entries *)
Lemma repair_changes_only_bounds : forall vr g d,
  map (fun m => (m_ext m, m_code m, m_size m, m_def m)) (t_isvs (symbols vr g d)) =
  map (fun m => (m_ext m, m_code m, m_size m, m_def m)) (t_isvs (symbols repaired g d)) /\
  map (fun m => (m_ext m, m_code m, m_size m, m_def m)) (t_args (symbols vr g d)) =
  map (fun m => (m_ext m, m_code m, m_size m, m_def m)) (t_args (symbols repaired g d)) /\
  t_hyps (symbols vr g d) = t_hyps (symbols repaired g d) /\ t_output (symbols vr g d) = t_output (symbols repaired g d).
Proof.
  intros vr g d. unfold symbols. destruct (dkind d); simpl; repeat split; rewrite ?map_map; simpl; auto.
  apply map_ext. intros v. unfold meta_input. destruct (mp_phys_needs_bounds vr); simpl; auto. destruct (vbounds v); reflexivity.
Qed.

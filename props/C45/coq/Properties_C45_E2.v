(* C45, material-property names: used when mfront refuses an external name which is the name of another variable of the material property *)
From Coq Require Import String List ZArith Bool Arith Sorted.
From C45 Require Import C45Model C45Spec C45Proofs.
Import ListNotations.
Local Open Scope string_scope.
Local Open Scope list_scope.
Theorem C45_accepted_material_property_names_unique : forall vr g d, mp_names_unchecked vr = false -> dkind d = MaterialProperty -> accepts vr g d = true ->
  NoDup (map ext_name (all_vars d)) /\ NoDup (map ext_name (dparams d)).
Proof. exact e2_holds. Qed.
Print Assumptions C45_accepted_material_property_names_unique.

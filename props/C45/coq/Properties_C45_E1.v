(* C45, per-element bounds: used when mfront refuses `@Bounds x[n] in ...` on an array of size n: an accepted declaration has at most one bounds declaration per element, indices below the array size, no per-element physical bounds *)
From Coq Require Import String List ZArith Bool Arith Sorted.
From C45 Require Import C45Model C45Spec C45Proofs.
Import ListNotations.
Local Open Scope string_scope.
Local Open Scope list_scope.
Theorem C45_accepted_declarations_are_well_formed : forall vr g d, index_off_by_one vr = false -> accepts vr g d = true -> decl_wf d.
Proof. exact accepts_wf. Qed.
Print Assumptions C45_accepted_declarations_are_well_formed.

(* C45, state variables, generator as found: the completion skips the container the symbols are written from *)
From Coq Require Import String List.
From C45 Require Import C45Model C45Spec C45Proofs.
Local Open Scope list_scope.
Theorem C45_state_variables_inherit_glossary_bounds_refuted : forall vr, persistent_not_completed vr = true ->
  exists g d, dkind d = Behaviour /\
              ~ Forall2 (scalar_faithful g (dunit d)) (dsvs d ++ dasvs d) (t_isvs (symbols vr g d)).
Proof. intros vr F. exists w3_g, w3. split; [reflexivity | exact (d3_refuted vr F)]. Qed.
Print Assumptions C45_state_variables_inherit_glossary_bounds_refuted.
Theorem C45_state_variables_inherit_glossary_bounds_once_repaired : forall vr g d,
  persistent_not_completed vr = false -> dkind d = Behaviour ->
  Forall2 (scalar_faithful g (dunit d)) (dsvs d ++ dasvs d) (t_isvs (symbols vr g d)).
Proof. exact d3_holds. Qed.
Print Assumptions C45_state_variables_inherit_glossary_bounds_once_repaired.

(* C45, used when none of the three findings is observed: the whole table is the declaration *)
From Coq Require Import String List.
From C45 Require Import C45Model C45Spec C45Proofs.
Theorem C45_exported_metadata_is_the_declaration : forall g d, faithful g d (symbols repaired g d).
Proof. exact faithful_repaired. Qed.
Print Assumptions C45_exported_metadata_is_the_declaration.

(* C45, used when none of the findings is observed: the whole table is the declaration, under every hypothesis *)
From Coq Require Import String List ZArith Bool Arith Sorted.
From C45 Require Import C45Model C45Spec C45Proofs.
Import ListNotations.
Local Open Scope string_scope.
Local Open Scope list_scope.
Theorem C45_exported_metadata_is_the_declaration : forall g d, decl_wf d -> faithful g d (symbols repaired g d).
Proof. exact faithful_repaired. Qed.
Print Assumptions C45_exported_metadata_is_the_declaration.
Theorem C45_exported_metadata_is_the_declaration_under_every_hypothesis : forall g d, decl_wf d -> forall h, faithful g (restrict h d) (symbols_at repaired g d h).
Proof. exact faithful_at_hypotheses. Qed.
Print Assumptions C45_exported_metadata_is_the_declaration_under_every_hypothesis.
Theorem C45_accepted_declarations_are_exported_faithfully : forall g d, accepts repaired g d = true ->
  faithful g d (symbols repaired g d) /\ forall h, faithful g (restrict h d) (symbols_at repaired g d h).
Proof. exact accepts_faithful. Qed.
Print Assumptions C45_accepted_declarations_are_exported_faithfully.

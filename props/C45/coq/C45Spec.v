(* C45 -- the property, stated independently of the model's functions: relations and predicates only.
   "The metadata read back from a generated library is the declaration." *)
From Coq Require Import String List ZArith Bool Arith Sorted.
From C45 Require Import C45Model.
Import ListNotations.
Local Open Scope string_scope.
Local Open Scope list_scope.

(* external name: glossary name if any, else entry name, else the variable name *)
Inductive ext_name_spec (v : var) : string -> Prop :=
| EN_gloss : forall k, vgloss v = Some k -> ext_name_spec v k
| EN_entry : forall e, vgloss v = None -> ventry v = Some e -> ext_name_spec v e
| EN_name : vgloss v = None -> ventry v = None -> ext_name_spec v (vname v).

(* the glossary (as dumped) gives these physical bounds to key k in unit system s *)
Definition first_entry (g : glossary) (k s : string) (e : gentry) : Prop :=
  exists g1 g2, g = g1 ++ e :: g2 /\ gkey e = k /\ gsys e = s /\
                forall e', In e' g1 -> ~ (gkey e' = k /\ gsys e' = s).

(* inheritance rule of checkAndCompletePhysicalBoundsDeclaration *)
Inductive phys_spec (g : glossary) (unit : option string) (v : var) : option bnd -> Prop :=
| PS_declared : forall b, vphys v = Some b -> phys_spec g unit v (Some b)
| PS_no_unit : vphys v = None -> unit = None -> phys_spec g unit v None
| PS_no_gloss : vphys v = None -> vgloss v = None -> phys_spec g unit v None
| PS_unknown : forall s k, vphys v = None -> unit = Some s -> vgloss v = Some k ->
               (forall e, In e g -> ~ (gkey e = k /\ gsys e = s)) -> phys_spec g unit v None
| PS_both : forall s k e l u, vphys v = None -> unit = Some s -> vgloss v = Some k -> first_entry g k s e ->
            glow e = Some l -> gup e = Some u -> phys_spec g unit v (Some (Both l u))
| PS_lower : forall s k e l, vphys v = None -> unit = Some s -> vgloss v = Some k -> first_entry g k s e ->
            glow e = Some l -> gup e = None -> phys_spec g unit v (Some (Lower l))
| PS_upper : forall s k e u, vphys v = None -> unit = Some s -> vgloss v = Some k -> first_entry g k s e ->
            glow e = None -> gup e = Some u -> phys_spec g unit v (Some (Upper u))
| PS_none : forall s k e, vphys v = None -> unit = Some s -> vgloss v = Some k -> first_entry g k s e ->
            glow e = None -> gup e = None -> phys_spec g unit v None.

(* standard bounds of element i: `@Bounds x in ...` holds for every element, `@Bounds x[i] in ...` for element i, nothing else *)
Definition elem_bounds_spec (v : var) (i : nat) (r : option bnd) : Prop :=
  (forall b, vbounds v = Some b -> r = Some b) /\
  (forall b, In (i, b) (vebounds v) -> r = Some b) /\
  (vbounds v = None -> (forall b, ~ In (i, b) (vebounds v)) -> r = None).

(* what the front-end guarantees on the bounds declarations of an accepted variable *)
Definition bounds_wf (v : var) : Prop :=
  (vbounds v = None \/ vebounds v = []) /\ NoDup (map fst (vebounds v)) /\ vephys v = [] /\
  (forall i b, In (i, b) (vebounds v) -> i < vsize v).

(* one exported variable is faithful to its declaration *)
Definition faithful_var (g : glossary) (unit : option string) (v : var) (m : vmeta) : Prop :=
  ext_name_spec v (m_ext m) /\ m_code m = type_code (vty v) /\ m_size m = vsize v /\
  length (m_bounds m) = vsize v /\ (forall i, i < vsize v -> elem_bounds_spec v i (nth i (m_bounds m) None)) /\
  length (m_phys m) = vsize v /\ (forall i, i < vsize v -> phys_spec g unit v (nth i (m_phys m) None)) /\
  m_def m = vdefault v.

(* everything but the bounds (holds whatever the variant) *)
Definition faithful_var_names (v : var) (m : vmeta) : Prop :=
  ext_name_spec v (m_ext m) /\ m_code m = type_code (vty v) /\ m_size m = vsize v /\ m_def m = vdefault v.

Definition hyps_spec (declared exported : list hyp) : Prop :=
  NoDup exported /\ (forall h, In h exported <-> In h declared) /\
  StronglySorted (fun a b => hyp_rank a < hyp_rank b) exported.   (* order of the enumeration *)

(* d: the declaration as the DSL elaborates it (dsl_mps / dsl_svs / dsl_params: what the DSL and the brick declare on top of
   the user's lines) *)
Definition faithful (g : glossary) (d : decl) (t : table) : Prop :=
  match dkind d with
  | MaterialProperty =>
      t_kind t = 0%Z /\ ext_name_spec (doutput d) (t_output t) /\
      Forall2 (faithful_var g (dunit d)) (dinputs d) (t_args t) /\
      Forall2 (faithful_var g (dunit d)) (dparams d) (t_params t)
  | Behaviour =>
      t_kind t = 1%Z /\ hyps_spec (dhyps d) (t_hyps t) /\
      Forall2 (faithful_var g (dunit d)) (dsl_mps (ddsl d) (dmps d)) (t_mps t) /\
      Forall2 (faithful_var g (dunit d)) (dsl_svs (ddsl d) (dsvs d) ++ dasvs d) (t_isvs t) /\
      Forall2 (faithful_var g (dunit d)) (desvs d) (t_esvs t) /\
      Forall2 (faithful_var g (dunit d)) (dsl_params (ddsl d) (dparams d)) (t_params t)
  end /\
  t_unit t = match dunit d with Some s => s | None => "" end.

Definition sum_sizes (l : list var) : nat := fold_right (fun v a => vsize v + a) 0 l.

(* l1 is l2 with some elements removed, order kept *)
Inductive sublist {A : Type} : list A -> list A -> Prop :=
| SL_nil : forall l, sublist [] l
| SL_keep : forall a l1 l2, sublist l1 l2 -> sublist (a :: l1) (a :: l2)
| SL_skip : forall a l1 l2, sublist l1 l2 -> sublist l1 (a :: l2).

(* the variable is declared for hypothesis h *)
Definition declared_for_spec (h : hyp) (v : var) : Prop := vhyps v = [] \/ In h (vhyps v).

(* order of decimals *)
Definition dec_le (a b : dec) : Prop :=
  let m := Z.min (expo a) (expo b) in (mant a * 10 ^ (expo a - m) <= mant b * 10 ^ (expo b - m))%Z.

(* bounds b lie within physical bounds p, and have every side p has *)
Definition within (b p : bnd) : Prop :=
  match p with
  | Lower pl => match b with Lower l | Both l _ => dec_le pl l | Upper _ => False end
  | Upper pu => match b with Upper u | Both _ u => dec_le u pu | Lower _ => False end
  | Both pl pu => match b with Both l u => dec_le pl l /\ dec_le u pu | _ => False end
  end.

(* C45 -- the property, stated independently of the model's functions: relations and predicates only.
   "The metadata read back from a generated library is the declaration." *)
From Coq Require Import String List ZArith Bool Arith Sorted.
From C45 Require Import C45Model.
Import ListNotations.
Local Open Scope string_scope.
Local Open Scope list_scope.

(* external name: glossary name if any, else entry name, else the variable name *)
Inductive ext_name_spec (v : var) : string -> Prop :=
| EN_gloss : forall k, vgloss v = Some k -> ext_name_spec v k
| EN_entry : forall e, vgloss v = None -> ventry v = Some e -> ext_name_spec v e
| EN_name : vgloss v = None -> ventry v = None -> ext_name_spec v (vname v).

(* the glossary (as dumped) gives these physical bounds to key k in unit system s *)
Definition first_entry (g : glossary) (k s : string) (e : gentry) : Prop :=
  exists g1 g2, g = g1 ++ e :: g2 /\ gkey e = k /\ gsys e = s /\
                forall e', In e' g1 -> ~ (gkey e' = k /\ gsys e' = s).

(* inheritance rule of checkAndCompletePhysicalBoundsDeclaration *)
Inductive phys_spec (g : glossary) (unit : option string) (v : var) : option bnd -> Prop :=
| PS_declared : forall b, vphys v = Some b -> phys_spec g unit v (Some b)
| PS_no_unit : vphys v = None -> unit = None -> phys_spec g unit v None
| PS_no_gloss : vphys v = None -> vgloss v = None -> phys_spec g unit v None
| PS_unknown : forall s k, vphys v = None -> unit = Some s -> vgloss v = Some k ->
               (forall e, In e g -> ~ (gkey e = k /\ gsys e = s)) -> phys_spec g unit v None
| PS_both : forall s k e l u, vphys v = None -> unit = Some s -> vgloss v = Some k -> first_entry g k s e ->
            glow e = Some l -> gup e = Some u -> phys_spec g unit v (Some (Both l u))
| PS_lower : forall s k e l, vphys v = None -> unit = Some s -> vgloss v = Some k -> first_entry g k s e ->
            glow e = Some l -> gup e = None -> phys_spec g unit v (Some (Lower l))
| PS_upper : forall s k e u, vphys v = None -> unit = Some s -> vgloss v = Some k -> first_entry g k s e ->
            glow e = None -> gup e = Some u -> phys_spec g unit v (Some (Upper u))
| PS_none : forall s k e, vphys v = None -> unit = Some s -> vgloss v = Some k -> first_entry g k s e ->
            glow e = None -> gup e = None -> phys_spec g unit v None.

(* one exported variable is faithful to its declaration *)
Definition faithful_var (g : glossary) (unit : option string) (v : var) (m : vmeta) : Prop :=
  ext_name_spec v (m_ext m) /\ m_code m = type_code (vty v) /\ m_size m = vsize v /\
  m_bounds m = vbounds v /\ phys_spec g unit v (m_phys m) /\ m_def m = vdefault v.

(* everything but the bounds (holds whatever the variant) *)
Definition faithful_var_names (v : var) (m : vmeta) : Prop :=
  ext_name_spec v (m_ext m) /\ m_code m = type_code (vty v) /\ m_size m = vsize v /\ m_def m = vdefault v.

Definition hyps_spec (declared exported : list hyp) : Prop :=
  NoDup exported /\ (forall h, In h exported <-> In h declared) /\
  StronglySorted (fun a b => hyp_rank a < hyp_rank b) exported.   (* order of the enumeration *)

Definition faithful (g : glossary) (d : decl) (t : table) : Prop :=
  match dkind d with
  | MaterialProperty =>
      t_kind t = 0%Z /\ ext_name_spec (doutput d) (t_output t) /\
      Forall2 (faithful_var g (dunit d)) (dinputs d) (t_args t) /\
      Forall2 (faithful_var g (dunit d)) (dparams d) (t_params t)
  | Behaviour =>
      t_kind t = 1%Z /\ hyps_spec (dhyps d) (t_hyps t) /\
      Forall2 (faithful_var g (dunit d)) (dmps d) (t_mps t) /\
      Forall2 (faithful_var g (dunit d)) (dsvs d ++ dasvs d) (t_isvs t) /\
      Forall2 (faithful_var g (dunit d)) (desvs d) (t_esvs t) /\
      (exists l, t_params t = l ++ map (meta repaired g (dunit d) true) builtin_parameters /\
                 Forall2 (faithful_var g (dunit d)) (dparams d) l)
  end /\
  t_unit t = match dunit d with Some s => s | None => "" end.

Definition sum_sizes (l : list var) : nat := fold_right (fun v a => vsize v + a) 0 l.

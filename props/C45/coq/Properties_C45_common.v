(* C45 -- theorems that hold for the generator as found and repaired (any variant vr), any glossary, any declaration *)
From Coq Require Import String List ZArith Bool Arith Sorted.
From C45 Require Import C45Model C45Spec C45Proofs.
Import ListNotations.
Local Open Scope string_scope.
Local Open Scope list_scope.

(* symbols is total (a Gallina function) and exports every declared variable exactly once, in order, under its external
   name, with its type code, array size and default values; supported hypotheses = declared set in enumeration order *)
Theorem C45_symbols_total_names_types_sizes_defaults : forall vr g d, let T := symbols vr g d in
  match dkind d with
  | MaterialProperty =>
      t_kind T = 0%Z /\ ext_name_spec (doutput d) (t_output T) /\ Forall2 faithful_var_names (dinputs d) (t_args T) /\
      Forall2 faithful_var_names (dparams d) (t_params T)
  | Behaviour =>
      t_kind T = 1%Z /\ hyps_spec (dhyps d) (t_hyps T) /\ Forall2 faithful_var_names (dmps d) (t_mps T) /\
      Forall2 faithful_var_names (dsvs d ++ dasvs d) (t_isvs T) /\ Forall2 faithful_var_names (desvs d) (t_esvs T) /\
      Forall2 faithful_var_names (dparams d ++ builtin_parameters) (t_params T)
  end /\ t_unit T = match dunit d with Some s => s | None => "" end.
Proof. exact names_any. Qed.
Print Assumptions C45_symbols_total_names_types_sizes_defaults.

(* external name = glossary name if any, else entry name, else variable name -- and nothing else *)
Theorem C45_external_name_rule : forall v s, ext_name_spec v s <-> s = ext_name v.
Proof. intros v s; split; [intro H; exact (ext_name_spec_det v s (ext_name v) H (ext_name_ok v)) | intros ->; apply ext_name_ok]. Qed.
Print Assumptions C45_external_name_rule.

(* the completion function is exactly the inheritance rule *)
Theorem C45_completion_rule : forall g u v r, phys_spec g u v r <-> r = complete g u v.
Proof. intros g u v r; split; [apply phys_spec_complete | intros ->; apply complete_ok]. Qed.
Print Assumptions C45_completion_rule.

Theorem C45_two_sided_glossary_entry_gives_both_bounds : forall g s k e l u v,
  vphys v = None -> vgloss v = Some k -> first_entry g k s e -> glow e = Some l -> gup e = Some u ->
  complete g (Some s) v = Some (Both l u).
Proof. exact complete_two_sided. Qed.
Print Assumptions C45_two_sided_glossary_entry_gives_both_bounds.

Theorem C45_declared_physical_bounds_win : forall g u v b, vphys v = Some b -> complete g u v = Some b.
Proof. exact complete_declared. Qed.
Print Assumptions C45_declared_physical_bounds_win.

(* non-array variables of the containers no finding touches: bounds and physical bounds (inherited included) round-trip *)
Theorem C45_bounds_roundtrip_scalars : forall vr g d, let T := symbols vr g d in
  match dkind d with
  | MaterialProperty => Forall2 (scalar_faithful g (dunit d)) (dparams d) (t_params T)
  | Behaviour =>
      Forall2 (scalar_faithful g (dunit d)) (dmps d) (t_mps T) /\
      Forall2 (scalar_faithful g (dunit d)) (desvs d) (t_esvs T) /\
      Forall2 (scalar_faithful g (dunit d)) (dparams d ++ builtin_parameters) (t_params T) /\
      (exists m, t_temperature T = Some m /\ faithful_var g (dunit d) temperature_var m)
  end.
Proof. exact scalars_any. Qed.
Print Assumptions C45_bounds_roundtrip_scalars.

(* array variables export their size: as many names / type codes as the sum of the array sizes *)
Theorem C45_array_sizes_exported : forall vr g d, dkind d = Behaviour -> let T := symbols vr g d in
  length (expanded_names (t_mps T)) = sum_sizes (dmps d) /\
  length (expanded_names (t_isvs T)) = sum_sizes (dsvs d ++ dasvs d) /\
  length (expanded_types (t_isvs T)) = sum_sizes (dsvs d ++ dasvs d) /\
  length (expanded_names (t_esvs T)) = sum_sizes (desvs d) /\
  length (expanded_types (t_esvs T)) = sum_sizes (desvs d) /\
  length (expanded_names (t_params T)) = sum_sizes (dparams d ++ builtin_parameters) /\
  length (expanded_types (t_params T)) = sum_sizes (dparams d ++ builtin_parameters).
Proof. exact sizes_any. Qed.
Print Assumptions C45_array_sizes_exported.

Theorem C45_repairs_change_only_bounds : forall vr g d,
  map (fun m => (m_ext m, m_code m, m_size m, m_def m)) (t_isvs (symbols vr g d)) =
  map (fun m => (m_ext m, m_code m, m_size m, m_def m)) (t_isvs (symbols repaired g d)) /\
  map (fun m => (m_ext m, m_code m, m_size m, m_def m)) (t_args (symbols vr g d)) =
  map (fun m => (m_ext m, m_code m, m_size m, m_def m)) (t_args (symbols repaired g d)) /\
  t_hyps (symbols vr g d) = t_hyps (symbols repaired g d) /\ t_output (symbols vr g d) = t_output (symbols repaired g d).
Proof. exact repair_changes_only_bounds. Qed.
Print Assumptions C45_repairs_change_only_bounds.

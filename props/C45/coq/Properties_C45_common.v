(* C45 -- theorems that hold for the generator as found and repaired (any variant vr), any glossary, any declaration *)
From Coq Require Import String List ZArith Bool Arith Sorted.
From C45 Require Import C45Model C45Spec C45Proofs.
Import ListNotations.
Local Open Scope string_scope.
Local Open Scope list_scope.

(* symbols is total (a Gallina function) and exports every variable the DSL elaboration declares exactly once, in order, under its
   external name, with its type code, array size and default values; supported hypotheses = declared set in enumeration order *)
Theorem C45_symbols_total_names_types_sizes_defaults : forall vr g d, let T := symbols vr g d in
  match dkind d with
  | MaterialProperty =>
      t_kind T = 0%Z /\ ext_name_spec (doutput d) (t_output T) /\ Forall2 faithful_var_names (dinputs d) (t_args T) /\
      Forall2 faithful_var_names (dparams d) (t_params T)
  | Behaviour =>
      t_kind T = 1%Z /\ hyps_spec (dhyps d) (t_hyps T) /\ Forall2 faithful_var_names (dsl_mps (ddsl d) (dmps d)) (t_mps T) /\
      Forall2 faithful_var_names (dsl_svs (ddsl d) (dsvs d) ++ dasvs d) (t_isvs T) /\ Forall2 faithful_var_names (desvs d) (t_esvs T) /\
      Forall2 faithful_var_names (dsl_params (ddsl d) (dparams d)) (t_params T)
  end /\ t_unit T = match dunit d with Some s => s | None => "" end.
Proof. exact names_any. Qed.
Print Assumptions C45_symbols_total_names_types_sizes_defaults.

(* external name = glossary name if any, else entry name, else variable name -- and nothing else *)
Theorem C45_external_name_rule : forall v s, ext_name_spec v s <-> s = ext_name v.
Proof. intros v s; split; [intro H; exact (ext_name_spec_det v s (ext_name v) H (ext_name_ok v)) | intros ->; apply ext_name_ok]. Qed.
Print Assumptions C45_external_name_rule.

(* the completion function is exactly the inheritance rule *)
Theorem C45_completion_rule : forall g u v r, phys_spec g u v r <-> r = complete g u v.
Proof. intros g u v r; split; [apply phys_spec_complete | intros ->; apply complete_ok]. Qed.
Print Assumptions C45_completion_rule.
Theorem C45_two_sided_glossary_entry_gives_both_bounds : forall g s k e l u v,
  vphys v = None -> vgloss v = Some k -> first_entry g k s e -> glow e = Some l -> gup e = Some u ->
  complete g (Some s) v = Some (Both l u).
Proof. exact complete_two_sided. Qed.
Print Assumptions C45_two_sided_glossary_entry_gives_both_bounds.
Theorem C45_declared_physical_bounds_win : forall g u v b, vphys v = Some b -> complete g u v = Some b.
Proof. exact complete_declared. Qed.
Print Assumptions C45_declared_physical_bounds_win.

(* non-array variables of the containers the first three findings do not touch: bounds and physical bounds (inherited included) round-trip *)
Theorem C45_bounds_roundtrip_scalars : forall vr g d, let T := symbols vr g d in
  match dkind d with
  | MaterialProperty => Forall2 (scalar_faithful g (dunit d)) (dparams d) (t_params T)
  | Behaviour =>
      Forall2 (scalar_faithful g (dunit d)) (dsl_mps (ddsl d) (dmps d)) (t_mps T) /\
      Forall2 (scalar_faithful g (dunit d)) (desvs d) (t_esvs T) /\
      Forall2 (scalar_faithful g (dunit d)) (dsl_params (ddsl d) (dparams d)) (t_params T) /\
      (exists m, t_temperature T = Some m /\ faithful_var g (dunit d) temperature_var m)
  end.
Proof. exact scalars_any. Qed.
Print Assumptions C45_bounds_roundtrip_scalars.

(* array variables export their size: as many names / type codes as the sum of the array sizes *)
Theorem C45_array_sizes_exported : forall vr g d, dkind d = Behaviour -> let T := symbols vr g d in
  length (expanded_names (t_mps T)) = sum_sizes (dsl_mps (ddsl d) (dmps d)) /\
  length (expanded_names (t_isvs T)) = sum_sizes (dsl_svs (ddsl d) (dsvs d) ++ dasvs d) /\
  length (expanded_types (t_isvs T)) = sum_sizes (dsl_svs (ddsl d) (dsvs d) ++ dasvs d) /\
  length (expanded_names (t_esvs T)) = sum_sizes (desvs d) /\
  length (expanded_types (t_esvs T)) = sum_sizes (desvs d) /\
  length (expanded_names (t_params T)) = sum_sizes (dsl_params (ddsl d) (dparams d)) /\
  length (expanded_types (t_params T)) = sum_sizes (dsl_params (ddsl d) (dparams d)).
Proof. exact sizes_any. Qed.
Print Assumptions C45_array_sizes_exported.
Theorem C45_repairs_change_only_bounds : forall vr g d,
  map (fun m => (m_ext m, m_code m, m_size m, m_def m)) (t_isvs (symbols vr g d)) =
  map (fun m => (m_ext m, m_code m, m_size m, m_def m)) (t_isvs (symbols repaired g d)) /\
  map (fun m => (m_ext m, m_code m, m_size m, m_def m)) (t_args (symbols vr g d)) =
  map (fun m => (m_ext m, m_code m, m_size m, m_def m)) (t_args (symbols repaired g d)) /\
  t_hyps (symbols vr g d) = t_hyps (symbols repaired g d) /\ t_output (symbols vr g d) = t_output (symbols repaired g d).
Proof. exact repair_changes_only_bounds. Qed.
Print Assumptions C45_repairs_change_only_bounds.

(* per-element bounds: `@Bounds x in` holds for every element, `@Bounds x[i] in` for element i only; the function is the only solution *)
Theorem C45_per_element_bounds_rule : forall v i, bounds_wf v -> elem_bounds_spec v i (elem_bounds v i).
Proof. exact elem_bounds_ok. Qed.
Print Assumptions C45_per_element_bounds_rule.
Theorem C45_per_element_bounds_rule_unique : forall v i a b, bounds_wf v -> elem_bounds_spec v i a -> elem_bounds_spec v i b -> a = b.
Proof. exact elem_bounds_spec_det. Qed.
Print Assumptions C45_per_element_bounds_rule_unique.

(* hypothesis-specialised declarations: under hypothesis h a container holds the variables declared for every hypothesis or for h, in
   declaration order, and nothing else *)
Theorem C45_hypothesis_view_keeps_exactly_the_variables_declared_for_it : forall h d, let r := restrict h d in
  dkind r = dkind d /\ dunit r = dunit d /\ dhyps r = dhyps d /\ ddsl r = ddsl d /\
  (sublist (dmps r) (dmps d) /\ forall v, In v (dmps r) <-> In v (dmps d) /\ declared_for_spec h v) /\
  (sublist (dsvs r) (dsvs d) /\ forall v, In v (dsvs r) <-> In v (dsvs d) /\ declared_for_spec h v) /\
  (sublist (dasvs r) (dasvs d) /\ forall v, In v (dasvs r) <-> In v (dasvs d) /\ declared_for_spec h v) /\
  (sublist (desvs r) (desvs d) /\ forall v, In v (desvs r) <-> In v (desvs d) /\ declared_for_spec h v) /\
  (sublist (dparams r) (dparams d) /\ forall v, In v (dparams r) <-> In v (dparams d) /\ declared_for_spec h v).
Proof. exact restrict_ok. Qed.
Print Assumptions C45_hypothesis_view_keeps_exactly_the_variables_declared_for_it.

(* the Implicit DSL and the StandardElasticity brick add parameters / material properties / the elastic strain; they never drop or
   reorder what the user declared *)
Theorem C45_dsl_and_brick_keep_user_declarations : forall s l, sublist l (dsl_params s l) /\ sublist l (dsl_mps s l) /\ sublist l (dsl_svs s l).
Proof. exact dsl_keeps. Qed.
Print Assumptions C45_dsl_and_brick_keep_user_declarations.

(* setParameter on a freshly loaded library = the library generated from the source in which that default value was edited *)
Theorem C45_setParameter_is_recompiling_with_that_default : forall mp params h k key x st',
  set_param (store_of mp params) h k key x = Some st' ->
  exists params', set_default mp params h k key x = Some params' /\ st' = store_of mp params' /\
                  forall h', view st' h' = view (store_of mp params') h'.
Proof. exact set_recompile. Qed.
Print Assumptions C45_setParameter_is_recompiling_with_that_default.
Theorem C45_setParameter_commutes_with_editing_the_default : forall mp params h k key x,
  set_param (store_of mp params) h k key x = option_map (store_of mp) (set_default mp params h k key x).
Proof. exact set_param_store_of. Qed.
Print Assumptions C45_setParameter_commutes_with_editing_the_default.
Theorem C45_parameters_file_is_recompiling_with_those_defaults : forall mp params h lines st',
  load_file (store_of mp params) h lines = Some st' ->
  exists params', edit_defaults mp params h lines = Some params' /\ st' = store_of mp params' /\
                  forall h', view st' h' = view (store_of mp params') h'.
Proof. exact file_recompile. Qed.
Print Assumptions C45_parameters_file_is_recompiling_with_those_defaults.
Theorem C45_setParameter_fails_exactly_on_unknown_names : forall st h k key x,
  set_param st h k key x = None <-> forall s, In s st -> slot_matches h k key s = false.
Proof. exact set_param_none. Qed.
Print Assumptions C45_setParameter_fails_exactly_on_unknown_names.
Theorem C45_setParameter_changes_exactly_one_value : forall st h k key x st',
  set_param st h k key x = Some st' ->
  exists l1 s l2, st = l1 ++ s :: l2 /\ (forall s0, In s0 l1 -> slot_matches h k key s0 = false) /\ slot_matches h k key s = true /\
                  st' = l1 ++ mkSlot (s_owner s) (s_name s) (s_alias s) (s_kind s) (set_nth (key_index key) x (s_vals s)) :: l2.
Proof. exact set_param_some. Qed.
Print Assumptions C45_setParameter_changes_exactly_one_value.
Theorem C45_editing_a_default_value_changes_nothing_else : forall v i x,
  let w := with_default v i x in
  vname w = vname v /\ vgloss w = vgloss v /\ ventry w = ventry v /\ vty w = vty v /\ vsize w = vsize v /\ vbounds w = vbounds v /\
  vphys w = vphys v /\ vebounds w = vebounds v /\ vhyps w = vhyps v /\
  (i < vsize v -> nth i (vdefault w) zero = x /\ forall j, j <> i -> nth j (vdefault w) zero = nth j (pad v) zero).
Proof. exact with_default_same_declaration. Qed.
Print Assumptions C45_editing_a_default_value_changes_nothing_else.

(* accepted declarations: exported bounds lie within the exported physical bounds (declared or inherited) and have every side they have *)
Theorem C45_accepted_bounds_lie_within_physical_bounds : forall vr g d v i b p, accepts vr g d = true -> In v (all_vars d) ->
  elem_bounds v i = Some b -> complete g (dunit d) v = Some p -> within b p.
Proof. exact accepts_within. Qed.
Print Assumptions C45_accepted_bounds_lie_within_physical_bounds.

(* accepted behaviours: under every declared hypothesis no external name is exported twice (so a setParameter key names one parameter) *)
Theorem C45_accepted_behaviour_names_unique_per_hypothesis : forall vr g d, dkind d = Behaviour -> accepts vr g d = true -> forall h, In h (dhyps d) ->
  NoDup (map ext_name (all_vars (restrict h d))) /\ NoDup (map ext_name (params_of (restrict h d))).
Proof. exact accepts_names_behaviour. Qed.
Print Assumptions C45_accepted_behaviour_names_unique_per_hypothesis.

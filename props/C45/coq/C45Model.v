(* C45 -- executable Gallina model of the metadata exported by mfront for a declaration and read back through
   tfel::system::ExternalLibraryManager.  Definitions only.
   Anchors: mfront/src/VariableDescription.cxx (checkAndCompletePhysicalBoundsDeclaration, getExternalName, setBounds,
   setPhysicalBounds, checkBoundsCompatibility), mfront/src/BehaviourData.cxx (checkAndCompletePhysicalBoundsDeclaration: which
   containers are completed; reserveName, registerGlossaryName / registerEntryName), mfront/src/BehaviourDescription.cxx
   (specialised data: getBehaviourData2, setBounds), mfront/src/MaterialPropertyDescription.cxx (setGlossaryName, setEntryName),
   mfront/src/CodeGeneratorUtilities.cxx (writeVariablesNamesSymbol, writeVariablesBoundsSymbols, writeBoundsSymbols,
   writePhysicalBoundsSymbols, writeParametersSymbols), mfront/src/SymbolsGenerator.cxx (generateSymbols),
   mfront/src/ImplicitDSL.cxx, ImplicitDSLBase.cxx (completeVariableDeclaration, treatEpsilon / treatTheta / treatIterMax),
   mfront/src/HookeStressPotentialBase.cxx (initialize, completeVariableDeclaration), BehaviourDescription.cxx
   (setElasticMaterialProperties / declareParameter), mfront/src/BehaviourCodeGeneratorBase.cxx
   (writeSrcFileParametersInitializer: set, readParameters), mfront/src/MaterialPropertyParametersHandler.cxx,
   src/System/ExternalLibraryManager.cxx (get*/has*/setParameter and decomposeVariableName). *)
From Coq Require Import String List ZArith Bool Arith.
Import ListNotations.
Local Open Scope string_scope.

(* exact decimal number mant * 10^expo: the model never computes with bound values, it transports and compares them *)
Record dec := mkDec { mant : Z; expo : Z }.

Inductive bnd := Lower (l : dec) | Upper (u : dec) | Both (l u : dec).

(* TInt / TUShort: parameters only (codes of <f>_ParametersTypes: 0 real, 1 int, 2 unsigned short).  No keyword of the DSLs
   declares an int parameter; the only unsigned short one is iterMax (Implicit and isotropic DSLs). *)
Inductive vtype := TScalar | TStensor | TVector | TTensor | TInt | TUShort.

Definition type_code (t : vtype) : Z :=
  match t with TScalar => 0 | TStensor => 1 | TVector => 2 | TTensor => 3 | TInt => 1 | TUShort => 2 end%Z.

(* tfel::material::ModellingHypothesis::Hypothesis, in the order of the enumeration *)
Inductive hyp := AGPStrain | AGPStress | Axisymmetrical | PlaneStress | PlaneStrain | GeneralisedPlaneStrain | Tridimensional.

Definition hyp_rank (h : hyp) : nat :=
  match h with AGPStrain => 0 | AGPStress => 1 | Axisymmetrical => 2 | PlaneStress => 3 | PlaneStrain => 4
          | GeneralisedPlaneStrain => 5 | Tridimensional => 6 end.

Definition all_hyps : list hyp :=
  [AGPStrain; AGPStress; Axisymmetrical; PlaneStress; PlaneStrain; GeneralisedPlaneStrain; Tridimensional].

Definition hyp_eqb (a b : hyp) : bool := Nat.eqb (hyp_rank a) (hyp_rank b).

Record var := mkVar {
  vname : string;
  vgloss : option string;      (* x.setGlossaryName("...") *)
  ventry : option string;      (* x.setEntryName("...") *)
  vty : vtype;
  vsize : nat;                 (* array size; 1 = not an array *)
  vbounds : option bnd;        (* @Bounds x in ... *)
  vphys : option bnd;          (* @PhysicalBounds x in ... *)
  vdefault : list dec;         (* parameters: default value(s), one per array element *)
  vebounds : list (nat * bnd); (* @Bounds x[i] in ... (behaviours) *)
  vephys : list (nat * bnd);   (* @PhysicalBounds x[i] in ...: no DSL accepts it *)
  vhyps : list hyp             (* @Keyword<H1,H2,...>: the hypotheses the variable is declared for; [] = all of them *)
}.

(* one line of the glossary dump: physical bounds of entry gkey for unit system gsys *)
Record gentry := mkG { gkey : string; gsys : string; glow : option dec; gup : option dec }.
Definition glossary := list gentry.

Inductive kind := MaterialProperty | Behaviour.

(* @Brick StandardElasticity (isotropic) *)
Inductive brick :=
| NoBrick
| BrickMP                      (* no option: Young modulus and Poisson ratio are material properties *)
| BrickConst (E nu : dec).     (* {young_modulus : E, poisson_ratio : nu}: constants, hence parameters *)

Record implicit := mkImplicit {
  i_epsilon : option dec;      (* @Epsilon, written right after the header *)
  i_theta : option dec;        (* @Theta, idem *)
  i_itermax : option dec;      (* @IterMax, idem *)
  i_brick : brick;
  i_brick_pos : nat            (* number of user @Parameter declarations that precede the @Brick line *)
}.

Inductive dsl := DefaultDSL | ImplicitDSL (o : implicit).

Record decl := mkDecl {
  dkind : kind;
  dunit : option string;       (* @UnitSystem *)
  doutput : var;               (* material property *)
  dinputs : list var;          (* material property *)
  dmps : list var;             (* behaviour: @MaterialProperty *)
  dsvs : list var;             (* behaviour: @StateVariable *)
  dasvs : list var;            (* behaviour: @AuxiliaryStateVariable *)
  desvs : list var;            (* behaviour: @ExternalStateVariable *)
  dparams : list var;          (* @Parameter *)
  dhyps : list hyp;            (* behaviour: @ModellingHypotheses *)
  ddsl : dsl                   (* behaviour: @DSL Default / Implicit *)
}.

(* the places where the front-end / generator, as found, departs from the property (each is a finding of this property);
   false = repaired *)
Record variant := mkVariant {
  mp_phys_needs_bounds : bool;     (* writeVariablesBoundsSymbols: `continue` when an input has no @Bounds *)
  array_bounds_unreadable : bool;  (* "_mfront_index_<i>_" + "_LowerBound": name never looked up by the reader *)
  persistent_not_completed : bool; (* BehaviourData::checkAndComplete...: persistentVariables copies are skipped *)
  index_off_by_one : bool;         (* VariableDescription::setBounds(b, i): `i > arraySize` instead of `i >= arraySize` *)
  mp_names_unchecked : bool        (* MaterialPropertyDescription::setEntryName / setGlossaryName / reserveName: an external
                                      name may be the name of another variable *)
}.
Definition repaired := mkVariant false false false false false.

(* ---------------------------------------------------------------- decimals *)
Definition dec_leb (a b : dec) : bool :=
  let m := Z.min (expo a) (expo b) in Z.leb (mant a * 10 ^ (expo a - m)) (mant b * 10 ^ (expo b - m)).
Definition dec_tenth (a : dec) : dec := mkDec (mant a) (expo a - 1).

(* ---------------------------------------------------------------- names *)
Definition ext_name (v : var) : string :=
  match vgloss v with
  | Some g => g
  | None => match ventry v with Some e => e | None => vname v end
  end.

(* ---------------------------------------------------------------- completion of physical bounds *)
Definition glookup (g : glossary) (k s : string) : option gentry :=
  find (fun e => String.eqb (gkey e) k && String.eqb (gsys e) s) g.

Definition entry_bounds (e : gentry) : option bnd :=
  match glow e, gup e with
  | Some l, Some u => Some (Both l u)
  | Some l, None => Some (Lower l)
  | None, Some u => Some (Upper u)
  | None, None => None
  end.

Definition complete (g : glossary) (unit : option string) (v : var) : option bnd :=
  match vphys v with
  | Some b => Some b                                   (* declared physical bounds win *)
  | None =>
      match unit, vgloss v with
      | Some s, Some k => match glookup g k s with Some e => entry_bounds e | None => None end
      | _, _ => None
      end
  end.

(* ---------------------------------------------------------------- bounds of the elements of a variable *)
Definition elem_decl (l : list (nat * bnd)) (i : nat) : option bnd :=
  option_map snd (find (fun p => Nat.eqb (fst p) i) l).

(* @Bounds x in ... applies to every element; otherwise the per-element declaration, if any *)
Definition elem_bounds (v : var) (i : nat) : option bnd :=
  match vbounds v with Some b => Some b | None => elem_decl (vebounds v) i end.

(* ---------------------------------------------------------------- exported metadata of one variable *)
Record vmeta := mkMeta {
  m_ext : string; m_code : Z; m_size : nat;
  m_bounds : list (option bnd); m_phys : list (option bnd);   (* as read back, one answer per element *)
  m_def : list dec
}.

Definition hide_arrays (vr : variant) (v : var) (b : option bnd) : option bnd :=
  if array_bounds_unreadable vr && negb (Nat.eqb (vsize v) 1) then None else b.

(* completed = does the container the symbols are written from see the completion? *)
Definition meta (vr : variant) (g : glossary) (unit : option string) (completed : bool) (v : var) : vmeta :=
  mkMeta (ext_name v) (type_code (vty v)) (vsize v)
         (map (fun i => hide_arrays vr v (elem_bounds v i)) (seq 0 (vsize v)))
         (map (fun _ => hide_arrays vr v (if completed then complete g unit v else vphys v)) (seq 0 (vsize v)))
         (vdefault v).

(* input of a material property *)
Definition meta_input (vr : variant) (g : glossary) (unit : option string) (v : var) : vmeta :=
  let m := meta vr g unit true v in
  if mp_phys_needs_bounds vr then
    match vbounds v with
    | Some _ => m
    | None => mkMeta (m_ext m) (m_code m) (m_size m) (m_bounds m) (map (fun _ => None) (m_phys m)) (m_def m)
    end
  else m.

(* ---------------------------------------------------------------- what the DSLs and the brick add *)
Definition plain (n : string) (g e : option string) (t : vtype) (def : list dec) : var :=
  mkVar n g e t 1 None None def [] [] [].

Definition temperature_var : var := plain "T" (Some "Temperature") None TScalar [].

Definition builtin_parameters : list var :=
  [ plain "minimal_time_step_scaling_factor" None None TScalar [mkDec 1 (-1)];
    plain "maximal_time_step_scaling_factor" None None TScalar [mkDec 17976931348623 295] ].

(* ImplicitDSL::ImplicitDSL *)
Definition eel_var : var := plain "eel" (Some "ElasticStrain") None TStensor [].

(* HookeStressPotentialBase::completeVariableDeclaration: addMaterialPropertyIfNotDefined *)
Definition brick_mps (b : brick) : list var :=
  match b with
  | BrickMP => [ plain "young" (Some "YoungModulus") None TScalar []; plain "nu" (Some "PoissonRatio") None TScalar [] ]
  | _ => []
  end.

(* HookeStressPotentialBase::initialize (called when @Brick is read): constant elastic properties become parameters
   (BehaviourDescription::setElasticMaterialProperties), then the relative stress criterion *)
Definition brick_params (b : brick) : list var :=
  match b with
  | NoBrick => []
  | BrickMP => [ plain "relative_value_for_the_equivalent_stress_lower_bound" None
                       (Some "RelativeValueForTheEquivalentStressLowerBoundDefinition") TScalar [mkDec 1 (-12)] ]
  | BrickConst E nu =>
      [ plain "young" (Some "YoungModulus") None TScalar [E]; plain "nu" (Some "PoissonRatio") None TScalar [nu];
        plain "relative_value_for_the_equivalent_stress_lower_bound" None
              (Some "RelativeValueForTheEquivalentStressLowerBoundDefinition") TScalar [mkDec 1 (-12)] ]
  end.

Definition opt_list {A : Type} (o : option A) (f : A -> var) : list var := match o with Some a => [f a] | None => [] end.
Definition none_list {A : Type} (o : option A) (v : var) : list var := match o with Some _ => [] | None => [v] end.

Definition epsilon_var (x : dec) : var := plain "epsilon" None (Some "epsilon") TScalar [x].
Definition theta_var (x : dec) : var := plain "theta" None (Some "theta") TScalar [x].
Definition itermax_var (x : dec) : var := plain "iterMax" None None TUShort [x].
Definition epsilon_value (o : implicit) : dec := match i_epsilon o with Some x => x | None => mkDec 1 (-8) end.

(* ImplicitDSLBase::treatEpsilon / treatTheta / treatIterMax: declared where the keyword stands (here: before the user's) *)
Definition implicit_pre (o : implicit) : list var :=
  opt_list (i_epsilon o) epsilon_var ++ opt_list (i_theta o) theta_var ++ opt_list (i_itermax o) itermax_var.

(* ImplicitDSLBase::completeVariableDeclaration (Newton-Raphson solver: the jacobian is used) *)
Definition implicit_post (o : implicit) : list var :=
  none_list (i_epsilon o) (epsilon_var (mkDec 1 (-8))) ++ none_list (i_theta o) (theta_var (mkDec 5 (-1)))
  ++ [ plain "numerical_jacobian_epsilon" None None TScalar [dec_tenth (epsilon_value o)] ]
  ++ none_list (i_itermax o) (itermax_var (mkDec 100 0)).

Definition dsl_svs (s : dsl) (l : list var) : list var := match s with ImplicitDSL _ => eel_var :: l | DefaultDSL => l end.
Definition dsl_mps (s : dsl) (l : list var) : list var := match s with ImplicitDSL o => l ++ brick_mps (i_brick o) | DefaultDSL => l end.
Definition dsl_params (s : dsl) (l : list var) : list var :=
  match s with
  | ImplicitDSL o => implicit_pre o ++ firstn (i_brick_pos o) l ++ brick_params (i_brick o) ++ skipn (i_brick_pos o) l ++ implicit_post o
  | DefaultDSL => l
  end ++ builtin_parameters.

Definition hyps_exported (l : list hyp) : list hyp :=
  filter (fun h => existsb (hyp_eqb h) l) all_hyps.      (* std::set<Hypothesis>: enumeration order, no duplicates *)

(* ---------------------------------------------------------------- the table *)
Record table := mkTable {
  t_kind : Z;                   (* <f>_mfront_mkt *)
  t_unit : string;              (* <f>_unit_system *)
  t_output : string;            (* material property *)
  t_args : list vmeta;          (* material property inputs *)
  t_hyps : list hyp;
  t_mps : list vmeta;
  t_isvs : list vmeta;          (* InternalStateVariables = state variables then auxiliary state variables *)
  t_esvs : list vmeta;          (* ExternalStateVariables, temperature removed *)
  t_temperature : option vmeta; (* behaviour: the removed temperature keeps its bounds symbols *)
  t_params : list vmeta
}.

Definition symbols (vr : variant) (g : glossary) (d : decl) : table :=
  let u := dunit d in
  let us := match u with Some s => s | None => "" end in
  match dkind d with
  | MaterialProperty =>
      mkTable 0 us (ext_name (doutput d)) (map (meta_input vr g u) (dinputs d)) [] [] [] []
              None
              (map (meta vr g u true) (dparams d))
  | Behaviour =>
      mkTable 1 us "" [] (hyps_exported (dhyps d))
              (map (meta vr g u true) (dsl_mps (ddsl d) (dmps d)))
              (map (meta vr g u (negb (persistent_not_completed vr))) (dsl_svs (ddsl d) (dsvs d) ++ dasvs d))
              (map (meta vr g u true) (desvs d))
              (Some (meta vr g u true temperature_var))
              (map (meta vr g u true) (dsl_params (ddsl d) (dparams d)))
  end.

(* ---------------------------------------------------------------- hypothesis-specialised declarations *)
Definition declared_for (h : hyp) (v : var) : bool :=
  match vhyps v with [] => true | l => existsb (hyp_eqb h) l end.

(* the declaration as seen under hypothesis h (BehaviourDescription::getBehaviourData(h)): declaration order is kept *)
Definition restrict (h : hyp) (d : decl) : decl :=
  let f := filter (declared_for h) in
  mkDecl (dkind d) (dunit d) (doutput d) (dinputs d) (f (dmps d)) (f (dsvs d)) (f (dasvs d)) (f (desvs d)) (f (dparams d))
         (dhyps d) (ddsl d).

(* what ExternalLibraryManager answers for hypothesis h *)
Definition symbols_at (vr : variant) (g : glossary) (d : decl) (h : hyp) : table := symbols vr g (restrict h d).

(* names as exported: "ext" or "ext[0]" ... "ext[n-1]" -- kept as (ext, index) pairs, the bracket syntax is printing *)
Definition expand (m : vmeta) : list (string * option nat) :=
  if Nat.eqb (m_size m) 1 then [(m_ext m, None)] else map (fun i => (m_ext m, Some i)) (seq 0 (m_size m)).

Definition expanded_names (l : list vmeta) : list (string * option nat) := flat_map expand l.
Definition expanded_types (l : list vmeta) : list Z := flat_map (fun m => repeat (m_code m) (m_size m)) l.

(* ---------------------------------------------------------------- parameters at run time *)
(* one slot per parameter element, held by the singleton <Class>[<Hypothesis>]ParametersInitializer (behaviours) or
   <law>MaterialPropertyParametersHandler (material properties) *)
Inductive pkind := KReal | KInt | KUShort.
Definition pkind_eqb (a b : pkind) : bool :=
  match a, b with KReal, KReal => true | KInt, KInt => true | KUShort, KUShort => true | _, _ => false end.
Definition pkind_of (t : vtype) : pkind := match t with TInt => KInt | TUShort => KUShort | _ => KReal end.

Definition pkey := (string * option nat)%type.       (* "name" or "name[i]" *)

Record pslot := mkSlot {
  s_owner : list hyp;          (* [] = the member of the class shared by every hypothesis *)
  s_name : string;             (* external name *)
  s_alias : option string;     (* material properties: the variable name is accepted as well *)
  s_kind : pkind;
  s_vals : list dec            (* one value per array element *)
}.
Definition store := list pslot.

Definition zero : dec := mkDec 0 0.
Definition pad (v : var) : list dec := map (fun i => nth i (vdefault v) zero) (seq 0 (vsize v)).

Definition slot_of (mp : bool) (v : var) : pslot :=
  mkSlot (vhyps v) (ext_name v) (if mp then Some (vname v) else None) (pkind_of (vty v)) (pad v).

(* state of a freshly loaded library generated from a parameter list *)
Definition store_of (mp : bool) (params : list var) : store := map (slot_of mp) params.

(* h = None: material property (one store); Some h: the behaviour under hypothesis h *)
Definition slot_visible (h : option hyp) (s : pslot) : bool :=
  match s_owner s with
  | [] => true
  | l => match h with Some x => existsb (hyp_eqb x) l | None => false end
  end.

Definition idx_ok (i : option nat) (n : nat) : bool :=
  match i with None => Nat.eqb n 1 | Some j => negb (Nat.eqb n 1) && Nat.ltb j n end.

Definition slot_matches (h : option hyp) (k : pkind) (key : pkey) (s : pslot) : bool :=
  slot_visible h s && pkind_eqb k (s_kind s) &&
  ((String.eqb (fst key) (s_name s) && idx_ok (snd key) (length (s_vals s))) ||
   match s_alias s, snd key with Some a, None => String.eqb a (fst key) && Nat.eqb (length (s_vals s)) 1 | _, _ => false end).

Definition set_nth {A : Type} (i : nat) (x : A) (l : list A) : list A := firstn i l ++ x :: skipn (Datatypes.S i) l.
Definition key_index (key : pkey) : nat := match snd key with Some i => i | None => 0 end.

(* <f>[_<h>]_set{,Integer,UnsignedShort}Parameter(key, x): the first matching member of that type is assigned;
   None = the call fails (unknown name, or name of a parameter of another type) *)
Fixpoint set_param (st : store) (h : option hyp) (k : pkind) (key : pkey) (x : dec) : option store :=
  match st with
  | [] => None
  | s :: r =>
      if slot_matches h k key s
      then Some (mkSlot (s_owner s) (s_name s) (s_alias s) (s_kind s) (set_nth (key_index key) x (s_vals s)) :: r)
      else option_map (cons s) (set_param r h k key x)
  end.

(* what the code computes with under hypothesis h: one line per parameter element, in the order of the declarations *)
Definition slot_view (s : pslot) : list (pkey * pkind * dec) :=
  map (fun i => ((s_name s, if Nat.eqb (length (s_vals s)) 1 then None else Some i), s_kind s, nth i (s_vals s) zero))
      (seq 0 (length (s_vals s))).
Definition view (st : store) (h : option hyp) : list (pkey * pkind * dec) :=
  flat_map slot_view (filter (slot_visible h) st).

(* the parameter list of the source file in which that default value was edited *)
Definition with_default (v : var) (i : nat) (x : dec) : var :=
  mkVar (vname v) (vgloss v) (ventry v) (vty v) (vsize v) (vbounds v) (vphys v) (set_nth i x (pad v)) (vebounds v) (vephys v) (vhyps v).

Fixpoint set_default (mp : bool) (params : list var) (h : option hyp) (k : pkind) (key : pkey) (x : dec) : option (list var) :=
  match params with
  | [] => None
  | v :: r =>
      if slot_matches h k key (slot_of mp v) then Some (with_default v (key_index key) x :: r)
      else option_map (cons v) (set_default mp r h k key x)
  end.

(* <Class>-parameters.txt / <Class><Hypothesis>-parameters.txt / <law>-parameters.txt in the current directory: one
   `name value` pair per line, read when the singleton is built; an unknown name is an error *)
Fixpoint load_file (st : store) (h : option hyp) (lines : list (pkind * pkey * dec)) : option store :=
  match lines with
  | [] => Some st
  | (k, key, x) :: r => match set_param st h k key x with Some st' => load_file st' h r | None => None end
  end.

Fixpoint edit_defaults (mp : bool) (params : list var) (h : option hyp) (lines : list (pkind * pkey * dec)) : option (list var) :=
  match lines with
  | [] => Some params
  | (k, key, x) :: r => match set_default mp params h k key x with Some p' => edit_defaults mp p' h r | None => None end
  end.

(* the parameter list of a declaration, as elaborated by the DSL, under hypothesis h *)
Definition params_of (d : decl) : list var :=
  match dkind d with MaterialProperty => dparams d | Behaviour => dsl_params (ddsl d) (dparams d) end.
Definition is_mp (d : decl) : bool := match dkind d with MaterialProperty => true | Behaviour => false end.

(* ---------------------------------------------------------------- which declarations the front-end accepts *)
Definition bnd_ordered (b : bnd) : bool := match b with Both l u => dec_leb l u | _ => true end.

(* checkBoundsCompatibility(standard, physical): the standard bounds have every side the physical bounds have, and lie inside.
   (As coded the comparison also runs against the unset side of the physical bounds, whose default value is
   numeric_limits<long double>::min() / max(): `@PhysicalBounds x in ]*:1]; @Bounds x in [-1:1];` is refused.  That quirk is
   examined under C27 / C38; it is NOT part of this predicate and the generator of the check avoids the combination.) *)
Definition contained (b p : bnd) : bool :=
  match p with
  | Lower pl => match b with Lower l | Both l _ => dec_leb pl l | Upper _ => false end
  | Upper pu => match b with Upper u | Both _ u => dec_leb u pu | Lower _ => false end
  | Both pl pu => match b with Both l u => dec_leb pl l && dec_leb u pu | _ => false end
  end.

Definition contained_opt (b : bnd) (p : option bnd) : bool := match p with Some q => contained b q | None => true end.

Fixpoint nodupb {A : Type} (eqb : A -> A -> bool) (l : list A) : bool :=
  match l with [] => true | a :: r => negb (existsb (eqb a) r) && nodupb eqb r end.

Definition gloss_known (g : glossary) (k : string) : bool := existsb (fun e => String.eqb (gkey e) k) g.

(* bounds of one variable.  arrays: may the variable be an array and carry per-element bounds (behaviours) *)
Definition var_bounds_ok (vr : variant) (g : glossary) (unit : option string) (arrays : bool) (v : var) : bool :=
  let p := complete g unit v in
  match vbounds v with Some b => bnd_ordered b && contained_opt b p | None => true end
  && match vphys v with Some b => bnd_ordered b | None => true end
  && match vephys v with [] => true | _ => false end
  && match vebounds v with
     | [] => true
     | l => arrays && negb (Nat.eqb (vsize v) 1) && match vbounds v with None => true | Some _ => false end
            && nodupb Nat.eqb (map fst l)
            && forallb (fun q => (if index_off_by_one vr then Nat.leb (fst q) (vsize v) else Nat.ltb (fst q) (vsize v))
                                 && bnd_ordered (snd q) && contained_opt (snd q) p) l
     end.

Definition var_names_ok (g : glossary) (v : var) : bool :=
  match vgloss v with Some k => gloss_known g k && match ventry v with None => true | Some _ => false end | None => true end
  && match ventry v with Some e => negb (gloss_known g e) | None => true end.

(* two variables living in the same scope: neither the name nor the external name of one is the name or the external
   name of the other.  Material properties as found only compare name with name, glossary name with glossary name and
   entry name with entry name. *)
Definition opt_eqb (a b : option string) : bool :=
  match a, b with Some x, Some y => String.eqb x y | _, _ => false end.
Definition clash (loose : bool) (v w : var) : bool :=
  if loose then String.eqb (vname v) (vname w) || opt_eqb (vgloss v) (vgloss w) || opt_eqb (ventry v) (ventry w)
  else String.eqb (vname v) (vname w) || String.eqb (vname v) (ext_name w) || String.eqb (ext_name v) (vname w)
       || String.eqb (ext_name v) (ext_name w).

Fixpoint no_clash (loose : bool) (l : list var) : bool :=
  match l with [] => true | v :: r => negb (existsb (clash loose v) r) && no_clash loose r end.

(* behaviours also refuse a variable whose name is a glossary key (`negb (gloss_known g (vname v))` below) *)
(* a sample of the names the DSLs reserve (BehaviourDSLCommon::registerDefaultVarNames, DSLBase: C++ types) *)
Definition reserved_behaviour : list string := ["dt"; "T"; "sig"; "eto"; "D"; "N"; "smt"; "real"].
Definition reserved_mp : list string := ["real"].
Definition not_reserved (l : list string) (v : var) : bool := negb (existsb (String.eqb (vname v)) l).

Definition sizes_ok (param : bool) (v : var) : bool :=
  negb (Nat.eqb (vsize v) 0) && (if param then Nat.eqb (length (vdefault v)) (vsize v) else true).

Definition all_vars (d : decl) : list var :=
  match dkind d with
  | MaterialProperty => doutput d :: dinputs d ++ dparams d
  | Behaviour => dsl_mps (ddsl d) (dmps d) ++ dsl_svs (ddsl d) (dsvs d) ++ dasvs d ++ temperature_var :: desvs d
                 ++ dsl_params (ddsl d) (dparams d)
  end.

Definition subset_hyps (l m : list hyp) : bool := forallb (fun h => existsb (hyp_eqb h) m) l.

Definition accepts (vr : variant) (g : glossary) (d : decl) : bool :=
  match dunit d with Some s => String.eqb s "SI" | None => true end &&
  match dkind d with
  | MaterialProperty =>
      forallb (fun v => Nat.eqb (vsize v) 1 && var_names_ok g v && not_reserved reserved_mp v
                        && match vhyps v with [] => true | _ => false end) (all_vars d)
      && forallb (var_bounds_ok vr g (dunit d) false) (doutput d :: dinputs d)
      && forallb (fun v => sizes_ok true v && match vbounds v, vphys v, vebounds v, vephys v with None, None, [], [] => true | _, _, _, _ => false end)
                 (dparams d)
      && no_clash (mp_names_unchecked vr) (all_vars d)
  | Behaviour =>
      negb (match dhyps d with [] => true | _ => false end) && nodupb hyp_eqb (dhyps d)
      && forallb (fun v => var_names_ok g v && negb (gloss_known g (vname v)) && not_reserved reserved_behaviour v && subset_hyps (vhyps v) (dhyps d))
                 (dmps d ++ dsvs d ++ dasvs d ++ desvs d ++ dparams d)
      && forallb (var_bounds_ok vr g (dunit d) true) (all_vars d)
      && forallb (sizes_ok false) (dmps d ++ dsvs d ++ dasvs d ++ desvs d) && forallb (sizes_ok true) (dparams d)
      && forallb (fun h => no_clash false (all_vars (restrict h d))) (dhyps d)
  end.

(* ---------------------------------------------------------------- rendering for the comparison with the real code *)
Inductive tok := S (s : string) | K (n : Z) | N (m e : Z).

Definition r_bnd (b : option bnd) : list tok :=
  match b with
  | None => [K 0]
  | Some (Lower l) => [K 1; N (mant l) (expo l)]
  | Some (Upper u) => [K 2; N (mant u) (expo u)]
  | Some (Both l u) => [K 3; N (mant l) (expo l); N (mant u) (expo u)]
  end%Z.

Definition r_meta (m : vmeta) : list tok :=
  [S (m_ext m); K (m_code m); K (Z.of_nat (m_size m))]
  ++ [K (Z.of_nat (length (m_bounds m)))] ++ flat_map r_bnd (m_bounds m)
  ++ [K (Z.of_nat (length (m_phys m)))] ++ flat_map r_bnd (m_phys m)
  ++ [K (Z.of_nat (length (m_def m)))] ++ map (fun x => N (mant x) (expo x)) (m_def m).

Definition r_list (l : list vmeta) : list tok := K (Z.of_nat (length l)) :: flat_map r_meta l.

Definition hyp_name (h : hyp) : string :=
  match h with
  | AGPStrain => "AxisymmetricalGeneralisedPlaneStrain" | AGPStress => "AxisymmetricalGeneralisedPlaneStress"
  | Axisymmetrical => "Axisymmetrical" | PlaneStress => "PlaneStress" | PlaneStrain => "PlaneStrain"
  | GeneralisedPlaneStrain => "GeneralisedPlaneStrain" | Tridimensional => "Tridimensional"
  end.

Definition render (t : table) : list tok :=
  [K (t_kind t); S (t_unit t); S (t_output t)] ++ r_list (t_args t)
  ++ [K (Z.of_nat (length (t_hyps t)))] ++ map (fun h => S (hyp_name h)) (t_hyps t)
  ++ r_list (t_mps t) ++ r_list (t_isvs t) ++ r_list (t_esvs t) ++ match t_temperature t with Some m => r_meta m | None => [] end ++ r_list (t_params t).

Definition r_kind (k : pkind) : Z := match k with KReal => 0 | KInt => 1 | KUShort => 2 end%Z.
Definition r_key (k : pkey) : list tok := [S (fst k); K (match snd k with Some i => Z.of_nat i | None => -1 end)%Z].
Definition r_view (l : list (pkey * pkind * dec)) : list tok :=
  K (Z.of_nat (length l)) :: flat_map (fun e => (r_key (fst (fst e)) ++ [K (r_kind (snd (fst e))); N (mant (snd e)) (expo (snd e))])%list) l.
Definition r_store (o : option store) (h : option hyp) : list tok :=
  match o with Some st => K 1 :: r_view (view st h) | None => [K 0] end%Z.

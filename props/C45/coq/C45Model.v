(* C45 -- executable Gallina model of the metadata exported by mfront for a declaration and read back through
   tfel::system::ExternalLibraryManager.  Definitions only.
   Anchors: mfront/src/VariableDescription.cxx (checkAndCompletePhysicalBoundsDeclaration, getExternalName),
   mfront/src/BehaviourData.cxx (checkAndCompletePhysicalBoundsDeclaration: which containers are completed),
   mfront/src/CodeGeneratorUtilities.cxx (writeVariablesNamesSymbol, writeVariablesBoundsSymbols, writeBoundsSymbols,
   writePhysicalBoundsSymbols, writeParametersSymbols), mfront/src/SymbolsGenerator.cxx (generateSymbols),
   src/System/ExternalLibraryManager.cxx (get*/has* and decomposeVariableName). *)
From Coq Require Import String List ZArith Bool Arith.
Import ListNotations.
Local Open Scope string_scope.

(* exact decimal number mant * 10^expo: the model never computes with bound values, it transports them *)
Record dec := mkDec { mant : Z; expo : Z }.

Inductive bnd := Lower (l : dec) | Upper (u : dec) | Both (l u : dec).

Inductive vtype := TScalar | TStensor | TVector | TTensor.

Definition type_code (t : vtype) : Z :=
  match t with TScalar => 0 | TStensor => 1 | TVector => 2 | TTensor => 3 end%Z.

Record var := mkVar {
  vname : string;
  vgloss : option string;      (* x.setGlossaryName("...") *)
  ventry : option string;      (* x.setEntryName("...") *)
  vty : vtype;
  vsize : nat;                 (* array size; 1 = not an array *)
  vbounds : option bnd;        (* @Bounds *)
  vphys : option bnd;          (* @PhysicalBounds *)
  vdefault : list dec          (* parameters: default value(s), one per array element *)
}.

(* one line of the glossary dump: physical bounds of entry gkey for unit system gsys *)
Record gentry := mkG { gkey : string; gsys : string; glow : option dec; gup : option dec }.
Definition glossary := list gentry.

Inductive kind := MaterialProperty | Behaviour.

(* tfel::material::ModellingHypothesis::Hypothesis, in the order of the enumeration *)
Inductive hyp := AGPStrain | AGPStress | Axisymmetrical | PlaneStress | PlaneStrain | GeneralisedPlaneStrain | Tridimensional.

Definition hyp_rank (h : hyp) : nat :=
  match h with AGPStrain => 0 | AGPStress => 1 | Axisymmetrical => 2 | PlaneStress => 3 | PlaneStrain => 4
          | GeneralisedPlaneStrain => 5 | Tridimensional => 6 end.

Definition all_hyps : list hyp :=
  [AGPStrain; AGPStress; Axisymmetrical; PlaneStress; PlaneStrain; GeneralisedPlaneStrain; Tridimensional].

Definition hyp_eqb (a b : hyp) : bool := Nat.eqb (hyp_rank a) (hyp_rank b).

Record decl := mkDecl {
  dkind : kind;
  dunit : option string;       (* @UnitSystem *)
  doutput : var;               (* material property *)
  dinputs : list var;          (* material property *)
  dmps : list var;             (* behaviour: @MaterialProperty *)
  dsvs : list var;             (* behaviour: @StateVariable *)
  dasvs : list var;            (* behaviour: @AuxiliaryStateVariable *)
  desvs : list var;            (* behaviour: @ExternalStateVariable *)
  dparams : list var;          (* @Parameter *)
  dhyps : list hyp             (* behaviour: @ModellingHypotheses *)
}.

(* the three places where the generator, as found, loses metadata (each is a finding of this property);
   false = repaired *)
Record variant := mkVariant {
  mp_phys_needs_bounds : bool;     (* writeVariablesBoundsSymbols: `continue` when an input has no @Bounds *)
  array_bounds_unreadable : bool;  (* "_mfront_index_<i>_" + "_LowerBound": name never looked up by the reader *)
  persistent_not_completed : bool  (* BehaviourData::checkAndComplete...: persistentVariables copies are skipped *)
}.
Definition repaired := mkVariant false false false.

(* ---------------------------------------------------------------- names *)
Definition ext_name (v : var) : string :=
  match vgloss v with
  | Some g => g
  | None => match ventry v with Some e => e | None => vname v end
  end.

(* ---------------------------------------------------------------- completion of physical bounds *)
Definition glookup (g : glossary) (k s : string) : option gentry :=
  find (fun e => String.eqb (gkey e) k && String.eqb (gsys e) s) g.

Definition entry_bounds (e : gentry) : option bnd :=
  match glow e, gup e with
  | Some l, Some u => Some (Both l u)
  | Some l, None => Some (Lower l)
  | None, Some u => Some (Upper u)
  | None, None => None
  end.

Definition complete (g : glossary) (unit : option string) (v : var) : option bnd :=
  match vphys v with
  | Some b => Some b                                   (* declared physical bounds win *)
  | None =>
      match unit, vgloss v with
      | Some s, Some k => match glookup g k s with Some e => entry_bounds e | None => None end
      | _, _ => None
      end
  end.

(* ---------------------------------------------------------------- exported metadata of one variable *)
Record vmeta := mkMeta {
  m_ext : string; m_code : Z; m_size : nat;
  m_bounds : option bnd; m_phys : option bnd;   (* as read back, for every element of an array variable *)
  m_def : list dec
}.

Definition hide_arrays (vr : variant) (v : var) (b : option bnd) : option bnd :=
  if array_bounds_unreadable vr && negb (Nat.eqb (vsize v) 1) then None else b.

(* completed = does the container the symbols are written from see the completion? *)
Definition meta (vr : variant) (g : glossary) (unit : option string) (completed : bool) (v : var) : vmeta :=
  mkMeta (ext_name v) (type_code (vty v)) (vsize v)
         (hide_arrays vr v (vbounds v))
         (hide_arrays vr v (if completed then complete g unit v else vphys v))
         (vdefault v).

(* input of a material property *)
Definition meta_input (vr : variant) (g : glossary) (unit : option string) (v : var) : vmeta :=
  let m := meta vr g unit true v in
  if mp_phys_needs_bounds vr then
    match vbounds v with
    | Some _ => m
    | None => mkMeta (m_ext m) (m_code m) (m_size m) (m_bounds m) None (m_def m)
    end
  else m.

(* ---------------------------------------------------------------- what the DSL adds *)
Definition temperature_var : var := mkVar "T" (Some "Temperature") None TScalar 1 None None [].

Definition builtin_parameters : list var :=
  [ mkVar "minimal_time_step_scaling_factor" None None TScalar 1 None None [mkDec 1 (-1)];
    mkVar "maximal_time_step_scaling_factor" None None TScalar 1 None None [mkDec 17976931348623 295] ].

Definition hyps_exported (l : list hyp) : list hyp :=
  filter (fun h => existsb (hyp_eqb h) l) all_hyps.      (* std::set<Hypothesis>: enumeration order, no duplicates *)

(* ---------------------------------------------------------------- the table *)
Record table := mkTable {
  t_kind : Z;                   (* <f>_mfront_mkt *)
  t_unit : string;              (* <f>_unit_system *)
  t_output : string;            (* material property *)
  t_args : list vmeta;          (* material property inputs *)
  t_hyps : list hyp;
  t_mps : list vmeta;
  t_isvs : list vmeta;          (* InternalStateVariables = state variables then auxiliary state variables *)
  t_esvs : list vmeta;          (* ExternalStateVariables, temperature removed *)
  t_temperature : option vmeta; (* behaviour: the removed temperature keeps its bounds symbols *)
  t_params : list vmeta
}.

Definition symbols (vr : variant) (g : glossary) (d : decl) : table :=
  let u := dunit d in
  let us := match u with Some s => s | None => "" end in
  match dkind d with
  | MaterialProperty =>
      mkTable 0 us (ext_name (doutput d)) (map (meta_input vr g u) (dinputs d)) [] [] [] []
              None
              (map (meta vr g u true) (dparams d))
  | Behaviour =>
      mkTable 1 us "" [] (hyps_exported (dhyps d))
              (map (meta vr g u true) (dmps d))
              (map (meta vr g u (negb (persistent_not_completed vr))) (dsvs d ++ dasvs d))
              (map (meta vr g u true) (desvs d))
              (Some (meta vr g u true temperature_var))
              (map (meta vr g u true) (dparams d ++ builtin_parameters))
  end.

(* names as exported: "ext" or "ext[0]" ... "ext[n-1]" -- kept as (ext, index) pairs, the bracket syntax is printing *)
Definition expand (m : vmeta) : list (string * option nat) :=
  if Nat.eqb (m_size m) 1 then [(m_ext m, None)] else map (fun i => (m_ext m, Some i)) (seq 0 (m_size m)).

Definition expanded_names (l : list vmeta) : list (string * option nat) := flat_map expand l.
Definition expanded_types (l : list vmeta) : list Z := flat_map (fun m => repeat (m_code m) (m_size m)) l.

(* ---------------------------------------------------------------- rendering for the comparison with the real code *)
Inductive tok := S (s : string) | K (n : Z) | N (m e : Z).

Definition r_bnd (b : option bnd) : list tok :=
  match b with
  | None => [K 0]
  | Some (Lower l) => [K 1; N (mant l) (expo l)]
  | Some (Upper u) => [K 2; N (mant u) (expo u)]
  | Some (Both l u) => [K 3; N (mant l) (expo l); N (mant u) (expo u)]
  end%Z.

Definition r_meta (m : vmeta) : list tok :=
  [S (m_ext m); K (m_code m); K (Z.of_nat (m_size m))] ++ r_bnd (m_bounds m) ++ r_bnd (m_phys m)
  ++ [K (Z.of_nat (length (m_def m)))] ++ map (fun x => N (mant x) (expo x)) (m_def m).

Definition r_list (l : list vmeta) : list tok := K (Z.of_nat (length l)) :: flat_map r_meta l.

Definition hyp_name (h : hyp) : string :=
  match h with
  | AGPStrain => "AxisymmetricalGeneralisedPlaneStrain" | AGPStress => "AxisymmetricalGeneralisedPlaneStress"
  | Axisymmetrical => "Axisymmetrical" | PlaneStress => "PlaneStress" | PlaneStrain => "PlaneStrain"
  | GeneralisedPlaneStrain => "GeneralisedPlaneStrain" | Tridimensional => "Tridimensional"
  end.

Definition render (t : table) : list tok :=
  [K (t_kind t); S (t_unit t); S (t_output t)] ++ r_list (t_args t)
  ++ [K (Z.of_nat (length (t_hyps t)))] ++ map (fun h => S (hyp_name h)) (t_hyps t)
  ++ r_list (t_mps t) ++ r_list (t_isvs t) ++ r_list (t_esvs t) ++ match t_temperature t with Some m => r_meta m | None => [] end ++ r_list (t_params t).

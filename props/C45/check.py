"""C45 -- exported library metadata matches the declarations.
Engine H + G: Gallina function `symbols : variant -> glossary -> decl -> table` (coq/C45Model.v) with theorems (names rule,
glossary-inheritance rule of checkAndCompletePhysicalBoundsDeclaration, bounds round-trip, array sizes, hypotheses);
tie = random declarations (material properties and Default-DSL behaviours) printed to .mfront, run through the mfront
built from the working tree (generic interfaces), the generated sources compiled into shared libraries, every piece of
metadata read back through the REAL tfel::system::ExternalLibraryManager (compiled from REPO sources into driver.cxx,
which dlopens the libraries) and through mfront-query, compared with an independent Python statement of the property and
with `symbols` evaluated by Coq (vm_compute) on the same declaration and the glossary dumped from the real code."""
import os, re, sys
from decimal import Decimal
from concurrent.futures import ThreadPoolExecutor
from vlib import guarded_main, REPO_BUILD, repo_lib_dirs
sys.path.insert(0, os.path.join(os.path.dirname(os.path.abspath(__file__)), "..", "C38"))
from mplib import MFrontSemaphore, mfront_exe, mfront_bounds

SRC = ["src/System/ExternalLibraryManager.cxx", "src/System/LibraryInformation.cxx", "src/System/getFunction.c",
       "src/Glossary/Glossary.cxx", "src/Glossary/GlossaryEntry.cxx", "src/Utilities/StringAlgorithms.cxx"]
K_D1 = "mp-input:physical-bounds-not-exported-without-bounds"
K_D2 = "array-variable:bounds-symbols-unreadable"
K_D3 = "state-variable:glossary-physical-bounds-not-exported"
K_D4 = "mfront-query:material-property-bounds-queries-answer-physical-bounds"
VALUES = ["-273.15", "-1", "-0.5", "0", "0.000123456789", "0.25", "0.5", "1", "1.23456789", "1.5", "2.5", "100", "293.15", "1234567.5"]
HYPS = ["AxisymmetricalGeneralisedPlaneStrain", "AxisymmetricalGeneralisedPlaneStress", "Axisymmetrical", "PlaneStress", "PlaneStrain",
        "GeneralisedPlaneStrain", "Tridimensional"]
HYP_COQ = dict(zip(HYPS, ["AGPStrain", "AGPStress", "Axisymmetrical", "PlaneStress", "PlaneStrain", "GeneralisedPlaneStrain", "Tridimensional"]))
USABLE_HYPS = ["AxisymmetricalGeneralisedPlaneStrain", "Axisymmetrical", "PlaneStrain", "GeneralisedPlaneStrain", "Tridimensional"]
TYPES = {"real": 0, "Stensor": 1, "TVector": 2, "Tensor": 3}
TYCOQ = {0: "TScalar", 1: "TStensor", 2: "TVector", 3: "TTensor"}
BUILTIN = [dict(name="minimal_time_step_scaling_factor", gloss=None, entry=None, ty="real", size=1, bounds=None, phys=None, default=["0.1"]),
           dict(name="maximal_time_step_scaling_factor", gloss=None, entry=None, ty="real", size=1, bounds=None, phys=None, default=["17976931348623e295"])]
TEMPERATURE = dict(name="T", gloss="Temperature", entry=None, ty="real", size=1, bounds=None, phys=None, default=[])


def unhx(h):
    return "" if h == "-" else bytes.fromhex(h).decode("latin-1")


# ----------------------------------------------------------------------------- glossary (dumped from the real code)
def parse_glossary(out):
    g = []
    for line in out.splitlines():
        t = line.split()
        if t and t[0] == "G":
            g.append(dict(key=unhx(t[1]), type=unhx(t[2]), sys=unhx(t[3]), low=unhx(t[5]) if t[4] == "L" else None, up=unhx(t[7]) if t[6] == "U" else None))
    return g


# ----------------------------------------------------------------------------- declarations (AST)
def eff_phys(G, unit, v):
    """independent statement of the inheritance rule: declared physical bounds win; otherwise, with a unit system and a
    glossary name, the bounds the glossary entry has for that unit system (lower only / upper only / both)"""
    if v["phys"]:
        return v["phys"]
    if unit is None or v["gloss"] is None:
        return None
    for e in G:
        if e["key"] == v["gloss"] and e["sys"] == unit:
            if e["low"] is not None and e["up"] is not None:
                return ("B", e["low"], e["up"])
            if e["low"] is not None:
                return ("L", e["low"], "0")
            if e["up"] is not None:
                return ("U", "0", e["up"])
            return None
    return None


def inside(vals, ph):
    if ph is None:
        return vals
    return [x for x in vals if (ph[0] == "U" or float(x) >= float(ph[1])) and (ph[0] == "L" or float(x) <= float(ph[2]))]


def pick_bounds(rng, ph, kinds="LUB"):
    """bounds contained in the (effective) physical bounds ph, with at least the sides ph has (mfront refuses otherwise)"""
    vals = inside(VALUES, ph)
    if len(vals) < 2:
        return None
    a, b = sorted(rng.sample(vals, 2), key=float)
    ok = {"L": "LB", "U": "UB", "B": "B"}[ph[0]] if ph else kinds
    k = rng.choice(ok)
    if ph and ph[0] == "U" and float(a) <= 0:
        k = "U"   # front-end quirk: an unset physical lower bound is numeric_limits<long double>::min() (see props/C38)
    return (k, a, b)


def rand_var(rng, G, unit, name, used, gloss_pool, ty="real", size=1, allow_bounds=True, default=False):
    v = dict(name=name, gloss=None, entry=None, ty=ty, size=size, bounds=None, phys=None, default=[])
    r = rng.random()
    if ty == "real" and r < 0.45 and gloss_pool:
        k = rng.choice(gloss_pool)
        if k not in used:
            v["gloss"] = k
            used.add(k)
    elif r < 0.75:
        v["entry"] = "E%s" % name
    if allow_bounds and ty == "real":
        r = rng.random()
        if r < 0.35:
            v["phys"] = pick_bounds(rng, None)
            if v["phys"] and v["phys"][0] == "L":
                v["phys"] = ("L", v["phys"][1], "0")
            if v["phys"] and v["phys"][0] == "U":
                v["phys"] = ("U", "0", v["phys"][2])
        if rng.random() < 0.55:
            v["bounds"] = pick_bounds(rng, eff_phys(G, unit, v))
    if default:
        v["default"] = [rng.choice(VALUES) for _ in range(size)]
    return v


def archetypes(G):
    two = [e["key"] for e in G if e["sys"] == "SI" and e["low"] is not None and e["up"] is not None and e["type"] == "scalar"]
    low = [e["key"] for e in G if e["sys"] == "SI" and e["low"] is not None and e["up"] is None and e["type"] == "scalar" and e["key"] != "Temperature"]
    t0, t1 = (two + [None, None])[:2]
    l0 = (low + [None])[0]
    V = lambda name, **kw: dict(dict(name=name, gloss=None, entry=None, ty="real", size=1, bounds=None, phys=None, default=[]), **kw)
    a = []
    # material property: inputs attached to two-sided / lower-only glossary entries, with and without @Bounds, declared physical
    # bounds without @Bounds (finding D1), entry names, a parameter
    a.append(dict(kind="MP", unit="SI", output=V("y", gloss=l0),
                  inputs=[V("T", gloss="Temperature"), V("f", gloss=t0), V("g", gloss=t1, bounds=("B", "0", "0.25")), V("x", entry="MyX", phys=("L", "0", "0")),
                          V("z", bounds=("B", "0", "1"), phys=("B", "-1", "2.5")), V("w", bounds=("U", "0", "100"))],
                  params=[V("a", entry="AA", default=["2.5"]), V("b", default=["1.23456789"])], mps=[], svs=[], asvs=[], esvs=[], hyps=[]))
    # the same declarations without a unit system: nothing is inherited
    a.append(dict(a[0], unit=None, inputs=[dict(v) for v in a[0]["inputs"]]))
    # behaviour: two-sided entries on a material property, a state variable (finding D3), a parameter; arrays with bounds (finding D2)
    a.append(dict(kind="B", unit="SI", output=None, inputs=[], hyps=["Tridimensional", "PlaneStrain"],
                  mps=[V("young", gloss=l0), V("nu", gloss=t1), V("mpa", entry="MyArr", size=3, bounds=("B", "0", "100"))],
                  svs=[V("f", gloss=t0), V("eel2", entry="MyStrain", ty="Stensor"), V("sa", size=2, phys=("L", "0", "0"))],
                  asvs=[V("aux", bounds=("U", "0", "2.5")), V("w", ty="Tensor")],
                  esvs=[V("flu", entry="Fluence", bounds=("B", "1.5", "100"))],
                  params=[V("p1", entry="PP1", bounds=("B", "0", "2.5"), default=["1.23456789"]), V("pa", size=2, default=["1.5", "2.5"])]))
    a.append(dict(a[2], unit=None, hyps=["GeneralisedPlaneStrain", "Axisymmetrical", "Tridimensional"]))
    return a


def gen_decl(rng, G, idx):
    unit = rng.choice(["SI", "SI", "SI", None])
    scal = sorted({e["key"] for e in G if e["type"] == "scalar"})
    with_b = sorted({e["key"] for e in G if e["type"] == "scalar" and (e["low"] is not None or e["up"] is not None)})
    pool = [k for k in (with_b * 3 + rng.sample(scal, min(len(scal), 12)))]
    used = set()
    if idx % 2 == 0:
        ni = rng.choice([1, 2, 3, 4])
        d = dict(kind="MP", unit=unit, output=rand_var(rng, G, unit, "y", used, pool, allow_bounds=False),
                 inputs=[rand_var(rng, G, unit, "x%d" % j, used, pool) for j in range(ni)],
                 params=[rand_var(rng, G, unit, "p%d" % j, used, pool, allow_bounds=False, default=True) for j in range(rng.choice([0, 1, 2]))],
                 mps=[], svs=[], asvs=[], esvs=[], hyps=[])
        return d
    pool = [k for k in pool if k != "Temperature"]
    used.add("Temperature")

    def some(prefix, n, types=("real",), arrays=True, default=False):
        out = []
        for j in range(n):
            ty = rng.choice(types)
            size = rng.choice([1, 1, 1, 2, 3]) if arrays and ty == "real" else 1
            out.append(rand_var(rng, G, unit, "%s%d" % (prefix, j), used, pool, ty=ty, size=size, default=default))
        return out
    hyps = rng.sample(USABLE_HYPS, rng.choice([1, 2, 3, 5]))
    return dict(kind="B", unit=unit, output=None, inputs=[], hyps=hyps,
                mps=some("m", rng.choice([0, 1, 2, 3])),
                svs=some("s", rng.choice([0, 1, 2, 3]), types=("real", "real", "Stensor", "Tensor", "TVector")),
                asvs=some("a", rng.choice([0, 1, 2]), types=("real", "real", "Stensor")),
                esvs=some("e", rng.choice([0, 1, 2])),
                params=some("p", rng.choice([0, 1, 2, 3]), default=True))


def var_text(kw, v):
    t = "%s %s %s%s" % (kw, v["ty"], v["name"], "[%d]" % v["size"] if v["size"] > 1 else "")
    if v["default"]:
        t += " = " + (v["default"][0] if v["size"] == 1 else "{" + ", ".join(v["default"]) + "}")
    t += ";\n"
    if v["gloss"]:
        t += '%s.setGlossaryName("%s");\n' % (v["name"], v["gloss"])
    if v["entry"]:
        t += '%s.setEntryName("%s");\n' % (v["name"], v["entry"])
    if v["phys"]:
        t += "@PhysicalBounds %s in %s;\n" % (v["name"], mfront_bounds(v["phys"]))
    if v["bounds"]:
        t += "@Bounds %s in %s;\n" % (v["name"], mfront_bounds(v["bounds"]))
    return t


def mfront_text(d):
    if d["kind"] == "MP":
        t = "@DSL MaterialProperty;\n@Law %s;\n" % d["name"]
        if d["unit"]:
            t += "@UnitSystem %s;\n" % d["unit"]
        t += var_text("@Output", d["output"])
        for v in d["inputs"]:
            t += var_text("@Input", v)
        for v in d["params"]:
            t += var_text("@Parameter", v)
        t += "@Function{\n  %s = %s;\n}\n" % (d["output"]["name"], " + ".join([v["name"] for v in d["inputs"] + d["params"]] + ["1"]))
        return t
    t = "@DSL Default;\n@Behaviour %s;\n" % d["name"]
    if d["unit"]:
        t += "@UnitSystem %s;\n" % d["unit"]
    t += "@ModellingHypotheses {%s};\n" % ", ".join(d["hyps"])
    for kw, l in (("@MaterialProperty", d["mps"]), ("@StateVariable", d["svs"]), ("@AuxiliaryStateVariable", d["asvs"]),
                  ("@ExternalStateVariable", d["esvs"]), ("@Parameter", d["params"])):
        for v in l:
            t += var_text(kw, v)
    t += "@Integrator{\n  static_cast<void>(smt);\n}\n"
    return t


# ----------------------------------------------------------------------------- independent statement: expected metadata
def fb(b):
    if b is None:
        return None
    return {"L": ("L", float(b[1])), "U": ("U", float(b[2])), "B": ("B", float(b[1]), float(b[2]))}[b[0]]


def ext_name(v):
    return v["gloss"] or v["entry"] or v["name"]


def expect_var(G, unit, v):
    return dict(ext=ext_name(v), code=TYPES[v["ty"]], size=v["size"], bounds=fb(v["bounds"]), phys=fb(eff_phys(G, unit, v)),
                default=[float(x) for x in v["default"]])


def expected(G, d):
    E = lambda l: [expect_var(G, d["unit"], v) for v in l]
    if d["kind"] == "MP":
        return dict(kind=0, unit=d["unit"] or "", output=ext_name(d["output"]), args=E(d["inputs"]), hyps=[], mps=[], isvs=[], esvs=[], temperature=None,
                    params=E(d["params"]))
    return dict(kind=1, unit=d["unit"] or "", output="", args=[], hyps=[h for h in HYPS if h in d["hyps"]], mps=E(d["mps"]),
                isvs=E(d["svs"] + d["asvs"]), esvs=E(d["esvs"]), temperature=expect_var(G, d["unit"], TEMPERATURE), params=E(d["params"] + BUILTIN))


def expanded(l):
    return [m["ext"] if m["size"] == 1 else "%s[%d]" % (m["ext"], i) for m in l for i in range(m["size"])]


# ----------------------------------------------------------------------------- queries through ExternalLibraryManager
def queries(d, exp):
    """(id, line) list; ids are (what, ...) tuples rendered as strings"""
    q = []
    L, f = d["lib"], d["name"]

    def add(tag, cmd, *a):
        q.append((tag, "%s %s %s %s" % (cmd, L, f, " ".join(a))))
    add("epts", "EPTS")
    add("mkt", "MKT")
    add("unit", "UNIT")
    if d["kind"] == "MP":
        add("out", "MPOUT")
        add("vars", "MPVARS")
        add("params", "MPPARAMS")
        add("ptypes", "TYPES", "-", "Parameters")
        for m in exp["args"]:
            add("b:args:" + m["ext"], "MPB", m["ext"])
        for m in exp["params"]:
            add("b:params:" + m["ext"], "MPB", m["ext"])
            add("def:" + m["ext"], "DEF", "-", m["ext"])
        return q
    add("hyps", "HYPS")
    for h in exp["hyps"]:
        for what in ("MaterialProperties", "InternalStateVariables", "ExternalStateVariables", "Parameters"):
            add("names:%s:%s" % (h, what), "NAMES", h, what)
            if what != "MaterialProperties":
                add("types:%s:%s" % (h, what), "TYPES", h, what)
        for cont in ("mps", "isvs", "esvs", "params"):
            for n in expanded(exp[cont]):
                add("b:%s:%s:%s" % (h, cont, n), "BB", h, n)
        add("b:%s:temperature:Temperature" % h, "BB", h, "Temperature")
        for n in expanded(exp["params"]):
            add("def:%s:%s" % (h, n), "DEF", h, n)
    return q


def pnum(s):
    v, exact = s.split(":")
    return float.fromhex(v)


def pbounds(t):
    """answer of MPB/BB -> (bounds, phys, consistent)"""
    def one(h, hl, l, hu, u):
        cons = (h == "1") == (hl == "1" or hu == "1")
        if hl == "1" and hu == "1":
            return ("B", pnum(l), pnum(u)), cons
        if hl == "1":
            return ("L", pnum(l)), cons
        if hu == "1":
            return ("U", pnum(u)), cons
        return None, cons
    b, c1 = one(*t[0:5])
    p, c2 = one(*t[5:10])
    return b, p, c1 and c2


def group(names, types, bget, dget):
    """observed expanded names -> variables (ext, code, size, bounds, phys, default)"""
    out = []
    i = 0
    while i < len(names):
        m = re.fullmatch(r"(.*)\[(\d+)\]", names[i])
        if not m:
            base, n = names[i], 1
        else:
            base, n = m.group(1), 0
            while i + n < len(names) and names[i + n] == "%s[%d]" % (base, n):
                n += 1
            if n == 0:
                base, n = names[i], 1
        mem = names[i:i + n]
        codes = set(types[i:i + n]) if types is not None else {0}
        bs = [bget(x) for x in mem]
        bnd = bs[0][0] if all(b[0] == bs[0][0] for b in bs) else ("MIXED", [b[0] for b in bs])
        ph = bs[0][1] if all(b[1] == bs[0][1] for b in bs) else ("MIXED", [b[1] for b in bs])
        df = [dget(x) for x in mem] if dget else []
        out.append(dict(ext=base, code=(sorted(codes)[0] if len(codes) == 1 else ("MIXED", sorted(codes))), size=n, bounds=bnd, phys=ph,
                        default=[x for x in df if x is not None], consistent=all(b[2] for b in bs)))
        i += n
    return out


def observe(d, exp, ans):
    """answers (tag -> token list | ('THROW', msg)) -> list of observed tables (one per hypothesis for behaviours)"""
    def A(tag):
        a = ans.get(tag)
        if a is None or (a and a[0] == "THROW"):
            raise LookupError("%s: %s" % (tag, "no answer" if a is None else unhx(a[1]) if len(a) > 1 else "exception"))
        return a

    def strs(a):
        return [unhx(x) for x in a[1:1 + int(a[0])]]

    def bget(prefix):
        def g(n):
            a = ans.get(prefix + n)
            if a is None or a[0] == "THROW":
                return (None, None, True) if a is None else (("THROW",), ("THROW",), True)
            return pbounds(a)
        return g

    def dget(prefix):
        def g(n):
            a = ans.get(prefix + n)
            return None if (a is None or a[0] == "THROW") else pnum(a[0])
        return g
    base = dict(kind=int(A("mkt")[0]), unit=unhx(A("unit")[0]), epts=strs(A("epts")))
    if d["kind"] == "MP":
        vs = A("vars")
        names = strs(vs[1:])
        pn = strs(A("params"))
        pt = [int(x) for x in A("ptypes")[1:]] if pn else []
        o = dict(base, output=unhx(A("out")[0]), nargs=int(vs[0]), args=group(names, None, bget("b:args:"), None), hyps=[], mps=[], isvs=[], esvs=[],
                 temperature=None, params=group(pn, pt, bget("b:params:"), dget("def:")), hyp=None)
        return [o]
    outs = []
    hyps = strs(A("hyps"))
    for h in exp["hyps"]:
        def cont(key, what, typed=True, defaults=False):
            names = strs(A("names:%s:%s" % (h, what)))
            types = [int(x) for x in A("types:%s:%s" % (h, what))[1:]] if typed else None
            if typed and len(types) != len(names):
                types = (types + [-1] * len(names))[:len(names)]
            return group(names, types, bget("b:%s:%s:" % (h, key)), dget("def:%s:" % h) if defaults else None)
        tb = bget("b:%s:temperature:" % h)("Temperature")
        outs.append(dict(base, output="", args=[], hyps=hyps, mps=cont("mps", "MaterialProperties", typed=False), isvs=cont("isvs", "InternalStateVariables"),
                         esvs=cont("esvs", "ExternalStateVariables"), params=cont("params", "Parameters", defaults=True), hyp=h,
                         temperature=dict(ext="Temperature", code=0, size=1, bounds=tb[0], phys=tb[1], default=[], consistent=tb[2])))
    return outs


def diff(exp, obs):
    """list of (container, index, field, expected, observed)"""
    out = []
    for k in ("kind", "unit", "output", "hyps"):
        if exp[k] != obs[k]:
            out.append((k, -1, k, exp[k], obs[k]))
    conts = [("args", exp["args"], obs["args"]), ("mps", exp["mps"], obs["mps"]), ("isvs", exp["isvs"], obs["isvs"]), ("esvs", exp["esvs"], obs["esvs"]),
             ("params", exp["params"], obs["params"])]
    if exp["temperature"] is not None:
        conts.append(("temperature", [exp["temperature"]], [obs["temperature"]]))
    for name, e, o in conts:
        if [(m["ext"], m["size"]) for m in e] != [(m["ext"], m["size"]) for m in o]:
            out.append((name, -1, "names", expanded(e), expanded(o)))
            continue
        for i, (a, b) in enumerate(zip(e, o)):
            for fld in ("code", "bounds", "phys", "default"):
                if a[fld] != b[fld] and not (name in ("args", "mps") and fld == "code"):
                    out.append((name, i, fld, a[fld], b[fld]))
            if not b.get("consistent", True):
                out.append((name, i, "has*Bounds consistent with has{Lower,Upper}*Bound", True, False))
    return out


def classify(d, dvars, m):
    """which known finding does a mismatch of the independent statement exhibit (None = none)"""
    name, i, fld, e, o = m
    if i < 0 or name == "temperature":
        return None
    v = dvars[name][i]
    if v["size"] > 1 and fld in ("bounds", "phys") and o is None:
        return K_D2
    if d["kind"] == "MP" and name == "args" and fld == "phys" and o is None and v["bounds"] is None:
        return K_D1
    if d["kind"] == "B" and name == "isvs" and fld == "phys" and o is None and v["phys"] is None and v["gloss"] and d["unit"]:
        return K_D3
    return None


# ----------------------------------------------------------------------------- Gallina terms and the model's answer
def cstr(s):
    return '"%s"' % s


def copt(x, f):
    return "None" if x is None else "(Some %s)" % f(x)


def cdec(s):
    t = Decimal(s).as_tuple()
    m = int("".join(map(str, t.digits))) * (-1 if t.sign else 1)
    return "(mkDec (%d) (%d))" % (m, t.exponent)


def cbnd(b):
    return {"L": lambda: "(Lower %s)" % cdec(b[1]), "U": lambda: "(Upper %s)" % cdec(b[2]), "B": lambda: "(Both %s %s)" % (cdec(b[1]), cdec(b[2]))}[b[0]]()


def cvar(v):
    return "(mkVar %s %s %s %s %d %s %s [%s])" % (cstr(v["name"]), copt(v["gloss"], cstr), copt(v["entry"], cstr), TYCOQ[TYPES[v["ty"]]], v["size"],
                                                  copt(v["bounds"], cbnd), copt(v["phys"], cbnd), "; ".join(cdec(x) for x in v["default"]))


def cdecl(d):
    L = lambda l: "[" + "; ".join(cvar(v) for v in l) + "]"
    out = d["output"] or dict(name="none", gloss=None, entry=None, ty="real", size=1, bounds=None, phys=None, default=[])
    return "(mkDecl %s %s %s %s %s %s %s %s %s [%s])" % ("MaterialProperty" if d["kind"] == "MP" else "Behaviour", copt(d["unit"], cstr), cvar(out), L(d["inputs"]),
                                                         L(d["mps"]), L(d["svs"]), L(d["asvs"]), L(d["esvs"]), L(d["params"]), "; ".join(HYP_COQ[h] for h in d["hyps"]))


def cgloss(G):
    return "[" + ";\n ".join("mkG %s %s %s %s" % (cstr(e["key"]), cstr(e["sys"]), copt(e["low"], cdec), copt(e["up"], cdec)) for e in G) + "]"


TOK = re.compile(r'S\s+"([^"]*)"|K\s+\(?(-?\d+)\)?|N\s+\(?(-?\d+)\)?\s+\(?(-?\d+)\)?')


def parse_table(text):
    toks = []
    for m in TOK.finditer(text):
        if m.group(1) is not None:
            toks.append(("S", m.group(1)))
        elif m.group(2) is not None:
            toks.append(("K", int(m.group(2))))
        else:
            toks.append(("N", float("%se%s" % (m.group(3), m.group(4)))))
    pos = [0]

    def nxt(kind):
        t = toks[pos[0]]
        pos[0] += 1
        if t[0] != kind:
            raise ValueError("model output: expected %s got %r at %d" % (kind, t, pos[0]))
        return t[1]

    def bnd():
        k = nxt("K")
        return [None, lambda: ("L", nxt("N")), lambda: ("U", nxt("N")), lambda: ("B", nxt("N"), nxt("N"))][k]() if k else None

    def meta():
        m = dict(ext=nxt("S"), code=nxt("K"), size=nxt("K"))
        m["bounds"] = bnd()
        m["phys"] = bnd()
        m["default"] = [nxt("N") for _ in range(nxt("K"))]
        return m

    def lst():
        return [meta() for _ in range(nxt("K"))]
    t = dict(kind=nxt("K"), unit=nxt("S"), output=nxt("S"))
    t["args"] = lst()
    t["hyps"] = [nxt("S") for _ in range(nxt("K"))]
    t["mps"] = lst()
    t["isvs"] = lst()
    t["esvs"] = lst()
    t["temperature"] = meta() if t["kind"] == 1 else None
    t["params"] = lst()
    if pos[0] != len(toks):
        raise ValueError("model output: %d tokens left" % (len(toks) - pos[0]))
    return t


# ----------------------------------------------------------------------------- mfront-query (front-end view of the same file)
def query_cmd(d, exp, as_found=False):
    """arguments and the expected lines for one mfront-query call (bounds queries only).  as_found: the material-property
    queries --has-bounds / --bounds-type / --bounds-value answer with the PHYSICAL bounds (finding D4).  For material
    properties the type/value of the bounds are asked only when the variable has both kinds of bounds (mfront-query aborts
    on the first failing query and would hide every other answer)."""
    args, lines = [], []
    if d["kind"] == "B":
        args.append("--modelling-hypothesis=" + exp["hyps"][0])
    allv = exp["args"] + exp["mps"] + exp["isvs"] + exp["esvs"] + exp["params"]
    for m in allv:
        for kind, b in (("bounds", m["bounds"]), ("physical-bounds", m["phys"])):
            ask = bool(b) and (d["kind"] == "B" or kind == "physical-bounds" or bool(m["phys"]))
            if as_found and kind == "bounds":
                b = m["phys"]
            args.append("--has-%s=%s" % (kind, m["ext"]))
            lines.append(("has-%s(%s)" % (kind, m["ext"]), "true" if b else "false"))
            if ask:
                args.append("--%s-type=%s" % (kind, m["ext"]))
                lines.append(("%s-type(%s)" % (kind, m["ext"]), {"L": "Lower", "U": "Upper", "B": "LowerAndUpper"}[b[0]]))
                args.append("--%s-value=%s" % (kind, m["ext"]))
                lines.append(("%s-value(%s)" % (kind, m["ext"]), b))
    return args, lines


LOGMSG = re.compile(r"checkAndCompletePhysicalBoundsDeclaration: (?:lower|upper) bound for variable '\w+' is (?:below|greater than) the lower bound of the associated "
                    r"glossary\s+entry \(\S+ [<>] \S+\)")


def query_mismatch(ql, got):
    for (what, want), g in zip(ql, got):
        if not (range_matches(g, want) if isinstance(want, tuple) else g.strip() == want):
            return "mfront-query %s = %r, declaration gives %r" % (what, g, want if not isinstance(want, tuple) else mfront_bounds_f(want))
    return None


def mfront_bounds_f(b):
    return {"L": "[%r:*[" % b[1], "U": "]*:%r]" % b[1]}[b[0]] if b[0] != "B" else "[%r:%r]" % (b[1], b[2])


def range_matches(txt, b):
    m = re.fullmatch(r"([\[\]])([^:]*):([^\[\]]*)([\[\]])", txt.strip())
    if not m:
        return False
    lo, hi = m.group(2), m.group(3)
    close = lambda s, x: abs(float(s) - x) <= 1e-5 * max(abs(x), 1e-300)   # printed with 6 significant digits
    if b[0] == "L":
        return hi == "*" and lo != "*" and close(lo, b[1])
    if b[0] == "U":
        return lo == "*" and hi != "*" and close(hi, b[1])
    return lo != "*" and hi != "*" and close(lo, b[1]) and close(hi, b[2])


# ----------------------------------------------------------------------------- main
def main(c):
    c.repo_build(["mfront", "mfront-query"])
    mfront = mfront_exe(c, REPO_BUILD)
    mquery = os.environ.get("VERIF_MFRONT_QUERY") or os.path.join(REPO_BUILD, "mfront-query", "src", "mfront-query")
    exe = c.cxx("driver", ["driver.cxx"], SRC, flags=["-DTFEL_ARCH64"], libs=["-ldl"])
    rc, out, err = c.run([exe, "glossary"])
    G = parse_glossary(out)
    if rc != 0 or not G:
        c.report("glossary-dump", "the glossary could not be dumped through its public API: " + err[-400:], {"stderr": err[-2000:]}, False)
        return
    nb = [e for e in G if e["low"] is not None or e["up"] is not None]
    c.log("glossary dumped: %d entries x unit systems, %d with physical bounds (%d two-sided)" % (len(G), len(nb), len([e for e in nb if e["low"] is not None and e["up"] is not None])))
    # ------------------------------------------------ declarations -> .mfront -> mfront -> shared libraries
    decls = archetypes(G)
    n = c.pick(14, 60)
    while len(decls) < n:
        decls.append(gen_decl(c.rng, G, len(decls)))
    for i, d in enumerate(decls):
        d["name"] = "C45%s%d" % ("M" if d["kind"] == "MP" else "B", i)
    gdir = os.path.join(c.work, "gen")
    os.makedirs(gdir, exist_ok=True)
    qanswers = {}
    with MFrontSemaphore() as sem:
        for d in decls:
            open(os.path.join(gdir, d["name"] + ".mfront"), "w").write(mfront_text(d))
            rc, out, err = c.run([mfront, "--interface=generic", d["name"] + ".mfront"], cwd=gdir, timeout=120)
            sem.runs += 1
            if rc != 0:
                c.report("mfront:" + d["name"] + ":" + str(c.seed), "mfront rejects a generated declaration: " + (out + err)[-500:],
                         {"mfront": mfront_text(d), "output": (out + err)[-2000:]}, True)
                d["failed"] = True
                continue
            qa, ql = query_cmd(d, expected(G, d))
            rc, out, err = c.run([mquery] + qa + [d["name"] + ".mfront"], cwd=gdir, timeout=120)
            # a warning of the completion (declared physical bounds wider than the glossary's) is logged on stdout without a newline
            qanswers[d["name"]] = (rc, [l for l in LOGMSG.sub("", out).splitlines() if l.strip()], err, ql, LOGMSG.search(out) is not None)
    decls = [d for d in decls if not d.get("failed")]
    c.log("mfront and mfront-query ran on %d declarations" % len(decls))
    inc = ["-I" + os.path.join(gdir, "include")]
    fl = c.cxx_flags() + ["-O0", "-fPIC"] + inc
    jobs = []
    for d in decls:
        srcs = [d["name"] + "-generic.cxx"] + ([d["name"] + ".cxx"] if d["kind"] == "B" else [])
        jobs += [(d, os.path.join(gdir, "src", s)) for s in srcs]
    with ThreadPoolExecutor(max_workers=4) as ex:
        objs = list(ex.map(lambda j: c._obj(j[1], fl), jobs))
    ldirs = repo_lib_dirs()
    for d in decls:
        d["lib"] = os.path.join(gdir, "lib%s.so" % d["name"])
        cmd = ["g++", "-shared", "-o", d["lib"]] + [o for (dd, s), o in zip(jobs, objs) if dd is d]
        if d["kind"] == "B":
            cmd += ["-L" + x for x in ldirs] + ["-lTFELMaterial", "-lTFELMath", "-lTFELUtilities", "-lTFELException"]
        rc, out, err = c.run(cmd)
        if rc != 0:
            raise RuntimeError("link of %s failed: %s" % (d["lib"], err[-1500:]))
    c.log("generated sources compiled into %d shared libraries" % len(decls))
    # ------------------------------------------------ ExternalLibraryManager queries
    lines, tags = [], []
    for di, d in enumerate(decls):
        d["exp"] = expected(G, d)
        for tag, line in queries(d, d["exp"]):
            tags.append((di, tag))
            lines.append("%d %s" % (len(lines), line))
    rc, out, err = c.run([exe, "query"], input="\n".join(lines) + "\n")
    ol = out.splitlines()
    if rc != 0 or len(ol) != len(lines):
        c.report("driver", "the ExternalLibraryManager driver failed (rc %d, %d answers for %d queries): %s" % (rc, len(ol), len(lines), err[-400:]),
                 {"stderr": err[-2000:]}, False)
        return
    answers = [dict() for _ in decls]
    for (di, tag), l in zip(tags, ol):
        answers[di][tag] = l.split()[1:]
    c.log("%d queries answered by ExternalLibraryManager" % len(lines))
    # ------------------------------------------------ (1) independent statement vs observation
    seen = {K_D1: [], K_D2: [], K_D3: []}
    nviol = 0
    for di, d in enumerate(decls):
        exp = d["exp"]
        d["dvars"] = dict(args=d["inputs"], mps=d["mps"], isvs=d["svs"] + d["asvs"], esvs=d["esvs"], params=d["params"] + (BUILTIN if d["kind"] == "B" else []))
        try:
            d["obs"] = observe(d, exp, answers[di])
        except LookupError as e:
            nviol += 1
            c.report("elm:%s:%d" % (d["name"], c.seed), "ExternalLibraryManager cannot read the metadata of the library generated from\n%s\n%s" % (mfront_text(d), e),
                     {"mfront": mfront_text(d), "error": str(e)}, True)
            d["obs"] = []
            continue
        d["unexplained"] = []
        for o in d["obs"]:
            if o["epts"] != [d["name"]] and sorted(o["epts"]) != sorted(d["name"] + "_" + h for h in exp["hyps"]):
                d["unexplained"].append(("epts", -1, "entry points", [d["name"]], o["epts"]))
            for m in diff(exp, o):
                k = classify(d, d["dvars"], m)
                if k:
                    seen[k].append((d, o, m))
                else:
                    d["unexplained"].append(m + (o["hyp"],))
        nvars = sum(len(exp[k]) for k in ("args", "mps", "isvs", "esvs", "params"))
        inherit = any(v["gloss"] and not v["phys"] and m["phys"] for k in ("args", "mps", "isvs", "esvs", "params") for v, m in zip(d["dvars"][k], exp[k]))
        c.count(max(1, len(d["obs"])), ("decl", mfront_text(d)), inherit or any(m["size"] > 1 for k in ("mps", "isvs", "esvs", "params") for m in exp[k]))
        if di % 5 == 0:
            c.sample({"declaration": mfront_text(d), "expected": {k: exp[k] for k in ("output", "hyps", "args", "mps", "isvs", "esvs", "params")},
                      "observed": [{k: o[k] for k in ("hyp", "output", "hyps", "args", "mps", "isvs", "esvs", "params")} for o in d["obs"][:1]], "variables": nvars})
        for m in d["unexplained"][:3]:
            nviol += 1
            name, i, fld, e, o = m[:5]
            who = "%s[%d] = %s" % (name, i, exp[name][i]["ext"]) if i >= 0 and name != "temperature" else name
            c.report("meta:%s:%s:%s:%d" % (d["name"], who, fld, c.seed),
                     "exported metadata differs from the declaration: %s, %s: declared %r, read back through ExternalLibraryManager %r%s\n%s" % (
                         who, fld, e, o, (" (hypothesis %s)" % m[5]) if len(m) > 5 and m[5] else "", mfront_text(d)),
                     {"mfront": mfront_text(d), "container": name, "index": i, "field": fld, "declared": repr(e), "read_back": repr(o), "library": d["lib"],
                      "how": "mfront --interface=generic on the file, compile src/*.cxx into a shared library, props/C45/driver.cxx query (header of the file)"}, True)
    texts = {K_D1: "a material-property input with physical bounds (declared or inherited from the glossary) and no @Bounds: the physical bounds are not exported",
             K_D2: "bounds / physical bounds of an array variable cannot be read back (symbols written as <f>_<name>_mfront_index_<i>__LowerBound, two underscores, "
                   "ExternalLibraryManager looks for <f>_<name>_mfront_index_<i>_LowerBound)",
             K_D3: "a state variable attached to a glossary entry with physical bounds (unit system declared, no @PhysicalBounds): the inherited bounds are not exported"}
    for k, l in seen.items():
        if l:
            d, o, m = l[0]
            name, i, fld, e, ob = m
            c.report(k, "%s.\n%s[%d] = %s, %s: declared/inherited %r, read back through ExternalLibraryManager %r (%d such variables in this run)\n%s" % (
                texts[k], name, i, d["exp"][name][i]["ext"], fld, e, ob, len(l), mfront_text(d)),
                {"mfront": mfront_text(d), "container": name, "index": i, "field": fld, "declared": repr(e), "read_back": repr(ob), "library": d["lib"],
                 "how": "mfront --interface=generic on the file, compile src/*.cxx into a shared library, props/C45/driver.cxx query (header of the file)"}, True)
    variant = (bool(seen[K_D1]), bool(seen[K_D2]), bool(seen[K_D3]))
    c.log("independent statement compared; findings observed (D1, D2, D3) = %s" % (variant,))
    # ------------------------------------------------ (2) mfront-query
    nq = 0
    d4 = []
    nlog = 0
    for d in decls:
        rc, got, err, ql, logged = qanswers[d["name"]]
        nlog += logged
        bad = None
        if rc != 0 or len(got) != len(ql):
            bad = "mfront-query failed or printed %d lines for %d queries (rc %d): %s" % (len(got), len(ql), rc, err[-300:])
        else:
            nq += len(ql)
            bad = query_mismatch(ql, got)
            if bad and d["kind"] == "MP" and query_mismatch(query_cmd(d, d["exp"], as_found=True)[1], got) is None:
                d4.append((d, bad))
                continue
        if bad:
            nviol += 1
            c.report("query:%s:%d" % (d["name"], c.seed), bad + "\n" + mfront_text(d), {"mfront": mfront_text(d), "queries": [w for w, _ in ql], "output": got}, True)
    if d4:
        d, bad = d4[0]
        c.report(K_D4, "mfront-query on a material property: --has-bounds / --bounds-type / --bounds-value answer with the PHYSICAL bounds of the variable "
                 "(a variable with @Bounds only: `false`, then an abort on --bounds-value).\n%s (%d such files in this run)\n%s" % (bad, len(d4), mfront_text(d)),
                 {"mfront": mfront_text(d), "queries": [w for w, _ in qanswers[d["name"]][3]], "output": qanswers[d["name"]][1],
                  "how": "mfront-query --has-bounds=<external name> --bounds-value=<external name> file.mfront"}, True)
    if nlog:
        c.notes.append("%d mfront-query outputs were prefixed by the warning of checkAndCompletePhysicalBoundsDeclaration, written to the log stream (stdout) without a "
                       "trailing newline, so that it is glued to the first answer (`... (-0.5 < 0)false`): stripped before the comparison" % nlog)
    c.log("%d mfront-query answers compared" % nq)
    # ------------------------------------------------ (3) the Gallina model on the same declarations, same glossary
    vr = "(mkVariant %s %s %s)" % tuple("true" if x else "false" for x in variant)
    cases = ("From Coq Require Import String List ZArith.\nFrom C45 Require Import C45Model.\nImport ListNotations.\nLocal Open Scope string_scope.\nLocal Open Scope Z_scope.\n"
             "Set Printing Width 100000.\nSet Printing Depth 1000000.\nDefinition G : glossary :=\n %s.\n" % cgloss(G))
    for d in decls:
        cases += "Eval vm_compute in (render (symbols %s G %s)).\n" % (vr, cdecl(d))
    rc, mo, me = c.coq_eval(["C45Model.v"], cases)
    parts = re.split(r"^\s*=\s", mo, flags=re.M)[1:]
    if rc != 0 or len(parts) != len(decls):
        c.report("model-eval", "the Gallina model could not be evaluated (%d results for %d declarations): %s" % (len(parts), len(decls), me[-600:]), {"stderr": me[-3000:]}, False)
        return
    nmodel = 0
    for d, part in zip(decls, parts):
        t = parse_table(part.split(": list tok")[0])
        t["hyps"] = list(t["hyps"])
        for o in d["obs"]:
            md = diff(t, o)
            if md and not d.get("unexplained"):
                nmodel += 1
                if nmodel <= 3:
                    name, i, fld, e, ob = md[0]
                    c.report("model:%s:%s:%d:%s:%d" % (d["name"], name, i, fld, c.seed),
                             "the Gallina model (variant %s) and the generated library disagree on %s[%d] %s: model %r, library %r\n%s" % (variant, name, i, fld, e, ob, mfront_text(d)),
                             {"mfront": mfront_text(d), "model": repr(t), "observed": repr(o)}, True)
    c.log("model evaluated by vm_compute on %d declarations (variant %s): %d disagreements" % (len(decls), variant, nmodel))
    # ------------------------------------------------ proofs
    files = ["C45Model.v", "C45Spec.v", "C45Proofs.v", "Properties_C45_common.v"]
    for flag, stem in zip(variant, ("D1", "D2", "D3")):
        files.append("Properties_C45_%s%s.v" % (stem, "_finding" if flag else ""))
    if not any(variant):
        files.append("Properties_C45_faithful.v")
    c.notes.append("theorem files used: " + ", ".join(f for f in files if f.startswith("Properties")))
    res = c.coq(files, timeout=600)
    if not res.ok:
        c.coq_failures(res)
    nmp = len([d for d in decls if d["kind"] == "MP"])
    c.coverage["rule"] = ("%d declarations (4 archetypes + random): %d material properties (generic interface: output, 1..6 inputs, 0..2 parameters) and %d Default-DSL behaviours "
                          "(generic interface: 0..3 material properties, state / auxiliary state / external state variables, parameters; scalars, Stensor, Tensor, TVector, "
                          "arrays of size 2..3; 1..5 modelling hypotheses in random order); glossary names drawn from the glossary dumped from the real code (all entries with "
                          "physical bounds), entry names, plain names; @UnitSystem SI or none; @Bounds / @PhysicalBounds lower / upper / two-sided with up to 10 significant "
                          "digits; every query of ExternalLibraryManager for every variable (every array element) under every declared hypothesis; non-trivial = a bound is "
                          "inherited from the glossary or an array variable is declared" % (len(decls), nmp, len(decls) - nmp))
    c.coverage["declarations"] = len(decls)
    c.coverage["elm_queries"] = len(lines)
    c.coverage["mfront_query_answers"] = nq
    c.trusted("props/C45/driver.cxx (calls ExternalLibraryManager and the glossary API, prints the answers)",
              "Python printers: declaration -> .mfront text and -> Gallina term; glossary dump -> Gallina list; parser of the tokens printed by Coq for `render (symbols ...)`",
              "g++ -O0 -fPIC of the generated sources, linked into one shared library per declaration; behaviours link the TFEL libraries of /repo/_build (built by repo_build)",
              "decimal -> double: Python float() of the declared decimal is compared with the long double read back converted to double")


guarded_main("C45", main, level="proof")

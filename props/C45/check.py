"""C45 -- exported library metadata matches the declarations.
Engine H + G: Gallina functions `symbols / symbols_at : variant -> glossary -> decl -> (hyp ->) table`, `accepts`, `set_param / load_file /
view` (coq/C45Model.v) with theorems (names rule, glossary-inheritance rule of checkAndCompletePhysicalBoundsDeclaration, bounds round-trip,
per-element bounds, hypothesis-specialised declarations, what the Implicit DSL and the StandardElasticity brick declare, setParameter /
parameters file = recompiling with those defaults, accepted declarations are exported faithfully);
tie = archetypes + random declarations (material properties; Default-DSL and Implicit-DSL behaviours) printed to .mfront, run through the
mfront built from the working tree (generic interfaces), the generated sources compiled into shared libraries, every piece of metadata read
back through the REAL tfel::system::ExternalLibraryManager (compiled from REPO sources into driver.cxx, which dlopens the libraries) and
through mfront-query; parameters set through ExternalLibraryManager::setParameter / parameter files and the generated code CALLED, compared
bit for bit with the library recompiled with those defaults; declarations mfront must refuse run through mfront; everything compared with
an independent Python statement and with the Gallina functions evaluated by Coq (vm_compute) on the same declaration and the glossary
dumped from the real code."""
import os, re, sys, copy, threading
from concurrent.futures import ThreadPoolExecutor
from vlib import guarded_main, REPO_BUILD, repo_lib_dirs
sys.path.insert(0, os.path.dirname(os.path.abspath(__file__)))
sys.path.insert(0, os.path.join(os.path.dirname(os.path.abspath(__file__)), "..", "C38"))
from mplib import MFrontSemaphore, mfront_exe, mfront_bounds
from c45decl import (HYPS, HYP_COQ, V, mfront_text, expected, expanded, elaborate, visible, ext_name, accepts_py, cdecl, cgloss, cvariant,
                     cdec, cstr, collapse)
from c45gen import archetypes, implicit_archetypes, probes, gen_decl, invalid_cases

SRC = ["src/System/ExternalLibraryManager.cxx", "src/System/LibraryInformation.cxx", "src/System/getFunction.c",
       "src/Glossary/Glossary.cxx", "src/Glossary/GlossaryEntry.cxx", "src/Utilities/StringAlgorithms.cxx"]
K_D1 = "mp-input:physical-bounds-not-exported-without-bounds"
K_D2 = "array-variable:bounds-symbols-unreadable"
K_D3 = "state-variable:glossary-physical-bounds-not-exported"
K_D4 = "mfront-query:material-property-bounds-queries-answer-physical-bounds"
K_E1 = "per-element-bounds:index-equal-to-array-size-accepted"
K_E2 = "material-property:external-name-equal-to-another-variable-name-accepted"
JOBS = max(1, int(os.environ.get("VERIF_JOBS", "4")))


def unhx(h):
    return "" if h == "-" else bytes.fromhex(h).decode("latin-1")


# ----------------------------------------------------------------------------- glossary (dumped from the real code)
def parse_glossary(out):
    g = []
    for line in out.splitlines():
        t = line.split()
        if t and t[0] == "G":
            g.append(dict(key=unhx(t[1]), type=unhx(t[2]), sys=unhx(t[3]), low=unhx(t[5]) if t[4] == "L" else None, up=unhx(t[7]) if t[6] == "U" else None))
    return g


# ----------------------------------------------------------------------------- queries through ExternalLibraryManager
def queries(d):
    """(tag, line) list for the metadata of one library; d["exp"] = {hypothesis or None: expected table}"""
    q = []
    L, f = d["lib"], d["name"]

    def add(tag, cmd, *a):
        q.append((tag, "%s %s %s %s" % (cmd, L, f, " ".join(a))))
    add("epts", "EPTS")
    add("mkt", "MKT")
    add("unit", "UNIT")
    if d["kind"] == "MP":
        exp = d["exp"][None]
        add("out", "MPOUT")
        add("vars", "MPVARS")
        add("params", "MPPARAMS")
        add("ptypes", "TYPES", "-", "Parameters")
        for m in exp["args"]:
            add("b:args:" + m["ext"], "MPB", m["ext"])
        for m in exp["params"]:
            add("b:params:" + m["ext"], "MPB", m["ext"])
            add("def:" + m["ext"], "DEF", "-", m["ext"])
        return q
    add("hyps", "HYPS")
    for h, exp in d["exp"].items():
        for what in ("MaterialProperties", "InternalStateVariables", "ExternalStateVariables", "Parameters"):
            add("names:%s:%s" % (h, what), "NAMES", h, what)
            if what != "MaterialProperties":
                add("types:%s:%s" % (h, what), "TYPES", h, what)
        for cont in ("mps", "isvs", "esvs", "params"):
            for n in expanded(exp[cont]):
                add("b:%s:%s:%s" % (h, cont, n), "BB", h, n)
        add("b:%s:temperature:Temperature" % h, "BB", h, "Temperature")
        for m in exp["params"]:
            for n in expanded([m]):
                add("def:%s:%s" % (h, n), {0: "DEF", 1: "DEFI", 2: "DEFU"}[m["code"]], h, n)
    return q


def pnum(s):
    v, exact = s.split(":")
    return float.fromhex(v)


def pbounds(t):
    """answer of MPB/BB -> (bounds, phys, consistent)"""
    def one(h, hl, l, hu, u):
        cons = (h == "1") == (hl == "1" or hu == "1")
        if hl == "1" and hu == "1":
            return ("B", pnum(l), pnum(u)), cons
        if hl == "1":
            return ("L", pnum(l)), cons
        if hu == "1":
            return ("U", pnum(u)), cons
        return None, cons
    b, c1 = one(*t[0:5])
    p, c2 = one(*t[5:10])
    return b, p, c1 and c2


def group(names, types, bget, dget):
    """observed expanded names -> variables (ext, code, size, bounds, phys, default)"""
    out = []
    i = 0
    while i < len(names):
        m = re.fullmatch(r"(.*)\[(\d+)\]", names[i])
        if not m:
            base, n = names[i], 1
        else:
            base, n = m.group(1), 0
            while i + n < len(names) and names[i + n] == "%s[%d]" % (base, n):
                n += 1
            if n == 0:
                base, n = names[i], 1
        mem = names[i:i + n]
        codes = set(types[i:i + n]) if types is not None else {0}
        bs = [bget(x) for x in mem]
        bnd = bs[0][0] if all(b[0] == bs[0][0] for b in bs) else ("MIXED", [b[0] for b in bs])
        ph = bs[0][1] if all(b[1] == bs[0][1] for b in bs) else ("MIXED", [b[1] for b in bs])
        df = [dget(x) for x in mem] if dget else []
        out.append(dict(ext=base, code=(sorted(codes)[0] if len(codes) == 1 else ("MIXED", sorted(codes))), size=n, bounds=bnd, phys=ph,
                        default=[x for x in df if x is not None], consistent=all(b[2] for b in bs)))
        i += n
    return out


def observe(d, ans):
    """answers (tag -> token list | ('THROW', msg)) -> {hypothesis or None: observed table}"""
    def A(tag):
        a = ans.get(tag)
        if a is None or (a and a[0] == "THROW"):
            raise LookupError("%s: %s" % (tag, "no answer" if a is None else unhx(a[1]) if len(a) > 1 else "exception"))
        return a

    def strs(a):
        return [unhx(x) for x in a[1:1 + int(a[0])]]

    def bget(prefix):
        def g(n):
            a = ans.get(prefix + n)
            if a is None or a[0] == "THROW":
                return (None, None, True) if a is None else (("THROW",), ("THROW",), True)
            return pbounds(a)
        return g

    def dget(prefix):
        def g(n):
            a = ans.get(prefix + n)
            return None if (a is None or a[0] == "THROW") else pnum(a[0])
        return g
    base = dict(kind=int(A("mkt")[0]), unit=unhx(A("unit")[0]), epts=strs(A("epts")))
    if d["kind"] == "MP":
        vs = A("vars")
        names = strs(vs[1:])
        pn = strs(A("params"))
        pt = [int(x) for x in A("ptypes")[1:]] if pn else []
        o = dict(base, output=unhx(A("out")[0]), nargs=int(vs[0]), args=group(names, None, bget("b:args:"), None), hyps=[], mps=[], isvs=[], esvs=[],
                 temperature=None, params=group(pn, pt, bget("b:params:"), dget("def:")), hyp=None)
        return {None: o}
    outs = {}
    hyps = strs(A("hyps"))
    for h in d["exp"]:
        def cont(key, what, typed=True, defaults=False):
            names = strs(A("names:%s:%s" % (h, what)))
            types = [int(x) for x in A("types:%s:%s" % (h, what))[1:]] if typed else None
            if typed and len(types) != len(names):
                types = (types + [-1] * len(names))[:len(names)]
            return group(names, types, bget("b:%s:%s:" % (h, key)), dget("def:%s:" % h) if defaults else None)
        tb = bget("b:%s:temperature:" % h)("Temperature")
        outs[h] = dict(base, output="", args=[], hyps=hyps, mps=cont("mps", "MaterialProperties", typed=False), isvs=cont("isvs", "InternalStateVariables"),
                       esvs=cont("esvs", "ExternalStateVariables"), params=cont("params", "Parameters", defaults=True), hyp=h,
                       temperature=dict(ext="Temperature", code=0, size=1, bounds=tb[0], phys=tb[1], default=[], consistent=tb[2]))
    return outs


def diff(exp, obs):
    """list of (container, index, field, expected, observed)"""
    out = []
    for k in ("kind", "unit", "output", "hyps"):
        if exp[k] != obs[k]:
            out.append((k, -1, k, exp[k], obs[k]))
    conts = [("args", exp["args"], obs["args"]), ("mps", exp["mps"], obs["mps"]), ("isvs", exp["isvs"], obs["isvs"]), ("esvs", exp["esvs"], obs["esvs"]),
             ("params", exp["params"], obs["params"])]
    if exp["temperature"] is not None:
        conts.append(("temperature", [exp["temperature"]], [obs["temperature"]]))
    for name, e, o in conts:
        if [(m["ext"], m["size"]) for m in e] != [(m["ext"], m["size"]) for m in o]:
            out.append((name, -1, "names", expanded(e), expanded(o)))
            continue
        for i, (a, b) in enumerate(zip(e, o)):
            for fld in ("code", "bounds", "phys", "default"):
                if a[fld] != b[fld] and not (name in ("args", "mps") and fld == "code"):
                    out.append((name, i, fld, a[fld], b[fld]))
            if not b.get("consistent", True):
                out.append((name, i, "has*Bounds consistent with has{Lower,Upper}*Bound", True, False))
    return out


def classify(d, exp, m):
    """which known finding does a mismatch of the independent statement exhibit (None = none)"""
    name, i, fld, e, o = m
    if i < 0 or name == "temperature":
        return None
    v = exp[name][i]["var"]
    if v["size"] > 1 and fld in ("bounds", "phys") and o is None:
        return K_D2
    if d["kind"] == "MP" and name == "args" and fld == "phys" and o is None and v["bounds"] is None:
        return K_D1
    if d["kind"] == "B" and name == "isvs" and fld == "phys" and o is None and v["phys"] is None and v["gloss"] and d["unit"]:
        return K_D3
    return None


TOK = re.compile(r'S\s+"([^"]*)"|K\s+\(?(-?\d+)\)?|N\s+\(?(-?\d+)\)?\s+\(?(-?\d+)\)?')


def tokens(text):
    toks = []
    for m in TOK.finditer(text):
        if m.group(1) is not None:
            toks.append(("S", m.group(1)))
        elif m.group(2) is not None:
            toks.append(("K", int(m.group(2))))
        else:
            toks.append(("N", float("%se%s" % (m.group(3), m.group(4)))))
    return toks


def parse_table(text):
    toks = tokens(text)
    pos = [0]

    def nxt(kind):
        t = toks[pos[0]]
        pos[0] += 1
        if t[0] != kind:
            raise ValueError("model output: expected %s got %r at %d" % (kind, t, pos[0]))
        return t[1]

    def bnd():
        k = nxt("K")
        return [None, lambda: ("L", nxt("N")), lambda: ("U", nxt("N")), lambda: ("B", nxt("N"), nxt("N"))][k]() if k else None

    def meta():
        m = dict(ext=nxt("S"), code=nxt("K"), size=nxt("K"))
        m["bounds"] = collapse([bnd() for _ in range(nxt("K"))] or [None])
        m["phys"] = collapse([bnd() for _ in range(nxt("K"))] or [None])
        m["default"] = [nxt("N") for _ in range(nxt("K"))]
        return m

    def lst():
        return [meta() for _ in range(nxt("K"))]
    t = dict(kind=nxt("K"), unit=nxt("S"), output=nxt("S"))
    t["args"] = lst()
    t["hyps"] = [nxt("S") for _ in range(nxt("K"))]
    t["mps"] = lst()
    t["isvs"] = lst()
    t["esvs"] = lst()
    t["temperature"] = meta() if t["kind"] == 1 else None
    t["params"] = lst()
    if pos[0] != len(toks):
        raise ValueError("model output: %d tokens left" % (len(toks) - pos[0]))
    return t


# ----------------------------------------------------------------------------- mfront-query (front-end view of the same file)
def query_cmd(d, exp, as_found=False):
    """arguments and the expected lines for one mfront-query call (bounds queries only).  as_found: the material-property
    queries --has-bounds / --bounds-type / --bounds-value answer with the PHYSICAL bounds (finding D4).  For material
    properties the type/value of the bounds are asked only when the variable has both kinds of bounds (mfront-query aborts
    on the first failing query and would hide every other answer)."""
    args, lines = [], []
    if d["kind"] == "B":
        args.append("--modelling-hypothesis=" + exp["hyps"][0])
    allv = exp["args"] + exp["mps"] + exp["isvs"] + exp["esvs"] + exp["params"]
    for m in allv:
        if isinstance(m["bounds"], tuple) and m["bounds"][0] == "MIXED":
            continue   # per-element bounds: mfront-query has no per-element query
        for kind, b in (("bounds", m["bounds"]), ("physical-bounds", m["phys"])):
            ask = bool(b) and (d["kind"] == "B" or kind == "physical-bounds" or bool(m["phys"]))
            if as_found and kind == "bounds":
                b = m["phys"]
            args.append("--has-%s=%s" % (kind, m["ext"]))
            lines.append(("has-%s(%s)" % (kind, m["ext"]), "true" if b else "false"))
            if ask:
                args.append("--%s-type=%s" % (kind, m["ext"]))
                lines.append(("%s-type(%s)" % (kind, m["ext"]), {"L": "Lower", "U": "Upper", "B": "LowerAndUpper"}[b[0]]))
                args.append("--%s-value=%s" % (kind, m["ext"]))
                lines.append(("%s-value(%s)" % (kind, m["ext"]), b))
    return args, lines


LOGMSG = re.compile(r"checkAndCompletePhysicalBoundsDeclaration: (?:lower|upper) bound for variable '\w+' is (?:below|greater than) the lower bound of the associated "
                    r"glossary\s+entry \(\S+ [<>] \S+\)")


def query_mismatch(ql, got):
    for (what, want), g in zip(ql, got):
        if not (range_matches(g, want) if isinstance(want, tuple) else g.strip() == want):
            return "mfront-query %s = %r, declaration gives %r" % (what, g, want if not isinstance(want, tuple) else mfront_bounds_f(want))
    return None


def mfront_bounds_f(b):
    return {"L": "[%r:*[" % b[1], "U": "]*:%r]" % b[1]}[b[0]] if b[0] != "B" else "[%r:%r]" % (b[1], b[2])


def range_matches(txt, b):
    m = re.fullmatch(r"([\[\]])([^:]*):([^\[\]]*)([\[\]])", txt.strip())
    if not m:
        return False
    lo, hi = m.group(2), m.group(3)
    close = lambda s, x: abs(float(s) - x) <= 1e-5 * max(abs(x), 1e-300)   # printed with 6 significant digits
    if b[0] == "L":
        return hi == "*" and lo != "*" and close(lo, b[1])
    if b[0] == "U":
        return lo == "*" and hi != "*" and close(hi, b[1])
    return lo != "*" and hi != "*" and close(lo, b[1]) and close(hi, b[2])




# ----------------------------------------------------------------------------- parameters: scenarios on the probes
NEWVALS = ["7.5", "0.125", "-2.5", "1234.5", "3.0517578125", "0.000244140625", "41.25", "-0.75", "9.0000001", "2.000000001"]


PREF = {"epsilon": "1e-10", "theta": "0.625", "iterMax": "17", "YoungModulus": "210e9", "PoissonRatio": "0.25"}


def recompilable(d, name):
    """can the default value of that parameter be edited in the source file (user parameters, @Epsilon / @Theta / @IterMax, constant
    elastic properties of the brick)"""
    base = pkey(name)[0]
    s = d.get("dsl")
    if any(ext_name(v) == base for v in d["params"]):
        return True
    return bool(s) and ((base == "epsilon" and s["eps"]) or (base == "theta" and s["theta"]) or (base == "iterMax" and s["itermax"])
                        or (base in ("YoungModulus", "PoissonRatio") and isinstance(s["brick"], tuple)))


def pkey(name):
    m = re.fullmatch(r"(.*)\[(\d+)\]", name)
    return (m.group(1), int(m.group(2))) if m else (name, None)


def ckey(k):
    return "(%s, %s)" % (cstr(k[0]), "None" if k[1] is None else "(Some %d%%nat)" % k[1])


def chyp(h):
    return "None" if h is None else "(Some %s)" % HYP_COQ[h]


def param_slots(d, h):
    """(external name with index, kind, default string, variable) of every parameter element visible under h, declaration order"""
    out = []
    for v in elaborate(d)["params"]:
        if h is None or visible(v, h):
            for i in range(v["size"]):
                out.append((ext_name(v) if v["size"] == 1 else "%s[%d]" % (ext_name(v), i), {"int": "I", "ushort": "U"}.get(v["ty"], "R"), v["default"][i], v))
    return out


def scenarios(d, rng):
    """list of (tag, files, steps); a step is ("set", h, kind, name, value, via) or ("call", h).  Every hypothesis is called once before
    the first set, so that every parameters singleton exists (and has read its file) when the values are changed."""
    hs = [None] if d["kind"] == "MP" else [h for h in HYPS if h in d["hyps"]]
    calls = [("call", h) for h in hs]
    nv = iter(NEWVALS * 4)
    sc = [("defaults", {}, list(calls))]
    # every parameter element read by the code, set through every hypothesis in turn
    steps = list(calls)
    for k, h in enumerate(hs):
        for name, kind, _, v in param_slots(d, h):
            if name in d["probe"]["reads"] and (k == 0 or v["hyps"]) and recompilable(d, name):
                steps.append(("set", h, kind, name, PREF.get(name) or next(nv), None))
    sc.append(("set-all", {}, steps + calls))
    # a shared parameter set through the LAST hypothesis is seen by all; names that must be refused
    h0, h1 = hs[0], hs[-1]
    shared = [s for s in param_slots(d, h1) if not s[3]["hyps"] and s[0] in d["probe"]["reads"]]
    steps = list(calls)
    if shared:
        steps.append(("set", h1, shared[0][1], shared[0][0], "0.0625" if shared[0][1] == "R" else "33", None))
    steps += [("set", h0, "R", "NoSuchParameter", "1.5", None), ("set", h0, "U", (shared or param_slots(d, h0))[0][0], "3", None) if (shared or param_slots(d, h0))[0][1] == "R"
              else ("set", h0, "R", shared[0][0], "3", None)]
    arr = [s for s in param_slots(d, h0) if s[3]["size"] > 1]
    if arr:
        base = ext_name(arr[0][3])
        steps += [("set", h0, "R", base, "1.5", None), ("set", h0, "R", "%s[%d]" % (base, arr[0][3]["size"]), "1.5", None)]
    only = [s for s in param_slots(d, h1) if s[3]["hyps"] and not any(x[0] == s[0] for x in param_slots(d, h0))]
    if only:
        steps += [("set", h0, "R", only[0][0], "1.5", None), ("set", h1, "R", only[0][0], "0.375", None)]
    al = [s for s in param_slots(d, h0) if s[3]["name"] != s[0] and s[3]["size"] == 1 and s[1] == "R"]
    if al:
        steps.append(("set", h0, "R", al[0][3]["name"], "11.5", None))    # the variable name: accepted by material properties only
    sc.append(("refusals", {}, steps + calls))
    # parameter files in the current directory
    files = {}
    cls = d["name"]
    sh = [s for s in param_slots(d, h0) if not s[3]["hyps"] and s[0] in d["probe"]["reads"] and s[1] == "R"]
    files["%s-parameters.txt" % cls] = [(None, s[0], next(nv)) for s in sh[::2]] or []
    if d["kind"] == "MP":
        al = [s for s in param_slots(d, None) if s[3]["name"] != s[0]]
        files["%s-parameters.txt" % cls] = [(None, s[0], next(nv)) for s in sh[1:2]] + [(None, al[0][3]["name"], "6.25")] if al else files["%s-parameters.txt" % cls]
    else:
        for h in hs:
            own = [s for s in param_slots(d, h) if s[3]["hyps"] and s[0] in d["probe"]["reads"]]
            if own:
                files["%s%s-parameters.txt" % (cls, h)] = [(h, own[0][0], next(nv))]
    steps = list(calls)
    if sh:
        steps.append(("set", h1, "R", sh[-1][0], next(nv), None))
    sc.append(("parameter-files", files, steps + calls))
    return sc


def recompiled(d, sets):
    """the declaration in which the default values were edited as the successful `set` steps do"""
    r = copy.deepcopy(d)
    s = r.get("dsl")
    for _, h, kind, name, val, _ in sets:
        base, idx = pkey(name)
        done = False
        for v in r["params"]:
            if ext_name(v) == base and (h is None or visible(v, h)) and (idx is None) == (v["size"] == 1):
                v["default"][idx or 0] = val
                done = True
                break
        if not done and s:
            if base == "epsilon" and s["eps"]:
                s["eps"] = val
            elif base == "theta" and s["theta"]:
                s["theta"] = val
            elif base == "iterMax" and s["itermax"]:
                s["itermax"] = val
            elif base in ("YoungModulus", "PoissonRatio") and isinstance(s["brick"], tuple):
                s["brick"] = ("const", val if base == "YoungModulus" else s["brick"][1], val if base == "PoissonRatio" else s["brick"][2])
            else:
                return None
        elif not done:
            return None
    return r


# ----------------------------------------------------------------------------- main
HOW = "mfront --interface=generic on the file, compile src/*.cxx into a shared library, props/C45/driver.cxx query (header of the file)"


def proof_files(variant):
    files = ["C45Model.v", "C45Spec.v", "C45Proofs.v", "Properties_C45_common.v"]
    for flag, stem in zip(variant, ("D1", "D2", "D3", "E1", "E2")):
        files.append("Properties_C45_%s%s.v" % (stem, "_finding" if flag else ""))
    if not any(variant):
        files.append("Properties_C45_faithful.v")
    return files


def main(c):
    c.repo_build(["mfront", "mfront-query"])
    mfront = mfront_exe(c, REPO_BUILD)
    mquery = os.environ.get("VERIF_MFRONT_QUERY") or os.path.join(REPO_BUILD, "mfront-query", "src", "mfront-query")
    exe = c.cxx("driver", ["driver.cxx"], SRC, flags=["-DTFEL_ARCH64"], libs=["-ldl"])
    rc, out, err = c.run([exe, "glossary"])
    G = parse_glossary(out)
    if rc != 0 or not G:
        c.report("glossary-dump", "the glossary could not be dumped through its public API: " + err[-400:], {"stderr": err[-2000:]}, False)
        return
    nb = [e for e in G if e["low"] is not None or e["up"] is not None]
    c.log("glossary dumped: %d entries x unit systems, %d with physical bounds (%d two-sided)" % (len(G), len(nb), len([e for e in nb if e["low"] is not None and e["up"] is not None])))
    # ------------------------------------------------ the Coq development is compiled while mfront and g++ work: the theorem files are guessed from
    # known_findings.json (a `_finding` file for a key listed as `finding`) and chosen again at the end from what was observed
    import json
    try:
        known = {e["key"] for e in json.load(open(os.path.join(c.dir, "known_findings.json"))) if e.get("status") == "finding"}
    except Exception:
        known = set()
    guess = tuple(k in known for k in (K_D1, K_D2, K_D3, K_E1, K_E2))
    POS = proof_files(guess)
    coqres = {}
    th = threading.Thread(target=lambda: coqres.update(res=c.coq(POS, timeout=900)))
    th.start()
    try:
        body(c, mfront, mquery, exe, G, th, coqres, POS)
    finally:
        th.join()


def body(c, mfront, mquery, exe, G, th, coqres, POS):
    # ------------------------------------------------ declarations -> .mfront -> mfront -> shared libraries
    decls = archetypes(G) + implicit_archetypes() + probes()
    n = c.pick(12, 60)
    k = 0
    while len(decls) < n:
        decls.append(gen_decl(c.rng, G, k))
        k += 1
    for i, d in enumerate(decls):
        d["name"] = "C45%s%d" % ("M" if d["kind"] == "MP" else "B", i)
    # the probes: scenarios, and the same declaration with the default values edited as the `set-all` scenario sets them
    for d in [x for x in decls if x.get("probe")]:
        d["scenarios"] = scenarios(d, c.rng)
        if d.get("dsl") and c.quick():
            continue    # the Implicit probe is recompiled in the thorough tier only
        sets = [s for s in d["scenarios"][1][2] if s[0] == "set"]
        r = recompiled(d, sets)
        if r is not None:
            r["name"] = d["name"] + "R"
            r.pop("scenarios", None)
            r["recompiled_from"] = d["name"]
            d["recompiled"] = r
            decls.append(r)
    gdir = os.path.join(c.work, "gen")
    os.makedirs(gdir, exist_ok=True)
    qanswers = {}
    for d in decls:
        d["exp"] = {None: expected(G, d)} if d["kind"] == "MP" else {h: expected(G, d, h) for h in HYPS if h in d["hyps"]}
        d["exp0"] = list(d["exp"].values())[0]
        open(os.path.join(gdir, d["name"] + ".mfront"), "w").write(mfront_text(d))
        rc, out, err = c.run([mfront, "--interface=generic", d["name"] + ".mfront"], cwd=gdir, timeout=120)
        if rc != 0:
            c.report("mfront:" + d["name"] + ":" + str(c.seed), "mfront rejects a generated declaration: " + (out + err)[-500:],
                     {"mfront": mfront_text(d), "output": (out + err)[-2000:]}, True)
            d["failed"] = True
            continue
        qa, ql = query_cmd(d, d["exp0"])
        rc, out, err = c.run([mquery] + qa + [d["name"] + ".mfront"], cwd=gdir, timeout=120)
        # a warning of the completion (declared physical bounds wider than the glossary's) is logged on stdout without a newline
        qanswers[d["name"]] = (rc, [l for l in LOGMSG.sub("", out).splitlines() if l.strip()], err, ql, LOGMSG.search(out) is not None)
    decls = [d for d in decls if not d.get("failed")]
    c.log("mfront and mfront-query ran on %d declarations" % len(decls))
    # ------------------------------------------------ declarations mfront must refuse: mfront only
    inv = invalid_cases(c.rng, G, c.pick(90, 400))
    idir = os.path.join(c.work, "inv")
    for i, (tag, d) in enumerate(inv):
        d["name"] = "C45I%d" % i
        wd = os.path.join(idir, str(i))
        os.makedirs(wd, exist_ok=True)
        open(os.path.join(wd, d["name"] + ".mfront"), "w").write(mfront_text(d))

    def run_inv(i):
        rc, out, err = c.run([mfront, "--interface=generic", inv[i][1]["name"] + ".mfront"], cwd=os.path.join(idir, str(i)), timeout=120)
        return rc, (out + err)
    with ThreadPoolExecutor(max_workers=max(1, JOBS - (1 if th.is_alive() else 0))) as ex:     # coqc runs in the background
        inv_rc = list(ex.map(run_inv, range(len(inv))))
    c.log("mfront ran on %d declarations to be judged by `accepts` (%d accepted)" % (len(inv), len([r for r in inv_rc if r[0] == 0])))
    # ------------------------------------------------ compilation
    inc = ["-I" + os.path.join(gdir, "include")]
    fl = c.cxx_flags() + ["-O0", "-fPIC"] + inc
    jobs = []
    for d in decls:
        srcs = [d["name"] + "-generic.cxx"] + ([d["name"] + ".cxx"] if d["kind"] == "B" else [])
        jobs += [(d, os.path.join(gdir, "src", s)) for s in srcs]
    with ThreadPoolExecutor(max_workers=max(1, JOBS - (1 if th.is_alive() else 0))) as ex:
        objs = list(ex.map(lambda j: c._obj(j[1], fl), jobs))
    ldirs = repo_lib_dirs()
    for d in decls:
        d["lib"] = os.path.join(gdir, "lib%s.so" % d["name"])
        cmd = ["g++", "-shared", "-o", d["lib"]] + [o for (dd, s), o in zip(jobs, objs) if dd is d]
        if d["kind"] == "B":
            cmd += ["-L" + x for x in ldirs] + ["-lTFELMaterial", "-lTFELMath", "-lTFELUtilities", "-lTFELException"]
        rc, out, err = c.run(cmd)
        if rc != 0:
            raise RuntimeError("link of %s failed: %s" % (d["lib"], err[-1500:]))
    c.log("generated sources compiled into %d shared libraries" % len(decls))
    # ------------------------------------------------ ExternalLibraryManager queries
    lines, tags = [], []
    for di, d in enumerate(decls):
        for tag, line in queries(d):
            tags.append((di, tag))
            lines.append("%d %s" % (len(lines), line))
    rc, out, err = c.run([exe, "query"], input="\n".join(lines) + "\n")
    ol = out.splitlines()
    if rc != 0 or len(ol) != len(lines):
        c.report("driver", "the ExternalLibraryManager driver failed (rc %d, %d answers for %d queries): %s" % (rc, len(ol), len(lines), err[-400:]),
                 {"stderr": err[-2000:]}, False)
        return
    answers = [dict() for _ in decls]
    for (di, tag), l in zip(tags, ol):
        answers[di][tag] = l.split()[1:]
    c.log("%d queries answered by ExternalLibraryManager" % len(lines))
    # ------------------------------------------------ (1) independent statement vs observation
    seen = {K_D1: [], K_D2: [], K_D3: []}
    for di, d in enumerate(decls):
        try:
            d["obs"] = observe(d, answers[di])
        except LookupError as e:
            c.report("elm:%s:%d" % (d["name"], c.seed), "ExternalLibraryManager cannot read the metadata of the library generated from\n%s\n%s" % (mfront_text(d), e),
                     {"mfront": mfront_text(d), "error": str(e)}, True)
            d["obs"] = {}
            continue
        d["unexplained"] = []
        for h, o in d["obs"].items():
            exp = d["exp"][h]
            if o["epts"] != [d["name"]] and sorted(o["epts"]) != sorted(d["name"] + "_" + x for x in exp["hyps"]):
                d["unexplained"].append(("epts", -1, "entry points", [d["name"]], o["epts"], h))
            for m in diff(exp, o):
                kf = classify(d, exp, m)
                if kf:
                    seen[kf].append((d, h, m))
                else:
                    d["unexplained"].append(m + (h,))
        exp = d["exp0"]
        nvars = sum(len(exp[k]) for k in ("args", "mps", "isvs", "esvs", "params"))
        allm = [m for e in d["exp"].values() for k in ("args", "mps", "isvs", "esvs", "params") for m in e[k]]
        nontrivial = any((m["var"]["gloss"] and not m["var"]["phys"] and m["phys"]) or m["size"] > 1 or m["var"]["hyps"] for m in allm) or bool(d.get("dsl"))
        c.count(max(1, len(d["obs"])), ("decl", mfront_text(d)), nontrivial)
        if di % 5 == 0:
            strip = lambda l: [{k: v for k, v in m.items() if k != "var"} for m in l]
            c.sample({"declaration": mfront_text(d), "hypothesis": list(d["exp"])[0],
                      "expected": {k: (strip(exp[k]) if isinstance(exp[k], list) and exp[k] and isinstance(exp[k][0], dict) else exp[k])
                                   for k in ("output", "hyps", "args", "mps", "isvs", "esvs", "params")},
                      "observed": [{k: o[k] for k in ("hyp", "output", "hyps", "args", "mps", "isvs", "esvs", "params")} for o in list(d["obs"].values())[:1]],
                      "variables": nvars})
        for m in d["unexplained"][:3]:
            name, i, fld, e, o, h = m
            who = "%s[%d] = %s" % (name, i, d["exp"][h][name][i]["ext"]) if i >= 0 and name != "temperature" else name
            c.report("meta:%s:%s:%s:%d" % (d["name"], who, fld, c.seed),
                     "exported metadata differs from the declaration: %s, %s: declared %r, read back through ExternalLibraryManager %r%s\n%s" % (
                         who, fld, e, o, (" (hypothesis %s)" % h) if h else "", mfront_text(d)),
                     {"mfront": mfront_text(d), "container": name, "index": i, "field": fld, "declared": repr(e), "read_back": repr(o), "library": d["lib"],
                      "hypothesis": h, "how": HOW}, True)
    texts = {K_D1: "a material-property input with physical bounds (declared or inherited from the glossary) and no @Bounds: the physical bounds are not exported",
             K_D2: "bounds / physical bounds of an array variable cannot be read back (symbols written as <f>_<name>_mfront_index_<i>__LowerBound, two underscores, "
                   "ExternalLibraryManager looks for <f>_<name>_mfront_index_<i>_LowerBound)",
             K_D3: "a state variable attached to a glossary entry with physical bounds (unit system declared, no @PhysicalBounds): the inherited bounds are not exported"}
    for kf, l in seen.items():
        if l:
            d, h, m = l[0]
            name, i, fld, e, ob = m
            c.report(kf, "%s.\n%s[%d] = %s, %s: declared/inherited %r, read back through ExternalLibraryManager %r (%d such variables in this run)\n%s" % (
                texts[kf], name, i, d["exp"][h][name][i]["ext"], fld, e, ob, len(l), mfront_text(d)),
                {"mfront": mfront_text(d), "container": name, "index": i, "field": fld, "declared": repr(e), "read_back": repr(ob), "library": d["lib"], "how": HOW}, True)
    # ------------------------------------------------ (2) declarations to be refused: independent statement, findings E1 / E2
    e_seen = {K_E1: [], K_E2: []}
    for (tag, d), (rc, msg) in zip(inv, inv_rc):
        a = accepts_py(G, d)
        d["py"] = a
        if a is None or a == (rc == 0):
            continue
        if not a and rc == 0 and accepts_py(G, d, off_by_one=True, mp_loose=True):
            e_seen[K_E2 if d["kind"] == "MP" else K_E1].append((tag, d))
            continue
        c.report("accepts:%s:%s:%d" % (tag, d["name"], c.seed),
                 "mfront %s a declaration that the rules of the front-end (as read from its sources) %s (%s)\n%s%s" % (
                     "accepts" if rc == 0 else "refuses", "refuse" if rc == 0 else "accept", tag, mfront_text(d), "" if rc == 0 else msg[-400:]),
                 {"mfront": mfront_text(d), "mfront_rc": rc, "output": msg[-1500:], "case": tag}, True)
    etext = {K_E1: "`@Bounds x[n] in ...` on an array of n elements (valid indices 0..n-1) is accepted by mfront (VariableDescription::setBounds tests `i > arraySize`); the "
                   "declaration is then silently dropped: no bounds symbol is exported and no check is generated",
             K_E2: "a material property in which the entry / glossary name of a variable is the NAME of another variable is accepted by mfront "
                   "(MaterialPropertyDescription::setEntryName / setGlossaryName only look at the other external names): two variables are exported under one name "
                   "(inputs: bounds queries by name are ambiguous; parameters: <law>_<name>_ParameterDefaultValue is defined twice and the generated code does not compile)"}
    for kf, l in e_seen.items():
        if l:
            tag, d = l[0]
            c.report(kf, "%s.\nmfront --interface=generic accepts (exit status 0, %d such declarations in this run, first case `%s`):\n%s" % (etext[kf], len(l), tag, mfront_text(d)),
                     {"mfront": mfront_text(d), "case": tag, "how": "mfront --interface=generic file.mfront; echo $?"}, True)
    variant = (bool(seen[K_D1]), bool(seen[K_D2]), bool(seen[K_D3]), bool(e_seen[K_E1]), bool(e_seen[K_E2]))
    c.log("independent statements compared; findings observed (D1, D2, D3, E1, E2) = %s" % (variant,))
    # ------------------------------------------------ (3) parameters: setParameter / parameter files / recompiled defaults
    byname = {d["name"]: d for d in decls}
    ncalls = 0
    for d in [x for x in decls if x.get("scenarios")]:
        rdir = os.path.join(c.work, "run", d["name"])
        for si, (tag, files, steps) in enumerate(d["scenarios"]):
            wd = os.path.join(rdir, str(si))
            os.makedirs(wd, exist_ok=True)
            for fn, l in files.items():
                open(os.path.join(wd, fn), "w").write("# written by props/C45/check.py\n" + "".join("%s %s\n" % (nme, val) for _, nme, val in l))
            ql = []
            for st in steps:
                if st[0] == "call":
                    ql.append("%d CALLMP %s %s - 1 %s" % (len(ql), d["lib"], d["name"], (2.0).hex()) if d["kind"] == "MP" else
                              "%d CALLB %s %s %s %d" % (len(ql), d["lib"], d["name"], st[1], nisv(d, st[1])))
                else:
                    _, h, kind, nme, val, _ = st
                    ql.append("%d SET%s %s %s %s %s %s" % (len(ql), kind, d["lib"], d["name"], h or "-", nme, float(val).hex() if kind == "R" else val))
            rc, out, err = c.run([exe, "query"], input="\n".join(ql) + "\n", cwd=wd)
            ol = [l.split()[1:] for l in out.splitlines()]
            if rc != 0 or len(ol) != len(ql):
                c.report("params:driver:%s:%s" % (d["name"], tag), "the driver failed on scenario %s (rc %d, %d answers for %d commands): %s\n%s" % (
                    tag, rc, len(ol), len(ql), err[-400:], mfront_text(d)), {"mfront": mfront_text(d), "commands": ql, "stderr": err[-2000:]}, False)
                ol = None
            d.setdefault("runs", []).append(ol)
            ncalls += len(ql)
        r = d.get("recompiled")
        if r and r["name"] in byname:
            hs = [None] if d["kind"] == "MP" else [h for h in HYPS if h in d["hyps"]]
            ql = [("%d CALLMP %s %s - 1 %s" % (i, r["lib"], r["name"], (2.0).hex()) if d["kind"] == "MP" else
                   "%d CALLB %s %s %s %d" % (i, r["lib"], r["name"], h, nisv(r, h))) for i, h in enumerate(hs)]
            wd = os.path.join(rdir, "recompiled")
            os.makedirs(wd, exist_ok=True)
            rc, out, err = c.run([exe, "query"], input="\n".join(ql) + "\n", cwd=wd)
            d["rerun"] = [l.split()[1:] for l in out.splitlines()] if rc == 0 else None
    c.log("%d parameter commands (setParameter / calls of the generated code) executed" % ncalls)
    # ------------------------------------------------ (4) mfront-query
    nq = 0
    d4 = []
    nlog = 0
    for d in decls:
        rc, got, err, ql, logged = qanswers[d["name"]]
        nlog += logged
        bad = None
        if rc != 0 or len(got) != len(ql):
            bad = "mfront-query failed or printed %d lines for %d queries (rc %d): %s" % (len(got), len(ql), rc, err[-300:])
        else:
            nq += len(ql)
            bad = query_mismatch(ql, got)
            if bad and d["kind"] == "MP" and query_mismatch(query_cmd(d, d["exp0"], as_found=True)[1], got) is None:
                d4.append((d, bad))
                continue
        if bad:
            c.report("query:%s:%d" % (d["name"], c.seed), bad + "\n" + mfront_text(d), {"mfront": mfront_text(d), "queries": [w for w, _ in ql], "output": got}, True)
    if d4:
        d, bad = d4[0]
        c.report(K_D4, "mfront-query on a material property: --has-bounds / --bounds-type / --bounds-value answer with the PHYSICAL bounds of the variable "
                 "(a variable with @Bounds only: `false`, then an abort on --bounds-value).\n%s (%d such files in this run)\n%s" % (bad, len(d4), mfront_text(d)),
                 {"mfront": mfront_text(d), "queries": [w for w, _ in qanswers[d["name"]][3]], "output": qanswers[d["name"]][1],
                  "how": "mfront-query --has-bounds=<external name> --bounds-value=<external name> file.mfront"}, True)
    if nlog:
        c.notes.append("%d mfront-query outputs were prefixed by the warning of checkAndCompletePhysicalBoundsDeclaration, written to the log stream (stdout) without a "
                       "trailing newline, so that it is glued to the first answer (`... (-0.5 < 0)false`): stripped before the comparison" % nlog)
    c.log("%d mfront-query answers compared" % nq)
    # ------------------------------------------------ (5) the Gallina model on the same declarations, same glossary
    th.join()
    model_compare(c, G, decls, inv, inv_rc, variant)
    # ------------------------------------------------ proofs
    res = coqres.get("res")
    files = proof_files(variant)
    if res is None or files != POS:
        c.coverage["obligations"] = 0
        c.coverage["discharged"] = 0
        res = c.coq(files, timeout=900)
    c.notes.append("theorem files used: " + ", ".join(f for f in files if f.startswith("Properties")))
    if not res.ok:
        c.coq_failures(res)
    nmp = len([d for d in decls if d["kind"] == "MP"])
    nimp = len([d for d in decls if d.get("dsl")])
    c.coverage["rule"] = ("%d declarations (4 archetypes + 2 Implicit-DSL archetypes + 2 parameter probes and their recompiled twins + random): %d material properties (generic "
                          "interface: output, 1..6 inputs, 0..3 parameters) and %d behaviours (generic interface; %d with `@DSL Implicit`, with / without `@Brick StandardElasticity`, "
                          "constant or material-property elastic coefficients, @Epsilon / @Theta / @IterMax; the others Default DSL: 0..4 material properties, state / "
                          "auxiliary state / external state variables, parameters; scalars, Stensor, Tensor, TVector, arrays of size 2..3 with whole or per-element @Bounds; "
                          "variables and parameters specialised to a subset of the hypotheses, one name with two default values; 1..5 modelling hypotheses in random order); "
                          "glossary names drawn from the glossary dumped from the real code (all entries with physical bounds), entry names, plain names; @UnitSystem SI or none; "
                          "@Bounds / @PhysicalBounds lower / upper / two-sided with up to 10 significant digits; every query of ExternalLibraryManager for every variable (every "
                          "array element) under every declared hypothesis; parameters set through ExternalLibraryManager::setParameter (double and unsigned short overloads, every "
                          "hypothesis), parameter files, refused names, and the generated code called; %d declarations judged by `accepts` (mfront run, no compilation); "
                          "non-trivial = a bound is inherited from the glossary, an array or hypothesis-specialised variable is declared, or the DSL adds declarations" % (
                              len(decls), nmp, len(decls) - nmp, nimp, len(inv)))
    c.coverage["declarations"] = len(decls)
    c.coverage["elm_queries"] = len(lines)
    c.coverage["parameter_commands"] = ncalls
    c.coverage["accepts_cases"] = len(inv)
    c.coverage["mfront_query_answers"] = nq
    c.trusted("props/C45/driver.cxx (calls ExternalLibraryManager and the glossary API, prints the answers; calls the generated behaviour on a zero state)",
              "Python printers: declaration -> .mfront text and -> Gallina term; glossary dump -> Gallina list; parser of the tokens printed by Coq for `render`, `r_view`, `accepts`",
              "g++ -O0 -fPIC of the generated sources, linked into one shared library per declaration; behaviours link the TFEL libraries of /repo/_build (built by repo_build)",
              "decimal -> double: Python float() of the declared decimal is compared with the long double read back converted to double")


def nisv(d, h):
    """number of doubles of the internal state variables up to the end of the probe's output array"""
    ssize = {"Tridimensional": 6}.get(h, 4)
    e = elaborate(d)
    n = 0
    for v in e["svs"] + e["asvs"]:
        if visible(v, h):
            n += v["size"] * {"real": 1, "Stensor": ssize}[v["ty"]]
    return n


# ----------------------------------------------------------------------------- the Gallina functions on the same inputs
class PyStore:
    """independent Python statement of the run-time parameters: one member per parameter, shared by every hypothesis unless the
    parameter was declared for some hypotheses only; material properties accept the variable name as well as the external name"""

    def __init__(self, d):
        self.mp = d["kind"] == "MP"
        self.slots = [dict(owner=v["hyps"], name=ext_name(v), alias=v["name"] if self.mp else None, kind={"int": "I", "ushort": "U"}.get(v["ty"], "R"),
                           vals=list(v["default"])) for v in elaborate(d)["params"]]

    def set(self, h, kind, name, val):
        base, idx = pkey(name)
        for s in self.slots:
            if (s["owner"] and h not in s["owner"]) or s["kind"] != kind:
                continue
            n = len(s["vals"])
            if (s["name"] == base and ((idx is None and n == 1) or (idx is not None and n != 1 and idx < n))) or (s["alias"] == base and idx is None and n == 1):
                s["vals"][idx or 0] = val
                return True
        return False

    def view(self, h):
        out = {}
        for s in self.slots:
            if not s["owner"] or h in s["owner"]:
                for i, x in enumerate(s["vals"]):
                    out[(s["name"], None if len(s["vals"]) == 1 else i)] = float(x)
        return out


def model_compare(c, G, decls, inv, inv_rc, variant):
    KIND = {"R": "KReal", "I": "KInt", "U": "KUShort"}
    cases = ("From Coq Require Import String List ZArith.\nFrom C45 Require Import C45Model.\nImport ListNotations.\nLocal Open Scope string_scope.\nLocal Open Scope Z_scope.\n"
             "Set Printing Width 100000.\nSet Printing Depth 1000000.\nDefinition G : glossary :=\n %s.\nDefinition vr := %s.\n" % (cgloss(G), cvariant(variant)))
    handlers = []    # one per Eval, in order
    nmodel = [0]

    def report_model(key, what, replay):
        nmodel[0] += 1
        if nmodel[0] <= 4:
            c.report(key, what, replay, True)
    for di, d in enumerate(decls):
        cases += "Definition d%d := %s.\n" % (di, cdecl(d))
        cases += "Eval vm_compute in (accepts vr G d%d).\n" % di

        def h_acc(part, d=d):
            if "true" not in part.split(":")[0]:
                report_model("model:accepts:%s:%d" % (d["name"], c.seed), "mfront accepts a declaration that the Gallina `accepts` (variant %s) refuses\n%s" % (variant, mfront_text(d)),
                             {"mfront": mfront_text(d), "model": part[:200]})
        handlers.append(h_acc)
        for h in d["exp"]:
            cases += "Eval vm_compute in (render (%s)).\n" % ("symbols vr G d%d" % di if h is None else "symbols_at vr G d%d %s" % (di, HYP_COQ[h]))

            def h_tab(part, d=d, h=h):
                t = parse_table(part.split(": list tok")[0])
                o = d.get("obs", {}).get(h)
                if o is None or d.get("unexplained"):
                    return
                md = diff(t, o)
                if md:
                    name, i, fld, e, ob = md[0]
                    report_model("model:%s:%s:%d:%s:%d" % (d["name"], name, i, fld, c.seed),
                                 "the Gallina model (variant %s) and the generated library disagree on %s[%d] %s%s: model %r, library %r\n%s" % (
                                     variant, name, i, fld, " (hypothesis %s)" % h if h else "", e, ob, mfront_text(d)),
                                 {"mfront": mfront_text(d), "model": repr(t), "observed": repr(o), "hypothesis": h})
            handlers.append(h_tab)
    # declarations to be judged
    for i, ((tag, d), (rc, msg)) in enumerate(zip(inv, inv_rc)):
        if d["py"] is None:
            continue
        cases += "Eval vm_compute in (accepts vr G %s).\n" % cdecl(d)

        def h_inv(part, d=d, rc=rc, tag=tag, msg=msg):
            a = "true" in part.split(":")[0]
            if a != (rc == 0):
                report_model("model:accepts:%s:%s:%d" % (tag, d["name"], c.seed),
                             "mfront %s a declaration (%s) that the Gallina `accepts` (variant %s) %s\n%s%s" % (
                                 "accepts" if rc == 0 else "refuses", tag, variant, "accepts" if a else "refuses", mfront_text(d), "" if rc == 0 else msg[-300:]),
                             {"mfront": mfront_text(d), "mfront_rc": rc, "case": tag})
        handlers.append(h_inv)
    # parameters
    nsteps = [0]
    for di, d in enumerate(decls):
        if not d.get("scenarios") or not d.get("runs"):
            continue
        reads = d["probe"]["reads"]
        cases += "Definition P%d := params_of d%d.\n" % (di, di)
        for si, ((tag, files, steps), ol) in enumerate(zip(d["scenarios"], d["runs"])):
            if ol is None:
                continue
            st = "st_%d_%d_" % (di, si)
            cases += "Definition %s0 := store_of (is_mp d%d) P%d.\n" % (st, di, di)
            k = 0
            py = PyStore(d)
            for fn, l in sorted(files.items(), key=lambda f: len(f[0])):     # the file of the class first
                cl = "[" + "; ".join("(KReal, %s, %s)" % (ckey(pkey(nme)), cdec(val)) for _, nme, val in l) + "]"
                hf = l[0][0] if l else None
                cases += "Definition %s%d := match load_file %s%d %s %s with Some s => s | None => %s%d end.\n" % (st, k + 1, st, k, chyp(hf), cl, st, k)
                k += 1
                for h, nme, val in l:
                    py.set(h if h else "-shared-", "R", nme, val)
            for step, ans in zip(steps, ol):
                nsteps[0] += 1
                if step[0] == "set":
                    _, h, kind, nme, val, _ = step
                    call = "set_param %s%d %s %s %s %s" % (st, k, chyp(h), KIND[kind], ckey(pkey(nme)), cdec(val))
                    cases += "Eval vm_compute in (match %s with Some _ => true | None => false end).\n" % call
                    cases += "Definition %s%d := match %s with Some s => s | None => %s%d end.\n" % (st, k + 1, call, st, k)
                    k += 1
                    okpy = py.set(h, kind, nme, val)

                    def h_set(part, d=d, step=step, ans=ans, okpy=okpy, tag=tag):
                        a = "true" in part.split(":")[0]
                        ok = bool(ans) and ans[0] == "OK"
                        if a != ok or okpy != ok:
                            report_model("params:set:%s:%s:%s:%s" % (d["name"], tag, step[1], step[3]),
                                         "ExternalLibraryManager::setParameter(%s, %r, %s%s) %s; the Gallina `set_param` %s, the Python statement %s\n%s" % (
                                             step[1] or "-", step[3], step[4], {"R": "", "U": " as unsigned short", "I": " as int"}[step[2]],
                                             "succeeds" if ok else "fails (%s)" % (unhx(ans[1]) if ans and len(ans) > 1 else "?")[:160],
                                             "succeeds" if a else "fails", "succeeds" if okpy else "fails", mfront_text(d)),
                                         {"mfront": mfront_text(d), "scenario": tag, "step": repr(step), "library": d["lib"]})
                    handlers.append(h_set)
                else:
                    h = step[1]
                    cases += "Eval vm_compute in (r_view (view %s%d %s)).\n" % (st, k, chyp(h))
                    pv = py.view(h if h else "-shared-")

                    def h_call(part, d=d, h=h, ans=ans, pv=pv, tag=tag, reads=reads):
                        toks = tokens(part.split(": list tok")[0])
                        view = {}
                        for i in range(1, len(toks) - 2, 4):
                            view[(toks[i][1], None if toks[i + 1][1] < 0 else toks[i + 1][1])] = toks[i + 3][1]
                        want_m = [view.get(pkey(r)) for r in reads]
                        want_p = [pv.get(pkey(r)) for r in reads]
                        if d["kind"] == "MP":
                            got = [float.fromhex(ans[1].split(":")[0])] if ans and ans[0] == "0" else None
                            f = lambda w: None if None in w else [(w[0] + 3 * w[1]) * 2.0 + w[2]]
                            want_m, want_p = f(want_m), f(want_p)
                            same = lambda a, b: a is not None and b is not None and all(abs(x - y) <= 4e-16 * max(abs(x), abs(y)) for x, y in zip(a, b))
                        else:
                            n = len(reads)
                            got = [float.fromhex(x.split(":")[0]) for x in ans[1:]][-n:] if ans and ans[0] == "1" and len(ans) > n else None
                            same = lambda a, b: a is not None and b is not None and a == b
                        d.setdefault("outputs", {})[(tag, h, len(d.get("outputs", {})))] = got
                        if not same(got, want_m) or not same(got, want_p):
                            report_model("params:call:%s:%s:%s" % (d["name"], tag, h),
                                         "scenario `%s`: the generated code%s computes with the parameters %r = %r; the Gallina `view` gives %r, the Python statement %r\n"
                                         "(driver answer %r)\n%s" % (tag, " under " + h if h else "", reads, got, want_m, want_p, ans[:12] if ans else ans, mfront_text(d)),
                                         {"mfront": mfront_text(d), "scenario": tag, "steps": repr(d["scenarios"]), "library": d["lib"]})
                    handlers.append(h_call)
    rc, mo, me = c.coq_eval(["C45Model.v"], cases)
    parts = re.split(r"^\s*=\s", mo, flags=re.M)[1:]
    if rc != 0 or len(parts) != len(handlers):
        c.report("model-eval", "the Gallina model could not be evaluated (%d results for %d evaluations): %s" % (len(parts), len(handlers), me[-600:]), {"stderr": me[-3000:]}, False)
        return
    for hd, part in zip(handlers, parts):
        hd(part)
    # recompiling with those defaults: bit for bit
    nrec = 0
    for d in decls:
        if d.get("rerun") is None or not d.get("outputs"):
            continue
        hs = [None] if d["kind"] == "MP" else [h for h in HYPS if h in d["hyps"]]
        final = {}
        for (tag, h, _), got in d["outputs"].items():
            if tag == "set-all":
                final[h] = got      # the last call of the scenario under h
        eps_set = any(s[0] == "set" and s[3] == "epsilon" for s in d["scenarios"][1][2])
        for h, ans in zip(hs, d["rerun"]):
            n = len(d["probe"]["reads"])
            if d["kind"] == "MP":
                got = [float.fromhex(ans[1].split(":")[0])] if ans and ans[0] == "0" else None
                a, b = final.get(h), got
            else:
                got = [float.fromhex(x.split(":")[0]) for x in ans[1:]][-n:] if ans and ans[0] == "1" else None
                keep = [i for i, r in enumerate(d["probe"]["reads"]) if not (eps_set and r == "numerical_jacobian_epsilon")]
                a = [final[h][i] for i in keep] if final.get(h) else None
                b = [got[i] for i in keep] if got else None
            nrec += 1
            if a is None or b is None or [x.hex() for x in a] != [x.hex() for x in b]:
                c.report("params:recompiled:%s:%s" % (d["name"], h),
                         "changing the parameters through setParameter does not give the results of the library recompiled with those defaults%s: after setParameter %r, "
                         "recompiled %r (parameters read: %r)\n--- original\n%s--- recompiled\n%s" % (
                             " under " + h if h else "", a, b, d["probe"]["reads"], mfront_text(d), mfront_text(d["recompiled"])),
                         {"mfront": mfront_text(d), "recompiled": mfront_text(d["recompiled"]), "steps": repr(d["scenarios"][1][2])}, True)
    c.coverage["recompiled_comparisons"] = nrec
    c.log("model evaluated by vm_compute: %d evaluations (tables under every hypothesis, `accepts` on %d + %d declarations, %d parameter steps), variant %s: %d disagreements; "
          "%d bit-for-bit comparisons with recompiled libraries" % (len(handlers), len(decls), len(inv), nsteps[0], variant, nmodel[0], nrec))


guarded_main("C45", main, level="proof")

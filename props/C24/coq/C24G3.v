(* C24 -- thorough tier: geometric part of LogarithmicStrainHandler<3u>::convertTangentModuli for ANY tensors M_ij (general eigenvectors,
   both settings), leaves with three distinct and three equal eigenvalues. *)
From Coq Require Import Reals List Lra Lia Arith.
From VLib Require Import RealExtra.
From C24 Require Import C24Spec C24Tac C24_gen.
Import ListNotations.
Local Open Scope R_scope.
Section Conv3.
  Variables vp0 vp1 vp2 e0 e1 e2 t0 t1 t2 t3 t4 t5 : R.
  Variables M0 M1 M2 M3 M4 M5 M6 M7 M8 M9 M10 M11 M12 M13 M14 M15 M16 M17 M18 M19 M20 M21 M22 M23 M24 M25 M26 M27 M28 M29 M30 M31 M32 M33 M34 M35 : R.
  Hypothesis H0 : 0 < vp0. Hypothesis H1 : 0 < vp1. Hypothesis H2 : 0 < vp2.
  Let Ml := [M0; M1; M2; M3; M4; M5; M6; M7; M8; M9; M10; M11; M12; M13; M14; M15; M16; M17; M18; M19; M20; M21; M22; M23; M24; M25; M26; M27; M28; M29; M30; M31; M32; M33; M34; M35].
  Let l := tab3 vp0 vp1 vp2. Let e := tab3 e0 e1 e2. Let t := tsym3 [t0; t1; t2; t3; t4; t5].
  Let conv := lsh3_convG vp0 vp1 vp2 e0 e1 e2 t0 t1 t2 t3 t4 t5 M0 M1 M2 M3 M4 M5 M6 M7 M8 M9 M10 M11 M12 M13 M14 M15 M16 M17 M18 M19 M20 M21 M22 M23 M24 M25 M26 M27 M28 M29 M30 M31 M32 M33 M34 M35.
  Lemma convG3_distinct : 1 / 10 ^ 14 < Rabs (vp1 - vp0) -> 1 / 10 ^ 14 < Rabs (vp1 - vp2) -> 1 / 10 ^ 14 < Rabs (vp2 - vp0) ->
    conv = Some (matrix 6 (Gmat (Mc3 Ml) (g2c cls_distinct l e) t)).
  Proof.
    intros Ha Hb Hc.
    assert (vp1 - vp0 <> 0) by (apply (abs_gt_neq _ _ (1 / 10 ^ 14)); lra).
    assert (vp1 - vp2 <> 0) by (apply (abs_gt_neq _ _ (1 / 10 ^ 14)); lra).
    assert (vp2 - vp0 <> 0) by (apply (abs_gt_neq _ _ (1 / 10 ^ 14)); lra).
    unfold conv, lsh3_convG; cbv zeta. split_tree.
    apply f_equal. unfold matrix, Gmat, sum3, g2c, cls_distinct, g1, dg, t, tsym3, Mc3, idx3, nthT, l, e, tab3, Ml; cbn.
    list_eq ltac:(field; nz).
  Qed.
  Lemma convG3_all_equal : vp1 = vp0 -> vp2 = vp0 ->
    conv = Some (matrix 6 (Gmat (Mc3 Ml) (g2c cls_all l e) t)).
  Proof.
    intros E1 E2. unfold conv, l. subst vp1 vp2.
    unfold lsh3_convG; cbv zeta. zero_abs. split_tree.
    apply f_equal. unfold matrix, Gmat, sum3, g2c, cls_all, g1, dg, t, tsym3, Mc3, idx3, nthT, e, tab3, Ml; cbn.
    list_eq ltac:(field; nz).
  Qed.
End Conv3.

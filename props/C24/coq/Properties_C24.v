(* C24 -- property theorems, 1D handler (statements only; proofs in C24Proofs.v). *)
From Coq Require Import Reals List.
From Coquelicot Require Import Coquelicot.
From C24 Require Import C24Spec C24_gen C24Proofs.
Import ListNotations.
Local Open Scope R_scope.
(* getHenckyLogarithmicStrain = 1/2 ln C *)
Theorem C24_hencky_strain_1D : forall F0 F1 F2 T0 T1 T2 K0 K1 K2 K3 K4 K5 K6 K7 K8, 0 < F0 -> 0 < F1 -> 0 < F2 ->
  let out := lsh1 F0 F1 F2 T0 T1 T2 K0 K1 K2 K3 K4 K5 K6 K7 K8 in
  nth 0 out 0 = hencky F0 /\ nth 1 out 0 = hencky F1 /\ nth 2 out 0 = hencky F2.
Proof. exact hencky_ok. Qed.
Print Assumptions C24_hencky_strain_1D.
(* stress power: with dE_log/dF = 1/F and dE_GL/dF = F (proved), S dE_GL = T dE_log component-wise *)
Theorem C24_strain_measure_derivatives : forall x, 0 < x -> is_derive hencky x (/ x) /\ is_derive green_lagrange x x.
Proof. exact measures_derivatives. Qed.
Print Assumptions C24_strain_measure_derivatives.
Theorem C24_stress_power_preserved_1D : forall F0 F1 F2 T0 T1 T2 K0 K1 K2 K3 K4 K5 K6 K7 K8, 0 < F0 -> 0 < F1 -> 0 < F2 ->
  let out := lsh1 F0 F1 F2 T0 T1 T2 K0 K1 K2 K3 K4 K5 K6 K7 K8 in
  nth 3 out 0 * F0 = T0 * / F0 /\ nth 4 out 0 * F1 = T1 * / F1 /\ nth 5 out 0 * F2 = T2 * / F2.
Proof. exact power_ok. Qed.
Print Assumptions C24_stress_power_preserved_1D.
(* convertFromSecondPiolaKirchhoffStress inverts convertToSecondPiolaKirchhoffStress *)
Theorem C24_stress_round_trip_1D : forall F0 F1 F2 T0 T1 T2 K0 K1 K2 K3 K4 K5 K6 K7 K8, 0 < F0 -> 0 < F1 -> 0 < F2 ->
  let out := lsh1 F0 F1 F2 T0 T1 T2 K0 K1 K2 K3 K4 K5 K6 K7 K8 in
  nth 15 out 0 = T0 /\ nth 16 out 0 = T1 /\ nth 17 out 0 = T2.
Proof. exact roundtrip_ok. Qed.
Print Assumptions C24_stress_round_trip_1D.
(* convertToMaterialTangentModuli = chain-rule formula dS_i/dE_GL_j = Ks_ij/(C_i C_j) - delta_ij 2 T_i / C_i^2 *)
Theorem C24_material_moduli_1D : forall F0 F1 F2 T0 T1 T2 K0 K1 K2 K3 K4 K5 K6 K7 K8, 0 < F0 -> 0 < F1 -> 0 < F2 ->
  let out := lsh1 F0 F1 F2 T0 T1 T2 K0 K1 K2 K3 K4 K5 K6 K7 K8 in
  let C i := nth i [F0 * F0; F1 * F1; F2 * F2] 0 in let T i := nth i [T0; T1; T2] 0 in
  let Ks i j := nth (3 * i + j) [K0; K1; K2; K3; K4; K5; K6; K7; K8] 0 in
  forall i j, (i < 3)%nat -> (j < 3)%nat -> nth (6 + 3 * i + j) out 0 = material_moduli (Ks i j) (T i) (C i) (C j) (Nat.eqb i j).
Proof. exact moduli_ok. Qed.
Print Assumptions C24_material_moduli_1D.

(* ---- second round: Cauchy conversions, spatial moduli, Eulerian setting *)
(* convertToCauchyStress: sigma = T / J; convertFromCauchyStress inverts it *)
Theorem C24_cauchy_conversions_1D : forall F0 F1 F2 T0 T1 T2 K0 K1 K2 K3 K4 K5 K6 K7 K8, 0 < F0 -> 0 < F1 -> 0 < F2 ->
  let out := lsh1 F0 F1 F2 T0 T1 T2 K0 K1 K2 K3 K4 K5 K6 K7 K8 in let J := F0 * F1 * F2 in
  nth 18 out 0 = T0 / J /\ nth 19 out 0 = T1 / J /\ nth 20 out 0 = T2 / J /\ nth 21 out 0 = T0 /\ nth 22 out 0 = T1 /\ nth 23 out 0 = T2.
Proof. exact cauchy_ok. Qed.
Print Assumptions C24_cauchy_conversions_1D.
(* convertToSpatialTangentModuli = push-forward C_i C_j of the material moduli = Ks_ij - 2 delta_ij T_i; Truesdell-rate moduli = spatial / J *)
Theorem C24_spatial_moduli_1D : forall F0 F1 F2 T0 T1 T2 K0 K1 K2 K3 K4 K5 K6 K7 K8, 0 < F0 -> 0 < F1 -> 0 < F2 ->
  let out := lsh1 F0 F1 F2 T0 T1 T2 K0 K1 K2 K3 K4 K5 K6 K7 K8 in let J := F0 * F1 * F2 in
  let C i := nth i [F0 * F0; F1 * F1; F2 * F2] 0 in let T i := nth i [T0; T1; T2] 0 in
  let Ks i j := nth (3 * i + j) [K0; K1; K2; K3; K4; K5; K6; K7; K8] 0 in
  forall i j, (i < 3)%nat -> (j < 3)%nat ->
    nth (24 + 3 * i + j) out 0 = C i * C j * nth (6 + 3 * i + j) out 0 /\
    nth (24 + 3 * i + j) out 0 = Ks i j - (if Nat.eqb i j then 2 * T i else 0) /\
    nth (33 + 3 * i + j) out 0 = nth (24 + 3 * i + j) out 0 / J.
Proof. exact spatial_ok. Qed.
Print Assumptions C24_spatial_moduli_1D.
(* the Eulerian setting returns the same values in 1D (b = C in the principal axes) *)
Theorem C24_eulerian_setting_1D : forall F0 F1 F2 T0 T1 T2 K0 K1 K2 K3 K4 K5 K6 K7 K8,
  lsh1_E F0 F1 F2 T0 T1 T2 K0 K1 K2 K3 K4 K5 K6 K7 K8 = lsh1 F0 F1 F2 T0 T1 T2 K0 K1 K2 K3 K4 K5 K6 K7 K8.
Proof. exact eulerian_ok. Qed.
Print Assumptions C24_eulerian_setting_1D.

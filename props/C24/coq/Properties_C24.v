(* C24 -- property theorems, 1D handler, Lagrangian setting (statements only; proofs in C24Proofs.v). *)
From Coq Require Import Reals List.
From Coquelicot Require Import Coquelicot.
From C24 Require Import C24Spec C24_gen C24Proofs.
Import ListNotations.
Local Open Scope R_scope.
(* getHenckyLogarithmicStrain = 1/2 ln C *)
Theorem C24_hencky_strain_1D : forall F0 F1 F2 T0 T1 T2 K0 K1 K2 K3 K4 K5 K6 K7 K8, 0 < F0 -> 0 < F1 -> 0 < F2 ->
  let out := lsh1 F0 F1 F2 T0 T1 T2 K0 K1 K2 K3 K4 K5 K6 K7 K8 in
  nth 0 out 0 = hencky F0 /\ nth 1 out 0 = hencky F1 /\ nth 2 out 0 = hencky F2.
Proof. exact hencky_ok. Qed.
Print Assumptions C24_hencky_strain_1D.
(* stress power: with dE_log/dF = 1/F and dE_GL/dF = F (proved), S dE_GL = T dE_log component-wise *)
Theorem C24_strain_measure_derivatives : forall x, 0 < x -> is_derive hencky x (/ x) /\ is_derive green_lagrange x x.
Proof. exact measures_derivatives. Qed.
Print Assumptions C24_strain_measure_derivatives.
Theorem C24_stress_power_preserved_1D : forall F0 F1 F2 T0 T1 T2 K0 K1 K2 K3 K4 K5 K6 K7 K8, 0 < F0 -> 0 < F1 -> 0 < F2 ->
  let out := lsh1 F0 F1 F2 T0 T1 T2 K0 K1 K2 K3 K4 K5 K6 K7 K8 in
  nth 3 out 0 * F0 = T0 * / F0 /\ nth 4 out 0 * F1 = T1 * / F1 /\ nth 5 out 0 * F2 = T2 * / F2.
Proof. exact power_ok. Qed.
Print Assumptions C24_stress_power_preserved_1D.
(* convertFromSecondPiolaKirchhoffStress inverts convertToSecondPiolaKirchhoffStress *)
Theorem C24_stress_round_trip_1D : forall F0 F1 F2 T0 T1 T2 K0 K1 K2 K3 K4 K5 K6 K7 K8, 0 < F0 -> 0 < F1 -> 0 < F2 ->
  let out := lsh1 F0 F1 F2 T0 T1 T2 K0 K1 K2 K3 K4 K5 K6 K7 K8 in
  nth 15 out 0 = T0 /\ nth 16 out 0 = T1 /\ nth 17 out 0 = T2.
Proof. exact roundtrip_ok. Qed.
Print Assumptions C24_stress_round_trip_1D.
(* convertToMaterialTangentModuli = chain-rule formula dS_i/dE_GL_j = Ks_ij/(C_i C_j) - delta_ij 2 T_i / C_i^2 *)
Theorem C24_material_moduli_1D : forall F0 F1 F2 T0 T1 T2 K0 K1 K2 K3 K4 K5 K6 K7 K8, 0 < F0 -> 0 < F1 -> 0 < F2 ->
  let out := lsh1 F0 F1 F2 T0 T1 T2 K0 K1 K2 K3 K4 K5 K6 K7 K8 in
  let C i := nth i [F0 * F0; F1 * F1; F2 * F2] 0 in let T i := nth i [T0; T1; T2] 0 in
  let Ks i j := nth (3 * i + j) [K0; K1; K2; K3; K4; K5; K6; K7; K8] 0 in
  forall i j, (i < 3)%nat -> (j < 3)%nat -> nth (6 + 3 * i + j) out 0 = material_moduli (Ks i j) (T i) (C i) (C j) (Nat.eqb i j).
Proof. exact moduli_ok. Qed.
Print Assumptions C24_material_moduli_1D.

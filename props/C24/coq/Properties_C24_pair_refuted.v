(* C24 -- CURRENT TREE (known finding): on a state with exactly two equal eigenvalues the second-derivative part of
   LogarithmicStrainHandler<3u>::convertTangentModuli is not the confluent divided-difference form.  Selected by the check while the
   execution of the real code shows the finding; the positive statement is Properties_C24_pair.v. *)
From Coq Require Import Reals List.
From C24 Require Import C24Spec C24Tac C24_gen C24Pair3_refuted.
Import ListNotations.
Local Open Scope R_scope.
Theorem C24_tangent_two_equal_eigenvalues_3D_refuted : exists vp0 vp1 vp2 e0 e1 e2 t0 t1 t2 t3 t4 t5,
  0 < vp0 /\ 0 < vp1 /\ 0 < vp2 /\ vp1 = vp0 /\ e1 = e0 /\ 1 / 10 ^ 14 < Rabs (vp2 - vp0) /\
  lsh3_convGb vp0 vp1 vp2 e0 e1 e2 t0 t1 t2 t3 t4 t5 <>
  Some (matrix 6 (Gmat (Mc3 basis6) (g2c (cls_pair 0 1) (tab3 vp0 vp1 vp2) (tab3 e0 e1 e2)) (tsym3 [t0; t1; t2; t3; t4; t5]))).
Proof. exact convGb3_pair01_refuted. Qed.
Print Assumptions C24_tangent_two_equal_eigenvalues_3D_refuted.

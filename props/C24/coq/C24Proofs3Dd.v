(* C24 -- LogarithmicStrainHandler<3u>::convertTangentModuli, geometric part on the dyads of M_ij = 2 E_idx(i,j): three distinct eigenvalues. *)
From Coq Require Import Reals List Lra Lia Arith.
From VLib Require Import RealExtra.
From C24 Require Import C24Spec C24Tac C24_gen.
Import ListNotations.
Local Open Scope R_scope.
Section ConvB3d.
  Variables vp0 vp1 vp2 e0 e1 e2 t0 t1 t2 t3 t4 t5 : R.
  Hypothesis H0 : 0 < vp0. Hypothesis H1 : 0 < vp1. Hypothesis H2 : 0 < vp2.
  Let l := tab3 vp0 vp1 vp2. Let e := tab3 e0 e1 e2. Let t := tsym3 [t0; t1; t2; t3; t4; t5].
  Lemma convGb3_distinct : 1 / 10 ^ 14 < Rabs (vp1 - vp0) -> 1 / 10 ^ 14 < Rabs (vp1 - vp2) -> 1 / 10 ^ 14 < Rabs (vp2 - vp0) ->
    lsh3_convGb vp0 vp1 vp2 e0 e1 e2 t0 t1 t2 t3 t4 t5 = Some (matrix 6 (Gmat (Mc3 basis6) (g2c cls_distinct l e) t)).
  Proof.
    intros Ha Hb Hc.
    assert (vp1 - vp0 <> 0) by (apply (abs_gt_neq _ _ (1 / 10 ^ 14)); lra).
    assert (vp1 - vp2 <> 0) by (apply (abs_gt_neq _ _ (1 / 10 ^ 14)); lra).
    assert (vp2 - vp0 <> 0) by (apply (abs_gt_neq _ _ (1 / 10 ^ 14)); lra).
    unfold lsh3_convGb; cbv zeta. split_tree.
    apply f_equal. unfold matrix, Gmat, sum3, g2c, cls_distinct, g1, dg, t, tsym3, Mc3, idx3, nthT, l, e, tab3, basis6; cbn.
    list_eq ltac:(field; nz).
  Qed.
End ConvB3d.

(* C24 -- proofs over the 1D handler traced from /repo (C24_gen.v). *)
From Coq Require Import Reals List Lra Lia.
From Coquelicot Require Import Coquelicot.
From C24 Require Import C24Spec C24_gen.
Import ListNotations.
Local Open Scope R_scope.
Section H1.
  Variables F0 F1 F2 T0 T1 T2 K0 K1 K2 K3 K4 K5 K6 K7 K8 : R.
  Hypothesis H0 : 0 < F0. Hypothesis H1 : 0 < F1. Hypothesis H2 : 0 < F2.
  Let out := lsh1 F0 F1 F2 T0 T1 T2 K0 K1 K2 K3 K4 K5 K6 K7 K8.
  Lemma ln_sq x : 0 < x -> / 2 * ln (x * x) = ln x.
  Proof. intro. rewrite ln_mult by assumption. lra. Qed.
  Lemma hencky_ok : nth 0 out 0 = hencky F0 /\ nth 1 out 0 = hencky F1 /\ nth 2 out 0 = hencky F2.
  Proof. subst out; unfold lsh1, hencky; cbn. rewrite !ln_sq by assumption. repeat split. Qed.
  (* the strain measures as functions of the stretch, and power conjugacy S dE_GL = T dE_log *)
  Lemma measures_derivatives x : 0 < x -> is_derive hencky x (/ x) /\ is_derive green_lagrange x x.
  Proof.
    intro Hx. split.
    - unfold hencky. auto_derive; [nra | field; lra].
    - unfold green_lagrange. auto_derive; [exact I | field].
  Qed.
  Lemma power_ok : nth 3 out 0 * F0 = T0 * / F0 /\ nth 4 out 0 * F1 = T1 * / F1 /\ nth 5 out 0 * F2 = T2 * / F2.
  Proof. subst out; unfold lsh1; cbn. repeat split; field; lra. Qed.
  Lemma roundtrip_ok : nth 15 out 0 = T0 /\ nth 16 out 0 = T1 /\ nth 17 out 0 = T2.
  Proof. subst out; unfold lsh1; cbn. repeat split; field; lra. Qed.
  Lemma moduli_ok :
    let C i := nth i [F0 * F0; F1 * F1; F2 * F2] 0 in let T i := nth i [T0; T1; T2] 0 in
    let Ks i j := nth (3 * i + j) [K0; K1; K2; K3; K4; K5; K6; K7; K8] 0 in
    forall i j, (i < 3)%nat -> (j < 3)%nat -> nth (6 + 3 * i + j) out 0 = material_moduli (Ks i j) (T i) (C i) (C j) (Nat.eqb i j).
  Proof.
    intros C T Ks i j Hi Hj. subst out C T Ks. unfold lsh1, material_moduli.
    destruct i as [|[|[|i]]]; try (exfalso; apply (PeanoNat.Nat.lt_irrefl 3); lia || (exfalso; lia));
    destruct j as [|[|[|j]]]; try (exfalso; lia); cbn; field; repeat split; lra.
  Qed.
End H1.

(* ---- second round: Cauchy conversions, spatial moduli, Eulerian setting (1D) *)
Section H1b.
  Variables F0 F1 F2 T0 T1 T2 K0 K1 K2 K3 K4 K5 K6 K7 K8 : R.
  Hypothesis H0 : 0 < F0. Hypothesis H1 : 0 < F1. Hypothesis H2 : 0 < F2.
  Let out := lsh1 F0 F1 F2 T0 T1 T2 K0 K1 K2 K3 K4 K5 K6 K7 K8.
  Let J := F0 * F1 * F2.
  (* sigma = T / J (the dual of the Hencky strain is the Kirchhoff stress in the principal axes) and back *)
  Lemma cauchy_ok : nth 18 out 0 = T0 / J /\ nth 19 out 0 = T1 / J /\ nth 20 out 0 = T2 / J /\ nth 21 out 0 = T0 /\ nth 22 out 0 = T1 /\ nth 23 out 0 = T2.
  Proof. subst out J; unfold lsh1; cbn. assert (HJ : F0 * F1 * F2 <> 0) by (apply Rgt_not_eq; repeat apply Rmult_lt_0_compat; lra).
    repeat split; field; repeat split; lra. Qed.
  (* spatial moduli = push-forward of the material moduli (C_i C_j dS_i/dE_j) = Ks_ij - 2 delta_ij T_i; Truesdell-rate moduli = spatial / J *)
  Lemma spatial_ok :
    let C i := nth i [F0 * F0; F1 * F1; F2 * F2] 0 in let T i := nth i [T0; T1; T2] 0 in
    let Ks i j := nth (3 * i + j) [K0; K1; K2; K3; K4; K5; K6; K7; K8] 0 in
    forall i j, (i < 3)%nat -> (j < 3)%nat ->
      nth (24 + 3 * i + j) out 0 = C i * C j * nth (6 + 3 * i + j) out 0 /\
      nth (24 + 3 * i + j) out 0 = Ks i j - (if Nat.eqb i j then 2 * T i else 0) /\
      nth (33 + 3 * i + j) out 0 = nth (24 + 3 * i + j) out 0 / J.
  Proof.
    intros C T Ks i j Hi Hj. subst out C T Ks J. unfold lsh1.
    destruct i as [|[|[|i]]]; try (exfalso; lia); destruct j as [|[|[|j]]]; try (exfalso; lia); cbn; repeat split; field; repeat split; lra.
  Qed.
  (* the 1D handler does not depend on the setting: the Eulerian one returns the same values (Hencky strain 1/2 ln b with b = C) *)
  Lemma eulerian_ok : lsh1_E F0 F1 F2 T0 T1 T2 K0 K1 K2 K3 K4 K5 K6 K7 K8 = out.
  Proof. reflexivity. Qed.
End H1b.

(* C24 -- property theorems of the thorough tier (statements only; proofs in C24Split2.v, C24G3.v). *)
From Coq Require Import Reals List.
From C24 Require Import C24Spec C24Tac C24_gen C24Split2 C24G3.
Import ListNotations.
Local Open Scope R_scope.
(* 2D: the full convertTangentModuli is the sum of its two parts, the second one at t_ij = (T . N_ij)/2 (t_22 = T_2: N(2) = 2 e_z (x) e_z) *)
Theorem C24_tangent_is_sum_of_both_parts_2D :
  forall vp0 vp1 vp2 e0 e1 e2 p0 p1 p2 p3 p4 p5 p6 p7 p8 p9 p10 p11 p12 p13 p14 p15 T0 T1 T2 T3 K0 K1 K2 K3 K4 K5 K6 K7 K8 K9 K10 K11 K12 K13 K14 K15
         N0 N1 N2 N3 N4 N5 N6 N7 N12 N13 N14 N15 M0 M1 M2 M3 M4 M5 M6 M7 M8 M9 M10 M11 M12 M13 M14 M15, 0 < vp0 -> 0 < vp1 -> 0 < vp2 ->
  let Nl := [N0; N1; N2; N3; N4; N5; N6; N7; 0; 0; 2; 0; N12; N13; N14; N15] in let Tl := [T0; T1; T2; T3] in
  lsh2_conv vp0 vp1 vp2 e0 e1 e2 p0 p1 p2 p3 p4 p5 p6 p7 p8 p9 p10 p11 p12 p13 p14 p15 T0 T1 T2 T3 K0 K1 K2 K3 K4 K5 K6 K7 K8 K9 K10 K11 K12 K13 K14 K15
            N0 N1 N2 N3 N4 N5 N6 N7 0 0 2 0 N12 N13 N14 N15 M0 M1 M2 M3 M4 M5 M6 M7 M8 M9 M10 M11 M12 M13 M14 M15 =
  option_map (fun G => map (fun xy => fst xy + snd xy) (combine
      (lsh2_convK p0 p1 p2 p3 p4 p5 p6 p7 p8 p9 p10 p11 p12 p13 p14 p15 K0 K1 K2 K3 K4 K5 K6 K7 K8 K9 K10 K11 K12 K13 K14 K15) G))
    (lsh2_convG vp0 vp1 vp2 e0 e1 e2 (comp2 Nl Tl 0 0) (comp2 Nl Tl 1 1) T2 (comp2 Nl Tl 0 1) M0 M1 M2 M3 M4 M5 M6 M7 M8 M9 M10 M11 M12 M13 M14 M15).
Proof. exact conv2_split. Qed.
Print Assumptions C24_tangent_is_sum_of_both_parts_2D.
(* 3D: second part for ANY tensors M_ij (general eigenvectors, material and spatial moduli) *)
Theorem C24_tangent_second_derivative_part_3D : forall vp0 vp1 vp2 e0 e1 e2 t0 t1 t2 t3 t4 t5
  M0 M1 M2 M3 M4 M5 M6 M7 M8 M9 M10 M11 M12 M13 M14 M15 M16 M17 M18 M19 M20 M21 M22 M23 M24 M25 M26 M27 M28 M29 M30 M31 M32 M33 M34 M35,
  0 < vp0 -> 0 < vp1 -> 0 < vp2 -> 1 / 10 ^ 14 < Rabs (vp1 - vp0) -> 1 / 10 ^ 14 < Rabs (vp1 - vp2) -> 1 / 10 ^ 14 < Rabs (vp2 - vp0) ->
  lsh3_convG vp0 vp1 vp2 e0 e1 e2 t0 t1 t2 t3 t4 t5 M0 M1 M2 M3 M4 M5 M6 M7 M8 M9 M10 M11 M12 M13 M14 M15 M16 M17 M18 M19 M20 M21 M22 M23 M24 M25 M26 M27 M28 M29 M30 M31 M32 M33 M34 M35 =
  Some (matrix 6 (Gmat (Mc3 [M0; M1; M2; M3; M4; M5; M6; M7; M8; M9; M10; M11; M12; M13; M14; M15; M16; M17; M18; M19; M20; M21; M22; M23; M24; M25; M26; M27; M28; M29; M30; M31; M32; M33; M34; M35])
                       (g2c cls_distinct (tab3 vp0 vp1 vp2) (tab3 e0 e1 e2)) (tsym3 [t0; t1; t2; t3; t4; t5]))).
Proof. exact convG3_distinct. Qed.
Print Assumptions C24_tangent_second_derivative_part_3D.
Theorem C24_tangent_second_derivative_part_three_equal_3D : forall vp0 vp1 vp2 e0 e1 e2 t0 t1 t2 t3 t4 t5
  M0 M1 M2 M3 M4 M5 M6 M7 M8 M9 M10 M11 M12 M13 M14 M15 M16 M17 M18 M19 M20 M21 M22 M23 M24 M25 M26 M27 M28 M29 M30 M31 M32 M33 M34 M35,
  0 < vp0 -> 0 < vp1 -> 0 < vp2 -> vp1 = vp0 -> vp2 = vp0 ->
  lsh3_convG vp0 vp1 vp2 e0 e1 e2 t0 t1 t2 t3 t4 t5 M0 M1 M2 M3 M4 M5 M6 M7 M8 M9 M10 M11 M12 M13 M14 M15 M16 M17 M18 M19 M20 M21 M22 M23 M24 M25 M26 M27 M28 M29 M30 M31 M32 M33 M34 M35 =
  Some (matrix 6 (Gmat (Mc3 [M0; M1; M2; M3; M4; M5; M6; M7; M8; M9; M10; M11; M12; M13; M14; M15; M16; M17; M18; M19; M20; M21; M22; M23; M24; M25; M26; M27; M28; M29; M30; M31; M32; M33; M34; M35])
                       (g2c cls_all (tab3 vp0 vp1 vp2) (tab3 e0 e1 e2)) (tsym3 [t0; t1; t2; t3; t4; t5]))).
Proof. exact convG3_all_equal. Qed.
Print Assumptions C24_tangent_second_derivative_part_three_equal_3D.

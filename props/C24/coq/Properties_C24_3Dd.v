(* C24 -- property theorem, LogarithmicStrainHandler<3u>, three distinct eigenvalues (statement only; proof in C24Proofs3Dd.v). *)
From Coq Require Import Reals List.
From C24 Require Import C24Spec C24Tac C24_gen C24Proofs3Dd.
Import ListNotations.
Local Open Scope R_scope.
(* second part on the dyads of M_ij = 2 E_idx(i,j): matrix of 4 T : D2g(C)[.,.] with the second divided differences of 1/2 ln, three distinct
   eigenvalues; and the confluent form when the three coincide *)
Theorem C24_tangent_second_derivative_coefficients_3D : forall vp0 vp1 vp2 e0 e1 e2 t0 t1 t2 t3 t4 t5, 0 < vp0 -> 0 < vp1 -> 0 < vp2 ->
  1 / 10 ^ 14 < Rabs (vp1 - vp0) -> 1 / 10 ^ 14 < Rabs (vp1 - vp2) -> 1 / 10 ^ 14 < Rabs (vp2 - vp0) ->
  lsh3_convGb vp0 vp1 vp2 e0 e1 e2 t0 t1 t2 t3 t4 t5 =
  Some (matrix 6 (Gmat (Mc3 basis6) (g2c cls_distinct (tab3 vp0 vp1 vp2) (tab3 e0 e1 e2)) (tsym3 [t0; t1; t2; t3; t4; t5]))).
Proof. exact convGb3_distinct. Qed.
Print Assumptions C24_tangent_second_derivative_coefficients_3D.

(* C24 -- property theorems, LogarithmicStrainHandler<2u> with the eigen-data (vp, m) of C as inputs (statements only; proofs in
   C24Proofs2D.v).  m = [m00; m01; m10; m11] (columns = in-plane eigenvectors), the third eigenvector is e_z. *)
From Coq Require Import Reals List.
From C24 Require Import C24Spec C24_gen C24Proofs2D.
Import ListNotations.
Local Open Scope R_scope.
(* getNTensors: (A . N_ij)/2 is the eigenbasis component n_i . A n_j of the symmetric tensor A *)
Theorem C24_N_tensors_2D : forall m0 m1 m2 m3 A0 A1 A2 A3 i j, (i < 3)%nat -> (j < 3)%nat ->
  comp2 (lsh2_N m0 m1 m2 m3) [A0; A1; A2; A3] i j = eig2 [m0; m1; m2; m3] [A0; A1; A2; A3] i j.
Proof. exact N2_components. Qed.
Print Assumptions C24_N_tensors_2D.
(* Builder, Lagrangian setting: e_i = 1/2 ln vp_i and the Hencky strain is sum_i e_i n_i (x) n_i *)
Theorem C24_hencky_strain_2D : forall vp0 vp1 vp2 m0 m1 m2 m3 A0 A1 A2 A3,
  let out := oget (lsh2_build_L vp0 vp1 vp2 m0 m1 m2 m3) in
  slice 16 3 out = [half_ln vp0; half_ln vp1; half_ln vp2] /\
  dotl (slice 19 4 out) [A0; A1; A2; A3] = sum3 (fun i => tab3 (half_ln vp0) (half_ln vp1) (half_ln vp2) i * eig2 [m0; m1; m2; m3] [A0; A1; A2; A3] i i).
Proof. intros. exact (conj (build2_e vp0 vp1 vp2 m0 m1 m2 m3) (build2_hencky vp0 vp1 vp2 m0 m1 m2 m3 A0 A1 A2 A3)). Qed.
Print Assumptions C24_hencky_strain_2D.
(* p is the Daleckii-Krein tensor of 1/2 ln: the matrix of (A, B) |-> sum_ij g[l_i, l_j] a_ij b_ij (distinct in-plane eigenvalues) *)
Theorem C24_p_is_daleckii_krein_2D : forall vp0 vp1 vp2 m0 m1 m2 m3, 0 < vp0 -> 0 < vp1 -> 0 < vp2 -> 1 / 10 ^ 14 < Rabs (vp0 - vp1) ->
  slice 0 16 (oget (lsh2_build_L vp0 vp1 vp2 m0 m1 m2 m3)) =
  matrix 4 (Pmat (Mc2 (lsh2_N m0 m1 m2 m3)) (g1plane (g1c cls_distinct (tab3 vp0 vp1 vp2) (tab3 (half_ln vp0) (half_ln vp1) (half_ln vp2))))).
Proof. exact build2_p_distinct. Qed.
Print Assumptions C24_p_is_daleckii_krein_2D.
(* ... and its confluent form when the two in-plane eigenvalues coincide *)
Theorem C24_p_confluent_2D : forall vp0 vp1 vp2 m0 m1 m2 m3, 0 < vp0 -> 0 < vp1 -> 0 < vp2 -> vp0 = vp1 ->
  slice 0 16 (oget (lsh2_build_L vp0 vp1 vp2 m0 m1 m2 m3)) =
  matrix 4 (Pmat (Mc2 (lsh2_N m0 m1 m2 m3)) (g1plane (g1c (cls_pair 0 1) (tab3 vp0 vp1 vp2) (tab3 (half_ln vp0) (half_ln vp1) (half_ln vp2))))).
Proof. exact build2_p_equal. Qed.
Print Assumptions C24_p_confluent_2D.
(* stress conversion S = 2 T : p preserves the power: S : dE_GL = T : dE_log with dE_log = 2 p : dE_GL *)
Theorem C24_stress_power_preserved_2D : forall p0 p1 p2 p3 p4 p5 p6 p7 p8 p9 p10 p11 p12 p13 p14 p15 T0 T1 T2 T3 D0 D1 D2 D3,
  dotl (lsh2_stress p0 p1 p2 p3 p4 p5 p6 p7 p8 p9 p10 p11 p12 p13 p14 p15 T0 T1 T2 T3) [D0; D1; D2; D3] =
  dotl [T0; T1; T2; T3] (map (fun x => 2 * x) (mvec 4 [p0; p1; p2; p3; p4; p5; p6; p7; p8; p9; p10; p11; p12; p13; p14; p15] [D0; D1; D2; D3])).
Proof. exact stress2_power. Qed.
Print Assumptions C24_stress_power_preserved_2D.
(* convertTangentModuli, first part: 4 p^T Ks p = P^T Ks P with P = 2 p *)
Theorem C24_tangent_first_order_part_2D : forall p0 p1 p2 p3 p4 p5 p6 p7 p8 p9 p10 p11 p12 p13 p14 p15 K0 K1 K2 K3 K4 K5 K6 K7 K8 K9 K10 K11 K12 K13 K14 K15,
  lsh2_convK p0 p1 p2 p3 p4 p5 p6 p7 p8 p9 p10 p11 p12 p13 p14 p15 K0 K1 K2 K3 K4 K5 K6 K7 K8 K9 K10 K11 K12 K13 K14 K15 =
  matrix 4 (ptKp 4 [p0; p1; p2; p3; p4; p5; p6; p7; p8; p9; p10; p11; p12; p13; p14; p15] [K0; K1; K2; K3; K4; K5; K6; K7; K8; K9; K10; K11; K12; K13; K14; K15]).
Proof. exact convK2_spec. Qed.
Print Assumptions C24_tangent_first_order_part_2D.
(* second part = matrix of 4 T : D2g(C)[.,.] (second divided differences of 1/2 ln), for any tensors M (material and spatial moduli) *)
Theorem C24_tangent_second_derivative_part_2D : forall vp0 vp1 vp2 e0 e1 e2 t0 t1 t2 t3 M0 M1 M2 M3 M4 M5 M6 M7 M8 M9 M10 M11 M12 M13 M14 M15,
  0 < vp0 -> 0 < vp1 -> 0 < vp2 -> 1 / 10 ^ 14 < Rabs (vp0 - vp1) ->
  lsh2_convG vp0 vp1 vp2 e0 e1 e2 t0 t1 t2 t3 M0 M1 M2 M3 M4 M5 M6 M7 M8 M9 M10 M11 M12 M13 M14 M15 =
  Some (matrix 4 (Gmat (Mc2 [M0; M1; M2; M3; M4; M5; M6; M7; M8; M9; M10; M11; M12; M13; M14; M15])
                       (g2plane (g2c cls_distinct (tab3 vp0 vp1 vp2) (tab3 e0 e1 e2)) (tab3 vp0 vp1 vp2)) (tsym2 [t0; t1; t2; t3]))).
Proof. exact convG2_distinct. Qed.
Print Assumptions C24_tangent_second_derivative_part_2D.
Theorem C24_tangent_second_derivative_part_confluent_2D : forall vp0 vp1 vp2 e0 e1 e2 t0 t1 t2 t3 M0 M1 M2 M3 M4 M5 M6 M7 M8 M9 M10 M11 M12 M13 M14 M15,
  0 < vp0 -> 0 < vp1 -> 0 < vp2 -> vp0 = vp1 -> e0 = e1 ->
  lsh2_convG vp0 vp1 vp2 e0 e1 e2 t0 t1 t2 t3 M0 M1 M2 M3 M4 M5 M6 M7 M8 M9 M10 M11 M12 M13 M14 M15 =
  Some (matrix 4 (Gmat (Mc2 [M0; M1; M2; M3; M4; M5; M6; M7; M8; M9; M10; M11; M12; M13; M14; M15])
                       (g2plane (g2c (cls_pair 0 1) (tab3 vp0 vp1 vp2) (tab3 e0 e1 e2)) (tab3 vp0 vp1 vp2)) (tsym2 [t0; t1; t2; t3]))).
Proof. exact convG2_equal. Qed.
Print Assumptions C24_tangent_second_derivative_part_confluent_2D.

(* C24 -- thorough tier: the full convertTangentModuli of LogarithmicStrainHandler<2u> is the sum of its two parts (C24Proofs2D.v). *)
From Coq Require Import Reals List Lra Lia Arith.
From VLib Require Import RealExtra.
From C24 Require Import C24Spec C24Tac C24_gen.
Import ListNotations.
Local Open Scope R_scope.
Section ConvSplit2b.
  Variables vp0 vp1 vp2 e0 e1 e2 p0 p1 p2 p3 p4 p5 p6 p7 p8 p9 p10 p11 p12 p13 p14 p15 T0 T1 T2 T3 K0 K1 K2 K3 K4 K5 K6 K7 K8 K9 K10 K11 K12 K13 K14 K15 : R.
  Variables N0 N1 N2 N3 N4 N5 N6 N7 N12 N13 N14 N15 M0 M1 M2 M3 M4 M5 M6 M7 M8 M9 M10 M11 M12 M13 M14 M15 : R.
  Hypothesis H0 : 0 < vp0. Hypothesis H1 : 0 < vp1. Hypothesis H2 : 0 < vp2.
  Let Nl := [N0; N1; N2; N3; N4; N5; N6; N7; 0; 0; 2; 0; N12; N13; N14; N15].
  Let Tl := [T0; T1; T2; T3].
  (* the full conversion is the sum of the two parts, the second one evaluated at t_ij = (T . N_ij) / 2; N(2) = 2 e_z (x) e_z in the handler,
     so that t_22 = T_2 *)
  Lemma conv2_split :
    lsh2_conv vp0 vp1 vp2 e0 e1 e2 p0 p1 p2 p3 p4 p5 p6 p7 p8 p9 p10 p11 p12 p13 p14 p15 T0 T1 T2 T3 K0 K1 K2 K3 K4 K5 K6 K7 K8 K9 K10 K11 K12 K13 K14 K15
             N0 N1 N2 N3 N4 N5 N6 N7 0 0 2 0 N12 N13 N14 N15 M0 M1 M2 M3 M4 M5 M6 M7 M8 M9 M10 M11 M12 M13 M14 M15 =
    option_map (fun G => map (fun xy => fst xy + snd xy) (combine
        (lsh2_convK p0 p1 p2 p3 p4 p5 p6 p7 p8 p9 p10 p11 p12 p13 p14 p15 K0 K1 K2 K3 K4 K5 K6 K7 K8 K9 K10 K11 K12 K13 K14 K15) G))
      (lsh2_convG vp0 vp1 vp2 e0 e1 e2 (comp2 Nl Tl 0 0) (comp2 Nl Tl 1 1) T2 (comp2 Nl Tl 0 1) M0 M1 M2 M3 M4 M5 M6 M7 M8 M9 M10 M11 M12 M13 M14 M15).
  Proof.
    unfold lsh2_conv, lsh2_convG, lsh2_convK; cbv zeta.
    repeat match goal with |- context [Rlt_dec ?a ?b] => destruct (Rlt_dec a b) end; try reflexivity;
      try (assert (vp0 - vp1 <> 0) by (apply (abs_gt_neq _ _ (1 / 10 ^ 14)); lra));
      cbn [option_map]; apply f_equal; unfold comp2, ten, Nl, Tl; cbn; list_eq ltac:(field; nz).
  Qed.
End ConvSplit2b.

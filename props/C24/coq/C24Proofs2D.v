(* C24 -- LogarithmicStrainHandler<2u> traced from /repo (C24_gen.v) against the specification. *)
From Coq Require Import Reals List Lra Lia Arith.
From VLib Require Import RealExtra.
From C24 Require Import C24Spec C24Tac C24_gen.
Import ListNotations.
Local Open Scope R_scope.

(* ---- getNTensors: (A . N_ij) / 2 is the eigenbasis component n_i . A n_j *)
Section N2.
  Variables m0 m1 m2 m3 A0 A1 A2 A3 : R.
  Lemma N2_components : forall i j, (i < 3)%nat -> (j < 3)%nat ->
    comp2 (lsh2_N m0 m1 m2 m3) [A0; A1; A2; A3] i j = eig2 [m0; m1; m2; m3] [A0; A1; A2; A3] i j.
  Proof.
    intros i j Hi Hj.
    destruct i as [|[|[|i]]]; try (exfalso; lia); destruct j as [|[|[|j]]]; try (exfalso; lia); unfold comp2, eig2, lsh2_N, ten; cbn; try (field_simplify_eq; [ring [sqrt2_sq] | exact sqrt2_neq0]); try ring; try lra.
  Qed.
End N2.

(* ---- the Builder, Lagrangian setting: e_i = 1/2 ln vp_i, p is the Daleckii-Krein tensor of 1/2 ln, Hencky strain = sum e_i n_i (x) n_i *)
Section Build2.
  Variables vp0 vp1 vp2 m0 m1 m2 m3 : R.
  Variables A0 A1 A2 A3 : R.
  Hypothesis H0 : 0 < vp0. Hypothesis H1 : 0 < vp1. Hypothesis H2 : 0 < vp2.
  Let ml := [m0; m1; m2; m3]. Let Al := [A0; A1; A2; A3].
  Let l := tab3 vp0 vp1 vp2. Let e := tab3 (half_ln vp0) (half_ln vp1) (half_ln vp2).
  Let out := oget (lsh2_build_L vp0 vp1 vp2 m0 m1 m2 m3).
  Lemma build2_e : slice 16 3 out = [half_ln vp0; half_ln vp1; half_ln vp2].
  Proof.
    unfold out, lsh2_build_L, half_ln; cbv zeta. rewrite !ln_shift. destruct (Rlt_dec _ _); reflexivity.
  Qed.
  Lemma build2_hencky : dotl (slice 19 4 out) Al = sum3 (fun i => e i * eig2 ml Al i i).
  Proof.
    unfold out, lsh2_build_L, half_ln; cbv zeta. rewrite !ln_shift.
    destruct (Rlt_dec _ _); unfold slice, sum3, e, half_ln, tab3, eig2, ml, Al; cbn; (field_simplify_eq; [ring [sqrt2_sq] | exact sqrt2_neq0]).
  Qed.
  Lemma build2_p_distinct : 1 / 10 ^ 14 < Rabs (vp0 - vp1) ->
    slice 0 16 out = matrix 4 (Pmat (Mc2 (lsh2_N m0 m1 m2 m3)) (g1plane (g1c cls_distinct l e))).
  Proof.
    intro Hd. assert (vp0 - vp1 <> 0) by (apply (abs_gt_neq _ _ (1 / 10 ^ 14)); lra).
    unfold out, lsh2_build_L; cbv zeta. rewrite !ln_shift. destruct (Rlt_dec _ _); [|exfalso; lra].
    unfold slice, matrix, Pmat, sum3, g1plane, g1c, g1, dg, cls_distinct, e, l, half_ln, tab3, Mc2, nthT, lsh2_N; cbn.
    generalize (ln vp0) (ln vp1) (ln vp2); intros L0 L1 L2.
    list_eq ltac:(field_simplify_eq; [ring [sqrt2_sq] | nz]).
  Qed.
  Lemma build2_p_equal : vp0 = vp1 ->
    slice 0 16 out = matrix 4 (Pmat (Mc2 (lsh2_N m0 m1 m2 m3)) (g1plane (g1c (cls_pair 0 1) l e))).
  Proof.
    intro He. unfold out, e, l. subst vp1.
    unfold lsh2_build_L; cbv zeta. rewrite !ln_shift.
    destruct (Rlt_dec _ _) as [Hlt|_]; [exfalso; replace (vp0 - vp0) with 0 in Hlt by ring; rewrite Rabs_R0 in Hlt; lra|].
    unfold slice, matrix, Pmat, sum3, g1plane, g1c, g1, dg, cls_pair, half_ln, tab3, Mc2, nthT, lsh2_N; cbn.
    generalize (ln vp0) (ln vp2); intros L0 L2.
    list_eq ltac:(field_simplify_eq; [ring [sqrt2_sq] | nz]).
  Qed.
End Build2.

(* ---- stress conversion: S = 2 T : p, so that T : dE_log = S : dE_GL with dE_log = 2 p : dE_GL *)
Section Stress2.
  Variables p0 p1 p2 p3 p4 p5 p6 p7 p8 p9 p10 p11 p12 p13 p14 p15 T0 T1 T2 T3 D0 D1 D2 D3 : R.
  Let pl := [p0; p1; p2; p3; p4; p5; p6; p7; p8; p9; p10; p11; p12; p13; p14; p15].
  Lemma stress2_power : dotl (lsh2_stress p0 p1 p2 p3 p4 p5 p6 p7 p8 p9 p10 p11 p12 p13 p14 p15 T0 T1 T2 T3) [D0; D1; D2; D3] =
    dotl [T0; T1; T2; T3] (map (fun x => 2 * x) (mvec 4 pl [D0; D1; D2; D3])).
  Proof. unfold lsh2_stress, mvec, pl; cbn. ring. Qed.
End Stress2.

(* ---- tangent conversion = 4 p^T Ks p + geometric part, for any tensors N, M *)
Section Conv2.
  Variables vp0 vp1 vp2 e0 e1 e2 t0 t1 t2 t3 M0 M1 M2 M3 M4 M5 M6 M7 M8 M9 M10 M11 M12 M13 M14 M15 : R.
  Hypothesis H0 : 0 < vp0. Hypothesis H1 : 0 < vp1. Hypothesis H2 : 0 < vp2.
  Let Ml := [M0; M1; M2; M3; M4; M5; M6; M7; M8; M9; M10; M11; M12; M13; M14; M15].
  Let l := tab3 vp0 vp1 vp2. Let e := tab3 e0 e1 e2. Let t := tsym2 [t0; t1; t2; t3].
  Let conv := lsh2_convG vp0 vp1 vp2 e0 e1 e2 t0 t1 t2 t3 M0 M1 M2 M3 M4 M5 M6 M7 M8 M9 M10 M11 M12 M13 M14 M15.
  Lemma convG2_distinct : 1 / 10 ^ 14 < Rabs (vp0 - vp1) ->
    conv = Some (matrix 4 (Gmat (Mc2 Ml) (g2plane (g2c cls_distinct l e) l) t)).
  Proof.
    intro Hd. assert (vp0 - vp1 <> 0) by (apply (abs_gt_neq _ _ (1 / 10 ^ 14)); lra).
    unfold conv, lsh2_convG; cbv zeta. destruct (Rlt_dec _ _); [exfalso; lra|]. destruct (Rlt_dec _ _); [|exfalso; lra].
    apply f_equal. unfold matrix, Gmat, sum3, g2plane, g2c, cls_distinct, g1, dg, t, tsym2, Mc2, nthT, l, e, tab3, Ml; cbn.
    list_eq ltac:(field; nz).
  Qed.
  (* two equal in-plane eigenvalues: the confluent divided differences *)
  Lemma convG2_equal : vp0 = vp1 -> e0 = e1 ->
    conv = Some (matrix 4 (Gmat (Mc2 Ml) (g2plane (g2c (cls_pair 0 1) l e) l) t)).
  Proof.
    intros He Hee. unfold conv. subst vp1 e1.
    unfold lsh2_convG; cbv zeta. replace (vp0 - vp0) with 0 by ring. rewrite Rabs_R0.
    destruct (Rlt_dec _ _); [|exfalso; lra].
    apply f_equal. unfold matrix, Gmat, sum3, g2plane, g2c, cls_pair, g1, dg, t, tsym2, Mc2, nthT, l, e, tab3, Ml; cbn.
    list_eq ltac:(field; nz).
  Qed.
End Conv2.
Section ConvSplit2.
  Variables vp0 vp1 vp2 e0 e1 e2 p0 p1 p2 p3 p4 p5 p6 p7 p8 p9 p10 p11 p12 p13 p14 p15 T0 T1 T2 T3 K0 K1 K2 K3 K4 K5 K6 K7 K8 K9 K10 K11 K12 K13 K14 K15 : R.
  Variables N0 N1 N2 N3 N4 N5 N6 N7 N12 N13 N14 N15 M0 M1 M2 M3 M4 M5 M6 M7 M8 M9 M10 M11 M12 M13 M14 M15 : R.
  Hypothesis H0 : 0 < vp0. Hypothesis H1 : 0 < vp1. Hypothesis H2 : 0 < vp2.
  Let pl := [p0; p1; p2; p3; p4; p5; p6; p7; p8; p9; p10; p11; p12; p13; p14; p15].
  Let Kl := [K0; K1; K2; K3; K4; K5; K6; K7; K8; K9; K10; K11; K12; K13; K14; K15].
  Let Nl := [N0; N1; N2; N3; N4; N5; N6; N7; 0; 0; 2; 0; N12; N13; N14; N15].
  Let Tl := [T0; T1; T2; T3].
  Lemma convK2_spec : lsh2_convK p0 p1 p2 p3 p4 p5 p6 p7 p8 p9 p10 p11 p12 p13 p14 p15 K0 K1 K2 K3 K4 K5 K6 K7 K8 K9 K10 K11 K12 K13 K14 K15 = matrix 4 (ptKp 4 pl Kl).
  Proof. unfold lsh2_convK, matrix, ptKp, pl, Kl; cbv zeta; cbn. list_eq ltac:(ring). Qed.
End ConvSplit2.

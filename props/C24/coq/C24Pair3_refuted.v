(* C24 -- current tree: on a leaf with exactly two equal eigenvalues the geometric part of LogarithmicStrainHandler<3u>::convertTangentModuli
   is NOT the confluent second divided difference form (the coefficient eta is taken with the single eigenvalue repeated instead of the
   double one).  Witness by computation; used by the check while the finding is observed on the real code. *)
From Coq Require Import Reals List Lra Lia Arith.
From VLib Require Import RealExtra.
From C24 Require Import C24Spec C24Tac C24_gen.
Import ListNotations.
Local Open Scope R_scope.
Lemma convGb3_pair01_refuted : exists vp0 vp1 vp2 e0 e1 e2 t0 t1 t2 t3 t4 t5,
  0 < vp0 /\ 0 < vp1 /\ 0 < vp2 /\ vp1 = vp0 /\ e1 = e0 /\ 1 / 10 ^ 14 < Rabs (vp2 - vp0) /\
  lsh3_convGb vp0 vp1 vp2 e0 e1 e2 t0 t1 t2 t3 t4 t5 <>
  Some (matrix 6 (Gmat (Mc3 basis6) (g2c (cls_pair 0 1) (tab3 vp0 vp1 vp2) (tab3 e0 e1 e2)) (tsym3 [t0; t1; t2; t3; t4; t5]))).
Proof.
  exists 1, 1, 2, 0, 0, 1, 0, 0, 0, 1, 0, 0.
  assert (A1 : Rabs (2 - 1) = 1) by (replace (2 - 1) with 1 by ring; apply Rabs_R1).
  assert (A2 : Rabs (1 - 2) = 1) by (rewrite Rabs_minus_sym; exact A1).
  assert (A0 : Rabs (1 - 1) = 0) by (replace (1 - 1) with 0 by ring; apply Rabs_R0).
  repeat split; try lra; try (rewrite A1; lra).
  unfold lsh3_convGb; cbv zeta. rewrite A0, A1, A2.
  repeat match goal with |- context [Rlt_dec ?a ?b] => destruct (Rlt_dec a b); try (exfalso; lra) end.
  intro E. apply (f_equal (fun o => nth 29 (oget o) 0)) in E.
  unfold matrix, Gmat, sum3, g2c, cls_pair, g1, dg, tsym3, Mc3, idx3, nthT, tab3, basis6 in E; cbn in E. lra.
Qed.

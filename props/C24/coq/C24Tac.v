(* C24 -- tactics and small facts shared by the proof files. *)
From Coq Require Import Reals List Lra Lia Arith.
From VLib Require Import RealExtra.
From C24 Require Import C24Spec.
Import ListNotations.
Local Open Scope R_scope.
Ltac nz := repeat split; try assumption; try lra; try (apply Rgt_not_eq; lra); try (apply Rlt_not_eq; lra); try exact sqrt2_neq0.
Ltac entry tac := first [ reflexivity | timeout 20 (unfold Rdiv; ring) | timeout 300 tac ].
Ltac list_eq tac := repeat (apply f_equal2; [entry tac | ]); reflexivity.
Lemma abs_gt_neq x y eps : 0 <= eps -> eps < Rabs (x - y) -> x - y <> 0.
Proof. intros He H E. rewrite E, Rabs_R0 in H. lra. Qed.
Lemma ln_shift x : ln (1 + (x - 1)) = ln x.
Proof. f_equal. ring. Qed.
Ltac split_tree := repeat match goal with |- context [Rlt_dec ?a ?b] => destruct (Rlt_dec a b); try (exfalso; lra) end.
Ltac zero_abs := repeat match goal with |- context [Rabs (?x - ?x)] => replace (x - x) with 0 by ring; rewrite Rabs_R0 end.
(* the six tensors 2 E_k, E_k the basis of the component vectors *)
Definition basis6 : list R := flat_map (fun k => map (fun c => if (c =? k)%nat then 2 else 0) (seq 0 6)) (seq 0 6).

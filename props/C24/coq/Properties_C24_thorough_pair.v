(* C24 -- thorough tier, two equal eigenvalues, ANY tensors M_ij (proofs in C24G3pair.v); only when the known finding is not observed. *)
From Coq Require Import Reals List.
From C24 Require Import C24Spec C24Tac C24_gen C24G3pair.
Import ListNotations.
Local Open Scope R_scope.
Theorem C24_tangent_second_derivative_part_two_equal_3D : forall vp0 vp1 vp2 e0 e1 e2 t0 t1 t2 t3 t4 t5
  M0 M1 M2 M3 M4 M5 M6 M7 M8 M9 M10 M11 M12 M13 M14 M15 M16 M17 M18 M19 M20 M21 M22 M23 M24 M25 M26 M27 M28 M29 M30 M31 M32 M33 M34 M35,
  0 < vp0 -> 0 < vp1 -> 0 < vp2 ->
  let Ml := [M0; M1; M2; M3; M4; M5; M6; M7; M8; M9; M10; M11; M12; M13; M14; M15; M16; M17; M18; M19; M20; M21; M22; M23; M24; M25; M26; M27; M28; M29; M30; M31; M32; M33; M34; M35] in
  let conv := lsh3_convG vp0 vp1 vp2 e0 e1 e2 t0 t1 t2 t3 t4 t5 M0 M1 M2 M3 M4 M5 M6 M7 M8 M9 M10 M11 M12 M13 M14 M15 M16 M17 M18 M19 M20 M21 M22 M23 M24 M25 M26 M27 M28 M29 M30 M31 M32 M33 M34 M35 in
  let spec c := Some (matrix 6 (Gmat (Mc3 Ml) (g2c c (tab3 vp0 vp1 vp2) (tab3 e0 e1 e2)) (tsym3 [t0; t1; t2; t3; t4; t5]))) in
  (vp1 = vp0 -> e1 = e0 -> 1 / 10 ^ 14 < Rabs (vp2 - vp0) -> conv = spec (cls_pair 0 1)) /\
  (vp2 = vp0 -> e2 = e0 -> 1 / 10 ^ 14 < Rabs (vp1 - vp0) -> conv = spec (cls_pair 0 2)) /\
  (vp2 = vp1 -> e2 = e1 -> 1 / 10 ^ 14 < Rabs (vp1 - vp0) -> conv = spec (cls_pair 1 2)).
Proof.
  intros. repeat split; [apply convG3_pair01 | apply convG3_pair02 | apply convG3_pair12]; assumption.
Qed.
Print Assumptions C24_tangent_second_derivative_part_two_equal_3D.

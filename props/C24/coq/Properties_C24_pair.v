(* C24 -- property theorems, LogarithmicStrainHandler<3u>::convertTangentModuli on a state with exactly two equal eigenvalues: the
   coefficients of the second-derivative part are the confluent divided differences (proofs in C24Pair3.v). *)
From Coq Require Import Reals List.
From C24 Require Import C24Spec C24Tac C24_gen C24Pair3.
Import ListNotations.
Local Open Scope R_scope.
Theorem C24_tangent_two_equal_eigenvalues_01_3D : forall vp0 vp1 vp2 e0 e1 e2 t0 t1 t2 t3 t4 t5, 0 < vp0 -> 0 < vp1 -> 0 < vp2 ->
  vp1 = vp0 -> e1 = e0 -> 1 / 10 ^ 14 < Rabs (vp2 - vp0) ->
  lsh3_convGb vp0 vp1 vp2 e0 e1 e2 t0 t1 t2 t3 t4 t5 =
  Some (matrix 6 (Gmat (Mc3 basis6) (g2c (cls_pair 0 1) (tab3 vp0 vp1 vp2) (tab3 e0 e1 e2)) (tsym3 [t0; t1; t2; t3; t4; t5]))).
Proof. exact convGb3_pair01. Qed.
Print Assumptions C24_tangent_two_equal_eigenvalues_01_3D.
Theorem C24_tangent_two_equal_eigenvalues_02_3D : forall vp0 vp1 vp2 e0 e1 e2 t0 t1 t2 t3 t4 t5, 0 < vp0 -> 0 < vp1 -> 0 < vp2 ->
  vp2 = vp0 -> e2 = e0 -> 1 / 10 ^ 14 < Rabs (vp1 - vp0) ->
  lsh3_convGb vp0 vp1 vp2 e0 e1 e2 t0 t1 t2 t3 t4 t5 =
  Some (matrix 6 (Gmat (Mc3 basis6) (g2c (cls_pair 0 2) (tab3 vp0 vp1 vp2) (tab3 e0 e1 e2)) (tsym3 [t0; t1; t2; t3; t4; t5]))).
Proof. exact convGb3_pair02. Qed.
Print Assumptions C24_tangent_two_equal_eigenvalues_02_3D.
Theorem C24_tangent_two_equal_eigenvalues_12_3D : forall vp0 vp1 vp2 e0 e1 e2 t0 t1 t2 t3 t4 t5, 0 < vp0 -> 0 < vp1 -> 0 < vp2 ->
  vp2 = vp1 -> e2 = e1 -> 1 / 10 ^ 14 < Rabs (vp1 - vp0) ->
  lsh3_convGb vp0 vp1 vp2 e0 e1 e2 t0 t1 t2 t3 t4 t5 =
  Some (matrix 6 (Gmat (Mc3 basis6) (g2c (cls_pair 1 2) (tab3 vp0 vp1 vp2) (tab3 e0 e1 e2)) (tsym3 [t0; t1; t2; t3; t4; t5]))).
Proof. exact convGb3_pair12. Qed.
Print Assumptions C24_tangent_two_equal_eigenvalues_12_3D.

(* C24 -- LogarithmicStrainHandler<3u> traced from /repo (C24_gen.v) against the specification: N tensors, stress conversion, the part
   4 p^T Ks p of convertTangentModuli, and its geometric part on the dyads of the six tensors M_ij = 2 E_idx(i,j) (E_k the basis of the
   component vectors), on the leaves: three distinct eigenvalues, three equal eigenvalues. *)
From Coq Require Import Reals List Lra Lia Arith.
From VLib Require Import RealExtra.
From C24 Require Import C24Spec C24Tac C24_gen.
Import ListNotations.
Local Open Scope R_scope.

Section N3.
  Variables m0 m1 m2 m3 m4 m5 m6 m7 m8 A0 A1 A2 A3 A4 A5 : R.
  Lemma N3_components : forall i j, (i < 3)%nat -> (j < 3)%nat ->
    comp3 (lsh3_N m0 m1 m2 m3 m4 m5 m6 m7 m8) [A0; A1; A2; A3; A4; A5] i j = eig3 [m0; m1; m2; m3; m4; m5; m6; m7; m8] [A0; A1; A2; A3; A4; A5] i j.
  Proof.
    intros i j Hi Hj.
    destruct i as [|[|[|i]]]; try (exfalso; lia); destruct j as [|[|[|j]]]; try (exfalso; lia);
      unfold comp3, eig3, lsh3_N, ten, idx3; cbn; (field_simplify_eq; [ring [sqrt2_sq] | exact sqrt2_neq0]).
  Qed.
End N3.

Section Stress3.
  Variables p0 p1 p2 p3 p4 p5 p6 p7 p8 p9 p10 p11 p12 p13 p14 p15 p16 p17 p18 p19 p20 p21 p22 p23 p24 p25 p26 p27 p28 p29 p30 p31 p32 p33 p34 p35 : R.
  Variables T0 T1 T2 T3 T4 T5 D0 D1 D2 D3 D4 D5 : R.
  Variables K0 K1 K2 K3 K4 K5 K6 K7 K8 K9 K10 K11 K12 K13 K14 K15 K16 K17 K18 K19 K20 K21 K22 K23 K24 K25 K26 K27 K28 K29 K30 K31 K32 K33 K34 K35 : R.
  Let pl := [p0; p1; p2; p3; p4; p5; p6; p7; p8; p9; p10; p11; p12; p13; p14; p15; p16; p17; p18; p19; p20; p21; p22; p23; p24; p25; p26; p27; p28; p29; p30; p31; p32; p33; p34; p35].
  Let Kl := [K0; K1; K2; K3; K4; K5; K6; K7; K8; K9; K10; K11; K12; K13; K14; K15; K16; K17; K18; K19; K20; K21; K22; K23; K24; K25; K26; K27; K28; K29; K30; K31; K32; K33; K34; K35].
  Lemma stress3_power :
    dotl (lsh3_stress p0 p1 p2 p3 p4 p5 p6 p7 p8 p9 p10 p11 p12 p13 p14 p15 p16 p17 p18 p19 p20 p21 p22 p23 p24 p25 p26 p27 p28 p29 p30 p31 p32 p33 p34 p35 T0 T1 T2 T3 T4 T5)
         [D0; D1; D2; D3; D4; D5] = dotl [T0; T1; T2; T3; T4; T5] (map (fun x => 2 * x) (mvec 6 pl [D0; D1; D2; D3; D4; D5])).
  Proof. unfold lsh3_stress, mvec, pl; cbn. ring. Qed.
  Lemma convK3_spec :
    lsh3_convK p0 p1 p2 p3 p4 p5 p6 p7 p8 p9 p10 p11 p12 p13 p14 p15 p16 p17 p18 p19 p20 p21 p22 p23 p24 p25 p26 p27 p28 p29 p30 p31 p32 p33 p34 p35
               K0 K1 K2 K3 K4 K5 K6 K7 K8 K9 K10 K11 K12 K13 K14 K15 K16 K17 K18 K19 K20 K21 K22 K23 K24 K25 K26 K27 K28 K29 K30 K31 K32 K33 K34 K35 = matrix 6 (ptKp 6 pl Kl).
  Proof. unfold lsh3_convK, matrix, ptKp, pl, Kl; cbv zeta; cbn. list_eq ltac:(ring). Qed.
End Stress3.

Section ConvB3.
  Variables vp0 vp1 vp2 e0 e1 e2 t0 t1 t2 t3 t4 t5 : R.
  Hypothesis H0 : 0 < vp0. Hypothesis H1 : 0 < vp1. Hypothesis H2 : 0 < vp2.
  Let l := tab3 vp0 vp1 vp2. Let e := tab3 e0 e1 e2. Let t := tsym3 [t0; t1; t2; t3; t4; t5].
  Lemma convGb3_all_equal : vp1 = vp0 -> vp2 = vp0 ->
    lsh3_convGb vp0 vp1 vp2 e0 e1 e2 t0 t1 t2 t3 t4 t5 = Some (matrix 6 (Gmat (Mc3 basis6) (g2c cls_all l e) t)).
  Proof.
    intros E1 E2. unfold l. subst vp1 vp2.
    unfold lsh3_convGb; cbv zeta. zero_abs. split_tree.
    apply f_equal. unfold matrix, Gmat, sum3, g2c, cls_all, g1, dg, t, tsym3, Mc3, idx3, nthT, e, tab3, basis6; cbn.
    list_eq ltac:(field; nz).
  Qed.
End ConvB3.

(* C24 -- LogarithmicStrainHandler<3u>::convertTangentModuli, geometric part on the dyads of M_ij = 2 E_idx(i,j), leaves with exactly two
   equal eigenvalues: the coefficients are the confluent divided differences of 1/2 ln (documented limit form). *)
From Coq Require Import Reals List Lra Lia Arith.
From VLib Require Import RealExtra.
From C24 Require Import C24Spec C24Tac C24_gen.
Import ListNotations.
Local Open Scope R_scope.
Section Pair3.
  Variables vp0 vp1 vp2 e0 e1 e2 t0 t1 t2 t3 t4 t5 : R.
  Hypothesis H0 : 0 < vp0. Hypothesis H1 : 0 < vp1. Hypothesis H2 : 0 < vp2.
  Let l := tab3 vp0 vp1 vp2. Let e := tab3 e0 e1 e2. Let t := tsym3 [t0; t1; t2; t3; t4; t5].
  Ltac finish :=
    apply f_equal; unfold matrix, Gmat, sum3, g2c, cls_pair, g1, dg, t, tsym3, Mc3, idx3, nthT, e, l, tab3, basis6; cbn; list_eq ltac:(field; nz).
  Lemma convGb3_pair01 : vp1 = vp0 -> e1 = e0 -> 1 / 10 ^ 14 < Rabs (vp2 - vp0) ->
    lsh3_convGb vp0 vp1 vp2 e0 e1 e2 t0 t1 t2 t3 t4 t5 = Some (matrix 6 (Gmat (Mc3 basis6) (g2c (cls_pair 0 1) l e) t)).
  Proof.
    intros E1 E2 Hd. unfold l, e. subst vp1 e1.
    assert (Hd' : 1 / 10 ^ 14 < Rabs (vp0 - vp2)) by (rewrite Rabs_minus_sym; exact Hd).
    assert (vp2 - vp0 <> 0) by (apply (abs_gt_neq _ _ (1 / 10 ^ 14)); lra). assert (vp0 - vp2 <> 0) by lra.
    unfold lsh3_convGb; cbv zeta. zero_abs. split_tree. finish.
  Qed.
  Lemma convGb3_pair02 : vp2 = vp0 -> e2 = e0 -> 1 / 10 ^ 14 < Rabs (vp1 - vp0) ->
    lsh3_convGb vp0 vp1 vp2 e0 e1 e2 t0 t1 t2 t3 t4 t5 = Some (matrix 6 (Gmat (Mc3 basis6) (g2c (cls_pair 0 2) l e) t)).
  Proof.
    intros E1 E2 Hd. unfold l, e. subst vp2 e2.
    assert (Hd' : 1 / 10 ^ 14 < Rabs (vp0 - vp1)) by (rewrite Rabs_minus_sym; exact Hd).
    assert (vp1 - vp0 <> 0) by (apply (abs_gt_neq _ _ (1 / 10 ^ 14)); lra). assert (vp0 - vp1 <> 0) by lra.
    unfold lsh3_convGb; cbv zeta. zero_abs. split_tree. finish.
  Qed.
  Lemma convGb3_pair12 : vp2 = vp1 -> e2 = e1 -> 1 / 10 ^ 14 < Rabs (vp1 - vp0) ->
    lsh3_convGb vp0 vp1 vp2 e0 e1 e2 t0 t1 t2 t3 t4 t5 = Some (matrix 6 (Gmat (Mc3 basis6) (g2c (cls_pair 1 2) l e) t)).
  Proof.
    intros E1 E2 Hd. unfold l, e. subst vp2 e2.
    assert (Hd' : 1 / 10 ^ 14 < Rabs (vp0 - vp1)) by (rewrite Rabs_minus_sym; exact Hd).
    assert (vp1 - vp0 <> 0) by (apply (abs_gt_neq _ _ (1 / 10 ^ 14)); lra). assert (vp0 - vp1 <> 0) by lra.
    unfold lsh3_convGb; cbv zeta. zero_abs. split_tree. finish.
  Qed.
End Pair3.

(* C24 -- thorough tier: geometric part of LogarithmicStrainHandler<3u>::convertTangentModuli for ANY tensors M_ij, leaves with exactly two
   equal eigenvalues (documented limit form: confluent divided differences). *)
From Coq Require Import Reals List Lra Lia Arith.
From VLib Require Import RealExtra.
From C24 Require Import C24Spec C24Tac C24_gen.
Import ListNotations.
Local Open Scope R_scope.
Section Conv3p.
  Variables vp0 vp1 vp2 e0 e1 e2 t0 t1 t2 t3 t4 t5 : R.
  Variables M0 M1 M2 M3 M4 M5 M6 M7 M8 M9 M10 M11 M12 M13 M14 M15 M16 M17 M18 M19 M20 M21 M22 M23 M24 M25 M26 M27 M28 M29 M30 M31 M32 M33 M34 M35 : R.
  Hypothesis H0 : 0 < vp0. Hypothesis H1 : 0 < vp1. Hypothesis H2 : 0 < vp2.
  Let Ml := [M0; M1; M2; M3; M4; M5; M6; M7; M8; M9; M10; M11; M12; M13; M14; M15; M16; M17; M18; M19; M20; M21; M22; M23; M24; M25; M26; M27; M28; M29; M30; M31; M32; M33; M34; M35].
  Let l := tab3 vp0 vp1 vp2. Let e := tab3 e0 e1 e2. Let t := tsym3 [t0; t1; t2; t3; t4; t5].
  Let conv := lsh3_convG vp0 vp1 vp2 e0 e1 e2 t0 t1 t2 t3 t4 t5 M0 M1 M2 M3 M4 M5 M6 M7 M8 M9 M10 M11 M12 M13 M14 M15 M16 M17 M18 M19 M20 M21 M22 M23 M24 M25 M26 M27 M28 M29 M30 M31 M32 M33 M34 M35.
  Ltac finish :=
    apply f_equal; unfold matrix, Gmat, sum3, g2c, cls_pair, g1, dg, t, tsym3, Mc3, idx3, nthT, e, l, tab3, Ml; cbn; list_eq ltac:(field; nz).
  Lemma convG3_pair01 : vp1 = vp0 -> e1 = e0 -> 1 / 10 ^ 14 < Rabs (vp2 - vp0) ->
    conv = Some (matrix 6 (Gmat (Mc3 Ml) (g2c (cls_pair 0 1) l e) t)).
  Proof.
    intros E1 E2 Hd. unfold conv, l, e. subst vp1 e1.
    assert (Hd' : 1 / 10 ^ 14 < Rabs (vp0 - vp2)) by (rewrite Rabs_minus_sym; exact Hd).
    assert (vp2 - vp0 <> 0) by (apply (abs_gt_neq _ _ (1 / 10 ^ 14)); lra). assert (vp0 - vp2 <> 0) by lra.
    unfold lsh3_convG; cbv zeta. zero_abs. split_tree. finish.
  Qed.
  Lemma convG3_pair02 : vp2 = vp0 -> e2 = e0 -> 1 / 10 ^ 14 < Rabs (vp1 - vp0) ->
    conv = Some (matrix 6 (Gmat (Mc3 Ml) (g2c (cls_pair 0 2) l e) t)).
  Proof.
    intros E1 E2 Hd. unfold conv, l, e. subst vp2 e2.
    assert (Hd' : 1 / 10 ^ 14 < Rabs (vp0 - vp1)) by (rewrite Rabs_minus_sym; exact Hd).
    assert (vp1 - vp0 <> 0) by (apply (abs_gt_neq _ _ (1 / 10 ^ 14)); lra). assert (vp0 - vp1 <> 0) by lra.
    unfold lsh3_convG; cbv zeta. zero_abs. split_tree. finish.
  Qed.
  Lemma convG3_pair12 : vp2 = vp1 -> e2 = e1 -> 1 / 10 ^ 14 < Rabs (vp1 - vp0) ->
    conv = Some (matrix 6 (Gmat (Mc3 Ml) (g2c (cls_pair 1 2) l e) t)).
  Proof.
    intros E1 E2 Hd. unfold conv, l, e. subst vp2 e2.
    assert (Hd' : 1 / 10 ^ 14 < Rabs (vp0 - vp1)) by (rewrite Rabs_minus_sym; exact Hd).
    assert (vp1 - vp0 <> 0) by (apply (abs_gt_neq _ _ (1 / 10 ^ 14)); lra). assert (vp0 - vp1 <> 0) by lra.
    unfold lsh3_convG; cbv zeta. zero_abs. split_tree. finish.
  Qed.
End Conv3p.

(* C24 -- property theorems, LogarithmicStrainHandler<3u> with the eigen-data of C as inputs (statements only; proofs in C24Proofs3D.v). *)
From Coq Require Import Reals List.
From C24 Require Import C24Spec C24Tac C24_gen C24Proofs3D.
Import ListNotations.
Local Open Scope R_scope.
(* getNTensors: (A . N_ij)/2 is the eigenbasis component n_i . A n_j, n_i the columns of m *)
Theorem C24_N_tensors_3D : forall m0 m1 m2 m3 m4 m5 m6 m7 m8 A0 A1 A2 A3 A4 A5 i j, (i < 3)%nat -> (j < 3)%nat ->
  comp3 (lsh3_N m0 m1 m2 m3 m4 m5 m6 m7 m8) [A0; A1; A2; A3; A4; A5] i j = eig3 [m0; m1; m2; m3; m4; m5; m6; m7; m8] [A0; A1; A2; A3; A4; A5] i j.
Proof. exact N3_components. Qed.
Print Assumptions C24_N_tensors_3D.
(* stress conversion S = 2 T : p preserves the power: S : dE_GL = T : dE_log with dE_log = 2 p : dE_GL *)
Theorem C24_stress_power_preserved_3D : forall p0 p1 p2 p3 p4 p5 p6 p7 p8 p9 p10 p11 p12 p13 p14 p15 p16 p17 p18 p19 p20 p21 p22 p23 p24 p25 p26 p27 p28 p29 p30 p31 p32 p33 p34 p35
  T0 T1 T2 T3 T4 T5 D0 D1 D2 D3 D4 D5,
  dotl (lsh3_stress p0 p1 p2 p3 p4 p5 p6 p7 p8 p9 p10 p11 p12 p13 p14 p15 p16 p17 p18 p19 p20 p21 p22 p23 p24 p25 p26 p27 p28 p29 p30 p31 p32 p33 p34 p35 T0 T1 T2 T3 T4 T5)
       [D0; D1; D2; D3; D4; D5] =
  dotl [T0; T1; T2; T3; T4; T5] (map (fun x => 2 * x) (mvec 6 [p0; p1; p2; p3; p4; p5; p6; p7; p8; p9; p10; p11; p12; p13; p14; p15; p16; p17; p18; p19; p20; p21; p22; p23; p24; p25; p26; p27; p28; p29; p30; p31; p32; p33; p34; p35] [D0; D1; D2; D3; D4; D5])).
Proof. exact stress3_power. Qed.
Print Assumptions C24_stress_power_preserved_3D.
(* convertTangentModuli, first part: 4 p^T Ks p *)
Theorem C24_tangent_first_order_part_3D : forall p0 p1 p2 p3 p4 p5 p6 p7 p8 p9 p10 p11 p12 p13 p14 p15 p16 p17 p18 p19 p20 p21 p22 p23 p24 p25 p26 p27 p28 p29 p30 p31 p32 p33 p34 p35
  K0 K1 K2 K3 K4 K5 K6 K7 K8 K9 K10 K11 K12 K13 K14 K15 K16 K17 K18 K19 K20 K21 K22 K23 K24 K25 K26 K27 K28 K29 K30 K31 K32 K33 K34 K35,
  lsh3_convK p0 p1 p2 p3 p4 p5 p6 p7 p8 p9 p10 p11 p12 p13 p14 p15 p16 p17 p18 p19 p20 p21 p22 p23 p24 p25 p26 p27 p28 p29 p30 p31 p32 p33 p34 p35
             K0 K1 K2 K3 K4 K5 K6 K7 K8 K9 K10 K11 K12 K13 K14 K15 K16 K17 K18 K19 K20 K21 K22 K23 K24 K25 K26 K27 K28 K29 K30 K31 K32 K33 K34 K35 =
  matrix 6 (ptKp 6 [p0; p1; p2; p3; p4; p5; p6; p7; p8; p9; p10; p11; p12; p13; p14; p15; p16; p17; p18; p19; p20; p21; p22; p23; p24; p25; p26; p27; p28; p29; p30; p31; p32; p33; p34; p35]
                   [K0; K1; K2; K3; K4; K5; K6; K7; K8; K9; K10; K11; K12; K13; K14; K15; K16; K17; K18; K19; K20; K21; K22; K23; K24; K25; K26; K27; K28; K29; K30; K31; K32; K33; K34; K35]).
Proof. exact convK3_spec. Qed.
Print Assumptions C24_tangent_first_order_part_3D.
(* second part on the dyads of M_ij = 2 E_idx(i,j), three equal eigenvalues: confluent second divided differences *)
Theorem C24_tangent_second_derivative_coefficients_three_equal_3D : forall vp0 vp1 vp2 e0 e1 e2 t0 t1 t2 t3 t4 t5, 0 < vp0 -> 0 < vp1 -> 0 < vp2 ->
  vp1 = vp0 -> vp2 = vp0 ->
  lsh3_convGb vp0 vp1 vp2 e0 e1 e2 t0 t1 t2 t3 t4 t5 =
  Some (matrix 6 (Gmat (Mc3 basis6) (g2c cls_all (tab3 vp0 vp1 vp2) (tab3 e0 e1 e2)) (tsym3 [t0; t1; t2; t3; t4; t5]))).
Proof. exact convGb3_all_equal. Qed.
Print Assumptions C24_tangent_second_derivative_coefficients_three_equal_3D.

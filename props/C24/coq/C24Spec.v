(* C24 -- specification, written independently of the code.
   1D (principal axes fixed): Hencky strain 1/2 ln C, Green-Lagrange strain (C-1)/2, power conjugacy, chain rule for the tangent moduli.
   2D / 3D: with the spectral decomposition C = sum_i l_i n_i (x) n_i and g = 1/2 ln, E_log = g(C) and
     dE_log = Dg(C)[dC],  (Dg(C)[A])_ij   = g[l_i, l_j] a_ij                                      (Daleckii-Krein)
     D2g(C)[A,B]_ij = sum_k g[l_i, l_j, l_k] (a_ik b_kj + b_ik a_kj)                               (second order)
   in the eigenbasis (a_ij = n_i . A n_j), g[.,.] and g[.,.,.] the divided differences of g, confluent where eigenvalues coincide.
   With C = 1 + 2 E_GL:  P = dE_log/dE_GL = 2 Dg(C),  S = T : P,  dS/dE_GL = P^T : Ks : P + 4 T : D2g(C). *)
From Coq Require Import Reals List Arith.
From Coquelicot Require Import Coquelicot.
Import ListNotations.
Local Open Scope R_scope.
Definition hencky (F : R) : R := / 2 * ln (F * F).
Definition green_lagrange (F : R) : R := (F * F - 1) / 2.
(* dS_i/dE_GL_j for S_i = T_i / C_i, T a function of the Hencky strains with derivative Ks, E_log_j = 1/2 ln (1 + 2 E_GL_j) *)
Definition material_moduli (Ks T Ci Cj : R) (diag : bool) : R := Ks / (Ci * Cj) - (if diag then 2 * T / (Ci * Ci) else 0).

(* ---- vectors of tensor components (the library's notation: an orthonormal basis of symmetric tensors, so that the double contraction
   of two symmetric tensors is the dot product of their component vectors) and matrices stored row major *)
Fixpoint dotl (x y : list R) : R := match x, y with a :: x', b :: y' => a * b + dotl x' y' | _, _ => 0 end.
Fixpoint rows (n : nat) (K : list R) (k : nat) : list (list R) := match k with O => [] | S k' => firstn n K :: rows n (skipn n K) k' end.
Definition mvec (n : nat) (K v : list R) : list R := map (fun r => dotl r v) (rows n K n).
Definition qf (n : nat) (K A B : list R) : R := dotl A (mvec n K B).
Definition ten (n k : nat) (L : list R) : list R := firstn n (skipn (k * n) L).
(* position of the tensor n_i (x) n_j + n_j (x) n_i in the lists of N / M tensors: (0,0) (1,1) (2,2) (0,1) (0,2) (1,2) in 3D; in 2D the
   third eigenvector is e_z: N(0) N(1) N(2) N(3) = (0,0) (1,1) (2,2) (0,1), and the (0,2), (1,2) components of plane tensors vanish *)
Definition idx3 (i j : nat) : nat :=
  match i, j with
  | O, O => 0 | S O, S O => 1 | S (S O), S (S O) => 2 | O, S O => 3 | S O, O => 3 | O, S (S O) => 4 | S (S O), O => 4 | _, _ => 5
  end%nat.
Definition comp3 (L V : list R) (i j : nat) : R := dotl V (ten 6 (idx3 i j) L) / 2.
Definition comp2 (L V : list R) (i j : nat) : R :=
  match i, j with
  | O, O => dotl V (ten 4 0 L) / 2 | S O, S O => dotl V (ten 4 1 L) / 2 | S (S O), S (S O) => dotl V (ten 4 2 L) / 2
  | O, S O => dotl V (ten 4 3 L) / 2 | S O, O => dotl V (ten 4 3 L) / 2 | _, _ => 0
  end.
(* ---- divided differences of g = 1/2 ln at the eigenvalues l (values e = g(l)), confluent on the classes of coinciding eigenvalues *)
Definition sum3 (f : nat -> R) : R := f 0%nat + f 1%nat + f 2%nat.
Definition dg (l : nat -> R) (i : nat) : R := 1 / (2 * l i).
Definition g1 (l e : nat -> R) (i j : nat) : R := (e i - e j) / (l i - l j).
Definition g1c (cls : nat -> nat) (l e : nat -> R) (i j : nat) : R :=
  if (cls i =? cls j)%nat then dg l (cls i) else g1 l e (cls i) (cls j).
Definition g2c (cls : nat -> nat) (l e : nat -> R) (i j k : nat) : R :=
  let ci := cls i in let cj := cls j in let ck := cls k in
  if (ci =? cj)%nat then (if (cj =? ck)%nat then - 1 / (4 * l ci * l ci) else (g1 l e ck ci - dg l ci) / (l ck - l ci))
  else if (cj =? ck)%nat then (g1 l e ci cj - dg l cj) / (l ci - l cj)
  else if (ci =? ck)%nat then (g1 l e cj ci - dg l ci) / (l cj - l ci)
  else e ci / ((l ci - l cj) * (l ci - l ck)) + e cj / ((l cj - l ci) * (l cj - l ck)) + e ck / ((l ck - l ci) * (l ck - l cj)).
(* bilinear forms of Dg(C) and of T : D2g(C) on symmetric tensors given by their eigenbasis components *)
Definition dk1 (th : nat -> nat -> R) (a b : nat -> nat -> R) : R := sum3 (fun i => sum3 (fun j => th i j * a i j * b i j)).
Definition dk2 (g2 : nat -> nat -> nat -> R) (t a b : nat -> nat -> R) : R :=
  sum3 (fun p => sum3 (fun q => sum3 (fun r => g2 p q r * t p q * (a p r * b r q + b p r * a r q)))).
Definition tab3 (x0 x1 x2 : R) (i : nat) : R := match i with O => x0 | S O => x1 | _ => x2 end.
(* classes of eigenvalues *)
Definition cls_distinct (i : nat) : nat := i.
Definition cls_all (i : nat) : nat := 0%nat.
Definition cls_pair (a b : nat) (i : nat) : nat := if (i =? b)%nat then a else i.   (* l_a = l_b, the third one apart *)
(* ---- matrices, in the component basis, of the bilinear forms above.  Component a of the tensor M_ij = F n_i (x) F n_j + F n_j (x) F n_i
   (N_ij when F = 1) in the lists of traced tensors *)
Definition nthT (n : nat) (L : list R) (k a : nat) : R := nth (k * n + a) L 0.
Definition Mc3 (L : list R) (i j a : nat) : R := nthT 6 L (idx3 i j) a.
Definition Mc2 (L : list R) (i j a : nat) : R :=
  match i, j with
  | O, O => nthT 4 L 0 a | S O, S O => nthT 4 L 1 a | S (S O), S (S O) => nthT 4 L 2 a | O, S O => nthT 4 L 3 a | S O, O => nthT 4 L 3 a | _, _ => 0
  end.
(* matrix of (A, B) |-> 4 T : D2g(C)[A, B]: with a_ij = (A . M_ij)/2 it is sum_pqr g2(p,q,r) t_pq (M_pr (x) M_rq + M_rq (x) M_pr) *)
Definition Gmat (Mc : nat -> nat -> nat -> R) (g2 : nat -> nat -> nat -> R) (t : nat -> nat -> R) (a b : nat) : R :=
  sum3 (fun p => sum3 (fun q => sum3 (fun r => g2 p q r * t p q * (Mc p r a * Mc r q b + Mc r q a * Mc p r b)))).
(* plane tensors: the eigenvector 2 is e_z, the components (0,2) and (1,2) vanish, only the in-plane divided differences and g''(l_2)/2 occur *)
Definition g2plane (g2 : nat -> nat -> nat -> R) (l : nat -> R) (i j k : nat) : R :=
  match i, j, k with
  | S (S O), S (S O), S (S O) => - 1 / (4 * l 2%nat * l 2%nat)
  | S (S O), _, _ => 0 | _, S (S O), _ => 0 | _, _, S (S O) => 0
  | _, _, _ => g2 i j k
  end.
(* matrix of (A, B) |-> A : Dg(C)[B] = sum_ij g[l_i, l_j] a_ij b_ij with a_ij = (A . N_ij)/2: sum_ij g[l_i,l_j] N_ij (x) N_ij / 4 *)
Definition Pmat (Nc : nat -> nat -> nat -> R) (th : nat -> nat -> R) (a b : nat) : R :=
  sum3 (fun i => sum3 (fun j => th i j * Nc i j a * Nc i j b / 4)).
Definition g1plane (th : nat -> nat -> R) (i j : nat) : R :=
  match i, j with S (S O), S (S O) => th 2%nat 2%nat | S (S O), _ => 0 | _, S (S O) => 0 | _, _ => th i j end.
Definition tsym3 (t : list R) (i j : nat) : R := nth (idx3 i j) t 0.
Definition tsym2 (t : list R) (i j : nat) : R :=
  match i, j with O, O => nth 0 t 0 | S O, S O => nth 1 t 0 | S (S O), S (S O) => nth 2 t 0 | O, S O => nth 3 t 0 | S O, O => nth 3 t 0 | _, _ => 0 end.
Definition matrix (n : nat) (f : nat -> nat -> R) : list R := flat_map (fun a => map (fun b => f a b) (seq 0 n)) (seq 0 n).
(* 4 p^T Ks p *)
Definition ptKp (n : nat) (p Ks : list R) (a b : nat) : R :=
  4 * fold_right (fun k s => fold_right (fun l s' => nth (k * n + a) p 0 * nth (k * n + l) Ks 0 * nth (l * n + b) p 0 + s') 0 (seq 0 n) + s) 0 (seq 0 n).
(* ---- eigenbasis components of a symmetric tensor given by its component vector A (a_ij = n_i . A n_j), n_i the columns of m.
   3D: A = [A11; A22; A33; sqrt2 A12; sqrt2 A13; sqrt2 A23], m row major 3x3.  2D: A = [A11; A22; A33; sqrt2 A12], m = [m00; m01; m10; m11]
   and the third eigenvector is e_z *)
Definition eig3 (m A : list R) (i j : nat) : R :=
  let n k c := nth (3 * c + k) m 0 in
  let a k := nth k A 0 in
  a 0%nat * n i 0%nat * n j 0%nat + a 1%nat * n i 1%nat * n j 1%nat + a 2%nat * n i 2%nat * n j 2%nat
  + a 3%nat / sqrt 2 * (n i 0%nat * n j 1%nat + n i 1%nat * n j 0%nat)
  + a 4%nat / sqrt 2 * (n i 0%nat * n j 2%nat + n i 2%nat * n j 0%nat)
  + a 5%nat / sqrt 2 * (n i 1%nat * n j 2%nat + n i 2%nat * n j 1%nat).
Definition eig2 (m A : list R) (i j : nat) : R :=
  let n k c := nth (2 * c + k) m 0 in
  let a k := nth k A 0 in
  match i, j with
  | S (S O), S (S O) => a 2%nat
  | S (S O), _ => 0 | _, S (S O) => 0
  | _, _ => a 0%nat * n i 0%nat * n j 0%nat + a 1%nat * n i 1%nat * n j 1%nat + a 3%nat / sqrt 2 * (n i 0%nat * n j 1%nat + n i 1%nat * n j 0%nat)
  end.
Definition oget (o : option (list R)) : list R := match o with Some l => l | None => [] end.
Definition slice (o n : nat) (l : list R) : list R := firstn n (skipn o l).
Definition half_ln (x : R) : R := ln x / 2.

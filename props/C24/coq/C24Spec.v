(* C24 -- specification (1D, principal axes fixed): Hencky strain 1/2 ln C, Green-Lagrange strain (C-1)/2, power conjugacy,
   chain rule for the tangent moduli.  Written independently of the code. *)
From Coq Require Import Reals List.
From Coquelicot Require Import Coquelicot.
Local Open Scope R_scope.
Definition hencky (F : R) : R := / 2 * ln (F * F).
Definition green_lagrange (F : R) : R := (F * F - 1) / 2.
(* dS_i/dE_GL_j for S_i = T_i / C_i, T a function of the Hencky strains with derivative Ks, E_log_j = 1/2 ln (1 + 2 E_GL_j) *)
Definition material_moduli (Ks T Ci Cj : R) (diag : bool) : R := Ks / (Ci * Cj) - (if diag then 2 * T / (Ci * Ci) else 0).

// C24: tracer (engine S) and driver for LogarithmicStrainHandler<1u> (1D; Lagrangian setting).
//   trace gen <out.v> [seed] : Hencky strain, T -> S conversion, tangent conversion as Coq definitions; AGREE lines
#include "symtfel.hxx"
#include "TFEL/Math/stensor.hxx"
#include "TFEL/Math/tensor.hxx"
#include "TFEL/Math/st2tost2.hxx"
#include "TFEL/Material/LogarithmicStrainHandler.hxx"
#include <cstring>
#include <iostream>
using namespace symv;
using tfel::material::LogarithmicStrainHandler;
using tfel::material::LogarithmicStrainHandlerBase;

// in: F[3], T[3], Ks[9]; out: e[3], S[3], Kr[9], T'(S)[3] (round trip)
template <typename T>
std::vector<T> h1(const std::vector<T>& F, const std::vector<T>& Tt, const std::vector<T>& Ks) {
  tfel::math::tensor<1u, T> Ft;
  for (int i = 0; i < 3; ++i) Ft[i] = F[i];
  LogarithmicStrainHandler<1u, T> h(LogarithmicStrainHandlerBase::LAGRANGIAN, Ft);
  tfel::math::stensor<1u, T> Ts{Tt[0], Tt[1], Tt[2]};
  tfel::math::st2tost2<1u, T> K;
  for (unsigned short i = 0; i < 3; ++i)
    for (unsigned short j = 0; j < 3; ++j) K(i, j) = Ks[3 * i + j];
  const auto e = h.getHenckyLogarithmicStrain();
  const auto S = h.convertToSecondPiolaKirchhoffStress(Ts);
  const auto Kr = h.convertToMaterialTangentModuli(K, Ts);
  const auto Tb = h.convertFromSecondPiolaKirchhoffStress(S);
  std::vector<T> r{e[0], e[1], e[2], S[0], S[1], S[2]};
  for (unsigned short i = 0; i < 3; ++i)
    for (unsigned short j = 0; j < 3; ++j) r.push_back(Kr(i, j));
  for (unsigned short i = 0; i < 3; ++i) r.push_back(Tb[i]);
  return r;
}
int main(int argc, char** argv) {
  if (argc >= 3 && !std::strcmp(argv[1], "gen")) {
    Trace tr("C24_gen");
    Rng rng(argc >= 4 ? std::strtoull(argv[3], nullptr, 10) : 1);
    auto F = vars("F", 3), T = vars("T", 3), K = vars("K", 9);
    std::vector<Sym> ps = F;
    ps.insert(ps.end(), T.begin(), T.end());
    ps.insert(ps.end(), K.begin(), K.end());
    auto r = h1<Sym>(F, T, K);
    tr.def("lsh1", ps, r);
    tr.write(argv[2]);
    int nag = 0, nfail = 0;
    for (int k = 0; k < 50; ++k) {
      Env env;
      std::vector<double> Fd, Td, Kd;
      for (int i = 0; i < 3; ++i) { Fd.push_back(rng.range(0.3, 3.)); env["F" + std::to_string(i)] = Fd.back(); }
      for (int i = 0; i < 3; ++i) { Td.push_back(rng.range(-500., 500.)); env["T" + std::to_string(i)] = Td.back(); }
      for (int i = 0; i < 9; ++i) { Kd.push_back(rng.range(-1e5, 2e5)); env["K" + std::to_string(i)] = Kd.back(); }
      auto d = h1<double>(Fd, Td, Kd);
      bool ok = true;
      for (size_t i = 0; ok && i < d.size(); ++i) ok = close(eval(r[i], env), d[i], 0, 1e-11L);
      std::printf("%s lsh1 case %d\n", ok ? "AGREE" : "AGREE-FAIL", k);
      ok ? ++nag : ++nfail;
      // independent numeric statement of the property on the real double code (failing-input search)
      bool pw = true;
      for (int i = 0; i < 3; ++i) {
        pw = pw && std::fabs(d[i] - 0.5 * std::log(Fd[i] * Fd[i])) <= 1e-13;                       // Hencky strain = 1/2 ln C
        pw = pw && std::fabs(d[3 + i] * Fd[i] - Td[i] / Fd[i]) <= 1e-12 * std::fabs(Td[i] / Fd[i]);  // S dE_GL = T dE_log
        for (int j = 0; j < 3; ++j) {
          const double Ci = Fd[i] * Fd[i], Cj = Fd[j] * Fd[j];
          const double ex = Kd[3 * i + j] / (Ci * Cj) - (i == j ? 2 * Td[i] / (Ci * Ci) : 0.);
          pw = pw && std::fabs(d[6 + 3 * i + j] - ex) <= 1e-11 * (std::fabs(ex) + std::fabs(Kd[3 * i + j]) / (Ci * Cj));
        }
      }
      std::printf("%s case %d F %.17g %.17g %.17g T %.17g %.17g %.17g\n", pw ? "SPEC" : "SPEC-FAIL", k, Fd[0], Fd[1], Fd[2], Td[0], Td[1], Td[2]);
    }
    std::printf("SUMMARY agree=%d fail=%d\n", nag, nfail);
    return 0;
  }
  return 2;
}

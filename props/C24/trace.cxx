// C24: tracer (engine S) of LogarithmicStrainHandler<1u>, <2u>, <3u> of /repo.
//   trace gen <out.v> [seed]
// 1D: the whole handler, both settings.  2D / 3D: the eigen-decomposition of C (Jacobi iterations, not traceable) is replaced, for the
// symbolic scalar only, by injected eigenvalues vp and eigenvectors m (full specialisation of the solver class used by the handler);
// the handler is traced in stages with fresh variables at the interfaces:
//   lsh<N>_N m            : getNTensors                                   (private static)
//   lsh<N>_M m F          : getEulerianMTensors                           (private static)
//   lsh<N>_build_L vp m   : Builder, Lagrangian setting  -> p, e, Hencky strain      (decision tree over the eigenvalue-tie tests)
//   lsh<N>_build_E vp m F : Builder, Eulerian setting    -> p
//   lsh<N>_stress p T     : convertToSecondPiolaKirchhoffStress          -> S
//   lsh<N>_conv vp e p T Ks N M : convertTangentModuli (private)           -> Kr       (decision tree over the eigenvalue-tie tests)
// The composition of the stages is compared with the public entry points of the double instantiation (real Jacobi solver) on seeded
// deformation gradients, degenerate ones included (AGREE lines).
#include "symtfel.hxx"
#include <cstring>
#include <iostream>
#include <memory>
#include <functional>
#include "TFEL/Math/stensor.hxx"
#include "TFEL/Math/tensor.hxx"
#include "TFEL/Math/st2tost2.hxx"
#include "TFEL/Math/tmatrix.hxx"
#include "TFEL/Math/t2tost2.hxx"
#include "TFEL/Math/st2tot2.hxx"
#include "TFEL/Math/t2tot2.hxx"

// ---- injected eigen-data for the symbolic scalar
namespace c24 {
  inline symv::Sym g_vp[3];
  inline symv::Sym g_m[9];
}  // namespace c24
namespace tfel::math::internals {
  template <>
  struct StensorEigenSolver<stensor_common::FSESJACOBIEIGENSOLVER, 3u, symv::Sym> {
    static void computeEigenValues(symv::Sym& a, symv::Sym& b, symv::Sym& c, const symv::Sym* const, const bool) {
      a = c24::g_vp[0]; b = c24::g_vp[1]; c = c24::g_vp[2];
    }
    static void computeEigenVectors(tvector<3u, symv::Sym>& vp, tmatrix<3u, 3u, symv::Sym>& m, const symv::Sym* const, const bool) {
      for (unsigned short i = 0; i < 3; ++i) {
        vp(i) = c24::g_vp[i];
        for (unsigned short j = 0; j < 3; ++j) m(i, j) = c24::g_m[3 * i + j];
      }
    }
  };
  template <>
  struct StensorEigenSolver<stensor_common::FSESJACOBIEIGENSOLVER, 2u, symv::Sym> {
    static void computeEigenValues(symv::Sym& a, symv::Sym& b, symv::Sym& c, const symv::Sym* const, const bool) {
      a = c24::g_vp[0]; b = c24::g_vp[1]; c = c24::g_vp[2];
    }
    static void computeEigenVectors(tvector<3u, symv::Sym>& vp, tmatrix<3u, 3u, symv::Sym>& m, const symv::Sym* const, const bool) {
      for (unsigned short i = 0; i < 3; ++i) {
        vp(i) = c24::g_vp[i];
        for (unsigned short j = 0; j < 3; ++j) m(i, j) = c24::g_m[3 * i + j];
      }
    }
  };
}  // namespace tfel::math::internals

// FiniteStrainBehaviourTangentOperator.hxx includes the handler: both under the access override
#define private public
#define protected public
#include "TFEL/Material/FiniteStrainBehaviourTangentOperator.hxx"
#include "TFEL/Material/LogarithmicStrainHandler.hxx"
#undef private
#undef protected

using namespace symv;
using tfel::material::LogarithmicStrainHandler;
using tfel::material::LogarithmicStrainHandlerBase;
using tfel::math::st2tost2;
using tfel::math::stensor;
using tfel::math::tensor;
using tfel::math::tmatrix;
using tfel::math::tvector;
static constexpr auto LAG = LogarithmicStrainHandlerBase::LAGRANGIAN;
static constexpr auto EUL = LogarithmicStrainHandlerBase::EULERIAN;

template <typename T>
void append(std::vector<T>& a, const std::vector<T>& b) { a.insert(a.end(), b.begin(), b.end()); }
template <unsigned short N, typename T>
std::vector<T> flat4(const st2tost2<N, T>& K) {
  constexpr unsigned short n = tfel::math::StensorDimeToSize<N>::value;
  std::vector<T> r;
  for (unsigned short i = 0; i < n; ++i)
    for (unsigned short j = 0; j < n; ++j) r.push_back(K(i, j));
  return r;
}
template <unsigned short N, typename T>
std::vector<T> flat2(const stensor<N, T>& s) { return std::vector<T>(s.begin(), s.end()); }

// ================================================================================================================ 1D
// in: F[3], T[3], Ks[9], setting; out: e[3], S[3], Kmat[9], T'(S)[3], sigma[3], T''(sigma)[3], Kspatial[9], Ktruesdell[9]
template <typename T>
std::vector<T> h1(const std::vector<T>& x, bool eulerian) {
  tensor<1u, T> Ft;
  for (int i = 0; i < 3; ++i) Ft[i] = x[i];
  LogarithmicStrainHandler<1u, T> h(eulerian ? EUL : LAG, Ft);
  stensor<1u, T> Ts{x[3], x[4], x[5]};
  st2tost2<1u, T> K;
  for (unsigned short i = 0; i < 3; ++i)
    for (unsigned short j = 0; j < 3; ++j) K(i, j) = x[6 + 3 * i + j];
  std::vector<T> r = flat2<1u, T>(h.getHenckyLogarithmicStrain());
  const auto S = h.convertToSecondPiolaKirchhoffStress(Ts);
  append(r, flat2<1u, T>(S));
  append(r, flat4<1u, T>(h.convertToMaterialTangentModuli(K, Ts)));
  append(r, flat2<1u, T>(h.convertFromSecondPiolaKirchhoffStress(S)));
  const auto sig = h.convertToCauchyStress(Ts);
  append(r, flat2<1u, T>(sig));
  append(r, flat2<1u, T>(h.convertFromCauchyStress(sig)));
  append(r, flat4<1u, T>(h.convertToSpatialTangentModuli(K, Ts)));
  append(r, flat4<1u, T>(h.convertToCauchyStressTruesdellRateTangentModuli(K, Ts)));
  return r;
}

// ================================================================================================================ 2D / 3D
template <unsigned short N>
struct Dim;
template <>
struct Dim<3u> {
  static constexpr int ns = 6, nf = 9, nm = 9, nt = 6;  // stensor size, tensor size, free entries of m, number of N tensors traced
  template <typename T>
  static tmatrix<3u, 3u, T> mat(const T* m) {
    tmatrix<3u, 3u, T> r;
    for (unsigned short i = 0; i < 3; ++i)
      for (unsigned short j = 0; j < 3; ++j) r(i, j) = m[3 * i + j];
    return r;
  }
};
template <>
struct Dim<2u> {
  static constexpr int ns = 4, nf = 5, nm = 4, nt = 4;
  template <typename T>
  static tmatrix<3u, 3u, T> mat(const T* m) {  // plane tensors: third eigenvector is e_z (what the 2D solver returns)
    tmatrix<3u, 3u, T> r;
    r(0, 0) = m[0]; r(0, 1) = m[1]; r(1, 0) = m[2]; r(1, 1) = m[3];
    r(0, 2) = r(1, 2) = r(2, 0) = r(2, 1) = T(0);
    r(2, 2) = T(1);
    return r;
  }
};
template <typename T>
void inject(const T*, const tmatrix<3u, 3u, T>&) {}
template <>
void inject<Sym>(const Sym* vp, const tmatrix<3u, 3u, Sym>& m) {
  for (int i = 0; i < 3; ++i) c24::g_vp[i] = vp[i];
  for (unsigned short i = 0; i < 3; ++i)
    for (unsigned short j = 0; j < 3; ++j) c24::g_m[3 * i + j] = m(i, j);
}
template <unsigned short N, typename T>
tensor<N, T> tens(const T* f) {
  tensor<N, T> F;
  for (int i = 0; i < Dim<N>::nf; ++i) F[i] = f[i];
  return F;
}
// the N (or M) tensors in the order in which they are traced: 3D: (0,0) (1,1) (2,2) (0,1) (0,2) (1,2); 2D: N(0..3)
template <typename T>
std::vector<T> flatN(const tmatrix<3u, 3u, stensor<3u, T>>& n) {
  std::vector<T> r;
  const int ij[6][2] = {{0, 0}, {1, 1}, {2, 2}, {0, 1}, {0, 2}, {1, 2}};
  for (auto& p : ij) append(r, flat2<3u, T>(n(p[0], p[1])));
  return r;
}
template <typename T>
std::vector<T> flatN(const tvector<4u, stensor<2u, T>>& n) {
  std::vector<T> r;
  for (unsigned short k = 0; k < 4; ++k) append(r, flat2<2u, T>(n(k)));
  return r;
}
template <typename T>
tmatrix<3u, 3u, stensor<3u, T>> unflatN3(const T* x) {
  tmatrix<3u, 3u, stensor<3u, T>> n;
  const int ij[6][2] = {{0, 0}, {1, 1}, {2, 2}, {0, 1}, {0, 2}, {1, 2}};
  for (int k = 0; k < 6; ++k) {
    stensor<3u, T> s;
    for (int c = 0; c < 6; ++c) s[c] = x[6 * k + c];
    n(ij[k][0], ij[k][1]) = s;
    n(ij[k][1], ij[k][0]) = s;
  }
  return n;
}
template <typename T>
tvector<4u, stensor<2u, T>> unflatN2(const T* x) {
  tvector<4u, stensor<2u, T>> n;
  for (int k = 0; k < 4; ++k)
    for (int c = 0; c < 4; ++c) n(k)[c] = x[4 * k + c];
  return n;
}
// x = m[nm] : N tensors ; x = m[nm] F[nf] : Eulerian M tensors
template <unsigned short N, typename T>
std::vector<T> stageN(const std::vector<T>& x) {
  return flatN<T>(LogarithmicStrainHandler<N, T>::getNTensors(Dim<N>::template mat<T>(x.data())));
}
template <unsigned short N, typename T>
std::vector<T> stageM(const std::vector<T>& x) {
  return flatN<T>(LogarithmicStrainHandler<N, T>::getEulerianMTensors(Dim<N>::template mat<T>(x.data()), tens<N, T>(x.data() + Dim<N>::nm)));
}
// x = vp[3] m[nm] (F[nf]) : the Builder through the public constructor; only meaningful for T = Sym (injected eigen-data).
// out: p (ns*ns) ++ e (3) ++ Hencky strain (ns)        [Lagrangian]       p (ns*ns)        [Eulerian]
template <unsigned short N>
std::vector<Sym> stageBuild(const std::vector<Sym>& x, bool eulerian) {
  const auto m = Dim<N>::template mat<Sym>(x.data() + 3);
  inject<Sym>(x.data(), m);
  tensor<N, Sym> F = tensor<N, Sym>::Id();
  if (eulerian) F = tens<N, Sym>(x.data() + 3 + Dim<N>::nm);
  LogarithmicStrainHandler<N, Sym> h(eulerian ? EUL : LAG, F);
  auto r = flat4<N, Sym>(h.p);
  if (!eulerian) {
    for (int i = 0; i < 3; ++i) r.push_back(h.e[i]);
    append(r, flat2<N, Sym>(h.getHenckyLogarithmicStrain()));
  }
  return r;
}
// a handler whose members are given (through the Builder and the private constructor, the way the public constructor does)
template <unsigned short N, typename T>
std::unique_ptr<LogarithmicStrainHandler<N, T>> make(bool eulerian, const T* vp, const T* e, const T* p, const tmatrix<3u, 3u, T>& m,
                                                      const tensor<N, T>& F) {
  using H = LogarithmicStrainHandler<N, T>;
  const T one[3] = {T(1), T(1), T(1)};
  inject<T>(one, tmatrix<3u, 3u, T>::Id());
  typename H::Builder b = [&] {
    if constexpr (N == 2u) return typename H::Builder(LAG, tensor<N, T>::Id(), true);
    else return typename H::Builder(LAG, tensor<N, T>::Id());
  }();
  constexpr int ns = Dim<N>::ns;
  for (unsigned short i = 0; i < ns; ++i)
    for (unsigned short j = 0; j < ns; ++j) b.p(i, j) = p[ns * i + j];
  for (unsigned short i = 0; i < 3; ++i) {
    b.vp(i) = vp[i];
    b.e(i) = e[i];
  }
  b.m = m;
  return std::unique_ptr<H>(new H(std::move(b), eulerian ? EUL : LAG, F));
}
// x = p[ns*ns] T[ns] : S = convertToSecondPiolaKirchhoffStress(T)
template <unsigned short N, typename T>
std::vector<T> stageStress(const std::vector<T>& x) {
  constexpr int ns = Dim<N>::ns;
  const T z[3] = {T(1), T(1), T(1)}, ze[3] = {T(0), T(0), T(0)};
  auto h = make<N, T>(false, z, ze, x.data(), tmatrix<3u, 3u, T>::Id(), tensor<N, T>::Id());
  stensor<N, T> Ts;
  for (int c = 0; c < ns; ++c) Ts[c] = x[ns * ns + c];
  return flat2<N, T>(h->convertToSecondPiolaKirchhoffStress(Ts));
}
// x = vp[3] e[3] p[ns*ns] T[ns] Ks[ns*ns] N[nt*ns] M[nt*ns] : Kr = convertTangentModuli(Ks, T, N, M)
template <unsigned short N, typename T>
std::vector<T> stageConv(const std::vector<T>& x) {
  constexpr int ns = Dim<N>::ns, nt = Dim<N>::nt;
  const T* vp = x.data();
  const T* e = vp + 3;
  const T* p = e + 3;
  const T* Tt = p + ns * ns;
  const T* ks = Tt + ns;
  const T* n = ks + ns * ns;
  const T* mm = n + nt * ns;
  auto h = make<N, T>(false, vp, e, p, tmatrix<3u, 3u, T>::Id(), tensor<N, T>::Id());
  stensor<N, T> Ts;
  for (int c = 0; c < ns; ++c) Ts[c] = Tt[c];
  st2tost2<N, T> Ks, Kr;
  for (unsigned short i = 0; i < ns; ++i)
    for (unsigned short j = 0; j < ns; ++j) Ks(i, j) = ks[ns * i + j];
  if constexpr (N == 3u) h->convertTangentModuli(Kr, Ks, Ts, unflatN3<T>(n), unflatN3<T>(mm));
  else h->convertTangentModuli(Kr, Ks, Ts, unflatN2<T>(n), unflatN2<T>(mm));
  return flat4<N, T>(Kr);
}

// the two parts of the conversion, as specialisations of the same code:
//   convK: T = 0 (and distinct constant eigenvalues: no test on symbolic values) -> the part 4 p^T Ks p;   x = p[ns*ns] Ks[ns*ns]
//   convG: Ks = 0, p = 0, and N_ij = 2 x (the basis tensor number idx(i,j)) so that zeta_ij = (T | N_ij)/2 = T_idx(i,j) =: t_ij
//          -> the geometric part as a function of the eigen-data, of the t_ij and of the M tensors;       x = vp[3] e[3] t[ns] M[nt*ns]
template <unsigned short N, typename T>
std::vector<T> stageConvK(const std::vector<T>& x) {
  constexpr int ns = Dim<N>::ns, nt = Dim<N>::nt;
  std::vector<T> y{T(1), T(2), T(3), T(0), T(0), T(0)};
  y.insert(y.end(), x.begin(), x.begin() + ns * ns);
  for (int c = 0; c < ns; ++c) y.push_back(T(0));
  y.insert(y.end(), x.begin() + ns * ns, x.end());
  for (int c = 0; c < 2 * nt * ns; ++c) y.push_back(T(0));
  return stageConv<N, T>(y);
}
template <unsigned short N, typename T>
std::vector<T> stageConvG(const std::vector<T>& x) {
  constexpr int ns = Dim<N>::ns, nt = Dim<N>::nt;
  std::vector<T> y(x.begin(), x.begin() + 6);
  for (int c = 0; c < ns * ns; ++c) y.push_back(T(0));
  // T: component k of T is t of the k-th traced tensor; 2D: N(0) N(1) N(2) N(3) <-> components 0 1 2 3
  y.insert(y.end(), x.begin() + 6, x.begin() + 6 + ns);
  for (int c = 0; c < ns * ns; ++c) y.push_back(T(0));
  for (int k = 0; k < nt; ++k)
    for (int c = 0; c < ns; ++c) y.push_back(c == k ? T(2) : T(0));
  y.insert(y.end(), x.begin() + 6 + ns, x.end());
  return stageConv<N, T>(y);
}

// ---------------------------------------------------------------------------------------------------------------- agreement
static int g_ok = 0, g_fail = 0;
static void verdict(const char* name, int it, bool ok, const std::vector<double>& x) {
  std::printf("%s %s case %d", ok ? "AGREE" : "AGREE-FAIL", name, it);
  if (!ok)
    for (double v : x) std::printf(" %.17g", v);
  std::printf("\n");
  ok ? ++g_ok : ++g_fail;
}
static bool evalv(const std::vector<Leaf>& leaves, const std::vector<Sym>& ps, const std::vector<double>& x, std::vector<long double>& r) {
  Env env;
  for (size_t k = 0; k < ps.size(); ++k) env[Store::get().nodes[node_of(ps[k])].name] = x[k];
  std::string err;
  return eval_leaves(leaves, env, r, &err) && err.empty();
}
static bool same(const std::vector<long double>& r, const std::vector<double>& d, long double tol = 1e-10L) {
  if (r.size() != d.size()) return false;
  long double sc = 1e-300L;
  for (auto v : r) sc = std::max(sc, std::fabs(v));
  for (size_t i = 0; i < d.size(); ++i)
    if (!(std::fabs(r[i] - d[i]) <= tol * sc)) return false;
  return true;
}
static std::vector<Leaf> one_leaf(const std::vector<Sym>& out) {
  Leaf L;
  L.out = out;
  return {L};
}
static std::vector<Sym> nvars(const char* p, int n) {
  std::vector<Sym> v;
  for (int i = 0; i < n; ++i) v.push_back(var(std::string(p) + std::to_string(i)));
  return v;
}
// a random deformation gradient with prescribed principal stretches (possibly repeated): F = Q diag(l) R^T, Q, R rotations
static void rotation(Rng& rng, double R[3][3], bool plane) {
  const double a = rng.range(0, 6.28), b = plane ? 0 : rng.range(0, 3.14), c = plane ? 0 : rng.range(0, 6.28);
  const double ca = std::cos(a), sa = std::sin(a), cb = std::cos(b), sb = std::sin(b), cc = std::cos(c), sc = std::sin(c);
  const double Rz[3][3] = {{ca, -sa, 0}, {sa, ca, 0}, {0, 0, 1}}, Rx[3][3] = {{1, 0, 0}, {0, cb, -sb}, {0, sb, cb}}, Rz2[3][3] = {{cc, -sc, 0}, {sc, cc, 0}, {0, 0, 1}};
  double t[3][3] = {};
  for (int i = 0; i < 3; ++i)
    for (int j = 0; j < 3; ++j)
      for (int k = 0; k < 3; ++k) t[i][j] += Rz[i][k] * Rx[k][j];
  for (int i = 0; i < 3; ++i)
    for (int j = 0; j < 3; ++j) {
      R[i][j] = 0;
      for (int k = 0; k < 3; ++k) R[i][j] += t[i][k] * Rz2[k][j];
    }
}
template <unsigned short N>
tensor<N, double> randomF(Rng& rng, int kind) {
  double l[3] = {rng.range(0.6, 1.6), rng.range(0.6, 1.6), rng.range(0.6, 1.6)};
  if (kind == 1) l[1] = l[0];
  if (kind == 2) l[2] = l[0];
  if (kind == 3) l[2] = l[1];
  if (kind == 4) l[1] = l[2] = l[0];
  if (N == 2u && kind >= 2) l[2] = rng.range(0.6, 1.6);
  double Q[3][3], R[3][3];
  rotation(rng, Q, N == 2u);
  rotation(rng, R, N == 2u);
  double f[3][3] = {};
  for (int i = 0; i < 3; ++i)
    for (int j = 0; j < 3; ++j)
      for (int k = 0; k < 3; ++k) f[i][j] += Q[i][k] * l[k] * R[j][k];
  tensor<N, double> F;
  F[0] = f[0][0]; F[1] = f[1][1]; F[2] = f[2][2]; F[3] = f[0][1]; F[4] = f[1][0];
  if constexpr (N == 3u) { F[5] = f[0][2]; F[6] = f[2][0]; F[7] = f[1][2]; F[8] = f[2][1]; }
  return F;
}

template <unsigned short N>
void gen_dim(Trace& tr, Rng& rng) {
  constexpr int ns = Dim<N>::ns, nf = Dim<N>::nf, nm = Dim<N>::nm, nt = Dim<N>::nt;
  const std::string pre = "lsh" + std::to_string(N) + "_";
  // ---- N and M tensors
  auto mv = nvars("m", nm), Fv = nvars("F", nf);
  const auto outN = stageN<N, Sym>(mv);
  tr.def(pre + "N", mv, outN);
  std::vector<Sym> mF = mv;
  append(mF, Fv);
  const auto outM = stageM<N, Sym>(mF);
  tr.def(pre + "M", mF, outM);
  // ---- Builder
  auto vpv = nvars("vp", 3);
  std::vector<Sym> bl = vpv;
  append(bl, mv);
  auto leavesL = tr.def_paths(pre + "build_L", bl, [&] {
    if constexpr (N == 3u) {
      // keep the tree small: on the all-distinct branch of computeIsotropicFunctionDerivative the regularised inverses of
      // computeEigenTensorsDerivatives (tests |x| < 100 min and |x / (eps/4)| > 1 on the six differences) are decided here first, in
      // the same terms; their regularisation zone is outside the traced domain
      const Sym eps = LogarithmicStrainHandler<N, Sym>::eps;
      const bool b01 = tfel::math::abs(bl[0] - bl[1]) < eps, b02 = tfel::math::abs(bl[0] - bl[2]) < eps, b12 = tfel::math::abs(bl[1] - bl[2]) < eps;
      if (!b01 && !b02 && !b12) {
        const Sym eps4 = eps / 4;
        for (int i = 0; i < 3; ++i)
          for (int j = 0; j < 3; ++j) {
            if (i == j) continue;
            const Sym x = bl[i] - bl[j];
            if (tfel::math::abs(x) < 100 * std::numeric_limits<Sym>::min()) throw std::runtime_error("outside the traced domain: null difference");
            if (!(tfel::math::abs(x / eps4) > 1)) throw std::runtime_error("outside the traced domain: regularised inverse");
          }
      }
    }
    return stageBuild<N>(bl, false);
  });
  std::vector<Sym> be = bl;
  append(be, Fv);
  auto leavesE = tr.def_paths(pre + "build_E", be, [&] { return stageBuild<N>(be, true); });
  // ---- stress and tangent conversions with the members of the handler as inputs
  auto pv = nvars("p", ns * ns), Tv = nvars("T", ns), Kv = nvars("K", ns * ns), ev = nvars("e", 3), Nv = nvars("N", nt * ns), Mv = nvars("M", nt * ns);
  std::vector<Sym> sp = pv;
  append(sp, Tv);
  const auto outS = stageStress<N, Sym>(sp);
  tr.def(pre + "stress", sp, outS);
  std::vector<Sym> cp = vpv;
  append(cp, ev); append(cp, pv); append(cp, Tv); append(cp, Kv); append(cp, Nv); append(cp, Mv);
  // keep the trees small: the comparisons of the handler are decided first, in the same terms; a difference of eigenvalues equal to
  // eps in absolute value, or `equal' pairs that are not transitive, are outside the traced domain
  auto predecide = [](const std::vector<Sym>& v) {
    const Sym eps = LogarithmicStrainHandler<N, Sym>::eps;
    auto cls = [&](int i, int j) {
      const Sym a = tfel::math::abs(v[i] - v[j]);
      if (a < eps) return 0;
      if (a > eps) return 1;
      throw std::runtime_error("outside the traced domain: |vp_i - vp_j| = eps");
    };
    if constexpr (N == 3u) {
      const int c10 = cls(1, 0), c12 = cls(1, 2), c20 = cls(2, 0);
      if ((c10 == 0) + (c12 == 0) + (c20 == 0) == 2) throw std::runtime_error("outside the traced domain: non transitive equalities of eigenvalues");
    } else {
      (void)cls(0, 1);
    }
  };
  auto leavesC = tr.def_paths(pre + "conv", cp, [&] {
    predecide(cp);
    return stageConv<N, Sym>(cp);
  });
  std::vector<Sym> ck = pv;
  append(ck, Kv);
  const auto outK = stageConvK<N, Sym>(ck);
  tr.def(pre + "convK", ck, outK);
  auto tv = nvars("t", ns);
  std::vector<Sym> cg = vpv;
  append(cg, ev); append(cg, tv); append(cg, Mv);
  auto leavesG = tr.def_paths(pre + "convG", cg, [&] {
    predecide(cg);
    return stageConvG<N, Sym>(cg);
  });
  // the same with M_ij = 2 x (basis tensor number idx(i,j)) as well: the coefficients of the dyads M_x (x) M_y, x = vp[3] e[3] t[ns]
  std::vector<Sym> cb = vpv;
  append(cb, ev); append(cb, tv);
  auto basisM = [&](const std::vector<Sym>& v) {
    std::vector<Sym> y = v;
    for (int k = 0; k < nt; ++k)
      for (int c = 0; c < ns; ++c) y.push_back(c == k ? Sym(2) : Sym(0));
    return y;
  };
  auto leavesB = tr.def_paths(pre + "convGb", cb, [&] {
    predecide(cb);
    return stageConvG<N, Sym>(basisM(cb));
  });
  (void)leavesB;
  // ---- agreement of each stage with its double instantiation, then of the composed stages with the public entry points
  for (int it = 0; it < 40; ++it) {
    const auto F = randomF<N>(rng, it % 5);
    LogarithmicStrainHandler<N, double> hL(LAG, F), hE(EUL, F);
    std::vector<double> vp{hL.vp[0], hL.vp[1], hL.vp[2]}, e{hL.e[0], hL.e[1], hL.e[2]}, m, Fd(F.begin(), F.end());
    if (N == 3u) for (unsigned short i = 0; i < 3; ++i) for (unsigned short j = 0; j < 3; ++j) m.push_back(hL.m(i, j));
    else m = {hL.m(0, 0), hL.m(0, 1), hL.m(1, 0), hL.m(1, 1)};
    std::vector<double> x;
    std::vector<long double> r;
    // N, M
    verdict((pre + "N").c_str(), it, evalv(one_leaf(outN), mv, m, r) && same(r, stageN<N, double>(m)), m);
    x = m; append(x, Fd);
    verdict((pre + "M").c_str(), it, evalv(one_leaf(outM), mF, x, r) && same(r, stageM<N, double>(x)), x);
    // Builder against the members of the real handlers (real solver)
    x = vp; append(x, m);
    std::vector<double> ref = flat4<N, double>(hL.p);
    append(ref, e);
    append(ref, flat2<N, double>(hL.getHenckyLogarithmicStrain()));
    verdict((pre + "build_L").c_str(), it, evalv(leavesL, bl, x, r) && same(r, ref, 1e-8L), x);
    append(x, Fd);
    verdict((pre + "build_E").c_str(), it, evalv(leavesE, be, x, r) && same(r, flat4<N, double>(hE.p), 1e-8L), x);
    // stress and tangent conversion
    std::vector<double> Td, Kd;
    for (int c = 0; c < ns; ++c) Td.push_back(rng.range(-500., 500.));
    for (int c = 0; c < ns * ns; ++c) Kd.push_back(rng.range(-1e3, 2e3));
    stensor<N, double> Ts;
    st2tost2<N, double> Ks;
    for (int c = 0; c < ns; ++c) Ts[c] = Td[c];
    for (unsigned short i = 0; i < ns; ++i) for (unsigned short j = 0; j < ns; ++j) Ks(i, j) = Kd[ns * i + j];
    x = flat4<N, double>(hL.p); append(x, Td);
    verdict((pre + "stress").c_str(), it, evalv(one_leaf(outS), sp, x, r) && same(r, flat2<N, double>(hL.convertToSecondPiolaKirchhoffStress(Ts))), x);
    const auto Nd = stageN<N, double>(m);
    std::vector<double> mFd = m; append(mFd, Fd);
    const auto Md = stageM<N, double>(mFd);
    x = vp; append(x, e); append(x, flat4<N, double>(hL.p)); append(x, Td); append(x, Kd); append(x, Nd); append(x, Nd);
    verdict((pre + "conv_material").c_str(), it, evalv(leavesC, cp, x, r) && same(r, flat4<N, double>(hL.convertToMaterialTangentModuli(Ks, Ts)), 1e-8L), x);
    x = flat4<N, double>(hL.p); append(x, Kd);
    verdict((pre + "convK").c_str(), it, evalv(one_leaf(outK), ck, x, r) && same(r, stageConvK<N, double>(x)), x);
    x = vp; append(x, e); append(x, Td); append(x, Md);
    verdict((pre + "convG").c_str(), it, evalv(leavesG, cg, x, r) && same(r, stageConvG<N, double>(x), 1e-8L), x);
    x = vp; append(x, e); append(x, flat4<N, double>(hE.p)); append(x, Td); append(x, Kd); append(x, Nd); append(x, Md);
    verdict((pre + "conv_spatial").c_str(), it, evalv(leavesC, cp, x, r) && same(r, flat4<N, double>(hE.convertToSpatialTangentModuli(Ks, Ts)), 1e-8L), x);
  }
}

int main(int argc, char** argv) {
  if (argc >= 3 && !std::strcmp(argv[1], "gen")) {
    Trace tr("C24_gen");
    Rng rng(argc >= 4 ? std::strtoull(argv[3], nullptr, 10) : 1);
    {  // 1D
      auto ps = nvars("F", 3);
      append(ps, nvars("T", 3));
      append(ps, nvars("K", 9));
      for (int eul = 0; eul < 2; ++eul) {
        const auto r = h1<Sym>(ps, eul);
        tr.def(eul ? "lsh1_E" : "lsh1", ps, r);
        for (int k = 0; k < 30; ++k) {
          std::vector<double> x;
          for (int i = 0; i < 3; ++i) x.push_back(rng.range(0.3, 3.));
          for (int i = 0; i < 3; ++i) x.push_back(rng.range(-500., 500.));
          for (int i = 0; i < 9; ++i) x.push_back(rng.range(-1e5, 2e5));
          std::vector<long double> rr;
          verdict(eul ? "lsh1_E" : "lsh1", k, evalv(one_leaf(r), ps, x, rr) && same(rr, h1<double>(x, eul), 1e-11L), x);
        }
      }
    }
    gen_dim<2u>(tr, rng);
    gen_dim<3u>(tr, rng);
    tr.write(argv[2]);
    std::printf("SUMMARY agree=%d fail=%d\n", g_ok, g_fail);
    return 0;
  }
  return 2;
}

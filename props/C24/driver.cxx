// C24: execution of the real LogarithmicStrainHandler<2u>, <3u> (double, real eigen-solver) against an independent statement of the
// property.  For each deformation gradient F (generic, with two or three equal principal stretches, rotated), dual stress T (not
// coaxial with C) and tangent operator Ks in the logarithmic space:
//   hencky   : getHenckyLogarithmicStrain vs 1/2 ln C computed here (own Jacobi iterations)
//   power    : T : dE_log = S : dE_GL, dE_log by central differences of the Hencky strain along six (four) directions dE_GL
//   tangent  : convertToMaterialTangentModuli(Ks, T0) vs central differences of S(E_GL) = convertToSecondPiolaKirchhoffStress(T0 + Ks:(E_log - E_log0))
//   roundtrip: convertFromSecondPiolaKirchhoffStress(S) = T, convertFromCauchyStress(convertToCauchyStress(T)) = T (both settings)
//   cauchy   : Eulerian convertToCauchyStress = F S F^T / J with S from the Lagrangian handler
//   spatial  : Eulerian convertToSpatialTangentModuli = push-forward F F C^SE F F of the material moduli of the Lagrangian handler
//   tangent* : the same after adding 2 (eta_ok - eta_code) sum_{i<>j} zeta_ij N_ik (x) N_jk, the correction of the coefficient eta on a state
//              with exactly two equal eigenvalues (eta must be the divided difference with the DOUBLE eigenvalue repeated); computed with
//              the eigenvectors kept by the handler (the faulty formula depends on their choice in the degenerate plane); only used to tell this known finding from any other deviation
// One line per case:  CASE <N> <kind> | F | T | hencky power tangent roundtrip cauchy spatial tangent* (deviations relative to the scale of each quantity)
#include "TFEL/Math/stensor.hxx"
#include "TFEL/Math/tensor.hxx"
#include "TFEL/Math/st2tost2.hxx"
#include "TFEL/Math/t2tost2.hxx"
#include "TFEL/Math/st2tot2.hxx"
#include "TFEL/Math/t2tot2.hxx"
// access to the eigen-data kept by the handler: only read to tell the known finding (see tangent*) from other deviations
#define private public
#define protected public
#include "TFEL/Material/FiniteStrainBehaviourTangentOperator.hxx"
#include "TFEL/Material/LogarithmicStrainHandler.hxx"
#undef private
#undef protected
#include <array>
#include <cmath>
#include <cstdint>
#include <cstdio>
#include <cstdlib>
#include <vector>
using namespace tfel::math;
using tfel::material::LogarithmicStrainHandler;
using tfel::material::LogarithmicStrainHandlerBase;
typedef std::array<std::array<double, 3>, 3> M3;
static M3 mul(const M3& a, const M3& b) {
  M3 c{};
  for (int i = 0; i < 3; i++)
    for (int j = 0; j < 3; j++)
      for (int k = 0; k < 3; k++) c[i][j] += a[i][k] * b[k][j];
  return c;
}
static M3 tr(const M3& a) {
  M3 c{};
  for (int i = 0; i < 3; i++)
    for (int j = 0; j < 3; j++) c[i][j] = a[j][i];
  return c;
}
static void jacobi(M3 a, double w[3], M3& v) {
  v = {{{1, 0, 0}, {0, 1, 0}, {0, 0, 1}}};
  for (int sweep = 0; sweep < 100; ++sweep) {
    double off = 0;
    for (int i = 0; i < 3; i++)
      for (int j = i + 1; j < 3; j++) off += a[i][j] * a[i][j];
    if (off < 1e-300) break;
    for (int p = 0; p < 3; p++)
      for (int q = p + 1; q < 3; q++) {
        if (std::fabs(a[p][q]) < 1e-300) continue;
        const double th = (a[q][q] - a[p][p]) / (2 * a[p][q]);
        const double t = (th >= 0 ? 1 : -1) / (std::fabs(th) + std::sqrt(th * th + 1));
        const double c = 1 / std::sqrt(t * t + 1), s = t * c;
        M3 R = {{{1, 0, 0}, {0, 1, 0}, {0, 0, 1}}};
        R[p][p] = c; R[q][q] = c; R[p][q] = s; R[q][p] = -s;
        a = mul(tr(R), mul(a, R));
        v = mul(v, R);
      }
  }
  for (int i = 0; i < 3; i++) w[i] = a[i][i];
}
static M3 fun(const M3& c, double (*f)(double)) {
  double w[3];
  M3 v;
  jacobi(c, w, v);
  M3 d{};
  for (int i = 0; i < 3; i++) d[i][i] = f(w[i]);
  return mul(v, mul(d, tr(v)));
}
static double halflog(double x) { return 0.5 * std::log(x); }
static double sq(double x) { return std::sqrt(x); }
struct Rng {
  uint64_t s;
  explicit Rng(uint64_t seed) : s(seed * 0x9E3779B97F4A7C15ULL + 0x1234567ULL) {}
  uint64_t next() {
    uint64_t z = (s += 0x9E3779B97F4A7C15ULL);
    z = (z ^ (z >> 30)) * 0xBF58476D1CE4E5B9ULL;
    z = (z ^ (z >> 27)) * 0x94D049BB133111EBULL;
    return z ^ (z >> 31);
  }
  double range(double a, double b) { return a + (b - a) * ((next() >> 11) * (1.0 / 9007199254740992.0)); }
};
static M3 rotation(Rng& rng, bool plane) {
  const double a = rng.range(0.2, 6.), b = plane ? 0 : rng.range(0.2, 2.9), c = plane ? 0 : rng.range(0.2, 6.);
  const M3 Rz = {{{std::cos(a), -std::sin(a), 0}, {std::sin(a), std::cos(a), 0}, {0, 0, 1}}};
  const M3 Rx = {{{1, 0, 0}, {0, std::cos(b), -std::sin(b)}, {0, std::sin(b), std::cos(b)}}};
  const M3 Rz2 = {{{std::cos(c), -std::sin(c), 0}, {std::sin(c), std::cos(c), 0}, {0, 0, 1}}};
  return mul(Rz, mul(Rx, Rz2));
}
template <unsigned short N>
tensor<N, double> toT(const M3& f) {
  tensor<N, double> F;
  F[0] = f[0][0]; F[1] = f[1][1]; F[2] = f[2][2]; F[3] = f[0][1]; F[4] = f[1][0];
  if constexpr (N == 3u) { F[5] = f[0][2]; F[6] = f[2][0]; F[7] = f[1][2]; F[8] = f[2][1]; }
  return F;
}
template <unsigned short N>
M3 fromS(const stensor<N, double>& s) {
  const double c = std::sqrt(0.5);
  M3 a{};
  a[0][0] = s[0]; a[1][1] = s[1]; a[2][2] = s[2];
  a[0][1] = a[1][0] = s[3] * c;
  if constexpr (N == 3u) { a[0][2] = a[2][0] = s[4] * c; a[1][2] = a[2][1] = s[5] * c; }
  return a;
}
template <unsigned short N>
stensor<N, double> toS(const M3& a) {
  const double c = std::sqrt(2.);
  stensor<N, double> s;
  s[0] = a[0][0]; s[1] = a[1][1]; s[2] = a[2][2]; s[3] = a[0][1] * c;
  if constexpr (N == 3u) { s[4] = a[0][2] * c; s[5] = a[1][2] * c; }
  return s;
}
template <unsigned short N>
double nrm(const stensor<N, double>& s) {
  double r = 0;
  for (unsigned short i = 0; i < StensorDimeToSize<N>::value; ++i) r = std::max(r, std::fabs(s[i]));
  return r;
}
static constexpr auto LAG = LogarithmicStrainHandlerBase::LAGRANGIAN;
static constexpr auto EUL = LogarithmicStrainHandlerBase::EULERIAN;

template <unsigned short N>
void one_case(const char* kind, const M3& F, const stensor<N, double>& T0, const st2tost2<N, double>& Ks) {
  constexpr unsigned short ns = StensorDimeToSize<N>::value;
  using H = LogarithmicStrainHandler<N, double>;
  const M3 C = mul(tr(F), F);
  const double J = F[0][0] * (F[1][1] * F[2][2] - F[1][2] * F[2][1]) - F[0][1] * (F[1][0] * F[2][2] - F[1][2] * F[2][0]) +
                   F[0][2] * (F[1][0] * F[2][1] - F[1][1] * F[2][0]);
  const H hL(LAG, toT<N>(F)), hE(EUL, toT<N>(F));
  const auto e0 = hL.getHenckyLogarithmicStrain();
  // hencky
  const auto eref = toS<N>(fun(C, halflog));
  double dh = 0;
  for (unsigned short i = 0; i < ns; ++i) dh = std::max(dh, std::fabs(e0[i] - eref[i]));
  for (unsigned short i = 0; i < ns; ++i) dh = std::max(dh, std::fabs(hE.getHenckyLogarithmicStrain()[i] - eref[i]));
  dh /= std::max(1e-3, nrm<N>(eref));
  // power and tangent by central differences on C -> C + 2 h dE, F' = sqrt(C') (the Lagrangian quantities depend on C only)
  const auto S0 = hL.convertToSecondPiolaKirchhoffStress(T0);
  const auto K = hL.convertToMaterialTangentModuli(Ks, T0);
  double dp = 0, dt = 0, kscale = 0, pscale = 1e-300;
  const double hh = 1e-5;
  for (unsigned short b = 0; b < ns; ++b) {
    stensor<N, double> dE(0.);
    dE[b] = 1;
    const M3 dEm = fromS<N>(dE);
    stensor<N, double> Sp, Sm, ep, em;
    for (int sgn = -1; sgn <= 1; sgn += 2) {
      M3 Cp = C;
      for (int i = 0; i < 3; i++)
        for (int j = 0; j < 3; j++) Cp[i][j] += 2 * hh * sgn * dEm[i][j];
      const H h(LAG, toT<N>(fun(Cp, sq)));
      const auto e = h.getHenckyLogarithmicStrain();
      const stensor<N, double> T = T0 + Ks * (e - e0);
      (sgn > 0 ? Sp : Sm) = h.convertToSecondPiolaKirchhoffStress(T);
      (sgn > 0 ? ep : em) = e;
    }
    const stensor<N, double> dEl = (ep - em) / (2 * hh);
    dp = std::max(dp, std::fabs((T0 | dEl) - (S0 | dE)));
    pscale = std::max(pscale, std::fabs(S0 | dE));
    for (unsigned short a = 0; a < ns; ++a) {
      dt = std::max(dt, std::fabs((Sp[a] - Sm[a]) / (2 * hh) - K(a, b)));
      kscale = std::max(kscale, std::fabs(K(a, b)));
    }
  }
  dp /= std::max(pscale, nrm<N>(S0));
  dt /= kscale;
  double dtc = dt;
  if constexpr (N == 3u) {
    double w[3];
    M3 v;
    for (int r = 0; r < 3; ++r) {
      w[r] = hL.vp[r];
      for (int c = 0; c < 3; ++c) v[r][c] = hL.m(r, c);
    }
    int u = -1;  // the single eigenvalue when exactly two coincide
    for (int k = 0; k < 3; ++k) {
      const int i = (k + 1) % 3, j = (k + 2) % 3;
      if (std::fabs(w[i] - w[j]) < 1e-12 && std::fabs(w[k] - w[i]) > 1e-3) u = k;
    }
    if (u >= 0) {
      const int i = (u + 1) % 3;
      const double ei = 0.5 * std::log(w[i]), eu = 0.5 * std::log(w[u]);
      const double eta_code = ((ei - eu) / (w[i] - w[u]) - 1 / (2 * w[u])) / (w[i] - w[u]);
      const double eta_ok = ((eu - ei) / (w[u] - w[i]) - 1 / (2 * w[i])) / (w[u] - w[i]);
      const M3 Tm = fromS<N>(T0);
      auto sym = [&](int a, int b) {
        M3 m{};
        for (int r = 0; r < 3; ++r)
          for (int c = 0; c < 3; ++c) m[r][c] = v[r][a] * v[c][b] + v[r][b] * v[c][a];
        return toS<N>(m);
      };
      st2tost2<N, double> dK(0.);
      for (int a = 0; a < 3; ++a)
        for (int b = 0; b < 3; ++b) {
          if (a == b) continue;
          const int k = 3 - a - b;
          double z = 0;
          for (int r = 0; r < 3; ++r)
            for (int c = 0; c < 3; ++c) z += v[r][a] * Tm[r][c] * v[c][b];
          dK += 2 * (eta_ok - eta_code) * z * (sym(a, k) ^ sym(b, k));
        }
      dtc = 0;
      for (unsigned short b = 0; b < ns; ++b) {
        stensor<N, double> dE(0.);
        dE[b] = 1;
        const M3 dEm = fromS<N>(dE);
        stensor<N, double> Sp, Sm;
        for (int sgn = -1; sgn <= 1; sgn += 2) {
          M3 Cp = C;
          for (int r = 0; r < 3; r++)
            for (int c = 0; c < 3; c++) Cp[r][c] += 2 * hh * sgn * dEm[r][c];
          const H h(LAG, toT<N>(fun(Cp, sq)));
          const stensor<N, double> T = T0 + Ks * (h.getHenckyLogarithmicStrain() - e0);
          (sgn > 0 ? Sp : Sm) = h.convertToSecondPiolaKirchhoffStress(T);
        }
        for (unsigned short a = 0; a < ns; ++a) dtc = std::max(dtc, std::fabs((Sp[a] - Sm[a]) / (2 * hh) - K(a, b) - dK(a, b)));
      }
      dtc /= kscale;
    }
  }
  // round trips
  double dr = 0;
  {
    const auto T1 = hL.convertFromSecondPiolaKirchhoffStress(S0);
    const auto T2 = hL.convertFromCauchyStress(hL.convertToCauchyStress(T0));
    const auto T3 = hE.convertFromCauchyStress(hE.convertToCauchyStress(T0));
    for (unsigned short i = 0; i < ns; ++i) dr = std::max({dr, std::fabs(T1[i] - T0[i]), std::fabs(T2[i] - T0[i]), std::fabs(T3[i] - T0[i])});
    dr /= nrm<N>(T0);
  }
  // Cauchy stress, Eulerian setting, against the push-forward of S
  double dc = 0;
  {
    const M3 Sm3 = fromS<N>(S0);
    M3 sig = mul(F, mul(Sm3, tr(F)));
    for (auto& r : sig)
      for (auto& x : r) x /= J;
    const auto sref = toS<N>(sig);
    const auto s1 = hE.convertToCauchyStress(T0), s2 = hL.convertToCauchyStress(T0);
    for (unsigned short i = 0; i < ns; ++i) dc = std::max({dc, std::fabs(s1[i] - sref[i]), std::fabs(s2[i] - sref[i])});
    dc /= std::max(1e-300, nrm<N>(sref));
  }
  // spatial moduli, Eulerian setting, against the push-forward of the material moduli: c(a,b) = A_a : K : A_b with A_a = F^T E_a F
  double ds = 0;
  {
    const auto Ksp = hE.convertToSpatialTangentModuli(Ks, T0);
    const auto KspL = hL.convertToSpatialTangentModuli(Ks, T0);
    double sc = 0;
    std::vector<stensor<N, double>> pb;
    for (unsigned short a = 0; a < ns; ++a) {
      stensor<N, double> Ea(0.);
      Ea[a] = 1;
      pb.push_back(toS<N>(mul(tr(F), mul(fromS<N>(Ea), F))));
    }
    for (unsigned short a = 0; a < ns; ++a)
      for (unsigned short b = 0; b < ns; ++b) {
        const stensor<N, double> Kb = K * pb[b];
        const double ref = pb[a] | Kb;
        ds = std::max({ds, std::fabs(Ksp(a, b) - ref), std::fabs(KspL(a, b) - ref)});
        sc = std::max(sc, std::fabs(ref));
      }
    ds /= sc;
  }
  std::printf("CASE %d %s |", int(N), kind);
  for (int i = 0; i < 3; ++i)
    for (int j = 0; j < 3; ++j) std::printf(" %.17g", F[i][j]);
  std::printf(" |");
  for (unsigned short i = 0; i < ns; ++i) std::printf(" %.17g", T0[i]);
  std::printf(" | %.3e %.3e %.3e %.3e %.3e %.3e %.3e\n", dh, dp, dt, dr, dc, ds, dtc);
}
template <unsigned short N>
void cases(Rng& rng, int n) {
  constexpr unsigned short ns = StensorDimeToSize<N>::value;
  const char* kinds[6] = {"generic", "pair01", "pair02", "pair12", "triple", "corpus"};
  for (int it = 0; it < n; ++it) {
    int kind = it % 5;
    if (it == 0) kind = 5;
    double l[3] = {rng.range(0.6, 1.6), rng.range(0.6, 1.6), rng.range(0.6, 1.6)};
    // well separated or exactly equal: the divided differences of the distinct branch lose digits when eigenvalues are merely close
    auto apart = [&] { return std::fabs(l[0] - l[1]) > 0.08 && std::fabs(l[0] - l[2]) > 0.08 && std::fabs(l[1] - l[2]) > 0.08; };
    while (!apart()) { l[0] = rng.range(0.6, 1.6); l[1] = rng.range(0.6, 1.6); l[2] = rng.range(0.6, 1.6); }
    if (kind == 1) l[1] = l[0];
    if (kind == 2) l[2] = l[0];
    if (kind == 3) l[2] = l[1];
    if (kind == 4) l[1] = l[2] = l[0];
    if (kind == 5) { l[0] = 1.3; l[1] = l[2] = 0.9; }
    if (N == 2u) {  // generic or in-plane pair (the out-of-plane stretch plays no part in the tests of the 2D handler)
      kind = it % 2;
      if (kind == 1) l[1] = l[0];
    }
    const M3 Q = rotation(rng, N == 2u), R = rotation(rng, N == 2u);
    const M3 D = {{{l[0], 0, 0}, {0, l[1], 0}, {0, 0, l[2]}}};
    const M3 F = mul(Q, mul(D, tr(R)));  // the principal directions of C are the columns of R
    stensor<N, double> T;
    st2tost2<N, double> Ks;
    for (unsigned short i = 0; i < ns; ++i) T[i] = rng.range(-100., 100.);
    for (unsigned short i = 0; i < ns; ++i)
      for (unsigned short j = 0; j < ns; ++j) Ks(i, j) = (i == j ? 1000. : 0.) + rng.range(-100., 100.);
    one_case<N>(kinds[kind], F, T, Ks);
  }
}
// 1D handler against the closed forms: strain 1/2 ln C, S_i = T_i / C_i, dS_i/dE_GL_j = Ks_ij/(C_i C_j) - 2 delta_ij T_i / C_i^2, sigma = T / J,
// spatial moduli Ks_ij - 2 delta_ij T_i, Truesdell-rate moduli = spatial / J; both settings.  CASE 1 <setting> | F | T | six deviations + 0
static void cases1(Rng& rng, int n) {
  using H = LogarithmicStrainHandler<1u, double>;
  for (int it = 0; it < n; ++it) {
    tensor<1u, double> F;
    stensor<1u, double> T;
    st2tost2<1u, double> Ks;
    for (int i = 0; i < 3; ++i) { F[i] = rng.range(0.3, 3.); T[i] = rng.range(-500., 500.); }
    for (unsigned short i = 0; i < 3; ++i)
      for (unsigned short j = 0; j < 3; ++j) Ks(i, j) = rng.range(-1e5, 2e5);
    const H h(it % 2 ? EUL : LAG, F);
    const double J = F[0] * F[1] * F[2];
    const auto e = h.getHenckyLogarithmicStrain();
    const auto S = h.convertToSecondPiolaKirchhoffStress(T);
    const auto K = h.convertToMaterialTangentModuli(Ks, T);
    const auto sg = h.convertToCauchyStress(T);
    const auto Ksp = h.convertToSpatialTangentModuli(Ks, T);
    const auto Ktr = h.convertToCauchyStressTruesdellRateTangentModuli(Ks, T);
    const auto T1 = h.convertFromSecondPiolaKirchhoffStress(S), T2 = h.convertFromCauchyStress(sg);
    double dh = 0, dp = 0, dt = 0, dr = 0, dc = 0, ds = 0, ksc = 0, tsc = 0;
    for (unsigned short i = 0; i < 3; ++i) {
      const double Ci = F[i] * F[i];
      dh = std::max(dh, std::fabs(e[i] - 0.5 * std::log(Ci)));
      dp = std::max(dp, std::fabs(S[i] * Ci - T[i]) / std::max(1., std::fabs(T[i])));
      dr = std::max({dr, std::fabs(T1[i] - T[i]), std::fabs(T2[i] - T[i])});
      dc = std::max(dc, std::fabs(sg[i] - T[i] / J));
      tsc = std::max(tsc, std::fabs(T[i]));
      for (unsigned short j = 0; j < 3; ++j) {
        const double Cj = F[j] * F[j];
        const double km = Ks(i, j) / (Ci * Cj) - (i == j ? 2 * T[i] / (Ci * Ci) : 0.);
        const double ksp = Ks(i, j) - (i == j ? 2 * T[i] : 0.);
        dt = std::max(dt, std::fabs(K(i, j) - km) / (std::fabs(km) + std::fabs(Ks(i, j)) / (Ci * Cj) + 1e-300));
        ds = std::max({ds, std::fabs(Ksp(i, j) - ksp), std::fabs(Ktr(i, j) - ksp / J) * J});
        ksc = std::max(ksc, std::fabs(ksp));
      }
    }
    std::printf("CASE 1 %s |", it % 2 ? "eulerian" : "lagrangian");
    for (int i = 0; i < 3; ++i) std::printf(" %.17g", F[i]);
    std::printf(" |");
    for (int i = 0; i < 3; ++i) std::printf(" %.17g", T[i]);
    std::printf(" | %.3e %.3e %.3e %.3e %.3e %.3e 0\n", dh, dp, dt, dr / tsc, dc / (tsc / J), ds / ksc);
  }
}
int main(int argc, char** argv) {
  Rng rng(argc >= 2 ? std::strtoull(argv[1], nullptr, 10) : 1);
  const int n = argc >= 3 ? std::atoi(argv[2]) : 20;
  cases<3u>(rng, n);
  cases<2u>(rng, n);
  cases1(rng, 2 * n);
  return 0;
}

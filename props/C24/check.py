"""C24 -- logarithmic strain handler (PARTIAL: 1D handler, Lagrangian setting only).
Engine S: LogarithmicStrainHandler<1u> (Hencky strain, T<->S conversions, material tangent moduli) traced from /repo; Coq proves
Hencky strain = 1/2 ln C, S dE_GL = T dE_log with the derivatives of both strain measures proved by auto_derive, the stress round
trip, and the tangent conversion = chain-rule formula.  The same statements are evaluated on the real double code (search)."""
import os
from vlib import guarded_main

SUPPORT = ["src/Exception/ContractViolation.cxx", "src/Exception/TFELException.cxx", "src/Material/LogarithmicStrainHandler.cxx"]


def main(c):
    exe = c.cxx("trace", ["trace.cxx"], SUPPORT)
    gen = os.path.join(c.work, "coq", "C24_gen.v")
    os.makedirs(os.path.dirname(gen), exist_ok=True)
    rc, out, err = c.run([exe, "gen", gen, str(c.seed)])
    if rc != 0:
        c.report("trace", "tracer failed: " + err[-500:], {"stderr": err[-3000:]}, False)
        return
    nag = 0
    for l in out.splitlines():
        if l.startswith("AGREE"):
            nag += 1
            c.count(1, ("agree", l))
            if l.startswith("AGREE-FAIL"):
                c.report("agree:" + l.split()[3], "traced expression and double instantiation disagree: " + l, {"line": l, "seed": c.seed}, True)
        elif l.startswith("SPEC"):
            c.count(1, ("spec", l))
            if nag % 17 == 1:
                c.sample({"case": l})
            if l.startswith("SPEC-FAIL"):
                c.report("spec1d:" + " ".join(l.split()[3:]), "LogarithmicStrainHandler<1u> violates Hencky strain / power conjugacy / tangent chain rule on " + l,
                         {"line": l, "how": "props/C24/trace.cxx gen (SPEC lines)"}, True)
    c.trusted("engine S tracer (cxx/sym/sym.hxx printer), g++ template instantiation with Sym; std::log traced as ln",
              "agreement Sym expression vs double on %d seeded cases" % nag)
    res = c.coq([gen, "C24Spec.v", "C24Proofs.v", "Properties_C24.v"], timeout=600)
    c.coverage["rule"] = "Coq: all F_i > 0, all T, Ks (1D handler, Lagrangian setting); execution: 50 seeded cases of the same statements on the double code"
    c.coverage["traces_validated_against_impl"] = nag
    if not res.ok:
        if any(v[3] for v in c.violations):
            c.notes.append("proof obligations failed: %s; concrete failing inputs reported above" % [f[2] for f in res.failed])
        else:
            c.coq_failures(res, None)


guarded_main("C24", main)

"""C24 -- logarithmic strain handler is energetically consistent.
Engine S.  LogarithmicStrainHandler<1u> is traced whole (both settings); <2u> and <3u> are traced in stages with the eigen-data (vp, m)
of C as symbolic inputs (N / M tensors, Builder, stress conversion, convertTangentModuli = 4 p^T Ks p + geometric part), decision trees
over the eigenvalue-tie tests.  Coq: 1D all conversions; 2D: N tensors, Hencky strain, p = Daleckii-Krein tensor (distinct / confluent),
S : dE_GL = T : dE_log, tangent conversion = chain rule with the second divided differences of 1/2 ln (distinct / confluent), any M
tensors (material and spatial moduli); 3D: N tensors, stress power, 4 p^T Ks p, second-derivative part on the dyads of a basis of
tensors for the leaves distinct / three equal / two equal (quick), for any M tensors (thorough).
Execution of the real double code with the real eigen-solver (driver.cxx): Hencky strain vs own 1/2 ln C, power by finite differences,
tangent by finite differences of the converted stress (rotated F with two or three equal principal stretches, non coaxial T), round
trips, Eulerian Cauchy stress and spatial moduli vs push-forwards."""
import os, re
from concurrent.futures import ThreadPoolExecutor
from vlib import guarded_main

BASE = ["src/Exception/ContractViolation.cxx", "src/Exception/TFELException.cxx", "src/Material/LogarithmicStrainHandler.cxx"]
TOL = {"hencky": 1e-12, "power": 1e-7, "tangent": 2e-5, "roundtrip": 1e-10, "cauchy": 1e-11, "spatial": 1e-10}
WHAT = {"hencky": "getHenckyLogarithmicStrain differs from 1/2 ln C",
        "power": "stress power not preserved: T : dE_log <> S : dE_GL (dE_log by central differences of the Hencky strain)",
        "tangent": "convertToMaterialTangentModuli differs from the derivative of the converted stress S(E_GL) (central differences; closed form in 1D)",
        "roundtrip": "convertFrom...(convertTo...(T)) <> T",
        "cauchy": "Eulerian / Lagrangian convertToCauchyStress differs from F S F^T / J",
        "spatial": "convertToSpatialTangentModuli differs from the push-forward of the material moduli"}


def planned_obligations(c, chains):
    """number of theorems stated in the Properties files of the planned chains (a chain that stops early must still count)"""
    n = 0
    for ch in chains:
        for f in ch:
            if os.path.basename(f).startswith("Properties"):
                n += len(re.findall(r"^\s*(?:Theorem|Lemma|Corollary)\s", open(os.path.join(c.dir, "coq", f)).read(), flags=re.M))
    return n


def judge(c, out):
    finding = False
    seen = set()
    n = 0
    for l in out.splitlines():
        if not l.startswith("CASE"):
            continue
        p = [x.split() for x in l.split("|")]
        N, kind = int(p[0][1]), p[0][2]
        F = [float(x) for x in p[1]]
        T = [float(x) for x in p[2]]
        d = [float(x) for x in p[3]]
        dev = dict(zip(("hencky", "power", "tangent", "roundtrip", "cauchy", "spatial"), d[:6]))
        tstar = d[6]
        n += 1
        c.count(1, (N, kind, tuple(F)), kind != "generic")
        if n % 9 == 1:
            c.sample({"dimension": N, "kind": kind, "F (row major)": F, "T": T, "relative deviations": dev})
        for name, v in dev.items():
            if v != v or v > TOL[name]:
                ident = "%s:N%d:%s" % (name, N, kind)
                replay = {"dimension": N, "kind": kind, "F_row_major": F, "T": T, "deviations": dev, "how": "props/C24/driver.cxx <seed> <n>"}
                if name == "tangent" and N == 3 and tstar == tstar and tstar <= TOL[name]:
                    # the deviation disappears when the coefficient eta of the two-equal-eigenvalue branch is corrected: the known finding
                    finding = True
                    key = "eta-two-equal-eigenvalues:N3:" + kind
                    if key in seen:
                        continue
                    seen.add(key)
                    c.report(key, "LogarithmicStrainHandler<3u>::convertTangentModuli, two equal eigenvalues: coefficient eta taken with the single "
                             "eigenvalue repeated; converted tangent deviates from the finite differences of the converted stress by %.3g (relative), "
                             "by %.3g once eta is corrected; F (row major) = %s, T = %s" % (v, tstar, F, T), replay, True)
                else:
                    key = ident + ":" + ",".join("%.5g" % x for x in F)
                    c.report(key, "%s: relative deviation %.3g (tolerance %.1g); N=%d, %s, F (row major) = %s, T = %s" % (WHAT[name], v, TOL[name], N, kind, F, T),
                             replay, True)
    return n, finding


def main(c):
    with ThreadPoolExecutor(max_workers=2) as ex:
        f1 = ex.submit(c.cxx, "trace", ["trace.cxx"], BASE)
        f2 = ex.submit(c.cxx, "driver", ["driver.cxx"], BASE + ["src/Math/LUException.cxx", "src/Math/MathException.cxx"])
        exe, drv = f1.result(), f2.result()
    gen = os.path.join(c.work, "coq", "C24_gen.v")
    os.makedirs(os.path.dirname(gen), exist_ok=True)
    rc, out, err = c.run([exe, "gen", gen, str(c.seed)])
    if rc != 0:
        c.report("trace", "tracer failed: " + err[-500:], {"stderr": err[-3000:]}, False)
        return
    nag = 0
    for l in out.splitlines():
        if l.startswith("AGREE"):
            nag += 1
            c.count(1, ("agree", l))
            if l.startswith("AGREE-FAIL"):
                c.report("agree:" + "-".join(l.split()[1:4]), "traced definition and double instantiation (or public entry point) disagree: " + l[:400],
                         {"line": l, "seed": c.seed}, True)
    c.trusted("engine S tracer (cxx/sym/sym.hxx printer and path oracle), g++ template instantiation with Sym; std::log, std::log1p(x) traced as ln, ln(1+x)",
              "2D/3D: the eigen-solver of stensor (Jacobi iterations) is replaced for the symbolic scalar by injected eigenvalues / eigenvectors "
              "(full specialisation of StensorEigenSolver<FSESJACOBIEIGENSOLVER,N,Sym> in props/C24/trace.cxx); private members reached with "
              "`#define private public`; handlers with given members built through the Builder and the private constructor",
              "agreement on %d seeded cases: each traced stage vs its double instantiation, and the composed stages (real eigen-data) vs the "
              "public entry points convertToMaterialTangentModuli / convertToSpatialTangentModuli, degenerate eigenvalues included" % nag,
              "that the Daleckii-Krein forms are the Frechet derivatives of 1/2 ln (mathematics, not proved here; checked by finite differences)")
    rc, out, err = c.run([drv, str(c.seed), str(c.pick(25, 400))], 1200)
    ncase, finding = 0, False
    if rc != 0:
        c.report("driver", "driver failed: " + err[-500:], {"stderr": err[-3000:]}, False)
    else:
        ncase, finding = judge(c, out)
    base = c.coq([gen, "C24Spec.v", "C24Tac.v"], timeout=900)
    results = [base]
    planned = []
    pair = ["C24Pair3_refuted.v", "Properties_C24_pair_refuted.v"] if finding else ["C24Pair3.v", "Properties_C24_pair.v"]
    if base.ok:
        chains = [["C24Proofs.v", "Properties_C24.v", "C24Proofs2D.v", "Properties_C24_2D.v"], ["C24Proofs3D.v", "Properties_C24_3D.v"], ["C24Proofs3Dd.v", "Properties_C24_3Dd.v"], pair]
        planned += chains
        with ThreadPoolExecutor(max_workers=4) as ex:
            results += [f.result() for f in [ex.submit(c.coq, ch, 1800) for ch in chains]]
        if not c.quick() and all(r.ok for r in results):
            chains = [["C24Split2.v"], ["C24G3.v"]] + ([] if finding else [["C24G3pair.v", "Properties_C24_thorough_pair.v"]])
            planned += chains + [["Properties_C24_thorough.v"]]
            with ThreadPoolExecutor(max_workers=3) as ex:
                results += [f.result() for f in [ex.submit(c.coq, ch, 3000) for ch in chains]]
            if all(r.ok for r in results):
                results.append(c.coq(["Properties_C24_thorough.v"], timeout=900))
    if finding:
        c.notes.append("known finding observed on the real code: the theorem on the two-equal-eigenvalue leaves is checked in its refuted form "
                       "(Properties_C24_pair_refuted.v); the positive statements (Properties_C24_pair.v, thorough: C24G3pair.v) are used once the fix "
                       "props/C24/fix_eta_two_equal_eigenvalues.diff is applied")
    if c.quick():
        c.notes.append("quick tier: the second-derivative part of the 3D tangent conversion is proved on the dyads of a basis of tensors (all coefficients); "
                       "for arbitrary M tensors (general eigenvectors, spatial moduli) and the 2D split lemma: thorough tier")
    c.coverage["rule"] = ("Coq: all positive eigenvalues, all eigenvectors / M tensors, dual stresses and tangent operators on the stated leaves; execution: "
                          "%d deformation gradients (generic, two equal, three equal principal stretches, rotated; 2D and 3D) with finite differences" % ncase)
    c.coverage["traces_validated_against_impl"] = nag
    c.coverage["obligations"] = planned_obligations(c, planned)
    c.coverage["discharged"] = sum(len(r.discharged) for r in results)

    class Res:
        pass
    res = Res()
    res.ok = all(r.ok for r in results)
    res.failed = [f for r in results for f in r.failed]
    if not res.ok:
        if any(v[3] for v in c.violations):
            c.notes.append("proof obligations failed: %s; concrete failing inputs reported above" % [f[2] for f in res.failed])
        else:
            c.coq_failures(res, None)


guarded_main("C24", main)

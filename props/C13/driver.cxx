// C13 -- driver running the REAL evaluator (sources compiled from /repo) on formulas given on stdin.
// One line per case:  id \t formula \t mode \t x,y,z values (comma separated) [\t order \t subst];  mode = V | C | F
//   mode F (getCxxFormula): `order` = declaration order of the variables ("zxy", ...; "-" = no declaration, the
//   variables are registered as the formula is read), `subst` = "m" to ask for the substitutions x->vx, y->vy, z->vz
// Cases run in forked children (batches) so that a crash of the real code is observed, attributed to its case, and the run goes on.
// Output: R id OK value | OKF value <C++ text> | REJECT message | EVALEXC message | COPYDIFF v v2 v3 | CRASH signal=n
#include <cstdio>
#include <cstdlib>
#include <cstring>
#include <cmath>
#include <algorithm>
#include <iostream>
#include <map>
#include <sstream>
#include <string>
#include <vector>
#include <unistd.h>
#include <sys/wait.h>
#include "TFEL/Math/Evaluator.hxx"

static const std::vector<std::string> VARS = {"x", "y", "z"};

static std::vector<std::string> split(const std::string& s, char c) {
  std::vector<std::string> r;
  std::string cur;
  for (char ch : s) {
    if (ch == c) {
      r.push_back(cur);
      cur.clear();
    } else {
      cur += ch;
    }
  }
  r.push_back(cur);
  return r;
}

// mode F: Evaluator declared with the variables in the given order (or none), values set BY NAME, getValue and
// getCxxFormula (with or without substitutions)
static std::string run_cxx_case(const std::string& formula, const std::vector<double>& vals, const std::string& order,
                                const std::string& subst) {
  char buf[64];
  auto clean = [](std::string r) {
    for (auto& c : r)
      if (c == '\n' || c == '\t') c = ' ';
    return r;
  };
  try {
    std::vector<std::string> decl;
    if (order != "-") {
      for (char c : order) decl.push_back(std::string(1, c));
    }
    tfel::math::Evaluator ev = (order == "-") ? tfel::math::Evaluator(formula) : tfel::math::Evaluator(decl, formula);
    std::map<std::string, std::string> m;
    for (std::size_t i = 0; i != VARS.size(); ++i) {
      try {
        ev.setVariableValue(VARS[i], vals[i]);
        if (subst == "m") m.insert({VARS[i], "v" + VARS[i]});
      } catch (std::exception&) {
        // the variable does not appear in the formula (no declaration)
      }
    }
    try {
      const double v = ev.getValue();
      const auto f = ev.getCxxFormula(m);
      std::snprintf(buf, sizeof(buf), "OKF %.17g ", v);
      return buf + clean(f);
    } catch (std::exception& e) {
      return "EVALEXC " + clean(e.what()).substr(0, 300);
    }
  } catch (std::exception& e) {
    const auto r = clean(e.what());
    return "REJECT " + (r.size() <= 420 ? r : r.substr(0, 160) + " ... " + r.substr(r.size() - 250));
  }
}

static std::string run_case(const std::string& formula, const std::string& mode, const std::vector<double>& vals) {
  // mode V: Evaluator(vars, formula), getValue        -> OK v | REJECT msg | EVALEXC msg
  // mode C: the same through a copy and resolveDependencies() (both must keep the value)
  char buf[700];
  auto clean = [](std::string r) {
    for (auto& c : r)
      if (c == '\n' || c == '\t') c = ' ';
    // the reason of a rejection is at the end of the message (after the formula, which may be long): keep both ends
    return r.size() <= 420 ? r : r.substr(0, 160) + " ... " + r.substr(r.size() - 250);
  };
  try {
    tfel::math::Evaluator ev(VARS, formula);
    for (std::size_t i = 0; i != VARS.size(); ++i) ev.setVariableValue(i, vals[i]);
    try {
      double v = ev.getValue();
      if (mode == "C") {
        tfel::math::Evaluator ev2(ev);
        for (std::size_t i = 0; i != VARS.size(); ++i) ev2.setVariableValue(i, vals[i]);
        const double v2 = ev2.getValue();
        auto r = ev.resolveDependencies();
        for (std::size_t i = 0; i != VARS.size(); ++i) r->setVariableValue(i, vals[i]);
        const double v3 = r->getValue();
        if (!(v2 == v || (v2 != v2 && v != v)) || !(v3 == v || (v3 != v3 && v != v))) {
          std::snprintf(buf, sizeof(buf), "COPYDIFF %.17g %.17g %.17g", v, v2, v3);
          return buf;
        }
      }
      std::snprintf(buf, sizeof(buf), "OK %.17g", v);
      return buf;
    } catch (std::exception& e) {
      return "EVALEXC " + clean(e.what());
    }
  } catch (std::exception& e) {
    return "REJECT " + clean(e.what());
  }
}

int main() {
  // all cases are read first; children process batches and stream one result line per finished case, so that a
  // crash is attributed to the case that was running and the remaining cases of the batch are re-run
  std::vector<std::vector<std::string>> cases;
  std::string line;
  while (std::getline(std::cin, line)) {
    if (line.empty()) continue;
    auto t = split(line, '\t');
    if (t.size() < 4) {
      std::cout << "R " << t[0] << " BADLINE\n";
      continue;
    }
    cases.push_back(t);
  }
  const std::size_t batch = 64;
  std::size_t idx = 0;
  while (idx < cases.size()) {
    int fds[2];
    if (pipe(fds) != 0) return 2;
    std::cout.flush();
    const pid_t pid = fork();
    if (pid == 0) {
      close(fds[0]);
      if (freopen("/dev/null", "w", stderr) == nullptr) {  // silence glibc's abort message of the real code
      }
      for (std::size_t k = idx; k < std::min(cases.size(), idx + batch); ++k) {
        const auto& t = cases[k];
        std::vector<double> vals;
        for (const auto& s : split(t[3], ',')) vals.push_back(std::strtod(s.c_str(), nullptr));
        while (vals.size() < VARS.size()) vals.push_back(0.);
        const auto r = "R " + t[0] + " " +
                       (t[2] == "F" ? run_cxx_case(t[1], vals, t.size() > 4 ? t[4] : "-", t.size() > 5 ? t[5] : "-")
                                    : run_case(t[1], t[2], vals)) +
                       "\n";
        if (write(fds[1], r.c_str(), r.size()) < 0) _exit(3);
      }
      close(fds[1]);
      _exit(0);
    }
    close(fds[1]);
    std::string res;
    char b[4096];
    ssize_t n;
    while ((n = read(fds[0], b, sizeof(b))) > 0) res.append(b, static_cast<std::size_t>(n));
    close(fds[0]);
    int st = 0;
    waitpid(pid, &st, 0);
    // complete lines only
    std::size_t done = 0;
    std::size_t pos = 0;
    while (true) {
      const auto e = res.find('\n', pos);
      if (e == std::string::npos) break;
      std::cout << res.substr(pos, e - pos + 1);
      pos = e + 1;
      ++done;
    }
    idx += done;
    const bool finished = (idx >= cases.size()) || (done == batch);
    if (!finished || WIFSIGNALED(st)) {
      if (idx < cases.size() && !(done == batch)) {
        std::cout << "R " << cases[idx][0] << " CRASH ";
        if (WIFSIGNALED(st)) {
          std::cout << "signal=" << WTERMSIG(st) << "\n";
        } else {
          std::cout << "exit=" << WEXITSTATUS(st) << "\n";
        }
        ++idx;
      }
    }
  }
  return 0;
}

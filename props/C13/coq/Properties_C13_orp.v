(* C13 -- selected when a || b && c is read a || (b && c) by the tree (fix_logical_or_priority.diff applied) *)
From Coq Require Import ZArith QArith List Bool Arith.
From C13 Require Import C14Model C13Model C13Proofs.
Import ListNotations.

Theorem C13_or_binds_looser_than_and : forall v, v_or_first v = true ->
  parse_gen v f_or1 = Some (Cond (LOr c_a (LAnd c_b c_c)) (N_ 1) (N_ 0)) /\
  parse_gen v f_or2 = Some (Cond (LOr (LAnd c_a c_b) c_d) (N_ 1) (N_ 0)).
Proof. exact or_repaired. Qed.
Print Assumptions C13_or_binds_looser_than_and.

(* C13 -- the general theorem: for every expression tree of the fragment  numbers, variables, unary minus, + - * /,
   calls of the one-argument functions,
   printing it with the minimal parentheses (usual precedence, left associativity; a unary minus is written bare at
   the beginning of a group and after * or /) and giving the tokens to the modelled pipeline (treatGroup, treatGroup2,
   TGroup::reduce with its passes ** / * - +) yields a tree that evaluates like the original one, for every variant of
   the pipeline, over the reals, for any interpretation of the functions. *)
From Coq Require Import Reals ZArith QArith List Bool Arith Lia.
From C13 Require Import C14Model C13Model C13Proofs.
Import ListNotations.

(* ------------------------------------------------------------------------------------------------------------
   A. the passes of TGroup::reduce on flat item lists
   ------------------------------------------------------------------------------------------------------------ *)
(* [steps op l l']: wherever the segment l stands in a group, the pass of [op] turns it into l' *)
Definition steps (op : bop) (l l' : list item) : Prop :=
  forall pre rest, pass op pre (l ++ rest) = pass op (rev l' ++ pre) rest.

Lemma steps_nil op : steps op [] [].
Proof. intros pre rest. reflexivity. Qed.

Lemma steps_app op l1 l1' l2 l2' : steps op l1 l1' -> steps op l2 l2' -> steps op (l1 ++ l2) (l1' ++ l2').
Proof. intros H1 H2 pre rest. now rewrite <- app_assoc, H1, H2, rev_app_distr, <- app_assoc. Qed.

Lemma steps_done op l l' : steps op l l' -> pass op [] l = Some l'.
Proof.
  intros H. specialize (H [] []). rewrite !app_nil_r in H. rewrite H. cbn [pass]. now rewrite rev_involutive.
Qed.

Lemma steps_noop op l : no_op op l = true -> steps op l l.
Proof.
  induction l as [|i r IH]; intros H pre rest; [reflexivity|].
  destruct i as [o|e]; cbn [no_op] in H; cbn [app pass rev].
  - apply andb_prop in H. destruct H as [H1 H2]. rewrite H1. rewrite (IH H2). now rewrite <- app_assoc.
  - rewrite (IH H). now rewrite <- app_assoc.
Qed.

Lemma no_op_app op l1 l2 : no_op op (l1 ++ l2) = no_op op l1 && no_op op l2.
Proof.
  induction l1 as [|i r IH]; [reflexivity|]. destruct i as [o|e]; cbn [app no_op]; rewrite IH; [now rewrite andb_assoc|reflexivity].
Qed.

Lemma bop_eqb_refl o : bop_eqb o o = true.
Proof. now destruct o. Qed.

(* a chain  x0 o1 [-] x1 o2 [-] x2 ...  of two operators, [tight] being reduced before [loose]:
   an element is (is the operator the tight one?, is the operand preceded by a unary minus?, operand) *)
Definition fct := (bool * bool * expr)%type.
Definition negi (n : bool) : list item := if n then [IOp Minus] else [].
Definition nx (n : bool) (x : expr) : expr := if n then Neg x else x.
Definition fitems (tight loose : bop) (f : fct) : list item :=
  let '(t, n, x) := f in IOp (if t then tight else loose) :: negi n ++ [IE x].
Definition citems (tight loose : bop) (l : list fct) : list item := flat_map (fitems tight loose) l.

(* the groups left by the pass of the tight operator: the first one, then (unary minus?, group) *)
Fixpoint grp (tight : bop) (cur : expr) (l : list fct) : expr * list (bool * expr) :=
  match l with
  | [] => (cur, [])
  | (true, n, x) :: r => grp tight (mk tight cur (nx n x)) r
  | (false, n, x) :: r => let '(g, gs) := grp tight x r in (cur, (n, g) :: gs)
  end.
Definition gitems (loose : bop) (g : expr * list (bool * expr)) : list item :=
  IE (fst g) :: flat_map (fun p : bool * expr => IOp loose :: negi (fst p) ++ [IE (snd p)]) (snd g).
(* the pass of the loose operator folds the groups to the left *)
Definition lfold (loose : bop) (g : expr * list (bool * expr)) : expr :=
  fold_left (fun acc (p : bool * expr) => mk loose acc (nx (fst p) (snd p))) (snd g) (fst g).

Definition noneg (l : list fct) : Prop := Forall (fun f : fct => snd (fst f) = false) l.

Lemma tight_steps tight loose : tight <> loose -> forall l, (tight = Minus -> noneg l) ->
  forall cur, steps tight (IE cur :: citems tight loose l) (gitems loose (grp tight cur l)).
Proof.
  intros NE. induction l as [|[[t n] x] r IH]; intros NN cur pre rest.
  - reflexivity.
  - assert (NN' : tight = Minus -> noneg r) by (intros E; specialize (NN E); now inversion NN).
    assert (Hn : tight = Minus -> n = false) by (intros E; specialize (NN E); now inversion NN).
    specialize (IH NN').
    destruct t.
    + (* tight operator: merged with the current group *)
      cbn [grp]. rewrite <- (IH (mk tight cur (nx n x)) pre rest).
      cbn [citems flat_map fitems app pass]. rewrite bop_eqb_refl. cbn [negb].
      destruct n; cbn [negi app nx].
      * destruct tight; try reflexivity. now specialize (Hn eq_refl).
      * reflexivity.
    + (* loose operator: a new group begins *)
      cbn [grp]. destruct (grp tight x r) as [g gs] eqn:G.
      cbn [citems flat_map fitems app pass].
      rewrite (bop_eqb_neq loose tight) by congruence. cbn [negb].
      assert (E : forall pre0, pass tight pre0 ((negi n ++ [IE x]) ++ citems tight loose r ++ rest) =
                              pass tight (IE x :: rev (negi n) ++ pre0) (citems tight loose r ++ rest)).
      { intros pre0. destruct n; cbn [negi app rev pass]; [|reflexivity].
        destruct (bop_eqb Minus tight) eqn:Em; [|reflexivity].
        destruct tight; try discriminate Em. now specialize (Hn eq_refl). }
      rewrite <- app_assoc. change (flat_map (fitems tight loose) r) with (citems tight loose r).
      rewrite E. specialize (IH x (rev (negi n) ++ IOp loose :: IE cur :: pre) rest).
      cbn [app pass] in IH. rewrite IH. rewrite G. f_equal.
      unfold gitems. cbn [fst snd flat_map rev]. rewrite !rev_app_distr. cbn [rev app]. rewrite <- !app_assoc. cbn [app].
      destruct n; reflexivity.
Qed.

Lemma loose_steps loose : loose <> Minus -> forall gs g0,
  steps loose (gitems loose (g0, gs)) [IE (lfold loose (g0, gs))].
Proof.
  intros NE. induction gs as [|[n g] r IH]; intros g0 pre rest.
  - reflexivity.
  - specialize (IH (mk loose g0 (nx n g)) pre rest).
    unfold gitems, lfold in *. cbn [fst snd flat_map fold_left app pass rev] in *.
    rewrite bop_eqb_refl. cbn [negb]. rewrite <- IH. rewrite <- !app_assoc.
    destruct n; cbn [negi app nx]; [|reflexivity].
    destruct loose; try reflexivity. congruence.
Qed.

(* a term  x0 { * or / } [-] x1 ... , a sum  [-] t0 { + or - } t1 ... *)
Definition trm := (expr * list fct)%type.                   (* in fct: true = '/' *)
Definition sm := (bool * trm * list (bool * trm))%type.     (* leading unary minus; in the list: true = '-' *)
Definition titems (t : trm) : list item := IE (fst t) :: citems Div Mult (snd t).
Definition sep (m : bool) : bop := if m then Minus else Plus.
Definition sitems (s : sm) : list item :=
  let '(ld, t0, ts) := s in
  negi ld ++ titems t0 ++ flat_map (fun p : bool * trm => IOp (sep (fst p)) :: titems (snd p)) ts.

(* what the code builds *)
Definition tres (t : trm) : expr := lfold Mult (grp Div (fst t) (snd t)).
Definition schain (ts : list (bool * trm)) : list fct := map (fun p : bool * trm => (fst p, false, tres (snd p))) ts.
Definition sres (s : sm) : expr :=
  let '(ld, t0, ts) := s in lfold Plus (grp Minus (nx ld (tres t0)) (schain ts)).

(* the lists between the passes *)
Definition titems1 (t : trm) : list item := gitems Mult (grp Div (fst t) (snd t)).
Definition sitems1 (s : sm) : list item :=
  let '(ld, t0, ts) := s in
  negi ld ++ titems1 t0 ++ flat_map (fun p : bool * trm => IOp (sep (fst p)) :: titems1 (snd p)) ts.
Definition sitems2 (s : sm) : list item :=
  let '(ld, t0, ts) := s in negi ld ++ IE (tres t0) :: citems Minus Plus (schain ts).

Lemma steps_one_op op o : o <> op -> steps op [IOp o] [IOp o].
Proof. intros H. apply steps_noop. cbn [no_op]. now rewrite (bop_eqb_neq o op H). Qed.

Lemma steps_negi op n : op <> Minus -> steps op (negi n) (negi n).
Proof. intros H. destruct n; [apply steps_one_op; congruence | apply steps_nil]. Qed.

Lemma sep_neq op m : op = Div \/ op = Mult \/ op = Pow -> sep m <> op.
Proof. destruct m; cbn; intros [->|[->| ->]]; discriminate. Qed.

Lemma steps_cons_op op o l l' : o <> op -> steps op l l' -> steps op (IOp o :: l) (IOp o :: l').
Proof. intros H S. exact (steps_app op [IOp o] [IOp o] l l' (steps_one_op op o H) S). Qed.

Lemma steps_div (s : sm) : steps Div (sitems s) (sitems1 s).
Proof.
  destruct s as [[ld t0] ts]. cbn [sitems sitems1].
  apply steps_app; [apply steps_negi; discriminate|]. apply steps_app.
  - apply tight_steps; [discriminate | discriminate].
  - induction ts as [|[m t] r IH]; [apply steps_nil|]. cbn [flat_map fst snd].
    apply steps_app; [|exact IH]. apply steps_cons_op; [apply sep_neq; now left|].
    apply tight_steps; discriminate.
Qed.

Lemma steps_mult (s : sm) : steps Mult (sitems1 s) (sitems2 s).
Proof.
  destruct s as [[ld t0] ts]. cbn [sitems1 sitems2].
  apply steps_app; [apply steps_negi; discriminate|].
  change (IE (tres t0) :: citems Minus Plus (schain ts)) with ([IE (tres t0)] ++ citems Minus Plus (schain ts)).
  apply steps_app.
  - unfold titems1, tres. destruct (grp Div (fst t0) (snd t0)) as [g0 gs]. apply loose_steps. discriminate.
  - induction ts as [|[m t] r IH]; [apply steps_nil|].
    change (steps Mult ((IOp (sep m) :: titems1 t) ++ flat_map (fun p : bool * trm => IOp (sep (fst p)) :: titems1 (snd p)) r)
                       ((IOp (sep m) :: [IE (tres t)]) ++ citems Minus Plus (schain r))).
    apply steps_app; [|exact IH]. apply steps_cons_op; [apply sep_neq; right; now left|].
    unfold titems1, tres. destruct (grp Div (fst t) (snd t)) as [g0 gs]. apply loose_steps. discriminate.
Qed.

Lemma noneg_schain ts : noneg (schain ts).
Proof. induction ts as [|[m t] r IH]; constructor; auto. Qed.

Lemma no_pow_citems l : no_op Pow (citems Div Mult l) = true.
Proof. induction l as [|[[t n] x] r IH]; [reflexivity|]. cbn [citems flat_map fitems]. destruct t, n; cbn; exact IH. Qed.

Lemma no_pow_sitems s : no_op Pow (sitems s) = true.
Proof.
  destruct s as [[ld t0] ts]. cbn [sitems]. rewrite !no_op_app.
  assert (T : forall t, no_op Pow (titems t) = true) by (intros t; cbn [titems no_op]; apply no_pow_citems).
  rewrite T. replace (no_op Pow (negi ld)) with true by (now destruct ld). cbn [andb].
  induction ts as [|[m t] r IH]; [reflexivity|]. cbn [flat_map fst snd].
  change (no_op Pow ((IOp (sep m) :: titems t) ++ flat_map (fun p : bool * trm => IOp (sep (fst p)) :: titems (snd p)) r) = true).
  rewrite no_op_app, IH. cbn [no_op]. rewrite T. now destruct m.
Qed.

(* A: the five passes on the items of a sum *)
Theorem reduce_sum (s : sm) : reduce (sitems s) = Some (sres s).
Proof.
  unfold reduce.
  rewrite (steps_done Pow _ _ (steps_noop Pow _ (no_pow_sitems s))). cbn [obind].
  rewrite (steps_done Div _ _ (steps_div s)). cbn [obind].
  rewrite (steps_done Mult _ _ (steps_mult s)). cbn [obind].
  destruct s as [[ld t0] ts]. cbn [sitems2 sres].
  assert (M : pass Minus [] (negi ld ++ IE (tres t0) :: citems Minus Plus (schain ts)) =
              Some (gitems Plus (grp Minus (nx ld (tres t0)) (schain ts)))).
  { pose proof (tight_steps Minus Plus ltac:(discriminate) (schain ts) (fun _ => noneg_schain ts) (nx ld (tres t0)) [] []) as H.
    rewrite !app_nil_r in H. cbn [pass] in H. cbn [pass rev] in H.
    destruct ld; cbn [negi app nx pass bop_eqb negb] in *; rewrite H; cbn [pass]; now rewrite rev_involutive. }
  rewrite M. cbn [obind].
  destruct (grp Minus (nx ld (tres t0)) (schain ts)) as [g0 gs].
  rewrite (steps_done Plus _ _ (loose_steps Plus ltac:(discriminate) gs g0)). reflexivity.
Qed.

(* the same result written with accumulators: [done] = the groups already closed (folded), [pend] = unary minus pending
   on the current group [cur] *)
Definition close (loose : bop) (done : option expr) (pend : bool) (cur : expr) : expr :=
  match done with None => nx pend cur | Some d => mk loose d (nx pend cur) end.
Fixpoint tp (tight loose : bop) (done : option expr) (pend : bool) (cur : expr) (l : list fct) : expr :=
  match l with
  | [] => close loose done pend cur
  | (true, n, x) :: r => tp tight loose done pend (mk tight cur (nx n x)) r
  | (false, n, x) :: r => tp tight loose (Some (close loose done pend cur)) n x r
  end.

Lemma lfold_tp tight loose : forall l done pend cur,
  fold_left (fun acc (p : bool * expr) => mk loose acc (nx (fst p) (snd p))) (snd (grp tight cur l))
            (close loose done pend (fst (grp tight cur l))) = tp tight loose done pend cur l.
Proof.
  induction l as [|[[t n] x] r IH]; intros done pend cur.
  - reflexivity.
  - destruct t; cbn [grp tp].
    + apply IH.
    + specialize (IH (Some (close loose done pend cur)) n x).
      destruct (grp tight x r) as [g gs]. cbn [fst snd fold_left] in *. exact IH.
Qed.

Lemma lfold_grp tight loose cur l : lfold loose (grp tight cur l) = tp tight loose None false cur l.
Proof. unfold lfold. exact (lfold_tp tight loose l None false cur). Qed.

(* ------------------------------------------------------------------------------------------------------------
   values over the reals: what the code builds has the value of the usual left-to-right reading
   ------------------------------------------------------------------------------------------------------------ *)
Section Values.
  Local Open Scope R_scope.
  Variables (rpow : R -> R -> R) (rpowz : R -> Z -> R) (df : dfn -> R -> R) (uf : ufn -> R -> R)
            (bf : bfn -> R -> R -> R) (l10 : R) (lt le eq : R -> R -> bool).
  Notation ops := (Rops13 rpow rpowz df uf bf l10 lt le eq).
  Variable env : nat -> R.
  Notation ev := (eval ops env).

  Definition opR (o : bop) (a b : R) : R :=
    match o with Plus => a + b | Minus => a - b | Mult => a * b | Div => a / b | Pow => rpow a b end.
  Definition nR (n : bool) (a : R) : R := if n then - a else a.

  Lemma ev_nx n x : ev (nx n x) = nR n (ev x).
  Proof. now destruct n. Qed.

  (* the usual reading of a chain: one operator after the other, from the left *)
  Definition stdv (tight loose : bop) (l : list fct) (v0 : R) : R :=
    fold_left (fun acc (f : fct) => opR (if fst (fst f) then tight else loose) acc (nR (snd (fst f)) (ev (snd f)))) l v0.

  Lemma tp_value_muldiv : forall l done pend cur,
    ev (tp Div Mult done pend cur l) = stdv Div Mult l (ev (close Mult done pend cur)).
  Proof.
    induction l as [|[[t n] x] r IH]; intros done pend cur; [reflexivity|].
    destruct t; cbn [tp]; rewrite IH; unfold stdv; cbn [fold_left fst snd].
    - f_equal. destruct done as [d|], pend; cbn [close nx mk eval opR]; rewrite ?ev_nx; cbn. all: unfold Rdiv; ring.
    - f_equal. destruct done as [d|]; cbn [close mk eval opR]; now rewrite !ev_nx.
  Qed.

  Lemma tp_value_plusminus : forall l, noneg l -> forall done cur,
    ev (tp Minus Plus done false cur l) = stdv Minus Plus l (ev (close Plus done false cur)).
  Proof.
    induction l as [|[[t n] x] r IH]; intros NN done cur; [reflexivity|].
    inversion NN as [|? ? Hn NN']; subst. cbn [fst snd] in Hn. subst n.
    destruct t; cbn [tp]; rewrite (IH NN'); unfold stdv; cbn [fold_left fst snd].
    - f_equal. destruct done as [d|]; cbn [close nx mk eval opR nR]; cbn. all: ring.
    - f_equal; destruct done as [d|]; cbn [close mk eval opR nx nR]; reflexivity.
  Qed.

  Definition tval (t : trm) : R := stdv Div Mult (snd t) (ev (fst t)).
  Definition sval (s : sm) : R :=
    let '(ld, t0, ts) := s in
    fold_left (fun acc (p : bool * trm) => opR (sep (fst p)) acc (tval (snd p))) ts (nR ld (tval t0)).

  Lemma tres_value t : ev (tres t) = tval t.
  Proof. unfold tres. rewrite lfold_grp, tp_value_muldiv. reflexivity. Qed.

  Lemma sres_value s : ev (sres s) = sval s.
  Proof.
    destruct s as [[ld t0] ts]. cbn [sres sval]. rewrite lfold_grp, (tp_value_plusminus _ (noneg_schain ts)).
    unfold close. change (nx false (nx ld (tres t0))) with (nx ld (tres t0)). rewrite ev_nx, tres_value. unfold stdv.
    generalize (nR ld (tval t0)). induction ts as [|[m t] r IH]; intros v; [reflexivity|].
    cbn [schain map fold_left fst snd nR]. rewrite tres_value. rewrite <- IH. now destruct m.
  Qed.
End Values.

(* ------------------------------------------------------------------------------------------------------------
   B. the fragment, its printer (minimal parentheses) and the view of a tree as the flat sum that the code sees
   ------------------------------------------------------------------------------------------------------------ *)
Local Open Scope nat_scope.

Definition frag_op (o : bop) : bool := match o with Pow => false | _ => true end.
(* numbers, variables, unary minus, + - * /, calls f(...) of the functions of one argument  (a number token is a
   non-negative literal) *)
Fixpoint frag (e : expr) : bool :=
  match e with
  | Num q => Qle_bool 0 q
  | Var _ => true
  | Neg a => frag a
  | Bin o a b => frag_op o && frag a && frag b
  | Fun _ a | UFun _ a => frag a
  | _ => false
  end.

Definition is_neg (e : expr) : bool := match e with Neg _ => true | _ => false end.
Definition is_div (o : bop) : bool := match o with Div => true | _ => false end.
Definition is_minus (o : bop) : bool := match o with Minus => true | _ => false end.

(* [pr e lvl bare]: tokens of e in a position that wants a sum (lvl 1: beginning of a group, after '(' ), a term
   (lvl 2: operand of + or -) or an operand (lvl 3: operand of * or /, of a unary minus); [bare]: a leading unary minus
   may be written without parentheses (beginning of a group; directly after * or /).  This is the printer of check.py
   (toks) restricted to the fragment. *)
Fixpoint pr (e : expr) (lvl : nat) (bare : bool) {struct e} : list tok :=
  match e with
  | Num q => [KNum q]
  | Var i => [KVar i]
  | Neg a =>
    let raw := KOp Minus :: pr a 3 false in
    if bare then raw else KL :: raw ++ [KR]
  | Bin o a b =>
    match o with
    | Plus | Minus =>
      let raw := fun bare' : bool => pr a 1 bare' ++ KOp o :: pr b 2 false in
      if lvl <=? 1 then raw bare else KL :: raw true ++ [KR]
    | Mult | Div =>
      let raw := fun bare' : bool => pr a 2 bare' ++ KOp o :: (if is_neg b then pr b 2 true else pr b 3 false) in
      if lvl <=? 2 then raw bare else KL :: raw true ++ [KR]
    | Pow => []
    end
  | Fun f a => KFun f :: KL :: pr a 1 true ++ [KR]
  | UFun f a => KUFun f :: KL :: pr a 1 true ++ [KR]
  | _ => []
  end.
Definition print (e : expr) : list tok := pr e 1 true.

Definition opv (x : expr) : sm := (false, (x, []), []).
Definition snoc_t (s : sm) (f : fct) : sm := let '(ld, t0, ts) := s in (ld, (fst t0, snd t0 ++ [f]), ts).
Definition snoc_s (s : sm) (m : bool) (t : trm) : sm := let '(ld, t0, ts) := s in (ld, t0, ts ++ [(m, t)]).
Definition t0_of (s : sm) : trm := snd (fst s).

(* the flat sum seen by treatGroup2 for [pr e lvl bare]; a parenthesised sub-expression is the operand [sres ...] *)
Fixpoint vw (e : expr) (lvl : nat) (bare : bool) {struct e} : sm :=
  match e with
  | Num q => opv (Num q)
  | Var i => opv (Var i)
  | Neg a =>
    let inner : sm := (true, (sres (vw a 3 false), []), []) in
    if bare then inner else opv (sres inner)
  | Bin o a b =>
    match o with
    | Plus | Minus =>
      let inner := fun bare' : bool => snoc_s (vw a 1 bare') (is_minus o) (t0_of (vw b 2 false)) in
      if lvl <=? 1 then inner bare else opv (sres (inner true))
    | Mult | Div =>
      let f : fct := if is_neg b then (is_div o, true, fst (t0_of (vw b 2 true)))
                     else (is_div o, false, sres (vw b 3 false)) in
      let inner := fun bare' : bool => snoc_t (vw a 2 bare') f in
      if lvl <=? 2 then inner bare else opv (sres (inner true))
    | Pow => opv (Num 0)
    end
  | Fun f a => opv (Fun f (sres (vw a 1 true)))
  | UFun f a => opv (UFun f (sres (vw a 1 true)))
  | _ => opv (Num 0)
  end.

Lemma sres_opv x : sres (opv x) = x.
Proof. reflexivity. Qed.
Lemma sitems_opv x : sitems (opv x) = [IE x].
Proof. reflexivity. Qed.

Lemma citems_app tight loose l1 l2 : citems tight loose (l1 ++ l2) = citems tight loose l1 ++ citems tight loose l2.
Proof. unfold citems. apply flat_map_app. Qed.

Lemma sitems_snoc_s s m t : sitems (snoc_s s m t) = sitems s ++ IOp (sep m) :: titems t.
Proof.
  destruct s as [[ld t0] ts]. cbn [snoc_s sitems]. rewrite flat_map_app. cbn [flat_map fst snd].
  now rewrite app_nil_r, <- !app_assoc.
Qed.

Lemma sitems_snoc_t s f : snd s = [] -> sitems (snoc_t s f) = sitems s ++ fitems Div Mult f.
Proof.
  destruct s as [[ld [x0 l]] ts]. cbn [snd]. intros ->. unfold snoc_t, sitems, titems. cbn [fst snd flat_map].
  rewrite citems_app, !app_nil_r. cbn [citems flat_map]. rewrite app_nil_r. rewrite <- !app_assoc. reflexivity.
Qed.

Lemma sitems_term s : fst (fst s) = false -> snd s = [] -> sitems s = titems (t0_of s).
Proof. destruct s as [[ld t0] ts]. cbn [fst snd t0_of]. intros -> ->. cbn [sitems negi flat_map app]. now rewrite app_nil_r. Qed.

(* shapes: at level 2 no further term; without [bare] no leading minus; at level 3 without [bare] a single operand *)
Lemma vw_shape2 e : forall bare, snd (vw e 2 bare) = [] /\ (bare = false -> fst (fst (vw e 2 bare)) = false).
Proof.
  induction e as [q| |i|a IHa|o a IHa b IHb| | | | | |]; intros bare; try (split; reflexivity).
  - cbn [vw]. destruct bare; split; try reflexivity. discriminate.
  - destruct o; cbn [vw Nat.leb]; try (split; reflexivity).
    + destruct (IHa bare) as [H1 H2]. destruct (vw a 2 bare) as [[ld t0] ts]. cbn [snoc_t fst snd] in *. auto.
    + destruct (IHa bare) as [H1 H2]. destruct (vw a 2 bare) as [[ld t0] ts]. cbn [snoc_t fst snd] in *. auto.
Qed.

Lemma vw_shape3 e : exists x, vw e 3 false = opv x.
Proof. destruct e as [q| |i|a|o a b| | | | | |]; try (eexists; reflexivity). destruct o; eexists; reflexivity. Qed.

Lemma vw_neg_bare a lvl : vw (Neg a) lvl true = (true, (sres (vw a 3 false), []), []).
Proof. reflexivity. Qed.

(* ------------------------------------------------------------------------------------------------------------
   C. treatGroup / treatGroup2 on the printed tokens
   ------------------------------------------------------------------------------------------------------------ *)
Fixpoint nKL (l : list tok) : nat :=
  match l with [] => 0 | KL :: r => S (nKL r) | _ :: r => nKL r end.
Definition fuel_ok (n : nat) (l : list tok) : Prop := length l + nKL l + 1 <= n.
Definition nohdL (l : list tok) : Prop := match l with KL :: _ => False | _ => True end.

Lemma nKL_app l1 l2 : nKL (l1 ++ l2) = nKL l1 + nKL l2.
Proof. induction l1 as [|t r IH]; [reflexivity|]. destruct t; cbn [app nKL]; rewrite IH; reflexivity. Qed.

Definition plain (t : tok) : bool := match t with KNum _ | KVar _ | KOp _ | KFun _ | KUFun _ => true | _ => false end.
(* numbers, variables, operators, function names and balanced parentheses *)
Inductive pb : list tok -> Prop :=
| pb_nil : pb []
| pb_tok t l : plain t = true -> pb l -> pb (t :: l)
| pb_par l1 l2 : pb l1 -> pb l2 -> pb (KL :: l1 ++ KR :: l2).

Lemma pb_app l1 l2 : pb l1 -> pb l2 -> pb (l1 ++ l2).
Proof.
  induction 1 as [|t l Ht Hl IH|a b Ha IHa Hb IHb]; intros H2; cbn [app].
  - exact H2.
  - constructor; auto.
  - rewrite <- app_assoc. cbn [app]. apply pb_par; auto.
Qed.

Lemma pb_wrap l : pb l -> pb (KL :: l ++ [KR]).
Proof. intros H. apply (pb_par l []); [exact H | constructor]. Qed.

Lemma search_pb aw s l : pb l -> forall d pos tail,
  search aw isQ s (l ++ tail) d pos = Some None \/ exists pos', search aw isQ s (l ++ tail) d pos = search aw isQ s tail d pos'.
Proof.
  induction 1 as [|t l Ht Hl IH|a b Ha IHa Hb IHb]; intros d pos tail.
  - right. now exists pos.
  - cbn [app]. destruct t; try discriminate Ht; cbn [search];
      (replace (is_stop s _) with false by (now destruct s)); cbn [andb isQ]; apply IH.
  - cbn [app search]. replace (is_stop s KL) with false by (now destruct s). cbn [andb].
    rewrite <- app_assoc. cbn [app].
    destruct (IHa (S d) (S pos) (KR :: b ++ tail)) as [E|[pos' E]]; rewrite E; [now left|].
    cbn [search]. rewrite Nat.eqb_sym. cbn [Nat.eqb]. rewrite orb_false_r.
    destruct (is_stop s KR && negb aw); [now left|]. apply IHb.
Qed.

Lemma search_group aw l tail : pb l -> search aw isQ SR (l ++ KR :: tail) 0 0 = Some None.
Proof.
  intros H. destruct (search_pb aw SR l H 0 0 (KR :: tail)) as [E|[pos' E]]; rewrite E; [reflexivity|].
  cbn [search is_stop Nat.eqb]. now rewrite orb_true_r.
Qed.

Lemma search_top aw l : pb l -> search aw isQ SNone l 0 0 = Some None.
Proof.
  intros H. destruct (search_pb aw SNone l H 0 0 []) as [E|[pos' E]]; rewrite app_nil_r in E; rewrite E; reflexivity.
Qed.

Section Runs.
Variable v : variant.

(* one step of treatGroup2 / treatGroup *)
Lemma tgroup2_num n q r s acc : tgroup2 v (S n) (KNum q :: r) s acc = tgroup2 v n r s (IE (Num q) :: acc).
Proof. destruct s; reflexivity. Qed.
Lemma tgroup2_var n i r s acc : nohdL r -> tgroup2 v (S n) (KVar i :: r) s acc = tgroup2 v n r s (IE (Var i) :: acc).
Proof. intros H. destruct r as [|[] r]; try contradiction; destruct s; reflexivity. Qed.
Lemma tgroup2_op n o r s acc : tgroup2 v (S n) (KOp o :: r) s acc = tgroup2 v n r s (IOp o :: acc).
Proof. destruct s; reflexivity. Qed.
Lemma tgroup2_L n r s acc : tgroup2 v (S n) (KL :: r) s acc =
  match tgroup v n r SR with Some (e, KR :: r') => tgroup2 v n r' s (IE e :: acc) | _ => None end.
Proof. destruct s; reflexivity. Qed.
Lemma tgroup2_fun n f r s acc : tgroup2 v (S n) (KFun f :: KL :: r) s acc =
  match tgroup v n r SR with Some (e, KR :: r') => tgroup2 v n r' s (IE (Fun f e) :: acc) | _ => None end.
Proof. destruct s; reflexivity. Qed.
Lemma tgroup2_ufun n f r s acc : tgroup2 v (S n) (KUFun f :: KL :: r) s acc =
  match tgroup v n r SR with Some (e, KR :: r') => tgroup2 v n r' s (IE (UFun f e) :: acc) | _ => None end.
Proof. destruct s; reflexivity. Qed.
Lemma tgroup2_close n r acc : tgroup2 v (S n) (KR :: r) SR acc =
  match reduce (rev acc) with Some e => Some (e, KR :: r) | None => None end.
Proof. reflexivity. Qed.
Lemma tgroup2_end n acc : tgroup2 v (S n) [] SNone acc =
  match reduce (rev acc) with Some e => Some (e, []) | None => None end.
Proof. reflexivity. Qed.
Lemma tgroup_plain n t r s : is_stop s t = false -> search (v_depth_stop v) isQ s (t :: r) 0 0 = Some None ->
  tgroup v (S n) (t :: r) s = tgroup2 v n (t :: r) s [].
Proof. intros H1 H2. cbn [tgroup]. rewrite H1. rewrite H2. reflexivity. Qed.

(* [runs tk its]: wherever the tokens tk stand in a group (not followed by '('), treatGroup2 consumes them and adds the
   items its to the group; enough fuel is left for the rest *)
Definition runs (tk : list tok) (its : list item) : Prop :=
  forall n tail s acc, fuel_ok n (tk ++ tail) -> nohdL tail ->
  exists n', fuel_ok n' tail /\ tgroup2 v n (tk ++ tail) s acc = tgroup2 v n' tail s (rev its ++ acc).

Lemma fuel_S n t l : fuel_ok n (t :: l) -> exists n', n = S n' /\ fuel_ok n' l.
Proof.
  unfold fuel_ok. cbn [length]. intros H. destruct n as [|n']; [lia|]. exists n'. split; [reflexivity|].
  destruct t; cbn [nKL] in H; lia.
Qed.

Lemma runs_num q : runs [KNum q] [IE (Num q)].
Proof.
  intros n tail s acc F NH. cbn [app] in *. destruct (fuel_S _ _ _ F) as [n' [-> F']].
  exists n'. split; [exact F'|]. apply tgroup2_num.
Qed.

Lemma runs_var i : runs [KVar i] [IE (Var i)].
Proof.
  intros n tail s acc F NH. cbn [app] in *. destruct (fuel_S _ _ _ F) as [n' [-> F']].
  exists n'. split; [exact F'|]. now apply tgroup2_var.
Qed.

Lemma runs_cons_op o tk its : runs tk its -> runs (KOp o :: tk) (IOp o :: its).
Proof.
  intros R n tail s acc F NH. cbn [app] in *. destruct (fuel_S _ _ _ F) as [n1 [-> F1]].
  rewrite tgroup2_op. destruct (R n1 tail s (IOp o :: acc) F1 NH) as [n' [F' E]].
  exists n'. split; [exact F'|]. rewrite E. cbn [rev]. now rewrite <- app_assoc.
Qed.

Lemma runs_app_op o tk1 its1 tk2 its2 : runs tk1 its1 -> runs tk2 its2 ->
  runs (tk1 ++ KOp o :: tk2) (its1 ++ IOp o :: its2).
Proof.
  intros R1 R2 n tail s acc F NH. rewrite <- app_assoc in *. cbn [app] in *.
  destruct (R1 n (KOp o :: tk2 ++ tail) s acc F I) as [n1 [F1 E1]]. rewrite E1.
  destruct (runs_cons_op o tk2 its2 R2 n1 tail s (rev its1 ++ acc) F1 NH) as [n' [F' E']].
  exists n'. split; [exact F'|]. cbn [app] in E'. rewrite E'. rewrite rev_app_distr. cbn [rev]. now rewrite <- !app_assoc.
Qed.

Lemma pb_hd t l : pb (t :: l) -> is_stop SR t = false.
Proof. intros H. inversion H as [|t' l' Ht Hl|a b Ha Hb]; subst; [destruct t; try discriminate Ht|]; reflexivity. Qed.

(* a parenthesised group, possibly the argument of a function [hd] = [f]: treatGroup2 calls treatGroup, which reduces
   the items of the group *)
Lemma runs_group (hd : list tok) (wrap : expr -> expr) tk its x :
  nKL hd = 0 ->
  (forall n r s acc, tgroup2 v (S n) (hd ++ KL :: r) s acc =
     match tgroup v n r SR with Some (e, KR :: r') => tgroup2 v n r' s (IE (wrap e) :: acc) | _ => None end) ->
  runs tk its -> pb tk -> tk <> [] -> reduce its = Some x -> runs (hd ++ KL :: tk ++ [KR]) [IE (wrap x)].
Proof.
  intros HK STEP R PB NE RED n tail s acc F NH.
  replace ((hd ++ KL :: tk ++ [KR]) ++ tail) with (hd ++ KL :: tk ++ KR :: tail) in *
    by (rewrite <- !app_assoc; cbn [app]; now rewrite <- app_assoc).
  assert (F2 : exists n2, n = S (S n2) /\ fuel_ok n2 (tk ++ KR :: tail) /\ fuel_ok (S n2) tail).
  { unfold fuel_ok in *. rewrite !app_length, !nKL_app in F. cbn [length nKL] in F. rewrite !app_length, !nKL_app in F.
    cbn [length nKL] in F. rewrite HK in F.
    destruct n as [|[|n2]]; try lia. exists n2. split; [reflexivity|]. rewrite !app_length, !nKL_app. cbn [length nKL]. lia. }
  destruct F2 as [n2 [-> [F2 F1]]]. rewrite STEP.
  destruct tk as [|t0 tk']; [congruence|].
  cbn [app]. rewrite tgroup_plain; [|exact (pb_hd _ _ PB)|exact (search_group _ (t0 :: tk') tail PB)].
  destruct (R n2 (KR :: tail) SR [] F2 I) as [n3 [F3 E3]]. cbn [app] in E3. rewrite E3.
  destruct (fuel_S _ _ _ F3) as [n4 [-> F4]]. rewrite tgroup2_close, app_nil_r, rev_involutive, RED.
  exists (S n2). split; [exact F1|reflexivity].
Qed.

Lemma runs_par tk its x : runs tk its -> pb tk -> tk <> [] -> reduce its = Some x -> runs (KL :: tk ++ [KR]) [IE x].
Proof. exact (runs_group [] (fun e => e) tk its x eq_refl (fun n r s acc => tgroup2_L n r s acc)). Qed.

Definition good (tk : list tok) (its : list item) : Prop := runs tk its /\ pb tk /\ tk <> [].

Lemma good_paren tk its x : good tk its -> reduce its = Some x -> good (KL :: tk ++ [KR]) [IE x].
Proof.
  intros [R [PB NE]] RED. split; [now apply (runs_par tk its)|]. split; [now apply pb_wrap|discriminate].
Qed.

Lemma good_fun f tk its x : good tk its -> reduce its = Some x -> good (KFun f :: KL :: tk ++ [KR]) [IE (Fun f x)].
Proof.
  intros [R [PB NE]] RED. split; [|split; [|discriminate]].
  - exact (runs_group [KFun f] (Fun f) tk its x eq_refl (fun n r s acc => tgroup2_fun n f r s acc) R PB NE RED).
  - constructor; [reflexivity|]. now apply pb_wrap.
Qed.

Lemma good_ufun f tk its x : good tk its -> reduce its = Some x -> good (KUFun f :: KL :: tk ++ [KR]) [IE (UFun f x)].
Proof.
  intros [R [PB NE]] RED. split; [|split; [|discriminate]].
  - exact (runs_group [KUFun f] (UFun f) tk its x eq_refl (fun n r s acc => tgroup2_ufun n f r s acc) R PB NE RED).
  - constructor; [reflexivity|]. now apply pb_wrap.
Qed.

Lemma good_cons_op o tk its : good tk its -> good (KOp o :: tk) (IOp o :: its).
Proof.
  intros [R [PB NE]]. split; [now apply runs_cons_op|]. split; [now constructor|discriminate].
Qed.

Lemma good_app_op o tk1 its1 tk2 its2 : good tk1 its1 -> good tk2 its2 -> good (tk1 ++ KOp o :: tk2) (its1 ++ IOp o :: its2).
Proof.
  intros [R1 [PB1 NE1]] [R2 [PB2 NE2]]. split; [now apply runs_app_op|]. split.
  - apply pb_app; [exact PB1|]. now constructor.
  - destruct tk1; discriminate.
Qed.

Lemma good_operand e : (forall lvl bare, good (pr e lvl bare) (sitems (vw e lvl bare))) ->
  good (pr e 3 false) [IE (sres (vw e 3 false))].
Proof. intros H. specialize (H 3 false). destruct (vw_shape3 e) as [x E]. rewrite E in *. exact H. Qed.

(* the printed tokens of a tree of the fragment are consumed as the items of its view *)
Lemma good_pr e : frag e = true -> forall lvl bare, good (pr e lvl bare) (sitems (vw e lvl bare)).
Proof.
  induction e as [q| |i|a IHa|o a IHa b IHb| |f e IHe|f e IHe| | |]; intros FR lvl bare; try discriminate FR.
  - split; [apply runs_num|]. split; [repeat constructor|discriminate].
  - split; [apply runs_var|]. split; [repeat constructor|discriminate].
  - cbn [frag] in FR. specialize (IHa FR 3 false). destruct (vw_shape3 a) as [xa Ea].
    assert (G : good (KOp Minus :: pr a 3 false) (sitems (true, (sres (vw a 3 false), []), []))).
    { rewrite Ea in *. rewrite sres_opv. rewrite sitems_opv in IHa. exact (good_cons_op Minus _ _ IHa). }
    cbn [pr vw]. destruct bare; [exact G|]. rewrite sitems_opv. apply (good_paren _ _ _ G). apply reduce_sum.
  - cbn [frag] in FR. apply andb_prop in FR. destruct FR as [FR Fb]. apply andb_prop in FR. destruct FR as [Fo Fa].
    specialize (IHa Fa). specialize (IHb Fb).
    destruct o; try discriminate Fo; cbn [pr vw].
    + (* + *)
      assert (G : forall bare', good (pr a 1 bare' ++ KOp Plus :: pr b 2 false)
                                     (sitems (snoc_s (vw a 1 bare') (is_minus Plus) (t0_of (vw b 2 false))))).
      { intros bare'. rewrite sitems_snoc_s. destruct (vw_shape2 b false) as [S1 S2].
        rewrite <- (sitems_term _ (S2 eq_refl) S1). exact (good_app_op Plus _ _ _ _ (IHa 1 bare') (IHb 2 false)). }
      destruct (lvl <=? 1); [apply G|]. rewrite sitems_opv. apply (good_paren _ _ _ (G true)). apply reduce_sum.
    + (* - *)
      assert (G : forall bare', good (pr a 1 bare' ++ KOp Minus :: pr b 2 false)
                                     (sitems (snoc_s (vw a 1 bare') (is_minus Minus) (t0_of (vw b 2 false))))).
      { intros bare'. rewrite sitems_snoc_s. destruct (vw_shape2 b false) as [S1 S2].
        rewrite <- (sitems_term _ (S2 eq_refl) S1). exact (good_app_op Minus _ _ _ _ (IHa 1 bare') (IHb 2 false)). }
      destruct (lvl <=? 1); [apply G|]. rewrite sitems_opv. apply (good_paren _ _ _ (G true)). apply reduce_sum.
    + (* * *)
      assert (G : forall bare', good (pr a 2 bare' ++ KOp Mult :: (if is_neg b then pr b 2 true else pr b 3 false))
                 (sitems (snoc_t (vw a 2 bare') (if is_neg b then (is_div Mult, true, fst (t0_of (vw b 2 true)))
                                                   else (is_div Mult, false, sres (vw b 3 false)))))).
      { intros bare'. rewrite (sitems_snoc_t _ _ (proj1 (vw_shape2 a bare'))).
        destruct (is_neg b) eqn:Nb.
        - destruct b; try discriminate Nb. exact (good_app_op Mult _ _ _ _ (IHa 2 bare') (IHb 2 true)).
        - exact (good_app_op Mult _ _ _ _ (IHa 2 bare') (good_operand b IHb)). }
      destruct (lvl <=? 2); [apply G|]. rewrite sitems_opv. apply (good_paren _ _ _ (G true)). apply reduce_sum.
    + (* / *)
      assert (G : forall bare', good (pr a 2 bare' ++ KOp Div :: (if is_neg b then pr b 2 true else pr b 3 false))
                 (sitems (snoc_t (vw a 2 bare') (if is_neg b then (is_div Div, true, fst (t0_of (vw b 2 true)))
                                                   else (is_div Div, false, sres (vw b 3 false)))))).
      { intros bare'. rewrite (sitems_snoc_t _ _ (proj1 (vw_shape2 a bare'))).
        destruct (is_neg b) eqn:Nb.
        - destruct b; try discriminate Nb. exact (good_app_op Div _ _ _ _ (IHa 2 bare') (IHb 2 true)).
        - exact (good_app_op Div _ _ _ _ (IHa 2 bare') (good_operand b IHb)). }
      destruct (lvl <=? 2); [apply G|]. rewrite sitems_opv. apply (good_paren _ _ _ (G true)). apply reduce_sum.
  - cbn [frag] in FR. cbn [pr vw]. rewrite sitems_opv. apply (good_fun _ _ _ _ (IHe FR 1 true)). apply reduce_sum.
  - cbn [frag] in FR. cbn [pr vw]. rewrite sitems_opv. apply (good_ufun _ _ _ _ (IHe FR 1 true)). apply reduce_sum.
Qed.

(* the whole pipeline on the printed tree *)
Theorem parse_print_tree e : frag e = true -> parse_gen v (print e) = Some (sres (vw e 1 true)).
Proof.
  intros FR. destruct (good_pr e FR 1 true) as [R [PB NE]]. unfold parse_gen, print.
  destruct (pr e 1 true) as [|t0 tk] eqn:E; [congruence|].
  assert (F : fuel_ok (3 * length (t0 :: tk) + 8 - 1) ((t0 :: tk) ++ [])).
  { unfold fuel_ok. rewrite app_nil_r. assert (nKL (t0 :: tk) <= length (t0 :: tk)).
    { generalize (t0 :: tk). induction l as [|t r IH]; [cbn; lia|]. destruct t; cbn [nKL length]; lia. }
    lia. }
  replace (3 * length (t0 :: tk) + 8) with (S (3 * length (t0 :: tk) + 8 - 1)) by lia.
  rewrite tgroup_plain; [| now destruct t0 | exact (search_top _ _ PB)].
  destruct (R _ [] SNone [] F I) as [n' [F' E']]. rewrite app_nil_r in E'. rewrite E'.
  destruct n' as [|n'']; [unfold fuel_ok in F'; cbn [length nKL] in F'; lia|].
  rewrite tgroup2_end, app_nil_r, rev_involutive, reduce_sum. reflexivity.
Qed.
End Runs.

(* ------------------------------------------------------------------------------------------------------------
   D. the value of the view is the value of the tree
   ------------------------------------------------------------------------------------------------------------ *)
Section TreeValues.
  Local Open Scope R_scope.
  Variables (rpow : R -> R -> R) (rpowz : R -> Z -> R) (df : dfn -> R -> R) (uf : ufn -> R -> R)
            (bf : bfn -> R -> R -> R) (l10 : R) (lt le eq : R -> R -> bool).
  Notation ops := (Rops13 rpow rpowz df uf bf l10 lt le eq).
  Variable env : nat -> R.
  Notation ev := (eval ops env).
  Notation sval' := (sval rpow rpowz df uf bf l10 lt le eq env).
  Notation tval' := (tval rpow rpowz df uf bf l10 lt le eq env).
  Notation opR' := (opR rpow).

  Lemma sval_opv x : sval' (opv x) = ev x.
  Proof. reflexivity. Qed.

  Lemma sval_snoc_s s m t : sval' (snoc_s s m t) = opR' (sep m) (sval' s) (tval' t).
  Proof. destruct s as [[ld t0] ts]. cbn [snoc_s sval]. now rewrite fold_left_app. Qed.

  Lemma sval_term s : fst (fst s) = false -> snd s = [] -> sval' s = tval' (t0_of s).
  Proof. destruct s as [[ld t0] ts]. cbn [fst snd t0_of]. intros -> ->. reflexivity. Qed.

  Lemma sval_snoc_t s (d n : bool) x : snd s = [] ->
    sval' (snoc_t s (d, n, x)) = opR' (if d then Div else Mult) (sval' s) (nR n (ev x)).
  Proof.
    destruct s as [[ld [x0 l]] ts]. cbn [snd]. intros ->. unfold snoc_t, sval, tval, stdv. cbn [fst snd fold_left].
    rewrite fold_left_app. cbn [fold_left fst snd].
    destruct ld, d; cbn [nR opR]; unfold Rdiv; ring.
  Qed.

  Lemma sval_vw e : frag e = true -> forall lvl bare, sval' (vw e lvl bare) = ev e.
  Proof.
    induction e as [q| |i|a IHa|o a IHa b IHb| |f e IHe|f e IHe| | |]; intros FR lvl bare; try discriminate FR; try reflexivity.
    - cbn [frag] in FR. specialize (IHa FR 3%nat false).
      assert (G : sval' (true, (sres (vw a 3%nat false), []), []) = ev (Neg a)).
      { cbn [sval tval stdv fold_left fst snd nR]. rewrite sres_value, IHa. reflexivity. }
      cbn [vw]. destruct bare; [exact G|]. rewrite sval_opv, sres_value. exact G.
    - cbn [frag] in FR. apply andb_prop in FR. destruct FR as [FR Fb]. apply andb_prop in FR. destruct FR as [Fo Fa].
      specialize (IHa Fa). specialize (IHb Fb).
      assert (PM : forall o', o' = Plus \/ o' = Minus -> forall bare',
                 sval' (snoc_s (vw a 1%nat bare') (is_minus o') (t0_of (vw b 2%nat false))) = ev (Bin o' a b)).
      { intros o' Ho bare'. rewrite sval_snoc_s. destruct (vw_shape2 b false) as [S1 S2].
        rewrite <- (sval_term _ (S2 eq_refl) S1), IHa, IHb. destruct Ho as [-> | ->]; reflexivity. }
      assert (MD : forall o', o' = Mult \/ o' = Div -> forall bare',
                 sval' (snoc_t (vw a 2%nat bare') (if is_neg b then (is_div o', true, fst (t0_of (vw b 2%nat true)))
                                               else (is_div o', false, sres (vw b 3%nat false)))) = ev (Bin o' a b)).
      { intros o' Ho bare'.
        assert (Vb : nR (is_neg b) (ev (if is_neg b then fst (t0_of (vw b 2%nat true)) else sres (vw b 3%nat false))) = ev b).
        { destruct (is_neg b) eqn:Nb.
          - destruct b; try discriminate Nb. rewrite <- (IHb 2%nat true). reflexivity.
          - cbn [nR]. rewrite sres_value. apply IHb. }
        destruct (is_neg b); rewrite (sval_snoc_t _ _ _ _ (proj1 (vw_shape2 a bare'))), IHa, Vb;
          destruct Ho as [-> | ->]; reflexivity. }
      destruct o; try discriminate Fo; cbn [vw].
      + destruct (lvl <=? 1)%nat; [apply PM; now left|]. rewrite sval_opv, sres_value. apply PM; now left.
      + destruct (lvl <=? 1)%nat; [apply PM; now right|]. rewrite sval_opv, sres_value. apply PM; now right.
      + destruct (lvl <=? 2)%nat; [apply MD; now left|]. rewrite sval_opv, sres_value. apply MD; now left.
      + destruct (lvl <=? 2)%nat; [apply MD; now right|]. rewrite sval_opv, sres_value. apply MD; now right.
    - cbn [frag] in FR. cbn [vw]. rewrite sval_opv. cbn [eval]. now rewrite sres_value, (IHe FR).
    - cbn [frag] in FR. cbn [vw]. rewrite sval_opv. cbn [eval]. now rewrite sres_value, (IHe FR).
  Qed.
End TreeValues.

(* ------------------------------------------------------------------------------------------------------------
   the theorem
   ------------------------------------------------------------------------------------------------------------ *)
Theorem parse_print_value : forall (v : variant) (e : expr), frag e = true ->
  exists e', parse_gen v (print e) = Some e' /\
    forall rpow rpowz df uf bf l10 lt le eq env,
      eval (Rops13 rpow rpowz df uf bf l10 lt le eq) env e' = eval (Rops13 rpow rpowz df uf bf l10 lt le eq) env e.
Proof.
  intros v e FR. exists (sres (vw e 1 true)). split; [now apply parse_print_tree|].
  intros. rewrite sres_value. now apply sval_vw.
Qed.

(* sanity: the printer on examples (minimal parentheses, bare unary minus at the beginning and after * /) *)
Lemma print_examples :
  print (Bin Minus (Bin Minus (Var 0) (Var 1)) (Bin Plus (Var 2) (Num 1))) = [KVar 0; KOp Minus; KVar 1; KOp Minus; KL; KVar 2; KOp Plus; KNum 1; KR] /\
  print (Bin Mult (Bin Plus (Var 0) (Num 2)) (Neg (Var 1))) = [KL; KVar 0; KOp Plus; KNum 2; KR; KOp Mult; KOp Minus; KVar 1] /\
  print (Bin Plus (Bin Mult (Neg (Var 0)) (Var 1)) (Neg (Var 2))) = [KOp Minus; KVar 0; KOp Mult; KVar 1; KOp Plus; KL; KOp Minus; KVar 2; KR] /\
  print (Bin Div (Var 0) (Bin Div (Var 1) (Var 2))) = [KVar 0; KOp Div; KL; KVar 1; KOp Div; KVar 2; KR] /\
  print (Neg (Neg (Bin Mult (Var 0) (Var 1)))) = [KOp Minus; KL; KOp Minus; KL; KVar 0; KOp Mult; KVar 1; KR; KR] /\
  print (Bin Div (Fun Sin (Bin Plus (Var 0) (Num 1))) (Neg (UFun Abs (Neg (Var 1))))) =
    [KFun Sin; KL; KVar 0; KOp Plus; KNum 1; KR; KOp Div; KOp Minus; KUFun Abs; KL; KOp Minus; KVar 1; KR].
Proof. repeat split. Qed.

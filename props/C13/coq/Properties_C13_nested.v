(* C13 -- selected when the tree accepts '2*(sin(x)>0 ? 1 : 2)' (fix_search_nested_group.diff applied): conditionals inside
   parentheses / function arguments whose condition or branches contain a ')' or a ',' are parsed to the intended trees *)
From Coq Require Import ZArith QArith List Bool Arith.
From C13 Require Import C14Model C13Model C13Proofs.
Import ListNotations.

Theorem C13_conditional_inside_parentheses : forall v, v_depth_stop v = true ->
  parse_gen v f_nest1 = Some e_nest1 /\ parse_gen v f_nest2 = Some e_nest2 /\ parse_gen v f_nest3 = Some e_nest3.
Proof. exact nested_repaired. Qed.
Print Assumptions C13_conditional_inside_parentheses.

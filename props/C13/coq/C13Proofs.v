(* C13 -- lemmas on the reduction passes of TGroup::reduce as modelled in C13Model.v *)
From Coq Require Import Reals ZArith QArith List Bool Arith Lia.
From C13 Require Import C14Model C13Model.
Import ListNotations.

(* binding strength used by the code: one pass per operator, ** first, then / * - + *)
Definition level (o : bop) : nat :=
  match o with Pow => 5 | Div => 4 | Mult => 3 | Minus => 2 | Plus => 1 end.
(* the usual one: + - together, * / together, ** above *)
Definition std_level (o : bop) : nat :=
  match o with Pow => 3 | Div | Mult => 2 | Minus | Plus => 1 end.

(* every pair of operators: which one is applied first in  a o1 b o2 c *)
Lemma reduce_pair o1 o2 a b c :
  reduce [IE a; IOp o1; IE b; IOp o2; IE c] =
  Some (if level o2 <=? level o1 then mk o2 (mk o1 a b) c else mk o1 a (mk o2 b c)).
Proof. destruct o1, o2; reflexivity. Qed.

(* unary minus *)
Lemma reduce_neg a : reduce [IOp Minus; IE a] = Some (Neg a).
Proof. reflexivity. Qed.
Lemma reduce_neg_pow a b : reduce [IOp Minus; IE a; IOp Pow; IE b] = Some (Neg (mk Pow a b)).
Proof. reflexivity. Qed.
Lemma reduce_neg_first o a b : o <> Pow -> reduce [IOp Minus; IE a; IOp o; IE b] =
  Some (match o with Mult | Div => Neg (mk o a b) | _ => mk o (Neg a) b end).
Proof. destruct o; intros H; try reflexivity. congruence. Qed.
Lemma reduce_op_neg o a b : o = Mult \/ o = Div \/ o = Pow ->
  reduce [IE a; IOp o; IOp Minus; IE b] = Some (mk o a (Neg b)).
Proof. intros [->|[->| ->]]; reflexivity. Qed.
Lemma reduce_plus_neg a b : reduce [IE a; IOp Plus; IOp Minus; IE b] = Some (Bin Plus a (Neg b)).
Proof. reflexivity. Qed.
Lemma reduce_rejects a b :
  reduce [] = None /\ reduce [IE a; IE b] = None /\
  reduce [IE a; IOp Minus; IOp Minus; IE b] = None /\ reduce [IE a; IOp Minus; IOp Plus; IE b] = None /\
  reduce [IE a; IOp Mult; IOp Plus; IE b] = None /\ reduce [IE a; IOp Pow; IOp Plus; IE b] = None /\
  reduce [IE a; IOp Mult; IOp Div; IE b] = None /\
  (forall o, o <> Minus -> reduce [IOp o; IE a] = None) /\ (forall o, reduce [IE a; IOp o] = None) /\
  reduce [IOp Minus; IOp Minus; IE a] = None.
Proof.
  repeat split; try reflexivity.
  - intros o H; destruct o; try reflexivity; congruence.
  - intros o; destruct o; reflexivity.
Qed.

(* a chain  a0 op a1 op ... op an  of one operator associates to the left, the power operator included *)
Fixpoint flat (op : bop) (l : list expr) : list item :=
  match l with [] => [] | a :: r => IOp op :: IE a :: flat op r end.

Fixpoint no_op (op : bop) (l : list item) : bool :=
  match l with
  | [] => true
  | IOp o :: r => negb (bop_eqb o op) && no_op op r
  | IE _ :: r => no_op op r
  end.

Lemma pass_no_op op : forall l pre, no_op op l = true -> pass op pre l = Some (rev pre ++ l).
Proof.
  induction l as [|i r IH]; intros pre H; cbn [pass].
  - now rewrite app_nil_r.
  - destruct i as [o|e]; cbn [no_op] in H.
    + apply andb_prop in H. destruct H as [H1 H2]. rewrite H1. rewrite (IH _ H2). cbn [rev]. now rewrite <- app_assoc.
    + rewrite (IH _ H). cbn [rev]. now rewrite <- app_assoc.
Qed.

Lemma pass_chain op : forall l a0 pre,
  pass op (IE a0 :: pre) (flat op l) = Some (rev pre ++ [IE (fold_left (mk op) l a0)]).
Proof.
  induction l as [|a r IH]; intros a0 pre; cbn [flat pass fold_left].
  - reflexivity.
  - replace (bop_eqb op op) with true by (destruct op; reflexivity). cbn [negb]. apply IH.
Qed.

Lemma bop_eqb_neq o op : o <> op -> bop_eqb o op = false.
Proof. destruct o, op; intros H; try reflexivity; congruence. Qed.

Lemma no_op_flat op' op l a0 : op <> op' -> no_op op' (IE a0 :: flat op l) = true.
Proof.
  intros H. cbn [no_op]. induction l as [|a r IH]; cbn [flat no_op]; [reflexivity|].
  rewrite (bop_eqb_neq _ _ H). exact IH.
Qed.

Lemma pass_single op e : pass op [] [IE e] = Some [IE e].
Proof. reflexivity. Qed.

Lemma reduce_chain op l a0 : reduce (IE a0 :: flat op l) = Some (fold_left (mk op) l a0).
Proof.
  unfold reduce.
  assert (C : pass op [] (IE a0 :: flat op l) = Some [IE (fold_left (mk op) l a0)]).
  { cbn [pass]. rewrite pass_chain. reflexivity. }
  assert (N : forall op', op <> op' -> pass op' [] (IE a0 :: flat op l) = Some (IE a0 :: flat op l)).
  { intros op' H. rewrite pass_no_op; [reflexivity|]. now apply no_op_flat. }
  destruct op; repeat (first [rewrite C | rewrite N by congruence]; cbn [obind]); reflexivity.
Qed.

(* values: over the reals, with any interpretation of the functions, the grouping chosen by the code for every pair of
   the four arithmetic operators has the value of the usual precedence with left associativity *)
Section Values.
  Local Open Scope R_scope.
  Variables (rpow : R -> R -> R) (rpowz : R -> Z -> R) (df : dfn -> R -> R) (uf : ufn -> R -> R)
            (bf : bfn -> R -> R -> R) (l10 : R) (lt le eq : R -> R -> bool).
  Definition Rops13 : NumOps R :=
    {| ofZ := IZR; add := Rplus; sub := Rminus; mul := Rmult; div := Rdiv; opp := Ropp;
       pow := rpow; powz := rpowz; dfun := df; ufun := uf; bfun := bf; ln10 := l10;
       ltb := lt; leb := le; eqb := eq |}.
  Definition arith (o : bop) := match o with Pow => false | _ => true end.

  Lemma reduce_pair_value o1 o2 a b c env : arith o1 = true -> arith o2 = true ->
    exists e, reduce [IE a; IOp o1; IE b; IOp o2; IE c] = Some e /\
      eval Rops13 env e =
      eval Rops13 env (if std_level o2 <=? std_level o1 then Bin o2 (Bin o1 a b) c else Bin o1 a (Bin o2 b c)).
  Proof.
    intros H1 H2. rewrite reduce_pair. eexists; split; [reflexivity|].
    destruct o1, o2; try discriminate; cbn; unfold Rdiv; ring.
  Qed.
End Values.

(* the pipeline on concrete token lists *)
Definition X := Var 0.
Lemma parse_examples : forall v : variant,
  parse_gen v [KNum 1; KOp Plus; KNum 2; KOp Mult; KVar 0] = Some (Bin Plus (Num 1) (Bin Mult (Num 2) X)) /\
  parse_gen v [KL; KNum 1; KOp Plus; KNum 2; KR; KOp Mult; KVar 0] = Some (Bin Mult (Bin Plus (Num 1) (Num 2)) X) /\
  parse_gen v [KOp Minus; KVar 0; KOp Pow; KNum 2] = Some (Neg (PowN 2 X)) /\
  parse_gen v [KVar 0; KOp Pow; KVar 1; KOp Pow; KVar 2] = Some (Bin Pow (Bin Pow X (Var 1)) (Var 2)) /\
  parse_gen v [KFun Sin; KL; KVar 0; KOp Div; KNum 2; KR] = Some (Fun Sin (Bin Div X (Num 2))) /\
  parse_gen v [KBFun Max; KL; KVar 0; KComma; KNum 2; KR] = Some (BFun Max X (Num 2)) /\
  parse_gen v [KVar 0; KCmp CGt; KNum 1; KQ; KFun Sin; KL; KVar 0; KR; KColon; KNum 2] =
    Some (Cond (LCmp CGt X (Num 1)) (Fun Sin X) (Num 2)) /\
  parse_gen v [KVar 0; KCmp CGt; KNum 1; KAnd; KNot; KVar 1; KCmp CLe; KNum 2; KQ; KNum 1; KColon; KNum 0] =
    Some (Cond (LAnd (LCmp CGt X (Num 1)) (LNot (LCmp CLe (Var 1) (Num 2)))) (Num 1) (Num 0)) /\
  parse_gen v [KL; KVar 0] = None /\ parse [KVar 0; KR] = None /\ parse [] = None /\
  parse_gen v [KVar 0; KOp Minus; KOp Minus; KVar 1] = None /\ parse [KFun Sin; KVar 0] = None /\
  parse_gen v [KVar 0; KQ; KNum 1; KColon; KNum 2] = None.
Proof. intros [[|] [|] [|]]; vm_compute; repeat split. Qed.

Lemma parse_total v l : (exists e, parse_gen v l = Some e) \/ parse_gen v l = None.
Proof. destruct (parse_gen v l) as [e|]; [left; now exists e | now right]. Qed.

(* ---- the three limitations of the pinned parser (findings) and their repairs (flags of [variant]) ---- *)
Definition Y := Var 1.
Definition Z' := Var 2.
Definition n_ (z : Z) := KNum (inject_Z z).
Definition N_ (z : Z) := Num (inject_Z z).

(* (x+1)*2>3 ? 1 : 0      (x)>1 ? 1 : 0      (x>1) ? 1 : 0      ((x+1)>(y)) ? 1 : 0 *)
Definition f_lpar1 := [KL; KVar 0; KOp Plus; n_ 1; KR; KOp Mult; n_ 2; KCmp CGt; n_ 3; KQ; n_ 1; KColon; n_ 0].
Definition f_lpar2 := [KL; KVar 0; KR; KCmp CGt; n_ 1; KQ; n_ 1; KColon; n_ 0].
Definition f_lpar3 := [KL; KVar 0; KCmp CGt; n_ 1; KR; KQ; n_ 1; KColon; n_ 0].
Definition f_lpar4 := [KL; KL; KVar 0; KOp Plus; n_ 1; KR; KCmp CGt; KL; KVar 1; KR; KR; KQ; n_ 1; KColon; n_ 0].
Definition e_lpar1 := Cond (LCmp CGt (Bin Mult (Bin Plus X (N_ 1)) (N_ 2)) (N_ 3)) (N_ 1) (N_ 0).
Definition e_lpar2 := Cond (LCmp CGt X (N_ 1)) (N_ 1) (N_ 0).
Definition e_lpar4 := Cond (LCmp CGt (Bin Plus X (N_ 1)) Y) (N_ 1) (N_ 0).

Lemma lpar_repaired v : v_lpar_match v = true ->
  parse_gen v f_lpar1 = Some e_lpar1 /\ parse_gen v f_lpar2 = Some e_lpar2 /\ parse_gen v f_lpar3 = Some e_lpar2 /\
  parse_gen v f_lpar4 = Some e_lpar4.
Proof. destruct v as [[|] [|] [|]]; cbn [v_lpar_match]; intros H; try discriminate H; vm_compute; repeat split. Qed.

(* a well-formed formula (the repaired pipeline gives it the intended tree) that the pinned treatment rejects *)
Lemma lpar_refuted : exists l e, parse_gen repaired l = Some e /\
  forall v, v_lpar_match v = false -> parse_gen v l = None.
Proof.
  exists f_lpar1, e_lpar1. split; [vm_compute; reflexivity|].
  intros [[|] [|] [|]]; cbn [v_lpar_match]; intros H; try discriminate H; vm_compute; reflexivity.
Qed.

(* 2*(sin(x)>0 ? 1 : 2)      max(max(x,y)>1 ? 1 : 2, 3)      x>0 ? (sin(y)>0 ? 1 : 2) : 3 *)
Definition f_nest1 := [n_ 2; KOp Mult; KL; KFun Sin; KL; KVar 0; KR; KCmp CGt; n_ 0; KQ; n_ 1; KColon; n_ 2; KR].
Definition f_nest2 := [KBFun Max; KL; KBFun Max; KL; KVar 0; KComma; KVar 1; KR; KCmp CGt; n_ 1; KQ; n_ 1; KColon; n_ 2;
                       KComma; n_ 3; KR].
Definition f_nest3 := [KVar 0; KCmp CGt; n_ 0; KQ; KL; KFun Sin; KL; KVar 1; KR; KCmp CGt; n_ 0; KQ; n_ 1; KColon; n_ 2; KR;
                       KColon; n_ 3].
Definition e_nest1 := Bin Mult (N_ 2) (Cond (LCmp CGt (Fun Sin X) (N_ 0)) (N_ 1) (N_ 2)).
Definition e_nest2 := BFun Max (Cond (LCmp CGt (BFun Max X Y) (N_ 1)) (N_ 1) (N_ 2)) (N_ 3).
Definition e_nest3 := Cond (LCmp CGt X (N_ 0)) (Cond (LCmp CGt (Fun Sin Y) (N_ 0)) (N_ 1) (N_ 2)) (N_ 3).

Lemma nested_repaired v : v_depth_stop v = true ->
  parse_gen v f_nest1 = Some e_nest1 /\ parse_gen v f_nest2 = Some e_nest2 /\ parse_gen v f_nest3 = Some e_nest3.
Proof. destruct v as [[|] [|] [|]]; cbn [v_depth_stop]; intros H; try discriminate H; vm_compute; repeat split. Qed.

Lemma nested_refuted : exists l e, parse_gen repaired l = Some e /\
  forall v, v_depth_stop v = false -> parse_gen v l = None.
Proof.
  exists f_nest1, e_nest1. split; [vm_compute; reflexivity|].
  intros [[|] [|] [|]]; cbn [v_depth_stop]; intros H; try discriminate H; vm_compute; reflexivity.
Qed.

(* x>3 || y>2 && z>5 ? 1 : 0      x>3 && y>2 || z<5 ? 1 : 0 *)
Definition f_or1 := [KVar 0; KCmp CGt; n_ 3; KOr; KVar 1; KCmp CGt; n_ 2; KAnd; KVar 2; KCmp CGt; n_ 5; KQ; n_ 1; KColon; n_ 0].
Definition f_or2 := [KVar 0; KCmp CGt; n_ 3; KAnd; KVar 1; KCmp CGt; n_ 2; KOr; KVar 2; KCmp CLt; n_ 5; KQ; n_ 1; KColon; n_ 0].
Definition c_a := LCmp CGt X (N_ 3).
Definition c_b := LCmp CGt Y (N_ 2).
Definition c_c := LCmp CGt Z' (N_ 5).
Definition c_d := LCmp CLt Z' (N_ 5).

Lemma or_repaired v : v_or_first v = true ->
  parse_gen v f_or1 = Some (Cond (LOr c_a (LAnd c_b c_c)) (N_ 1) (N_ 0)) /\
  parse_gen v f_or2 = Some (Cond (LOr (LAnd c_a c_b) c_d) (N_ 1) (N_ 0)).
Proof. destruct v as [[|] [|] [|]]; cbn [v_or_first]; intros H; try discriminate H; vm_compute; repeat split. Qed.

(* integer scalars are enough to exhibit a point where the two readings differ *)
Definition Zops : NumOps Z :=
  {| ofZ := fun z => z; add := Z.add; sub := Z.sub; mul := Z.mul; div := Z.div; opp := Z.opp;
     pow := fun a _ => a; powz := fun a _ => a; dfun := fun _ a => a; ufun := fun _ a => a; bfun := fun _ a _ => a;
     ln10 := 2%Z; ltb := Z.ltb; leb := Z.leb; eqb := Z.eqb |}.
Definition env_or : nat -> Z := fun i => match i with O => 4%Z | _ => 0%Z end.

(* the pinned treatment reads  a || b && c  as  (a || b) && c : at x = 4, y = z = 0 the formula is 0, the C reading
   (the one of the repaired pipeline) gives 1 *)
Lemma or_refuted : exists l e, parse_gen repaired l = Some e /\ eval Zops env_or e = 1%Z /\
  forall v, v_or_first v = false -> exists e', parse_gen v l = Some e' /\ eval Zops env_or e' = 0%Z.
Proof.
  exists f_or1, (Cond (LOr c_a (LAnd c_b c_c)) (N_ 1) (N_ 0)). split; [vm_compute; reflexivity|]. split; [vm_compute; reflexivity|].
  intros [[|] [|] [|]]; cbn [v_or_first]; intros H; try discriminate H;
    (exists (Cond (LAnd (LOr c_a c_b) c_c) (N_ 1) (N_ 0)); split; vm_compute; reflexivity).
Qed.

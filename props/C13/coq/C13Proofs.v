(* C13 -- lemmas on the reduction passes of TGroup::reduce as modelled in C13Model.v *)
From Coq Require Import Reals ZArith QArith List Bool Arith Lia.
From C13 Require Import C14Model C13Model.
Import ListNotations.

(* binding strength used by the code: one pass per operator, ** first, then / * - + *)
Definition level (o : bop) : nat :=
  match o with Pow => 5 | Div => 4 | Mult => 3 | Minus => 2 | Plus => 1 end.
(* the usual one: + - together, * / together, ** above *)
Definition std_level (o : bop) : nat :=
  match o with Pow => 3 | Div | Mult => 2 | Minus | Plus => 1 end.

(* every pair of operators: which one is applied first in  a o1 b o2 c *)
Lemma reduce_pair o1 o2 a b c :
  reduce [IE a; IOp o1; IE b; IOp o2; IE c] =
  Some (if level o2 <=? level o1 then mk o2 (mk o1 a b) c else mk o1 a (mk o2 b c)).
Proof. destruct o1, o2; reflexivity. Qed.

(* unary minus *)
Lemma reduce_neg a : reduce [IOp Minus; IE a] = Some (Neg a).
Proof. reflexivity. Qed.
Lemma reduce_neg_pow a b : reduce [IOp Minus; IE a; IOp Pow; IE b] = Some (Neg (mk Pow a b)).
Proof. reflexivity. Qed.
Lemma reduce_neg_first o a b : o <> Pow -> reduce [IOp Minus; IE a; IOp o; IE b] =
  Some (match o with Mult | Div => Neg (mk o a b) | _ => mk o (Neg a) b end).
Proof. destruct o; intros H; try reflexivity. congruence. Qed.
Lemma reduce_op_neg o a b : o = Mult \/ o = Div \/ o = Pow ->
  reduce [IE a; IOp o; IOp Minus; IE b] = Some (mk o a (Neg b)).
Proof. intros [->|[->| ->]]; reflexivity. Qed.
Lemma reduce_plus_neg a b : reduce [IE a; IOp Plus; IOp Minus; IE b] = Some (Bin Plus a (Neg b)).
Proof. reflexivity. Qed.
Lemma reduce_rejects a b :
  reduce [] = None /\ reduce [IE a; IE b] = None /\
  reduce [IE a; IOp Minus; IOp Minus; IE b] = None /\ reduce [IE a; IOp Minus; IOp Plus; IE b] = None /\
  reduce [IE a; IOp Mult; IOp Plus; IE b] = None /\ reduce [IE a; IOp Pow; IOp Plus; IE b] = None /\
  reduce [IE a; IOp Mult; IOp Div; IE b] = None /\
  (forall o, o <> Minus -> reduce [IOp o; IE a] = None) /\ (forall o, reduce [IE a; IOp o] = None) /\
  reduce [IOp Minus; IOp Minus; IE a] = None.
Proof.
  repeat split; try reflexivity.
  - intros o H; destruct o; try reflexivity; congruence.
  - intros o; destruct o; reflexivity.
Qed.

(* a chain  a0 op a1 op ... op an  of one operator associates to the left, the power operator included *)
Fixpoint flat (op : bop) (l : list expr) : list item :=
  match l with [] => [] | a :: r => IOp op :: IE a :: flat op r end.

Fixpoint no_op (op : bop) (l : list item) : bool :=
  match l with
  | [] => true
  | IOp o :: r => negb (bop_eqb o op) && no_op op r
  | IE _ :: r => no_op op r
  end.

Lemma pass_no_op op : forall l pre, no_op op l = true -> pass op pre l = Some (rev pre ++ l).
Proof.
  induction l as [|i r IH]; intros pre H; cbn [pass].
  - now rewrite app_nil_r.
  - destruct i as [o|e]; cbn [no_op] in H.
    + apply andb_prop in H. destruct H as [H1 H2]. rewrite H1. rewrite (IH _ H2). cbn [rev]. now rewrite <- app_assoc.
    + rewrite (IH _ H). cbn [rev]. now rewrite <- app_assoc.
Qed.

Lemma pass_chain op : forall l a0 pre,
  pass op (IE a0 :: pre) (flat op l) = Some (rev pre ++ [IE (fold_left (mk op) l a0)]).
Proof.
  induction l as [|a r IH]; intros a0 pre; cbn [flat pass fold_left].
  - reflexivity.
  - replace (bop_eqb op op) with true by (destruct op; reflexivity). cbn [negb]. apply IH.
Qed.

Lemma bop_eqb_neq o op : o <> op -> bop_eqb o op = false.
Proof. destruct o, op; intros H; try reflexivity; congruence. Qed.

Lemma no_op_flat op' op l a0 : op <> op' -> no_op op' (IE a0 :: flat op l) = true.
Proof.
  intros H. cbn [no_op]. induction l as [|a r IH]; cbn [flat no_op]; [reflexivity|].
  rewrite (bop_eqb_neq _ _ H). exact IH.
Qed.

Lemma pass_single op e : pass op [] [IE e] = Some [IE e].
Proof. reflexivity. Qed.

Lemma reduce_chain op l a0 : reduce (IE a0 :: flat op l) = Some (fold_left (mk op) l a0).
Proof.
  unfold reduce.
  assert (C : pass op [] (IE a0 :: flat op l) = Some [IE (fold_left (mk op) l a0)]).
  { cbn [pass]. rewrite pass_chain. reflexivity. }
  assert (N : forall op', op <> op' -> pass op' [] (IE a0 :: flat op l) = Some (IE a0 :: flat op l)).
  { intros op' H. rewrite pass_no_op; [reflexivity|]. now apply no_op_flat. }
  destruct op; repeat (first [rewrite C | rewrite N by congruence]; cbn [obind]); reflexivity.
Qed.

(* values: over the reals, with any interpretation of the functions, the grouping chosen by the code for every pair of
   the four arithmetic operators has the value of the usual precedence with left associativity *)
Section Values.
  Local Open Scope R_scope.
  Variables (rpow : R -> R -> R) (rpowz : R -> Z -> R) (df : dfn -> R -> R) (uf : ufn -> R -> R)
            (bf : bfn -> R -> R -> R) (l10 : R) (lt le eq : R -> R -> bool).
  Definition Rops13 : NumOps R :=
    {| ofZ := IZR; add := Rplus; sub := Rminus; mul := Rmult; div := Rdiv; opp := Ropp;
       pow := rpow; powz := rpowz; dfun := df; ufun := uf; bfun := bf; ln10 := l10;
       ltb := lt; leb := le; eqb := eq |}.
  Definition arith (o : bop) := match o with Pow => false | _ => true end.

  Lemma reduce_pair_value o1 o2 a b c env : arith o1 = true -> arith o2 = true ->
    exists e, reduce [IE a; IOp o1; IE b; IOp o2; IE c] = Some e /\
      eval Rops13 env e =
      eval Rops13 env (if std_level o2 <=? std_level o1 then Bin o2 (Bin o1 a b) c else Bin o1 a (Bin o2 b c)).
  Proof.
    intros H1 H2. rewrite reduce_pair. eexists; split; [reflexivity|].
    destruct o1, o2; try discriminate; cbn; unfold Rdiv; ring.
  Qed.
End Values.

(* the pipeline on concrete token lists *)
Definition X := Var 0.
Lemma parse_examples :
  parse [KNum 1; KOp Plus; KNum 2; KOp Mult; KVar 0] = Some (Bin Plus (Num 1) (Bin Mult (Num 2) X)) /\
  parse [KL; KNum 1; KOp Plus; KNum 2; KR; KOp Mult; KVar 0] = Some (Bin Mult (Bin Plus (Num 1) (Num 2)) X) /\
  parse [KOp Minus; KVar 0; KOp Pow; KNum 2] = Some (Neg (PowN 2 X)) /\
  parse [KVar 0; KOp Pow; KVar 1; KOp Pow; KVar 2] = Some (Bin Pow (Bin Pow X (Var 1)) (Var 2)) /\
  parse [KFun Sin; KL; KVar 0; KOp Div; KNum 2; KR] = Some (Fun Sin (Bin Div X (Num 2))) /\
  parse [KBFun Max; KL; KVar 0; KComma; KNum 2; KR] = Some (BFun Max X (Num 2)) /\
  parse [KVar 0; KCmp CGt; KNum 1; KQ; KFun Sin; KL; KVar 0; KR; KColon; KNum 2] =
    Some (Cond (LCmp CGt X (Num 1)) (Fun Sin X) (Num 2)) /\
  parse [KVar 0; KCmp CGt; KNum 1; KAnd; KNot; KVar 1; KCmp CLe; KNum 2; KQ; KNum 1; KColon; KNum 0] =
    Some (Cond (LAnd (LCmp CGt X (Num 1)) (LNot (LCmp CLe (Var 1) (Num 2)))) (Num 1) (Num 0)) /\
  parse [KL; KVar 0] = None /\ parse [KVar 0; KR] = None /\ parse [] = None /\
  parse [KVar 0; KOp Minus; KOp Minus; KVar 1] = None /\ parse [KFun Sin; KVar 0] = None /\
  parse [KVar 0; KQ; KNum 1; KColon; KNum 2] = None.
Proof. vm_compute. repeat split. Qed.

Lemma parse_total l : (exists e, parse l = Some e) \/ parse l = None.
Proof. destruct (parse l) as [e|]; [left; now exists e | now right]. Qed.

(* C13 -- selected when the tree accepts conditions that begin with '(' (fix_logical_leading_parenthesis.diff applied):
   (x+1)*2>3 ? 1 : 0,  (x)>1 ? 1 : 0,  (x>1) ? 1 : 0,  ((x+1)>(y)) ? 1 : 0 are parsed to the intended trees *)
From Coq Require Import ZArith QArith List Bool Arith.
From C13 Require Import C14Model C13Model C13Proofs.
Import ListNotations.

Theorem C13_condition_beginning_with_parenthesis : forall v, v_lpar_match v = true ->
  parse_gen v f_lpar1 = Some e_lpar1 /\ parse_gen v f_lpar2 = Some e_lpar2 /\ parse_gen v f_lpar3 = Some e_lpar2 /\
  parse_gen v f_lpar4 = Some e_lpar4.
Proof. exact lpar_repaired. Qed.
Print Assumptions C13_condition_beginning_with_parenthesis.

(* C13 -- property theorems (statements only; proofs in C13Proofs.v) *)
From Coq Require Import Reals ZArith QArith List Bool Arith.
From C13 Require Import C14Model C13Model C13Proofs C13ParsePrint.
Import ListNotations.

(* which operator is applied first in  a o1 b o2 c, for every pair of operators and all sub-formulas *)
Theorem C13_precedence_pairs : forall o1 o2 a b c,
  reduce [IE a; IOp o1; IE b; IOp o2; IE c] =
  Some (if level o2 <=? level o1 then mk o2 (mk o1 a b) c else mk o1 a (mk o2 b c)).
Proof. exact reduce_pair. Qed.
Print Assumptions C13_precedence_pairs.

(* for + - * / that grouping has the value of the usual precedence with left associativity (reals, any functions) *)
Theorem C13_precedence_pairs_value :
  forall rpow rpowz df uf bf l10 lt le eq o1 o2 a b c env, arith o1 = true -> arith o2 = true ->
  exists e, reduce [IE a; IOp o1; IE b; IOp o2; IE c] = Some e /\
    eval (Rops13 rpow rpowz df uf bf l10 lt le eq) env e =
    eval (Rops13 rpow rpowz df uf bf l10 lt le eq) env
         (if std_level o2 <=? std_level o1 then Bin o2 (Bin o1 a b) c else Bin o1 a (Bin o2 b c)).
Proof. exact reduce_pair_value. Qed.
Print Assumptions C13_precedence_pairs_value.

(* chains of one operator associate to the left, ** included (2**3**2 = (2**3)**2) *)
Theorem C13_left_associative : forall op l a0, reduce (IE a0 :: flat op l) = Some (fold_left (mk op) l a0).
Proof. exact reduce_chain. Qed.
Print Assumptions C13_left_associative.

(* unary minus: -a, -a**b = -(a**b), a*-b, a/-b, a**-b, and the meaning of a+-b *)
Theorem C13_unary_minus : forall a b,
  reduce [IOp Minus; IE a] = Some (Neg a) /\
  reduce [IOp Minus; IE a; IOp Pow; IE b] = Some (Neg (mk Pow a b)) /\
  (forall o, o = Mult \/ o = Div \/ o = Pow -> reduce [IE a; IOp o; IOp Minus; IE b] = Some (mk o a (Neg b))) /\
  reduce [IE a; IOp Plus; IOp Minus; IE b] = Some (Bin Plus a (Neg b)).
Proof. intros a b. exact (conj (reduce_neg a) (conj (reduce_neg_pow a b) (conj (fun o => reduce_op_neg o a b) (reduce_plus_neg a b)))). Qed.
Print Assumptions C13_unary_minus.

(* malformed operator sequences are rejected *)
Theorem C13_operator_sequences_rejected : forall a b,
  reduce [] = None /\ reduce [IE a; IE b] = None /\
  reduce [IE a; IOp Minus; IOp Minus; IE b] = None /\ reduce [IE a; IOp Minus; IOp Plus; IE b] = None /\
  reduce [IE a; IOp Mult; IOp Plus; IE b] = None /\ reduce [IE a; IOp Pow; IOp Plus; IE b] = None /\
  reduce [IE a; IOp Mult; IOp Div; IE b] = None /\
  (forall o, o <> Minus -> reduce [IOp o; IE a] = None) /\ (forall o, reduce [IE a; IOp o] = None) /\
  reduce [IOp Minus; IOp Minus; IE a] = None.
Proof. exact reduce_rejects. Qed.
Print Assumptions C13_operator_sequences_rejected.

(* the whole pipeline on concrete token lists (grouping, functions, conditionals, rejections), for the pinned tree
   and for every combination of the three repairs *)
Theorem C13_pipeline_examples : forall v : variant,
  parse_gen v [KNum 1; KOp Plus; KNum 2; KOp Mult; KVar 0] = Some (Bin Plus (Num 1) (Bin Mult (Num 2) X)) /\
  parse_gen v [KL; KNum 1; KOp Plus; KNum 2; KR; KOp Mult; KVar 0] = Some (Bin Mult (Bin Plus (Num 1) (Num 2)) X) /\
  parse_gen v [KOp Minus; KVar 0; KOp Pow; KNum 2] = Some (Neg (PowN 2 X)) /\
  parse_gen v [KVar 0; KOp Pow; KVar 1; KOp Pow; KVar 2] = Some (Bin Pow (Bin Pow X (Var 1)) (Var 2)) /\
  parse_gen v [KFun Sin; KL; KVar 0; KOp Div; KNum 2; KR] = Some (Fun Sin (Bin Div X (Num 2))) /\
  parse_gen v [KBFun Max; KL; KVar 0; KComma; KNum 2; KR] = Some (BFun Max X (Num 2)) /\
  parse_gen v [KVar 0; KCmp CGt; KNum 1; KQ; KFun Sin; KL; KVar 0; KR; KColon; KNum 2] =
    Some (Cond (LCmp CGt X (Num 1)) (Fun Sin X) (Num 2)) /\
  parse_gen v [KVar 0; KCmp CGt; KNum 1; KAnd; KNot; KVar 1; KCmp CLe; KNum 2; KQ; KNum 1; KColon; KNum 0] =
    Some (Cond (LAnd (LCmp CGt X (Num 1)) (LNot (LCmp CLe (Var 1) (Num 2)))) (Num 1) (Num 0)) /\
  parse_gen v [KL; KVar 0] = None /\ parse [KVar 0; KR] = None /\ parse [] = None /\
  parse_gen v [KVar 0; KOp Minus; KOp Minus; KVar 1] = None /\ parse [KFun Sin; KVar 0] = None /\
  parse_gen v [KVar 0; KQ; KNum 1; KColon; KNum 2] = None.
Proof. exact parse_examples. Qed.
Print Assumptions C13_pipeline_examples.

(* the pipeline is a total function: every token list is mapped to a tree or rejected *)
Theorem C13_total : forall v l, (exists e, parse_gen v l = Some e) \/ parse_gen v l = None.
Proof. exact parse_total. Qed.
Print Assumptions C13_total.

(* GENERAL (restricted fragment, hence _partial): for EVERY expression tree made of non-negative numbers, variables,
   unary minus, + - * / and calls of the one-argument functions, the tokens printed with the minimal parentheses of the
   usual precedence and left associativity (print = the printer of check.py on this fragment; a unary minus is written
   bare at the beginning of a group and directly after * or /) are accepted by the modelled pipeline -- treatGroup,
   treatGroup2, function application and the five passes of TGroup::reduce, for the pinned tree and for every
   combination of the repairs -- and the tree that it builds evaluates like the original one over the reals, for any
   interpretation of the functions.  Not covered by this theorem: ** (see C13_left_associative / C13_unary_minus /
   C13_precedence_pairs), two-argument functions, conditionals. *)
Theorem C13_parse_print_partial : forall (v : variant) (e : expr), frag e = true ->
  exists e', parse_gen v (print e) = Some e' /\
    forall rpow rpowz df uf bf l10 lt le eq env,
      eval (Rops13 rpow rpowz df uf bf l10 lt le eq) env e' = eval (Rops13 rpow rpowz df uf bf l10 lt le eq) env e.
Proof. exact parse_print_value. Qed.
Print Assumptions C13_parse_print_partial.

(* the reduction passes on the flat view of a sum of terms: the tree built by the five passes, syntactically *)
Theorem C13_reduce_flat_sum : forall s : sm, reduce (sitems s) = Some (sres s).
Proof. exact reduce_sum. Qed.
Print Assumptions C13_reduce_flat_sum.

(* C13 -- selected when the tree rejects '2*(sin(x)>0 ? 1 : 2)' (finding): Evaluator::search stops at the first ')' whatever
   the depth *)
From Coq Require Import ZArith QArith List Bool Arith.
From C13 Require Import C14Model C13Model C13Proofs.
Import ListNotations.

Theorem C13_conditional_inside_parentheses_refuted : exists l e, parse_gen repaired l = Some e /\
  forall v, v_depth_stop v = false -> parse_gen v l = None.
Proof. exact nested_refuted. Qed.
Print Assumptions C13_conditional_inside_parentheses_refuted.

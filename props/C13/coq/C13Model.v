(* C13 -- executable model of the token-level pipeline of tfel::math::Evaluator (src/Math/Evaluator.cxx:
   search, treatGroup, treatGroup2, treatLogicalExpression, treatLogicalExpression2, searchComparisonOperator,
   analyseArguments; src/Math/EvaluatorTExpr.cxx: TGroup::reduce and its passes, TBinaryOperation::analyse).
   Tokens are those produced by EvaluatorBase::splitAtTokenSeperator, already classified (number / known function /
   declared variable / operator / punctuation).  The result is a tree of C14Model.expr (the parser::Expr classes),
   None where the code throws.  Definitions only. *)
From Coq Require Import ZArith QArith List Bool Arith.
From C13 Require Import C14Model.
Import ListNotations.

(* The three flags select, for each of the three limitations of the pinned tree reported as findings, the pinned
   behaviour ([false]) or the behaviour with the corresponding props/C13/fix_*.diff applied ([true]); the check
   observes the real code on probe formulas and runs the extracted model with the matching flags.
     v_depth_stop : fix_search_nested_group.diff          Evaluator::search stops at the delimiter only at depth 0
     v_lpar_match : fix_logical_leading_parenthesis.diff  treatLogicalExpression strips '(' only with ITS closing ')'
     v_or_first   : fix_logical_or_priority.diff          treatLogicalExpression splits at '||' before '&&' *)
Record variant := { v_depth_stop : bool; v_lpar_match : bool; v_or_first : bool }.
Definition pinned : variant := {| v_depth_stop := false; v_lpar_match := false; v_or_first := false |}.
Definition repaired : variant := {| v_depth_stop := true; v_lpar_match := true; v_or_first := true |}.

Inductive tok :=
| KNum (q : Q) | KVar (i : nat) | KFun (f : dfn) | KUFun (f : ufn) | KBFun (f : bfn)
| KOp (o : bop) | KL | KR | KComma | KQ | KColon | KCmp (c : cmp) | KAnd | KOr | KNot
| KBad.   (* anything else: unknown identifier, '=', ... *)

(* the `s` argument of treatGroup: "" , ")" or "," *)
Inductive stop := SNone | SR | SComma.
Definition is_stop (s : stop) (t : tok) : bool :=
  match s, t with SR, KR => true | SComma, KComma => true | _, _ => false end.
Definition isQ t := match t with KQ => true | _ => false end.
Definition isColon t := match t with KColon => true | _ => false end.
Definition isAnd t := match t with KAnd => true | _ => false end.
Definition isOr t := match t with KOr => true | _ => false end.

(* Evaluator::search(p, pe, m, s): None = throws (unbalanced parenthesis); Some None = not found (loop ended at pe
   or at the first token equal to s -- whatever the depth in the pinned tree [aw = false], at depth 0 only with
   fix_search_nested_group.diff [aw = true]); Some (Some k) = found at offset k *)
Fixpoint search (aw : bool) (m : tok -> bool) (s : stop) (l : list tok) (depth pos : nat) : option (option nat) :=
  match l with
  | [] => Some None
  | t :: r =>
    if is_stop s t && (negb aw || Nat.eqb depth 0) then Some None else
    match t with
    | KL => search aw m s r (S depth) (S pos)
    | KR => match depth with O => None | S d => search aw m s r d (S pos) end
    | _ => if m t && Nat.eqb depth 0 then Some (Some pos) else search aw m s r depth (S pos)
    end
  end.

(* fix_logical_leading_parenthesis.diff: offset of the ')' that closes the '(' which begins the list *)
Fixpoint close_pos (l : list tok) (depth pos : nat) : option nat :=
  match l with
  | [] => None
  | KL :: r => close_pos r (S depth) (S pos)
  | KR :: r => match depth with
               | O => None
               | S O => Some pos
               | S d => close_pos r d (S pos)
               end
  | _ :: r => close_pos r depth (S pos)
  end.

(* Evaluator::searchComparisonOperator: the unique comparison operator at depth 0 *)
Fixpoint search_cmp (l : list tok) (depth pos : nat) (found : option (nat * cmp)) : option (option (nat * cmp)) :=
  match l with
  | [] => Some found
  | t :: r =>
    match t with
    | KL => search_cmp r (S depth) (S pos) found
    | KR => match depth with O => None | S d => search_cmp r d (S pos) found end
    | KCmp c =>
      if Nat.eqb depth 0 then
        match found with
        | Some _ => None
        | None => match c, pos with CLt, O => None | _, _ => search_cmp r depth (S pos) (Some (pos, c)) end
        end
      else search_cmp r depth (S pos) found
    | _ => search_cmp r depth (S pos) found
    end
  end.

(* ---- TGroup: items, reduction passes ---- *)
Inductive item := IOp (o : bop) | IE (e : expr).

Definition bop_eqb (a b : bop) : bool :=
  match a, b with Plus, Plus | Minus, Minus | Mult, Mult | Div, Div | Pow, Pow => true | _, _ => false end.

(* value of a constant exponent when it is built from numbers with + - * / and unary minus *)
Fixpoint cval (e : expr) : option Q :=
  match e with
  | Num q => Some q
  | Neg a => option_map Qopp (cval a)
  | Bin o a b =>
    match cval a, cval b with
    | Some x, Some y =>
      match o with
      | Plus => Some (x + y)%Q | Minus => Some (x - y)%Q | Mult => Some (x * y)%Q
      | Div => if Qeq_bool y 0 then None else Some (x / y)%Q
      | Pow => None
      end
    | _, _ => None
    end
  | _ => None
  end.

(* TBinaryOperation::analyse: a ** <constant integer in [-16,16]> becomes PowerFunction<N> (Number 1 for N = 0).
   Constant exponents that involve function calls are left as BinaryOperation<OpPower>: same value. *)
Definition mk (o : bop) (a b : expr) : expr :=
  match o with
  | Pow =>
    match cval b with
    | Some q =>
      let qr := Qred q in
      if Pos.eqb (Qden qr) 1 && Z.leb (-16) (Qnum qr) && Z.leb (Qnum qr) 16
      then (if Z.eqb (Qnum qr) 0 then one else PowN (Qnum qr) a)
      else Bin Pow a b
    | None => Bin Pow a b
    end
  | _ => Bin o a b
  end.

(* TGroup::reduce(op): [pre] = the elements before the cursor, reversed; None = the code throws.
   The branch "previous is an operator" is the one in which the pinned code builds a second owning shared_ptr
   (F3, double free); the model gives it the meaning that the tests of the code spell out: `a + - b` = a + (-b). *)
Fixpoint pass (op : bop) (pre : list item) (l : list item) : option (list item) :=
  match l with
  | [] => Some (rev pre)
  | IE e :: rest => pass op (IE e :: pre) rest
  | IOp o :: rest =>
    if negb (bop_eqb o op) then pass op (IOp o :: pre) rest else
    match pre with
    | [] =>
      (* group begins with the operator: only unary minus *)
      match op, rest with
      | Minus, IE e :: rest' => pass op [IE (Neg e)] rest'
      | _, _ => None
      end
    | IOp po :: _ =>
      match op, po, rest with
      | Minus, Plus, IE e :: rest' => pass op (IE (Neg e) :: pre) rest'
      | _, _, _ => None
      end
    | IE a :: pre' =>
      match rest with
      | [] => None
      | IE b :: rest' => pass op (IE (mk op a b) :: pre') rest'
      | IOp no :: rest2 =>
        match op, no, rest2 with
        | Minus, _, _ => None
        | _, Minus, IE b :: rest3 => pass op (IE (mk op a (Neg b)) :: pre') rest3
        | _, _, _ => None
        end
      end
    end
  end.

Definition obind {A B} (o : option A) (f : A -> option B) : option B :=
  match o with Some a => f a | None => None end.

(* TGroup::reduce() then TGroup::analyse() *)
Definition reduce (l : list item) : option expr :=
  obind (pass Pow [] l) (fun l1 =>
  obind (pass Div [] l1) (fun l2 =>
  obind (pass Mult [] l2) (fun l3 =>
  obind (pass Minus [] l3) (fun l4 =>
  obind (pass Plus [] l4) (fun l5 =>
  match l5 with [IE e] => Some e | _ => None end))))).

(* ---- treatGroup / treatGroup2 / treatLogicalExpression, by recursion on fuel ---- *)
Section Pipeline.
Variable v : variant.
Let aw := v_depth_stop v.

Fixpoint tgroup (n : nat) (l : list tok) (s : stop) {struct n} : option (expr * list tok) :=
  match n with O => None | S n' =>
  match l with
  | [] => None
  | t :: _ =>
    if is_stop s t then None else
    match search aw isQ s l 0 0 with
    | None => None
    | Some None => tgroup2 n' l s []
    | Some (Some k) =>
      if Nat.eqb k 0 then None else
      let cnd := firstn k l in
      let after := skipn (S k) l in
      match after with [] => None | _ =>
      match search aw isQ s after 0 0 with
      | Some None =>
        match search aw isColon s after 0 0 with
        | Some (Some j) =>
          if Nat.eqb j 0 then None else
          let mid := firstn j after in
          let rest := skipn (S j) after in
          match rest with [] => None | _ =>
          match tlogical n' cnd, tgroup n' mid SNone with
          | Some c, Some (a, _) =>
            match tgroup n' rest s with
            | Some (b, rem) => Some (Cond c a b, rem)
            | None => None
            end
          | _, _ => None
          end end
        | _ => None
        end
      | _ => None
      end end
    end
  end end
with tgroup2 (n : nat) (l : list tok) (s : stop) (acc : list item) {struct n} : option (expr * list tok) :=
  match n with O => None | S n' =>
  let finish := match reduce (rev acc) with Some e => Some (e, l) | None => None end in
  match l with
  | [] => match s with SNone => finish | _ => None end
  | t :: r =>
    if is_stop s t then finish else
    match t with
    | KNum q => tgroup2 n' r s (IE (Num q) :: acc)
    | KVar i => match r with KL :: _ => None | _ => tgroup2 n' r s (IE (Var i) :: acc) end
    | KOp o => tgroup2 n' r s (IOp o :: acc)
    | KL =>
      match tgroup n' r SR with
      | Some (e, KR :: r') => tgroup2 n' r' s (IE e :: acc)
      | _ => None
      end
    | KFun f =>
      match r with
      | KL :: r1 => match tgroup n' r1 SR with
                    | Some (e, KR :: r') => tgroup2 n' r' s (IE (Fun f e) :: acc)
                    | _ => None end
      | _ => None
      end
    | KUFun f =>
      match r with
      | KL :: r1 => match tgroup n' r1 SR with
                    | Some (e, KR :: r') => tgroup2 n' r' s (IE (UFun f e) :: acc)
                    | _ => None end
      | _ => None
      end
    | KBFun f =>
      match r with
      | KL :: r1 =>
        match tgroup n' r1 SComma with
        | Some (a, KComma :: r2) =>
          match tgroup n' r2 SR with
          | Some (b, KR :: r3) => tgroup2 n' r3 s (IE (BFun f a b) :: acc)
          | _ => None
          end
        | _ => None
        end
      | _ => None
      end
    | _ => None
    end
  end end
with tlogical (n : nat) (l : list tok) {struct n} : option lexpr :=
  match n with O => None | S n' =>
  match l with
  | [] => None
  | t0 :: r0 =>
    match search aw isAnd SNone l 0 0, search aw isOr SNone l 0 0 with
    | Some pa, Some po =>
      (* pinned: split at the first && if there is one, else at the first ||; fix_logical_or_priority.diff: at the
         first || if there is one, else at the first && *)
      let first := fun (a b : option nat) => match a with Some k => Some k | None => b end in
      let is_and := if v_or_first v then (match po with Some _ => false | None => true end)
                    else (match pa with Some _ => true | None => false end) in
      match (if v_or_first v then first po pa else first pa po) with
      | Some k =>
        if Nat.eqb k 0 then None else
        match skipn (S k) l with
        | [] => None
        | ro =>
          match tlogical n' (firstn k l), tlogical n' ro with
          | Some a, Some b => Some (if is_and then LAnd a b else LOr a b)
          | _, _ => None
          end
        end
      | None =>
        (* treatLogicalExpression2: the unique comparison operator at depth 0 *)
        let comparison := fun _ : unit =>
          match search_cmp l 0 0 None with
          | Some (Some (k, c)) =>
            if Nat.eqb k 0 then None else
            match skipn (S k) l with
            | [] => None
            | ro =>
              match tgroup n' (firstn k l) SNone, tgroup n' ro SNone with
              | Some (a, _), Some (b, _) => Some (LCmp c a b)
              | _, _ => None
              end
            end
          | _ => None
          end in
        match t0 with
        | KL =>
          if v_lpar_match v then
            (* the parenthesis is stripped only when ITS closing parenthesis is the last token; otherwise it begins
               the left-hand side of a comparison: (x+1)*2>3 *)
            match close_pos l 0 0 with
            | None => None
            | Some k => if Nat.eqb (S k) (length l) then tlogical n' (firstn (k - 1) r0) else comparison tt
            end
          else
          (* pinned: the opening parenthesis is stripped together with the LAST token, which must be ')' *)
          match rev r0 with
          | KR :: mid_rev => tlogical n' (rev mid_rev)
          | _ => None
          end
        | KNot => option_map LNot (tlogical n' r0)
        | _ => comparison tt
        end
      end
    | _, _ => None
    end
  end end.

(* Evaluator::analyse: treatGroup(tokens, "") ; reduce ; analyse *)
Definition parse_gen (l : list tok) : option expr :=
  match tgroup (3 * length l + 8) l SNone with
  | Some (e, _) => Some e
  | None => None
  end.
End Pipeline.

(* the pipeline of the pinned tree *)
Definition parse := parse_gen pinned.

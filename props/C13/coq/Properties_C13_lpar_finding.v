(* C13 -- selected when the tree rejects '(x+1)*2>3 ? 1 : 0' (finding): a well-formed formula, which the repaired
   pipeline parses to the intended tree, is rejected by the pinned treatment of a leading '(' in a condition *)
From Coq Require Import ZArith QArith List Bool Arith.
From C13 Require Import C14Model C13Model C13Proofs.
Import ListNotations.

Theorem C13_condition_beginning_with_parenthesis_refuted : exists l e, parse_gen repaired l = Some e /\
  forall v, v_lpar_match v = false -> parse_gen v l = None.
Proof. exact lpar_refuted. Qed.
Print Assumptions C13_condition_beginning_with_parenthesis_refuted.

(* C13 -- selected when the tree reads a || b && c as (a || b) && c (finding): at x = 4, y = z = 0 the formula
   x>3 || y>2 && z>5 ? 1 : 0 is 0 for the pinned treatment, 1 with the C reading *)
From Coq Require Import ZArith QArith List Bool Arith.
From C13 Require Import C14Model C13Model C13Proofs.
Import ListNotations.

Theorem C13_or_binds_looser_than_and_refuted : exists l e, parse_gen repaired l = Some e /\ eval Zops env_or e = 1%Z /\
  forall v, v_or_first v = false -> exists e', parse_gen v l = Some e' /\ eval Zops env_or e' = 0%Z.
Proof. exact or_refuted. Qed.
Print Assumptions C13_or_binds_looser_than_and_refuted.

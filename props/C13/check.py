"""C13 -- the expression evaluator implements the documented formula language.
Engine H: Gallina model of the token-level pipeline of tfel::math::Evaluator (coq/C13Model.v: search, treatGroup,
treatGroup2, treatLogicalExpression, TGroup::reduce passes, unary minus, function application, conditionals) producing
the expression trees of C14Model.v; lemmas on the reduction passes (coq/C13Proofs.v).  Tie to /repo: the evaluator
sources are compiled from the working tree; grammar-generated formulas (minimal parentheses, unary minus, functions,
conditionals), token-level mutations of them and raw character strings are given to the real code (forked children: a
crash is a violation) and to the extracted model: accept/reject must agree, values must agree, and on well-formed
formulas the value must be the mathematically intended one (independent evaluation of the generating tree)."""
import math, os
from vlib import guarded_main

MATH = ["ExternalFunctionExpr.cxx", "ExternalFunctionExpr2.cxx", "DifferentiatedFunctionExpr.cxx", "Expr.cxx",
        "BinaryFunction.cxx", "BinaryOperator.cxx", "LogicalExpr.cxx", "ConditionalExpr.cxx", "ExternalFunction.cxx",
        "ConstantExternalFunction.cxx", "EvaluatorBase.cxx", "EvaluatorTExpr.cxx", "EvaluatorFunction.cxx",
        "Evaluator.cxx", "Function.cxx", "PowerFunction.cxx", "Negation.cxx", "Number.cxx", "Variable.cxx"]
REPO_SOURCES = ["src/Math/" + f for f in MATH] + ["src/UnicodeSupport/UnicodeSupport.cxx",
                                                  "src/Exception/TFELException.cxx",
                                                  "src/Exception/ContractViolation.cxx"]
VARS = ["x", "y", "z"]
C14MODEL = os.path.join(os.path.dirname(os.path.dirname(os.path.abspath(__file__))), "C14", "coq", "C14Model.v")


def _gamma(x):
    return math.gamma(x)


FUN1 = {"exp": math.exp, "sin": math.sin, "cos": math.cos, "tan": math.tan, "sqrt": math.sqrt, "log": math.log,
        "ln": math.log, "log10": math.log10, "asin": math.asin, "acos": math.acos, "atan": math.atan, "sinh": math.sinh,
        "cosh": math.cosh, "tanh": math.tanh, "abs": abs, "exp2": lambda v: 2.0 ** v, "expm1": math.expm1,
        "cbrt": lambda v: math.copysign(abs(v) ** (1.0 / 3.0), v), "log2": math.log2, "log1p": math.log1p,
        "acosh": math.acosh, "asinh": math.asinh, "atanh": math.atanh, "erf": math.erf, "erfc": math.erfc,
        "tgamma": _gamma, "lgamma": math.lgamma, "H": lambda v: 0.0 if v < 0 else 1.0}
FUN2 = {"max": max, "min": min, "hypot": math.hypot, "atan2": math.atan2}
PREC = {"+": 1, "-": 1, "*": 2, "/": 2, "**": 4}
NUMS = [("2", 2.0), ("3", 3.0), ("0.5", 0.5), ("1.25", 1.25), ("1", 1.0), ("4", 4.0), ("1.5", 1.5), ("0.75", 0.75),
        ("1e-1", 0.1), ("2.5e1", 25.0), ("1E1", 10.0), ("3.", 3.0), ("10", 10.0), ("0.2", 0.2)]


# ------------------------------------------------------------------ intended semantics of a tree
def ev(e, env):
    k = e[0]
    if k == "num":
        return e[2]
    if k == "var":
        return env[e[1]]
    if k == "neg":
        return -ev(e[1], env)
    if k == "par":
        return ev(e[1], env)
    if k == "bin":
        a, b = ev(e[2], env), ev(e[3], env)
        o = e[1]
        if o == "+":
            return a + b
        if o == "-":
            return a - b
        if o == "*":
            return a * b
        if o == "/":
            return a / b
        r = a ** b
        if isinstance(r, complex):
            raise ValueError
        return r
    if k == "fun":
        return FUN1[e[1]](ev(e[2], env))
    if k == "bfun":
        return FUN2[e[1]](ev(e[2], env), ev(e[3], env))
    if k == "cond":
        return ev(e[2], env) if evl(e[1], env) else ev(e[3], env)
    raise ValueError(e)


def evl(c, env):
    k = c[0]
    if k == "cmp":
        a, b = ev(c[2], env), ev(c[3], env)
        return {"==": a == b, ">": a > b, ">=": a >= b, "<": a < b, "<=": a <= b}[c[1]]
    if k == "and":
        return evl(c[1], env) and evl(c[2], env)
    if k == "or":
        return evl(c[1], env) or evl(c[2], env)
    if k == "not":
        return not evl(c[1], env)
    if k == "lpar":
        return evl(c[1], env)
    raise ValueError(c)


# ------------------------------------------------------------------ printing with the minimal parentheses
def prec(e):
    if e[0] == "bin":
        return PREC[e[1]]
    if e[0] == "neg":
        return 3
    if e[0] == "cond":
        return 0
    return 9


def toks(e, minp=0, bare_neg=True):
    """tokens of e; parenthesised when its precedence is below minp; a unary minus is written bare only where the
    language allows it (start of a group, after * / **), in parentheses after + and -"""
    k = e[0]
    if k == "neg" and not bare_neg:
        return ["("] + toks(e, 0, True) + [")"]
    if prec(e) < minp:
        return ["("] + toks(e, 0, True) + [")"]
    if k == "num":
        return [e[1]]
    if k == "var":
        return [VARS[e[1]]]
    if k == "par":
        return ["("] + toks(e[1], 0, True) + [")"]
    if k == "neg":
        return ["-"] + toks(e[1], e[2] if len(e) > 2 else 3, False)
    if k == "bin":
        o = e[1]
        if o == "**":
            # both operands atomic or parenthesised (no reliance on the associativity of **); exponent may be -atom
            r = e[3]
            if r[0] == "neg":
                rt = ["-"] + toks(r[1], 5, False)
            else:
                rt = toks(r, 5, False)
            return toks(e[2], 5, False) + ["**"] + rt
        p = PREC[o]
        left = toks(e[2], p, bare_neg)
        r = e[3]
        if o in ("*", "/") and r[0] == "neg":
            # a * -b : the operand of the minus is taken up to the next * or / by the code
            right = ["-"] + toks(r[1], 3, False)
        else:
            right = toks(r, p + 1, False)
        return left + [o] + right
    if k == "fun":
        return [e[1], "("] + toks(e[2], 0, True) + [")"]
    if k == "bfun":
        return [e[1], "("] + toks(e[2], 0, True) + [","] + toks(e[3], 0, True) + [")"]
    if k == "cond":
        return ltoks(e[1]) + ["?"] + toks(e[2], 1, True) + [":"] + toks(e[3], 1, True)
    raise ValueError(e)


def ltoks(c):
    k = c[0]
    if k == "cmp":
        return toks(c[2], 1, True) + [c[1]] + toks(c[3], 1, True)
    if k == "and":
        return ltoks_p(c[1], "and") + ["&&"] + ltoks_p(c[2], "and")
    if k == "or":
        return ltoks_p(c[1], "or") + ["||"] + ltoks_p(c[2], "or")
    if k == "not":
        return ["!"] + ltoks_p(c[1], "not")
    if k == "lpar":
        return ["("] + ltoks(c[1]) + [")"]
    raise ValueError(c)


def ltoks_p(c, ctx):
    # standard C precedence ! > && > || : parentheses where needed
    if c[0] == "cmp" and ctx != "not":
        return ltoks(c)
    if c[0] == "and" and ctx == "or":
        return ltoks(c)
    if c[0] in ("not", "lpar"):
        return ltoks(c)
    return ["("] + ltoks(c) + [")"]


def join(tl, rng):
    """concatenate tokens; blanks at random; a blank is forced where two tokens would fuse (name/number adjacency)"""
    s = ""
    for t in tl:
        fuse = s and (((s[-1].isalnum() or s[-1] in "._") and (t[0].isalnum() or t[0] in "._")) or
                      (s[-1] == "*" and t[0] == "*") or (s[-1] in "<>=!" and t[0] == "=") or
                      (s[-1] == "&" and t[0] == "&") or (s[-1] == "|" and t[0] == "|"))
        if s and (rng.random() < 0.2 or fuse):
            s += " "
        s += t
    return s


class Gen:
    def __init__(self, rng):
        self.r = rng

    def leaf(self):
        if self.r.random() < 0.55:
            return ("var", self.r.choice([0, 0, 1, 2]))
        t, v = self.r.choice(NUMS)
        return ("num", t, v)

    def expr(self, d):
        r = self.r
        if d <= 0 or r.random() < 0.15:
            return self.leaf()
        k = r.random()
        if k < 0.62:
            o = r.choice(["+", "-", "*", "/", "+", "-", "*", "/", "**"])
            a = self.expr(d - 1)
            b = self.expr(d - 1)
            if o == "**":
                b = r.choice([("num", "2", 2.0), ("num", "3", 3.0), ("num", "0.5", 0.5), ("neg", ("num", "2", 2.0)),
                              ("neg", ("num", "1", 1.0)), ("num", "1.5", 1.5), b])
            return ("bin", o, a, b)
        if k < 0.74:
            return ("neg", self.expr(d - 1))
        if k < 0.80:
            return ("par", self.expr(d - 1))
        if k < 0.96:
            return ("fun", r.choice([f for f in FUN1 if f not in ("tgamma", "lgamma")]), self.expr(d - 1))
        return ("bfun", r.choice(list(FUN2)), self.expr(d - 1), self.expr(d - 1))

    def cmp(self, d):
        a = self.expr(d)
        while toks(a, 1, True)[0] == "(":   # see unit cases: a condition that begins with '(' is a separate finding
            a = self.expr(max(0, d - 1))
        return ("cmp", self.r.choice(["==", ">", ">=", "<", "<="]), a, self.expr(d))

    def lexpr(self, d):
        r = self.r
        k = r.random()
        if k < 0.6:
            return self.cmp(d)
        if k < 0.75:
            return ("and", self.cmp(d), self.cmp(d))
        if k < 0.9:
            return ("or", self.cmp(d), self.cmp(d))
        if k < 0.95:
            return ("not", self.cmp(d))
        return ("not", ("lpar", ("and", self.cmp(d), self.cmp(d))))

    def root(self, d):
        if self.r.random() < 0.15:
            return ("cond", self.lexpr(max(1, d - 2)), self.expr(d - 1), self.expr(d - 1))
        return self.expr(d)

    def point(self):
        r = self.r
        return tuple(round(r.uniform(0.3, 2.5) if r.random() < 0.8 else r.uniform(-1.5, -0.2), 3) for _ in VARS)


UNIT_WELLFORMED = [
    # (formula text as a user writes it, intended value as python lambda of x,y,z)
    ("1+2*3", lambda x, y, z: 7.0), ("2*3+1", lambda x, y, z: 7.0), ("2-3-4", lambda x, y, z: -5.0),
    ("2/4/2", lambda x, y, z: 0.25), ("2/4*2", lambda x, y, z: 1.0), ("2*4/2", lambda x, y, z: 4.0),
    ("2-3+4", lambda x, y, z: 3.0), ("2+3-4", lambda x, y, z: 1.0), ("-2**2", lambda x, y, z: -4.0),
    ("2**-1", lambda x, y, z: 0.5), ("2*-3", lambda x, y, z: -6.0), ("6/-3", lambda x, y, z: -2.0),
    ("-x-y", lambda x, y, z: -x - y), ("-x+y", lambda x, y, z: -x + y), ("-x*y", lambda x, y, z: -x * y),
    ("x*-y**2", lambda x, y, z: -x * y * y), ("x-y*z**2/3+1", lambda x, y, z: x - y * z * z / 3 + 1),
    ("(x+y)*(x-y)", lambda x, y, z: (x + y) * (x - y)), ("2*(x+(y-z)*2)", lambda x, y, z: 2 * (x + (y - z) * 2)),
    ("sin(x)**2+cos(x)**2", lambda x, y, z: 1.0), ("max(x,y)-min(x,y)", lambda x, y, z: abs(x - y)),
    ("x>y ? x : y", lambda x, y, z: max(x, y)), ("x>1 && y>1 ? 1 : 0", lambda x, y, z: 1.0 if (x > 1 and y > 1) else 0.0),
    ("x>1 || y>1 ? 1 : 0", lambda x, y, z: 1.0 if (x > 1 or y > 1) else 0.0),
    ("!x>1 ? 1 : 0", lambda x, y, z: 0.0 if x > 1 else 1.0),
    ("1.5e1+2.E0+1e+1", lambda x, y, z: 27.0), ("ln(x)-log(x)", lambda x, y, z: 0.0),
    ("Cste::R-Cste::R+Cste::kb/Cste::kb", lambda x, y, z: 1.0), ("tgamma(4)+lgamma(1)", lambda x, y, z: 6.0),
    ("power<3>(x)", lambda x, y, z: x ** 3),
    ("1+-2", lambda x, y, z: -1.0), ("x+-y", lambda x, y, z: x - y), ("x*y+-z", lambda x, y, z: x * y - z),
    ("(x+1)*2>3 ? 1 : 0", lambda x, y, z: 1.0 if (x + 1) * 2 > 3 else 0.0),
    ("(x)>1 ? 1 : 0", lambda x, y, z: 1.0 if x > 1 else 0.0),
    ("2*(sin(x)>0 ? 1 : 2)", lambda x, y, z: 2.0 if math.sin(x) > 0 else 4.0),
    ("x>3 || y>2 && z>5 ? 1 : 0", lambda x, y, z: 1.0 if (x > 3 or (y > 2 and z > 5)) else 0.0),
    ("x>3 && y>2 || z<5 ? 1 : 0", lambda x, y, z: 1.0 if ((x > 3 and y > 2) or z < 5) else 0.0),
]
# formulas whose meaning is a convention: compared with the model only, convention recorded in the evidence
UNIT_ASIS = ["2**3**2", "x**y**z", "2**-3**2", "-2**-2"]
UNIT_MALFORMED = ["", "+", "x+", "*x", "x**", "(x", "x)", "()", "x y", "2 3", "x--y", "x-+y", "x*+y", "x**+y", "x*/y",
                  "sin", "sin x", "sin()", "max(x)", "max(x,y,z)", "foo(x)", "w", "x ? 1", "x>1 ? 1", "x>1 ? : 2",
                  "? 1 : 2", "x>1>2 ? 1 : 2", "1 : 2", "x>1 ? y>1 ? 1 : 2 : 3", "x=1", "x&y", "x|y", "x&&y ? 1 : 2",
                  "-", "--x", "x+*y", ",", "x,y", "2x", "x(2)", "1e", "1.2.3", "x>1 ? 1 : 2 : 3", "(x>1) ? 1", "!"]


def fnum(s):
    try:
        return float(s)
    except ValueError:
        return float("nan")


def main(c):
    exe = c.cxx("driver", ["driver.cxx"], REPO_SOURCES)
    c.log("driver built")
    ml = c.ocaml_extract("c13", [C14MODEL, "C13Model.v"],
                         "From C13 Require Import C14Model C13Model.\nRequire Import ExtrOcamlBasic.\n"
                         'Extraction "c13_model.ml" eval evall parse reduce.\n', "drv.ml")
    c.log("model extracted")
    rng = c.rng
    g = Gen(rng)
    cases = []   # dict(id, kind, text, tokens|None, point, intended|None)
    pts0 = [(2.0, 3.0, 0.5), (0.75, 1.25, 6.0), (4.0, 0.5, 0.25)]

    def add(kind, text, tokens, p, intended=None, mode="V"):
        cases.append({"id": len(cases), "kind": kind, "text": text, "tokens": tokens, "p": p, "intended": intended, "mode": mode})

    for (f, fn) in UNIT_WELLFORMED:
        for p in pts0:
            add("unit", f, None, p, fn(*p))
    for f in UNIT_ASIS:
        add("asis", f, None, pts0[0])
    for f in UNIT_MALFORMED:
        add("malformed-unit", f, None, pts0[0])
    nform = c.pick(1500, 15000)
    for k in range(nform):
        d = rng.choice([1, 2, 3, 3, 4, 4, 5]) if c.quick() else rng.choice([2, 3, 4, 5, 6, 7, 8])
        e = g.root(d)
        tl = toks(e, 0, True)
        text = join(tl, rng)
        for _ in range(2):
            p = g.point()
            try:
                v = ev(e, p)
                if isinstance(v, complex) or not math.isfinite(v):
                    v = None
            except (ValueError, ZeroDivisionError, OverflowError):
                v = None
            add("gen", text, tl, p, v, "C" if k % 5 == 0 else "V")
        # token-level mutations of a well-formed formula: both sides must agree on reject/accept
        if k % 2 == 0 and len(tl) > 1:
            m = list(tl)
            op = rng.random()
            i = rng.randrange(len(m))
            pool = ["+", "-", "*", "/", "**", "(", ")", ",", "?", ":", ">", "<", "==", "&&", "||", "!", "x", "2", "sin", "max"]
            if op < 0.4:
                del m[i]
            elif op < 0.8:
                m.insert(i, rng.choice(pool))
            else:
                j = rng.randrange(len(m))
                m[i], m[j] = m[j], m[i]
            add("mutated", join(m, rng), m, g.point())
    # raw character strings: the lexer and everything behind it must not crash
    alphabet = "xyz0123456789.+-*/()?:<>=!&|, eE"
    for k in range(c.pick(600, 6000)):
        n = rng.randrange(1, 14)
        add("garbage", "".join(rng.choice(alphabet) for _ in range(n)), None, pts0[0])

    cin = "".join("%d\t%s\t%s\t%s\n" % (cs["id"], cs["text"], cs["mode"], ",".join(repr(v) for v in cs["p"])) for cs in cases)
    rc, out, err = c.run([exe], input=cin, timeout=1200)
    if rc != 0:
        c.report("driver", "the driver of the real evaluator failed (rc=%d): %s" % (rc, err[-400:]), {"stderr": err[-3000:]}, False)
        return
    R = {}
    for l in out.splitlines():
        t = l.split(None, 3)
        if len(t) >= 3 and t[0] == "R":
            R[int(t[1])] = t[2:]
    # the model receives token lists: those of the generator, or (unit formulas) a plain split of the text
    def split_tokens(s):
        import re
        return re.findall(r"\d+\.?\d*(?:[eE][+-]?\d+)?|\*\*|==|>=|<=|&&|\|\||[A-Za-z_][A-Za-z_0-9]*|\S", s)
    mcases = [cs for cs in cases if cs["kind"] != "garbage" and ":" + ":" not in cs["text"] and "power<" not in cs["text"]]
    min_ = "".join("%d\t%s\t%s\n" % (cs["id"], " ".join(cs["tokens"] if cs["tokens"] is not None else split_tokens(cs["text"])),
                                     ",".join(repr(v) for v in cs["p"])) for cs in mcases)
    rc, mout, merr = c.run([ml], input=min_, timeout=1200)
    if rc != 0:
        c.report("model-driver", "the model driver failed: " + merr[-400:], {"stderr": merr[-3000:]}, False)
        return
    M = {}
    for l in mout.splitlines():
        t = l.split()
        if len(t) >= 3 and t[0] == "M":
            M[int(t[1])] = t[2:]
    c.log("real code and model executed on %d cases" % len(cases))

    stats = {"wellformed_value_vs_intended": 0, "value_vs_model": 0, "rejected_both": 0, "accepted_both_mutated": 0,
             "garbage_no_crash": 0, "skipped_domain": 0, "copy_resolve_checked": 0}
    plusminus_crash = False
    nrep = [0]
    for cs in cases:
        cid, kind, f, p = cs["id"], cs["kind"], cs["text"], cs["p"]
        r, m = R.get(cid), M.get(cid)
        pt = dict(zip(VARS, p))
        rep = {"formula": f, "kind": kind, "point": pt, "cxx": r, "model": m, "tokens": cs["tokens"],
               "how": "props/C13/driver.cxx: tfel::math::Evaluator ev({x,y,z}, formula); ev.getValue()"}
        if r is None:
            c.report("lost:" + f, "no result for formula '%s'" % f, rep, False)
            continue
        c.count(1, (kind, f), kind != "garbage")
        if cid % 397 == 3:
            c.sample({"formula": f, "kind": kind, "point": pt, "cxx": r[:2], "model": m})
        st = r[0]
        if st == "CRASH":
            tl = cs["tokens"] if cs["tokens"] is not None else split_tokens(f)
            pm = any(tl[i] == "+" and tl[i + 1] == "-" for i in range(len(tl) - 1))
            if kind == "unit" or not (pm and plusminus_crash):
                if pm and kind == "unit":
                    plusminus_crash = True
                c.report("crash:" + f, "the real evaluator crashed (%s) while analysing/evaluating the formula '%s'" % (" ".join(r[1:]), f), rep, True)
            continue
        if st == "COPYDIFF":
            c.report("copy:" + f, "copy / resolveDependencies of the evaluator of '%s' changes its value: %s" % (f, r[1:]), rep, True)
            continue
        if kind == "garbage":
            stats["garbage_no_crash"] += 1
            continue
        cv = fnum(r[1]) if st == "OK" else float("nan")
        if cs["mode"] == "C" and st == "OK":
            stats["copy_resolve_checked"] += 1
        # (1) the property itself on well-formed formulas: accepted, and the value is the intended one
        if kind in ("unit", "gen"):
            if st == "REJECT":
                c.report("rejected:" + f, "well-formed formula '%s' is rejected: %s" % (f, " ".join(r[1:])[:300]), rep, True)
                continue
            if st == "OK" and cs["intended"] is not None and math.isfinite(cv):
                iv = cs["intended"]
                sens = 0.0
                if m and m[0] == "OK":
                    sens = abs(fnum(m[2]) - fnum(m[1]))
                tol = 1e-9 * max(1.0, abs(iv)) + 1e4 * sens
                if tol <= 1e-4 * max(1.0, abs(iv)) or kind == "unit":
                    stats["wellformed_value_vs_intended"] += 1
                    if abs(cv - iv) > tol:
                        nrep[0] += 1
                        if nrep[0] <= 12 or kind == "unit":
                            c.report("value:%s:%s" % (f, ",".join("%g" % v for v in p)) if kind != "unit" else "value:" + f,
                                     "formula '%s' at %s evaluates to %.15g, the intended value is %.15g" % (f, pt, cv, iv), rep, True)
                        continue
            elif st != "OK":
                stats["skipped_domain"] += 1
        # (2) the tie: model and code agree on accept/reject and on the value
        if m is None:
            continue
        if (st == "REJECT") != (m[0] == "NONE"):
            nrep[0] += 1
            if nrep[0] <= 12 or kind.endswith("unit"):
                c.report("accept:" + f, "formula '%s': the code %s, the model of the pipeline %s" % (
                    f, "rejects it (%s)" % " ".join(r[1:])[:200] if st == "REJECT" else "accepts it (%s)" % st,
                    "rejects it" if m[0] == "NONE" else "accepts it"), rep, True)
            continue
        if st == "REJECT":
            stats["rejected_both"] += 1
            continue
        if kind == "mutated":
            stats["accepted_both_mutated"] += 1
        if st == "OK" and math.isfinite(cv):
            mv, mv2 = fnum(m[1]), fnum(m[2])
            if math.isfinite(mv) and math.isfinite(mv2):
                tol = 1e-9 * max(1.0, abs(mv)) + 1e4 * abs(mv2 - mv)
                if tol <= 1e-4 * max(1.0, abs(mv)):
                    stats["value_vs_model"] += 1
                    if abs(cv - mv) > tol:
                        nrep[0] += 1
                        if nrep[0] <= 12:
                            c.report("model:%s:%s" % (f, ",".join("%g" % v for v in p)),
                                     "formula '%s' at %s: the code evaluates %.15g, the model of its pipeline %.15g" % (f, pt, cv, mv), rep, True)
    c.log("comparison done: %s" % stats)
    c.coverage.update({"comparisons": stats, "generated_formulas": nform})
    c.notes.append("conventions of the code kept as they are (compared with the model only): ** associates to the left (2**3**2 = 64)")
    c.coverage["rule"] = ("unit formulas (operator precedence pairs, unary minus placements, functions, conditionals, logical operators, number "
                          "spellings, constants, power<N>), grammar-generated trees printed with the minimal parentheses of the standard "
                          "precedence at 2 points each (depth <= %d), one token-level mutation (delete/insert/swap) for every second formula, "
                          "hand-written malformed formulas, random character strings (crash detection only); a value comparison counts when "
                          "both sides are finite and well conditioned" % c.pick(5, 8))
    c.trusted("props/C13/driver.cxx (Evaluator, getValue, copy constructor, resolveDependencies of the sources compiled from the working tree)",
              "props/C13/drv.ml: classification of token texts into the model's tokens (numbers to exact rationals), OCaml float operations record",
              "check.py: printer of a tree with minimal parentheses and its independent evaluation (intended value)",
              "the lexer EvaluatorBase::splitAtTokenSeperator is not modelled: it is exercised through the formula text (random blanks, number "
              "spellings) and by random character strings")
    res = c.coq([C14MODEL, "C13Model.v", "C13Proofs.v", "Properties_C13.v"], timeout=900)
    if not res.ok:
        c.coq_failures(res)


guarded_main("C13", main)

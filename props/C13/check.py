"""C13 -- the expression evaluator implements the documented formula language.
Engine H: Gallina model of the token-level pipeline of tfel::math::Evaluator (coq/C13Model.v: search, treatGroup,
treatGroup2, treatLogicalExpression, TGroup::reduce passes, unary minus, function application, conditionals) producing
the expression trees of C14Model.v; lemmas on the reduction passes (coq/C13Proofs.v).  Tie to /repo: the evaluator
sources are compiled from the working tree; grammar-generated formulas (minimal parentheses, unary minus, functions,
conditionals), token-level mutations of them and raw character strings are given to the real code (forked children: a
crash is a violation) and to the extracted model: accept/reject must agree, values must agree, and on well-formed
formulas the value must be the mathematically intended one (independent evaluation of the generating tree).
getCxxFormula: the C++ text emitted for every third generated formula (variables declared in a non-alphabetical order or
registered while reading, with and without substitutions) is compiled (batched translation units) and must evaluate to
getValue.  Three limitations of the pinned parser are findings with a patch each; the check probes the real code and
runs the model variant (flags of C13Model.variant) and the theorem files that match what it observes."""
import math, os, random, re
from vlib import guarded_main

MATH = ["ExternalFunctionExpr.cxx", "ExternalFunctionExpr2.cxx", "DifferentiatedFunctionExpr.cxx", "Expr.cxx",
        "BinaryFunction.cxx", "BinaryOperator.cxx", "LogicalExpr.cxx", "ConditionalExpr.cxx", "ExternalFunction.cxx",
        "ConstantExternalFunction.cxx", "EvaluatorBase.cxx", "EvaluatorTExpr.cxx", "EvaluatorFunction.cxx",
        "Evaluator.cxx", "Function.cxx", "PowerFunction.cxx", "Negation.cxx", "Number.cxx", "Variable.cxx"]
REPO_SOURCES = ["src/Math/" + f for f in MATH] + ["src/UnicodeSupport/UnicodeSupport.cxx",
                                                  "src/Exception/TFELException.cxx",
                                                  "src/Exception/ContractViolation.cxx"]
VARS = ["x", "y", "z"]
C14MODEL = os.path.join(os.path.dirname(os.path.dirname(os.path.abspath(__file__))), "C14", "coq", "C14Model.v")


def _gamma(x):
    return math.gamma(x)


FUN1 = {"exp": math.exp, "sin": math.sin, "cos": math.cos, "tan": math.tan, "sqrt": math.sqrt, "log": math.log,
        "ln": math.log, "log10": math.log10, "asin": math.asin, "acos": math.acos, "atan": math.atan, "sinh": math.sinh,
        "cosh": math.cosh, "tanh": math.tanh, "abs": abs, "exp2": lambda v: 2.0 ** v, "expm1": math.expm1,
        "cbrt": lambda v: math.copysign(abs(v) ** (1.0 / 3.0), v), "log2": math.log2, "log1p": math.log1p,
        "acosh": math.acosh, "asinh": math.asinh, "atanh": math.atanh, "erf": math.erf, "erfc": math.erfc,
        "tgamma": _gamma, "lgamma": math.lgamma, "H": lambda v: 0.0 if v < 0 else 1.0}
FUN2 = {"max": max, "min": min, "hypot": math.hypot, "atan2": math.atan2}
PREC = {"+": 1, "-": 1, "*": 2, "/": 2, "**": 4}
NUMS = [("2", 2.0), ("3", 3.0), ("0.5", 0.5), ("1.25", 1.25), ("1", 1.0), ("4", 4.0), ("1.5", 1.5), ("0.75", 0.75),
        ("1e-1", 0.1), ("2.5e1", 25.0), ("1E1", 10.0), ("3.", 3.0), ("10", 10.0), ("0.2", 0.2)]


# ------------------------------------------------------------------ intended semantics of a tree
# smallest relative distance |a-b| met in a comparison (or |v| for H(v)) during the last evaluation: below 1e-9 the value of
# the formula sits on a discontinuity and rounding decides (x*y/(y*x) == 1 ...): no intended floating-point value
MARGIN = [float("inf")]


def ev(e, env):
    k = e[0]
    if k == "num":
        return e[2]
    if k == "var":
        return env[e[1]]
    if k == "neg":
        return -ev(e[1], env)
    if k == "par":
        return ev(e[1], env)
    if k == "bin":
        a, b = ev(e[2], env), ev(e[3], env)
        o = e[1]
        if o == "+":
            return a + b
        if o == "-":
            return a - b
        if o == "*":
            return a * b
        if o == "/":
            return a / b
        r = a ** b
        if isinstance(r, complex):
            raise ValueError
        return r
    if k == "fun":
        if e[1] == "H":
            v = ev(e[2], env)
            MARGIN[0] = min(MARGIN[0], abs(v))
            return FUN1["H"](v)
        return FUN1[e[1]](ev(e[2], env))
    if k == "bfun":
        return FUN2[e[1]](ev(e[2], env), ev(e[3], env))
    if k == "cond":
        return ev(e[2], env) if evl(e[1], env) else ev(e[3], env)
    raise ValueError(e)


def evl(c, env):
    k = c[0]
    if k == "cmp":
        a, b = ev(c[2], env), ev(c[3], env)
        MARGIN[0] = min(MARGIN[0], abs(a - b) / max(1.0, abs(a), abs(b)))
        return {"==": a == b, ">": a > b, ">=": a >= b, "<": a < b, "<=": a <= b}[c[1]]
    if k == "and":
        return evl(c[1], env) and evl(c[2], env)
    if k == "or":
        return evl(c[1], env) or evl(c[2], env)
    if k == "not":
        return not evl(c[1], env)
    if k == "lpar":
        return evl(c[1], env)
    raise ValueError(c)


# ------------------------------------------------------------------ printing with the minimal parentheses
def prec(e):
    if e[0] == "bin":
        return PREC[e[1]]
    if e[0] == "neg":
        return 3
    if e[0] == "cond":
        return 0
    return 9


def toks(e, minp=0, bare_neg=True):
    """tokens of e; parenthesised when its precedence is below minp; a unary minus is written bare only where the
    language allows it (start of a group, after * / **), in parentheses after + and -"""
    k = e[0]
    if k == "neg" and not bare_neg:
        return ["("] + toks(e, 0, True) + [")"]
    if prec(e) < minp:
        return ["("] + toks(e, 0, True) + [")"]
    if k == "num":
        return [e[1]]
    if k == "var":
        return [VARS[e[1]]]
    if k == "par":
        return ["("] + toks(e[1], 0, True) + [")"]
    if k == "neg":
        return ["-"] + toks(e[1], e[2] if len(e) > 2 else 3, False)
    if k == "bin":
        o = e[1]
        if o == "**":
            # both operands atomic or parenthesised (no reliance on the associativity of **); exponent may be -atom
            r = e[3]
            if r[0] == "neg":
                rt = ["-"] + toks(r[1], 5, False)
            else:
                rt = toks(r, 5, False)
            return toks(e[2], 5, False) + ["**"] + rt
        p = PREC[o]
        left = toks(e[2], p, bare_neg)
        r = e[3]
        if o in ("*", "/") and r[0] == "neg":
            # a * -b : the operand of the minus is taken up to the next * or / by the code
            right = ["-"] + toks(r[1], 3, False)
        else:
            right = toks(r, p + 1, False)
        return left + [o] + right
    if k == "fun":
        return [e[1], "("] + toks(e[2], 0, True) + [")"]
    if k == "bfun":
        return [e[1], "("] + toks(e[2], 0, True) + [","] + toks(e[3], 0, True) + [")"]
    if k == "cond":
        return ltoks(e[1]) + ["?"] + toks(e[2], 1, True) + [":"] + toks(e[3], 1, True)
    raise ValueError(e)


def ltoks(c):
    k = c[0]
    if k == "cmp":
        return toks(c[2], 1, True) + [c[1]] + toks(c[3], 1, True)
    if k == "and":
        return ltoks_p(c[1], "and") + ["&&"] + ltoks_p(c[2], "and")
    if k == "or":
        return ltoks_p(c[1], "or") + ["||"] + ltoks_p(c[2], "or")
    if k == "not":
        return ["!"] + ltoks_p(c[1], "not")
    if k == "lpar":
        return ["("] + ltoks(c[1]) + [")"]
    raise ValueError(c)


def ltoks_p(c, ctx):
    # standard C precedence ! > && > || : parentheses where needed
    if c[0] == "cmp" and ctx != "not":
        return ltoks(c)
    if c[0] == "and" and ctx == "or":
        return ltoks(c)
    if c[0] in ("not", "lpar"):
        return ltoks(c)
    return ["("] + ltoks(c) + [")"]


def join(tl, rng):
    """concatenate tokens; blanks at random; a blank is forced where two tokens would fuse (name/number adjacency)"""
    s = ""
    for t in tl:
        fuse = s and (((s[-1].isalnum() or s[-1] in "._") and (t[0].isalnum() or t[0] in "._")) or
                      (s[-1] == "*" and t[0] == "*") or (s[-1] in "<>=!" and t[0] == "=") or
                      (s[-1] == "&" and t[0] == "&") or (s[-1] == "|" and t[0] == "|"))
        if s and (rng.random() < 0.2 or fuse):
            s += " "
        s += t
    return s


class Gen:
    def __init__(self, rng, fx=None):
        self.r = rng
        # which of the three parser limitations are repaired in the tree under test (probed by main): the generator
        # only produces the corresponding forms when they are supported; with all flags off the corpus is the one of
        # the pinned tree (no extra random draw)
        self.fx = fx or {"lpar": False, "nested": False, "orp": False}

    def leaf(self):
        if self.r.random() < 0.55:
            return ("var", self.r.choice([0, 0, 1, 2]))
        t, v = self.r.choice(NUMS)
        return ("num", t, v)

    def expr(self, d):
        r = self.r
        if d <= 0 or r.random() < 0.15:
            return self.leaf()
        if self.fx["nested"] and d >= 2 and r.random() < 0.07:
            # a conditional as a sub-expression (printed in parentheses, or bare as a function argument)
            return ("cond", self.lexpr(max(1, d - 2)), self.expr(d - 2), self.expr(d - 2))
        k = r.random()
        if k < 0.62:
            o = r.choice(["+", "-", "*", "/", "+", "-", "*", "/", "**"])
            a = self.expr(d - 1)
            b = self.expr(d - 1)
            if o == "**":
                b = r.choice([("num", "2", 2.0), ("num", "3", 3.0), ("num", "0.5", 0.5), ("neg", ("num", "2", 2.0)),
                              ("neg", ("num", "1", 1.0)), ("num", "1.5", 1.5), b])
                if not (b[0] == "num" or (b[0] == "neg" and b[1][0] == "num")):
                    # a computed exponent may be integral or not depending on one rounding (0.1**-2 is 99.99999999999999 or 100):
                    # with a negative base the result is then a number or NaN; keep the base non-negative in that case
                    a = ("fun", "abs", a)
            return ("bin", o, a, b)
        if k < 0.74:
            return ("neg", self.expr(d - 1))
        if k < 0.80:
            return ("par", self.expr(d - 1))
        if k < 0.96:
            return ("fun", r.choice([f for f in FUN1 if f not in ("tgamma", "lgamma")]), self.expr(d - 1))
        return ("bfun", r.choice(list(FUN2)), self.expr(d - 1), self.expr(d - 1))

    def cmp(self, d):
        a = self.expr(d)
        while not self.fx["lpar"] and toks(a, 1, True)[0] == "(":   # a condition that begins with '(' is a finding of the pinned tree
            a = self.expr(max(0, d - 1))
        return ("cmp", self.r.choice(["==", ">", ">=", "<", "<="]), a, self.expr(d))

    def lexpr(self, d):
        r = self.r
        if self.fx["orp"] and r.random() < 0.25:
            # && and || mixed (C precedence, printed with the minimal parentheses)
            a, b, c_ = self.cmp(d), self.cmp(d), self.cmp(d)
            return r.choice([("or", a, ("and", b, c_)), ("or", ("and", a, b), c_), ("and", ("or", a, b), c_),
                             ("and", a, ("or", b, c_)), ("or", ("and", a, b), ("and", c_, self.cmp(d)))])
        k = r.random()
        if k < 0.6:
            return self.cmp(d)
        if k < 0.75:
            return ("and", self.cmp(d), self.cmp(d))
        if k < 0.9:
            return ("or", self.cmp(d), self.cmp(d))
        if k < 0.95:
            return ("not", self.cmp(d))
        return ("not", ("lpar", ("and", self.cmp(d), self.cmp(d))))

    def root(self, d):
        if self.r.random() < 0.15:
            return ("cond", self.lexpr(max(1, d - 2)), self.expr(d - 1), self.expr(d - 1))
        return self.expr(d)

    def point(self):
        r = self.r
        return tuple(round(r.uniform(0.3, 2.5) if r.random() < 0.8 else r.uniform(-1.5, -0.2), 3) for _ in VARS)


UNIT_WELLFORMED = [
    # (formula text as a user writes it, intended value as python lambda of x,y,z)
    ("1+2*3", lambda x, y, z: 7.0), ("2*3+1", lambda x, y, z: 7.0), ("2-3-4", lambda x, y, z: -5.0),
    ("2/4/2", lambda x, y, z: 0.25), ("2/4*2", lambda x, y, z: 1.0), ("2*4/2", lambda x, y, z: 4.0),
    ("2-3+4", lambda x, y, z: 3.0), ("2+3-4", lambda x, y, z: 1.0), ("-2**2", lambda x, y, z: -4.0),
    ("2**-1", lambda x, y, z: 0.5), ("2*-3", lambda x, y, z: -6.0), ("6/-3", lambda x, y, z: -2.0),
    ("-x-y", lambda x, y, z: -x - y), ("-x+y", lambda x, y, z: -x + y), ("-x*y", lambda x, y, z: -x * y),
    ("x*-y**2", lambda x, y, z: -x * y * y), ("x-y*z**2/3+1", lambda x, y, z: x - y * z * z / 3 + 1),
    ("(x+y)*(x-y)", lambda x, y, z: (x + y) * (x - y)), ("2*(x+(y-z)*2)", lambda x, y, z: 2 * (x + (y - z) * 2)),
    ("sin(x)**2+cos(x)**2", lambda x, y, z: 1.0), ("max(x,y)-min(x,y)", lambda x, y, z: abs(x - y)),
    ("x>y ? x : y", lambda x, y, z: max(x, y)), ("x>1 && y>1 ? 1 : 0", lambda x, y, z: 1.0 if (x > 1 and y > 1) else 0.0),
    ("x>1 || y>1 ? 1 : 0", lambda x, y, z: 1.0 if (x > 1 or y > 1) else 0.0),
    ("!x>1 ? 1 : 0", lambda x, y, z: 0.0 if x > 1 else 1.0),
    ("1.5e1+2.E0+1e+1", lambda x, y, z: 27.0), ("ln(x)-log(x)", lambda x, y, z: 0.0),
    ("Cste::R-Cste::R+Cste::kb/Cste::kb", lambda x, y, z: 1.0), ("tgamma(4)+lgamma(1)", lambda x, y, z: 6.0),
    ("power<3>(x)", lambda x, y, z: x ** 3),
    ("1+-2", lambda x, y, z: -1.0), ("x+-y", lambda x, y, z: x - y), ("x*y+-z", lambda x, y, z: x * y - z),
    ("(x+1)*2>3 ? 1 : 0", lambda x, y, z: 1.0 if (x + 1) * 2 > 3 else 0.0),
    ("(x)>1 ? 1 : 0", lambda x, y, z: 1.0 if x > 1 else 0.0),
    ("2*(sin(x)>0 ? 1 : 2)", lambda x, y, z: 2.0 if math.sin(x) > 0 else 4.0),
    ("x>3 || y>2 && z>5 ? 1 : 0", lambda x, y, z: 1.0 if (x > 3 or (y > 2 and z > 5)) else 0.0),
    ("x>3 && y>2 || z<5 ? 1 : 0", lambda x, y, z: 1.0 if ((x > 3 and y > 2) or z < 5) else 0.0),
]
# formulas whose meaning is a convention: compared with the model only, convention recorded in the evidence
UNIT_ASIS = ["2**3**2", "x**y**z", "2**-3**2", "-2**-2"]
UNIT_MALFORMED = ["", "+", "x+", "*x", "x**", "(x", "x)", "()", "x y", "2 3", "x--y", "x-+y", "x*+y", "x**+y", "x*/y",
                  "sin", "sin x", "sin()", "max(x)", "max(x,y,z)", "foo(x)", "w", "x ? 1", "x>1 ? 1", "x>1 ? : 2",
                  "? 1 : 2", "x>1>2 ? 1 : 2", "1 : 2", "x>1 ? y>1 ? 1 : 2 : 3", "x=1", "x&y", "x|y", "x&&y ? 1 : 2",
                  "-", "--x", "x+*y", ",", "x,y", "2x", "x(2)", "1e", "1.2.3", "x>1 ? 1 : 2 : 3", "(x>1) ? 1", "!"]


# getCxxFormula unit cases: (formula, declaration order of the variables or "-" = registered while reading, substitution map?)
UNIT_CXX = [("y-x", "-", "-"), ("z/x", "-", "m"), ("y-x*z", "zyx", "m"), ("x>y ? 2*y : x-1", "yxz", "m"),
            ("x**2+y**-3+z**0.5+x**17+x**y", "zxy", "m"), ("power<3>(x)+power<1>(y)+power<0>(z)", "yzx", "-"),
            ("H(x-1)+ln(y)+abs(-z)+max(x,y)-min(y,z)+hypot(x,y)+atan2(y,x)", "yzx", "m"),
            ("!x>1 && y>1 ? exp2(x)+cbrt(y) : log1p(z)+erfc(x)", "zxy", "-"), ("Cste::R*x-z", "zyx", "m"),
            ("1.5e1*y+2.E0*x+1e+1", "yxz", "-"),
            ("1/2*x", "xyz", "-"), ("x*1/2", "zxy", "m"), ("2/3+y", "-", "-"), ("x+2**3", "yxz", "-")]
CXX_INT_UNITS = ("1/2*x", "x*1/2", "2/3+y", "x+2**3")   # an integer literal is emitted as it is written: integer division in C++


def cxx_floating(text):
    """the emitted C++ text with its integer literals made floating-point literals (diagnosis of a mismatch)"""
    def f(m):
        return m.group(0) + "." if re.fullmatch(r"\d+", m.group(0)) else m.group(0)
    return re.sub(r"(?<![\w.<])(?<!<-)\d+\.?\d*(?:[eE][+-]?\d+)?", f, text)


CXX_PRELUDE = """// generated by props/C13/check.py: the C++ formulas emitted by Evaluator::getCxxFormula, compiled as they are
#include <cmath>
#include <cstdio>
#include <algorithm>
#include "TFEL/Math/power.hxx"
namespace c13f {
  using namespace std;
  // names of the formula language that are not C++ library functions (Evaluator::Heavyside, Evaluator::max/min, ln, abs = fabs)
  [[maybe_unused]] static double H(const double x) { return x < 0 ? 0. : 1.; }
  [[maybe_unused]] static double ln(const double x) { return std::log(x); }
  [[maybe_unused]] static double abs(const double x) { return std::fabs(x); }
  [[maybe_unused]] static double max(const double a, const double b) { return std::max(a, b); }
  [[maybe_unused]] static double min(const double a, const double b) { return std::min(a, b); }
"""


def fnum(s):
    try:
        return float(s)
    except ValueError:
        return float("nan")


def main(c):
    exe = c.cxx("driver", ["driver.cxx"], REPO_SOURCES)
    c.log("driver built")
    ml = c.ocaml_extract("c13", [C14MODEL, "C13Model.v"],
                         "From C13 Require Import C14Model C13Model.\nRequire Import ExtrOcamlBasic.\n"
                         'Extraction "c13_model.ml" eval evall parse reduce.\n', "drv.ml")
    c.log("model extracted")
    rng = c.rng
    pts0 = [(2.0, 3.0, 0.5), (0.75, 1.25, 6.0), (4.0, 0.5, 0.25)]
    # ---- which of the three parser limitations (findings with a patch each) does the tree under test have?
    probes = [("lpar", "(x+1)*2>3 ? 1 : 0", pts0[0], 1.0), ("nested", "2*(sin(x)>0 ? 1 : 2)", pts0[0], 2.0),
              ("orp", "x>3 || y>2 && z>5 ? 1 : 0", pts0[2], 1.0)]
    rc, out, err = c.run([exe], input="".join("%d\t%s\tV\t%s\n" % (i, f, ",".join(repr(v) for v in p))
                                              for i, (_, f, p, _) in enumerate(probes)), timeout=300)
    fx = {}
    for l in out.splitlines():
        t = l.split()
        if len(t) >= 4 and t[0] == "R" and t[2] == "OK":
            n, _, _, want = probes[int(t[1])]
            fx[n] = abs(fnum(t[3]) - want) < 1e-12
    fx = {n: fx.get(n, False) for n, _, _, _ in probes}
    c.notes.append("parser variant observed on the real code: conditions beginning with '(' %s; conditionals inside parentheses after a ')' %s; "
                   "'||' binds %s than '&&'" % ("accepted" if fx["lpar"] else "rejected (finding)", "accepted" if fx["nested"] else "rejected (finding)",
                                                "looser" if fx["orp"] else "TIGHTER (finding)"))
    c.coverage["parser_variant"] = fx
    g = Gen(rng, fx)
    rng_cxx = random.Random(c.seed + 13)   # choices that concern getCxxFormula only (the main corpus does not depend on them)
    cases = []   # dict(id, kind, text, tokens|None, point, intended|None)

    def add(kind, text, tokens, p, intended=None, mode="V", cxx=None):
        cases.append({"id": len(cases), "kind": kind, "text": text, "tokens": tokens, "p": p, "intended": intended, "mode": mode, "cxx": cxx})

    for (f, fn) in UNIT_WELLFORMED:
        for p in pts0:
            add("unit", f, None, p, fn(*p))
    for f in UNIT_ASIS:
        add("asis", f, None, pts0[0])
    for (f, order, sub) in UNIT_CXX:
        add("cxxunit", f, None, pts0[0], None, "F", (order, sub))
    for f in UNIT_MALFORMED:
        add("malformed-unit", f, None, pts0[0])
    nform = c.pick(1500, 15000)
    illcond = [0]
    for k in range(nform):
        d = rng.choice([1, 2, 3, 3, 4, 4, 5]) if c.quick() else rng.choice([2, 3, 4, 5, 6, 7, 8])
        e = g.root(d)
        tl = toks(e, 0, True)
        text = join(tl, rng)
        for _ in range(2):
            p = g.point()
            try:
                MARGIN[0] = float("inf")
                v = ev(e, p)
                if isinstance(v, complex) or not math.isfinite(v):
                    v = None
                elif MARGIN[0] < 1e-9:
                    v = None   # on a discontinuity (a comparison between values equal up to rounding): no intended value
                    illcond[0] += 1
            except (ValueError, ZeroDivisionError, OverflowError):
                v = None
            add("gen", text, tl, p, v, "C" if k % 5 == 0 else "V")
            if k % 3 == 1 and _ == 0:
                # getCxxFormula: declaration order of the variables not alphabetical, or variables registered while reading
                add("gen", text, tl, p, v, "F", (rng_cxx.choice(["zxy", "yzx", "zyx", "yxz", "xzy", "-", "-"]), rng_cxx.choice(["m", "-"])))
        # token-level mutations of a well-formed formula: both sides must agree on reject/accept
        if k % 2 == 0 and len(tl) > 1:
            m = list(tl)
            op = rng.random()
            i = rng.randrange(len(m))
            pool = ["+", "-", "*", "/", "**", "(", ")", ",", "?", ":", ">", "<", "==", "&&", "||", "!", "x", "2", "sin", "max"]
            if op < 0.4:
                del m[i]
            elif op < 0.8:
                m.insert(i, rng.choice(pool))
            else:
                j = rng.randrange(len(m))
                m[i], m[j] = m[j], m[i]
            add("mutated", join(m, rng), m, g.point())
    # raw character strings: the lexer and everything behind it must not crash
    alphabet = "xyz0123456789.+-*/()?:<>=!&|, eE"
    for k in range(c.pick(600, 6000)):
        n = rng.randrange(1, 14)
        add("garbage", "".join(rng.choice(alphabet) for _ in range(n)), None, pts0[0])

    cin = "".join("%d\t%s\t%s\t%s%s\n" % (cs["id"], cs["text"], cs["mode"], ",".join(repr(v) for v in cs["p"]),
                                              "\t%s\t%s" % cs["cxx"] if cs["cxx"] else "") for cs in cases)
    open(os.path.join(c.work, "corpus.tsv"), "w").write(cin)
    rc, out, err = c.run([exe], input=cin, timeout=1200)
    if rc != 0:
        c.report("driver", "the driver of the real evaluator failed (rc=%d): %s" % (rc, err[-400:]), {"stderr": err[-3000:]}, False)
        return
    R = {}
    for l in out.splitlines():
        t = l.split(None, 3)
        if len(t) >= 3 and t[0] == "R":
            R[int(t[1])] = t[2:]
    # the model receives token lists: those of the generator, or (unit formulas) a plain split of the text
    def split_tokens(s):
        import re
        return re.findall(r"\d+\.?\d*(?:[eE][+-]?\d+)?|\*\*|==|>=|<=|&&|\|\||[A-Za-z_][A-Za-z_0-9]*|\S", s)
    mcases = [cs for cs in cases if cs["kind"] != "garbage" and ":" + ":" not in cs["text"] and "power<" not in cs["text"]]
    min_ = "".join("%d\t%s\t%s\n" % (cs["id"], " ".join(cs["tokens"] if cs["tokens"] is not None else split_tokens(cs["text"])),
                                     ",".join(repr(v) for v in cs["p"])) for cs in mcases)
    rc, mout, merr = c.run([ml] + ["1" if fx[n] else "0" for n in ("nested", "lpar", "orp")], input=min_, timeout=1200)
    if rc != 0:
        c.report("model-driver", "the model driver failed: " + merr[-400:], {"stderr": merr[-3000:]}, False)
        return
    M = {}
    for l in mout.splitlines():
        t = l.split()
        if len(t) >= 3 and t[0] == "M":
            M[int(t[1])] = t[2:]
    c.log("real code and model executed on %d cases" % len(cases))

    stats = {"wellformed_value_vs_intended": 0, "value_vs_model": 0, "rejected_both": 0, "accepted_both_mutated": 0,
             "garbage_no_crash": 0, "skipped_domain": 0, "copy_resolve_checked": 0, "cxx_formula_vs_getValue": 0,
             "cxx_formula_integer_literal": 0, "rejected_constant_exponent_fails": 0}
    plusminus_crash = False
    nrep = [0]
    cxxjobs = []   # (case, getValue, emitted C++ text, tolerance)
    for cs in cases:
        cid, kind, f, p = cs["id"], cs["kind"], cs["text"], cs["p"]
        r, m = R.get(cid), M.get(cid)
        if r is not None and r[0] == "OKF":
            # getCxxFormula case: the value of getValue is compared as for the other cases, the text is compiled below
            vt = (r[1] if len(r) > 1 else "").split(" ", 1)
            r = ["OK", vt[0]]
            gv = fnum(vt[0])
            if len(vt) == 2 and math.isfinite(gv):
                sens = abs(fnum(m[2]) - fnum(m[1])) if (m and m[0] == "OK") else 0.0
                tol = 1e-9 * max(1.0, abs(gv)) + 1e4 * sens
                if math.isfinite(tol) and (tol <= 1e-4 * max(1.0, abs(gv)) or kind == "cxxunit"):
                    cxxjobs.append((cs, gv, vt[1], tol))
            if kind == "cxxunit":
                c.count(1, (kind, f), True)
                continue
        elif kind == "cxxunit":
            c.report("cxxunit:" + f, "getCxxFormula unit case '%s' (variables %s): %s" % (f, cs["cxx"][0], " ".join(r or ["no result"])[:300]),
                     {"formula": f, "cxx": r}, True)
            continue
        pt = dict(zip(VARS, p))
        rep = {"formula": f, "kind": kind, "point": pt, "cxx": r, "model": m, "tokens": cs["tokens"],
               "how": "props/C13/driver.cxx: tfel::math::Evaluator ev({x,y,z}, formula); ev.getValue()"}
        if r is None:
            c.report("lost:" + f, "no result for formula '%s'" % f, rep, False)
            continue
        c.count(1, (kind, f), kind != "garbage")
        if cid % 397 == 3:
            c.sample({"formula": f, "kind": kind, "point": pt, "cxx": r[:2], "model": m})
        st = r[0]
        if st == "CRASH":
            tl = cs["tokens"] if cs["tokens"] is not None else split_tokens(f)
            pm = any(tl[i] == "+" and tl[i + 1] == "-" for i in range(len(tl) - 1))
            if kind == "unit" or not (pm and plusminus_crash):
                if pm and kind == "unit":
                    plusminus_crash = True
                c.report("crash:" + f, "the real evaluator crashed (%s) while analysing/evaluating the formula '%s'" % (" ".join(r[1:]), f), rep, True)
            continue
        if st == "COPYDIFF":
            c.report("copy:" + f, "copy / resolveDependencies of the evaluator of '%s' changes its value: %s" % (f, r[1:]), rep, True)
            continue
        if kind == "garbage":
            stats["garbage_no_crash"] += 1
            continue
        cv = fnum(r[1]) if st == "OK" else float("nan")
        if st == "REJECT" and m and m[0] == "OK" and m[-1] == "CE" and (
                "throwInvalidCallException" in " ".join(r[1:]) or "second argument is too small" in " ".join(r[1:])):
            # not a syntax error: TBinaryOperation::analyse evaluates a constant exponent when the formula is analysed, and
            # that evaluation fails (domain / range error of a library function, division by zero); the model finds such an
            # exponent in the tree that it builds (flag CE of props/C13/drv.ml)
            stats["rejected_constant_exponent_fails"] += 1
            continue
        if cs["mode"] == "C" and st == "OK":
            stats["copy_resolve_checked"] += 1
        # (1) the property itself on well-formed formulas: accepted, and the value is the intended one
        if kind in ("unit", "gen"):
            if st == "REJECT":
                c.report("rejected:" + f, "well-formed formula '%s' is rejected: %s" % (f, " ".join(r[1:])[:300]), rep, True)
                continue
            if st == "OK" and cs["intended"] is not None and math.isfinite(cv):
                iv = cs["intended"]
                sens = 0.0
                if m and m[0] == "OK":
                    sens = abs(fnum(m[2]) - fnum(m[1]))
                tol = 1e-9 * max(1.0, abs(iv)) + 1e4 * sens
                if tol <= 1e-4 * max(1.0, abs(iv)) or kind == "unit":
                    stats["wellformed_value_vs_intended"] += 1
                    if abs(cv - iv) > tol:
                        nrep[0] += 1
                        if nrep[0] <= 12 or kind == "unit":
                            c.report("value:%s:%s" % (f, ",".join("%g" % v for v in p)) if kind != "unit" else "value:" + f,
                                     "formula '%s' at %s evaluates to %.15g, the intended value is %.15g" % (f, pt, cv, iv), rep, True)
                        continue
            elif st != "OK":
                stats["skipped_domain"] += 1
        # (2) the tie: model and code agree on accept/reject and on the value
        if m is None:
            continue
        if (st == "REJECT") != (m[0] == "NONE"):
            nrep[0] += 1
            if nrep[0] <= 12 or kind.endswith("unit"):
                c.report("accept:" + f, "formula '%s': the code %s, the model of the pipeline %s" % (
                    f, "rejects it (%s)" % " ".join(r[1:])[:200] if st == "REJECT" else "accepts it (%s)" % st,
                    "rejects it" if m[0] == "NONE" else "accepts it"), rep, True)
            continue
        if st == "REJECT":
            stats["rejected_both"] += 1
            continue
        if kind == "mutated":
            stats["accepted_both_mutated"] += 1
        if st == "OK" and math.isfinite(cv):
            mv, mv2 = fnum(m[1]), fnum(m[2])
            if math.isfinite(mv) and math.isfinite(mv2):
                tol = 1e-9 * max(1.0, abs(mv)) + 1e4 * abs(mv2 - mv)
                if tol <= 1e-4 * max(1.0, abs(mv)):
                    stats["value_vs_model"] += 1
                    if abs(cv - mv) > tol:
                        nrep[0] += 1
                        if nrep[0] <= 12:
                            c.report("model:%s:%s" % (f, ",".join("%g" % v for v in p)),
                                     "formula '%s' at %s: the code evaluates %.15g, the model of its pipeline %.15g" % (f, pt, cv, mv), rep, True)
    # ---- getCxxFormula: the emitted texts are compiled (batched) and evaluated at the same point
    if cxxjobs:
        nchunk = min(4, 1 + len(cxxjobs) // 1200)
        nocompile = set()   # emitted texts that are not C++ (tfel::math::power<N> of an int expression: no such overload)

        def write_sources():
            srcs = []
            for k in range(nchunk):
                body = [CXX_PRELUDE]
                calls = []
                for (cs, gv, text, tol) in cxxjobs[k::nchunk]:
                    for tag, t in (("f", text), ("g", cxx_floating(text))):
                        if tag == "g" and t == text:
                            continue
                        if tag == "f" and cs["id"] in nocompile:
                            continue
                        body.append("  [[maybe_unused]] static double %s_%d(const double x, const double y, const double z) {\n"
                                    "    [[maybe_unused]] const double vx = x, vy = y, vz = z;\n    return %s;\n  }\n" % (tag, cs["id"], t))
                        calls.append('  c13_call("%s", %d, c13f::%s_%d, %s);\n' % (tag.upper(), cs["id"], tag, cs["id"], ", ".join(repr(v) for v in cs["p"])))
                body.append("}  // namespace c13f\nvoid c13_call(const char*, int, double (*)(double, double, double), double, double, double);\n"
                            "void c13_chunk_%d() {\n%s}\n" % (k, "".join(calls)))
                path = os.path.join(c.work, "cxxformula_%d.cxx" % k)
                open(path, "w").write("".join(body))
                srcs.append(path)
            return srcs

        for (cs, gv, text, tol) in cxxjobs:
            if re.search(r"power<-?\d+>\(\d+\)", text):
                nocompile.add(cs["id"])
        srcs = write_sources()
        path = os.path.join(c.work, "cxxformula_main.cxx")
        open(path, "w").write(
            "#include <csetjmp>\n#include <csignal>\n#include <cstdio>\n"
            "// an integer division by zero in an emitted formula (SIGFPE) must not stop the run\n"
            "static sigjmp_buf c13_jb;\nstatic void c13_fpe(int) { siglongjmp(c13_jb, 1); }\n"
            "void c13_call(const char* tag, int id, double (*f)(double, double, double), double x, double y, double z) {\n"
            "  if (sigsetjmp(c13_jb, 1) == 0) {\n    std::printf(\"%s %d %.17g\\n\", tag, id, f(x, y, z));\n  } else {\n"
            "    std::printf(\"%s %d SIGFPE\\n\", tag, id);\n  }\n}\n" +
            "".join("void c13_chunk_%d();\n" % k for k in range(nchunk)) + "int main() {\n  std::signal(SIGFPE, c13_fpe);\n" +
            "".join("  c13_chunk_%d();\n" % k for k in range(nchunk)) + "  return 0;\n}\n")
        byid = {cs["id"]: (cs, gv, text, tol) for (cs, gv, text, tol) in cxxjobs}
        try:
            try:
                fexe = c.cxx("cxxformula", srcs + [path], [], flags=["-w"], opt="-O0")
            except Exception:
                # some emitted text is not C++: a syntax-only pass lists all the functions that do not compile; those built
                # from the text as it is emitted (f_) are set aside (judged below), then the rest is built
                for sp in srcs:
                    rc_, out_, err_ = c.run(["g++"] + c.cxx_flags() + ["-w", "-fsyntax-only", "-fmax-errors=0", sp], timeout=900)
                    nocompile.update(int(x) for x in re.findall(r"c13f::f_(\d+)\(", err_))
                srcs = write_sources()
                fexe = c.cxx("cxxformula", srcs + [path], [], flags=["-w"], opt="-O0")
        except Exception as e:  # a text is not C++ even with floating-point literals: find the formula in the compiler message
            msg = str(e)
            mm = re.search(r"c13f::[fg]_(\d+)\(", msg)
            cs = byid[int(mm.group(1))][0] if mm and int(mm.group(1)) in byid else None
            c.report("cxxcompile:" + (cs["text"] if cs else "?"), "the text emitted by getCxxFormula%s does not compile: %s" % (
                " for '%s' ('%s')" % (cs["text"], byid[cs["id"]][2]) if cs else "", msg[-600:]), {"stderr": msg[-3000:]}, cs is not None)
            fexe = None
        if fexe:
            rc, fout, ferr = c.run([fexe], timeout=600)
            FV = {}
            for l in fout.splitlines():
                t = l.split()
                if len(t) == 3:
                    FV[(t[0], int(t[1]))] = t[2]
            if rc != 0:
                c.report("cxxrun", "the program made of the emitted C++ formulas failed (rc=%d): %s" % (rc, ferr[-300:]), {"stderr": ferr[-2000:]}, False)
            int_unit_seen = False
            for (cs, gv, text, tol) in cxxjobs:
                fs, gs = FV.get(("F", cs["id"])), FV.get(("G", cs["id"]))
                f, kind = cs["text"], cs["kind"]
                if cs["id"] in nocompile:
                    fs = "NOT-C++"
                if fs is None:
                    continue
                fv = fnum(fs)
                if fs not in ("SIGFPE", "NOT-C++") and not math.isfinite(fv):
                    continue
                stats["cxx_formula_vs_getValue"] += 1
                if math.isfinite(fv) and abs(fv - gv) <= tol:
                    continue
                rep = {"formula": f, "variables_declared": cs["cxx"][0], "substitutions": cs["cxx"][1], "point": dict(zip(VARS, cs["p"])),
                       "getCxxFormula": text, "compiled_value": fs, "getValue": gv,
                       "how": "props/C13/driver.cxx mode F: Evaluator(vars in that order, formula), setVariableValue by name, getValue, getCxxFormula(map); "
                              "the text compiled as the body of double f(double x,double y,double z) with vx=x, vy=y, vz=z"}
                gfv = fnum(gs) if gs is not None else float("nan")
                if math.isfinite(gfv) and abs(gfv - gv) <= tol:
                    # the only difference: integer literals are emitted as they were written (int arithmetic in C++)
                    stats["cxx_formula_integer_literal"] += 1
                    if kind == "cxxunit" or not int_unit_seen:
                        int_unit_seen = int_unit_seen or (kind == "cxxunit" and f in CXX_INT_UNITS)
                        c.report("cxxint:" + f, "getCxxFormula of '%s' is '%s': as C++ it %s (integer literals are emitted as they are written: int arithmetic), "
                                 "getValue gives %.15g" % (f, text, {"SIGFPE": "divides by zero (SIGFPE)", "NOT-C++": "does not compile (tfel::math::power<N> of an int)"}.get(
                                     fs, "evaluates to %s" % fs), gv), rep, True)
                    continue
                nrep[0] += 1
                if nrep[0] <= 12 or kind == "cxxunit":
                    c.report("cxx:%s:%s" % (f, cs["cxx"][0]), "getCxxFormula of '%s' (variables declared %s) is '%s': %s at %s, getValue gives %.15g"
                             % (f, cs["cxx"][0] if cs["cxx"][0] != "-" else "while reading", text,
                                "it is not C++ (does not compile)" if fs == "NOT-C++" else "compiled, it evaluates to %s" % fs, dict(zip(VARS, cs["p"])), gv), rep, True)
    c.log("comparison done: %s" % stats)
    stats["no_intended_value_on_discontinuity"] = illcond[0]
    c.coverage.update({"comparisons": stats, "generated_formulas": nform})
    c.notes.append("conventions of the code kept as they are (compared with the model only): ** associates to the left (2**3**2 = 64)")
    c.coverage["rule"] = ("unit formulas (operator precedence pairs, unary minus placements, functions, conditionals, logical operators, number "
                          "spellings, constants, power<N>), grammar-generated trees printed with the minimal parentheses of the standard "
                          "precedence at 2 points each (depth <= %d), one token-level mutation (delete/insert/swap) for every second formula, "
                          "hand-written malformed formulas, random character strings (crash detection only); a value comparison counts when "
                          "both sides are finite and well conditioned; getCxxFormula: unit cases and every third generated formula with the variables declared "
                          "in a non-alphabetical order or registered while reading, with/without substitutions, the emitted text compiled and compared with getValue" % c.pick(5, 8))
    c.trusted("props/C13/driver.cxx (Evaluator, getValue, copy constructor, resolveDependencies of the sources compiled from the working tree)",
              "props/C13/drv.ml: classification of token texts into the model's tokens (numbers to exact rationals), OCaml float operations record "
              "(C library functions), detection of constant exponents whose evaluation fails",
              "the harness around the compiled getCxxFormula texts: H, ln, abs, max, min defined in namespace c13f as in Evaluator.cxx, TFEL/Math/power.hxx of "
              "the tree under test, g++ -O0, SIGFPE guard",
              "check.py: printer of a tree with minimal parentheses and its independent evaluation (intended value)",
              "the lexer EvaluatorBase::splitAtTokenSeperator is not modelled: it is exercised through the formula text (random blanks, number "
              "spellings) and by random character strings")
    # theorem files: the general ones, and for each of the three limitations the positive statement (repaired tree) or
    # the refutation (pinned tree), according to what was observed on the real code
    variant_files = ["Properties_C13_%s%s.v" % (n, "" if fx[n] else "_finding") for n in ("lpar", "nested", "orp")]
    res = c.coq([C14MODEL, "C13Model.v", "C13Proofs.v", "C13ParsePrint.v", "Properties_C13.v"] + variant_files, timeout=900)
    if not res.ok:
        c.coq_failures(res)


guarded_main("C13", main)

(* C13 -- driver of the extracted Gallina model (C13Model.v: parse; C14Model.v: eval) with OCaml floats.
   One line per case: id \t tokens separated by blanks \t values
   Output: M id NONE            the model rejects the token list
           M id OK v v'         value of the parsed tree (v' at slightly perturbed variable values) *)
open C13_model

let rec pos_of_int n = if n <= 1 then XH else if n land 1 = 0 then XO (pos_of_int (n / 2)) else XI (pos_of_int (n / 2))
let z_of_int n = if n = 0 then Z0 else if n > 0 then Zpos (pos_of_int n) else Zneg (pos_of_int (-n))
let rec nat_of_int n = if n <= 0 then O else S (nat_of_int (n - 1))
let rec int_of_nat = function O -> 0 | S n -> 1 + int_of_nat n
let rec float_of_pos = function XH -> 1. | XO p -> 2. *. float_of_pos p | XI p -> 2. *. float_of_pos p +. 1.
let float_of_z = function Z0 -> 0. | Zpos p -> float_of_pos p | Zneg p -> -. float_of_pos p

(* gamma function (Lanczos, g = 7): only feeds the positions of tgamma / lgamma, which the rules never differentiate *)
let lanczos = [| 0.99999999999980993; 676.5203681218851; -1259.1392167224028; 771.32342877765313;
                 -176.61502916214059; 12.507343278686905; -0.13857109526572012; 9.9843695780195716e-6;
                 1.5056327351493116e-7 |]
let rec gamma x =
  if Float.is_integer x && x >= 1. && x <= 20. then (let r = ref 1. in for i = 2 to int_of_float x - 1 do r := !r *. float_of_int i done; !r)
  else if x < 0.5 then Float.pi /. (sin (Float.pi *. x) *. gamma (1. -. x))
  else begin
    let x = x -. 1. in
    let a = ref lanczos.(0) in
    let t = x +. 7.5 in
    for i = 1 to 8 do a := !a +. lanczos.(i) /. (x +. float_of_int i) done;
    sqrt (2. *. Float.pi) *. (t ** (x +. 0.5)) *. exp (-. t) *. !a
  end

let fops : float numOps = {
  ofZ = float_of_z;
  add0 = ( +. ); sub0 = ( -. ); mul0 = ( *. ); div = ( /. ); opp0 = (fun a -> -. a);
  pow = ( ** );
  powz = (fun a n -> a ** float_of_z n);
  dfun = (fun f a -> match f with
    | Exp -> exp a | Sin -> sin a | Cos -> cos a | Tan -> tan a | Sqrt -> sqrt a | Log -> log a
    | Log10 -> log10 a | Asin -> asin a | Acos -> acos a | Atan -> atan a
    | Sinh -> sinh a | Cosh -> cosh a | Tanh -> tanh a);
  ufun = (fun f a -> match f with
    | Abs -> abs_float a | Exp2 -> Float.exp2 a | Expm1 -> expm1 a | Cbrt -> Float.cbrt a
    | Log2 -> Float.log2 a | Log1p -> log1p a
    | Acosh -> log (a +. sqrt (a *. a -. 1.)) | Asinh -> log (a +. sqrt (a *. a +. 1.))
    | Atanh -> 0.5 *. log ((1. +. a) /. (1. -. a))
    | Erf -> Float.erf a | Erfc -> Float.erfc a
    | Tgamma -> gamma a | Lgamma -> log (abs_float (gamma a))
    | Heav -> if a < 0. then 0. else 1.);
  bfun = (fun f a b -> match f with
    | Max -> if a < b then b else a      (* std::max(a, b) *)
    | Min -> if b < a then b else a      (* std::min(a, b) *)
    | Hypot -> Float.hypot a b | Atan2 -> Float.atan2 a b);
  ln10 = log 10.;
  ltb = (fun a b -> a < b); leb0 = (fun a b -> a <= b); eqb0 = (fun a b -> a -. b = 0.);
}


(* the same operations with a relative perturbation of 1e-12 on the results of the power and function calls: the
   second evaluation of every case uses them (and perturbed variable values) to measure how rounding differences
   between libm / tfel::math::power<N> / std::pow are amplified by the rest of the formula *)
let pert v = v *. (1. +. 1e-12)
let fops_p : float numOps = { fops with
  pow = (fun a b -> pert (fops.pow a b)); powz = (fun a n -> pert (fops.powz a n));
  dfun = (fun f a -> pert (fops.dfun f a)); ufun = (fun f a -> match f with Heav | Abs -> fops.ufun f a | _ -> pert (fops.ufun f a));
  bfun = (fun f a b -> match f with Max | Min -> fops.bfun f a b | _ -> pert (fops.bfun f a b)) }

(* classification of the tokens produced by the lexer of the code (numbers, known names, operators) *)
let q_of_string s =
  (* digits [. digits] [e[+-]digits] *)
  let mant, ex = match String.index_opt (String.lowercase_ascii s) 'e' with
    | Some i -> String.sub s 0 i, int_of_string (String.sub s (i + 1) (String.length s - i - 1))
    | None -> s, 0 in
  let ip, fp = match String.index_opt mant '.' with
    | Some i -> String.sub mant 0 i, String.sub mant (i + 1) (String.length mant - i - 1)
    | None -> mant, "" in
  let digits = ip ^ fp in
  let n = int_of_string (if digits = "" then "0" else digits) in
  let e10 = ex - String.length fp in
  let rec p10 k = if k = 0 then 1 else 10 * p10 (k - 1) in
  if e10 >= 0 then { qnum = z_of_int (n * p10 e10); qden = XH }
  else { qnum = z_of_int n; qden = pos_of_int (p10 (- e10)) }

let tok_of s =
  match s with
  | "+" -> KOp Plus | "-" -> KOp Minus | "*" -> KOp Mult | "/" -> KOp Div | "**" -> KOp Pow
  | "(" -> KL | ")" -> KR | "," -> KComma | "?" -> KQ | ":" -> KColon
  | "==" -> KCmp CEq | ">" -> KCmp CGt | ">=" -> KCmp CGe | "<" -> KCmp CLt | "<=" -> KCmp CLe
  | "&&" -> KAnd | "||" -> KOr | "!" -> KNot
  | "x" -> KVar O | "y" -> KVar (S O) | "z" -> KVar (S (S O))
  | "exp" -> KFun Exp | "sin" -> KFun Sin | "cos" -> KFun Cos | "tan" -> KFun Tan | "sqrt" -> KFun Sqrt
  | "log" | "ln" -> KFun Log | "log10" -> KFun Log10 | "asin" -> KFun Asin | "acos" -> KFun Acos | "atan" -> KFun Atan
  | "sinh" -> KFun Sinh | "cosh" -> KFun Cosh | "tanh" -> KFun Tanh
  | "abs" -> KUFun Abs | "exp2" -> KUFun Exp2 | "expm1" -> KUFun Expm1 | "cbrt" -> KUFun Cbrt | "log2" -> KUFun Log2
  | "log1p" -> KUFun Log1p | "acosh" -> KUFun Acosh | "asinh" -> KUFun Asinh | "atanh" -> KUFun Atanh
  | "erf" -> KUFun Erf | "erfc" -> KUFun Erfc | "tgamma" -> KUFun Tgamma | "lgamma" -> KUFun Lgamma | "H" -> KUFun Heav
  | "max" -> KBFun Max | "min" -> KBFun Min | "hypot" -> KBFun Hypot | "atan2" -> KBFun Atan2
  | _ ->
    if String.length s > 0 && s.[0] >= '0' && s.[0] <= '9' then (try KNum (q_of_string s) with _ -> KBad) else KBad

let () =
  (try
    while true do
      let line = input_line stdin in
      match String.split_on_char '\t' line with
      | [id; toks; vals] ->
        let vals = Array.of_list (List.map float_of_string (String.split_on_char ',' vals)) in
        let env k = fun n -> let i = int_of_nat n in
          if i < Array.length vals then vals.(i) *. (1. +. k *. float_of_int (i + 1) *. 1e-12) else 0. in
        let tl = List.filter (fun s -> s <> "") (String.split_on_char ' ' toks) |> List.map tok_of in
        (match parse tl with
         | None -> Printf.printf "M %s NONE\n" id
         | Some e -> Printf.printf "M %s OK %.17g %.17g\n" id (eval fops (env 0.) e) (eval fops_p (env 1.) e))
      | _ -> ()
    done
  with End_of_file -> ())

(* C13 -- driver of the extracted Gallina model (C13Model.v: parse_gen; C14Model.v: eval) with OCaml floats.
   One line per case: id \t tokens separated by blanks \t values
   Output: M id NONE            the model rejects the token list
           M id OK v v' [CE]    value of the parsed tree (v' at slightly perturbed variable values); CE: the tree has a
                                constant exponent whose evaluation fails (the code evaluates it at analysis time) *)
open C13_model

let rec pos_of_int n = if n <= 1 then XH else if n land 1 = 0 then XO (pos_of_int (n / 2)) else XI (pos_of_int (n / 2))
let z_of_int n = if n = 0 then Z0 else if n > 0 then Zpos (pos_of_int n) else Zneg (pos_of_int (-n))
let rec nat_of_int n = if n <= 0 then O else S (nat_of_int (n - 1))
let rec int_of_nat = function O -> 0 | S n -> 1 + int_of_nat n
let rec float_of_pos = function XH -> 1. | XO p -> 2. *. float_of_pos p | XI p -> 2. *. float_of_pos p +. 1.
let float_of_z = function Z0 -> 0. | Zpos p -> float_of_pos p | Zneg p -> -. float_of_pos p

(* gamma function (Lanczos, g = 7): only feeds the positions of tgamma / lgamma, which the rules never differentiate *)
let lanczos = [| 0.99999999999980993; 676.5203681218851; -1259.1392167224028; 771.32342877765313;
                 -176.61502916214059; 12.507343278686905; -0.13857109526572012; 9.9843695780195716e-6;
                 1.5056327351493116e-7 |]
let rec gamma x =
  if Float.is_integer x && x >= 1. && x <= 20. then (let r = ref 1. in for i = 2 to int_of_float x - 1 do r := !r *. float_of_int i done; !r)
  else if x < 0.5 then Float.pi /. (sin (Float.pi *. x) *. gamma (1. -. x))
  else begin
    let x = x -. 1. in
    let a = ref lanczos.(0) in
    let t = x +. 7.5 in
    for i = 1 to 8 do a := !a +. lanczos.(i) /. (x +. float_of_int i) done;
    sqrt (2. *. Float.pi) *. (t ** (x +. 0.5)) *. exp (-. t) *. !a
  end

let fops : float numOps = {
  ofZ = float_of_z;
  add0 = ( +. ); sub0 = ( -. ); mul0 = ( *. ); div = ( /. ); opp0 = (fun a -> -. a);
  pow = ( ** );
  powz = (fun a n -> a ** float_of_z n);
  dfun = (fun f a -> match f with
    | Exp -> exp a | Sin -> sin a | Cos -> cos a | Tan -> tan a | Sqrt -> sqrt a | Log -> log a
    | Log10 -> log10 a | Asin -> asin a | Acos -> acos a | Atan -> atan a
    | Sinh -> sinh a | Cosh -> cosh a | Tanh -> tanh a);
  ufun = (fun f a -> match f with
    | Abs -> abs_float a | Exp2 -> Float.exp2 a | Expm1 -> expm1 a | Cbrt -> Float.cbrt a
    | Log2 -> Float.log2 a | Log1p -> log1p a
    (* the C library functions (OCaml >= 4.13), as in the code; the textbook formulas log(a + sqrt(a*a+1)) ... lose
       all accuracy for large negative arguments (asinh) or small ones (atanh) *)
    | Acosh -> Float.acosh a | Asinh -> Float.asinh a
    | Atanh -> Float.atanh a
    | Erf -> Float.erf a | Erfc -> Float.erfc a
    | Tgamma -> gamma a | Lgamma -> log (abs_float (gamma a))
    | Heav -> if a < 0. then 0. else 1.);
  bfun = (fun f a b -> match f with
    | Max -> if a < b then b else a      (* std::max(a, b) *)
    | Min -> if b < a then b else a      (* std::min(a, b) *)
    | Hypot -> Float.hypot a b | Atan2 -> Float.atan2 a b);
  ln10 = log 10.;
  ltb = (fun a b -> a < b); leb0 = (fun a b -> a <= b); eqb0 = (fun a b -> a -. b = 0.);
}


(* the same operations with a relative perturbation of 1e-12 on the results of the power and function calls: the
   second evaluation of every case uses them (and perturbed variable values) to measure how rounding differences
   between libm / tfel::math::power<N> / std::pow are amplified by the rest of the formula *)
let pert v = v *. (1. +. 1e-12)
let fops_p : float numOps = { fops with
  pow = (fun a b -> pert (fops.pow a b)); powz = (fun a n -> pert (fops.powz a n));
  dfun = (fun f a -> pert (fops.dfun f a)); ufun = (fun f a -> match f with Heav | Abs -> fops.ufun f a | _ -> pert (fops.ufun f a));
  bfun = (fun f a b -> match f with Max | Min -> fops.bfun f a b | _ -> pert (fops.bfun f a b)) }

(* classification of the tokens produced by the lexer of the code (numbers, known names, operators) *)
let q_of_string s =
  (* digits [. digits] [e[+-]digits] *)
  let mant, ex = match String.index_opt (String.lowercase_ascii s) 'e' with
    | Some i -> String.sub s 0 i, int_of_string (String.sub s (i + 1) (String.length s - i - 1))
    | None -> s, 0 in
  let ip, fp = match String.index_opt mant '.' with
    | Some i -> String.sub mant 0 i, String.sub mant (i + 1) (String.length mant - i - 1)
    | None -> mant, "" in
  let digits = ip ^ fp in
  let n = int_of_string (if digits = "" then "0" else digits) in
  let e10 = ex - String.length fp in
  let rec p10 k = if k = 0 then 1 else 10 * p10 (k - 1) in
  if e10 >= 0 then { qnum = z_of_int (n * p10 e10); qden = XH }
  else { qnum = z_of_int n; qden = pos_of_int (p10 (- e10)) }

let tok_of s =
  match s with
  | "+" -> KOp Plus | "-" -> KOp Minus | "*" -> KOp Mult | "/" -> KOp Div | "**" -> KOp Pow
  | "(" -> KL | ")" -> KR | "," -> KComma | "?" -> KQ | ":" -> KColon
  | "==" -> KCmp CEq | ">" -> KCmp CGt | ">=" -> KCmp CGe | "<" -> KCmp CLt | "<=" -> KCmp CLe
  | "&&" -> KAnd | "||" -> KOr | "!" -> KNot
  | "x" -> KVar O | "y" -> KVar (S O) | "z" -> KVar (S (S O))
  | "exp" -> KFun Exp | "sin" -> KFun Sin | "cos" -> KFun Cos | "tan" -> KFun Tan | "sqrt" -> KFun Sqrt
  | "log" | "ln" -> KFun Log | "log10" -> KFun Log10 | "asin" -> KFun Asin | "acos" -> KFun Acos | "atan" -> KFun Atan
  | "sinh" -> KFun Sinh | "cosh" -> KFun Cosh | "tanh" -> KFun Tanh
  | "abs" -> KUFun Abs | "exp2" -> KUFun Exp2 | "expm1" -> KUFun Expm1 | "cbrt" -> KUFun Cbrt | "log2" -> KUFun Log2
  | "log1p" -> KUFun Log1p | "acosh" -> KUFun Acosh | "asinh" -> KUFun Asinh | "atanh" -> KUFun Atanh
  | "erf" -> KUFun Erf | "erfc" -> KUFun Erfc | "tgamma" -> KUFun Tgamma | "lgamma" -> KUFun Lgamma | "H" -> KUFun Heav
  | "max" -> KBFun Max | "min" -> KBFun Min | "hypot" -> KBFun Hypot | "atan2" -> KBFun Atan2
  | _ ->
    if String.length s > 0 && s.[0] >= '0' && s.[0] <= '9' then (try KNum (q_of_string s) with _ -> KBad) else KBad

(* flags of the model variant, observed on the real code by check.py: argv = depth_stop lpar_match or_first (0/1) *)
let flag i = Array.length Sys.argv > i && Sys.argv.(i) = "1"
let variant = { v_depth_stop = flag 1; v_lpar_match = flag 2; v_or_first = flag 3 }

(* TBinaryOperation::analyse evaluates a constant exponent when the formula is analysed: a formula with an exponent
   that has no variable and whose evaluation fails (a library function reports a domain / range error through errno,
   a division by a number below DBL_MIN) is rejected by the code at analysis time.  [const_exp_fails e]: the parsed
   tree has such an exponent. *)
let rec has_var = function
  | Num _ | Ln10 -> false
  | Var _ -> true
  | Neg a | PowN (_, a) | Fun (_, a) | UFun (_, a) -> has_var a
  | Bin (_, a, b) | BFun (_, a, b) -> has_var a || has_var b
  | Cond (c, a, b) -> has_varl c || has_var a || has_var b
  | ExpDeriv (a, b, d) -> has_var a || has_var b || has_var d
and has_varl = function
  | LCmp (_, a, b) -> has_var a || has_var b
  | LAnd (a, b) | LOr (a, b) -> has_varl a || has_varl b
  | LNot a -> has_varl a

let env0 = fun _ -> 0.
let value e = eval fops env0 e
let bad_result r = (match Float.classify_float r with FP_nan | FP_infinite | FP_subnormal -> true | _ -> false)
(* does the evaluation of the constant expression e raise an error in the code? *)
let rec fails e =
  match e with
  | Num _ | Ln10 | Var _ -> false
  | Neg a | PowN (_, a) -> fails a
  | Bin (o, a, b) -> fails a || fails b || (match o with Div -> abs_float (value b) < min_float | _ -> false)
  | Fun (f, a) -> fails a || bad_result (value e) || (match f with Exp -> value e = 0. | _ -> false)
  | UFun (f, a) -> fails a || bad_result (value e) ||
                   (match f with Exp2 | Erfc | Tgamma -> value e = 0. | _ -> false)
  | BFun (_, a, b) -> fails a || fails b || bad_result (value e)
  | Cond (_, a, b) -> fails a || fails b
  | ExpDeriv (a, b, d) -> fails a || fails b || fails d
let rec const_exp_fails e =
  match e with
  | Num _ | Ln10 | Var _ -> false
  | Neg a | PowN (_, a) | Fun (_, a) | UFun (_, a) -> const_exp_fails a
  | Bin (o, a, b) ->
    const_exp_fails a || const_exp_fails b || (match o with Pow -> (not (has_var b)) && fails b | _ -> false)
  | BFun (_, a, b) -> const_exp_fails a || const_exp_fails b
  | Cond (c, a, b) -> const_exp_failsl c || const_exp_fails a || const_exp_fails b
  | ExpDeriv (a, b, d) -> const_exp_fails a || const_exp_fails b || const_exp_fails d
and const_exp_failsl = function
  | LCmp (_, a, b) -> const_exp_fails a || const_exp_fails b
  | LAnd (a, b) | LOr (a, b) -> const_exp_failsl a || const_exp_failsl b
  | LNot a -> const_exp_failsl a

let () =
  (try
    while true do
      let line = input_line stdin in
      match String.split_on_char '\t' line with
      | [id; toks; vals] ->
        let vals = Array.of_list (List.map float_of_string (String.split_on_char ',' vals)) in
        let env k = fun n -> let i = int_of_nat n in
          if i < Array.length vals then vals.(i) *. (1. +. k *. float_of_int (i + 1) *. 1e-12) else 0. in
        let tl = List.filter (fun s -> s <> "") (String.split_on_char ' ' toks) |> List.map tok_of in
        (match parse_gen variant tl with
         | None -> Printf.printf "M %s NONE\n" id
         | Some e -> Printf.printf "M %s OK %.17g %.17g%s\n" id (eval fops (env 0.) e) (eval fops_p (env 1.) e)
                       (if const_exp_fails e then " CE" else ""))
      | _ -> ()
    done
  with End_of_file -> ())

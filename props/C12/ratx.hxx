// C12: exact rational evaluation of traced DAGs and extraction of rule tables (shared by trace_gk.cxx / trace_rk.cxx)
#ifndef VERIF_C12_RATX_HXX
#define VERIF_C12_RATX_HXX
#include "sym.hxx"
#include <algorithm>
#include <map>
#include <set>
#include <string>
#include <vector>
using namespace symv;

// ---------------------------------------------------------------------------------------------------------
// exact rational evaluation of a traced DAG (needed to read rule tables off the traces without rounding)
struct Rat {
  __int128 n = 0, d = 1;
};
static __int128 g128(__int128 a, __int128 b) {
  if (a < 0) a = -a;
  if (b < 0) b = -b;
  while (b != 0) {
    __int128 t = a % b;
    a = b;
    b = t;
  }
  return a;
}
static Rat mk(__int128 n, __int128 d) {
  if (d == 0) throw SymError("Rat: division by zero");
  if (d < 0) {
    n = -n;
    d = -d;
  }
  __int128 g = g128(n, d);
  if (g > 1) {
    n /= g;
    d /= g;
  }
  return Rat{n, d};
}
static __int128 mulc(__int128 a, __int128 b) {
  __int128 r;
  if (__builtin_mul_overflow(a, b, &r)) throw SymError("Rat: overflow");
  return r;
}
static Rat radd(Rat a, Rat b) {
  if (a.n == 0) return b;
  if (b.n == 0) return a;
  __int128 g = g128(a.d, b.d);
  __int128 r;
  if (__builtin_add_overflow(mulc(a.n, b.d / g), mulc(b.n, a.d / g), &r)) throw SymError("Rat: overflow");
  return mk(r, mulc(a.d, b.d / g));
}
static Rat rmul(Rat a, Rat b) {
  if (a.n == 0 || b.n == 0) return Rat{};
  __int128 g1 = g128(a.n, b.d), g2 = g128(b.n, a.d);
  return mk(mulc(a.n / g1, b.n / g2), mulc(a.d / g2, b.d / g1));
}
static Rat rneg(Rat a) { return Rat{-a.n, a.d}; }
static Rat rinv(Rat a) { return mk(a.d, a.n); }
static bool req(Rat a, Rat b) { return a.n == b.n && a.d == b.d; }
static Rat rat_of_double(double v) {
  int e = 0;
  double m = std::frexp(v < 0 ? -v : v, &e);
  __int128 mi = static_cast<__int128>(std::ldexp(m, 53));
  e -= 53;
  __int128 n = mi, d = 1;
  for (; e > 0; --e) n = mulc(n, 2);
  for (; e < 0; ++e) {
    if (n % 2 == 0 && n != 0) n /= 2;
    else d = mulc(d, 2);
  }
  if (n == 0) d = 1;
  return Rat{v < 0 ? -n : n, d};
}
static std::string s128(__int128 v) {
  if (v == 0) return "0";
  bool neg = v < 0;
  if (neg) v = -v;
  std::string s;
  while (v > 0) {
    s.insert(s.begin(), static_cast<char>('0' + static_cast<int>(v % 10)));
    v /= 10;
  }
  return (neg ? "-" : "") + s;
}
static std::string qstr(Rat r) { return "(" + s128(r.n) + " # " + s128(r.d) + ")"; }
static double rdouble(Rat r) { return static_cast<double>(static_cast<long double>(r.n) / static_cast<long double>(r.d)); }

using RatEnv = std::map<std::string, Rat>;
// uf: value of the uninterpreted function `name` on exact arguments
using RatUF = std::function<Rat(const std::string&, const std::vector<Rat>&)>;
static Rat reval(int id, const RatEnv& env, const RatUF& uf, std::map<int, Rat>& memo) {
  auto it = memo.find(id);
  if (it != memo.end()) return it->second;
  const Node n = Store::get().nodes[id];
  auto A = [&] { return reval(n.a, env, uf, memo); };
  auto B = [&] { return reval(n.b, env, uf, memo); };
  Rat r;
  switch (n.op) {
    case VAR: {
      auto e = env.find(n.name);
      if (e == env.end()) throw SymError("reval: unbound " + n.name);
      r = e->second;
      break;
    }
    case CST:
      if (n.rad != 1) throw SymError("reval: radical");
      r = mk(n.num, n.den);
      break;
    case DCST: r = rat_of_double(n.d); break;
    case ADD: r = radd(A(), B()); break;
    case SUB: r = radd(A(), rneg(B())); break;
    case MUL: r = rmul(A(), B()); break;
    case DIV: r = rmul(A(), rinv(B())); break;
    case NEG: r = rneg(A()); break;
    case ABS: r = A(); if (r.n < 0) r.n = -r.n; break;
    case UFUN: {
      std::vector<Rat> xs;
      for (int x : n.args) xs.push_back(reval(x, env, uf, memo));
      r = uf(n.name, xs);
      break;
    }
    default: throw SymError("reval: operator outside the rational fragment");
  }
  memo[id] = r;
  return r;
}
static void collect_ufun(int id, const std::string& name, std::set<int>& seen, std::vector<int>& out) {
  if (!seen.insert(id).second) return;
  const Node& n = Store::get().nodes[id];
  if (n.a >= 0) collect_ufun(n.a, name, seen, out);
  if (n.b >= 0) collect_ufun(n.b, name, seen, out);
  for (int x : n.args) collect_ufun(x, name, seen, out);
  if (n.op == UFUN && n.name == name) out.push_back(id);
}
// A traced value E that is y0 + h * sum_i w_i g(t0 + u_i h) for an uninterpreted g: read (u_i, w_i) off the trace by
// evaluating E exactly at (t0,h,y0) = (0,1,0) with g the indicator of one node at a time.  Nothing is assumed about
// the shape of E; that E *is* that linear form for every g, t0, h, y0 is proved in Coq against the printed term.
struct Rule {
  std::vector<std::pair<Rat, Rat>> tab;  // (node, weight), sorted by node
  std::vector<int> arg_ids;              // DAG ids of the argument of every application of g below E
  std::vector<Rat> arg_nodes;            // the node each of them evaluates to
};
static Rule rule_table(const Sym& E, const std::string& g, RatEnv env01) {
  Rule R;
  std::set<int> seen;
  std::vector<int> apps;
  collect_ufun(node_of(E), g, seen, apps);
  std::vector<Rat> nodes;
  RatUF zero = [](const std::string&, const std::vector<Rat>&) { return Rat{}; };
  for (int id : apps) {
    std::map<int, Rat> memo;
    const int arg = Store::get().nodes[id].args.at(0);
    Rat u = reval(arg, env01, zero, memo);
    R.arg_ids.push_back(arg);
    R.arg_nodes.push_back(u);
    bool dup = false;
    for (auto& v : nodes) dup = dup || req(u, v);
    if (!dup) nodes.push_back(u);
  }
  std::sort(nodes.begin(), nodes.end(), [](Rat a, Rat b) { return rdouble(a) < rdouble(b); });
  for (auto& u : nodes) {
    RatUF ind = [&u](const std::string&, const std::vector<Rat>& xs) { return req(xs.at(0), u) ? Rat{1, 1} : Rat{}; };
    std::map<int, Rat> memo;
    Rat w = reval(node_of(E), env01, ind, memo);
    R.tab.push_back({u, w});
  }
  return R;
}
static bool same_table(const std::vector<std::pair<Rat, Rat>>& a, const std::vector<std::pair<Rat, Rat>>& b) {
  if (a.size() != b.size()) return false;
  for (size_t i = 0; i < a.size(); ++i)
    if (!req(a[i].first, b[i].first) || !req(a[i].second, b[i].second)) return false;
  return true;
}
static std::string table_def(const std::string& name, const std::vector<std::pair<Rat, Rat>>& tab) {
  std::string s = "Definition " + name + " : list (Q * Q) :=\n  [";
  for (size_t i = 0; i < tab.size(); ++i) s += std::string(i ? ";\n   " : "") + "(" + qstr(tab[i].first) + ", " + qstr(tab[i].second) + ")";
  return s + "]%Q.\n\n";
}
// the arguments of the applications of g (as traced terms) and the node each stands for: lets the Coq side rewrite
// every g(arg) into g(a + u (b - a)) with one `field` call per application
static void args_def(Trace& tr, const std::string& name, const std::vector<Sym>& params, const std::vector<Rule>& rules) {
  std::vector<Sym> args;
  std::vector<Rat> nodes;
  std::set<int> seen;
  for (auto& R : rules)
    for (size_t i = 0; i < R.arg_ids.size(); ++i)
      if (seen.insert(R.arg_ids[i]).second) {
        args.push_back(from_node(R.arg_ids[i]));
        nodes.push_back(R.arg_nodes[i]);
      }
  tr.def(name + "_args", params, args);
  std::string s = "Definition " + name + "_argnodes : list Q :=\n  [";
  for (size_t i = 0; i < nodes.size(); ++i) s += std::string(i ? "; " : "") + qstr(nodes[i]);
  tr.raw(s + "]%Q.\n\n");
}
#endif

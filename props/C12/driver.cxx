// C12: driver running the REAL code (double) of GaussKronrodQuadrature and RungeKutta2/4/42/54.
//   driver gk <seed> <n>     polynomial integrands, swapped / NaN / infinite bounds, tolerance-driven refinement
//   driver rk <seed> <n>     y' = p(t) with polynomial p, canonical and random final-time cases
//   driver loops <seed> <n>  scripted acceptance/rejection sequences: the control skeleton of the time loops
//   driver gkop <file> 0     the 4-argument GaussKronrodQuadrature::operator() on integrands given as data (one case per
//                            line: G id m tol a b np p_0.. nq q_0.. c d, numbers as hex doubles / nan / inf):
//                            f(x) = NaN if c <= x <= d else horner(p,x)/horner(q,x); prints R id some|none value calls
//                            (compile with -ffp-contract=off: the outputs are compared bit for bit with the Coq model)
#include <cmath>
#include <cstdint>
#include <cstdio>
#include <cstring>
#include <functional>
#include <limits>
#include <vector>
#include "TFEL/Math/tvector.hxx"
#include "TFEL/Math/NumericalIntegration/GaussKronrodQuadrature.hxx"
#include "TFEL/Math/RungeKutta2.hxx"
#include "TFEL/Math/RungeKutta4.hxx"
#include "TFEL/Math/RungeKutta42.hxx"
#include "TFEL/Math/RungeKutta54.hxx"

using tfel::math::tvector;
struct Rng {
  uint64_t s;
  explicit Rng(uint64_t seed) : s(seed * 0x9E3779B97F4A7C15ULL + 0x1234567ULL) {}
  uint64_t next() {
    uint64_t z = (s += 0x9E3779B97F4A7C15ULL);
    z = (z ^ (z >> 30)) * 0xBF58476D1CE4E5B9ULL;
    z = (z ^ (z >> 27)) * 0x94D049BB133111EBULL;
    return z ^ (z >> 31);
  }
  double uni() { return (next() >> 11) * (1.0 / 9007199254740992.0); }
  double range(double a, double b) { return a + (b - a) * uni(); }
  int below(int n) { return static_cast<int>(next() % static_cast<uint64_t>(n)); }
  // dyadic with `bits` fractional bits in [a,b]
  double dyadic(double a, double b, int bits) { return std::floor(range(a, b) * (1 << bits)) / (1 << bits); }
};
static double horner(const std::vector<double>& c, double x) {
  double r = 0;
  for (size_t i = c.size(); i-- > 0;) r = r * x + c[i];
  return r;
}
static void print_vec(const std::vector<double>& c) {
  for (double x : c) std::printf(" %.17g", x);
}

// ------------------------------------------------------------------------------------------------ GK
static void gk_poly(const char* tag, const std::vector<double>& c, double a, double b) {
  const auto r = tfel::math::gauss_kronrod_integrate([&c](const double x) { return horner(c, x); }, a, b);
  std::printf("%s %zu %.17g %.17g c", tag, c.size(), a, b);
  print_vec(c);
  if (r.has_value()) std::printf(" -> %.17g %.17g\n", std::get<0>(*r), std::get<1>(*r));
  else std::printf(" -> none\n");
}
static int run_gk(uint64_t seed, int n) {
  Rng rng(seed);
  // monomials on [0,1] and [-1,1] (the inputs used to exhibit a wrong node or weight)
  for (int k = 0; k <= 24; ++k) {
    std::vector<double> c(k + 1, 0.);
    c[k] = 1;
    gk_poly("GKMONO", c, 0, 1);
    gk_poly("GKMONO", c, -1, 1);
  }
  for (int i = 0; i < n; ++i) {
    const int deg = i < 46 ? i / 2 : rng.below(23);
    std::vector<double> c(deg + 1);
    for (auto& x : c) x = rng.range(-2, 2);
    double a = rng.range(-3, 3), b = rng.range(-3, 3);
    if (i % 7 == 0) a = rng.dyadic(-4, 4, 3), b = rng.dyadic(-4, 4, 3);
    if (i % 31 == 3) b = a;
    if (i % 11 == 5) { a *= 40; b *= 40; for (auto& x : c) x *= 1e-3; }
    gk_poly("GKPOLY", c, a, b);
    gk_poly("GKPOLY", c, b, a);  // swapped bounds
  }
  // NaN bounds
  const double nan = std::numeric_limits<double>::quiet_NaN();
  auto f1 = [](const double x) { return std::exp(-x * x); };
  const double nb[3][2] = {{nan, 1.}, {0., nan}, {nan, nan}};
  for (auto& ab : nb) {
    const auto r = tfel::math::gauss_kronrod_integrate(f1, ab[0], ab[1]);
    const auto r2 = tfel::math::gauss_kronrod_integrate(f1, ab[0], ab[1], {.absolute_tolerance = 1e-10, .maximum_number_of_refinements = 6});
    std::printf("GKNAN %d %d\n", int(r.has_value()), int(r2.has_value()));
  }
  // tolerance-driven refinement on integrands with known integrals: id a b tol nref -> value
  const double inf = std::numeric_limits<double>::infinity(), big = std::numeric_limits<double>::max();
  struct Case { int id; double a, b; };
  std::vector<Case> cases;
  for (int i = 0; i < (n < 40 ? n : 40); ++i) {
    const double a = rng.range(-2, 2), w = rng.range(0.1, 6);
    cases.push_back({i % 4, a, a + w});
    cases.push_back({i % 4, a + w, a});
  }
  // unbounded: 4 exp(-x) on [a,inf); 5 1/(1+x^2) on (-inf,b]; 6 exp(-x^2) on R; both encodings of infinity
  for (double I : {inf, big}) {
    cases.push_back({4, 0., I});
    cases.push_back({4, 1.5, I});
    cases.push_back({4, I, 0.});
    cases.push_back({5, -I, 0.});
    cases.push_back({5, -I, 2.});
    cases.push_back({5, 1., -I});
    cases.push_back({6, -I, I});
    cases.push_back({6, I, -I});
    cases.push_back({6, I, I});
    cases.push_back({6, -I, -I});
  }
  for (auto& c : cases) {
    std::function<double(double)> f;
    switch (c.id) {
      case 0: f = [](double x) { return std::exp(x); }; break;
      case 1: f = [](double x) { return std::sin(3 * x); }; break;
      case 2: f = [](double x) { return 1 / (1 + x * x); }; break;
      case 3: f = [](double x) { return std::exp(-x * x) * x; }; break;
      case 4: f = [](double x) { return std::exp(-x); }; break;
      case 5: f = [](double x) { return 1 / (1 + x * x); }; break;
      default: f = [](double x) { return std::exp(-x * x); }; break;
    }
    const double tol = 1e-10;
    const std::size_t nref = 14;
    const auto r = tfel::math::gauss_kronrod_integrate(f, c.a, c.b, {.absolute_tolerance = tol, .maximum_number_of_refinements = nref});
    std::printf("GKTOL %d %.17g %.17g %.3g %zu -> ", c.id, c.a, c.b, tol, nref);
    if (r.has_value()) std::printf("%.17g\n", *r);
    else std::printf("none\n");
  }
  // 3-argument overload on unbounded ranges: ONE rule evaluation of the transformed integrand (value, estimate);
  // compared by the check with post-factor x the rule of the traced tables applied to the documented change of variable
  auto f5 = [](const double x) { return 1 / (1 + x * x); };
  for (double av : {0., 1.5, -0.75, 3., -2.25}) {
    const double ab[5][2] = {{av, inf}, {-inf, av}, {-inf, inf}, {inf, av}, {av, -inf}};
    static const char* kind[5] = {"right", "left", "line", "rightswap", "leftswap"};
    for (int k = 0; k < 5; ++k) {
      const auto r = tfel::math::gauss_kronrod_integrate(f5, ab[k][0], ab[k][1]);
      std::printf("GKCV %s %.17g -> ", kind[k], av);
      if (r.has_value()) std::printf("%.17g %.17g\n", std::get<0>(*r), std::get<1>(*r));
      else std::printf("none none\n");
    }
  }
  return 0;
}

// ------------------------------------------------------------------------------------------------ RK
// right-hand side (p(t), 1): the second component measures the time actually covered
struct Poly2 {
  std::vector<double> c;
};
struct F2 : tfel::math::RungeKutta2<2, double, F2> {
  Poly2 p;
  void computeF(const double t, const tvector<2, double>&) { this->f(0) = horner(p.c, t); this->f(1) = 1; }
};
struct F4 : tfel::math::RungeKutta4<2, double, F4> {
  Poly2 p;
  void computeF(const double t, const tvector<2, double>&) { this->f(0) = horner(p.c, t); this->f(1) = 1; }
};
struct A42 : tfel::math::RungeKutta42<2, A42> {
  Poly2 p;
  mutable long calls = 0;
  tvector<2, double> computeF(const double t, const tvector<2, double>&) const {
    if (++calls > 4000000) throw std::runtime_error("too many evaluations");
    return {horner(p.c, t), 1.};
  }
};
struct A54 : tfel::math::RungeKutta54<2, A54> {
  Poly2 p;
  mutable long calls = 0;
  tvector<2, double> computeF(const double t, const tvector<2, double>&) const {
    if (++calls > 6000000) throw std::runtime_error("too many evaluations");
    return {horner(p.c, t), 1.};
  }
};
// which: 0 rk2 1 rk4 2 rk42 3 rk54; prints y(final), time covered, reported final time (fixed-step only)
static void rk_case(const char* tag, int which, const std::vector<double>& c, double ti, double tf, double h, double eps, double y0) {
  static const char* nm[4] = {"rk2", "rk4", "rk42", "rk54"};
  std::printf("%s %s %.17g %.17g %.17g %.3g %.17g c", tag, nm[which], ti, tf, h, eps, y0);
  print_vec(c);
  tvector<2, double> y{y0, 0.};
  try {
    if (which == 0) {
      F2 s;
      s.p.c = c;
      s.set_y(y);
      s.set_h(h);
      s.exe(ti, tf);
      std::printf(" -> %.17g %.17g %.17g\n", s.get_y()(0), s.get_y()(1), s.get_t());
    } else if (which == 1) {
      F4 s;
      s.p.c = c;
      s.set_y(y);
      s.set_h(h);
      s.exe(ti, tf);
      std::printf(" -> %.17g %.17g %.17g\n", s.get_y()(0), s.get_y()(1), s.get_t());
    } else if (which == 2) {
      A42 s;
      s.p.c = c;
      s.setInitialValue(y);
      s.setInitialTime(ti);
      s.setFinalTime(tf);
      s.setInitialTimeIncrement(h);
      s.setCriterionValue(eps);
      s.iterate();
      std::printf(" -> %.17g %.17g %.17g\n", s.getValue()(0), s.getValue()(1), ti + s.getValue()(1));
    } else {
      A54 s;
      s.p.c = c;
      s.setInitialValue(y);
      s.setInitialTime(ti);
      s.setFinalTime(tf);
      s.setInitialTimeIncrement(h);
      s.setCriterionValue(eps);
      s.iterate();
      std::printf(" -> %.17g %.17g %.17g\n", s.getValue()(0), s.getValue()(1), ti + s.getValue()(1));
    }
  } catch (std::exception& e) {
    std::printf(" -> exception %s\n", e.what());
  }
}
static int run_rk(uint64_t seed, int n) {
  Rng rng(seed);
  const int order[4] = {2, 4, 4, 5};
  // canonical final-time cases (stable keys): y' = 1 on [0,1]
  const double hs[] = {0.3, 0.7, 0.4, 0.25, 0.5, 1.0, 2.0, 0.1};
  for (int w = 0; w < 4; ++w)
    for (double h : hs) rk_case("RKFINAL", w, {1.}, 0., 1., h, 1e-6, 0.);
  for (int i = 0; i < n; ++i) {
    const int w = i % 4;
    const int deg = rng.below(order[w]);  // degree below the order
    std::vector<double> c(deg + 1);
    for (auto& x : c) x = rng.range(-2, 2);
    const double ti = rng.dyadic(-2, 2, 4);
    if (w < 2) {
      // fixed step: h divides the range exactly (dyadic), so that the final time is not at stake here
      const int steps = 1 + rng.below(12);
      const double h = 1.0 / (1 << rng.below(5));
      rk_case("RKPOLY", w, c, ti, ti + steps * h, h, 0., rng.range(-1, 1));
      // and a range that h does not divide
      rk_case("RKRANGE", w, c, ti, ti + steps * h + rng.dyadic(0.0625, 0.9375, 4) * h, h, 0., rng.range(-1, 1));
    } else {
      const double len = rng.dyadic(0.25, 4, 4);
      const double h = rng.dyadic(0.0625, 1.5, 4) * len;
      const double eps = std::pow(10., -rng.below(9));
      rk_case("RKPOLY", w, c, ti, ti + len, h, eps, rng.range(-1, 1));
    }
  }
  return 0;
}

// ------------------------------------------------------------------------------------------------ loops
// scripted error control: the first stage of loop iteration i returns (S_i, 1) with S_i = 0 (accepted: error estimate
// 0 -> clamped to eps/100) or 1e30 (rejected: clamped to 100 eps), every other stage returns (0, 1)
template <int stages>
struct Script {
  std::vector<int> accept;
  mutable long calls = 0;
  tvector<2, double> rhs() const {
    const long it = calls / stages, st = calls % stages;
    ++calls;
    if (calls > 100000) throw std::runtime_error("too many evaluations");
    const bool acc = it >= static_cast<long>(accept.size()) || accept[it];
    return {(st == 0 && !acc) ? 1e30 : 0., 1.};
  }
};
struct S42 : tfel::math::RungeKutta42<2, S42> {
  Script<4> sc;
  tvector<2, double> computeF(const double, const tvector<2, double>&) const { return sc.rhs(); }
};
struct S54 : tfel::math::RungeKutta54<2, S54> {
  Script<6> sc;
  tvector<2, double> computeF(const double, const tvector<2, double>&) const { return sc.rhs(); }
};
struct T1 : tfel::math::RungeKutta2<1, double, T1> {
  void computeF(const double, const tvector<1, double>&) { this->f(0) = 1; }
};
struct T4 : tfel::math::RungeKutta4<1, double, T4> {
  void computeF(const double, const tvector<1, double>&) { this->f(0) = 1; }
};
template <typename S, int stages>
static void loop_case(const char* nm, const std::vector<int>& script, double ti, double tf, double dt0, double eps) {
  S s;
  s.sc.accept = script;
  s.setInitialValue(tvector<2, double>{0., 0.});
  s.setInitialTime(ti);
  s.setFinalTime(tf);
  s.setInitialTimeIncrement(dt0);
  s.setCriterionValue(eps);
  std::printf("LOOP %s %.17g %.17g %.17g s", nm, ti, tf, dt0);
  for (int a : script) std::printf("%d", a);
  try {
    s.iterate();
    std::printf(" -> %.17g %.17g %ld\n", ti + s.getValue()(1), s.getTimeIncrement(), s.sc.calls / stages);
  } catch (std::exception& e) {
    std::printf(" -> exception\n");
  }
}
static int run_loops(uint64_t seed, int n) {
  Rng rng(seed);
  const double eps = 1e-6;
  // the multipliers the code computes in the two clamped regimes (same expressions as in the .ixx files)
  std::printf("FACTORS rk42 %.17g %.17g\n", 0.8 * std::pow(eps / (0.01 * eps), 1. / 3), 0.8 * std::pow(eps / (100 * eps), 1. / 3));
  std::printf("FACTORS rk54 %.17g %.17g\n", 0.8 * std::pow(eps / (0.01 * eps), 0.2), 0.8 * std::pow(eps / (100 * eps), 0.2));
  for (int i = 0; i < n; ++i) {
    std::vector<int> script;
    const int len = rng.below(6);
    for (int k = 0; k < len; ++k) script.push_back(rng.below(3) != 0);
    const double ti = rng.dyadic(-2, 2, 3);
    const double lenT = rng.dyadic(0.125, 4, 3);
    double dt0 = rng.dyadic(0.015625, 1.5, 6) * lenT;
    if (i % 9 == 0) dt0 = lenT;
    if (i % 13 == 0) dt0 = 2 * lenT;
    if (i % 17 == 0) dt0 = lenT * 0.7;
    if (i % 2 == 0) loop_case<S42, 4>("rk42", script, ti, ti + lenT, dt0, eps);
    else loop_case<S54, 6>("rk54", script, ti, ti + lenT, dt0, eps);
  }
  for (int i = 0; i < n; ++i) {
    const double b = rng.dyadic(-2, 2, 3);
    const double h = rng.dyadic(0.0625, 1, 4);
    const double e = b + rng.dyadic(0, 6, 4);
    if (i % 2 == 0) {
      T1 s;
      s.set_y(tvector<1, double>{0.});
      s.set_h(h);
      s.exe(b, e);
      std::printf("FIXED rk2 %.17g %.17g %.17g -> %.17g\n", b, e, h, s.get_t());
    } else {
      T4 s;
      s.set_y(tvector<1, double>{0.});
      s.set_h(h);
      s.exe(b, e);
      std::printf("FIXED rk4 %.17g %.17g %.17g -> %.17g\n", b, e, h, s.get_t());
    }
  }
  return 0;
}

// ------------------------------------------------------------------------------------------------ gkop
static int run_gkop(const char* file) {
  FILE* in = std::fopen(file, "r");
  if (in == nullptr) return 2;
  char tag[8], id[64], tok[64];
  auto num = [&](double& x) { return std::fscanf(in, "%63s", tok) == 1 && (x = std::strtod(tok, nullptr), true); };
  while (std::fscanf(in, "%7s", tag) == 1) {
    unsigned long m = 0;
    double tol = 0, a = 0, b = 0, c = 0, d = 0;
    int np = 0, nq = 0;
    if (std::fscanf(in, "%63s %lu", id, &m) != 2 || !num(tol) || !num(a) || !num(b) || std::fscanf(in, "%d", &np) != 1) return 3;
    std::vector<double> p(np);
    for (auto& x : p) if (!num(x)) return 3;
    if (std::fscanf(in, "%d", &nq) != 1) return 3;
    std::vector<double> q(nq);
    for (auto& x : q) if (!num(x)) return 3;
    if (!num(c) || !num(d)) return 3;
    long calls = 0;
    auto f = [&](const double x) -> double {
      ++calls;
      if ((c <= x) && (x <= d)) return std::numeric_limits<double>::quiet_NaN();
      const double n = horner(p, x);
      const double dn = horner(q, x);
      return n / dn;
    };
    const auto r = tfel::math::gauss_kronrod_integrate(f, a, b, {.absolute_tolerance = tol, .maximum_number_of_refinements = m});
    if (!r.has_value()) std::printf("R %s none 0 %ld\n", id, calls);
    else if (*r != *r) std::printf("R %s some nan %ld\n", id, calls);
    else std::printf("R %s some %a %ld\n", id, *r, calls);
  }
  std::fclose(in);
  return 0;
}

int main(int argc, char** argv) {
  if (argc < 4) {
    std::fprintf(stderr, "usage: driver gk|rk|loops <seed> <n> | driver gkop <file> 0\n");
    return 2;
  }
  const uint64_t seed = std::strtoull(argv[2], nullptr, 10);
  const int n = std::atoi(argv[3]);
  if (!std::strcmp(argv[1], "gkop")) return run_gkop(argv[2]);
  if (!std::strcmp(argv[1], "gk")) return run_gk(seed, n);
  if (!std::strcmp(argv[1], "rk")) return run_rk(seed, n);
  if (!std::strcmp(argv[1], "loops")) return run_loops(seed, n);
  return 2;
}

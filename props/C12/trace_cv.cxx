// C12: tracer (engine S) of the changes of variable of GaussKronrodQuadrature for unbounded ranges.
//   trace_cv gen <out.v> <seed> : prints C12_cv_gen.v -- the values returned by the private members
//     computeRightUnboundedIntegral(f, a), computeLeftUnboundedIntegral(f, b), computeUnboundedIntegral(f)
//   for an uninterpreted integrand f, with the argument of every application of f paired with the Kronrod node it
//   belongs to -- and AGREE lines (traced terms vs the same members instantiated with double).
//
// The lambdas `u` of those members take a `base_type<real>` and call integrate(u, base_type<real>{-1}, base_type<real>{1});
// integrate declares `constexpr base_type<real'>` constants used in capture-less lambdas, so real' must have a
// fundamental base type.  Two scalar types are used: real = SymQ (a quantity-like scalar, base type SymX) and
// real' = SymX (base type double), both thin wrappers of symv::Sym.  Sym folds constant (x) double-literal in ROUNDED
// double arithmetic; the wrappers build a DAG node instead whenever a double literal meets a constant, so that the
// change of variable at the node t_k = 2 d_k - 1 (d_k the double of the code) is traced in exact real arithmetic.
#define VERIF_SYM_EXACT_DOUBLES 1
#include "symtfel.hxx"

namespace cvx {
  using symv::Sym;
  inline bool lit(const Sym& s) { return s.kind == 2; }
  inline bool keep(const Sym& a, const Sym& b) { return a.isconst() && b.isconst() && (lit(a) || lit(b)); }
  inline Sym add(const Sym& a, const Sym& b) { return keep(a, b) && !a.iszero() && !b.iszero() ? symv::mk2(symv::ADD, a, b) : a + b; }
  inline Sym sub(const Sym& a, const Sym& b) { return keep(a, b) && !a.iszero() && !b.iszero() ? symv::mk2(symv::SUB, a, b) : a - b; }
  inline Sym mul(const Sym& a, const Sym& b) {
    return keep(a, b) && !a.iszero() && !b.iszero() && !a.isone() && !b.isone() ? symv::mk2(symv::MUL, a, b) : a * b;
  }
  inline Sym div(const Sym& a, const Sym& b) { return keep(a, b) && !a.iszero() && !b.isone() ? symv::mk2(symv::DIV, a, b) : a / b; }
  // real' : base type double
  struct SymX {
    Sym v;
    constexpr SymX() : v(0) {}
    template <typename A>
    requires std::is_arithmetic_v<A>
    constexpr SymX(const A x) : v(x) {}
    constexpr explicit SymX(const Sym& s) : v(s) {}
  };
  // real : base type SymX
  struct SymQ {
    Sym v;
    constexpr SymQ() : v(0) {}
    constexpr SymQ(const int i) : v(i) {}
    constexpr explicit SymQ(const Sym& s) : v(s) {}
  };
#define CVX_OP(op, fn)                                                                                       \
  inline SymX operator op(const SymX& a, const SymX& b) { return SymX{fn(a.v, b.v)}; }                      \
  template <typename A>                                                                                      \
  requires std::is_arithmetic_v<A>                                                                           \
  inline SymX operator op(const A a, const SymX& b) { return SymX{fn(Sym(a), b.v)}; }                       \
  template <typename A>                                                                                      \
  requires std::is_arithmetic_v<A>                                                                           \
  inline SymX operator op(const SymX& a, const A b) { return SymX{fn(a.v, Sym(b))}; }                       \
  inline SymQ operator op(const SymQ& a, const SymQ& b) { return SymQ{fn(a.v, b.v)}; }                      \
  inline SymQ operator op(const SymX& a, const SymQ& b) { return SymQ{fn(a.v, b.v)}; }                      \
  inline SymQ operator op(const SymQ& a, const SymX& b) { return SymQ{fn(a.v, b.v)}; }                      \
  template <typename A>                                                                                      \
  requires std::is_arithmetic_v<A>                                                                           \
  inline SymQ operator op(const A a, const SymQ& b) { return SymQ{fn(Sym(a), b.v)}; }                       \
  template <typename A>                                                                                      \
  requires std::is_arithmetic_v<A>                                                                           \
  inline SymQ operator op(const SymQ& a, const A b) { return SymQ{fn(a.v, Sym(b))}; }
  CVX_OP(+, add)
  CVX_OP(-, sub)
  CVX_OP(*, mul)
  CVX_OP(/, div)
#undef CVX_OP
  inline SymX operator-(const SymX& a) { return SymX{-a.v}; }
  inline SymQ operator-(const SymQ& a) { return SymQ{-a.v}; }
}  // namespace cvx
namespace tfel::typetraits {
  template <> struct IsScalar<cvx::SymX> { static constexpr bool cond = true; };
  template <> struct IsReal<cvx::SymX> { static constexpr bool cond = true; };
  template <> struct BaseType<cvx::SymX> { using type = double; };
  template <> struct IsScalar<cvx::SymQ> { static constexpr bool cond = true; };
  template <> struct IsReal<cvx::SymQ> { static constexpr bool cond = true; };
  template <> struct BaseType<cvx::SymQ> { using type = cvx::SymX; };
}  // namespace tfel::typetraits
namespace tfel::math {
  // the error estimate |k15 - g7| (declared before the header: the call tfel::math::abs(e) is qualified)
  inline cvx::SymQ abs(const cvx::SymQ& s) noexcept { return cvx::SymQ{symv::abs(s.v)}; }
  inline cvx::SymX abs(const cvx::SymX& s) noexcept { return cvx::SymX{symv::abs(s.v)}; }
}  // namespace tfel::math

#include "TFEL/Math/NumericalIntegration/GaussKronrodQuadrature.hxx"
#include "ratx.hxx"
#include <cstring>
#include <iostream>

using cvx::SymQ;
using cvx::SymX;
static_assert(std::is_same_v<tfel::math::base_type<SymQ>, SymX>);
static_assert(std::is_same_v<tfel::math::base_type<SymX>, double>);

// integrand of the agreement runs (any smooth function: only the rule is compared, not its convergence)
static double gfun(double x) { return std::sin(0.7 * x) / (1 + 0.5 * x * x) + 0.25 / (2 + x * x); }

static void def_list(Trace& tr, const std::string& name, const std::string& params, const std::vector<Sym>& outs) {
  Printer p;
  std::vector<int> roots;
  for (auto& o : outs) roots.push_back(node_of(o));
  const std::string l = p.lets(roots);
  std::string s = "Definition " + name + " " + params + ": list R :=\n" + l + "  [";
  for (size_t i = 0; i < roots.size(); ++i) s += std::string(i ? ";\n   " : "") + p.expr(roots[i]);
  tr.raw(s + "].\n\n");
}

int main(int argc, char** argv) {
  if (!(argc >= 3 && !std::strcmp(argv[1], "gen"))) {
    std::fprintf(stderr, "usage: trace_cv gen <out.v> [seed]\n");
    return 2;
  }
  const uint64_t seed = argc >= 4 ? std::strtoull(argv[3], nullptr, 10) : 1;
  Printer::exact_dyadic() = true;
  Trace tr("C12_cv_gen");
  tr.raw("From Coq Require Import QArith.\nLocal Open Scope R_scope.\n\n");
  const tfel::math::GaussKronrodQuadrature gk{};
  const Sym a = var("a");
  auto f = [](const SymQ x) { return SymQ(ufun("f", {x.v})); };
  const UFunEval uf = [](const std::string&, const std::vector<long double>& xs) -> long double {
    const long double x = xs.at(0);
    return std::sin(0.7L * x) / (1 + 0.5L * x * x) + 0.25L / (2 + x * x);
  };
  // the nodes t_k at which the members evaluate their lambda u: the arguments seen by an integrand of integrate(., -1, 1)
  std::vector<Sym> tk;
  {
    auto rec = [&tk](const SymX t) {
      tk.push_back(t.v);
      return SymX(ufun("g", {t.v}));
    };
    (void)gk.integrate(rec, SymX{-1}, SymX{1});
  }
  if (tk.size() != 15) {
    std::printf("TRACE-FAIL cv: integrate evaluates its integrand %zu times, 15 expected\n", tk.size());
    return 1;
  }
  std::vector<Rat> unit;  // d_k = (t_k + 1) / 2 in [0,1]: the nodes of table gk_K15
  std::vector<long double> tkv;
  for (auto& t : tk) {
    std::map<int, Rat> memo;
    RatUF zero = [](const std::string&, const std::vector<Rat>&) { return Rat{}; };
    const Rat r = reval(node_of(t), RatEnv{}, zero, memo);
    unit.push_back(rmul(radd(r, Rat{1, 1}), Rat{1, 2}));
    tkv.push_back(static_cast<long double>(r.n) / static_cast<long double>(r.d));
  }
  // applications of f below a traced value, each paired with the node whose image under phi it is (nearest; the Coq
  // side re-proves every pairing exactly)
  auto pair_args = [&](const std::string& name, const std::vector<Sym>& outs, const std::string& params, const std::vector<Sym>& pv,
                       const std::function<long double(long double, long double)>& phi) -> bool {
    std::set<int> seen;
    std::vector<int> apps;
    for (auto& o : outs) collect_ufun(node_of(o), "f", seen, apps);
    std::vector<Sym> args;
    std::vector<Rat> nodes;
    const long double a0 = 0.3125L;
    std::set<int> done;
    for (int id : apps) {
      const int arg = Store::get().nodes[id].args.at(0);
      if (!done.insert(arg).second) continue;
      const long double x = eval(from_node(arg), Env{{"a", a0}}, &uf);
      int best = -1;
      long double bd = 0;
      for (size_t k = 0; k < tkv.size(); ++k) {
        const long double dd = std::fabs(phi(a0, tkv[k]) - x);
        if (best < 0 || dd < bd) best = static_cast<int>(k), bd = dd;
      }
      if (best < 0 || !(bd <= 1e-9L * (1 + std::fabs(x)))) {
        std::printf("TRACE-FAIL cv %s: an argument of f (%.17Lg at a = %.5Lg) is the image of no Kronrod node\n", name.c_str(), x, a0);
        return false;
      }
      args.push_back(from_node(arg));
      nodes.push_back(unit[best]);
    }
    def_list(tr, name + "_args", params, args);
    std::string s = "Definition " + name + "_argnodes : list Q :=\n  [";
    for (size_t i = 0; i < nodes.size(); ++i) s += std::string(i ? "; " : "") + qstr(nodes[i]);
    tr.raw(s + "]%Q.\n\n");
    std::printf("ARGS %s %zu\n", name.c_str(), args.size());
    (void)pv;
    return true;
  };
  tr.raw("Section CV.\nVariable f : R -> R.\n");
  const auto rr = gk.template computeRightUnboundedIntegral<SymQ>(f, SymQ(a));
  const std::vector<Sym> right{std::get<0>(rr).v, std::get<1>(rr).v};
  def_list(tr, "cv_right", "(a : R) ", right);
  const auto rl = gk.template computeLeftUnboundedIntegral<SymQ>(f, SymQ(a));
  const std::vector<Sym> left{std::get<0>(rl).v, std::get<1>(rl).v};
  def_list(tr, "cv_left", "(a : R) ", left);
  const auto ru = gk.template computeUnboundedIntegral<SymQ>(f);
  const std::vector<Sym> line{std::get<0>(ru).v, std::get<1>(ru).v};
  def_list(tr, "cv_line", "", line);
  bool ok = pair_args("cv_right", right, "(a : R) ", {a}, [](long double av, long double t) { return av + (2 / (t + 1) - 1); });
  ok = pair_args("cv_left", left, "(a : R) ", {a}, [](long double av, long double t) { return av - (2 / (t + 1) - 1); }) && ok;
  ok = pair_args("cv_line", line, "", {}, [](long double, long double t) { return t / (1 - t * t); }) && ok;
  tr.raw("End CV.\n\n");
  if (!ok) return 1;
  // ---- agreement: traced terms vs the same private members instantiated with double
  Rng rng(seed);
  auto gd = [](const double x) { return gfun(x); };
  for (int i = 0; i < 60; ++i) {
    const double av = i == 0 ? 0. : rng.range(-4, 4);
    const Env env{{"a", av}};
    const auto dr = gk.template computeRightUnboundedIntegral<double>(gd, av);
    const auto dl = gk.template computeLeftUnboundedIntegral<double>(gd, av);
    const auto du = gk.template computeUnboundedIntegral<double>(gd);
    const double dv[6] = {std::get<0>(dr), std::get<1>(dr), std::get<0>(dl), std::get<1>(dl), std::get<0>(du), std::get<1>(du)};
    const Sym* sv[6] = {&right[0], &right[1], &left[0], &left[1], &line[0], &line[1]};
    static const char* nm[3] = {"right", "left", "line"};
    for (int k = 0; k < 3; ++k) {
      const long double v = eval(*sv[2 * k], env, &uf), e = eval(*sv[2 * k + 1], env, &uf);
      const long double scale = std::fabs(v) + 1e-3L;
      const bool good = close(dv[2 * k], v, scale, 1e-12L) && close(dv[2 * k + 1] + scale, e + scale, scale, 1e-12L);
      std::printf("%s cv_%s %.17g -> %.17g %.3g\n", good ? "AGREE" : "AGREE-FAIL", nm[k], av, dv[2 * k], dv[2 * k + 1]);
    }
  }
  tr.write(argv[2]);
  return 0;
}

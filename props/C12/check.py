"""C12 -- quadrature and Runge-Kutta schemes achieve their stated order (and stop at the final time).
Engine S: GaussKronrodQuadrature and one step of RungeKutta2/4/42/54 are traced from /repo with an uninterpreted
integrand / right-hand side; the rule tables (exact dyadic doubles of the source, rational tableaux) are read off the
traces and Coq proves (a) that the traced terms ARE the rules of those tables for every function, (b) the moment / order
conditions by vm_compute on Q, hence exactness on polynomials with the Riemann integral as reference.
Engine H: Gallina models of the time loops (pinned and clamped variants); the variant that corresponds to /repo is
found by running the real loops on scripted acceptance sequences; the matching theorem file is compiled.
Engine H: Gallina model of the 4-argument GaussKronrodQuadrature::operator() (NaN / infinite / swapped bounds, bisection)
over an abstract float-like type, theorems for every instance; its binary64 instance (Coq primitive floats) is compared
bit for bit with the real overload on integrands given as data (gkop.py).
Engine S: the changes of variable of the unbounded ranges are traced (trace_cv.cxx) and proved to be the 15-point rule
applied to the documented transformed integrands, which Coq proves to be the substitution rule (Coquelicot)."""
import math, os, re, sys, threading
from concurrent.futures import ThreadPoolExecutor
from fractions import Fraction as F
from vlib import guarded_main
sys.path.insert(0, os.path.dirname(os.path.abspath(__file__)))
import gkop

SUPPORT = ["src/Exception/ContractViolation.cxx", "src/Math/MathException.cxx", "src/Exception/TFELException.cxx"]
ORDER = {"rk2": 2, "rk4": 4, "rk42": 4, "rk54": 5}
CANON_H = [0.3, 0.7, 0.25, 0.5, 1.0]


def fl(s):
    return float(s)


def poly_int(c, a, b):
    """exact integral over [a,b] of sum c_k x^k (all numbers taken as the exact doubles)"""
    A, B = F(a), F(b)
    return sum(F(ck) * (B ** (k + 1) - A ** (k + 1)) / (k + 1) for k, ck in enumerate(c))


def poly_scale(c, a, b):
    m = max(1.0, abs(a), abs(b))
    return abs(b - a) * sum(abs(ck) * m ** k for k, ck in enumerate(c))


def qlit(x):
    f = F(x)
    return "(%d # %d)" % (f.numerator, f.denominator)


def parse_q(s):
    s = s.strip()
    m = re.match(r"^\(?\s*(-?\d+)\s*(?:#\s*(\d+))?\s*\)?$", s)
    return F(int(m.group(1)), int(m.group(2) or 1))


def main(c):
    q = c.quick()
    seen_cat = {}
    raw_report = c.report

    def capped_report(key, what, replay=None, found_input=True):
        """at most 4 reports per category of failing input (scheme / kind): one defect shows on many seeded inputs"""
        cat = ":".join(key.split(":")[:2])
        seen_cat[cat] = seen_cat.get(cat, 0) + 1
        if seen_cat[cat] > 4 and not any(k.get("key") == key for k in c.known):
            return False
        return raw_report(key, what, replay, found_input)
    c.report = capped_report
    with ThreadPoolExecutor(max_workers=2) as ex:
        fb = [ex.submit(c.cxx, "trace_gk", ["trace_gk.cxx"], SUPPORT),
              ex.submit(c.cxx, "trace_rk", ["trace_rk.cxx"], SUPPORT, flags=["-DNDEBUG"]),
              # -ffp-contract=off: doubles = IEEE binary64 = Coq primitive floats (mode gkop is compared bit for bit)
              ex.submit(c.cxx, "driver", ["driver.cxx"], SUPPORT, flags=["-ffp-contract=off"]),
              # the changes of variable are private members: -fno-access-control
              ex.submit(c.cxx, "trace_cv", ["trace_cv.cxx"], SUPPORT, flags=["-fno-access-control"])]
        tgk, trk, drv, tcv = [f.result() for f in fb]
    cdir = os.path.join(c.work, "coq")
    os.makedirs(cdir, exist_ok=True)
    gen_gk, gen_rk, gen_cv = os.path.join(cdir, "C12_gk_gen.v"), os.path.join(cdir, "C12_rk_gen.v"), os.path.join(cdir, "C12_cv_gen.v")
    trace_ok, cv_ok = True, True
    tables = {}
    for exe, gen, what in ((tgk, gen_gk, "GaussKronrodQuadrature"), (trk, gen_rk, "RungeKutta2/4/42/54"),
                           (tcv, gen_cv, "GaussKronrodQuadrature changes of variable")):
        rc, out, err = c.run([exe, "gen", gen, str(c.seed)])
        for l in out.splitlines():
            if l.startswith("AGREE"):
                c.count(1)
                if l.startswith("AGREE-FAIL"):
                    c.report("agree:" + " ".join(l.split()[1:6]), "traced term and double instantiation disagree: " + l, {"line": l}, True)
            elif l.startswith("NODE"):
                t = l.split()
                tables.setdefault(t[1], []).append((float(t[2]), float(t[3])))
        if rc != 0 or "TRACE-FAIL" in out:
            if exe == tcv:
                cv_ok = False
            else:
                trace_ok = False
            msg = [l for l in out.splitlines() if l.startswith(("TRACE-FAIL", "TABLES"))]
            c.notes.append("tracer of %s failed: %s %s" % (what, msg, err[-300:]))
    c.trusted("engine S tracer (cxx/sym/sym.hxx: Sym arithmetic with double literals kept exact, path oracle, printer with exact dyadic constants), "
              "props/C12/ratx.hxx (exact rational evaluation used to read tables off the traces; the tables are re-validated by the Coq linking lemmas), "
              "g++ template instantiation with Sym (base_type<Sym> = double for the GK tracer)",
              "props/C12/trace_cv.cxx: wrappers SymQ (base type SymX) / SymX (base type double) of Sym that keep constant x double-literal "
              "operations symbolic (exact real arithmetic), private members reached with -fno-access-control; the pairing argument <-> node is "
              "re-proved by Coq (field) for every application of f",
              "agreement Sym trace vs double instantiation on seeded inputs (GK: 200, RK: 480, changes of variable: 180), relative 1e-13 / 1e-12")

    c.log("traced")
    # ---------------------------------------------------------------- Coq in parallel with the model runs
    # phase A: files everything else depends on; phase B: 3 workers -- generated files, proof groups, and one worker
    # for the two model evaluations (loop models on Q, 4-argument operator() on primitive floats)
    results = []
    rlock = threading.Lock()

    def coq(files, timeout=900):
        r = c.coq(files, timeout)
        with rlock:
            results.append((files, r))
        c.log("coq", [(f[0], f[2]) for f in r.files], "ok" if r.ok else "FAILED")
        return r
    ex = ThreadPoolExecutor(max_workers=3)
    fa = [ex.submit(coq, ["C12Model.v"]), ex.submit(coq, ["C12GKModel.v", "C12GKFloat.v"]), ex.submit(coq, ["C12Spec.v"])]
    f_gk = ex.submit(coq, [gen_gk]) if trace_ok else None
    f_rk = ex.submit(coq, [gen_rk]) if trace_ok else None
    f_cv = ex.submit(coq, ["C12CV.v"] + ([gen_cv] if cv_ok else []))
    # ---------------------------------------------------------------- loops: which model corresponds to /repo?
    nloops = c.pick(60, 400)
    rc, out, err = c.run([drv, "loops", str(c.seed), str(nloops)])
    if rc != 0:
        c.report("driver:loops", "driver failed: " + err[-400:], {"stderr": err[-2000:]}, False)
        return
    factors, loops, fixed = {}, [], []
    for l in out.splitlines():
        t = l.split()
        if t[0] == "FACTORS":
            factors[t[1]] = (fl(t[2]), fl(t[3]))
        elif t[0] == "LOOP":
            script = t[5][1:]
            res = None if t[7] == "exception" else (fl(t[7]), fl(t[8]), int(t[9]))
            loops.append((t[1], fl(t[2]), fl(t[3]), fl(t[4]), script, res))
        elif t[0] == "FIXED":
            fixed.append((t[1], fl(t[2]), fl(t[3]), fl(t[4]), fl(t[6])))
    cases = ["From Coq Require Import QArith List.\nFrom C12 Require Import C12Model.\nImport ListNotations.\n"
             "Definition qz (x : Q) := (Qnum x, Zpos (Qden x)).\n"
             "Definition showa (r : option (Q * Q * nat)) := match r with Some (a, b, n) => Some (qz a, qz b, n) | None => None end.\n"
             "Definition showf (r : option Q) := match r with Some a => Some (qz a) | None => None end.\n"]
    for (nm, ti, tf, dt0, script, res) in loops:
        fac, frj = factors[nm]
        orc = [(ch == "1") for ch in script] + [True] * 16
        ol = "[" + "; ".join("(%s, %s)" % ("true" if a else "false", qlit(fac if a else frj)) for a in orc) + "]"
        for cl in ("false", "true"):
            cases.append("Eval vm_compute in showa (adapt_iterate_Q %s %s %s %s %s)." % (cl, ol, qlit(ti), qlit(tf), qlit(dt0)))
    for (nm, b, e, h, r) in fixed:
        cases.append("Eval vm_compute in showf (fixed_exe_Q 400 %s %s %s)." % (qlit(h), qlit(b), qlit(e)))
        cases.append("Eval vm_compute in showf (fixedc_exe_Q 400 %s %s %s)." % (qlit(h), qlit(b), qlit(e)))
    # ---------------------------------------------------------------- 4-argument operator(): cases and real outputs
    gcases = gkop.gen_cases(c.rng, q)
    ginp = os.path.join(c.work, "gkop_cases.txt")
    with open(ginp, "w") as f:
        f.write("\n".join(cs.line() for cs in gcases) + "\n")
    rc, gout, err = c.run([drv, "gkop", ginp, "0"], timeout=900)
    gobs = gkop.parse_driver(gout) if rc == 0 else {}
    if rc != 0 or len(gobs) != len(gcases):
        c.report("driver:gkop", "driver gkop failed (rc=%d) or printed %d results for %d cases: %s" % (rc, len(gobs), len(gcases), err[-400:]),
                 {"stderr": err[-2000:]}, False)
        gobs = None
    gtables = (tables.get("K", []), tables.get("G", []))
    tables_ok = (len(gtables[0]) == 15 and len(gtables[1]) == 7 and
                 all(gtables[1][j][0] == gtables[0][2 * j + 1][0] for j in range(7)))
    if not tables_ok:
        c.notes.append("the tables read off the trace are not a 15-point rule with the 7 Gauss nodes at its odd positions: "
                       "the binary64 model of the rule does not apply (sizes %d, %d)" % (len(gtables[0]), len(gtables[1])))

    def model_job():
        """both model evaluations, one after the other (coq_eval names its file after the directory size)"""
        r1 = c.coq_eval([], "\n".join(cases))
        c.log("loop models evaluated")
        r2 = None
        if gobs is not None and tables_ok:
            r2 = c.coq_eval([], gkop.coq_text(gtables, gcases), timeout=1200)
            c.log("binary64 model of the 4-argument operator() evaluated on %d cases" % len(gcases))
        return r1, r2
    mres, gres = None, None
    variant = {}
    nadapt = nfixed = 0
    base_ok = all(f.result().ok for f in fa)
    if not base_ok:
        ex.shutdown()
    else:
        with ex:
            fm = ex.submit(model_job)
            later = []
            if trace_ok and f_gk.result().ok and f_rk.result().ok:
                later.append(ex.submit(coq, ["C12Proofs.v", "Properties_C12.v"]))
                if cv_ok and f_cv.result().ok:
                    later.append(ex.submit(coq, ["C12CVLink.v", "Properties_C12_cv.v"]))
            f_gp = ex.submit(coq, ["C12GKProofs.v", "Properties_C12_gkop.v"])
            mres, gres = fm.result()
            rc, mout, merr = mres
            if rc != 0:
                raise RuntimeError("model evaluation failed: " + merr[-2000:])
            vals = [v.strip() for v in re.split(r"^\s*=\s", mout, flags=re.M)[1:]]
            vals = [re.sub(r"\s*:\s*option.*$", "", v, flags=re.S).strip() for v in vals]

            def close(a, b, s):
                return abs(a - b) <= 1e-12 * max(1.0, abs(s), abs(a), abs(b))

            def ints(v):
                return [int(x) for x in re.findall(r"-?\d+", v)]

            def parse_adapt(v):
                if v.startswith("None"):
                    return None
                n = ints(v)
                return (float(F(n[0], n[1])), float(F(n[2], n[3])), n[4])

            def parse_fixed(v):
                if v.startswith("None"):
                    return None
                n = ints(v)
                return float(F(n[0], n[1]))
            k = 0
            match = {"adapt": {"false": 0, "true": 0}, "fixed": {"false": 0, "true": 0}}
            mismatch = {"adapt": {"false": [], "true": []}, "fixed": {"false": [], "true": []}}
            nadapt = 0
            for (nm, ti, tf, dt0, script, res) in loops:
                for cl in ("false", "true"):
                    mv = parse_adapt(vals[k]); k += 1
                    ok = (mv is None and res is None) or (mv is not None and res is not None and close(mv[0], res[0], tf) and close(mv[1], res[1], tf) and mv[2] == res[2])
                    if ok:
                        match["adapt"][cl] += 1
                    else:
                        mismatch["adapt"][cl].append((nm, ti, tf, dt0, script, res, mv))
                nadapt += 1
                c.count(1, ("loop", nm, ti, tf, dt0, script), len(script) > 0)
            nfixed = 0
            for (nm, b, e, h, r) in fixed:
                for cl in ("false", "true"):
                    mv = parse_fixed(vals[k]); k += 1
                    if mv is not None and close(mv, r, e):
                        match["fixed"][cl] += 1
                    else:
                        mismatch["fixed"][cl].append((nm, b, e, h, r, mv))
                nfixed += 1
                c.count(1, ("fixed", nm, b, e, h), True)
            variant = {}
            for fam, n in (("adapt", nadapt), ("fixed", nfixed)):
                # discriminating cases exist in every run (both models differ on them)
                if match[fam]["false"] == n and match[fam]["true"] < n:
                    variant[fam] = "pinned"
                elif match[fam]["true"] == n and match[fam]["false"] < n:
                    variant[fam] = "clamped"
                elif match[fam]["true"] == n and match[fam]["false"] == n:
                    variant[fam] = "clamped"  # indistinguishable on this sample: the property is then decided by execution below
                    c.notes.append("%s: both loop models agree with the code on this sample" % fam)
                else:
                    variant[fam] = None
                    best = min(("false", "true"), key=lambda cl: len(mismatch[fam][cl]))
                    mm = mismatch[fam][best][0]
                    c.report("loopmodel:%s:%s" % (fam, ":".join(str(x) for x in mm[:5])),
                             "time loop of %s follows neither the pinned nor the clamped model: input %s, code -> %s, nearest model (%s) -> %s" % (
                                 mm[0], mm[1:5], mm[-2], "clamped" if best == "true" else "pinned", mm[-1]),
                             {"family": fam, "scheme": mm[0], "input": mm[1:5], "code": mm[-2], "model": mm[-1], "how": "props/C12/driver.cxx loops"}, True)
            c.coverage["loop_models"] = {"adaptive": variant.get("adapt"), "fixed_step": variant.get("fixed"),
                                         "cases": {"adaptive": nadapt, "fixed_step": nfixed}}
            c.trusted("hand-written Gallina models of the time loops (C12Model.v) -- tied to /repo by differential execution on scripted "
                      "acceptance/rejection sequences (exact on Q vs double, 1e-12)")

            c.log("loop models:", variant)
            loopfiles = ["C12LoopProofs.v",
                         "Properties_C12_fixed_exact.v" if variant.get("fixed") == "clamped" else "Properties_C12_fixed_refuted.v",
                         "Properties_C12_adapt_exact.v" if variant.get("adapt") == "clamped" else "Properties_C12_adapt_refuted.v"]
            later.append(ex.submit(coq, loopfiles))
            for f in later + [f_gp]:
                f.result()
    c.coverage["checker_cmd"] = ("coqc -Q coq/lib VLib -R <scratch> C12 <files> (Coq 8.16.1, full .vo compilation), files: " +
                                 " ".join(os.path.basename(f) for (fs, r) in results for f in fs))
    failed_res = [r for (fs, r) in results if not r.ok]
    c.log("coq done", [(f[0], f[1], f[2]) for (fs, r) in results for f in r.files])
    # ---------------------------------------------------------------- the real code against the property itself
    ngk = c.pick(160, 1500)
    rc, out, err = c.run([drv, "gk", str(c.seed), str(ngk)])
    if rc != 0:
        c.report("driver:gk", "driver failed: " + err[-400:], {"stderr": err[-2000:]}, False)
        return
    prev = None
    worst = {}
    for l in out.splitlines():
        t = l.split()
        if t[0] in ("GKPOLY", "GKMONO"):
            n = int(t[1]); a, b = fl(t[2]), fl(t[3])
            cs = [fl(x) for x in t[5:5 + n]]
            val, est = fl(t[6 + n]), fl(t[7 + n])
            exact = float(poly_int(cs, a, b))
            scale = poly_scale(cs, a, b)
            deg = n - 1
            c.count(1, (t[0], deg, a, b), deg > 0)
            if t[0] == "GKMONO" and deg > 22:
                continue  # beyond the stated degree: used only when looking for the degree of a broken rule
            bad = None
            if not abs(val - exact) <= 3e-14 * scale + 1e-300:
                bad = "value %.17g, exact integral %.17g (difference %.3g, allowed %.3g)" % (val, exact, val - exact, 3e-14 * scale)
            elif deg <= 13 and not est <= 3e-14 * scale + 1e-300:
                bad = "error estimate %.3g does not vanish for degree %d (allowed %.3g)" % (est, deg, 3e-14 * scale)
            elif prev is not None and prev[0] == (b, a, tuple(cs)) and not (val == -prev[1] and est == prev[2]):
                bad = "bounds exchanged: %.17g vs %.17g (estimates %.3g, %.3g): not opposite" % (val, prev[1], est, prev[2])
            prev = ((a, b, tuple(cs)), val, est)
            if bad:
                key = ("gk:mono:%d:%g:%g" % (deg, a, b)) if t[0] == "GKMONO" else ("gk:poly:%d:%.17g:%.17g:%.17g" % (deg, a, b, cs[0]))
                sev = abs(val - exact) / (scale + 1e-300)
                if t[0] == "GKMONO":
                    worst[key] = (sev, deg, a, b, cs, val, est, exact, bad)
                else:
                    c.report(key, "gauss_kronrod_integrate of the polynomial %s (degree %d) on [%.17g, %.17g]: %s" % (cs, deg, a, b, bad),
                             {"coefficients_low_first": cs, "a": a, "b": b, "value": val, "estimate": est, "exact": exact, "how": "props/C12/driver.cxx gk"}, True)
            elif len(c.coverage["samples"]) < 3 and t[0] == "GKPOLY":
                c.sample({"gk_poly_degree": deg, "a": a, "b": b, "value": val, "exact": exact, "estimate": est})
        elif t[0] == "GKNAN":
            c.count(1, "nan", True)
            if t[1] != "0" or t[2] != "0":
                c.report("gk:nan", "gauss_kronrod_integrate returns a value for a NaN bound", {"line": l}, True)
        elif t[0] == "GKTOL":
            fid, a, b, tol = int(t[1]), fl(t[2]), fl(t[3]), fl(t[4])
            big = 1e308
            isinf = lambda x: abs(x) > big
            got = None if t[7] == "none" else fl(t[7])
            def prim(fid, x):
                if fid == 0: return math.exp(x)
                if fid == 1: return -math.cos(3 * x) / 3
                if fid == 2 or fid == 5: return math.pi / 2 if x > big else (-math.pi / 2 if x < -big else math.atan(x))
                if fid == 3: return -math.exp(-x * x) / 2
                if fid == 4: return 0.0 if x > big else -math.exp(-x)
                return (math.sqrt(math.pi) / 2) * (1.0 if x > big else (-1.0 if x < -big else math.erf(x)))
            c.count(1, ("tol", fid, a, b), True)
            if isinf(a) and isinf(b) and (a > 0) == (b > 0):
                if got is not None:
                    c.report("gk:tol:%d:%g:%g" % (fid, a, b), "integral between two infinities of the same sign returns %r" % got, {"line": l}, True)
                continue
            exact = prim(fid, b) - prim(fid, a)
            if got is None or not abs(got - exact) <= 1e-9 * max(1.0, abs(exact)):
                c.report("gk:tol:%d:%.17g:%.17g" % (fid, a, b),
                         "gauss_kronrod_integrate(f%d, %.17g, %.17g, tol=%g, 14 refinements) = %r, exact %.17g" % (fid, a, b, tol, got, exact),
                         {"integrand_id": fid, "a": a, "b": b, "got": got, "exact": exact, "how": "props/C12/driver.cxx gk"}, True)
        elif t[0] == "GKCV":
            # 3-argument overload on an unbounded range = post-factor x (rule of the traced tables on [-1,1]) of the
            # documented transformed integrand (theorems C12_cv_*_is_the_rule...), with f = 1/(1+x^2)
            kind, av = t[1], fl(t[2])
            c.count(1, ("cv", kind, av), True)
            if t[4] == "none" or len(tables.get("K", [])) != 15 or len(tables.get("G", [])) != 7:
                if t[4] == "none":
                    c.report("gk:cv:%s:%g" % (kind, av), "3-argument gauss_kronrod_integrate returns no value on an unbounded range (%s, finite bound %g)" % (kind, av), {"line": l}, True)
                continue
            val, est = fl(t[4]), fl(t[5])
            f5 = lambda x: 1 / (1 + x * x)
            base = kind.replace("swap", "")
            if base == "right":
                u = lambda tt: f5(av + (2 / (tt + 1) - 1)) / (tt + 1) ** 2
            elif base == "left":
                u = lambda tt: f5(av - (2 / (tt + 1) - 1)) / (tt + 1) ** 2
            else:
                u = lambda tt: f5(tt / (1 - tt * tt)) * (1 + tt * tt) / (1 - tt * tt) ** 2
            k15 = 2 * sum(w * u(-1 + 2 * d) for (d, w) in tables["K"])
            g7 = 2 * sum(w * u(-1 + 2 * d) for (d, w) in tables["G"])
            post = 1 if base == "line" else 2
            want = post * k15 * (-1 if kind.endswith("swap") else 1)
            if not (abs(val - want) <= 1e-12 * max(1.0, abs(want)) and abs(est - abs(k15 - g7)) <= 1e-12):
                c.report("gk:cv:%s:%g" % (kind, av),
                         "3-argument gauss_kronrod_integrate(1/(1+x^2)) on the unbounded range '%s' with finite bound %g returns (%.17g, %.3g); "
                         "%d x the rule of the traced tables applied to the documented change of variable gives (%.17g, %.3g)" % (
                             kind, av, val, est, post, want, abs(k15 - g7)),
                         {"kind": kind, "finite_bound": av, "value": val, "estimate": est, "expected_value": want, "expected_estimate": abs(k15 - g7),
                          "how": "props/C12/driver.cxx gk"}, True)
    if worst:
        # a broken rule: report the lowest-degree monomial it gets wrong and the worst one
        low = min(worst.values(), key=lambda w: (w[1], -w[0]))
        for w in {id(low): low, id(max(worst.values(), key=lambda w: w[0])): max(worst.values(), key=lambda w: w[0])}.values():
            c.report("gk:mono:%d:%g:%g" % (w[1], w[2], w[3]), "gauss_kronrod_integrate of x^%d on [%g, %g]: %s" % (w[1], w[2], w[3], w[8]),
                     {"monomial_degree": w[1], "a": w[2], "b": w[3], "value": w[5], "estimate": w[6], "exact": w[7], "how": "props/C12/driver.cxx gk"}, True)
    nrk = c.pick(240, 3000)
    rc, out, err = c.run([drv, "rk", str(c.seed), str(nrk)])
    if rc != 0:
        c.report("driver:rk", "driver failed: " + err[-400:], {"stderr": err[-2000:]}, False)
        return
    short = {"fixed": 0, "adapt": 0}
    for l in out.splitlines():
        t = l.split()
        tag, nm = t[0], t[1]
        ti, tf, h, eps, y0 = fl(t[2]), fl(t[3]), fl(t[4]), fl(t[5]), fl(t[6])
        i = t.index("->")
        cs = [fl(x) for x in t[8:i]]
        fam = "fixed" if nm in ("rk2", "rk4") else "adapt"
        c.count(1, (tag, nm, ti, tf, h, tuple(cs)), len(cs) > 1)
        if t[i + 1] == "exception":
            c.report("rk:exc:%s:%g:%g:%g" % (nm, ti, tf, h), "%s raised an exception on %s" % (nm, l), {"line": l}, True)
            continue
        y, cov, tend = fl(t[i + 1]), fl(t[i + 2]), fl(t[i + 3])
        span = max(1.0, abs(ti), abs(tf), abs(tend))
        # (1) exactness: whatever time was reached, y is the exact solution there (fixed step: the time the integrator
        # reports; adaptive: the time covered, measured by the second component y2' = 1)
        reached = tend if fam == "fixed" else ti + cov
        exact = y0 + float(poly_int(cs, ti, reached))
        scale = abs(y0) + poly_scale(cs, ti, reached) + 1.0
        if not abs(y - exact) <= 1e-10 * scale:
            c.report("rk:poly:%s:%d:%.17g:%.17g:%.17g" % (nm, len(cs) - 1, ti, tf, h),
                     "%s on y' = p(t), p = %s (degree %d < order %d), from %.17g (y0 = %.17g): y(%.17g) = %.17g, exact %.17g" % (
                         nm, cs, len(cs) - 1, ORDER[nm], ti, y0, reached, y, exact),
                     {"scheme": nm, "coefficients_low_first": cs, "ti": ti, "tf": tf, "h": h, "eps": eps, "y0": y0, "y": y, "time_reached": reached,
                      "exact": exact, "how": "props/C12/driver.cxx rk"}, True)
        # (2) final time
        at_end = abs(reached - tf) <= 1e-12 * span
        if tag == "RKFINAL":
            if round(h, 6) in CANON_H and not at_end:
                c.report("final-time:%s:%g" % (nm, h),
                         "%s on y' = 1 over [0,1] with %s %g stops at t = %.17g (y = %.17g), not at the final time 1" % (
                             nm, "step" if fam == "fixed" else "initial increment", h, tend, y),
                         {"scheme": nm, "ti": ti, "tf": tf, "h": h, "time_reached": tend, "y": y, "how": "props/C12/driver.cxx rk"}, True)
            elif len(c.coverage["samples"]) < 6:
                c.sample({"scheme": nm, "ti": ti, "tf": tf, "h": h, "time_reached": tend})
        elif not at_end:
            if tag == "RKPOLY" and fam == "fixed":
                # h divides the range exactly: must end at tf in any variant
                c.report("final-time:%s:%.17g:%.17g:%.17g" % (nm, ti, tf, h), "%s with h = %g dividing [%g, %g] exactly stops at %.17g" % (nm, h, ti, tf, tend),
                         {"scheme": nm, "ti": ti, "tf": tf, "h": h, "time_reached": tend}, True)
            elif variant.get(fam) == "pinned":
                short[fam] += 1  # manifestation of the reported finding (the pinned loop model corresponds and is proved to stop short)
            else:
                c.report("final-time:%s:%.17g:%.17g:%.17g" % (nm, ti, tf, h),
                         "%s from %.17g to %.17g with %s %.17g stops at %.17g" % (nm, ti, tf, "step" if fam == "fixed" else "initial increment", h, tend),
                         {"scheme": nm, "ti": ti, "tf": tf, "h": h, "eps": eps, "time_reached": tend, "how": "props/C12/driver.cxx rk"}, True)
    if short["fixed"] or short["adapt"]:
        c.notes.append("runs that stop away from the final time under the pinned loops (same defect as the listed findings): %s" % short)
    # ---------------------------------------------------------------- 4-argument operator(): property on the real outputs, then model vs code
    ngk4 = 0
    if gobs is not None:
        nsome = sum(1 for o in gobs.values() if o[0])
        nnan = sum(1 for o in gobs.values() if o[0] and o[1] != o[1])
        for cs in gcases:
            o = gobs[cs.id]
            c.count(1, ("gkop", cs.id), o[2] > 15)
            for (key, what) in gkop.spec_check(cs, o, gobs):
                c.report(key, "4-argument gauss_kronrod_integrate: " + what, cs.json(), True)
        c.coverage["gkop"] = {"cases": len(gcases), "returned_a_value": nsome, "returned_NaN_as_value": nnan,
                              "rule_evaluations": sum(o[2] for o in gobs.values()) // 15}
        if gres is not None:
            rc, gmout, gmerr = gres
            mvals = gkop.parse_coq(gmout) if rc == 0 else []
            if rc != 0 or len(mvals) != len(gcases):
                c.report("gkop:model-run", "evaluation of the binary64 model failed (rc=%d, %d results for %d cases): %s" % (rc, len(mvals), len(gcases), gmerr[-500:]),
                         {"stderr": gmerr[-2000:]}, False)
            else:
                hard, soft = [], []
                for cs, m in zip(gcases, mvals):
                    o = gobs[cs.id]
                    ngk4 += 1
                    if m is not None and m[0] == o[0] and (not o[0] or gkop.bits(m[1]) == gkop.bits(o[1])) and m[2] * 15 == o[2]:
                        if ngk4 % 97 == 5:
                            c.sample({"gkop_case": cs.id, "a": repr(cs.a), "b": repr(cs.b), "tolerance": repr(cs.tol), "max_refinements": cs.m,
                                      "result": None if not o[0] else gkop.hx(o[1]), "rule_evaluations": o[2] // 15})
                        continue
                    near = (m is not None and m[0] == o[0] and m[2] * 15 == o[2] and o[0] and m[1] == m[1] and o[1] == o[1] and
                            abs(m[1] - o[1]) <= 1e-13 * max(abs(m[1]), abs(o[1]), 1e-300))
                    (soft if near else hard).append((cs, m, o))
                if hard:
                    # the most telling input first: a different value, then a different verdict, then a different number of evaluations
                    hard.sort(key=lambda h: 3 if h[1] is None else (0 if (h[1][0] and h[2][0]) and gkop.bits(h[1][1]) != gkop.bits(h[2][1]) else (1 if h[1][0] != h[2][0] else 2)))
                    cs, m, o = hard[0]
                    c.report("gkop:model:" + cs.id,
                             "4-argument gauss_kronrod_integrate deviates from the proved model on %d/%d inputs; first: a = %r, b = %r, tolerance %r, "
                             "maximum_number_of_refinements %d, integrand %s: the code returns %s after %d rule evaluations, the model (theorems "
                             "C12_gkop_*: leaf accepted iff NOT estimate > tolerance/2^depth, value = sum of the leaves, 2 x for half-unbounded ranges) "
                             "returns %s after %s" % (len(hard), len(gcases), cs.a, cs.b, cs.tol, cs.m, cs.json()["integrand"] + " p=%s q=%s" % (cs.p, cs.q),
                                                      "no value" if not o[0] else "%r (%s)" % (o[1], gkop.hx(o[1])), o[2] // 15,
                                                      None if m is None else ("no value" if not m[0] else "%r (%s)" % (m[1], gkop.hx(m[1]))), None if m is None else m[2]),
                             cs.json(), True)
                elif soft:
                    c.notes.append("4-argument operator(): %d/%d outputs agree with the binary64 model to 1e-13 but not bit for bit (same verdict, same "
                                   "number of rule evaluations): the operation order of the rule differs from the model's" % (len(soft), len(gcases)))
    c.trusted("hand-written Gallina model of the 4-argument GaussKronrodQuadrature::operator() (coq/C12GKModel.v) and its binary64 instance "
              "(coq/C12GKFloat.v: operation order of the 15-point rule, std::midpoint of libstdc++ 12, the three changes of variable, Horner) -- tied to "
              "/repo by bit-for-bit comparison of verdict, value and number of rule evaluations on every case of the run",
              "g++ -O1 -ffp-contract=off doubles = IEEE binary64 = Coq primitive floats; every NaN is one value; -0.0 and +0.0 are distinguished",
              "props/C12/gkop.py (cases, parsers, independent Python statement of the property on the real outputs)")
    c.coverage["rule"] = ("GK: every degree 0..22 twice + seeded polynomials (random coefficients in [-2,2], intervals in [-3,3], dyadic, degenerate, scaled x40), "
                          "each with exchanged bounds; monomials on [0,1], [-1,1]; NaN bounds; 4 analytic integrands with tolerance 1e-10 and 3 on unbounded ranges "
                          "(inf and DBL_MAX); 3-argument overload on 25 unbounded ranges vs the traced rule of the change of variable. "
                          "4-argument operator() vs binary64 model: 14x14 grid of special bounds (NaN, +-inf, +-DBL_MAX, its neighbour, +-0, denormals, 1e200), "
                          "budgets 0..%d x 14 tolerances (0, denormal, 1e-300..1, 1e300, inf, NaN, negative) on 6 fixed integrands, seeded polynomials of degree "
                          "0..26, rational functions with poles outside / inside the range, integrands returning NaN on a sub-interval, unbounded ranges in both "
                          "encodings, huge finite ranges (overflow of b-a, slow paths of std::midpoint), each seeded case with exchanged bounds; non-trivial = more "
                          "than one rule evaluation. "
                          "RK: y' = p(t), deg p < order, seeded; fixed step with h dividing / not dividing the range; adaptive with eps 1..1e-8; "
                          "canonical final-time cases y' = 1 on [0,1]. Loops: scripted accept/reject sequences on dyadic ranges vs both Gallina models." % c.pick(8, 12))
    c.coverage["traces_validated_against_impl"] = nadapt + nfixed + ngk4
    if failed_res:
        if any(v[3] for v in c.violations):
            c.notes.append("proof obligations failed: %s; concrete failing inputs reported" % [f[2] or f[3][:80] for r in failed_res for f in r.failed])
        else:
            for r in failed_res:
                c.coq_failures(r, None)
    extra = {k: n - 4 for k, n in seen_cat.items() if n > 4}
    if extra:
        c.notes.append("further failing inputs of the same categories not reported individually: %s" % extra)
    if not (trace_ok and cv_ok) and not c.violations:
        c.report("trace", "the tracers could not read a rule off /repo's code: " + "; ".join(c.notes)[-600:], {"notes": c.notes}, False)


guarded_main("C12", main)

(* C12 -- instance of the model of the 4-argument GaussKronrodQuadrature::operator() on Coq's primitive binary64
   floats (bit-exact IEEE under vm_compute), with the 15-point rule in the operation order of the C++ and the
   integrands of props/C12/driver.cxx (mode gkop) as data.  Definitions only.

   The rule tables are parameters: KT = the 15 (node, weight) pairs and GT = the 7 Gauss pairs read off the trace of
   /repo's code on every run (nodes already mapped to [0,1]: d_k = (x_k + 1) / 2, weights already halved: w_k / 2;
   both are computed in double by the C++ before anything else, so they are exactly the doubles of the tables). *)
From Coq Require Import Floats List ZArith Bool.
From C12 Require Import C12GKModel.
Import ListNotations.
Open Scope float_scope.

Definition fmax := 0x1.fffffffffffffp+1023.          (* numeric_limits<double>::max() *)
Definition fabs' (s : float) : float := if s <? 0 then - s else s.     (* tfel::math::abs: (s < 0) ? -s : s *)

(* std::midpoint<double> of libstdc++ 12 *)
Definition mid_lo := 0x1p-1021.                       (* numeric_limits<double>::min() * 2 *)
Definition mid_hi := 0x1.fffffffffffffp+1022.         (* numeric_limits<double>::max() / 2 *)
Definition fmidpoint (a b : float) : float :=
  let abs_a := if a <? 0 then - a else a in
  let abs_b := if b <? 0 then - b else b in
  if (abs_a <=? mid_hi) && (abs_b <=? mid_hi) then (a + b) / 2
  else if abs_a <? mid_lo then a + b / 2
  else if abs_b <? mid_lo then a / 2 + b
  else a / 2 + b / 2.

(* (... + (scale(w_i) * values[i])): left fold starting with the first product *)
Definition sumprod (h : float) (ws vs : list float) : float :=
  match ws, vs with
  | w :: ws', v :: vs' => fold_left (fun acc wv => acc + ((fst wv) * h) * (snd wv)) (combine ws' vs') ((w * h) * v)
  | _, _ => 0
  end.
Fixpoint odd_elems (l : list float) : list float :=
  match l with _ :: y :: r => y :: odd_elems r | _ => [] end.

(* integrate(f, a, b): shift(x) = ((x+1)/2)*(b-a)+a, scale(w) = (w/2)*(b-a), e = |k15 - g7| *)
Definition rule15 (KT GT : list (float * float)) (f : float -> float) (a b : float) : float * float :=
  let h := b - a in
  let values := map (fun nw => f ((fst nw) * h + a)) KT in
  let k15 := sumprod h (map snd KT) values in
  let g7 := sumprod h (map snd GT) (odd_elems values) in
  (k15, fabs' (k15 - g7)).

Definition fops : gkops float float float := {|
  is_nan := PrimFloat.is_nan;
  is_inf := fun x => is_infinity x || (fmax <=? x) || (x <=? - fmax);
  gt0 := fun x => 0 <? x;
  lt0 := fun x => x <? 0;
  gtb := fun a b => b <? a;
  midpoint := fmidpoint;
  half := fun t => t / 2;
  egt := fun e t => t <? e;
  vadd := PrimFloat.add;
  vneg := PrimFloat.opp;
  vtwice := fun v => 2 * v;
  m_one := -1; p_one := 1;
  u_right := fun f a t => let z := 1 / (t + 1) in let arg := (2 * z - 1) * 1 + a in f arg * z * z * 1;
  u_left := fun f b t => let z := 1 / (t + 1) in let arg := (2 * z - 1) * 1 in f (b - arg) * z * z * 1;
  u_line := fun f t => let t_sq := t * t in let inv := 1 / (1 - t_sq) in
                       let w := (1 + t_sq) * inv * inv in let arg := t * inv in f (arg * 1) * w * 1
|}.

(* integrands as data (same format and same operation order as props/C12/driver.cxx):
   f(x) = NaN if c <= x <= d, else horner(p, x) / horner(q, x);  horner: r = 0; for i = n-1..0: r = r * x + c_i *)
Definition horner (cs : list float) (x : float) : float := fold_right (fun c acc => acc * x + c) 0 cs.
Definition integrand (p q : list float) (c d : float) (x : float) : float :=
  if (c <=? x) && (x <=? d) then nan else horner p x / horner q x.

Definition case := (nat * float * float * float * list float * list float * float * float)%type.
Definition run1 (KT GT : list (float * float)) (cs : case) : bool * float * Z :=
  let '(m, tol, a, b, p, q, c, d) := cs in
  let f := integrand p q c d in
  let n := Z.of_nat (gk4_evals fops (rule15 KT GT) m f a b tol) in
  match gk4 fops (rule15 KT GT) m f a b tol with
  | Some v => (true, v, n)
  | None => (false, 0, n)
  end.

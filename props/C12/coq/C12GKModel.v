(* C12 -- hand-written executable model (engine H, definitions only) of the control flow of the 4-argument overload
     GaussKronrodQuadrature::operator()(f, a, b, {absolute_tolerance, maximum_number_of_refinements})
   and of the private integrate(f, a, b, params) (include/TFEL/Math/NumericalIntegration/GaussKronrodQuadrature.ixx).

   The scalar type F (bounds, tolerance), the value type V and the type E of the error estimate are abstract: a record
   of operations with NO law attached, so every theorem of C12GKProofs.v that does not state a law as a hypothesis
   holds for every rounding, overflow and NaN behaviour.  The 15-point rule `integrate(f,a,b)` (3 arguments) is a
   parameter `rule`; the three transformed integrands of the unbounded branches are fields of the record.
   The same definitions are executed on Coq's primitive binary64 floats (C12GKFloat.v) for the tie to the C++. *)
From Coq Require Import List Bool.
Import ListNotations.

Record gkops (F V E : Type) := {
  is_nan : F -> bool;                 (* ieee754::isnan *)
  is_inf : F -> bool;                 (* the `is_infinite` lambda of the 4-argument overload:
                                         fpclassify == FP_INFINITE || x >= max() || x <= -max() *)
  gt0 : F -> bool;                    (* x > zero *)
  lt0 : F -> bool;                    (* x < zero *)
  gtb : F -> F -> bool;               (* a > b *)
  midpoint : F -> F -> F;             (* std::midpoint *)
  half : F -> F;                      (* params.absolute_tolerance / 2 *)
  egt : E -> F -> bool;               (* e > params.absolute_tolerance *)
  vadd : V -> V -> V;                 (* *oi1 + *oi2 *)
  vneg : V -> V;                      (* -( *ores) *)
  vtwice : V -> V;                    (* 2 * ( *ores) *)
  m_one : F; p_one : F;               (* base_type<real>{-1}, base_type<real>{1} *)
  u_right : (F -> V) -> F -> F -> V;  (* the lambda u of computeRightUnboundedIntegral(f, a, params) *)
  u_left : (F -> V) -> F -> F -> V;   (* the lambda u of computeLeftUnboundedIntegral(f, b, params) *)
  u_line : (F -> V) -> F -> V         (* the lambda u of computeUnboundedIntegral(f, params) *)
}.
Arguments is_nan {F V E}. Arguments is_inf {F V E}. Arguments gt0 {F V E}. Arguments lt0 {F V E}.
Arguments gtb {F V E}. Arguments midpoint {F V E}. Arguments half {F V E}. Arguments egt {F V E}.
Arguments vadd {F V E}. Arguments vneg {F V E}. Arguments vtwice {F V E}. Arguments m_one {F V E}.
Arguments p_one {F V E}. Arguments u_right {F V E}. Arguments u_left {F V E}. Arguments u_line {F V E}.

Section GK.
  Context {F V E : Type} (o : gkops F V E).
  Variable rule : (F -> V) -> F -> F -> V * E.   (* integrate(f, a, b): 15-point Kronrod value, |K15 - G7| *)

  (* integrate(f, a, b, params); m = params.maximum_number_of_refinements, tol = params.absolute_tolerance.
     Both recursive calls are made before either result is inspected (as in the C++). *)
  Fixpoint integrate (m : nat) (f : F -> V) (a b tol : F) : option V :=
    match m with
    | O => None
    | S n =>
        let '(i, e) := rule f a b in
        if o.(egt) e tol then
          let c := o.(midpoint) a b in
          let oi1 := integrate n f a c (o.(half) tol) in
          let oi2 := integrate n f c b (o.(half) tol) in
          match oi1, oi2 with
          | Some i1, Some i2 => Some (o.(vadd) i1 i2)
          | _, _ => None
          end
        else Some i
    end.

  (* number of evaluations of the 15-point rule made by integrate *)
  Fixpoint evals (m : nat) (f : F -> V) (a b tol : F) : nat :=
    match m with
    | O => O
    | S n =>
        if o.(egt) (snd (rule f a b)) tol then
          let c := o.(midpoint) a b in
          S (evals n f a c (o.(half) tol) + evals n f c b (o.(half) tol))
        else 1
    end.

  Definition change_sign (r : option V) : option V := option_map o.(vneg) r.

  Definition unbounded (m : nat) (f : F -> V) (tol : F) : option V :=
    integrate m (o.(u_line) f) o.(m_one) o.(p_one) tol.
  Definition left_unbounded (m : nat) (f : F -> V) (b tol : F) : option V :=
    option_map o.(vtwice) (integrate m (o.(u_left) f b) o.(m_one) o.(p_one) tol).
  Definition right_unbounded (m : nat) (f : F -> V) (a tol : F) : option V :=
    option_map o.(vtwice) (integrate m (o.(u_right) f a) o.(m_one) o.(p_one) tol).

  (* operator()(f, a, b, params) *)
  Definition gk4 (m : nat) (f : F -> V) (a b tol : F) : option V :=
    if o.(is_nan) a || o.(is_nan) b then None
    else if o.(is_inf) a then
      if o.(is_inf) b then
        if (o.(gt0) a && o.(gt0) b) || (o.(lt0) a && o.(lt0) b) then None
        else if o.(lt0) b then change_sign (unbounded m f tol)
        else unbounded m f tol
      else if o.(gt0) a then change_sign (right_unbounded m f b tol)
      else left_unbounded m f b tol
    else if o.(is_inf) b then
      if o.(lt0) b then change_sign (left_unbounded m f a tol)
      else right_unbounded m f a tol
    else if o.(gtb) a b then option_map o.(vneg) (integrate m f b a tol)
    else integrate m f a b tol.

  (* evaluations of the rule made by gk4 (same branches) *)
  Definition gk4_evals (m : nat) (f : F -> V) (a b tol : F) : nat :=
    if o.(is_nan) a || o.(is_nan) b then O
    else if o.(is_inf) a then
      if o.(is_inf) b then
        if (o.(gt0) a && o.(gt0) b) || (o.(lt0) a && o.(lt0) b) then O
        else evals m (o.(u_line) f) o.(m_one) o.(p_one) tol
      else if o.(gt0) a then evals m (o.(u_right) f b) o.(m_one) o.(p_one) tol
      else evals m (o.(u_left) f b) o.(m_one) o.(p_one) tol
    else if o.(is_inf) b then
      if o.(lt0) b then evals m (o.(u_left) f a) o.(m_one) o.(p_one) tol
      else evals m (o.(u_right) f a) o.(m_one) o.(p_one) tol
    else if o.(gtb) a b then evals m f b a tol
    else evals m f a b tol.

  (* ---- the recursion tree of a successful run: accepted leaves and splits *)
  Record leaf := { lo : F; hi : F; share : F; depth : nat; val : V; est : E }.
  Inductive tree := Leaf (l : leaf) | Node (l r : tree).

  Fixpoint value (t : tree) : V :=
    match t with Leaf l => l.(val) | Node l r => o.(vadd) (value l) (value r) end.
  Fixpoint leaves (t : tree) : list leaf :=
    match t with Leaf l => [l] | Node l r => leaves l ++ leaves r end.
  Fixpoint size (t : tree) : nat :=            (* rule evaluations: one per leaf and one per split *)
    match t with Leaf _ => 1 | Node l r => S (size l + size r) end.

  (* t is exactly the recursion tree of integrate on [a,b] with tolerance tol, started at depth d *)
  Inductive is_run (f : F -> V) : F -> F -> F -> nat -> tree -> Prop :=
  | run_leaf a b tol d i e :
      rule f a b = (i, e) -> o.(egt) e tol = false ->
      is_run f a b tol d (Leaf {| lo := a; hi := b; share := tol; depth := d; val := i; est := e |})
  | run_node a b tol d l r :
      o.(egt) (snd (rule f a b)) tol = true ->
      is_run f a (o.(midpoint) a b) (o.(half) tol) (S d) l ->
      is_run f (o.(midpoint) a b) b (o.(half) tol) (S d) r ->
      is_run f a b tol d (Node l r).

  (* consecutive leaves share an endpoint, the first starts at a, the last ends at b *)
  Fixpoint chain (a b : F) (ls : list leaf) : Prop :=
    match ls with
    | [] => False
    | [l] => l.(lo) = a /\ l.(hi) = b
    | l :: ls' => l.(lo) = a /\ chain l.(hi) b ls'
    end.

  Fixpoint iter_half (d : nat) (tol : F) : F :=
    match d with O => tol | S k => iter_half k (o.(half) tol) end.
End GK.

Arguments leaf : clear implicits. Arguments tree : clear implicits.
Arguments lo {F V E}. Arguments hi {F V E}. Arguments share {F V E}. Arguments depth {F V E}.
Arguments val {F V E}. Arguments est {F V E}.

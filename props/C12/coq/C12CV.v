(* C12 -- the changes of variable of GaussKronrodQuadrature for unbounded ranges, as real functions, and the
   substitution rule for each of them (Coquelicot's Riemann integral).  Hand-written, independent of the code; that
   the code evaluates exactly these transformed integrands is proved in C12CVLink.v against the traced terms.

   right-unbounded  [a, +oo):  x = a + (2/(t+1) - 1),   dx = -2/(t+1)^2 dt,  t from 1 (x = a) down to -1 (x -> +oo)
   left-unbounded   (-oo, b]:  x = b - (2/(t+1) - 1),   dx =  2/(t+1)^2 dt,  t from -1 (x -> -oo) up to 1 (x = b)
   whole line:                 x = t/(1-t^2),           dx = (1+t^2)/(1-t^2)^2 dt, t in (-1, 1)
   The code integrates u on [-1,1] and multiplies by 2 in the two half-unbounded cases. *)
From Coquelicot Require Import Coquelicot.
From Coq Require Import Reals Lra Psatz.
Local Open Scope R_scope.

Definition arg_right (a t : R) : R := a + (2 * / (t + 1) - 1).
Definition arg_left (b t : R) : R := b - (2 * / (t + 1) - 1).
Definition arg_line (t : R) : R := t * / (1 - t * t).

Definition u_right (f : R -> R) (a t : R) : R := f (arg_right a t) * (/ (t + 1) * / (t + 1)).
Definition u_left (f : R -> R) (b t : R) : R := f (arg_left b t) * (/ (t + 1) * / (t + 1)).
Definition u_line (f : R -> R) (t : R) : R := f (arg_line t) * ((1 + t * t) * / (1 - t * t) * / (1 - t * t)).

(* the point of [-1,1] that is mapped to distance L from the finite bound *)
Definition s_of (L : R) : R := 2 / (L + 1) - 1.

Lemma s_of_range L : 0 < L -> -1 < s_of L < 1.
Proof.
  intros HL. unfold s_of. assert (H1 : 0 < / (L + 1)) by (apply Rinv_0_lt_compat; lra).
  assert (H2 : (L + 1) * / (L + 1) = 1) by (apply Rinv_r; lra).
  unfold Rdiv. nra.
Qed.

Lemma arg_right_ends a L : 0 < L -> arg_right a 1 = a /\ arg_right a (s_of L) = a + L.
Proof. intros HL. unfold arg_right, s_of. split; field; lra. Qed.
Lemma arg_left_ends b L : 0 < L -> arg_left b 1 = b /\ arg_left b (s_of L) = b - L.
Proof. intros HL. unfold arg_left, s_of. split; field; lra. Qed.

(* for s <= t <= 1, s = s_of L: 0 <= 2/(t+1) - 1 <= L *)
Lemma half_range L t : 0 < L -> s_of L <= t <= 1 -> 0 < t + 1 /\ 0 <= 2 * / (t + 1) - 1 <= L.
Proof.
  intros HL [H1 H2]. pose proof (s_of_range L HL) as [Hs _].
  assert (Ht : 0 < t + 1) by lra. split; [exact Ht|].
  assert (Hi : 0 < / (t + 1)) by (apply Rinv_0_lt_compat; exact Ht).
  assert (Hm : (t + 1) * / (t + 1) = 1) by (apply Rinv_r; lra).
  assert (Hi2 : 0 < / (L + 1)) by (apply Rinv_0_lt_compat; lra).
  assert (Hm2 : (L + 1) * / (L + 1) = 1) by (apply Rinv_r; lra).
  unfold s_of, Rdiv in H1. split; nra.
Qed.

Lemma dg_continuous (c t : R) : 0 < t + 1 -> continuous (fun y => c / ((y + 1) * (y + 1))) t.
Proof.
  intros Ht. apply (ex_derive_continuous (fun y => c / ((y + 1) * (y + 1)))). auto_derive. nra.
Qed.

(* right-unbounded: for every truncation X > a, the integral of f over [a, X] is the integral of 2 u over [s, 1]
   (the improper integral over [a, +oo) is the limit X -> +oo, i.e. s -> -1+) *)
Theorem cv_right_substitution (f : R -> R) (a X : R) : a < X ->
  (forall x, a <= x <= X -> continuous f x) ->
  is_RInt (fun t => 2 * u_right f a t) (s_of (X - a)) 1 (RInt f a X).
Proof.
  intros HaX Hf. set (L := X - a). assert (HL : 0 < L) by (unfold L; lra).
  pose proof (s_of_range L HL) as [Hs1 Hs2].
  pose (g := arg_right a). pose (dg := fun t : R => (- 2) / ((t + 1) * (t + 1))).
  assert (H : is_RInt (fun y => scal (dg y) (f (g y))) 1 (s_of L) (RInt f (g 1) (g (s_of L)))).
  { apply (is_RInt_comp f g dg).
    - intros x Hx. rewrite Rmin_right, Rmax_left in Hx by lra.
      destruct (half_range L x HL Hx) as [_ Hr]. apply Hf. unfold g, arg_right, L in *. lra.
    - intros x Hx. rewrite Rmin_right, Rmax_left in Hx by lra.
      destruct (half_range L x HL Hx) as [Hp _]. split.
      + unfold g, arg_right, dg. auto_derive; [lra|]. field. lra.
      + apply dg_continuous. exact Hp. }
  destruct (arg_right_ends a L HL) as [E1 E2]. unfold g in H. rewrite E1, E2 in H.
  replace (a + L) with X in H by (unfold L; ring).
  apply is_RInt_swap in H. apply (is_RInt_opp (V := R_NormedModule)) in H.
  rewrite opp_opp in H.
  eapply is_RInt_ext; [|exact H].
  intros t Ht. rewrite Rmin_left, Rmax_right in Ht by lra.
  unfold u_right, dg, scal, opp; simpl; unfold mult; simpl. field. lra.
Qed.

(* left-unbounded: for every truncation X < b *)
Theorem cv_left_substitution (f : R -> R) (b X : R) : X < b ->
  (forall x, X <= x <= b -> continuous f x) ->
  is_RInt (fun t => 2 * u_left f b t) (s_of (b - X)) 1 (RInt f X b).
Proof.
  intros HXb Hf. set (L := b - X). assert (HL : 0 < L) by (unfold L; lra).
  pose proof (s_of_range L HL) as [Hs1 Hs2].
  pose (g := arg_left b). pose (dg := fun t : R => 2 / ((t + 1) * (t + 1))).
  assert (H : is_RInt (fun y => scal (dg y) (f (g y))) (s_of L) 1 (RInt f (g (s_of L)) (g 1))).
  { apply (is_RInt_comp f g dg).
    - intros x Hx. rewrite Rmin_left, Rmax_right in Hx by lra.
      destruct (half_range L x HL Hx) as [_ Hr]. apply Hf. unfold g, arg_left, L in *. lra.
    - intros x Hx. rewrite Rmin_left, Rmax_right in Hx by lra.
      destruct (half_range L x HL Hx) as [Hp _]. split.
      + unfold g, arg_left, dg. auto_derive; [lra|]. field. lra.
      + apply dg_continuous. exact Hp. }
  destruct (arg_left_ends b L HL) as [E1 E2]. unfold g in H. rewrite E1, E2 in H.
  replace (b - L) with X in H by (unfold L; ring).
  eapply is_RInt_ext; [|exact H].
  intros t Ht. rewrite Rmin_left, Rmax_right in Ht by lra.
  unfold u_left, dg, scal; simpl; unfold mult; simpl. field. lra.
Qed.

(* whole line: for every -1 < s1 <= s2 < 1 (f continuous) *)
Theorem cv_line_substitution (f : R -> R) (s1 s2 : R) : -1 < s1 -> s1 <= s2 -> s2 < 1 ->
  (forall x, continuous f x) ->
  is_RInt (u_line f) s1 s2 (RInt f (arg_line s1) (arg_line s2)).
Proof.
  intros H1 H12 H2 Hf.
  pose (dg := fun t : R => (1 + t * t) / ((1 - t * t) * (1 - t * t))).
  assert (H : is_RInt (fun y => scal (dg y) (f (arg_line y))) s1 s2 (RInt f (arg_line s1) (arg_line s2))).
  { apply (is_RInt_comp f arg_line dg).
    - intros x _. apply Hf.
    - intros x Hx. rewrite Rmin_left, Rmax_right in Hx by lra.
      assert (Hp : 0 < 1 - x * x) by nra. split.
      + unfold arg_line, dg. auto_derive; [lra|]. field. lra.
      + apply (ex_derive_continuous dg). unfold dg. auto_derive. nra. }
  eapply is_RInt_ext; [|exact H].
  intros t Ht. rewrite Rmin_left, Rmax_right in Ht by lra.
  assert (Hp : 0 < 1 - t * t) by nra.
  unfold u_line, dg, scal; simpl; unfold mult; simpl. field. lra.
Qed.

(* the map of the whole-line change of variable reaches every real from inside (-1,1):
   arg_line t = x  for  t = 2x / (1 + sqrt(1 + 4x^2)) *)
Lemma arg_line_onto x : exists t, -1 < t < 1 /\ arg_line t = x.
Proof.
  pose (r := sqrt (1 + 4 * (x * x))).
  assert (Hr0 : 0 <= 1 + 4 * (x * x)) by nra.
  assert (Hr : r * r = 1 + 4 * (x * x)) by (apply sqrt_sqrt; exact Hr0).
  assert (Hr1 : 1 <= r).
  { unfold r. rewrite <- sqrt_1 at 1. apply sqrt_le_1_alt. nra. }
  assert (Hx1 : - r < 2 * x) by nra.
  assert (Hx2 : 2 * x < r) by nra.
  exists (2 * x / (1 + r)).
  assert (Hd : 0 < 1 + r) by lra.
  assert (Hi : 0 < / (1 + r)) by (apply Rinv_0_lt_compat; exact Hd).
  assert (Hm : (1 + r) * / (1 + r) = 1) by (apply Rinv_r; lra).
  split.
  - unfold Rdiv. split; nra.
  - unfold arg_line. assert (Hn : (1 + r) * (1 + r) - 4 * (x * x) = 2 * (1 + r)) by nra.
    field_simplify_eq; [nra | split; [nra | lra]].
Qed.

(* C12 -- property theorems (statements only; proofs are in C12Proofs.v).  gk_gen, gk_K15, gk_G7, rk*_g, rk*_lin, rk*_tab
   are regenerated from /repo on every run (C12_gk_gen.v, C12_rk_gen.v). *)
From Coquelicot Require Import Coquelicot.
From Coq Require Import Reals List QArith Qreals.
From C12 Require Import C12Spec C12Model C12_gk_gen C12_rk_gen C12Proofs.
Import ListNotations.
Local Open Scope R_scope.

(* gauss_kronrod_integrate(f,a,b) (finite bounds), for EVERY integrand f and all reals a, b, returns the 15-point rule
   of table gk_K15 on [min,max], negated when a > b, and |K15 - G7| as error estimate *)
Theorem C12_gk_is_its_table : forall f a b, gk_spec f a b (gk_gen f a b).
Proof. exact gk_gen_spec. Qed.
Print Assumptions C12_gk_is_its_table.

(* moment conditions of the tables (the doubles of the source, exact dyadic rationals), on the unit interval:
   |sum w_i u_i^k - 1/(k+1)| <= 4e-15 for k <= 22 (Kronrod), <= 1e-15 for k <= 13 (Gauss); nodes inside [0,1] *)
Theorem C12_gk_moment_conditions :
  moments_within gk_K15 22 epsK = true /\ moments_within gk_G7 13 epsG = true /\
  nodes_in_unit gk_K15 = true /\ nodes_in_unit gk_G7 = true.
Proof. exact (conj gk_K15_moments (conj gk_G7_moments gk_nodes_inside)). Qed.
Print Assumptions C12_gk_moment_conditions.

(* hence: every polynomial of degree <= 22 (coefficients d in the local variable), every a <= b: the returned value is
   within 4e-15 (b-a) |d|_1 of the exact integral, and up to degree 13 the error estimate is below 5e-15 (b-a) |d|_1 *)
Theorem C12_gk_exact_on_polynomials : forall f a b d, a <= b -> (length d <= 23)%nat -> is_local_poly f a b d ->
  exists v e, gk_gen f a b = Some [v; e] /\
    Rabs (v - (b - a) * pint01 d) <= (b - a) * Q2R epsK * l1norm d /\
    ((length d <= 14)%nat -> e <= (b - a) * (Q2R epsK + Q2R epsG) * l1norm d).
Proof. exact gk_value_poly. Qed.
Print Assumptions C12_gk_exact_on_polynomials.

(* the reference value is the Riemann integral of the integrand *)
Theorem C12_reference_is_the_integral : forall f a b d, a <> b -> is_local_poly f a b d ->
  is_RInt f a b ((b - a) * pint01 d).
Proof. exact local_poly_integral. Qed.
Print Assumptions C12_reference_is_the_integral.

Theorem C12_gk_sign_change_on_swapped_bounds : forall f a b, a < b ->
  exists v e, gk_gen f a b = Some [v; e] /\ gk_gen f b a = Some [- v; e].
Proof. exact gk_swap. Qed.
Print Assumptions C12_gk_sign_change_on_swapped_bounds.

Theorem C12_gk_degrees_are_sharp :
  Qle_bool (defectQ gk_G7 14) epsK = false /\ Qle_bool (defectQ gk_K15 24) (1 # 10000000000000000) = false.
Proof. exact gk_degrees_sharp. Qed.
Print Assumptions C12_gk_degrees_are_sharp.

(* one step of each Runge-Kutta scheme on y' = g(t), EVERY g: y1 = y0 + rule of the tableau on [t0, t0+h]
   (adaptive schemes: whenever the step is accepted) *)
Theorem C12_rk_steps_are_their_tableaux : forall g t0 h y0,
  rk2_g g t0 h y0 = [y0 + quad rk2_tab g t0 (t0 + h)] /\
  rk4_g g t0 h y0 = [y0 + quad rk4_tab g t0 (t0 + h)] /\
  (forall eps y, 0 < h -> rk42_g g t0 h y0 eps = Some [y] -> y = y0 + quad rk42_tab g t0 (t0 + h)) /\
  (forall eps y, 0 < h -> rk54_g g t0 h y0 eps = Some [y] -> y = y0 + quad rk54_tab g t0 (t0 + h)).
Proof.
  intros; exact (conj (rk2_step _ _ _ _) (conj (rk4_step _ _ _ _)
    (conj (fun eps y => rk42_step g t0 h y0 eps y) (fun eps y => rk54_step g t0 h y0 eps y)))).
Qed.
Print Assumptions C12_rk_steps_are_their_tableaux.

Theorem C12_rk_accepting_is_not_vacuous : forall c t0 h y0 eps, 0 < h -> 0 < eps ->
  rk42_g (fun _ => c) t0 h y0 eps = Some [y0 + h * c] /\ rk54_g (fun _ => c) t0 h y0 eps = Some [y0 + h * c].
Proof. intros c t0 h y0 eps Hh He; exact (conj (rk42_accepts c t0 h y0 eps Hh He) (rk54_accepts c t0 h y0 eps Hh He)). Qed.
Print Assumptions C12_rk_accepting_is_not_vacuous.

(* order conditions sum b_i c_i^k = 1/(k+1), exactly, for k < order (2, 4, 4, 5), and not for k = order *)
Theorem C12_rk_order_conditions :
  (moments_within rk2_tab 1 0 = true /\ moments_within rk4_tab 3 0 = true /\
   moments_within rk42_tab 3 0 = true /\ moments_within rk54_tab 4 0 = true) /\
  (moments_within rk2_tab 2 0 = false /\ moments_within rk4_tab 4 0 = false /\ moments_within rk42_tab 4 0 = false /\
   moments_within rk54_tab 5 0 = false).
Proof. exact (conj rk_order_conditions rk_order_sharp). Qed.
Print Assumptions C12_rk_order_conditions.

(* hence y' = p(t), p polynomial of degree below the order, is integrated exactly by one step of any size *)
Theorem C12_rk_polynomial_rhs_exact : forall g t0 h y0 d, is_local_poly g t0 (t0 + h) d ->
  ((length d <= 2)%nat -> rk2_g g t0 h y0 = [y0 + h * pint01 d]) /\
  ((length d <= 4)%nat -> rk4_g g t0 h y0 = [y0 + h * pint01 d]) /\
  ((length d <= 4)%nat -> forall eps y, 0 < h -> rk42_g g t0 h y0 eps = Some [y] -> y = y0 + h * pint01 d) /\
  ((length d <= 5)%nat -> forall eps y, 0 < h -> rk54_g g t0 h y0 eps = Some [y] -> y = y0 + h * pint01 d).
Proof. exact rk_poly_exact_all. Qed.
Print Assumptions C12_rk_polynomial_rhs_exact.

(* linear problem y' = lam y: one step multiplies by the Taylor polynomial of exp(lam h) of the order of the scheme
   (RK54: plus (lam h)^6/2080) *)
Theorem C12_rk_linear_stability_polynomials : forall lam t0 h y0,
  rk2_lin lam t0 h y0 = [y0 * taylor_exp 2 (lam * h)] /\
  rk4_lin lam t0 h y0 = [y0 * taylor_exp 4 (lam * h)] /\
  (forall eps y, 0 < h -> rk42_lin lam t0 h y0 eps = Some [y] -> y = y0 * taylor_exp 4 (lam * h)) /\
  (forall eps y, 0 < h -> rk54_lin lam t0 h y0 eps = Some [y] -> y = y0 * (taylor_exp 5 (lam * h) + (lam * h) ^ 6 / 2080)).
Proof.
  intros; exact (conj (rk2_lin_step _ _ _ _) (conj (rk4_lin_step _ _ _ _)
    (conj (fun eps y => rk42_lin_step lam t0 h y0 eps y) (fun eps y => rk54_lin_step lam t0 h y0 eps y)))).
Qed.
Print Assumptions C12_rk_linear_stability_polynomials.

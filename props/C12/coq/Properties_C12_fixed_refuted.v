(* C12 -- "stops exactly at the final time", RungeKutta2::exe / RungeKutta4::exe as they are in the pinned tree
   (model fixed_exe of C12Model.v; selected by check.py when that model is the one that corresponds to /repo). *)
From Coq Require Import Reals List.
From C12 Require Import C12Model C12LoopProofs.
Local Open Scope R_scope.

(* what does hold: the loop ends in [end, end + h) *)
Theorem C12_fixed_step_final_time_bounds : forall fuel h b e r,
  0 < h -> b <= e -> fixed_exe_R fuel h b e = Some r -> e <= r < e + h.
Proof. exact fixed_exe_bounds. Qed.
Print Assumptions C12_fixed_step_final_time_bounds.

(* the property is false: [0,1] with h = 3/10 ends at 6/5 *)
Theorem C12_fixed_step_stops_at_final_time_refuted :
  exists fuel h b e r, 0 < h /\ b <= e /\ fixed_exe_R fuel h b e = Some r /\ r <> e.
Proof. exact fixed_exe_refuted. Qed.
Print Assumptions C12_fixed_step_stops_at_final_time_refuted.

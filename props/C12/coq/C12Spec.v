(* C12 -- specification of "quadrature and Runge-Kutta schemes achieve their stated order", written independently
   of the code.

   A one-dimensional rule is a table of (node u_i in the unit interval, weight w_i) of rationals.  On [a,b] it is
        quad tab f a b = (b - a) * sum_i w_i f(a + u_i (b - a)).
   Its k-th moment defect is  sum_i w_i u_i^k - 1/(k+1)  (the exact integral of u^k over [0,1]).
   A Runge-Kutta step for y' = g(t) is the same object: y1 = y0 + quad tab g t0 (t0+h), its order conditions are the
   moment conditions with defect 0. *)
From Coq Require Import Reals List QArith Qreals Qabs Lra Lia.
Import ListNotations.
Local Open Scope R_scope.

Definition rule := list (Q * Q).

Definition rsum (tab : rule) (F : Q -> R) : R :=
  fold_right (fun p acc => Q2R (snd p) * F (fst p) + acc) 0 tab.

Definition quad (tab : rule) (f : R -> R) (a b : R) : R :=
  (b - a) * rsum tab (fun u => f (a + Q2R u * (b - a))).

(* moments, computed exactly in Q *)
Fixpoint qpow (q : Q) (n : nat) : Q :=
  match n with O => 1%Q | S m => Qred (q * qpow q m)%Q end.
Definition momentQ (tab : rule) (k : nat) : Q :=
  fold_right (fun p acc => Qred (snd p * qpow (fst p) k + acc)%Q) 0%Q tab.
Definition exactQ (k : nat) : Q := (1 # Pos.of_nat (S k))%Q.
Definition defectQ (tab : rule) (k : nat) : Q := Qabs (momentQ tab k - exactQ k)%Q.
(* all moments of order 0..deg are within eps of the exact ones *)
Definition moments_within (tab : rule) (deg : nat) (eps : Q) : bool :=
  forallb (fun k => Qle_bool (defectQ tab k) eps) (seq 0 (S deg)).
(* nodes lie in the unit interval (the integrand is only evaluated inside [a,b]) *)
Definition nodes_in_unit (tab : rule) : bool :=
  forallb (fun p => Qle_bool 0 (fst p) && Qle_bool (fst p) 1) tab.

(* polynomials in the local variable u = (x - a)/(b - a), coefficient list lowest degree first *)
Definition peval (d : list R) (u : R) : R := fold_right (fun c acc => c + u * acc) 0 d.
Fixpoint pint_from (k : nat) (d : list R) : R :=
  match d with [] => 0 | c :: d' => c / INR (S k) + pint_from (S k) d' end.
(* exact integral over [0,1] of peval d *)
Definition pint01 (d : list R) : R := pint_from 0 d.
Definition l1norm (d : list R) : R := fold_right (fun c acc => Rabs c + acc) 0 d.

(* "f restricted to [a,b] is the polynomial d in the local variable" *)
Definition is_local_poly (f : R -> R) (a b : R) (d : list R) : Prop :=
  forall u, f (a + u * (b - a)) = peval d u.

(* exactness of a rule up to a stated epsilon, for every polynomial of degree <= deg, every interval *)
Definition exact_to (tab : rule) (deg : nat) (eps : R) : Prop :=
  forall (f : R -> R) (a b : R) (d : list R),
    (length d <= S deg)%nat -> is_local_poly f a b d ->
    Rabs (quad tab f a b - (b - a) * pint01 d) <= Rabs (b - a) * eps * l1norm d.

(* stability polynomial of an order-p scheme on y' = lam y: the Taylor polynomial of exp of degree p *)
Fixpoint taylor_exp (p : nat) (z : R) : R :=
  match p with O => 1 | S q => taylor_exp q z + z ^ p / INR (fact p) end.

(* ---- time loops ("stops exactly at the final time") are specified on the models of C12Model.v by
   final_time = Some tf;  see Properties_C12*.v *)

(* C12 -- "stops exactly at the final time", RungeKutta2::exe / RungeKutta4::exe with the last step clamped
   (model fixedc_exe of C12Model.v; selected by check.py when that model is the one that corresponds to /repo). *)
From Coq Require Import Reals List.
From C12 Require Import C12Model C12LoopProofs.
Local Open Scope R_scope.

Theorem C12_fixed_step_stops_at_final_time : forall fuel h b e r,
  b <= e -> fixedc_exe_R fuel h b e = Some r -> r = e.
Proof. exact fixedc_exe_exact. Qed.
Print Assumptions C12_fixed_step_stops_at_final_time.

(* and it does stop: n + 1 iterations suffice as soon as n h >= e - b *)
Theorem C12_fixed_step_terminates : forall h e, 0 < h -> forall n b, e - b <= INR n * h ->
  exists r, fixedc_exe_R (S n) h b e = Some r.
Proof. intros h e Hh n b H. exact (fixedc_loop_terminates h e Hh n b H). Qed.
Print Assumptions C12_fixed_step_terminates.

(* C12 -- property theorems about the 4-argument overload GaussKronrodQuadrature::operator()(f, a, b, params)
   (statements only; model in C12GKModel.v, proofs in C12GKProofs.v).  Every theorem quantifies over ALL instances
   `o` of the scalar operations (any rounding, overflow, NaN behaviour) and all 3-argument rules `rule`; the instance on
   binary64 (C12GKFloat.v) is compared bit for bit with the real code on every run. *)
From Coq Require Import List Bool Reals.
From C12 Require Import C12GKModel C12GKFloat C12GKProofs.
Import ListNotations.

Section Statements.
  Context {F V E : Type} (o : gkops F V E) (rule : (F -> V) -> F -> F -> V * E).

  (* NaN bound => nullopt *)
  Theorem C12_gkop_nan_bound : forall m f a b tol,
    is_nan o a = true \/ is_nan o b = true -> gk4 o rule m f a b tol = None.
  Proof. exact (gk4_nan o rule). Qed.

  (* both bounds infinite (|x| >= max() counts as infinite) with the same sign => nullopt *)
  Theorem C12_gkop_same_sign_infinities : forall m f a b tol,
    is_inf o a = true -> is_inf o b = true ->
    (gt0 o a = true /\ gt0 o b = true) \/ (lt0 o a = true /\ lt0 o b = true) ->
    gk4 o rule m f a b tol = None.
  Proof. exact (gk4_same_sign_infinities o rule). Qed.

  (* maximum_number_of_refinements = 0 => nullopt, whatever the bounds *)
  Theorem C12_gkop_no_budget : forall f a b tol, gk4 o rule 0 f a b tol = None.
  Proof. exact (gk4_zero o rule). Qed.

  (* finite bounds: a > b negates the result for the exchanged bounds *)
  Theorem C12_gkop_swapped_bounds_negate : forall m f a b tol, finite_bounds o a b -> gtb o a b = true ->
    gk4 o rule m f a b tol = option_map (vneg o) (integrate o rule m f b a tol) /\
    (gtb o b a = false -> gk4 o rule m f a b tol = option_map (vneg o) (gk4 o rule m f b a tol)).
  Proof. intros m f a b tol Hf Hg; exact (conj (gk4_swapped o rule m f a b tol Hf Hg) (gk4_swapped_negates o rule m f a b tol Hf Hg)). Qed.

  (* infinite bounds: which transformed integrand is integrated over [-1,1] with the caller's parameters, which
     post-factor (2 for half-unbounded ranges, none for the whole line) and when the sign is changed *)
  Theorem C12_gkop_infinite_bounds : forall m f a b tol, is_nan o a = false -> is_nan o b = false ->
    let T g := integrate o rule m g (m_one o) (p_one o) tol in
    let twice := option_map (vtwice o) in
    let neg := option_map (vneg o) in
    (is_inf o a = true -> is_inf o b = true -> (gt0 o a && gt0 o b) || (lt0 o a && lt0 o b) = false ->
       gk4 o rule m f a b tol = if lt0 o b then neg (T (u_line o f)) else T (u_line o f)) /\
    (is_inf o a = true -> is_inf o b = false ->
       gk4 o rule m f a b tol = if gt0 o a then neg (twice (T (u_right o f b))) else twice (T (u_left o f b))) /\
    (is_inf o a = false -> is_inf o b = true ->
       gk4 o rule m f a b tol = if lt0 o b then neg (twice (T (u_left o f a))) else twice (T (u_right o f a))).
  Proof. exact (gk4_infinite_branches o rule). Qed.

  (* the acceptance test is `e > tolerance`: when it is false -- e <= tolerance, OR e (or the tolerance) is NaN --
     the interval is accepted with the rule's value *)
  Theorem C12_gkop_accepts_when_test_is_false : forall n f a b tol,
    egt o (snd (rule f a b)) tol = false -> integrate o rule (S n) f a b tol = Some (fst (rule f a b)).
  Proof. exact (integrate_accepts o rule). Qed.

  (* refinement: a returned value comes with the recursion tree t of the run (is_run: every split point is
     midpoint l r, both halves get half of the tolerance) such that: v is the sum of the leaf values in the association
     order of the code; every leaf carries the rule's value/estimate on its sub-interval and passed NOT (estimate > share);
     leaves live at depths 0..m-1 and their share is the tolerance halved depth times; the leaves form a chain
     partition of [a,b]; the number of rule evaluations is the size of the tree and is at most 2^m - 1 *)
  Theorem C12_gkop_refinement : forall m f a b tol v, integrate o rule m f a b tol = Some v ->
    exists t, is_run o rule f a b tol 0 t /\
      value o t = v /\
      Forall (fun l => rule f (lo l) (hi l) = (val l, est l) /\ egt o (est l) (share l) = false) (leaves t) /\
      Forall (fun l => (depth l < m)%nat /\ share l = iter_half o (depth l) tol) (leaves t) /\
      chain a b (leaves t) /\
      size t = evals o rule m f a b tol /\ (size t + 1 <= 2 ^ m)%nat.
  Proof. exact (integrate_some o rule). Qed.

  (* ... and conversely: Some v is returned exactly when the (unique) recursion tree has all its leaves above depth m *)
  Theorem C12_gkop_refinement_iff : forall m f a b tol v,
    integrate o rule m f a b tol = Some v <->
    exists t, is_run o rule f a b tol 0 t /\ value o t = v /\ Forall (fun l => (depth l < m)%nat) (leaves t).
  Proof. exact (integrate_some_iff o rule). Qed.

  Theorem C12_gkop_recursion_tree_is_unique : forall f a b tol d t, is_run o rule f a b tol d t ->
    forall t', is_run o rule f a b tol d t' -> t = t'.
  Proof. exact (run_unique o rule). Qed.

  (* at most 2^m - 1 evaluations of the 15-point rule, on every path of the overload *)
  Theorem C12_gkop_rule_evaluations_bound : forall m f a b tol, (gk4_evals o rule m f a b tol + 1 <= 2 ^ m)%nat.
  Proof. exact (gk4_evals_bound o rule). Qed.

  (* laws of exact arithmetic as hypotheses *)
  Local Open Scope R_scope.
  Variables (toR : F -> R) (vR : V -> R) (eR : E -> R).

  (* if halving really halves, the shares of the accepted leaves add up to the tolerance *)
  Theorem C12_gkop_shares_sum_to_tolerance : (forall x, toR (half o x) = toR x / 2) ->
    forall m f a b tol v, integrate o rule m f a b tol = Some v ->
    exists t, is_run o rule f a b tol 0 t /\ value o t = v /\ sum_shares toR (leaves t) = toR tol.
  Proof. exact (integrate_sum_shares o rule toR). Qed.

  (* if moreover the sum is exact, a false test means e <= tolerance (no NaN), the reference I is additive at the
     split points and the estimate of the rule bounds its error on every interval ("reliable"), then the value is within
     the tolerance of I -- and within TWICE the tolerance for the half-unbounded branches, which return 2 * value *)
  Theorem C12_gkop_within_tolerance_when_estimates_are_reliable :
    (forall x, toR (half o x) = toR x / 2) -> (forall x y, vR (vadd o x y) = vR x + vR y) ->
    (forall e t, egt o e t = false -> eR e <= toR t) ->
    forall (I : (F -> V) -> F -> F -> R) (g : F -> V),
    (forall a b, I g a (midpoint o a b) + I g (midpoint o a b) b = I g a b) ->
    (forall a b, Rabs (vR (fst (rule g a b)) - I g a b) <= eR (snd (rule g a b))) ->
    (forall m a b tol v, integrate o rule m g a b tol = Some v -> Rabs (vR v - I g a b) <= toR tol) /\
    ((forall x, vR (vtwice o x) = 2 * vR x) -> forall m a b tol v,
       option_map (vtwice o) (integrate o rule m g a b tol) = Some v -> Rabs (vR v - 2 * I g a b) <= 2 * toR tol).
  Proof.
    intros H1 H2 H3 I g H4 H5;
      exact (conj (integrate_within o rule toR vR eR H1 H2 H3 I g H4 H5) (twice_within o rule toR vR eR H1 H2 H3 I g H4 H5)).
  Qed.
End Statements.

(* on binary64 (closed examples, 3-point stand-in tables toyK/toyG, tolerance 2^-20, on [0,1]): an integrand that is NaN
   everywhere, or 1 with NaN on [0.25, 0.5], gives a NaN estimate, `NaN > tol` is false, the interval is accepted by the
   FIRST rule evaluation and Some NaN is returned; without the NaN window Some 1 is returned.
   (statement: C12GKProofs.nan_estimate_is_accepted_stmt; Floats is not imported here so that Print Assumptions
   prints the kernel's primitive float operations with their qualified names) *)
Theorem C12_gkop_nan_estimate_is_accepted_on_binary64 : nan_estimate_is_accepted_stmt.
Proof. exact nan_estimate_is_accepted. Qed.

Print Assumptions C12_gkop_nan_bound.
Print Assumptions C12_gkop_same_sign_infinities.
Print Assumptions C12_gkop_no_budget.
Print Assumptions C12_gkop_swapped_bounds_negate.
Print Assumptions C12_gkop_infinite_bounds.
Print Assumptions C12_gkop_accepts_when_test_is_false.
Print Assumptions C12_gkop_refinement.
Print Assumptions C12_gkop_refinement_iff.
Print Assumptions C12_gkop_recursion_tree_is_unique.
Print Assumptions C12_gkop_rule_evaluations_bound.
Print Assumptions C12_gkop_shares_sum_to_tolerance.
Print Assumptions C12_gkop_within_tolerance_when_estimates_are_reliable.
Print Assumptions C12_gkop_nan_estimate_is_accepted_on_binary64.

(* C12 -- property theorems about the changes of variable of GaussKronrodQuadrature for unbounded ranges.
   cv_right / cv_left / cv_line are the values returned by the private members computeRightUnboundedIntegral(f, a),
   computeLeftUnboundedIntegral(f, b), computeUnboundedIntegral(f), traced from /repo with an uninterpreted integrand
   on every run (C12_cv_gen.v); gk_K15 / gk_G7 are the tables read off the trace of integrate(f, a, b) (C12_gk_gen.v).
   Proofs: C12CVLink.v (traced term = rule applied to the transformed integrand), C12CV.v (substitution rule). *)
From Coquelicot Require Import Coquelicot.
From Coq Require Import Reals List QArith Qreals.
From C12 Require Import C12Spec C12_gk_gen C12_cv_gen C12CV C12CVLink.
Import ListNotations.
Local Open Scope R_scope.

(* for EVERY integrand f and bound a, the traced members return post-factor x the 15-point rule on [-1,1] of
     u_right f a t = f (a + (2/(t+1) - 1)) / (t+1)^2,  u_left f b t = f (b - (2/(t+1) - 1)) / (t+1)^2,
     u_line f t = f (t/(1-t^2)) (1+t^2)/(1-t^2)^2
   with post-factor 2, 2 and 1, and |K15 - G7| of the same integrand (NOT multiplied by 2) as error estimate *)
Theorem C12_cv_right_is_the_rule_on_the_transformed_integrand : forall f a,
  cv_right f a = [2 * quad gk_K15 (u_right f a) (-1) 1;
                  Rabs (quad gk_K15 (u_right f a) (-1) 1 - quad gk_G7 (u_right f a) (-1) 1)].
Proof. exact cv_right_rule. Qed.
Print Assumptions C12_cv_right_is_the_rule_on_the_transformed_integrand.

Theorem C12_cv_left_is_the_rule_on_the_transformed_integrand : forall f b,
  cv_left f b = [2 * quad gk_K15 (u_left f b) (-1) 1;
                 Rabs (quad gk_K15 (u_left f b) (-1) 1 - quad gk_G7 (u_left f b) (-1) 1)].
Proof. exact cv_left_rule. Qed.
Print Assumptions C12_cv_left_is_the_rule_on_the_transformed_integrand.

Theorem C12_cv_line_is_the_rule_on_the_transformed_integrand : forall f,
  cv_line f = [quad gk_K15 (u_line f) (-1) 1;
               Rabs (quad gk_K15 (u_line f) (-1) 1 - quad gk_G7 (u_line f) (-1) 1)].
Proof. exact cv_line_rule. Qed.
Print Assumptions C12_cv_line_is_the_rule_on_the_transformed_integrand.

(* the transformed integrands are the substitution rule: for every truncation X of the unbounded range, the Riemann
   integral of f over the truncated range is the Riemann integral of post-factor x u over [s, 1], s = 2/(L+1) - 1 in
   (-1,1), L the length of the truncated range (the improper integral is the limit L -> +oo, i.e. s -> -1+; that limit is
   not formalised) *)
Theorem C12_cv_right_is_the_substitution_rule : forall (f : R -> R) (a X : R), a < X ->
  (forall x, a <= x <= X -> continuous f x) ->
  is_RInt (fun t => 2 * u_right f a t) (s_of (X - a)) 1 (RInt f a X).
Proof. exact cv_right_substitution. Qed.
Print Assumptions C12_cv_right_is_the_substitution_rule.

Theorem C12_cv_left_is_the_substitution_rule : forall (f : R -> R) (b X : R), X < b ->
  (forall x, X <= x <= b -> continuous f x) ->
  is_RInt (fun t => 2 * u_left f b t) (s_of (b - X)) 1 (RInt f X b).
Proof. exact cv_left_substitution. Qed.
Print Assumptions C12_cv_left_is_the_substitution_rule.

Theorem C12_cv_line_is_the_substitution_rule : forall (f : R -> R) (s1 s2 : R), -1 < s1 -> s1 <= s2 -> s2 < 1 ->
  (forall x, continuous f x) ->
  is_RInt (u_line f) s1 s2 (RInt f (arg_line s1) (arg_line s2)).
Proof. exact cv_line_substitution. Qed.
Print Assumptions C12_cv_line_is_the_substitution_rule.

(* the truncation point is inside (-1,1) and is mapped to the truncation bound, t = 1 to the finite bound; every real is
   reached by the whole-line map from inside (-1,1); the 15 nodes of the rule on [-1,1] are strictly inside (-1,1) *)
Theorem C12_cv_ranges : (forall L, 0 < L -> -1 < s_of L < 1) /\
  (forall a L, 0 < L -> arg_right a 1 = a /\ arg_right a (s_of L) = a + L) /\
  (forall b L, 0 < L -> arg_left b 1 = b /\ arg_left b (s_of L) = b - L) /\
  (forall x, exists t, -1 < t < 1 /\ arg_line t = x) /\
  Forall (fun p => -1 < node_t (fst p) < 1) gk_K15.
Proof. exact (conj s_of_range (conj arg_right_ends (conj arg_left_ends (conj arg_line_onto nodes_strictly_inside)))). Qed.
Print Assumptions C12_cv_ranges.

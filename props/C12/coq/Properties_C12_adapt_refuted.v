(* C12 -- "stops exactly at the final time", RungeKutta42::iterate / RungeKutta54::iterate as they are in the pinned
   tree (model adapt_iterate false; selected by check.py when that model is the one that corresponds to /repo). *)
From Coq Require Import Reals List.
From C12 Require Import C12Model C12LoopProofs.
Import ListNotations.
Local Open Scope R_scope.

(* what does hold, for every sequence of acceptances/rejections/multipliers: the time reached is never beyond tf and
   misses it by at most half of the last increment *)
Theorem C12_adaptive_final_time_bounds : forall orc ti tf dt0 r,
  (forall p, In p orc -> 0 <= snd p) ->
  adapt_iterate_R false orc ti tf dt0 = Some r -> tf - snd (fst r) / 2 <= fst (fst r) <= tf.
Proof. exact adapt_iterate_current_bounds. Qed.
Print Assumptions C12_adaptive_final_time_bounds.

(* the property is false: [0,1], initial increment 7/10, first step accepted: the loop stops at 7/10 *)
Theorem C12_adaptive_stops_at_final_time_refuted :
  exists orc ti tf dt0 r, (forall p, In p orc -> 0 < snd p) /\ ti < tf /\ 0 < dt0 /\
    adapt_iterate_R false orc ti tf dt0 = Some r /\ fst (fst r) <> tf.
Proof. exact adapt_iterate_refuted. Qed.
Print Assumptions C12_adaptive_stops_at_final_time_refuted.

(* C12 -- lemmas about the model of the 4-argument GaussKronrodQuadrature::operator() (C12GKModel.v).
   Everything in section Abstract holds for EVERY instance of the operations (no law is assumed: any rounding,
   overflow, NaN behaviour).  Section Exact adds explicit laws of exact arithmetic as hypotheses of the statements. *)
From Coq Require Import List Bool Arith Lia Reals Lra Floats.
From C12 Require Import C12GKModel C12GKFloat.
Import ListNotations.

Section Abstract.
  Context {F V E : Type} (o : gkops F V E).
  Variable rule : (F -> V) -> F -> F -> V * E.
  Notation integrate := (integrate o rule).
  Notation evals := (evals o rule).
  Notation gk4 := (gk4 o rule).
  Notation is_run := (is_run o rule).
  Notation M1 := (m_one o). Notation P1 := (p_one o).

  (* ---- bounds *)
  Lemma gk4_nan m f a b tol : o.(is_nan) a = true \/ o.(is_nan) b = true -> gk4 m f a b tol = None.
  Proof. intros [H|H]; unfold C12GKModel.gk4; rewrite H; [reflexivity | now rewrite orb_true_r]. Qed.

  Lemma gk4_same_sign_infinities m f a b tol :
    o.(is_inf) a = true -> o.(is_inf) b = true ->
    (o.(gt0) a = true /\ o.(gt0) b = true) \/ (o.(lt0) a = true /\ o.(lt0) b = true) ->
    gk4 m f a b tol = None.
  Proof.
    intros Ha Hb Hs. unfold C12GKModel.gk4. destruct (o.(is_nan) a || o.(is_nan) b); [reflexivity|].
    rewrite Ha, Hb. destruct Hs as [[H1 H2]|[H1 H2]]; rewrite H1, H2; [reflexivity | now rewrite orb_true_r].
  Qed.

  Lemma integrate_zero f a b tol : integrate 0 f a b tol = None.
  Proof. reflexivity. Qed.

  Lemma gk4_zero f a b tol : gk4 0 f a b tol = None.
  Proof.
    unfold C12GKModel.gk4, change_sign, unbounded, left_unbounded, right_unbounded. cbn [C12GKModel.integrate option_map].
    repeat match goal with |- context [if ?c then _ else _] => destruct c end; reflexivity.
  Qed.

  Definition finite_bounds (a b : F) : Prop :=
    o.(is_nan) a = false /\ o.(is_nan) b = false /\ o.(is_inf) a = false /\ o.(is_inf) b = false.

  Lemma gk4_finite m f a b tol : finite_bounds a b ->
    gk4 m f a b tol = if o.(gtb) a b then option_map o.(vneg) (integrate m f b a tol) else integrate m f a b tol.
  Proof. intros (H1 & H2 & H3 & H4). unfold C12GKModel.gk4. now rewrite H1, H2, H3, H4. Qed.

  (* swapped finite bounds: the result for (a,b), a > b, is the negation of the result for (b,a) *)
  Lemma gk4_swapped m f a b tol : finite_bounds a b -> o.(gtb) a b = true ->
    gk4 m f a b tol = option_map o.(vneg) (integrate m f b a tol).
  Proof. intros Hf Hg. rewrite (gk4_finite m f a b tol Hf), Hg. reflexivity. Qed.

  Lemma gk4_swapped_negates m f a b tol : finite_bounds a b -> o.(gtb) a b = true -> o.(gtb) b a = false ->
    gk4 m f a b tol = option_map o.(vneg) (gk4 m f b a tol).
  Proof.
    intros Hf Hg Hg'. rewrite (gk4_swapped m f a b tol Hf Hg).
    destruct Hf as (H1 & H2 & H3 & H4).
    rewrite (gk4_finite m f b a tol (conj H2 (conj H1 (conj H4 H3)))), Hg'. reflexivity.
  Qed.

  (* infinite bounds: transformed integrand, range and post-factor of each branch *)
  Lemma gk4_infinite_branches m f a b tol : o.(is_nan) a = false -> o.(is_nan) b = false ->
    let T g := integrate m g M1 P1 tol in
    let twice := option_map o.(vtwice) in
    let neg := option_map o.(vneg) in
    (o.(is_inf) a = true -> o.(is_inf) b = true ->
       (o.(gt0) a && o.(gt0) b) || (o.(lt0) a && o.(lt0) b) = false ->
       gk4 m f a b tol = if o.(lt0) b then neg (T (o.(u_line) f)) else T (o.(u_line) f)) /\
    (o.(is_inf) a = true -> o.(is_inf) b = false ->
       gk4 m f a b tol = if o.(gt0) a then neg (twice (T (o.(u_right) f b))) else twice (T (o.(u_left) f b))) /\
    (o.(is_inf) a = false -> o.(is_inf) b = true ->
       gk4 m f a b tol = if o.(lt0) b then neg (twice (T (o.(u_left) f a))) else twice (T (o.(u_right) f a))).
  Proof.
    intros Ha Hb. cbv zeta. unfold C12GKModel.gk4, change_sign, unbounded, left_unbounded, right_unbounded.
    rewrite Ha, Hb. cbn [orb]. repeat split; intros H1 H2; rewrite H1, H2; [intros H3; rewrite H3|..]; reflexivity.
  Qed.

  (* ---- the acceptance test is `e > tol`: whenever it is false (e <= tol, or e or tol is NaN) the interval is accepted *)
  Lemma integrate_accepts n f a b tol :
    o.(egt) (snd (rule f a b)) tol = false -> integrate (S n) f a b tol = Some (fst (rule f a b)).
  Proof. intros H. cbn [C12GKModel.integrate]. destruct (rule f a b) as [i e]. cbn [snd fst] in *. now rewrite H. Qed.

  Lemma integrate_refines n f a b tol :
    o.(egt) (snd (rule f a b)) tol = true ->
    integrate (S n) f a b tol =
      match integrate n f a (o.(midpoint) a b) (o.(half) tol), integrate n f (o.(midpoint) a b) b (o.(half) tol) with
      | Some i1, Some i2 => Some (o.(vadd) i1 i2)
      | _, _ => None
      end.
  Proof. intros H. cbn [C12GKModel.integrate]. destruct (rule f a b) as [i e]. cbn [snd] in H. now rewrite H. Qed.

  (* ---- recursion tree *)
  Definition depth_in (d m : nat) (l : leaf F V E) : Prop := (d <= depth l < d + m)%nat.

  Lemma integrate_run m : forall f a b tol v d,
    integrate m f a b tol = Some v ->
    exists t, is_run f a b tol d t /\ value o t = v /\ Forall (depth_in d m) (leaves t) /\
              size t = evals m f a b tol.
  Proof.
    induction m as [|n IH]; intros f a b tol v d H; [discriminate H|].
    cbn [C12GKModel.integrate C12GKModel.evals] in *.
    destruct (rule f a b) as [i e] eqn:Hr. cbn [snd].
    destruct (o.(egt) e tol) eqn:Ht.
    - destruct (C12GKModel.integrate o rule n f a (o.(midpoint) a b) (o.(half) tol)) as [i1|] eqn:H1; [|discriminate H].
      destruct (C12GKModel.integrate o rule n f (o.(midpoint) a b) b (o.(half) tol)) as [i2|] eqn:H2; [|discriminate H].
      injection H as <-.
      destruct (IH _ _ _ _ _ (S d) H1) as (t1 & R1 & V1 & D1 & S1).
      destruct (IH _ _ _ _ _ (S d) H2) as (t2 & R2 & V2 & D2 & S2).
      exists (Node t1 t2). split; [|split; [|split]].
      + apply run_node; [now rewrite Hr | assumption | assumption].
      + cbn [value]. now rewrite V1, V2.
      + cbn [leaves]. apply Forall_app. split; (eapply Forall_impl; [|eassumption]); unfold depth_in; intros l Hl; lia.
      + cbn [size]. now rewrite S1, S2.
    - injection H as <-.
      exists (Leaf {| lo := a; hi := b; share := tol; depth := d; val := i; est := e |}). split; [|split; [|split]].
      + apply (run_leaf o rule f a b tol d i e Hr Ht).
      + reflexivity.
      + constructor; [unfold depth_in; cbn; lia | constructor].
      + reflexivity.
  Qed.

  Lemma leaves_nonempty (t : tree F V E) : exists x, In x (leaves t).
  Proof.
    induction t as [x|t1 [x Hx] t2 _]; [exists x; now left|]. exists x. cbn [leaves]. apply in_or_app. now left.
  Qed.

  Lemma run_depth_ge f a b tol d t : is_run f a b tol d t -> Forall (fun l => (d <= depth l)%nat) (leaves t).
  Proof.
    induction 1; cbn [leaves]; [repeat constructor|].
    apply Forall_app; split; (eapply Forall_impl; [|eassumption]); cbn; intros; lia.
  Qed.

  Lemma run_integrate f a b tol d t : is_run f a b tol d t ->
    forall m, Forall (fun l => (depth l < d + m)%nat) (leaves t) -> integrate m f a b tol = Some (value o t).
  Proof.
    intros R m Hd.
    revert m Hd.
    induction R as [a b tol d i e Hr Ht | a b tol d l r Ht Rl IHl Rr IHr]; intros m Hd.
    - destruct m as [|n]; [exfalso; inversion Hd as [|x xs Hx]; subst; cbn in Hx; lia|].
      cbn [C12GKModel.integrate]. rewrite Hr, Ht. reflexivity.
    - destruct m as [|n].
      { exfalso. pose proof (run_depth_ge _ _ _ _ _ _ Rl) as Hge. destruct (leaves_nonempty l) as [x Hx].
        cbn [leaves] in Hd. apply Forall_app in Hd. destruct Hd as [Hdl _]. rewrite Forall_forall in *.
        specialize (Hdl x Hx). specialize (Hge x Hx). cbn in *. lia. }
      cbn [leaves] in Hd. apply Forall_app in Hd. destruct Hd as [Hdl Hdr].
      rewrite (integrate_refines n f a b tol Ht).
      assert (Hl : Forall (fun x => (depth x < S d + n)%nat) (leaves l)) by (eapply Forall_impl; [|exact Hdl]; cbn; intros; lia).
      assert (Hr' : Forall (fun x => (depth x < S d + n)%nat) (leaves r)) by (eapply Forall_impl; [|exact Hdr]; cbn; intros; lia).
      rewrite (IHl n Hl), (IHr n Hr'). reflexivity.
  Qed.

  (* every accepted leaf carries the rule's value and estimate on its sub-interval and passed the test NOT (e > share) *)
  Definition accepted (f : F -> V) (l : leaf F V E) : Prop :=
    rule f (lo l) (hi l) = (val l, est l) /\ o.(egt) (est l) (share l) = false.

  Lemma run_accepted f a b tol d t : is_run f a b tol d t -> Forall (accepted f) (leaves t).
  Proof.
    induction 1; cbn [leaves]; [repeat constructor; assumption | apply Forall_app; now split].
  Qed.

  (* the share of a leaf is the tolerance halved once per level *)
  Definition share_ok (tol : F) (d : nat) (l : leaf F V E) : Prop :=
    exists k, depth l = (d + k)%nat /\ share l = iter_half o k tol.

  Lemma run_shares f a b tol d t : is_run f a b tol d t -> Forall (share_ok tol d) (leaves t).
  Proof.
    induction 1 as [a b tol d i e Hr Ht | a b tol d l r Ht Rl IHl Rr IHr]; cbn [leaves].
    - repeat constructor. exists 0%nat. cbn. split; [lia | reflexivity].
    - apply Forall_app; split; (eapply Forall_impl; [|eassumption]); intros x (k & Hk & Hs); exists (S k); cbn; split;
        [lia | assumption | lia | assumption].
  Qed.

  (* chain partition *)
  Lemma chain_cons (a b : F) (x : leaf F V E) ls : ls <> [] -> (chain a b (x :: ls) <-> lo x = a /\ chain (hi x) b ls).
  Proof. destruct ls as [|y ls]; [congruence|]. intros _. split; intros H; exact H. Qed.

  Lemma chain_app (a c b : F) (l1 l2 : list (leaf F V E)) : chain a c l1 -> chain c b l2 -> chain a b (l1 ++ l2).
  Proof.
    revert a. induction l1 as [|x l1 IH]; intros a H1 H2; [contradiction|].
    assert (N2 : l2 <> []) by (destruct l2; [contradiction | discriminate]).
    destruct l1 as [|y l1].
    - destruct H1 as [Hlo Hhi]. cbn [app]. apply chain_cons; [exact N2|]. split; [exact Hlo | now rewrite Hhi].
    - apply chain_cons in H1; [|discriminate]. destruct H1 as [Hlo H1].
      change ((x :: y :: l1) ++ l2) with (x :: ((y :: l1) ++ l2)). apply chain_cons; [discriminate|].
      split; [exact Hlo | apply IH; assumption].
  Qed.

  Lemma run_chain f a b tol d t : is_run f a b tol d t -> chain a b (leaves t).
  Proof.
    induction 1; cbn [leaves]; [cbn; split; reflexivity | eapply chain_app; eassumption].
  Qed.

  (* the recursion tree is unique *)
  Lemma run_unique f a b tol d t : is_run f a b tol d t -> forall t', is_run f a b tol d t' -> t = t'.
  Proof.
    induction 1 as [a b tol d i e Hr Ht | a b tol d l r Ht Rl IHl Rr IHr]; intros t' H'; inversion H'; subst.
    - match goal with H : rule f a b = (?i', ?e') |- _ => rewrite Hr in H; injection H as <- <- end. reflexivity.
    - match goal with H : egt o (snd (rule f a b)) tol = true |- _ => rewrite Hr in H; cbn [snd] in H; congruence end.
    - match goal with H : rule f a b = _ |- _ => rewrite H in Ht; cbn [snd] in Ht; congruence end.
    - f_equal; [apply IHl | apply IHr]; assumption.
  Qed.

  (* number of evaluations of the 15-point rule *)
  Lemma evals_bound m : forall f a b tol, (evals m f a b tol + 1 <= 2 ^ m)%nat.
  Proof.
    induction m as [|n IH]; intros f a b tol; [cbn; lia|].
    cbn [C12GKModel.evals]. destruct (o.(egt) (snd (rule f a b)) tol).
    - pose proof (IH f a (o.(midpoint) a b) (o.(half) tol)). pose proof (IH f (o.(midpoint) a b) b (o.(half) tol)).
      cbn [Nat.pow]. lia.
    - assert (1 <= 2 ^ n)%nat by (clear; induction n; cbn; lia). cbn [Nat.pow]. lia.
  Qed.

  Lemma gk4_evals_bound m f a b tol : (gk4_evals o rule m f a b tol + 1 <= 2 ^ m)%nat.
  Proof.
    assert (1 <= 2 ^ m)%nat by (clear; induction m; cbn; lia).
    unfold gk4_evals.
    repeat match goal with |- context [if ?c then _ else _] => destruct c end;
      first [apply evals_bound | cbn; lia].
  Qed.

  (* the main statement about the refinement *)
  Definition refinement_ok (m : nat) (f : F -> V) (a b tol : F) (v : V) : Prop :=
    exists t, is_run f a b tol 0 t /\
      value o t = v /\
      Forall (accepted f) (leaves t) /\
      Forall (fun l => (depth l < m)%nat /\ share l = iter_half o (depth l) tol) (leaves t) /\
      chain a b (leaves t) /\
      size t = evals m f a b tol /\ (size t + 1 <= 2 ^ m)%nat.

  Lemma integrate_some m f a b tol v : integrate m f a b tol = Some v -> refinement_ok m f a b tol v.
  Proof.
    intros H. destruct (integrate_run m f a b tol v 0 H) as (t & R & Hv & Hd & Hs).
    exists t. split; [exact R|]. split; [exact Hv|]. split; [exact (run_accepted _ _ _ _ _ _ R)|].
    split.
    - pose proof (run_shares _ _ _ _ _ _ R) as Hsh. rewrite Forall_forall in *. intros l Hl.
      specialize (Hd l Hl). specialize (Hsh l Hl). destruct Hsh as (k & Hk & Hsk). unfold depth_in in Hd.
      split; [lia|]. cbn in Hk. now rewrite Hk.
    - split; [exact (run_chain _ _ _ _ _ _ R)|]. split; [exact Hs|]. rewrite Hs. apply evals_bound.
  Qed.

  Lemma integrate_some_iff m f a b tol v :
    integrate m f a b tol = Some v <->
    exists t, is_run f a b tol 0 t /\ value o t = v /\ Forall (fun l => (depth l < m)%nat) (leaves t).
  Proof.
    split.
    - intros H. destruct (integrate_some m f a b tol v H) as (t & R & Hv & _ & Hd & _).
      exists t. split; [exact R|]. split; [exact Hv|]. eapply Forall_impl; [|exact Hd]. intros l [Hl _]. exact Hl.
    - intros (t & R & Hv & Hd). rewrite <- Hv. apply (run_integrate f a b tol 0 t R).
      eapply Forall_impl; [|exact Hd]. cbn. intros; lia.
  Qed.
End Abstract.

(* -------------------------------------------------------------------------------------------------------------
   Laws of exact arithmetic as explicit hypotheses: the shares of the accepted leaves add up to the tolerance, and if
   the estimate of every accepted leaf bounds its error, the value is within the tolerance of the integral (within
   TWICE the tolerance for half-unbounded ranges, because of the post-factor 2). *)
Local Open Scope R_scope.
Section Exact.
  Context {F V E : Type} (o : gkops F V E).
  Variable rule : (F -> V) -> F -> F -> V * E.
  Variables (toR : F -> R) (vR : V -> R) (eR : E -> R).
  Hypothesis half_R : forall x, toR (o.(half) x) = toR x / 2.
  Hypothesis vadd_R : forall x y, vR (o.(vadd) x y) = vR x + vR y.
  Hypothesis egt_R : forall e t, o.(egt) e t = false -> eR e <= toR t.

  Definition sum_shares (ls : list (leaf F V E)) : R := fold_right (fun l acc => toR (share l) + acc) 0 ls.

  Lemma sum_shares_app l1 l2 : sum_shares (l1 ++ l2) = sum_shares l1 + sum_shares l2.
  Proof. unfold sum_shares. induction l1; cbn; [lra|]. fold sum_shares in *. rewrite IHl1. lra. Qed.

  Lemma run_sum_shares f a b tol d t : is_run o rule f a b tol d t -> sum_shares (leaves t) = toR tol.
  Proof.
    induction 1 as [a b tol d i e Hr Ht | a b tol d l r Ht Rl IHl Rr IHr]; cbn [leaves].
    - cbn. lra.
    - rewrite sum_shares_app, IHl, IHr, half_R. lra.
  Qed.

  Lemma integrate_sum_shares m f a b tol v : integrate o rule m f a b tol = Some v ->
    exists t, is_run o rule f a b tol 0 t /\ value o t = v /\ sum_shares (leaves t) = toR tol.
  Proof.
    intros H. destruct (integrate_run o rule m f a b tol v 0 H) as (t & R & Hv & _).
    exists t. split; [exact R|]. split; [exact Hv|]. exact (run_sum_shares _ _ _ _ _ _ R).
  Qed.

  (* I g a b: the exact integral of g on [a,b] (any additive interval function) *)
  Variable I : (F -> V) -> F -> F -> R.
  Variable g : F -> V.
  Hypothesis I_split : forall a b, I g a (o.(midpoint) a b) + I g (o.(midpoint) a b) b = I g a b.
  Hypothesis reliable : forall a b, Rabs (vR (fst (rule g a b)) - I g a b) <= eR (snd (rule g a b)).

  Lemma run_within f' a b tol d t : f' = g -> is_run o rule f' a b tol d t -> Rabs (vR (value o t) - I g a b) <= toR tol.
  Proof.
    intros ->. induction 1 as [a b tol d i e Hr Ht | a b tol d l r Ht Rl IHl Rr IHr]; cbn [value val].
    - pose proof (reliable a b) as H. rewrite Hr in H. cbn [fst snd] in H. pose proof (egt_R e tol Ht). lra.
    - rewrite vadd_R, <- (I_split a b). rewrite half_R in IHl, IHr.
      replace (vR (value o l) + vR (value o r) - (I g a (midpoint o a b) + I g (midpoint o a b) b))
        with ((vR (value o l) - I g a (midpoint o a b)) + (vR (value o r) - I g (midpoint o a b) b)) by ring.
      eapply Rle_trans; [apply Rabs_triang|]. lra.
  Qed.

  Lemma integrate_within m a b tol v : integrate o rule m g a b tol = Some v -> Rabs (vR v - I g a b) <= toR tol.
  Proof.
    intros H. destruct (integrate_run o rule m g a b tol v 0 H) as (t & R & Hv & _). rewrite <- Hv.
    exact (run_within g a b tol 0 t eq_refl R).
  Qed.

  (* the half-unbounded branches return 2 * (value accepted with the caller's tolerance) *)
  Hypothesis vtwice_R : forall x, vR (o.(vtwice) x) = 2 * vR x.
  Lemma twice_within m a b tol v :
    option_map o.(vtwice) (integrate o rule m g a b tol) = Some v -> Rabs (vR v - 2 * I g a b) <= 2 * toR tol.
  Proof.
    destruct (integrate o rule m g a b tol) as [w|] eqn:H; [|discriminate]. cbn [option_map]. intros [= <-].
    pose proof (integrate_within m a b tol w H) as Hw. rewrite vtwice_R.
    replace (2 * vR w - 2 * I g a b) with (2 * (vR w - I g a b)) by ring.
    rewrite Rabs_mult, (Rabs_right 2) by lra. lra.
  Qed.
End Exact.

(* -------------------------------------------------------------------------------------------------------------
   The acceptance test on binary64: an integrand that returns NaN makes the error estimate NaN, `NaN > tol` is false,
   the interval is accepted and the overload returns Some NaN (closed examples on the primitive-float instance, with
   a 3-point stand-in for the rule tables; the real code shows the same behaviour, see driver.cxx gkop). *)
Definition toyK : list (float * float) := [(0, 0x1p-3); (0.5, 0.75); (1, 0x1p-3)]%float.
Definition toyG : list (float * float) := [(0.5, 1)]%float.
Definition tol20 : float := 0x1p-20%float.
Definition nan_window : float -> float := integrand [1%float] [1%float] 0.25%float 0.5%float.   (* 1, NaN on [0.25, 0.5] *)
Definition no_window : float -> float := integrand [1%float] [1%float] 2%float 3%float.         (* 1 on [0,1] *)
Definition nan_estimate_is_accepted_stmt : Prop :=
  (gk4 fops (rule15 toyK toyG) 1 (fun _ => nan) 0%float 1%float tol20 = Some nan) /\
  (gk4 fops (rule15 toyK toyG) 5 nan_window 0%float 1%float tol20 = Some nan) /\
  (gk4_evals fops (rule15 toyK toyG) 5 nan_window 0%float 1%float tol20 = 1%nat) /\
  (gk4 fops (rule15 toyK toyG) 5 no_window 0%float 1%float tol20 = Some 1%float).
Lemma nan_estimate_is_accepted : nan_estimate_is_accepted_stmt.
Proof. unfold nan_estimate_is_accepted_stmt. repeat split; vm_compute; reflexivity. Qed.

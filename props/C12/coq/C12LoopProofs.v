(* C12 -- proofs about the time-loop models of C12Model.v (engine H), over the real instance. *)
From Coq Require Import Reals List Lra Lia.
From C12 Require Import C12Model.
Import ListNotations.
Local Open Scope R_scope.

(* ------------------------------------------------------------------------------------------------ part 3 *)
(* fixed-step loop of the pinned tree: ends in [tend, tend + h) *)
Lemma fixed_loop_bounds fuel h tend : 0 < h -> forall t r, t <= tend + 0 ->
  fixed_loop R Rplus Rltb fuel h tend t = Some r -> tend <= r < tend + h.
Proof.
  intros Hh. induction fuel as [|n IH]; intros t r Ht; simpl; [discriminate|].
  unfold Rltb at 1. destruct (Rlt_dec t tend) as [Hlt|Hge].
  - intros H. destruct (Rle_dec (t + h) tend) as [Hle|Hgt].
    + apply (IH (t + h) r); [lra|exact H].
    + destruct n; simpl in H; [discriminate|]. unfold Rltb in H at 1.
      destruct (Rlt_dec (t + h) tend); [lra|]. injection H as <-. lra.
  - intros H. injection H as <-. lra.
Qed.
(* clamped loop: ends at tend *)
Lemma fixedc_loop_exact fuel h tend : forall t r, t <= tend ->
  fixedc_loop R Rplus Rminus Rltb fuel h tend t = Some r -> r = tend.
Proof.
  induction fuel as [|n IH]; intros t r Ht; simpl; [discriminate|].
  unfold Rltb at 1. destruct (Rlt_dec t tend) as [Hlt|Hge].
  - unfold Rltb at 1. destruct (Rlt_dec h (tend - t)) as [Hs|Hl].
    + intros H. apply (IH (t + h) r); [lra|exact H].
    + intros H. now injection H as <-.
  - intros H. injection H as <-. lra.
Qed.

(* adaptive loops *)
Lemma adapt_loop_clamped_exact orc : forall n tf t dt r, t <= tf ->
  adapt_loop R Rplus Rminus Rmult Rhalf Rltb true orc n tf t dt = Some r -> fst (fst r) = tf.
Proof.
  induction orc as [|[acc fac] orc IH]; intros n tf t dt r Ht; simpl; unfold threshold, Rltb at 1;
    destruct (Rlt_dec t tf) as [Hlt|Hge]; try discriminate.
  - intros H. injection H as <-. simpl. lra.
  - intros H. eapply IH; [|exact H].
    destruct acc; [|lra]. unfold Rltb. destruct (Rlt_dec dt (tf - t)); lra.
  - intros H. injection H as <-. simpl. lra.
Qed.

(* pinned tree: the time reached never exceeds tf, and is within half of the last increment of it *)
Lemma adapt_loop_current_bounds orc : forall n tf t dt r, t <= tf -> (t < tf - dt / 2 -> t + dt <= tf) -> 0 <= dt ->
  (forall p, In p orc -> 0 <= snd p) ->
  adapt_loop R Rplus Rminus Rmult Rhalf Rltb false orc n tf t dt = Some r ->
  tf - snd (fst r) / 2 <= fst (fst r) <= tf.
Proof.
  induction orc as [|[acc fac] orc IH]; intros n tf t dt r Ht Hinv Hdt Hfac; simpl; unfold threshold, Rhalf, Rltb at 1;
    destruct (Rlt_dec t (tf - dt / 2)) as [Hlt|Hge]; try discriminate.
  - intros H. injection H as <-. simpl. lra.
  - intros H. specialize (Hinv Hlt).
    assert (Hf : 0 <= fac) by (apply (Hfac (acc, fac)); left; reflexivity).
    assert (Hrest : forall p, In p orc -> 0 <= snd p) by (intros p Hp; apply Hfac; right; exact Hp).
    assert (0 <= dt * fac) by (apply Rmult_le_pos; assumption).
    eapply IH; [| | |exact Hrest|exact H].
    + destruct acc; lra.
    + destruct acc; unfold Rltb.
      * destruct (Rlt_dec (t + dt) (tf - dt / 2)); [|lra].
        destruct (Rlt_dec (tf - (t + dt)) (dt * fac)); lra.
      * destruct (Rlt_dec t (tf - dt / 2)); [|lra].
        destruct (Rlt_dec (tf - t) (dt * fac)); lra.
    + destruct acc; unfold Rltb.
      * destruct (Rlt_dec (t + dt) (tf - dt / 2)); [|lra].
        destruct (Rlt_dec (tf - (t + dt)) (dt * fac)); lra.
      * destruct (Rlt_dec t (tf - dt / 2)); [|lra].
        destruct (Rlt_dec (tf - t) (dt * fac)); lra.
  - intros H. injection H as <-. simpl. lra.
Qed.

(* ---- statements at the level of the entry points *)
Lemma fixed_exe_bounds fuel h b e r : 0 < h -> b <= e -> fixed_exe_R fuel h b e = Some r -> e <= r < e + h.
Proof. intros Hh Hbe H. apply (fixed_loop_bounds fuel h e Hh b r); [lra|exact H]. Qed.

Ltac decide_tests :=
  repeat (match goal with
          | |- context [Rlt_dec ?a ?b] =>
              lazymatch a with
              | context [Rlt_dec] => fail
              | _ => lazymatch b with
                     | context [Rlt_dec] => fail
                     | _ => destruct (Rlt_dec a b); try lra
                     end
              end
          end).

(* y' = 1 on [0,1] with h = 3/10: the loop of the pinned tree stops at 6/5 *)
Lemma fixed_exe_overshoot : fixed_exe_R 10 (3 / 10) 0 1 = Some (0 + 3 / 10 + 3 / 10 + 3 / 10 + 3 / 10).
Proof. unfold fixed_exe_R, fixed_exe. simpl. unfold Rltb. decide_tests. reflexivity. Qed.
Lemma fixed_exe_refuted :
  exists fuel h b e r, 0 < h /\ b <= e /\ fixed_exe_R fuel h b e = Some r /\ r <> e.
Proof.
  exists 10%nat, (3 / 10), 0, 1, (0 + 3 / 10 + 3 / 10 + 3 / 10 + 3 / 10).
  repeat split; try lra. apply fixed_exe_overshoot.
Qed.
Lemma fixedc_exe_exact fuel h b e r : b <= e -> fixedc_exe_R fuel h b e = Some r -> r = e.
Proof. intros Hbe H. apply (fixedc_loop_exact fuel h e b r Hbe H). Qed.
(* the clamped loop does terminate: n steps of size h cover [b,e] as soon as n*h >= e - b (liveness, fuel = n + 1) *)
Lemma fixedc_loop_terminates h tend : 0 < h -> forall n t, tend - t <= INR n * h ->
  exists r, fixedc_loop R Rplus Rminus Rltb (S n) h tend t = Some r.
Proof.
  intros Hh. induction n as [|n IH]; intros t Ht.
  - simpl in *. unfold Rltb. destruct (Rlt_dec t tend); [lra|]. eexists; reflexivity.
  - rewrite S_INR in Ht. change (fixedc_loop R Rplus Rminus Rltb (S (S n)) h tend t)
      with (if Rltb t tend then (if Rltb h (tend - t) then fixedc_loop R Rplus Rminus Rltb (S n) h tend (t + h) else Some tend)
            else Some t).
    unfold Rltb at 1. destruct (Rlt_dec t tend); [|eexists; reflexivity].
    unfold Rltb at 1. destruct (Rlt_dec h (tend - t)); [|eexists; reflexivity].
    apply IH. lra.
Qed.

Lemma adapt_iterate_start clamped orc ti tf dt0 r :
  adapt_iterate_R clamped orc ti tf dt0 = Some r ->
  exists dt, 0 <= dt /\ ti + dt <= tf /\ adapt_loop R Rplus Rminus Rmult Rhalf Rltb clamped orc 0 tf ti dt = Some r.
Proof.
  unfold adapt_iterate_R, adapt_iterate, Rltb.
  destruct (Rlt_dec (tf - ti) dt0) as [H1|H1].
  - destruct (Rlt_dec (tf - ti) 0) as [H2|H2]; [discriminate|]. intros H. exists (tf - ti). repeat split; try lra. exact H.
  - destruct (Rlt_dec dt0 0) as [H2|H2]; [discriminate|]. intros H. exists dt0. repeat split; try lra. exact H.
Qed.

Lemma adapt_iterate_current_bounds orc ti tf dt0 r :
  (forall p, In p orc -> 0 <= snd p) ->
  adapt_iterate_R false orc ti tf dt0 = Some r -> tf - snd (fst r) / 2 <= fst (fst r) <= tf.
Proof.
  intros Hfac H. destruct (adapt_iterate_start _ _ _ _ _ _ H) as [dt [Hdt [Hle Hl]]].
  apply (adapt_loop_current_bounds orc 0 tf ti dt r); try assumption; lra.
Qed.

(* y' = 1 on [0,1], initial increment 7/10, first step accepted: the loop of the pinned tree stops at 7/10 *)
Lemma adapt_iterate_short : adapt_iterate_R false [(true, 2)] 0 1 (7 / 10) = Some (0 + 7 / 10, 7 / 10, 1%nat).
Proof.
  unfold adapt_iterate_R, adapt_iterate, adapt_loop, threshold, Rltb, Rhalf. decide_tests. reflexivity.
Qed.
Lemma adapt_iterate_refuted :
  exists orc ti tf dt0 r, (forall p, In p orc -> 0 < snd p) /\ ti < tf /\ 0 < dt0 /\
    adapt_iterate_R false orc ti tf dt0 = Some r /\ fst (fst r) <> tf.
Proof.
  exists [(true, 2)], 0, 1, (7 / 10), (0 + 7 / 10, 7 / 10, 1%nat).
  split; [intros p [<-|[]]; simpl; lra|]. repeat split; try lra. apply adapt_iterate_short. simpl. lra.
Qed.

Lemma adapt_iterate_clamped_exact orc ti tf dt0 r :
  adapt_iterate_R true orc ti tf dt0 = Some r -> fst (fst r) = tf.
Proof.
  intros H. destruct (adapt_iterate_start _ _ _ _ _ _ H) as [dt [Hdt [Hle Hl]]].
  apply (adapt_loop_clamped_exact orc 0 tf ti dt r); [lra|exact Hl].
Qed.


(* C12 -- the terms traced from the private members compute{Right,Left,}UnboundedIntegral(f, .) of /repo
   (C12_cv_gen.v, uninterpreted f) ARE post-factor x (15-point rule of table gk_K15 on [-1,1]) applied to the
   transformed integrands u_right / u_left / u_line of C12CV.v, with |K15 - G7| of the same integrand as estimate.
   The scripts do not depend on the shape of the traced terms: every traced application f(x) is rewritten into
   f(arg (node)) using the pairing printed by the tracer (one `field` per application), then the equation, linear in
   the 15 values of f, is closed by lra (coefficients are closed rational expressions). *)
From Coq Require Import Reals List QArith Qreals Lra.
From C12 Require Import C12Spec C12_gk_gen C12_cv_gen C12CV.
Import ListNotations.
Local Open Scope R_scope.

Ltac nz := repeat split; try (unfold Q2R; cbn [Qnum Qden]); timeout 20 lra.
(* xs: traced arguments, us: the table nodes in [0,1]; mk u builds the argument the specification evaluates f at *)
Ltac rw_cv f mk xs us :=
  lazymatch xs with
  | ?x :: ?xs' =>
      lazymatch us with
      | ?u :: ?us' =>
          let y := mk u in
          try (replace (f x) with (f y)
                by (apply f_equal; unfold arg_right, arg_left, arg_line, Q2R; cbn [Qnum Qden]; timeout 30 field; nz));
          rw_cv f mk xs' us'
      end
  | _ => idtac
  end.
Ltac abstract_apps f :=
  repeat match goal with |- context [f ?x] => let v := fresh "fv" in generalize (f x); intro v end.
Ltac close_cv f :=
  unfold quad, rsum, gk_K15, gk_G7, u_right, u_left, u_line; cbn [fold_right fst snd];
  abstract_apps f; unfold Q2R; cbn [Qnum Qden]; first [timeout 120 lra | timeout 300 (field; nz)].

Definition node_t (u : Q) : R := -1 + Q2R u * (1 - -1).

Lemma cv_right_rule f a :
  cv_right f a = [2 * quad gk_K15 (u_right f a) (-1) 1;
                  Rabs (quad gk_K15 (u_right f a) (-1) 1 - quad gk_G7 (u_right f a) (-1) 1)].
Proof.
  unfold cv_right; cbv zeta.
  let xs := eval cbv beta zeta delta [cv_right_args] in (cv_right_args a) in
  let us := eval cbv delta [cv_right_argnodes] in cv_right_argnodes in
  rw_cv f ltac:(fun u => constr:(arg_right a (-1 + Q2R u * (1 - -1)))) xs us.
  apply (f_equal2 (@cons R)); [|apply (f_equal2 (@cons R)); [apply f_equal|reflexivity]]; close_cv f.
Qed.

Lemma cv_left_rule f b :
  cv_left f b = [2 * quad gk_K15 (u_left f b) (-1) 1;
                 Rabs (quad gk_K15 (u_left f b) (-1) 1 - quad gk_G7 (u_left f b) (-1) 1)].
Proof.
  unfold cv_left; cbv zeta.
  let xs := eval cbv beta zeta delta [cv_left_args] in (cv_left_args b) in
  let us := eval cbv delta [cv_left_argnodes] in cv_left_argnodes in
  rw_cv f ltac:(fun u => constr:(arg_left b (-1 + Q2R u * (1 - -1)))) xs us.
  apply (f_equal2 (@cons R)); [|apply (f_equal2 (@cons R)); [apply f_equal|reflexivity]]; close_cv f.
Qed.

Lemma cv_line_rule f :
  cv_line f = [quad gk_K15 (u_line f) (-1) 1;
               Rabs (quad gk_K15 (u_line f) (-1) 1 - quad gk_G7 (u_line f) (-1) 1)].
Proof.
  unfold cv_line; cbv zeta.
  let xs := eval cbv beta zeta delta [cv_line_args] in cv_line_args in
  let us := eval cbv delta [cv_line_argnodes] in cv_line_argnodes in
  rw_cv f ltac:(fun u => constr:(arg_line (-1 + Q2R u * (1 - -1)))) xs us.
  apply (f_equal2 (@cons R)); [|apply (f_equal2 (@cons R)); [apply f_equal|reflexivity]]; close_cv f.
Qed.

(* the nodes of the rule on [-1,1] stay strictly inside (-1,1): the transformed integrands are never evaluated at
   the singular end t = -1 (half-unbounded) or t = +-1 (whole line) by the first rule evaluation *)
Lemma nodes_strictly_inside : Forall (fun p => -1 < node_t (fst p) < 1) gk_K15.
Proof. unfold gk_K15, node_t. repeat constructor; unfold Q2R; cbn [fst Qnum Qden]; lra. Qed.

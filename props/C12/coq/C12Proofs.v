(* C12 -- proofs.  Part 1: rules in general (moments => exactness on polynomials, with the integral as reference).
   Part 2: the terms traced from /repo (C12_gk_gen.v, C12_rk_gen.v) are the rules of their tables; the tactics do not
   depend on the shape of the traced terms.  (The time-loop models are in C12LoopProofs.v.) *)
From Coquelicot Require Import Coquelicot.
From Coq Require Import Reals List QArith Qreals Qabs Lra Lia Bool.
From C12 Require Import C12Spec C12Model C12_gk_gen C12_rk_gen.
Import ListNotations.
Local Open Scope R_scope.

(* ------------------------------------------------------------------------------------------------ part 1 *)
Lemma Q2R_Qred q : Q2R (Qred q) = Q2R q.
Proof. apply Qeq_eqR, Qred_correct. Qed.

Lemma Q2R_qpow q n : Q2R (qpow q n) = Q2R q ^ n.
Proof.
  induction n; [unfold qpow, Q2R; simpl; lra|].
  change (qpow q (S n)) with (Qred (q * qpow q n)). rewrite Q2R_Qred, Q2R_mult, IHn. reflexivity.
Qed.

Definition mom (tab : rule) (k : nat) : R := rsum tab (fun u => Q2R u ^ k).

Lemma Q2R_momentQ tab k : Q2R (momentQ tab k) = mom tab k.
Proof.
  unfold momentQ, mom, rsum. induction tab as [|p tab IH]; [unfold Q2R; simpl; lra|].
  cbn [fold_right]. rewrite Q2R_Qred, Q2R_plus, Q2R_mult, Q2R_qpow, IH. reflexivity.
Qed.

Lemma rsum_ext tab F G : (forall u, F u = G u) -> rsum tab F = rsum tab G.
Proof. intros H. unfold rsum. induction tab; simpl; [reflexivity|]. now rewrite H, IHtab. Qed.

Lemma rsum_lin tab c F G : rsum tab (fun u => c * F u + G u) = c * rsum tab F + rsum tab G.
Proof. unfold rsum. induction tab; simpl; [lra|]. rewrite IHtab. ring. Qed.

Fixpoint pmom (tab : rule) (k : nat) (d : list R) : R :=
  match d with [] => 0 | c :: d' => c * mom tab k + pmom tab (S k) d' end.

Lemma rsum_peval tab d : forall k, rsum tab (fun u => Q2R u ^ k * peval d (Q2R u)) = pmom tab k d.
Proof.
  induction d as [|c d IH]; intros k; simpl.
  - unfold rsum. induction tab; simpl; [reflexivity|]. rewrite IHtab. ring.
  - rewrite <- IH. unfold mom. rewrite <- rsum_lin. apply rsum_ext. intros u. simpl. ring.
Qed.

Lemma exactQ_R k : Q2R (exactQ k) = / INR (S k).
Proof.
  unfold exactQ, Q2R. cbn [Qnum Qden]. rewrite Rmult_1_l. f_equal. rewrite INR_IZR_INZ. f_equal.
  cbn [Z.of_nat]. now rewrite Pos.of_nat_succ.
Qed.

Lemma defect_bound tab deg eps k :
  moments_within tab deg eps = true -> (k <= deg)%nat -> Rabs (mom tab k - / INR (S k)) <= Q2R eps.
Proof.
  unfold moments_within. rewrite forallb_forall. intros H Hk.
  assert (Hin : In k (seq 0 (S deg))) by (apply in_seq; lia).
  specialize (H k Hin). apply Qle_bool_iff in H. unfold defectQ in H.
  apply Qabs_Qle_condition in H. destruct H as [H1 H2].
  apply Qle_Rle in H1, H2. rewrite Q2R_opp in H1. rewrite Q2R_minus, Q2R_momentQ, exactQ_R in H1, H2.
  apply Rabs_le. lra.
Qed.

Lemma pmom_bound tab eps d : forall k,
  (forall j, (j < length d)%nat -> Rabs (mom tab (k + j) - / INR (S (k + j))) <= eps) ->
  Rabs (pmom tab k d - pint_from k d) <= eps * l1norm d.
Proof.
  induction d as [|c d IH]; intros k H; cbn [pmom pint_from];
    [change (l1norm []) with 0 | change (l1norm (c :: d)) with (Rabs c + l1norm d)].
  - rewrite Rminus_0_r, Rabs_R0. lra.
  - assert (H0 := H 0%nat ltac:(simpl; lia)). rewrite Nat.add_0_r in H0.
    assert (H1 : Rabs (pmom tab (S k) d - pint_from (S k) d) <= eps * l1norm d).
    { apply IH. intros j Hj. specialize (H (S j) ltac:(simpl; lia)). now rewrite Nat.add_succ_r in H. }
    replace (c * mom tab k + pmom tab (S k) d - (c / INR (S k) + pint_from (S k) d))
      with (c * (mom tab k - / INR (S k)) + (pmom tab (S k) d - pint_from (S k) d)) by (unfold Rdiv; ring).
    pose proof (Rabs_triang (c * (mom tab k - / INR (S k))) (pmom tab (S k) d - pint_from (S k) d)) as Ht.
    rewrite Rabs_mult in Ht.
    assert (0 <= Rabs c) by apply Rabs_pos.
    assert (Rabs c * Rabs (mom tab k - / INR (S k)) <= Rabs c * eps) by (apply Rmult_le_compat_l; assumption).
    rewrite Rmult_plus_distr_l, (Rmult_comm eps (Rabs c)). lra.
Qed.

Theorem exact_to_of_moments tab deg eps :
  moments_within tab deg eps = true -> exact_to tab deg (Q2R eps).
Proof.
  intros Hm f a b d Hlen Hf. unfold quad, pint01.
  rewrite (rsum_ext tab _ (fun u => Q2R u ^ 0 * peval d (Q2R u))).
  2: { intros u. rewrite Hf. simpl. ring. }
  rewrite rsum_peval. rewrite <- Rmult_minus_distr_l, Rabs_mult, Rmult_assoc.
  apply Rmult_le_compat_l; [apply Rabs_pos|].
  apply pmom_bound. intros j Hj. simpl. apply (defect_bound tab deg eps j Hm). lia.
Qed.

(* exact rules: defect 0 gives equality *)
Corollary exact_to_zero tab deg f a b d :
  moments_within tab deg 0 = true -> (length d <= S deg)%nat -> is_local_poly f a b d ->
  quad tab f a b = (b - a) * pint01 d.
Proof.
  intros Hm Hl Hf. pose proof (exact_to_of_moments tab deg 0 Hm f a b d Hl Hf) as H.
  replace (Q2R 0) with 0 in H by (unfold Q2R; simpl; lra).
  rewrite Rmult_0_r, Rmult_0_l in H.
  assert (H0 := Rabs_pos (quad tab f a b - (b - a) * pint01 d)).
  assert (Rabs (quad tab f a b - (b - a) * pint01 d) = 0) by lra.
  destruct (Req_dec (quad tab f a b - (b - a) * pint01 d) 0) as [E|E]; [lra|].
  apply Rabs_no_R0 in E. contradiction.
Qed.

(* ---- the reference: (b-a) * pint01 d IS the integral over [a,b] of the polynomial (Coquelicot's Riemann integral) *)
Fixpoint psum (k : nat) (d : list R) (u : R) : R :=
  match d with [] => 0 | c :: d' => c * u ^ k + psum (S k) d' u end.
Fixpoint pprim (k : nat) (d : list R) (u : R) : R :=
  match d with [] => 0 | c :: d' => c * u ^ S k / INR (S k) + pprim (S k) d' u end.

Lemma psum_peval d : forall k u, psum k d u = u ^ k * peval d u.
Proof. induction d as [|c d IH]; intros k u; simpl; [ring|]. rewrite IH. simpl. ring. Qed.

Lemma pprim_derive d : forall k u, is_derive (pprim k d) u (psum k d u).
Proof.
  induction d as [|c d IH]; intros k u; simpl.
  - apply @is_derive_const.
  - apply (is_derive_plus (fun u => c * u ^ S k / INR (S k)) (pprim (S k) d) u); [|apply IH].
    auto_derive; [exact I|].
    change (match k with 0%nat => 1 | S _ => INR k + 1 end) with (INR (S k)).
    assert (INR (S k) <> 0) by (apply not_0_INR; lia).
    field. assumption.
Qed.

Lemma psum_continuous d : forall k u, continuous (psum k d) u.
Proof.
  induction d as [|c d IH]; intros k u; simpl.
  - apply continuous_const.
  - apply (continuous_plus (fun u => c * u ^ k) (psum (S k) d)); [|apply IH].
    apply (ex_derive_continuous (fun u => c * u ^ k)). auto_derive. exact I.
Qed.

Lemma pprim_ends d : forall k, pprim k d 1 - pprim k d 0 = pint_from k d.
Proof. induction d as [|c d IH]; intros k; simpl; [lra|]. rewrite <- IH, pow1, Rmult_0_l. unfold Rdiv. ring. Qed.

Lemma pint01_is_RInt d : is_RInt (peval d) 0 1 (pint01 d).
Proof.
  unfold pint01. rewrite <- pprim_ends.
  apply (is_RInt_ext (psum 0 d)); [intros x _; rewrite psum_peval; simpl; ring|].
  apply (is_RInt_derive (pprim 0 d) (psum 0 d)).
  - intros x _. apply pprim_derive.
  - intros x _. apply psum_continuous.
Qed.

Theorem local_poly_integral f a b d : a <> b -> is_local_poly f a b d ->
  is_RInt f a b ((b - a) * pint01 d).
Proof.
  intros Hab Hf.
  assert (H := pint01_is_RInt d).
  pose (u := / (b - a)). pose (v := - a / (b - a)).
  assert (Hba : b - a <> 0) by lra.
  assert (H' : is_RInt (peval d) (u * a + v) (u * b + v) (pint01 d)).
  { replace (u * a + v) with 0 by (unfold u, v; field; assumption).
    replace (u * b + v) with 1 by (unfold u, v; field; assumption). exact H. }
  apply (is_RInt_comp_lin (peval d) u v a b) in H'.
  apply (is_RInt_scal _ _ _ (b - a)) in H'.
  eapply is_RInt_ext; [|exact H'].
  intros x _. simpl. unfold scal; simpl; unfold mult; simpl.
  rewrite <- Hf. replace (a + (u * x + v) * (b - a)) with x by (unfold u, v; field; assumption).
  unfold u. field. assumption.
Qed.

(* ------------------------------------------------------------------------------------------------ part 2 *)
(* Rewrite every traced application f(arg) into f(A + u (B - A)) using the argument lists printed by the tracer
   (one `field` call per application), then abstract the values of f and close by `field`. *)
Ltac rw_args f A B xs us :=
  lazymatch xs with
  | ?x :: ?xs' =>
      lazymatch us with
      | ?u :: ?us' =>
          try (replace (f x) with (f (A + Q2R u * (B - A)))
                by (apply f_equal; unfold Q2R; cbn [Qnum Qden]; timeout 20 field));
          rw_args f A B xs' us'
      end
  | _ => idtac
  end.
Ltac abstract_apps f :=
  repeat match goal with |- context [f ?x] => let v := fresh "fv" in generalize (f x); intro v end.
Ltac close_rule f :=
  unfold quad, rsum; cbn [fold_right fst snd]; abstract_apps f; unfold Q2R; cbn [Qnum Qden]; timeout 120 field.
Ltac split_tests :=
  repeat match goal with |- context [if ?c then _ else _] => destruct c end.

(* ---- Gauss-Kronrod *)
Definition gk_spec (f : R -> R) (a b : R) (out : option (list R)) : Prop :=
  exists v e, out = Some [v; e] /\
    (a <= b -> v = quad gk_K15 f a b /\ e = Rabs (quad gk_K15 f a b - quad gk_G7 f a b)) /\
    (b < a -> v = - quad gk_K15 f b a /\ e = Rabs (quad gk_K15 f b a - quad gk_G7 f b a)).

Lemma gk_gen_spec f a b : gk_spec f a b (gk_gen f a b).
Proof.
  unfold gk_spec, gk_gen; cbv zeta. split_tests; (eexists; eexists; split; [reflexivity|]);
    (split; intros Hab; [try (exfalso; lra) | try (exfalso; lra)]).
  - (* a > b *)
    let xs := eval cbv beta zeta delta [gk_swp_args] in (gk_swp_args a b) in
    let us := eval cbv delta [gk_swp_argnodes] in gk_swp_argnodes in rw_args f b a xs us.
    unfold gk_K15, gk_G7. split; [|apply f_equal]; close_rule f.
  - let xs := eval cbv beta zeta delta [gk_fwd_args] in (gk_fwd_args a b) in
    let us := eval cbv delta [gk_fwd_argnodes] in gk_fwd_argnodes in rw_args f a b xs us.
    unfold gk_K15, gk_G7. split; [|apply f_equal]; close_rule f.
Qed.

(* moment conditions of the tables that the code contains today, by computation on Q *)
Definition epsK : Q := (4 # 1000000000000000)%Q.   (* 4e-15 *)
Definition epsG : Q := (1 # 1000000000000000)%Q.   (* 1e-15 *)
Lemma gk_K15_moments : moments_within gk_K15 22 epsK = true.
Proof. vm_compute. reflexivity. Qed.
Lemma gk_G7_moments : moments_within gk_G7 13 epsG = true.
Proof. vm_compute. reflexivity. Qed.
Lemma gk_nodes_inside : nodes_in_unit gk_K15 = true /\ nodes_in_unit gk_G7 = true.
Proof. split; vm_compute; reflexivity. Qed.
(* the rule is NOT better than announced: the Gauss moment of order 14 and the Kronrod moment of order 24 are off *)
Lemma gk_degrees_sharp : Qle_bool (defectQ gk_G7 14) epsK = false /\
                         Qle_bool (defectQ gk_K15 24) (1 # 10000000000000000) = false.
Proof. split; vm_compute; reflexivity. Qed.

Lemma gk_exact_K15 : exact_to gk_K15 22 (Q2R epsK).
Proof. apply exact_to_of_moments, gk_K15_moments. Qed.
Lemma gk_exact_G7 : exact_to gk_G7 13 (Q2R epsG).
Proof. apply exact_to_of_moments, gk_G7_moments. Qed.

(* the value returned on [a,b], a <= b, for a polynomial integrand of degree <= 22 *)
Lemma gk_value_poly f a b d : a <= b -> (length d <= 23)%nat -> is_local_poly f a b d ->
  exists v e, gk_gen f a b = Some [v; e] /\
    Rabs (v - (b - a) * pint01 d) <= (b - a) * Q2R epsK * l1norm d /\
    ((length d <= 14)%nat -> e <= (b - a) * (Q2R epsK + Q2R epsG) * l1norm d).
Proof.
  intros Hab Hl Hf. destruct (gk_gen_spec f a b) as [v [e [Hout [Hfw _]]]].
  destruct (Hfw Hab) as [Hv He]. exists v, e. split; [exact Hout|].
  pose proof (gk_exact_K15 f a b d Hl Hf) as HK. rewrite (Rabs_right (b - a)) in HK by lra.
  split; [now rewrite Hv|].
  intros Hl2. pose proof (gk_exact_G7 f a b d Hl2 Hf) as HG. rewrite (Rabs_right (b - a)) in HG by lra.
  rewrite He.
  replace (quad gk_K15 f a b - quad gk_G7 f a b)
    with ((quad gk_K15 f a b - (b - a) * pint01 d) - (quad gk_G7 f a b - (b - a) * pint01 d)) by ring.
  eapply Rle_trans; [apply Rabs_triang|]. rewrite Rabs_Ropp. lra.
Qed.

(* exchanging the bounds changes the sign of the value and keeps the error estimate *)
Lemma gk_swap f a b : a < b ->
  exists v e, gk_gen f a b = Some [v; e] /\ gk_gen f b a = Some [- v; e].
Proof.
  intros Hab.
  destruct (gk_gen_spec f a b) as [v [e [Hout [Hfw _]]]].
  destruct (gk_gen_spec f b a) as [v' [e' [Hout' [_ Hsw]]]].
  destruct (Hfw ltac:(lra)) as [Hv He]. destruct (Hsw Hab) as [Hv' He'].
  exists v, e. split; [exact Hout|]. rewrite Hout', Hv', He', Hv, He. reflexivity.
Qed.

(* ---- Runge-Kutta: one step for y' = g(t) is y0 + the rule of the tableau on [t0, t0+h] *)
Ltac rk_link g t0 h args argnodes tab :=
  let xs := eval cbv beta zeta delta [args] in (args t0 h) in
  let us := eval cbv delta [argnodes] in argnodes in rw_args g t0 (t0 + h) xs us;
  unfold tab; close_rule g.

Lemma rk2_outs_rule g t0 h y0 : Forall (fun o => o = y0 + quad rk2_tab g t0 (t0 + h)) (rk2_g_outs g t0 h y0).
Proof. unfold rk2_g_outs; cbv zeta. repeat constructor; rk_link g t0 h rk2_args rk2_argnodes rk2_tab. Qed.
Lemma rk4_outs_rule g t0 h y0 : Forall (fun o => o = y0 + quad rk4_tab g t0 (t0 + h)) (rk4_g_outs g t0 h y0).
Proof. unfold rk4_g_outs; cbv zeta. repeat constructor; rk_link g t0 h rk4_args rk4_argnodes rk4_tab. Qed.
Lemma rk42_outs_rule g t0 h y0 : Forall (fun o => o = y0 + quad rk42_tab g t0 (t0 + h)) (rk42_g_outs g t0 h y0).
Proof. unfold rk42_g_outs; cbv zeta. repeat constructor; rk_link g t0 h rk42_args rk42_argnodes rk42_tab. Qed.
Lemma rk54_outs_rule g t0 h y0 : Forall (fun o => o = y0 + quad rk54_tab g t0 (t0 + h)) (rk54_g_outs g t0 h y0).
Proof. unfold rk54_g_outs; cbv zeta. repeat constructor; rk_link g t0 h rk54_args rk54_argnodes rk54_tab. Qed.

Ltac in_outs := cbn [In]; repeat (first [left; reflexivity | right]).
(* every leaf of a decision tree: rejected (None), or infeasible under 0 < h, or one of the listed values *)
Ltac tree_leaves Houts :=
  split_tests; intros Hy;
  first [ discriminate Hy
        | exfalso; lra
        | injection Hy as <-; apply (proj1 (Forall_forall _ _) Houts); in_outs ].

Lemma rk2_step g t0 h y0 : rk2_g g t0 h y0 = [y0 + quad rk2_tab g t0 (t0 + h)].
Proof.
  pose proof (rk2_outs_rule g t0 h y0) as H. unfold rk2_g; cbv zeta. f_equal.
  apply (proj1 (Forall_forall _ _) H). unfold rk2_g_outs; cbv zeta. in_outs.
Qed.
Lemma rk4_step g t0 h y0 : rk4_g g t0 h y0 = [y0 + quad rk4_tab g t0 (t0 + h)].
Proof.
  pose proof (rk4_outs_rule g t0 h y0) as H. unfold rk4_g; cbv zeta. f_equal.
  apply (proj1 (Forall_forall _ _) H). unfold rk4_g_outs; cbv zeta. in_outs.
Qed.
Lemma rk42_step g t0 h y0 eps y : 0 < h -> rk42_g g t0 h y0 eps = Some [y] -> y = y0 + quad rk42_tab g t0 (t0 + h).
Proof.
  intros Hh. pose proof (rk42_outs_rule g t0 h y0) as H. unfold rk42_g_outs in H; cbv zeta in H.
  unfold rk42_g; cbv zeta. tree_leaves H.
Qed.
Lemma rk54_step g t0 h y0 eps y : 0 < h -> rk54_g g t0 h y0 eps = Some [y] -> y = y0 + quad rk54_tab g t0 (t0 + h).
Proof.
  intros Hh. pose proof (rk54_outs_rule g t0 h y0) as H. unfold rk54_g_outs in H; cbv zeta in H.
  unfold rk54_g; cbv zeta. tree_leaves H.
Qed.

(* acceptance is not vacuous: a constant right-hand side is integrated in one step whatever the tolerance *)
Ltac zero_abs :=
  repeat match goal with
         | |- context [Rabs ?x] => progress (replace x with 0 by (timeout 20 field))
         end; rewrite ?Rabs_R0.
Lemma rk42_accepts c t0 h y0 eps : 0 < h -> 0 < eps -> rk42_g (fun _ => c) t0 h y0 eps = Some [y0 + h * c].
Proof.
  intros Hh He. unfold rk42_g; cbv beta zeta. zero_abs.
  split_tests; first [exfalso; lra | apply (f_equal (@Some (list R))); apply (f_equal2 (@cons R)); [field | reflexivity]].
Qed.
Lemma rk54_accepts c t0 h y0 eps : 0 < h -> 0 < eps -> rk54_g (fun _ => c) t0 h y0 eps = Some [y0 + h * c].
Proof.
  intros Hh He. unfold rk54_g; cbv beta zeta. zero_abs.
  split_tests; first [exfalso; lra | apply (f_equal (@Some (list R))); apply (f_equal2 (@cons R)); [field | reflexivity]].
Qed.

(* order conditions (exact): sum b_i c_i^k = 1/(k+1) for k < order *)
Lemma rk_order_conditions :
  moments_within rk2_tab 1 0 = true /\ moments_within rk4_tab 3 0 = true /\
  moments_within rk42_tab 3 0 = true /\ moments_within rk54_tab 4 0 = true.
Proof. split; [|split; [|split]]; vm_compute; reflexivity. Qed.
(* and not beyond: the announced orders are sharp *)
Lemma rk_order_sharp :
  moments_within rk2_tab 2 0 = false /\ moments_within rk4_tab 4 0 = false /\ moments_within rk42_tab 4 0 = false /\
  moments_within rk54_tab 5 0 = false.
Proof. split; [|split; [|split]]; vm_compute; reflexivity. Qed.

(* linear problem y' = lam y: the step multiplies y0 by the Taylor polynomial of exp(lam h) of the scheme's order *)
Ltac lin_leaf := cbv [taylor_exp fact Nat.mul Nat.add INR]; timeout 120 field.
Lemma rk2_lin_step lam t0 h y0 : rk2_lin lam t0 h y0 = [y0 * taylor_exp 2 (lam * h)].
Proof. unfold rk2_lin; cbv zeta. f_equal. lin_leaf. Qed.
Lemma rk4_lin_step lam t0 h y0 : rk4_lin lam t0 h y0 = [y0 * taylor_exp 4 (lam * h)].
Proof. unfold rk4_lin; cbv zeta. f_equal. lin_leaf. Qed.
Lemma rk42_lin_outs_ok lam t0 h y0 : Forall (fun o => o = y0 * taylor_exp 4 (lam * h)) (rk42_lin_outs lam t0 h y0).
Proof. unfold rk42_lin_outs; cbv zeta. repeat constructor; lin_leaf. Qed.
Lemma rk54_lin_outs_ok lam t0 h y0 :
  Forall (fun o => o = y0 * (taylor_exp 5 (lam * h) + (lam * h) ^ 6 / 2080)) (rk54_lin_outs lam t0 h y0).
Proof. unfold rk54_lin_outs; cbv zeta. repeat constructor; lin_leaf. Qed.
Lemma rk42_lin_step lam t0 h y0 eps y : 0 < h -> rk42_lin lam t0 h y0 eps = Some [y] -> y = y0 * taylor_exp 4 (lam * h).
Proof.
  intros Hh. pose proof (rk42_lin_outs_ok lam t0 h y0) as H. unfold rk42_lin_outs in H; cbv zeta in H.
  unfold rk42_lin; cbv zeta. tree_leaves H.
Qed.
Lemma rk54_lin_step lam t0 h y0 eps y : 0 < h -> rk54_lin lam t0 h y0 eps = Some [y] ->
  y = y0 * (taylor_exp 5 (lam * h) + (lam * h) ^ 6 / 2080).
Proof.
  intros Hh. pose proof (rk54_lin_outs_ok lam t0 h y0) as H. unfold rk54_lin_outs in H; cbv zeta in H.
  unfold rk54_lin; cbv zeta. tree_leaves H.
Qed.

(* polynomial right-hand sides of degree below the order are integrated exactly by one step *)
Lemma rk_poly_exact tab deg g t0 h d :
  moments_within tab deg 0 = true -> (length d <= S deg)%nat -> is_local_poly g t0 (t0 + h) d ->
  quad tab g t0 (t0 + h) = h * pint01 d.
Proof.
  intros Hm Hl Hg. rewrite (exact_to_zero tab deg g t0 (t0 + h) d Hm Hl Hg). f_equal. ring.
Qed.

Lemma rk_poly_exact_all g t0 h y0 d : is_local_poly g t0 (t0 + h) d ->
  ((length d <= 2)%nat -> rk2_g g t0 h y0 = [y0 + h * pint01 d]) /\
  ((length d <= 4)%nat -> rk4_g g t0 h y0 = [y0 + h * pint01 d]) /\
  ((length d <= 4)%nat -> forall eps y, 0 < h -> rk42_g g t0 h y0 eps = Some [y] -> y = y0 + h * pint01 d) /\
  ((length d <= 5)%nat -> forall eps y, 0 < h -> rk54_g g t0 h y0 eps = Some [y] -> y = y0 + h * pint01 d).
Proof.
  intros Hg. destruct rk_order_conditions as [H2 [H4 [H42 H54]]]. repeat split.
  - intros Hl. rewrite rk2_step, (rk_poly_exact rk2_tab 1 g t0 h d H2 Hl Hg). reflexivity.
  - intros Hl. rewrite rk4_step, (rk_poly_exact rk4_tab 3 g t0 h d H4 Hl Hg). reflexivity.
  - intros Hl eps y Hh Hy. rewrite (rk42_step g t0 h y0 eps y Hh Hy), (rk_poly_exact rk42_tab 3 g t0 h d H42 Hl Hg). reflexivity.
  - intros Hl eps y Hh Hy. rewrite (rk54_step g t0 h y0 eps y Hh Hy), (rk_poly_exact rk54_tab 4 g t0 h d H54 Hl Hg). reflexivity.
Qed.

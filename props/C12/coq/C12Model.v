(* C12 -- hand-written executable models (engine H) of the time loops of the Runge-Kutta integrators.
   Definitions only.  The models are written once over an abstract scalar (operations passed as section
   variables) and instantiated with Q (exact execution, correspondence with the C++) and with R (theorems).

   What is modelled is the control skeleton only: which time is reached and with which increment; the stage
   computations are covered by the traced single step (C12_rk_gen.v).  For the adaptive schemes the outcome of the
   error test of each loop iteration (accepted?, multiplier 0.8*(eps/e)^(1/order)) is an input of the model (an oracle
   list), so the theorems hold for every sequence of acceptances, rejections and multipliers. *)
From Coq Require Import List Reals QArith Bool.
Import ListNotations.

Section Loops.
  Variable T : Type.
  Variables (add sub mul : T -> T -> T) (half : T -> T) (ltb : T -> T -> bool) (zero : T).

  (* ---- RungeKutta2::exe / RungeKutta4::exe of the pinned tree:
         this->t = begin; while (this->t < end) { this->increm(); }          increm: t += h *)
  Fixpoint fixed_loop (fuel : nat) (h tend t : T) : option T :=
    match fuel with
    | O => None
    | S n => if ltb t tend then fixed_loop n h tend (add t h) else Some t
    end.
  Definition fixed_exe (fuel : nat) (h tbegin tend : T) : option T := fixed_loop fuel h tend tbegin.

  (* ---- the same loop with the last step clamped (props/C12/fix_rk_final_time.diff):
         while (t < end) { if (h < end - t) increm(); else { step of size end - t; t = end; } } *)
  Fixpoint fixedc_loop (fuel : nat) (h tend t : T) : option T :=
    match fuel with
    | O => None
    | S n => if ltb t tend then (if ltb h (sub tend t) then fixedc_loop n h tend (add t h) else Some tend) else Some t
    end.
  Definition fixedc_exe (fuel : nat) (h tbegin tend : T) : option T := fixedc_loop fuel h tend tbegin.

  (* ---- RungeKutta42::iterate / RungeKutta54::iterate.
     clamped = false: the pinned tree,
         while (t < tf - dt/2) { ...; if (e < eps) { y += ...; t += dt; }
                                 if (t < tf - dt/2) { dt *= fac; if (dt > tf - t) dt = tf - t; } }
     clamped = true: the loop of props/C12/fix_rk_final_time.diff,
         while (t < tf) { ...; if (e < eps) { y += ...; t = (dt < tf - t) ? t + dt : tf; }
                          if (t < tf) { dt *= fac; if (dt > tf - t) dt = tf - t; } }
     result: (time reached, last increment, number of loop iterations) *)
  Definition threshold (clamped : bool) (tf dt : T) : T := if clamped then tf else sub tf (half dt).
  Fixpoint adapt_loop (clamped : bool) (orc : list (bool * T)) (n : nat) (tf t dt : T) : option (T * T * nat) :=
    if ltb t (threshold clamped tf dt) then
      match orc with
      | [] => None
      | (acc, fac) :: orc' =>
          let t' := if acc then (if clamped then (if ltb dt (sub tf t) then add t dt else tf) else add t dt) else t in
          let dt' := if ltb t' (threshold clamped tf dt)
                     then (let d := mul dt fac in if ltb (sub tf t') d then sub tf t' else d)
                     else dt in
          adapt_loop clamped orc' (S n) tf t' dt'
      end
    else Some (t, dt, n).
  (* dt = std::min(dt, tf - ti); if (dt < 0) throw *)
  Definition adapt_iterate (clamped : bool) (orc : list (bool * T)) (ti tf dt0 : T) : option (T * T * nat) :=
    let dt := if ltb (sub tf ti) dt0 then sub tf ti else dt0 in
    if ltb dt zero then None else adapt_loop clamped orc O tf ti dt.
End Loops.

(* exact execution *)
Definition Qltb (a b : Q) : bool := match Qcompare a b with Lt => true | _ => false end.
Definition Qhalf (a : Q) : Q := Qred (a * (1 # 2)).
Definition Qadd (a b : Q) : Q := Qred (a + b).
Definition Qsub (a b : Q) : Q := Qred (a - b).
Definition Qmul (a b : Q) : Q := Qred (a * b).
Definition fixed_exe_Q := fixed_exe Q Qadd Qltb.
Definition fixedc_exe_Q := fixedc_exe Q Qadd Qsub Qltb.
Definition adapt_iterate_Q := adapt_iterate Q Qadd Qsub Qmul Qhalf Qltb 0%Q.

(* theorems *)
Definition Rltb (a b : R) : bool := if Rlt_dec a b then true else false.
Definition Rhalf (a : R) : R := (a / 2)%R.
Definition fixed_exe_R := fixed_exe R Rplus Rltb.
Definition fixedc_exe_R := fixedc_exe R Rplus Rminus Rltb.
Definition adapt_iterate_R := adapt_iterate R Rplus Rminus Rmult Rhalf Rltb 0%R.

(* C12 -- "stops exactly at the final time", RungeKutta42::iterate / RungeKutta54::iterate with the exit test on tf
   (model adapt_iterate true; selected by check.py when that model is the one that corresponds to /repo). *)
From Coq Require Import Reals List.
From C12 Require Import C12Model C12LoopProofs.
Local Open Scope R_scope.

(* for every sequence of acceptances, rejections and multipliers: if the loop ends, it ends at tf *)
Theorem C12_adaptive_stops_at_final_time : forall orc ti tf dt0 r,
  adapt_iterate_R true orc ti tf dt0 = Some r -> fst (fst r) = tf.
Proof. exact adapt_iterate_clamped_exact. Qed.
Print Assumptions C12_adaptive_stops_at_final_time.

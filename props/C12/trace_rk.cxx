// C12: tracer (engine S) of one step of RungeKutta2/4/42/54.
//   trace_rk gen <out.v> <seed> : prints C12_rk_gen.v (traced step for y' = g(t), g uninterpreted, and for y' = lam*y;
//   decision trees for the adaptive schemes; tableaux (c_i, b_i) read off the traces as Q data) and AGREE lines
#ifndef NDEBUG
#define NDEBUG  // RungeKutta54.ixx asserts e >= 0 on a symbolic value
#endif
#include "symtfel.hxx"
#include "TFEL/Math/tvector.hxx"
#include "TFEL/Math/RungeKutta2.hxx"
#include "TFEL/Math/RungeKutta4.hxx"
#include "TFEL/Math/RungeKutta42.hxx"
#include "TFEL/Math/RungeKutta54.hxx"
#include "ratx.hxx"
#include <cstring>
#include <iostream>

using tfel::math::tvector;

// right-hand sides: mode 0: y' = g(t);  mode 1: y' = lam * y
template <typename T>
struct Rhs {
  int mode = 0;
  T lam{};
  std::function<T(T)> g;
  mutable int calls = 0;
  int max_calls = 1000000;
  T operator()(const T t, const T y) const {
    if (++calls > max_calls) throw std::runtime_error("step rejected (evaluation budget of one step exhausted)");
    return mode == 0 ? g(t) : T(lam * y);
  }
};
template <typename T>
struct RK2 : tfel::math::RungeKutta2<1, T, RK2<T>> {
  Rhs<T> rhs;
  void computeF(const T t, const tvector<1, T>& y) { this->f(0) = rhs(t, y(0)); }
};
template <typename T>
struct RK4 : tfel::math::RungeKutta4<1, T, RK4<T>> {
  Rhs<T> rhs;
  void computeF(const T t, const tvector<1, T>& y) { this->f(0) = rhs(t, y(0)); }
};
template <typename T>
struct RK42 : tfel::math::RungeKutta42<1, RK42<T>, T> {
  Rhs<T> rhs;
  T computeF(const T t, const T& y) const { return rhs(t, y); }
};
// RungeKutta54<1,...> does not compile in the pinned tree (eval(scalar)); a second, idle component is carried
template <typename T>
struct RK54 : tfel::math::RungeKutta54<2, RK54<T>, T> {
  Rhs<T> rhs;
  tvector<2, T> computeF(const T t, const tvector<2, T>& y) const {
    tvector<2, T> r;
    r(0) = rhs(t, y(0));
    r(1) = T(0);
    return r;
  }
};
// one step of size h from (t0, y0); which: 0 RK2, 1 RK4, 2 RK42, 3 RK54.  For the adaptive schemes the integration range
// is [t0, t0+h] with initial increment h: the first accepted step is the whole range; a rejected first step throws
// (the budget of right-hand-side evaluations is that of one step)
template <typename T>
T rk_step(int which, const Rhs<T>& rhs, const T t0, const T h, const T y0, const T eps) {
  switch (which) {
    case 0: {
      RK2<T> s;
      s.rhs = rhs;
      tvector<1, T> y;
      y(0) = y0;
      s.set_y(y);
      s.set_t(t0);
      s.set_h(h);
      s.increm();
      return s.get_y()(0);
    }
    case 1: {
      RK4<T> s;
      s.rhs = rhs;
      tvector<1, T> y;
      y(0) = y0;
      s.set_y(y);
      s.set_t(t0);
      s.set_h(h);
      s.increm();
      return s.get_y()(0);
    }
    case 2: {
      RK42<T> s;
      s.rhs = rhs;
      s.rhs.max_calls = 4;
      s.setInitialValue(y0);
      s.setInitialTime(t0);
      s.setFinalTime(t0 + h);
      s.setInitialTimeIncrement(h);
      s.setCriterionValue(eps);
      s.iterate();
      return s.getValue();
    }
    default: {
      RK54<T> s;
      s.rhs = rhs;
      s.rhs.max_calls = 6;
      tvector<2, T> y;
      y(0) = y0;
      y(1) = T(0);
      s.setInitialValue(y);
      s.setInitialTime(t0);
      s.setFinalTime(t0 + h);
      s.setInitialTimeIncrement(h);
      s.setCriterionValue(eps);
      s.iterate();
      return s.getValue()(0);
    }
  }
}
static const char* rkname[4] = {"rk2", "rk4", "rk42", "rk54"};

static double gfun(double x) { return std::sin(1.3 * x) + 0.25 * x * x - 0.5 * x; }

int main(int argc, char** argv) {
  if (argc >= 3 && !std::strcmp(argv[1], "gen")) {
    const uint64_t seed = argc >= 4 ? std::strtoull(argv[3], nullptr, 10) : 1;
    Printer::exact_dyadic() = true;
    Trace tr("C12_rk_gen");
    tr.raw("From Coq Require Import QArith.\nLocal Open Scope R_scope.\n\n");
    Rng rng(seed);
    const UFunEval uf = [](const std::string&, const std::vector<long double>& xs) -> long double {
      const long double x = xs.at(0);
      return std::sin(1.3L * x) + 0.25L * x * x - 0.5L * x;
    };
    // ---------------- Runge-Kutta single steps
    {
      const Sym t0 = var("t0"), h = var("h"), y0 = var("y0"), eps = var("eps"), lam = var("lam");
      for (int w = 0; w < 4; ++w) {
        Rhs<Sym> rg;
        rg.mode = 0;
        rg.g = [](Sym x) { return ufun("g", {x}); };
        Rhs<Sym> rl;
        rl.mode = 1;
        rl.lam = lam;
        const std::string nm = rkname[w];
        std::vector<Leaf> lg, ll;
        tr.raw("Section RK_" + nm + ".\nVariable g : R -> R.\n");
        if (w < 2) {
          const Sym yg = rk_step<Sym>(w, rg, t0, h, y0, eps);
          tr.def(nm + "_g", {t0, h, y0}, {yg});
          tr.raw("End RK_" + nm + ".\n\n");
          const Sym yl = rk_step<Sym>(w, rl, t0, h, y0, eps);
          tr.def(nm + "_lin", {lam, t0, h, y0}, {yl});
          Leaf L1;
          L1.out = {yg};
          lg.push_back(L1);
          Leaf L2;
          L2.out = {yl};
          ll.push_back(L2);
        } else {
          lg = tr.def_paths(nm + "_g", {t0, h, y0, eps}, [&] { return std::vector<Sym>{rk_step<Sym>(w, rg, t0, h, y0, eps)}; });
          tr.raw("End RK_" + nm + ".\n\n");
          ll = tr.def_paths(nm + "_lin", {lam, t0, h, y0, eps}, [&] { return std::vector<Sym>{rk_step<Sym>(w, rl, t0, h, y0, eps)}; });
        }
        // tableau (c_i, b_i): every distinct value returned by an accepting leaf must carry the same table
        RatEnv e01{{"t0", Rat{0, 1}}, {"h", Rat{1, 1}}, {"y0", Rat{0, 1}}, {"eps", Rat{1, 1}}};
        std::vector<Sym> outs, louts;
        std::vector<Rule> rules;
        size_t nacc = 0;
        for (auto& L : lg) {
          if (!L.error.empty()) continue;
          ++nacc;
          bool dup = false;
          for (auto& o : outs) dup = dup || node_of(o) == node_of(L.out.at(0));
          if (dup) continue;
          Rule R0 = rule_table(L.out[0], "g", e01);
          if (R0.tab.empty()) continue;  // no step taken (leaf only reachable with h <= 0): discarded by the Coq side under 0 < h
          outs.push_back(L.out[0]);
          rules.push_back(R0);
          if (!same_table(rules[0].tab, rules.back().tab)) {
            for (auto& R : rules) {
              std::printf("TABLES");
              for (auto& kv : R.tab) std::printf(" (%.17g, %.17g)", rdouble(kv.first), rdouble(kv.second));
              std::printf("\n");
            }
            std::printf("TRACE-FAIL %s: accepting leaves carry different tableaux\n", nm.c_str());
            return 1;
          }
        }
        for (auto& L : ll) {
          if (!L.error.empty()) continue;
          bool dup = false;
          for (auto& o : louts) dup = dup || node_of(o) == node_of(L.out.at(0));
          if (!dup && node_of(L.out[0]) != node_of(y0)) louts.push_back(L.out[0]);
        }
        if (outs.empty() || louts.empty()) {
          std::printf("TRACE-FAIL %s: no accepting leaf\n", nm.c_str());
          return 1;
        }
        const auto& tab = rules[0].tab;
        tr.raw(table_def(nm + "_tab", tab));
        args_def(tr, nm, {t0, h}, rules);
        // the distinct values returned by accepting leaves
        tr.raw("Section RKo_" + nm + ".\nVariable g : R -> R.\n");
        tr.def(nm + "_g_outs", {t0, h, y0}, outs);
        tr.raw("End RKo_" + nm + ".\n\n");
        tr.def(nm + "_lin_outs", {lam, t0, h, y0}, louts);
        std::printf("TABLE %s_tab %zu leaves %zu accepting %zu distinct %zu\n", nm.c_str(), tab.size(), lg.size(), nacc, outs.size());
        for (auto& kv : tab) std::printf("NODE %s %.17g %.17g\n", nm.c_str(), rdouble(kv.first), rdouble(kv.second));
        // agreement with the double instantiation (both right-hand sides)
        for (int i = 0; i < 60; ++i) {
          const double tv = rng.range(-2, 2), hv = rng.range(0.01, 1.5), yv = rng.range(-2, 2), lv = rng.range(-1.5, 1.5);
          const double ev = std::pow(10., rng.range(-9, 1));
          for (int mode = 0; mode < 2; ++mode) {
            Env env{{"t0", tv}, {"h", hv}, {"y0", yv}, {"eps", ev}, {"lam", lv}};
            std::vector<long double> r;
            std::string err;
            const bool found = eval_leaves(mode == 0 ? lg : ll, env, r, &err, &uf);
            Rhs<double> rd;
            rd.mode = mode;
            rd.lam = lv;
            rd.g = [](double x) { return gfun(x); };
            bool threw = false;
            double d = 0;
            try {
              d = rk_step<double>(w, rd, tv, hv, yv, ev);
            } catch (std::exception&) {
              threw = true;
            }
            bool ok;
            if (!found) ok = false;
            else if (!err.empty() || threw) ok = (!err.empty()) == threw;
            else ok = r.size() == 1 && close(d, r[0], 4.0L, 1e-13L);
            // a step whose error estimate sits on an acceptance threshold may legitimately differ by rounding
            std::printf("%s %s mode%d t0=%.17g h=%.17g y0=%.17g eps=%.3g lam=%.17g -> %s %.17g\n", ok ? "AGREE" : "AGREE-FAIL", nm.c_str(), mode, tv,
                        hv, yv, ev, lv, threw ? "rejected" : "accepted", d);
          }
        }
      }
    }
    tr.write(argv[2]);
    return 0;
  }
  std::fprintf(stderr, "usage: trace gen <out.v> [seed]\n");
  return 2;
}

// C12: tracer (engine S) of GaussKronrodQuadrature.
//   trace_gk gen <out.v> <seed> : prints C12_gk_gen.v (the decision tree of gauss_kronrod_integrate(f,a,b) for an
//   uninterpreted integrand f, double literals printed as their exact dyadic value; the Kronrod and Gauss rule tables
//   read off the trace as Q data) and AGREE lines (Sym trace vs the same code instantiated with double)
// The constants of GaussKronrodQuadrature::integrate are `constexpr base_type<real>` used in lambdas without capture,
// which only instantiates for a fundamental base type: base_type<Sym> is double in this translation unit.
#define VERIF_SYM_BASETYPE_DOUBLE 1
#define VERIF_SYM_EXACT_DOUBLES 1  // constants are exactly the doubles of the code, never nearby rationals
#include "symtfel.hxx"
#include "TFEL/Math/NumericalIntegration/GaussKronrodQuadrature.hxx"
#include "ratx.hxx"
#include <cstring>
#include <iostream>
#include <optional>

// ---------------------------------------------------------------------------------------------------------
// the code under trace, generic in the scalar
template <typename T, typename F>
std::vector<T> gk_call(F f, const T a, const T b) {
  const auto r = tfel::math::gauss_kronrod_integrate(f, a, b);
  if (!r.has_value()) throw std::runtime_error("nullopt");
  return {std::get<0>(*r), std::get<1>(*r)};
}

static double gfun(double x) { return std::sin(1.3 * x) + 0.25 * x * x - 0.5 * x; }

int main(int argc, char** argv) {
  if (argc >= 3 && !std::strcmp(argv[1], "gen")) {
    const uint64_t seed = argc >= 4 ? std::strtoull(argv[3], nullptr, 10) : 1;
    Printer::exact_dyadic() = true;
    Trace tr("C12_gk_gen");
    tr.raw("From Coq Require Import QArith.\nLocal Open Scope R_scope.\n\n");
    Rng rng(seed);
    const UFunEval uf = [](const std::string&, const std::vector<long double>& xs) -> long double {
      const long double x = xs.at(0);
      return std::sin(1.3L * x) + 0.25L * x * x - 0.5L * x;
    };
    // ---------------- Gauss-Kronrod
    {
      const Sym a = var("a"), b = var("b");
      auto f = [](const Sym x) { return ufun("f", {x}); };
      tr.raw("Section GK.\nVariable f : R -> R.\n");
      auto leaves = tr.def_paths("gk_gen", {a, b}, [&] { return gk_call<Sym>(f, a, b); });
      tr.raw("End GK.\n\n");
      // tables from the leaf "not (a > b)" (integrate(f,a,b)): K15 from the value, G7 from value - signed estimate;
      // the leaf "a > b" (integrate(f,b,a), negated) must yield the same tables with the bounds exchanged
      const Leaf* fwd = nullptr;
      const Leaf* swp = nullptr;
      for (auto& L : leaves)
        if (L.error.empty() && L.conds.size() == 1 && L.out.size() == 2) (L.conds[0].value ? swp : fwd) = &L;
      if (leaves.size() != 2 || fwd == nullptr || swp == nullptr) {
        std::printf("TRACE-FAIL gk: expected the two leaves (a > b) / not (a > b), got %zu\n", leaves.size());
        return 1;
      }
      std::vector<std::pair<Rat, Rat>> Kt[2], Gt[2];
      std::vector<Rule> rules;
      for (int s = 0; s < 2; ++s) {
        const Leaf* L = s == 0 ? fwd : swp;
        RatEnv e01 = s == 0 ? RatEnv{{"a", Rat{0, 1}}, {"b", Rat{1, 1}}} : RatEnv{{"a", Rat{1, 1}}, {"b", Rat{0, 1}}};
        Rule K = rule_table(L->out[0], "f", e01);
        if (s == 1)
          for (auto& kv : K.tab) kv.second = rneg(kv.second);  // the swapped leaf returns -integrate(f,b,a)
        // the error estimate is |k15 - g7|: its argument is the trace below the outermost abs
        const Node en = Store::get().nodes[node_of(L->out[1])];
        if (en.op != ABS) {
          std::printf("TRACE-FAIL gk: error estimate is not an absolute value\n");
          return 1;
        }
        Rule D = rule_table(from_node(en.a), "f", e01);  // K15 - G7 as one rule
        for (auto& kv : K.tab) {
          Rat w = kv.second;
          for (auto& dv : D.tab)
            if (req(dv.first, kv.first)) w = radd(w, rneg(dv.second));
          if (w.n != 0) Gt[s].push_back({kv.first, w});
        }
        Kt[s] = K.tab;
        rules.push_back(K);
        rules.push_back(D);
      }
      if (!same_table(Kt[0], Kt[1]) || !same_table(Gt[0], Gt[1])) {
        std::printf("TRACE-FAIL gk: the two leaves do not carry the same rule\n");
        return 1;
      }
      const auto& K = Kt[0];
      const auto& G = Gt[0];
      tr.raw(table_def("gk_K15", K));
      tr.raw(table_def("gk_G7", G));
      args_def(tr, "gk_fwd", {a, b}, {rules[0], rules[1]});
      args_def(tr, "gk_swp", {a, b}, {rules[2], rules[3]});
      std::printf("TABLE gk_K15 %zu gk_G7 %zu\n", K.size(), G.size());
      for (auto& kv : K) std::printf("NODE K %.17g %.17g\n", rdouble(kv.first), rdouble(kv.second));
      for (auto& kv : G) std::printf("NODE G %.17g %.17g\n", rdouble(kv.first), rdouble(kv.second));
      // agreement Sym tree vs double instantiation
      for (int i = 0; i < 200; ++i) {
        double av = rng.range(-3, 3), bv = rng.range(-3, 3);
        if (i % 5 == 0) std::swap(av, bv);
        if (i == 0) bv = av;
        Env env{{"a", av}, {"b", bv}};
        std::vector<long double> r;
        if (!eval_leaves(leaves, env, r, nullptr, &uf) || r.size() != 2) {
          std::printf("AGREE-FAIL gk no leaf for %.17g %.17g\n", av, bv);
          continue;
        }
        auto d = gk_call<double>([](const double x) { return gfun(x); }, av, bv);
        const long double scale = std::fabs(bv - av) * 3;
        bool ok = close(d[0], r[0], scale, 1e-13L) && close(d[1] + scale, r[1] + scale, scale, 1e-13L);
        std::printf("%s gk %.17g %.17g -> %.17g %.3g\n", ok ? "AGREE" : "AGREE-FAIL", av, bv, d[0], d[1]);
      }
    }
    tr.write(argv[2]);
    return 0;
  }
  std::fprintf(stderr, "usage: trace gen <out.v> [seed]\n");
  return 2;
}

"""C12 -- cases, parsers and the independent statement of the property for the tie of the Gallina model of the 4-argument
GaussKronrodQuadrature::operator() (coq/C12GKModel.v, instance coq/C12GKFloat.v) to the real code (driver.cxx gkop)."""
import math, re, struct
from fractions import Fraction as F

NAN, INF = float("nan"), float("inf")
DMAX = 1.7976931348623157e308
TOLS = [0.0, 1e-300, 1e-14, 1e-10, 1e-8, 1e-6, 1e-3, 0.5, 1.0, 1e300, INF, NAN, -1.0, 5e-324]


def bits(x):
    return "nan" if x != x else struct.pack(">d", x).hex()


def hx(x):
    if x != x:
        return "nan"
    if math.isinf(x):
        return "inf" if x > 0 else "-inf"
    return x.hex()


def cq(x):
    if x != x:
        return "nan"
    if math.isinf(x):
        return "infinity" if x > 0 else "neg_infinity"
    if x == 0:
        return "(-0)" if math.copysign(1, x) < 0 else "0"
    h = x.hex()
    return "(%s)" % h if h.startswith("-") else h


def cql(v):
    return "[" + "; ".join(cq(x) for x in v) + "]"


def code_is_inf(x):
    """the `is_infinite` lambda of the 4-argument overload"""
    return math.isinf(x) or x >= DMAX or x <= -DMAX


class Case:
    def __init__(self, cid, kind, m, tol, a, b, p, q=(1.0,), c=1.0, d=0.0, twin=None):
        self.id, self.kind, self.m, self.tol, self.a, self.b = cid, kind, m, tol, a, b
        self.p, self.q, self.c, self.d, self.twin = list(p), list(q), c, d, twin

    def line(self):
        t = ["G", self.id, str(self.m), hx(self.tol), hx(self.a), hx(self.b), str(len(self.p))] + [hx(x) for x in self.p]
        t += [str(len(self.q))] + [hx(x) for x in self.q] + [hx(self.c), hx(self.d)]
        return " ".join(t)

    def coq(self):
        return "(%d%%nat, %s, %s, %s, %s, %s, %s, %s)" % (self.m, cq(self.tol), cq(self.a), cq(self.b), cql(self.p), cql(self.q), cq(self.c), cq(self.d))

    def json(self):
        return {"id": self.id, "integrand": "f(x) = NaN if c <= x <= d else horner(p,x)/horner(q,x)", "p_low_first": self.p, "q_low_first": self.q,
                "nan_window_c_d": [hx(self.c), hx(self.d)], "a": hx(self.a), "b": hx(self.b), "a_decimal": repr(self.a), "b_decimal": repr(self.b),
                "absolute_tolerance": hx(self.tol), "tolerance_decimal": repr(self.tol), "maximum_number_of_refinements": self.m,
                "driver_line": self.line(), "how": "props/C12/driver.cxx gkop <file containing driver_line> 0 (compiled with -ffp-contract=off)"}

    def swapped(self, cid):
        return Case(cid, self.kind, self.m, self.tol, self.b, self.a, self.p, self.q, self.c, self.d, twin=self.id)


def gen_cases(rng, quick):
    cs = []
    mmax = 8 if quick else 12
    n = [0]

    def add(kind, m, tol, a, b, p, q=(1.0,), c=1.0, d=0.0, swap=True):
        k = n[0]
        n[0] += 1
        x = Case("%s%d" % (kind, k), kind, m, tol, a, b, p, q, c, d)
        cs.append(x)
        if swap:
            cs.append(x.swapped("%s%ds" % (kind, k)))
        return x

    def rpoly(deg, lo=-2.0, hi=2.0):
        return [rng.uniform(lo, hi) for _ in range(deg + 1)]

    def rbounds():
        r = rng.random()
        if r < 0.15:
            return (rng.randint(-24, 24) / 8.0, rng.randint(-24, 24) / 8.0)
        if r < 0.2:
            a = rng.uniform(-3, 3)
            return (a, a)
        return (rng.uniform(-3, 3), rng.uniform(-3, 3))

    # ---- boundary grid: every kind of bound against every kind of bound, a few tolerances and budgets
    special = [NAN, INF, -INF, DMAX, -DMAX, math.nextafter(DMAX, 0), -math.nextafter(DMAX, 0), 0.0, -0.0, 1.0, -2.5, 5e-324, 1e-310, 1e200]
    gauss_like = ([1.0], [1.0, 0.0, 1.0])  # 1/(1+x^2)
    for a in special:
        for b in special:
            m = rng.choice([0, 1, 2, 3, 5])
            tol = rng.choice([1e-10, 1e-3, 0.0, NAN, 1e300])
            add("b", m, tol, a, b, gauss_like[0], gauss_like[1], swap=False)
    # ---- budgets 0..mmax and every tolerance on a few fixed integrands (constant 0, constant, x^2, degree 9, 1/(1+x^2), pole inside)
    fixed = [([0.0], [1.0]), ([1.5], [1.0]), ([0.0, 0.0, 1.0], [1.0]), ([0.5, -1.0, 0.25, 2.0, -1.5, 0.125, 1.0, -0.75, 0.5, 1.0], [1.0]),
             gauss_like, ([1.0], [-0.5, 1.0])]
    for (p, q) in fixed:
        for m in range(0, mmax + 1):
            tol = TOLS[(m + len(p)) % len(TOLS)]
            add("t", m, tol, -1.0, 2.0, p, q, swap=(m % 3 == 0))
        for tol in TOLS:
            add("t", rng.choice([2, 4, 6]), tol, 0.25, 1.75, p, q, swap=False)
    # ---- seeded polynomials (degree <= 22: the integral is known exactly) and beyond
    for i in range(60 if quick else 700):
        deg = i % 23 if i < 46 else rng.randint(0, 26)
        a, b = rbounds()
        add("p", rng.randint(0, mmax), rng.choice(TOLS[:9]), a, b, rpoly(deg))
    # ---- rational functions: no pole (1+x^2 and shifted), pole outside, pole inside the range
    for i in range(40 if quick else 500):
        a, b = rbounds()
        r = rng.random()
        if r < 0.4:
            s = rng.uniform(0.2, 3.0)
            q = [s, 0.0, 1.0]
        elif r < 0.7:
            pole = max(a, b) + rng.uniform(0.01, 2.0) if rng.random() < 0.5 else min(a, b) - rng.uniform(0.01, 2.0)
            q = [-pole, 1.0]
        else:
            pole = rng.uniform(min(a, b), max(a, b)) if a != b else a
            if rng.random() < 0.3:  # a pole exactly at a node is unlikely; the midpoint of the range is node 8
                pole = (a + b) / 2
            q = [-pole, 1.0]
        add("r", rng.randint(0, mmax), rng.choice(TOLS[:9]), a, b, rpoly(rng.randint(0, 3)), q)
    # ---- NaN on a sub-interval
    for i in range(30 if quick else 400):
        a, b = rbounds()
        lo, hi = min(a, b), max(a, b)
        c = rng.uniform(lo - 0.5, hi + 0.5)
        d = c + rng.choice([0.0, 1e-3, 0.05, 0.3, 1.0]) * (hi - lo + 0.1)
        add("n", rng.randint(0, mmax), rng.choice(TOLS[:9]), a, b, rpoly(rng.randint(0, 6)), (1.0,), c, d)
    # ---- unbounded ranges (inf and +-DBL_MAX encodings), decaying rational integrands, polynomials (diverging), NaN windows
    for i in range(40 if quick else 500):
        I = rng.choice([INF, DMAX])
        a = rng.uniform(-3, 3)
        s = rng.uniform(0.3, 3.0)
        p, q = rpoly(rng.randint(0, 1)), [s, 0.0, rng.uniform(0.5, 2.0)]
        if i % 5 == 3:
            q = [s * s, 0.0, 2 * s, 0.0, 1.0]
        if i % 11 == 7:
            p, q = rpoly(2), [1.0]
        c, d = (1.0, 0.0)
        if i % 7 == 5:
            c = rng.uniform(-5, 5)
            d = c + rng.uniform(0, 2)
        bounds = rng.choice([(a, I), (-I, a), (-I, I)])
        add("u", rng.randint(0, mmax), rng.choice(TOLS[:10]), bounds[0], bounds[1], p, q, c, d)
    # ---- huge finite ranges: b - a overflows, midpoint's slow paths
    big = [math.nextafter(DMAX, 0), 1e308, 9e307, 1e300, 4.4501477170144023e-308, 1e-308, 5e-324]
    for i in range(20 if quick else 200):
        a = rng.choice(big) * rng.choice([1, -1])
        b = rng.choice(big + [0.0, 1.0]) * rng.choice([1, -1])
        add("h", rng.randint(0, min(mmax, 6)), rng.choice(TOLS), a, b, rpoly(rng.randint(0, 2)), rng.choice([[1.0], [1.0, 0.0, 1.0]]))
    # ---- deep budgets (thorough): integrands that force the full tree
    if not quick:
        for i in range(12):
            add("d", 12 if i < 4 else 11, rng.choice([-1.0, 0.0, 1e-300]), rng.uniform(-1, 0), rng.uniform(0.5, 2), rpoly(rng.randint(3, 12)), swap=False)
    return cs


def parse_driver(out):
    res = {}
    for l in out.splitlines():
        t = l.split()
        if len(t) == 5 and t[0] == "R":
            v = None if t[2] == "none" else (NAN if t[3] == "nan" else float.fromhex(t[3]))
            res[t[1]] = (t[2] == "some", v, int(t[4]))
    return res


def coq_text(tables, cases, per=400):
    K, G = tables
    pair = lambda t: "(%s, %s)" % (cq(t[0]), cq(t[1]))
    txt = ("From Coq Require Import Floats List ZArith.\nFrom C12 Require Import C12GKModel C12GKFloat.\nImport ListNotations.\n"
           "Open Scope float_scope.\nDefinition KT := [%s].\nDefinition GT := [%s].\n" % ("; ".join(pair(t) for t in K), "; ".join(pair(t) for t in G)))
    # (the list is given its type: elaborating an untyped list of nested tuples is 20 times slower than evaluating it)
    for j in range(0, len(cases), per):
        txt += "Definition cs%d : list case := [\n%s].\nEval vm_compute in map (run1 KT GT) cs%d.\n" % (j, ";\n".join(cs.coq() for cs in cases[j:j + per]), j)
    return txt


def parse_coq(out):
    def fl(s):
        s = s.strip("()")
        return {"nan": NAN, "infinity": INF, "neg_infinity": -INF}[s] if s in ("nan", "infinity", "neg_infinity") else float(s)
    res = []
    for m in re.finditer(r"^\s+= (.*?)^\s+: ", out, flags=re.S | re.M):
        for t in re.findall(r"\(\s*(true|false)\s*,\s*([^,]+?)\s*,\s*\(?(-?\d+)\)?(?:%Z)?\s*\)", m.group(1)):
            try:
                res.append((t[0] == "true", fl(t[1]), int(t[2])))
            except (KeyError, ValueError):
                res.append(None)
    return res


def poly_int(c, a, b):
    A, B = F(a), F(b)
    return sum(F(ck) * (B ** (k + 1) - A ** (k + 1)) / (k + 1) for k, ck in enumerate(c))


def poly_scale(c, a, b):
    m = max(1.0, abs(a), abs(b))
    return max(abs(b - a), 1e-300) * sum(abs(ck) * m ** k for k, ck in enumerate(c))


def spec_check(cs, obs, byid):
    """independent statement of the property on the outputs of the real code; returns [(key, what)]"""
    some, v, calls = obs
    bad = []
    nanb = cs.a != cs.a or cs.b != cs.b
    if nanb and some:
        bad.append(("gkop:nan-bound:" + cs.id, "a value (%r) is returned for a NaN bound" % v))
    if cs.m == 0 and some:
        bad.append(("gkop:budget0:" + cs.id, "a value (%r) is returned with maximum_number_of_refinements = 0" % v))
    if not nanb and code_is_inf(cs.a) and code_is_inf(cs.b) and (cs.a > 0) == (cs.b > 0) and some:
        bad.append(("gkop:same-inf:" + cs.id, "a value (%r) is returned for two infinite bounds of the same sign" % v))
    if calls % 15 != 0 or calls // 15 > max(0, 2 ** cs.m - 1):
        bad.append(("gkop:evals:" + cs.id, "%d integrand evaluations: not 15 x (at most 2^m - 1 = %d rule evaluations)" % (calls, 2 ** cs.m - 1)))
    if cs.twin is not None and not nanb and cs.a != cs.b:
        o2 = byid[cs.twin]
        neg = (o2[0] == some) and (not some or bits(-o2[1]) == bits(v))
        if not neg:
            bad.append(("gkop:swap:" + cs.id, "bounds exchanged: %s for (a,b) = (%r,%r) but %s for (b,a): not exact opposites" % (
                (some, v), cs.a, cs.b, (o2[0], o2[1]))))
    finite = not nanb and not code_is_inf(cs.a) and not code_is_inf(cs.b)
    tol_ok = cs.tol == cs.tol and 0 <= cs.tol < 1e200
    no_window = not (cs.c <= cs.d)
    if some and tol_ok and no_window and v == v:
        if cs.q == [1.0] and len(cs.p) <= 23 and finite and max(abs(cs.a), abs(cs.b)) <= 1e3:
            exact = float(poly_int(cs.p, cs.a, cs.b))
            allowed = cs.tol + 1e-12 * poly_scale(cs.p, cs.a, cs.b)
            if not abs(v - exact) <= allowed:
                bad.append(("gkop:poly:" + cs.id, "polynomial of degree %d on [%r, %r], tolerance %g: value %.17g, exact integral %.17g (difference %.3g, allowed %.3g)" % (
                    len(cs.p) - 1, cs.a, cs.b, cs.tol, v, exact, v - exact, allowed)))
        elif len(cs.q) == 3 and cs.q[1] == 0.0 and cs.q[0] > 0 and cs.q[2] > 0 and len(cs.p) == 1 and 1e-12 <= cs.tol <= 1e-3 and all(
                code_is_inf(x) or abs(x) <= 1e3 for x in (cs.a, cs.b)):
            # p0 / (s + r x^2): primitive p0 / sqrt(s r) * atan(x sqrt(r / s)); the Kronrod estimate is reliable for it
            s, r = cs.q[0], cs.q[2]
            prim = lambda x: (math.pi / 2 if x > 0 else -math.pi / 2) if code_is_inf(x) else math.atan(x * math.sqrt(r / s))
            exact = cs.p[0] / math.sqrt(s * r) * (prim(cs.b) - prim(cs.a))
            allowed = (2 if finite else 4) * cs.tol + 1e-11 * max(1.0, abs(exact))  # factor 2: margin against a chance cancellation in |K15 - G7|
            if not abs(v - exact) <= allowed:
                bad.append(("gkop:atan:" + cs.id, "%g/(%g + %g x^2) on [%r, %r], tolerance %g: value %.17g, exact integral %.17g (difference %.3g, allowed %.3g)" % (
                    cs.p[0], s, r, cs.a, cs.b, cs.tol, v, exact, v - exact, allowed)))
    return bad

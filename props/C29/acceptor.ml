(* C29 -- line-protocol driver around step_fn / init extracted from C29Model.v.
   stdin:  T <name> <nworkers>
           A t b | AR | B w | P w t b | G w t | F w t | I w b | X w | S b | J | WC | WS k b     (b = 0|1)
           END
   stdout: ACCEPT <name> events=<n> submitted=<s> finished=<f> queue=<q>
           REJECT <name> at=<index> line=<text> *)
open C29_model

let rec nat_of_int n = if n <= 0 then O else S (nat_of_int (n - 1))
let rec int_of_nat = function O -> 0 | S m -> 1 + int_of_nat m
let n s = nat_of_int (int_of_string s)
let b s = (s = "1")

let event_of_line l =
  match String.split_on_char ' ' (String.trim l) with
  | ["A"; t; f] -> Some (Add (n t, b f))
  | ["AR"] -> Some AddRejected
  | ["B"; w] -> Some (Block (n w))
  | ["P"; w; t; f] -> Some (Pop (n w, n t, b f))
  | ["G"; w; t] -> Some (Begin (n w, n t))
  | ["F"; w; t] -> Some (End_ (n w, n t))
  | ["I"; w; f] -> Some (Idle (n w, b f))
  | ["X"; w] -> Some (Exit (n w))
  | ["S"; f] -> Some (Stop (b f))
  | ["J"] -> Some Joined
  | ["WC"] -> Some WaitCall
  | ["WS"; k; f] -> Some (WaitSeg (n k, b f))
  | _ -> None

let () =
  let name = ref "" and st = ref None and idx = ref 0 and verdict = ref "" in
  let finish () =
    if !name <> "" then begin
      match !verdict, !st with
      | "", Some s ->
          Printf.printf "ACCEPT %s events=%d submitted=%d finished=%d queue=%d\n" !name !idx
            (int_of_nat s.submitted) (List.length s.finished) (List.length s.queue)
      | v, _ -> Printf.printf "REJECT %s %s\n" !name v
    end in
  (try
    while true do
      let l = input_line stdin in
      match String.split_on_char ' ' (String.trim l) with
      | ["T"; nm; k] -> name := nm; st := Some (init (n k)); idx := 0; verdict := ""
      | ["END"] -> finish (); name := ""
      | _ ->
          (if !verdict = "" then
             match !st, (try event_of_line l with _ -> None) with
             | Some s, Some e ->
                 (match step_fn s e with
                  | Some s1 -> st := Some s1
                  | None -> verdict := Printf.sprintf "at=%d line=%s why=step-not-enabled" !idx (String.trim l))
             | _, None -> verdict := Printf.sprintf "at=%d line=%s why=not-an-event-of-the-model" !idx (String.trim l)
             | None, _ -> ());
          incr idx
    done
  with End_of_file -> ());
  finish ()

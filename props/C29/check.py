"""C29 -- ThreadPool runs every task exactly once and wait() is complete.
Engine H: Gallina transition system of src/System/ThreadPool.cxx (one step per lock-protected segment), invariants
proved by induction over every trace for any number of workers / tasks / client threads.  Tie: the REAL ThreadPool is
compiled into driver.cxx; every operation it makes on its mutex and condition variable is logged by link-time
wrappers of the pthread calls (static libstdc++, no source hook) which also inject seeded delays; the log is translated
segment by segment into model events and fed to the acceptor extracted from the model; the observable outcome (each
accepted task ran exactly once, wait() complete, destructor drains, futures carry result or exception) is re-checked
on the raw log independently of the model.
Liveness (C29LiveModel.v): deadlock freedom / termination / no lost wake-up are proved on a refinement of the same
transition system; which variant of it the code is (addTask notifies one or all) is read off the real traces, and the
lost wake-up that the model exhibits for notify_one is hunted on the real ThreadPool (wait() hammered by one client
while another one calls addTask); ThreadPool(0) is run and compared with what the model says."""
import hashlib, os, threading
from concurrent.futures import ThreadPoolExecutor
from vlib import guarded_main

REPO_SOURCES = ["src/System/ThreadPool.cxx", "src/System/ThreadedTaskResult.cxx"]
WRAP = ["-static-libstdc++"] + ["-Wl,--wrap=" + f for f in (
    "pthread_mutex_lock", "pthread_mutex_unlock", "pthread_cond_wait", "pthread_cond_signal",
    "pthread_cond_broadcast", "pthread_create")]
MODEL = ["C29Spec.v", "C29Model.v"]
EXTRACT = """From Coq Require Import ExtrOcamlBasic.
From C29 Require Import C29Spec C29Model.
Extraction "c29_model.ml" step_fn init.
"""


def gen_scenario(rng, big=0):
    nw = rng.choice([1, 1, 2, 2, 3, 4, 4, 8, 16])
    txt = "workers %d\nseed %d\nperturb %d\n" % (nw, rng.randrange(1, 1 << 30), rng.choice([0, 20, 50, 50, 80]))
    ntasks = 0
    for _ in range(rng.randint(1, 4)):
        ops = []
        for _ in range(big if big else rng.randint(1, 14)):
            r = rng.random()
            if r < 0.72:
                kind = rng.choice(["v", "v", "v", "x", "u", "n1", "n3"])
                ops.append("a:%d:%s" % (rng.choice([0, 0, 0, 20, 100, 300]) if not big else rng.choice([0, 0, 0, 5]), kind))
                ntasks += 1
            elif r < 0.87:
                ops.append("w")
            else:
                ops.append("s:%d" % rng.choice([10, 100, 500]))
        txt += "client " + " ".join(ops) + "\n"
    txt += "final %s\n" % rng.choice(["wait", "nowait", "nowait"])
    return nw, txt


class Th:
    def __init__(self):
        self.api = None
        self.inseg = False
        self.notify = False
        self.after_end = False
        self.pending_pop = None
        self.pending_out = None
        self.wait_obj = None


def translate(lines):
    """raw log -> (model event lines, facts for the independent outcome check)"""
    worker = {}
    evs = []
    futures = []
    hang = False
    for l in lines:
        t = l.split()
        if not t:
            continue
        if t[0] == "WORKER":
            worker[int(t[1])] = int(t[2])
        elif t[0] == "FUTURE":
            futures.append(t[1:])
        elif t[0] == "HANG":
            hang = True
        else:
            evs.append((int(t[0]), t[1], int(t[2])))
    out = []   # [pos, fields...]  (mutable lists so that late information can be filled in)
    ths = {}
    add_notify_kinds = set()
    for pos, (tid, kind, arg) in enumerate(evs):
        T = ths.setdefault(tid, Th())
        w = worker.get(tid)
        if kind == "ADD_CALL":
            T.api = ["add", arg]
        elif kind == "WAIT_CALL":
            T.wait_obj = [pos, "WC"]
            out.append(T.wait_obj)
            T.api = ["wait", T.wait_obj]
        elif kind == "DTOR_CALL":
            T.api = ["dtor"]
        elif kind in ("LOCK", "CVWAKE"):
            T.inseg, T.notify = True, False
        elif kind in ("NOTIFY_ALL", "NOTIFY_ONE"):
            if T.inseg:
                T.notify = T.notify or (kind == "NOTIFY_ALL")
            elif T.pending_out is not None:
                if T.pending_out[1] == "A":
                    add_notify_kinds.add(kind)
                if T.pending_out[1] == "A" or kind == "NOTIFY_ALL":
                    T.pending_out[-1] = 1
            else:
                out.append([pos, "?notify-outside-any-segment", tid])
        elif kind == "CVSLEEP":
            T.inseg = False
            if T.api and T.api[0] == "wait":
                out.append([pos, "WS", T.api[1], 1])
            elif w is not None and T.api is None and not T.after_end:
                out.append([pos, "B", w])
            else:
                out.append([pos, "?sleep-in-unexpected-place", tid])
        elif kind == "UNLOCK":
            T.inseg = False
            if T.api and T.api[0] == "add":
                T.pending_out = [pos, "A", T.api[1], 0]
                out.append(T.pending_out)
            elif T.api and T.api[0] == "wait":
                out.append([pos, "WS", T.api[1], 0])
            elif T.api and T.api[0] == "dtor":
                T.pending_out = [pos, "S", 0]
                out.append(T.pending_out)
            elif w is not None:
                if T.after_end:
                    out.append([pos, "I", w, 1 if T.notify else 0])
                    T.after_end = False
                else:
                    T.pending_pop = [pos, 1 if T.notify else 0]
            else:
                out.append([pos, "?unlock-by-unknown-thread", tid])
        elif kind == "TASK_BEGIN":
            if T.pending_pop is not None and w is not None:
                out.append([T.pending_pop[0], "P", w, ("name", arg), T.pending_pop[1]])
                T.pending_pop = None
                out.append([pos, "G", w, ("name", arg)])
            else:
                out.append([pos, "?task-begins-without-a-pop-segment", tid, arg])
        elif kind == "TASK_END":
            out.append([pos, "F", w if w is not None else -1, ("name", arg)])
            T.after_end = True
        elif kind == "THREAD_END":
            if T.pending_pop is not None and w is not None:
                out.append([T.pending_pop[0], "X", w])
                T.pending_pop = None
        elif kind == "ADD_RET":
            T.pending_out = None
            T.api = None
        elif kind == "ADD_THROW":
            if T.pending_out is not None and T.pending_out[1] == "A":
                T.pending_out[:] = [T.pending_out[0], "AR"]
            T.pending_out = None
            T.api = None
        elif kind == "WAIT_RET":
            T.api = None
        elif kind == "DTOR_RET":
            T.pending_out = None
            T.api = None
            out.append([pos, "J"])
    out.sort(key=lambda e: e[0])
    ids, nwait = {}, 0
    for e in out:
        if e[1] == "A":
            ids[e[2]] = len(ids)
        elif e[1] == "WC":
            e.append(nwait)
            nwait += 1
    model = []
    for e in out:
        k = e[1]
        if k == "A":
            model.append("A %d %d" % (ids[e[2]], e[3]))
        elif k in ("AR", "J"):
            model.append(k)
        elif k == "WC":
            model.append("WC")
        elif k == "WS":
            model.append("WS %d %d" % (e[2][2], e[3]))
        elif k in ("B", "X"):
            model.append("%s %d" % (k, e[2]))
        elif k == "P":
            model.append("P %d %d %d" % (e[2], ids.get(e[3][1], 99999999), e[4]))
        elif k in ("G", "F"):
            model.append("%s %d %d" % (k, e[2], ids.get(e[3][1], 99999999)))
        elif k == "I":
            model.append("I %d %d" % (e[2], e[3]))
        elif k == "S":
            model.append("S %d" % e[2])
        else:
            model.append(" ".join(str(x) for x in e[1:]))
    # ---- independent outcome check on the raw log
    bad = []
    add_ret, add_throw, begins, ends = {}, set(), {}, {}
    waits, wait_open, dtor_ret = [], {}, None
    for pos, (tid, kind, arg) in enumerate(evs):
        if kind == "ADD_RET":
            add_ret[arg] = pos
        elif kind == "ADD_THROW":
            add_throw.add(arg)
        elif kind == "TASK_BEGIN":
            begins.setdefault(arg, []).append(pos)
        elif kind == "TASK_END":
            ends.setdefault(arg, []).append(pos)
        elif kind == "WAIT_CALL":
            wait_open[tid] = pos
        elif kind == "WAIT_RET":
            waits.append((wait_open.pop(tid, -1), pos, tid))
        elif kind == "DTOR_RET":
            dtor_ret = pos
    for name, poss in begins.items():
        if len(poss) > 1:
            bad.append("task %d body started %d times (log events %s)" % (name, len(poss), poss))
    for (c, r, tid) in waits:
        for name, p in add_ret.items():
            if p < c and not (ends.get(name) and ends[name][0] < r):
                bad.append("wait() called by thread %d at log event %d returned at event %d although task %d, accepted at event %d, "
                           "had not finished" % (tid, c, r, name, p))
                break
    if dtor_ret is not None:
        for name, p in add_ret.items():
            if len(begins.get(name, [])) != 1 or len(ends.get(name, [])) != 1 or ends[name][0] > dtor_ret:
                bad.append("destructor returned at log event %d but task %d accepted at event %d ran %d times / finished %d times" % (
                    dtor_ret, name, p, len(begins.get(name, [])), len(ends.get(name, []))))
                break
        for name in add_throw:
            if name in begins:
                bad.append("task %d was rejected by addTask but its body ran" % name)
    for f in futures:
        if f[2] != "ok":
            bad.append("future of task %s (kind %s): %s" % (f[0], f[1], f[2]))
            break
    # who sleeps in c.wait at the end of the log, which notifications are still to be issued
    last_cv, in_wait = {}, set()
    for (tid, kind, arg) in evs:
        if kind in ("CVSLEEP", "CVWAKE"):
            last_cv[tid] = kind
        elif kind == "WAIT_CALL":
            in_wait.add(tid)
        elif kind == "WAIT_RET":
            in_wait.discard(tid)
    asleep = sorted(t for t, k in last_cv.items() if k == "CVSLEEP")
    unnotified = sum(1 for T in ths.values() if T.pending_out is not None and T.pending_out[1] in ("A", "S") and T.pending_out[-1] == 0)
    facts = {"add_notify_kinds": sorted(add_notify_kinds), "asleep": asleep, "worker_tids": sorted(worker), "in_wait": sorted(in_wait),
             "unnotified": unnotified, "begins": sum(len(v) for v in begins.values()), "futures_raw": futures,
             "tasks": len(add_ret), "rejected": len(add_throw), "waits": len(waits), "sleeps": sum(1 for e in evs if e[1] == "CVSLEEP"),
             "events": len(evs), "hang": hang, "futures": len(futures), "bad": bad, "joined": dtor_ret is not None}
    return model, facts


def main(c):
    exe = c.cxx("driver", ["driver.cxx"], REPO_SOURCES, libs=WRAP)
    c.log("driver built")
    acc = c.ocaml_extract("c29", MODEL, EXTRACT, "acceptor.ml")
    c.log("acceptor extracted")
    c.trusted("link-time wrappers of pthread_mutex_lock/unlock, pthread_cond_wait/signal/broadcast, pthread_create in props/C29/driver.cxx "
              "(statically linked libstdc++), filtering on the addresses of ThreadPool::m and ThreadPool::c; the log-order argument at the top of driver.cxx",
              "python translation of the raw log into model events, one per lock-protected segment (props/C29/check.py translate)",
              "std::mutex / std::condition_variable semantics as modelled: segments under the mutex are atomic, a wait releases the mutex and may wake spuriously")
    LOST = "liveness:addTask-notify_one-consumed-by-wait"
    special = {}   # scenario name -> "hunt" | "pool0-drop" | "pool0-wait" | "pool0-emptywait"
    hunts = []
    if c.replay:
        r = c.replay["replay"]
        scen = [(r.get("scenario_name", "replay"), r["workers"], r["scenario"])]
        if r.get("special"):
            special[scen[0][0]] = r["special"]
    else:
        scen = [("fixed-1w", 1, "workers 1\nseed 1\nperturb 0\nclient a:0:v a:0:x a:0:u w a:50:n2 w\nfinal wait\n"),
                ("fixed-4w-drain", 4, "workers 4\nseed 2\nperturb 50\nclient " + " ".join(["a:100:v"] * 24) + "\nfinal nowait\n"),
                ("fixed-2clients", 3, "workers 3\nseed 3\nperturb 50\nclient a:20:v a:0:v w a:0:x w\nclient a:100:n3 w a:0:u a:0:v\nfinal nowait\n"),
                ("fixed-nested-at-stop", 2, "workers 2\nseed 4\nperturb 20\nclient " + " ".join(["a:300:n3"] * 8) + "\nfinal nowait\n")]
        for i in range(c.pick(36, 300)):
            nw, txt = gen_scenario(c.rng)
            scen.append(("rnd-%d" % i, nw, txt))
        for i in range(c.pick(1, 4)):
            nw, txt = gen_scenario(c.rng, big=c.pick(400, 2500))
            scen.append(("big-%d" % i, nw, txt))
        # ThreadPool(0): the model says (C29_pool0_*) that nothing ever runs, the destructor abandons the queue (broken
        # futures), wait() after an addTask sleeps for ever, wait() on a fresh pool returns
        for nm, txt in (("pool0-drop", "workers 0\nseed 5\nperturb 0\nclient a:0:v a:0:x a:0:u\nfinal nowait\nstall 1000\n"),
                        ("pool0-wait", "workers 0\nseed 6\nperturb 0\nclient a:0:v w\nfinal nowait\nstall 1000\n"),
                        ("pool0-emptywait", "workers 0\nseed 7\nperturb 0\nclient w\nfinal wait\nstall 1000\n")):
            scen.append((nm, 0, txt))
            special[nm] = nm
        # hunt of the lost wake-up (C29_notify_one_loses_a_wakeup): one client hammers wait() while another one calls
        # addTask and waits for the future, 30 times; with 1..3 workers; `align`: the wrapper of pthread_cond_signal holds the
        # notification back (<= 2 ms) until the wait() thread enters pthread_cond_wait, so that the two really race (delays only).  Run in batches until one run hangs.
        for i in range(c.pick(48, 120)):
            nw = 1 + (i % 3 if i % 4 == 3 else 0)
            hunts.append(("hunt-%d" % i, nw, "workers %d\nseed %d\nperturb 0\nalign %d\nclient W:3000\nclient s:%d %s\nfinal nowait\nstall 700\n"
                          % (nw, c.rng.randrange(1, 1 << 30), (0, 50, 300)[i % 3], 20 + 3 * (i % 40), " ".join(["a:0:v g"] * 30))))
    results = {}
    lock = threading.Lock()

    def run_one(ix):
        rc, out, err = c.run([exe], input=scen[ix][2] + "watchdog %d\n" % c.pick(45, 120), timeout=400)
        with lock:
            results[ix] = (rc, out, err)

    with ThreadPoolExecutor(max_workers=3) as ex:
        list(ex.map(run_one, range(len(scen))))
    nhunt = 0
    while hunts:
        batch, hunts = hunts[:6], hunts[6:]
        first = len(scen)
        for h in batch:
            scen.append(h)
            special[h[0]] = "hunt"
        nhunt += len(batch)
        with ThreadPoolExecutor(max_workers=2) as ex:     # few at a time: the race needs the two clients really running
            list(ex.map(run_one, range(first, len(scen))))
        if any(results[ix][0] == 7 for ix in range(first, len(scen))):
            break
    c.log("%d scenarios run on the real ThreadPool (%d of them hunting the lost wake-up)" % (len(scen), nhunt))
    text, trans = "", {}
    for ix, (name, nw, txt) in enumerate(scen):
        rc, out, err = results[ix]
        if rc not in (0, 7) or not out:
            c.report("driver:" + name, "driver failed (rc=%d) on scenario %s: %s" % (rc, name, err[-300:]),
                     {"scenario_name": name, "workers": nw, "scenario": txt, "stderr": err[-2000:]}, False)
            continue
        model, facts = translate(out.split("\n"))
        trans[ix] = (model, facts, out)
        text += "T %d %d\n%s\nEND\n" % (ix, nw, "\n".join(model))
    rc, out, err = c.run([acc], input=text, timeout=900)
    verdicts = {}
    for l in out.splitlines():
        t = l.split(" ", 2)
        if len(t) >= 2 and t[0] in ("ACCEPT", "REJECT"):
            verdicts[int(t[1])] = (t[0], t[2] if len(t) > 2 else "")
    accepted = 0
    notify_kinds, lost_seen, hunt_hangs = set(), 0, 0
    tot = {"tasks": 0, "sleeps": 0, "events": 0, "waits": 0, "rejected": 0}
    for ix, (model, facts, raw) in trans.items():
        name, nw, txt = scen[ix]
        digest = hashlib.sha256("\n".join(model).encode()).hexdigest()[:16]
        c.count(1, digest, facts["tasks"] >= 2 and (facts["sleeps"] > nw or nw > 1))
        for k in tot:
            tot[k] += facts[k]
        v = verdicts.get(ix)
        rawl = raw.split("\n")
        sp = special.get(name)
        notify_kinds.update(facts["add_notify_kinds"])
        rep = {"scenario_name": name, "workers": nw, "scenario": txt, "special": sp, "model_events": model[-600:] if sp == "hunt" else model[:600],
               "raw_log": rawl[-900:] if sp == "hunt" else rawl[:900],
               "how": "props/C29/driver < scenario ; log -> translate -> acceptor extracted from C29Model.v"}
        if ix % 8 == 0:
            c.sample({"scenario": name, "workers": nw, "text": txt[:400], "model_events_head": model[:30], "facts": {k: facts[k] for k in ("tasks", "waits", "sleeps", "events", "rejected")},
                      "verdict": v[0] if v else "?"})
        if v is None:
            c.report("acceptor:" + name, "acceptor gave no verdict on scenario %s: %s" % (name, err[-300:]), rep, False)
        elif v[0] == "REJECT":
            at = v[1]
            c.report("reject:" + name, "trace of the real ThreadPool on scenario %s (%d workers) is not a run of the model: %s" % (name, nw, at), rep, True)
        else:
            accepted += 1
            m = dict(x.split("=") for x in v[1].split())
            if nw > 0 and not facts["hang"] and (int(m["submitted"]) != facts["tasks"] or (facts["joined"] and int(m["finished"]) != facts["tasks"])):
                c.report("count:" + name, "scenario %s: model state (%s) and real run (%d accepted tasks) disagree" % (name, v[1], facts["tasks"]), rep, True)
            # a run that stopped for ever: is it the stuck state of the live model (C29_notify_one_loses_a_wakeup)?  every worker
            # asleep in c.wait at the top of its loop, every thread inside wait() asleep, no notification left to issue, and a
            # task in the queue (model state after the accepted trace)
            if nw > 0 and facts["hang"]:
                pattern = (int(m["queue"]) > 0 and set(facts["worker_tids"]) <= set(facts["asleep"]) and facts["in_wait"]
                           and set(facts["in_wait"]) <= set(facts["asleep"]) and facts["unnotified"] == 0)
                if pattern:
                    lost_seen += 1
                    hunt_hangs += 1 if sp == "hunt" else 0
                    if lost_seen == 1:
                        c.report(LOST, "ThreadPool deadlocks (lost wake-up): scenario %s, %d worker(s): a client thread calls wait() between the unlock "
                                 "and the c.notify_one() of another client's addTask; the notification is consumed by the wait() call (same condition "
                                 "variable), the worker(s) stay asleep with %s task(s) queued, wait() never returns, the task never runs; last events: %s"
                                 % (name, nw, m["queue"], " | ".join(rawl[-12:-1])), rep, True)
                else:
                    # as before this round: never a verdict by itself (a loaded machine can starve a run); the trace was judged above
                    c.notes.append("scenario %s did not finish in time (model state %s, asleep threads %s, workers %s, in wait() %s); its partial log "
                                   "was judged by the acceptor only" % (name, v[1], facts["asleep"], facts["worker_tids"], facts["in_wait"]))
        if nw == 0:
            # ThreadPool(0) against C29_pool0_nothing_runs / _wait / _wait_deadlocks / _destructor_abandons_tasks
            broken = [f for f in facts["futures_raw"] if f[2].startswith("bad-future-threw") and "roken" in " ".join(f[2:])]
            want = {"pool0-drop": (not facts["hang"] and facts["begins"] == 0 and facts["joined"] and len(broken) == facts["tasks"] == 3),
                    "pool0-wait": (facts["hang"] and facts["begins"] == 0 and len(facts["in_wait"]) == 1 and set(facts["in_wait"]) <= set(facts["asleep"])),
                    "pool0-emptywait": (not facts["hang"] and facts["waits"] == 2 and facts["joined"])}.get(sp, True)
            if not want:
                c.report("pool0:" + name, "ThreadPool(0), scenario %s: the real pool does not behave as the model says (hang=%s, task bodies started=%d, "
                         "futures=%s, threads in wait()=%s, asleep=%s)" % (name, facts["hang"], facts["begins"], facts["futures_raw"], facts["in_wait"], facts["asleep"]), rep, True)
        else:
            for b in facts["bad"][:1]:
                c.report("outcome:" + name, "scenario %s (%d workers): %s" % (name, nw, b), rep, True)
    c.coverage["traces_validated_against_impl"] = accepted
    c.coverage["rule"] = ("4 fixed + seeded random scenarios: 1-16 workers, 1-4 client threads each running 1-14 operations (addTask of value / throwing / void / "
                          "task-adding tasks, wait(), sleeps), destructor with or without a final wait(), random delays injected at every mutex / condition-variable "
                          "operation with probability 0-80%; plus long runs of hundreds to thousands of tasks; distinct = distinct sequence of model events; "
                          "non-trivial = at least two tasks and (more than one worker or more sleeps than workers)")
    c.notes.append("totals over this run: %s" % tot)
    c.notes.append("no source hook needed: observation by link-time wrapping of the pthread calls of the statically linked libstdc++")
    c.log("traces judged: %d accepted" % accepted)
    # which variant of the live model the code is: the notification issued by addTask after its unlock
    code_na = notify_kinds == {"NOTIFY_ALL"}
    if notify_kinds and not code_na and notify_kinds != {"NOTIFY_ONE"}:
        c.report("addtask-notification", "addTask issues %s after its locked segment: neither variant of the live model" % sorted(notify_kinds), {}, False)
    if not c.replay:
        if code_na and lost_seen == 0:
            c.notes.append("addTask notifies all (variant na = true of the live model): deadlock freedom for any number of clients; %d hunting runs, none hung" % nhunt)
        elif not code_na and hunt_hangs == 0:
            c.notes.append("addTask calls notify_one; the lost wake-up of C29_notify_one_loses_a_wakeup was NOT reproduced in this run (%d hunting runs)" % nhunt)
    c.coverage["live_model_variant"] = "addTask notifies all" if code_na else "addTask notifies one"
    c.coverage["lost_wakeup_hunt"] = {"runs": nhunt, "hung_in_the_stuck_state_of_the_model": hunt_hangs}
    res = c.coq(MODEL + ["C29Proofs.v", "Properties_C29.v", "C29LiveModel.v", "C29LiveProofs.v", "Properties_C29_live.v",
                         "Properties_C29_live_fixed.v" if code_na else "Properties_C29_live_pinned.v"], timeout=900)
    if not res.ok:
        c.coq_failures(res)


guarded_main("C29", main)

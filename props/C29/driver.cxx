// C29 -- runs the REAL tfel::system::ThreadPool (src/System/ThreadPool.cxx, ThreadPool.ixx compiled from /repo's working
// tree) and records every operation it performs on its mutex `m` and condition variable `c`.
//
// No source hook: libstdc++ is linked statically and the pthread calls made by std::mutex / std::condition_variable /
// std::thread are redirected at link time (-Wl,--wrap=...) to the __wrap_* functions below.  Only operations on the
// pool's own mutex / condition variable are logged (their addresses are taken from the object, whose private
// members are made visible to this file only); the same wrappers inject seeded random delays to perturb the
// schedule.  Task bodies and the calls of the public API log their own begin / end.
//
// Log order versus real order: LOCK and CVWAKE are logged after the mutex was obtained, UNLOCK and CVSLEEP before it is
// released, NOTIFY before the real call, ADD_CALL / WAIT_CALL before the call, *_RET after it returned, TASK_BEGIN /
// TASK_END inside the task body.  Hence the logged lock-protected segments are totally ordered exactly as they really
// happened, a TASK_END logged after a WAIT_RET really finished after wait() returned, and so on.
//
// stdin:  workers N | seed S | perturb P(percent) | client <op>...  (one line per client thread) | final wait|nowait
//         op = a:<dur_us>:<kind>   add a task; kind v (returns a value) x (throws) u (void) n<k> (its body adds k tasks)
//              w                   call wait()
//              W:<max>             call wait() again and again (at most <max> times) until every other client thread has
//                                  finished its operations, then once more (wait() concurrent with addTask)
//              s:<us>              sleep
//              g                   block until the task added last has run (future.wait())
//         align <spins>            hunting aid, delays only: the notification of addTask is held back (at most 2 ms) until a
//                                  thread calling wait() enters pthread_cond_wait after addTask's unlock, then <spins> more
//                                  iterations of a busy loop, so that the two really race
//         stall <ms>               if nothing is logged for <ms> although the run is not over, dump the log + HANG, exit 7
// stdout: the log (one event per line:  <thread> <KIND> <arg>), WORKER lines, FUTURE lines.
#include <atomic>
#include <chrono>
#include <cstdio>
#include <cstdlib>
#include <cstring>
#include <deque>
#include <iostream>
#include <memory>
#include <sstream>
#include <stdexcept>
#include <string>
#include <queue>
#include <mutex>
#include <vector>
#include <thread>
#include <future>
#include <functional>
#include <optional>
#include <exception>
#include <type_traits>
#include <condition_variable>
#include <pthread.h>
#include <sched.h>
#include <time.h>
#include <unistd.h>
#define private public
#include "TFEL/System/ThreadPool.hxx"
#undef private

extern "C" {
int __real_pthread_mutex_lock(pthread_mutex_t*);
int __real_pthread_mutex_unlock(pthread_mutex_t*);
int __real_pthread_cond_wait(pthread_cond_t*, pthread_mutex_t*);
int __real_pthread_cond_signal(pthread_cond_t*);
int __real_pthread_cond_broadcast(pthread_cond_t*);
int __real_pthread_create(pthread_t*, const pthread_attr_t*, void* (*)(void*), void*);
}

enum Kind {
  LOCK, UNLOCK, CVSLEEP, CVWAKE, NOTIFY_ONE, NOTIFY_ALL, TASK_BEGIN, TASK_END, ADD_CALL, ADD_RET, ADD_THROW,
  WAIT_CALL, WAIT_RET, DTOR_CALL, DTOR_RET, THREAD_END
};
static const char* const kind_names[] = {"LOCK", "UNLOCK", "CVSLEEP", "CVWAKE", "NOTIFY_ONE", "NOTIFY_ALL",
                                         "TASK_BEGIN", "TASK_END", "ADD_CALL", "ADD_RET", "ADD_THROW", "WAIT_CALL",
                                         "WAIT_RET", "DTOR_CALL", "DTOR_RET", "THREAD_END"};
struct Event {
  int tid, kind;
  long arg;
};
static constexpr long LOGMAX = 1L << 22;
static Event* evlog = nullptr;
static std::atomic<long> nlog{0};
static std::atomic<int> nthreads{1};
static thread_local int me = 0;
static thread_local unsigned long long rngstate = 0;
static pthread_mutex_t* pool_mutex = nullptr;
static pthread_cond_t* pool_cond = nullptr;
static std::atomic<bool> in_pool_ctor{false};
static std::atomic<int> nworkers_created{0};
static int worker_of_thread[4096];
static unsigned long long seed = 1;
static int perturb = 0;
static long align_spins = -1;                     // < 0: off
static std::atomic<long> wait_api_entering{0};    // number of pthread_cond_wait calls begun by threads inside wait()
static thread_local bool in_wait_api = false;
static thread_local long entering_at_unlock = 0;

static void logev(int kind, long arg = 0) {
  const long i = nlog.fetch_add(1);
  if (i < LOGMAX) evlog[i] = Event{me, kind + 1, arg};
}

static void maybe_delay() {
  if (perturb == 0) return;
  if (rngstate == 0) rngstate = seed * 0x9E3779B97F4A7C15ULL + static_cast<unsigned long long>(me + 1) * 0xD1B54A32D192ED03ULL;
  rngstate ^= rngstate << 13;
  rngstate ^= rngstate >> 7;
  rngstate ^= rngstate << 17;
  const unsigned r = static_cast<unsigned>(rngstate >> 33);
  if (static_cast<int>(r % 100) >= perturb) return;
  const unsigned what = (r / 100) % 8;
  if (what < 5) {
    sched_yield();
  } else {
    timespec t{0, static_cast<long>(1000 * (1 + (r / 800) % (what == 7 ? 300 : 40)))};
    nanosleep(&t, nullptr);
  }
}

struct Tramp {
  void* (*f)(void*);
  void* a;
  int tid;
};
static void* trampoline(void* p) {
  Tramp t = *static_cast<Tramp*>(p);
  delete static_cast<Tramp*>(p);
  me = t.tid;
  void* r = t.f(t.a);
  logev(THREAD_END);
  return r;
}

extern "C" {
int __wrap_pthread_create(pthread_t* th, const pthread_attr_t* at, void* (*f)(void*), void* a) {
  const int tid = nthreads.fetch_add(1);
  if (tid < 4096) worker_of_thread[tid] = in_pool_ctor.load() ? nworkers_created.fetch_add(1) : -1;
  return __real_pthread_create(th, at, trampoline, new Tramp{f, a, tid});
}
int __wrap_pthread_mutex_lock(pthread_mutex_t* m) {
  if (m != pool_mutex) return __real_pthread_mutex_lock(m);
  maybe_delay();
  const int r = __real_pthread_mutex_lock(m);
  logev(LOCK);
  return r;
}
int __wrap_pthread_mutex_unlock(pthread_mutex_t* m) {
  if (m != pool_mutex) return __real_pthread_mutex_unlock(m);
  logev(UNLOCK);
  entering_at_unlock = wait_api_entering.load();
  const int r = __real_pthread_mutex_unlock(m);
  maybe_delay();
  return r;
}
int __wrap_pthread_cond_wait(pthread_cond_t* c, pthread_mutex_t* m) {
  if (c != pool_cond) return __real_pthread_cond_wait(c, m);
  logev(CVSLEEP);
  if (in_wait_api) wait_api_entering.fetch_add(1);
  const int r = __real_pthread_cond_wait(c, m);
  logev(CVWAKE);
  return r;
}
int __wrap_pthread_cond_signal(pthread_cond_t* c) {
  if (c != pool_cond) return __real_pthread_cond_signal(c);
  logev(NOTIFY_ONE);
  maybe_delay();
  if (align_spins >= 0) {
    timespec t0, t1;
    clock_gettime(CLOCK_MONOTONIC, &t0);
    for (;;) {
      if (wait_api_entering.load() != entering_at_unlock) break;
      clock_gettime(CLOCK_MONOTONIC, &t1);
      if ((t1.tv_sec - t0.tv_sec) * 1000000000L + (t1.tv_nsec - t0.tv_nsec) > 2000000L) break;
    }
    for (volatile long i = 0; i < align_spins; i = i + 1) {
    }
  }
  return __real_pthread_cond_signal(c);
}
int __wrap_pthread_cond_broadcast(pthread_cond_t* c) {
  if (c != pool_cond) return __real_pthread_cond_broadcast(c);
  logev(NOTIFY_ALL);
  maybe_delay();
  return __real_pthread_cond_broadcast(c);
}
}

using tfel::system::ThreadPool;
using tfel::system::ThreadedTaskResult;

static ThreadPool* pool = nullptr;
static std::atomic<long> next_name{0};
struct Fut {
  long name;
  char kind;  // v x u
  std::future<ThreadedTaskResult<long>> fl;
  std::future<ThreadedTaskResult<void>> fv;
};
static std::mutex futs_mutex;  // a mutex of the driver: not the pool's, never logged
static std::deque<Fut> futs;

static void sleep_us(long us) {
  if (us <= 0) return;
  timespec t{us / 1000000, (us % 1000000) * 1000};
  nanosleep(&t, nullptr);
}

static void add_task(long dur, const std::string& kind);

static long body_value(long name, long dur, char kind, int nested) {
  logev(TASK_BEGIN, name);
  sleep_us(dur);
  for (int i = 0; i != nested; ++i) add_task(0, "v");
  if (kind == 'x') {
    logev(TASK_END, name);
    throw std::runtime_error("task " + std::to_string(name));
  }
  logev(TASK_END, name);
  return 7 * name + 3;
}

static void add_task(long dur, const std::string& kind) {
  const long name = next_name.fetch_add(1);
  const char k = kind[0];
  const int nested = (k == 'n') ? std::atoi(kind.c_str() + 1) : 0;
  logev(ADD_CALL, name);
  try {
    Fut f;
    f.name = name;
    f.kind = (k == 'n') ? 'v' : k;
    if (k == 'u') {
      f.fv = pool->addTask([name, dur] {
        logev(TASK_BEGIN, name);
        sleep_us(dur);
        logev(TASK_END, name);
      });
    } else {
      f.fl = pool->addTask([name, dur, k, nested] { return body_value(name, dur, k, nested); });
    }
    logev(ADD_RET, name);
    std::lock_guard<std::mutex> g(futs_mutex);
    futs.push_back(std::move(f));
  } catch (std::runtime_error&) {
    logev(ADD_THROW, name);
  }
}

static std::atomic<int> plain_clients_running{0};

static void client(const std::vector<std::string>& ops) {
  bool hammer = false;
  for (const auto& op : ops) hammer = hammer || op[0] == 'W';
  struct Done {
    bool h;
    ~Done() { if (!h) plain_clients_running.fetch_sub(1); }
  } done{hammer};
  for (const auto& op : ops) {
    if (op[0] == 'W') {
      const long maxn = std::atol(op.c_str() + 2);
      in_wait_api = true;
      for (long i = 0; i < maxn && plain_clients_running.load() > 0; ++i) {
        logev(WAIT_CALL);
        pool->wait();
        logev(WAIT_RET);
      }
      logev(WAIT_CALL);
      pool->wait();
      logev(WAIT_RET);
      in_wait_api = false;
      continue;
    }
    if (op[0] == 'a') {
      const auto p1 = op.find(':'), p2 = op.find(':', p1 + 1);
      add_task(std::atol(op.substr(p1 + 1, p2 - p1 - 1).c_str()), op.substr(p2 + 1));
    } else if (op[0] == 'w') {
      logev(WAIT_CALL);
      pool->wait();
      logev(WAIT_RET);
    } else if (op[0] == 's') {
      sleep_us(std::atol(op.c_str() + 2));
    } else if (op[0] == 'g') {
      Fut* f = nullptr;
      {
        std::lock_guard<std::mutex> g(futs_mutex);
        if (!futs.empty()) f = &futs.back();  // std::deque: push_back keeps references valid
      }
      if (f != nullptr) {
        if (f->kind == 'u') f->fv.wait(); else f->fl.wait();
      }
    }
  }
}

static std::string dump_log() {
  const long n = nlog.load();
  std::string out;
  out.reserve(static_cast<size_t>(n) * 24);
  char tmp[96];
  for (int t = 0; t < nthreads.load() && t < 4096; ++t) {
    if (t > 0 && worker_of_thread[t] >= 0) {
      std::snprintf(tmp, sizeof tmp, "WORKER %d %d\n", t, worker_of_thread[t]);
      out += tmp;
    }
  }
  for (long i = 0; i < n && i < LOGMAX; ++i) {
    if (evlog[i].kind <= 0) continue;  // reserved but not yet written (only possible in a watchdog dump)
    std::snprintf(tmp, sizeof tmp, "%d %s %ld\n", evlog[i].tid, kind_names[evlog[i].kind - 1], evlog[i].arg);
    out += tmp;
  }
  return out;
}

// never a verdict by itself: if the run does not finish (a mutant that lost a wake-up deadlocks), print what was
// logged so far so that the acceptor can judge the trace, and leave
static void watchdog(long seconds) {
  sleep_us(seconds * 1000000);
  std::string out = dump_log() + "HANG\n";
  std::fwrite(out.data(), 1, out.size(), stdout);
  std::fflush(stdout);
  _exit(7);
}

// same purpose, quicker: every thread of the process is blocked
static void stall_monitor(long ms) {
  long last = -1;
  int stalled = 0;
  for (;;) {
    sleep_us(ms * 1000);
    const long n = nlog.load();
    if (n != last) stalled = 0;
    if (n == last && ++stalled >= 2) {  // two full periods without any event
      std::string out = dump_log() + "HANG\n";
      std::fwrite(out.data(), 1, out.size(), stdout);
      std::fflush(stdout);
      _exit(7);
    }
    last = n;
  }
}

int main() {
  evlog = static_cast<Event*>(std::calloc(LOGMAX, sizeof(Event)));  // kind is stored +1: 0 = not written yet
  long watchdog_s = 60, stall_ms = 0;
  int nworkers = 2;
  bool final_wait = true;
  std::vector<std::vector<std::string>> clients;
  std::string line;
  while (std::getline(std::cin, line)) {
    std::istringstream is(line);
    std::string w;
    if (!(is >> w)) continue;
    if (w == "workers") is >> nworkers;
    else if (w == "seed") is >> seed;
    else if (w == "perturb") is >> perturb;
    else if (w == "watchdog") is >> watchdog_s;
    else if (w == "stall") is >> stall_ms;
    else if (w == "align") is >> align_spins;
    else if (w == "final") { std::string f; is >> f; final_wait = (f == "wait"); }
    else if (w == "client") {
      clients.emplace_back();
      std::string op;
      while (is >> op) clients.back().push_back(op);
    }
  }
  std::thread(watchdog, watchdog_s).detach();
  if (stall_ms > 0) std::thread(stall_monitor, stall_ms).detach();
  alignas(ThreadPool) static char buf[sizeof(ThreadPool)];
  pool = reinterpret_cast<ThreadPool*>(buf);
  pool_mutex = reinterpret_cast<pthread_mutex_t*>(&pool->m);   // std::mutex holds its pthread_mutex_t first
  pool_cond = reinterpret_cast<pthread_cond_t*>(&pool->c);     // std::condition_variable holds its pthread_cond_t first
  in_pool_ctor.store(true);
  new (buf) ThreadPool(static_cast<ThreadPool::size_type>(nworkers));
  in_pool_ctor.store(false);
  if (pool->m.native_handle() != pool_mutex || pool->c.native_handle() != pool_cond) {
    std::fprintf(stderr, "layout assumption on std::mutex / std::condition_variable does not hold\n");
    return 3;
  }
  {
    std::vector<std::thread> ths;
    for (const auto& c : clients) {
      bool hammer = false;
      for (const auto& op : c) hammer = hammer || op[0] == 'W';
      if (!hammer) plain_clients_running.fetch_add(1);
    }
    for (const auto& c : clients) ths.emplace_back([&c] { client(c); });
    for (auto& t : ths) t.join();
  }
  if (final_wait) {
    logev(WAIT_CALL);
    pool->wait();
    logev(WAIT_RET);
  }
  logev(DTOR_CALL);
  pool->~ThreadPool();
  logev(DTOR_RET);
  std::string out = dump_log();
  char tmp[96];
  const long n = nlog.load();
  // the futures: result or exception of every accepted task
  for (auto& f : futs) {
    std::string verdict = "bad";
    try {
      if (f.kind == 'u') {
        auto r = f.fv.get();
        verdict = static_cast<bool>(r) ? "ok" : "bad-void-has-exception";
      } else {
        auto r = f.fl.get();
        if (f.kind == 'v') {
          verdict = (static_cast<bool>(r) && *r == 7 * f.name + 3) ? "ok" : "bad-value";
        } else {
          if (static_cast<bool>(r)) {
            verdict = "bad-no-exception";
          } else {
            try {
              r.rethrow();
            } catch (std::runtime_error& e) {
              verdict = (std::string(e.what()) == "task " + std::to_string(f.name)) ? "ok" : "bad-message";
            }
          }
        }
      }
    } catch (std::exception& e) {
      verdict = std::string("bad-future-threw:") + e.what();
    }
    std::snprintf(tmp, sizeof tmp, "FUTURE %ld %c %s\n", f.name, f.kind, verdict.c_str());
    out += tmp;
  }
  std::fwrite(out.data(), 1, out.size(), stdout);
  return n >= LOGMAX ? 6 : 0;
}

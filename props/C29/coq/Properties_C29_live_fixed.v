(* C29 -- liveness of the code once addTask calls c.notify_all() (props/C29/fix_addtask_notify_all.diff; observed on
   the traces of the real ThreadPool by check.py, which selects this file then): deadlock freedom for any number of
   client threads. *)
From Coq Require Import List Arith Bool.
From C29 Require Import C29Spec C29Model C29Proofs C29LiveModel C29LiveProofs.
Import ListNotations.

Definition code_notifies_all : bool := true.

Theorem C29_code_deadlock_free : forall n tr ls, n >= 1 ->
  lrun code_notifies_all false (linit n) tr ls -> final ls \/ can_progress code_notifies_all ls.
Proof. intros n tr ls; apply (deadlock_free true false eq_refl). Qed.
Print Assumptions C29_code_deadlock_free.

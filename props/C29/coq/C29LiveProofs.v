(* C29 -- liveness of the ThreadPool protocol: invariant of the live model (C29LiveModel.v) by induction over every run,
   deadlock freedom, termination of the pool's own machinery, the lost wake-up of addTask's notify_one, ThreadPool(0),
   the Wrapper that turns an exception into a result *)
From Coq Require Import List Arith Bool Lia Classical Wellfounded.
From C29 Require Import C29Spec C29Model C29Proofs C29LiveModel.
Import ListNotations.

Lemma allawake_not_sleeping : forall l i, ~ sleeping (allawake l) i.
Proof. unfold sleeping, allawake; intros l i H. rewrite nth_error_map in H. destruct (nth_error l i); discriminate. Qed.
Lemma allawake_length : forall l, length (allawake l) = length l.
Proof. intro l; apply map_length. Qed.
Lemma sleeping_set_false : forall l w i, sleeping (set_nth l w false) i -> sleeping l i /\ i <> w.
Proof.
  unfold sleeping; intros l w i H. rewrite nth_error_set_nth in H. destruct (Nat.eqb i w) eqn:E.
  - destruct (nth_error l w); discriminate.
  - apply Nat.eqb_neq in E; auto.
Qed.
Lemma awake_set_false : forall l w i, awake l i -> awake (set_nth l w false) i.
Proof.
  unfold awake; intros l w i H. rewrite nth_error_set_nth. destruct (Nat.eqb i w) eqn:E; [|assumption].
  apply Nat.eqb_eq in E; subst. rewrite H; reflexivity.
Qed.
Lemma awake_allawake : forall l i, i < length l -> awake (allawake l) i.
Proof.
  unfold awake, allawake; intros l i H. rewrite nth_error_map.
  destruct (nth_error l i) eqn:E; [reflexivity|]. apply nth_error_None in E; lia.
Qed.
Lemma sleeping_wake_w : forall ls th i, sleeping (wake_w ls th) i -> sleeping (wsleep ls) i.
Proof. intros ls [w|k] i H; simpl in H; [apply sleeping_set_false in H; tauto|exact H]. Qed.
Lemma sleeping_wake_k : forall ls th i, sleeping (wake_k ls th) i -> sleeping (ksleep ls) i.
Proof. intros ls [w|k] i H; simpl in H; [exact H|apply sleeping_set_false in H; tauto]. Qed.
Lemma awake_wake_w : forall ls th i, awake (wsleep ls) i -> awake (wake_w ls th) i.
Proof. intros ls [w|k] i H; simpl; [apply awake_set_false; exact H|exact H]. Qed.
Lemma wake_w_length : forall ls th, length (wake_w ls th) = length (wsleep ls).
Proof. intros ls [w|k]; simpl; [apply set_nth_length|reflexivity]. Qed.
Lemma wake_k_length : forall ls th, length (wake_k ls th) = length (ksleep ls).
Proof. intros ls [w|k]; simpl; [reflexivity|apply set_nth_length]. Qed.

(* what a notification of addTask does to the sleep flags: it only wakes *)
Lemma add_notify_only_wakes : forall na ls tg ws ks, add_notify na ls tg ws ks ->
  length ws = length (wsleep ls) /\ length ks = length (ksleep ls) /\
  (forall i, sleeping ws i -> sleeping (wsleep ls) i) /\ (forall i, sleeping ks i -> sleeping (ksleep ls) i) /\
  (forall i, awake (wsleep ls) i -> awake ws i).
Proof.
  intros na ls tg ws ks H; inversion H; subst.
  - repeat split; try apply allawake_length; intros i S; try (exfalso; apply (allawake_not_sleeping _ _ S)).
    apply awake_allawake. apply nth_error_Some. unfold awake in S; congruence.
  - repeat split; [apply wake_w_length|apply wake_k_length|apply sleeping_wake_w|apply sleeping_wake_k|apply awake_wake_w].
  - repeat split; auto.
Qed.

Lemma nth_error_len : forall (A B : Type) (l : list A) (m : list B) i x, length l = length m ->
  nth_error m i = Some x -> exists y, nth_error l i = Some y.
Proof.
  intros A B l m i x L E. destruct (nth_error l i) eqn:F; [eauto|].
  apply nth_error_None in F. assert (i < length m) by (apply nth_error_Some; congruence). lia.
Qed.

Record LInv (na : bool) (ls : lstate) : Prop := {
  li_base : Inv (base ls);
  li_lenw : length (wsleep ls) = length (workers (base ls));
  li_lenk : length (ksleep ls) = length (waiters (base ls));
  li_lenp : length (pendw ls) = length (workers (base ls));
  li_s1 : forall w, sleeping (wsleep ls) w -> nth_error (workers (base ls)) w = Some WAwait;
  li_k1 : forall w, nth_error (pendw ls) w = Some true -> exists u, nth_error (workers (base ls)) w = Some (WRunning u);
  li_k0 : na = false -> pendc ls > 0 -> all_waits_done (base ls);
  li_j1 : queue (base ls) <> [] -> (exists w, sleeping (wsleep ls) w) -> pendc ls > 0 \/ exists w, active ls w;
  li_j2 : stop (base ls) = true -> pendall ls = false -> forall w, ~ sleeping (wsleep ls) w;
  li_j3 : forall k p, sleeping (ksleep ls) k -> nth_error (waiters (base ls)) k = Some p -> wait_cond_false (base ls) p }.

Lemma linv_init : forall na n, LInv na (linit n).
Proof.
  intros na n; constructor; simpl.
  - apply inv_init.
  - rewrite !repeat_length; reflexivity.
  - reflexivity.
  - rewrite !repeat_length; reflexivity.
  - intros w H. unfold sleeping in H. apply nth_error_In, repeat_spec in H; discriminate.
  - intros w H. apply nth_error_In, repeat_spec in H; discriminate.
  - intros _ H; lia.
  - intros H; congruence.
  - discriminate.
  - intros k p H; unfold sleeping in H; destruct k; discriminate.
Qed.

(* a worker that is not at the top of its loop is awake *)
Lemma busy_awake : forall na ls w c, LInv na ls -> nth_error (workers (base ls)) w = Some c -> c <> WAwait ->
  awake (wsleep ls) w.
Proof.
  intros na ls w c I E N. destruct (nth_error_len _ _ (wsleep ls) _ w c (li_lenw _ _ I) E) as [[|] F]; [|exact F].
  exfalso. rewrite (li_s1 _ _ I w F) in E. congruence.
Qed.

Ltac inv_base := match goal with Hb : step _ _ _ |- _ => inversion Hb; subst; clear Hb end.
Ltac lprojs := cbn [base wsleep ksleep pendc pendw pendall with_base queue stop workers waiters submitted runs finished joined with_workers] in *.

Lemma lstep_base_inv : forall na ls e ls', lstep na ls e ls' -> Inv (base ls) -> Inv (base ls').
Proof.
  intros na ls e ls' H I; inversion H; subst; lprojs; try exact I;
    match goal with Hb : step _ _ _ |- _ => apply (step_inv _ _ _ Hb I) end.
Qed.

Lemma lstep_lengths : forall na ls e ls', lstep na ls e ls' ->
  length (wsleep ls) = length (workers (base ls)) -> length (ksleep ls) = length (waiters (base ls)) ->
  length (pendw ls) = length (workers (base ls)) ->
  length (wsleep ls') = length (workers (base ls')) /\ length (ksleep ls') = length (waiters (base ls')) /\
  length (pendw ls') = length (workers (base ls')).
Proof.
  intros na ls e ls' H L1 L2 L3; inversion H; subst; lprojs;
    try match goal with Ha : add_notify _ _ _ _ _ |- _ => destruct (add_notify_only_wakes _ _ _ _ _ Ha) as (A1 & A2 & _) end;
    try inv_base; lprojs; rewrite ?set_nth_length, ?allawake_length, ?wake_w_length, ?wake_k_length, ?app_length; simpl; auto; try lia.
Qed.

Lemma nth_set_other : forall (A : Type) (l : list A) w x j, j <> w -> nth_error (set_nth l w x) j = nth_error l j.
Proof. intros. rewrite nth_error_set_nth. apply Nat.eqb_neq in H; rewrite H; reflexivity. Qed.
Lemma nth_set_same : forall (A : Type) (l : list A) w x y, nth_error l w = Some y -> nth_error (set_nth l w x) w = Some x.
Proof. intros. rewrite nth_error_set_nth, Nat.eqb_refl, H; reflexivity. Qed.

Lemma sleeping_set_true : forall l w i, sleeping (set_nth l w true) i -> i = w \/ sleeping l i.
Proof.
  unfold sleeping; intros l w i H. destruct (Nat.eq_dec i w) as [E|E]; [left; exact E|right].
  rewrite nth_set_other in H by exact E; exact H.
Qed.

Lemma lstep_s1 : forall na ls e ls', lstep na ls e ls' -> LInv na ls ->
  forall j, sleeping (wsleep ls') j -> nth_error (workers (base ls')) j = Some WAwait.
Proof.
  intros na ls e ls' H I j S. pose proof (li_s1 _ _ I) as S1.
  inversion H; subst; lprojs;
    try match goal with Ha : add_notify _ _ _ _ _ |- _ => destruct (add_notify_only_wakes _ _ _ _ _ Ha) as (_ & _ & A3 & _) end;
    try inv_base; lprojs;
    try (exfalso; apply (allawake_not_sleeping _ _ S); fail);
    try (apply S1; auto; fail).
  - (* block *) apply sleeping_set_true in S. destruct S as [->|S]; [assumption|apply S1, S].
  - (* begin *) pose proof (S1 j S) as E. destruct (Nat.eq_dec j w) as [->|N]; [congruence|rewrite nth_set_other by exact N; exact E].
  - (* end *) pose proof (S1 j S) as E. destruct (Nat.eq_dec j w) as [->|N]; [congruence|rewrite nth_set_other by exact N; exact E].
  - (* exit *) pose proof (S1 j S) as E. destruct (Nat.eq_dec j w) as [->|N]; [unfold awake, sleeping in *; congruence|rewrite nth_set_other by exact N; exact E].
  - (* spurious *) apply S1. apply (sleeping_wake_w _ _ _ S).
Qed.

Lemma lstep_k1 : forall na ls e ls', lstep na ls e ls' -> LInv na ls ->
  forall j, nth_error (pendw ls') j = Some true -> exists u, nth_error (workers (base ls')) j = Some (WRunning u).
Proof.
  intros na ls e ls' H I j S. pose proof (li_k1 _ _ I) as K1.
  inversion H; subst; lprojs; try inv_base; lprojs; try (apply K1; exact S).
  - (* push body *) destruct (Nat.eq_dec j w) as [->|N]; [eauto|rewrite nth_set_other in S by exact N; apply K1, S].
  - (* notify body *) destruct (Nat.eq_dec j w) as [->|N]; [|rewrite nth_set_other in S by exact N; apply K1, S].
    rewrite (nth_set_same _ _ _ _ _ H0) in S; discriminate.
  - (* pop *) destruct (K1 j S) as [u E]. destruct (Nat.eq_dec j w) as [->|N]; [congruence|rewrite nth_set_other by exact N; eauto].
  - (* begin *) destruct (K1 j S) as [u E]. destruct (Nat.eq_dec j w) as [->|N]; [congruence|rewrite nth_set_other by exact N; eauto].
  - (* end *) destruct (K1 j S) as [u E]. destruct (Nat.eq_dec j w) as [->|N]; [congruence|rewrite nth_set_other by exact N; eauto].
  - (* idle *) destruct (K1 j S) as [u E]. destruct (Nat.eq_dec j w) as [->|N]; [congruence|rewrite nth_set_other by exact N; eauto].
  - (* exit *) destruct (K1 j S) as [u E]. destruct (Nat.eq_dec j w) as [->|N]; [congruence|rewrite nth_set_other by exact N; eauto].
Qed.

Lemma lstep_k0 : forall na ls e ls', lstep na ls e ls' -> (na = true \/ disciplined ls e) -> LInv na ls ->
  na = false -> pendc ls' > 0 -> all_waits_done (base ls').
Proof.
  intros na ls e ls' H D I NA P. destruct D as [D|D]; [congruence|]. pose proof (li_k0 _ _ I NA) as K0.
  inversion H; subst; lprojs; try inv_base; lprojs; simpl in D; try (apply K0; lia); try exact D.
  - (* waitcall *) lia.
  - (* waitseg *) specialize (K0 P). match goal with Hk : nth_error (waiters _) _ = Some ?p, Hd : is_done ?p = false |- _ => rewrite (K0 _ _ Hk) in Hd; discriminate end.
Qed.

Lemma lstep_j2 : forall na ls e ls', lstep na ls e ls' -> LInv na ls ->
  stop (base ls') = true -> pendall ls' = false -> forall w, ~ sleeping (wsleep ls') w.
Proof.
  intros na ls e ls' H I ST PA j S. pose proof (li_j2 _ _ I) as J2.
  inversion H; subst; lprojs;
    try match goal with Ha : add_notify _ _ _ _ _ |- _ => destruct (add_notify_only_wakes _ _ _ _ _ Ha) as (_ & _ & A3 & _) end;
    try inv_base; lprojs; try congruence;
    try (apply (allawake_not_sleeping _ _ S); fail);
    try (apply (J2 ST PA j); auto; fail).
  apply (J2 ST PA j). apply (sleeping_wake_w _ _ _ S).
Qed.

Lemma wcf_frame : forall b b' p, wait_cond_false b p ->
  (queue b <> [] -> queue b' <> []) ->
  (forall i c, nth_error (workers b) i = Some c -> idle c = false ->
               exists c', nth_error (workers b') i = Some c' /\ idle c' = false) ->
  wait_cond_false b' p.
Proof. intros b b' [n0|n0 i|n0] H Q W; simpl in *; auto. destruct H as [c [E Ic]]. apply (W i c E Ic). Qed.

Lemma idle_prefix_stop : forall l, idle_prefix l < length l ->
  exists c, nth_error l (idle_prefix l) = Some c /\ idle c = false.
Proof.
  induction l as [|x r IH]; simpl; intro H; [lia|].
  destruct (idle x) eqn:I; [apply IH; lia|]. exists x; auto.
Qed.

Lemma advance_s_blocked : forall ws n0 i, is_done (advance_s ws n0 i) = false ->
  exists j c, advance_s ws n0 i = WS n0 j /\ nth_error ws j = Some c /\ idle c = false.
Proof.
  intros ws n0 i H. unfold advance_s in *.
  destruct (Nat.leb (length ws) (i + idle_prefix (skipn i ws))) eqn:L; [discriminate|].
  apply Nat.leb_gt in L. exists (i + idle_prefix (skipn i ws)).
  destruct (idle_prefix_stop (skipn i ws)) as [c [E Ic]]; [rewrite skipn_length; lia|].
  rewrite nth_error_skipn' in E. exists c; auto.
Qed.

Lemma advance_blocked : forall b p, is_done (advance (queue b) (workers b) p) = false ->
  wait_cond_false b (advance (queue b) (workers b) p).
Proof.
  intros b [n0|n0 i|n0] H.
  - rewrite advance_WQ in *. destruct (is_nil (queue b)) eqn:Q.
    + destruct (advance_s_blocked _ _ _ H) as [j [c [-> [E Ic]]]]. simpl; eauto.
    + simpl. intro Z; rewrite Z in Q; discriminate.
  - simpl in *. destruct (advance_s_blocked _ _ _ H) as [j [c [-> [E Ic]]]]. simpl; eauto.
  - simpl in H; discriminate.
Qed.

Lemma sleeping_app_false : forall l k, sleeping (l ++ [false]) k -> sleeping l k /\ k < length l.
Proof.
  unfold sleeping; intros l k H. destruct (Nat.lt_ge_cases k (length l)) as [L|L].
  - rewrite nth_error_app1 in H by exact L; auto.
  - rewrite nth_error_app2 in H by exact L. destruct (k - length l) as [|[|m]]; simpl in H; discriminate.
Qed.

Lemma lstep_j3 : forall na ls e ls', lstep na ls e ls' -> LInv na ls ->
  forall k p, sleeping (ksleep ls') k -> nth_error (waiters (base ls')) k = Some p -> wait_cond_false (base ls') p.
Proof.
  intros na ls e ls' H I k p S E. pose proof (li_j3 _ _ I) as J3.
  inversion H; subst; lprojs;
    try match goal with Ha : add_notify _ _ _ _ _ |- _ => destruct (add_notify_only_wakes _ _ _ _ _ Ha) as (_ & _ & _ & A4 & _) end;
    try inv_base; lprojs;
    try (exfalso; apply (allawake_not_sleeping _ _ S); fail);
    try (apply (J3 k p); auto; fail).
  - (* push client *) apply (wcf_frame _ _ _ (J3 k p S E)); lprojs; eauto. intros _ Z; apply app_eq_nil in Z; destruct Z; discriminate.
  - (* push body *) apply (wcf_frame _ _ _ (J3 k p S E)); lprojs; eauto. intros _ Z; apply app_eq_nil in Z; destruct Z; discriminate.
  - (* begin *) apply (wcf_frame _ _ _ (J3 k p S E)); lprojs; auto. intros i c Ec Ic.
    destruct (Nat.eq_dec i w) as [->|N]; [rewrite (nth_set_same _ _ _ _ _ Ec); eauto|rewrite nth_set_other by exact N; eauto].
  - (* end *) apply (wcf_frame _ _ _ (J3 k p S E)); lprojs; auto. intros i c Ec Ic.
    destruct (Nat.eq_dec i w) as [->|N]; [rewrite (nth_set_same _ _ _ _ _ Ec); eauto|rewrite nth_set_other by exact N; eauto].
  - (* exit *) apply (wcf_frame _ _ _ (J3 k p S E)); lprojs; auto. intros i c Ec Ic.
    destruct (Nat.eq_dec i w) as [->|N]; [|rewrite nth_set_other by exact N; eauto].
    match goal with Hw : nth_error _ w = Some WAwait |- _ => rewrite Hw in Ec; inversion Ec; subst; discriminate end.
  - (* waitcall *) apply sleeping_app_false in S. destruct S as [S L].
    rewrite nth_error_app1 in E by (rewrite <- (li_lenk _ _ I); exact L).
    apply (wcf_frame _ _ _ (J3 k p S E)); lprojs; eauto.
  - (* waitseg *) destruct (Nat.eq_dec k k0) as [->|N].
    + match goal with Hk : nth_error (waiters _) k0 = Some _ |- _ => rewrite (nth_set_same _ _ _ _ _ Hk) in E end.
      inversion E; subst p; clear E.
      match goal with Ha : awake _ k0 |- _ => unfold sleeping in S; rewrite (nth_set_same _ _ _ _ _ Ha) in S end.
      inversion S as [S']. apply negb_true_iff in S'.
      apply (wcf_frame (base ls)); lprojs; eauto. apply advance_blocked; exact S'.
    + unfold sleeping in S. rewrite nth_set_other in S, E by exact N.
      apply (wcf_frame _ _ _ (J3 k p S E)); lprojs; eauto.
  - (* spurious *) apply (J3 k p); [apply (sleeping_wake_k _ _ _ S)|exact E].
Qed.

Lemma active_frame : forall ls ls' w, active ls w ->
  (forall c, nth_error (workers (base ls)) w = Some c -> c <> WExited ->
             exists c', nth_error (workers (base ls')) w = Some c' /\ c' <> WExited) ->
  (awake (wsleep ls) w -> awake (wsleep ls') w) -> active ls' w.
Proof. intros ls ls' w [c [E [N A]]] Hw Ha. destruct (Hw c E N) as [c' [E' N']]. exists c'; auto. Qed.

Lemma done_not_asleep : forall na ls k p, LInv na ls -> nth_error (waiters (base ls)) k = Some p -> is_done p = true ->
  ~ sleeping (ksleep ls) k.
Proof. intros na ls k p I E D S. pose proof (li_j3 _ _ I k p S E) as F. destruct p; try discriminate; exact F. Qed.

Lemma lstep_j1 : forall na ls e ls', lstep na ls e ls' -> LInv na ls ->
  queue (base ls') <> [] -> (exists w, sleeping (wsleep ls') w) -> pendc ls' > 0 \/ exists w, active ls' w.
Proof.
  intros na ls e ls' H I Q [j S]. pose proof (li_j1 _ _ I) as J1.
  inversion H; subst; lprojs.
  - (* push client *) left; lia.
  - (* push body *) right; exists w. exists (WRunning u). inv_base; lprojs. repeat split; [assumption|discriminate|].
    apply (busy_awake na ls w (WRunning u) I); [assumption|discriminate].
  - (* notify client *) match goal with Ha : add_notify _ _ _ _ _ |- _ => inversion Ha; subst end.
    + exfalso; apply (allawake_not_sleeping _ _ S).
    + destruct th as [w0|k0]; simpl in *.
      * right; exists w0. exists WAwait. repeat split; [apply (li_s1 _ _ I); assumption|discriminate|].
        unfold awake. match goal with Hs : sleeping _ w0 |- _ => apply (nth_set_same _ _ _ _ _ Hs) end.
      * exfalso. match goal with Hs : sleeping _ k0 |- _ => rename Hs into Sk end.
        destruct (nth_error_len _ _ (waiters (base ls)) (ksleep ls) k0 true) as [p Ep]; [symmetry; apply (li_lenk _ _ I)|exact Sk|].
        apply (done_not_asleep _ ls k0 p I Ep); [|exact Sk]. apply (li_k0 _ _ I) with (k := k0); auto.
    + exfalso. match goal with Hn : forall th, ~ is_asleep _ th |- _ => apply (Hn (TW j)); exact S end.
  - (* notify body *) right; exists w. destruct (li_k1 _ _ I w) as [u Eu]; [assumption|].
    exists (WRunning u). repeat split; [assumption|discriminate|].
    match goal with Ha : add_notify _ _ _ _ _ |- _ => destruct (add_notify_only_wakes _ _ _ _ _ Ha) as (_ & _ & _ & _ & A5) end.
    apply A5. apply (busy_awake na ls w (WRunning u) I); [assumption|discriminate].
  - (* rejected *) inv_base. apply J1; eauto.
  - (* block *) inv_base. congruence.
  - (* pop *) exfalso; apply (allawake_not_sleeping _ _ S).
  - (* begin *) inv_base; lprojs. right; exists w; exists (WRunning t). repeat split; [|discriminate|].
    + match goal with Hw : nth_error _ w = Some (WHeld t) |- _ => apply (nth_set_same _ _ _ _ _ Hw) end.
    + apply (busy_awake na ls w (WHeld t) I); [assumption|discriminate].
  - (* end *) inv_base; lprojs. right; exists w; exists (WRan t). repeat split; [|discriminate|].
    + match goal with Hw : nth_error _ w = Some (WRunning t) |- _ => apply (nth_set_same _ _ _ _ _ Hw) end.
    + apply (busy_awake na ls w (WRunning t) I); [assumption|discriminate].
  - (* idle *) exfalso; apply (allawake_not_sleeping _ _ S).
  - (* exit *) inv_base; lprojs. congruence.
  - (* stopset *) inv_base; lprojs. destruct (J1 Q) as [P|[w A]]; eauto; right; exists w; exact A.
  - (* stopnotify *) exfalso; apply (allawake_not_sleeping _ _ S).
  - (* joined *) inv_base; lprojs. destruct (J1 Q) as [P|[w A]]; eauto; right; exists w; exact A.
  - (* waitcall *) inv_base; lprojs. destruct (J1 Q) as [P|[w A]]; eauto; right; exists w; exact A.
  - (* waitseg *) inv_base; lprojs. destruct (J1 Q) as [P|[w A]]; eauto; right; exists w; exact A.
  - (* spurious *) destruct (J1 Q) as [P|[w A]]; [exists j; apply (sleeping_wake_w _ _ _ S)|left; exact P|].
    right; exists w. apply (active_frame ls _ w A); lprojs; eauto. apply awake_wake_w.
Qed.

Theorem lstep_linv : forall na ls e ls', lstep na ls e ls' -> (na = true \/ disciplined ls e) -> LInv na ls -> LInv na ls'.
Proof.
  intros na ls e ls' H D I.
  destruct (lstep_lengths _ _ _ _ H (li_lenw _ _ I) (li_lenk _ _ I) (li_lenp _ _ I)) as (L1 & L2 & L3).
  constructor; auto.
  - apply (lstep_base_inv _ _ _ _ H (li_base _ _ I)).
  - apply (lstep_s1 _ _ _ _ H I).
  - apply (lstep_k1 _ _ _ _ H I).
  - apply (lstep_k0 _ _ _ _ H D I).
  - apply (lstep_j1 _ _ _ _ H I).
  - apply (lstep_j2 _ _ _ _ H I).
  - apply (lstep_j3 _ _ _ _ H I).
Qed.

Lemma lrun_linv : forall na disc, na || disc = true -> forall ls tr ls', lrun na disc ls tr ls' -> LInv na ls -> LInv na ls'.
Proof.
  intros na disc ND ls tr ls' R; induction R; intro I; [exact I|]. apply IHR.
  apply (lstep_linv _ _ _ _ H); [|exact I]. destruct na; [left; reflexivity|right; apply H0; exact ND].
Qed.

Lemma add_notify_exists : forall na ls, exists tg ws ks, add_notify na ls tg ws ks.
Proof.
  intros na ls. destruct na eqn:NA.
  - exists None, (allawake (wsleep ls)), (allawake (ksleep ls)); constructor; reflexivity.
  - destruct (classic (exists th, is_asleep ls th)) as [[th A]|N].
    + exists (Some th), (wake_w ls th), (wake_k ls th); apply an_one; auto.
    + exists None, (wsleep ls), (ksleep ls); apply an_none; auto. intros th A; apply N; eauto.
Qed.

Lemma all_exited_intro : forall ws, (forall w c, nth_error ws w = Some c -> c = WExited) -> all_exited ws = true.
Proof.
  intros ws H. unfold all_exited. apply forallb_forall. intros c Hin. apply In_nth_error in Hin. destruct Hin as [w E].
  rewrite (H w c E); reflexivity.
Qed.

(* deadlock freedom: a reachable state that is not final always has an enabled step of the pool's own machinery
   (not a new client call, not a spurious wake-up) *)
Theorem linv_progress : forall na ls, LInv na ls -> workers (base ls) <> [] -> final ls \/ can_progress na ls.
Proof.
  intros na ls I NW. unfold can_progress.
  (* 1. a pending notification of a client's addTask *)
  destruct (Nat.eq_dec (pendc ls) 0) as [PC|PC].
  2:{ right. destruct (add_notify_exists na ls) as (tg & ws & ks & A).
      eexists; eexists; split; [apply (l_notify_client na ls tg ws ks); [lia|exact A]|reflexivity]. }
  (* 2. a pending notification of a nested addTask *)
  destruct (classic (exists w, nth_error (pendw ls) w = Some true)) as [[w PW]|PW].
  { right. destruct (add_notify_exists na ls) as (tg & ws & ks & A).
    eexists; eexists; split; [apply (l_notify_body na ls w tg ws ks PW A)|reflexivity]. }
  (* 3. the destructor's notification *)
  destruct (pendall ls) eqn:PA.
  { right. eexists; eexists; split; [apply (l_stopnotify na ls PA)|reflexivity]. }
  (* 4. a worker with a task in hand *)
  destruct (classic (exists w c, nth_error (workers (base ls)) w = Some c /\ idle c = false)) as [[w [c [E Ic]]]|BUSY].
  { right. assert (PF : nth_error (pendw ls) w = Some false).
    { destruct (nth_error_len _ _ (pendw ls) _ w c (li_lenp _ _ I) E) as [[|] F]; [exfalso; apply PW; eauto|exact F]. }
    destruct c as [|t|t|t|]; try discriminate.
    - eexists; eexists; split; [apply (l_begin na ls w t); apply st_begin; exact E|reflexivity].
    - eexists; eexists; split; [apply (l_end na ls w t); [exact PF|apply st_end; exact E]|reflexivity].
    - eexists; eexists; split; [apply (l_idle na ls w); apply (st_idle _ w t); exact E|reflexivity]. }
  assert (IDLE : forall w c, nth_error (workers (base ls)) w = Some c -> idle c = true).
  { intros w c E. destruct (idle c) eqn:Ic; [reflexivity|]. exfalso; apply BUSY; eauto. }
  (* 5. a worker awake at the top of its loop *)
  destruct (classic (exists w, nth_error (workers (base ls)) w = Some WAwait /\ awake (wsleep ls) w)) as [[w [E A]]|TOP].
  { right. destruct (queue (base ls)) as [|t q] eqn:Q.
    - destruct (stop (base ls)) eqn:ST.
      + eexists; eexists; split; [apply (l_exit na ls w); [exact A|apply st_exit; assumption]|reflexivity].
      + eexists; eexists; split; [apply (l_block na ls w); [exact A|apply st_block; assumption]|reflexivity].
    - eexists; eexists; split; [apply (l_pop na ls w t); [exact A|apply (st_pop _ w t q); assumption]|reflexivity]. }
  (* 6. a call of wait() that is awake *)
  destruct (classic (exists k p, nth_error (waiters (base ls)) k = Some p /\ is_done p = false /\ awake (ksleep ls) k)) as [[k [p [E [D A]]]]|WAIT].
  { right. eexists; eexists; split; [apply (l_waitseg na ls k); [exact A|apply (st_waitseg _ k p); assumption]|reflexivity]. }
  (* otherwise every worker is asleep at the top of its loop or gone, every unfinished wait() is asleep *)
  assert (WST : forall w c, nth_error (workers (base ls)) w = Some c -> c = WExited \/ (c = WAwait /\ sleeping (wsleep ls) w)).
  { intros w c E. pose proof (IDLE w c E) as Ic. destruct c; try discriminate; [right|left; reflexivity].
    split; [reflexivity|]. destruct (nth_error_len _ _ (wsleep ls) _ w _ (li_lenw _ _ I) E) as [[|] F]; [exact F|].
    exfalso; apply TOP; eauto. }
  assert (NOACT : forall w, ~ active ls w).
  { intros w [c [E [N A]]]. destruct (WST w c E) as [X|[_ S]]; [congruence|]. unfold awake, sleeping in *; congruence. }
  assert (Q : queue (base ls) = []).
  { destruct (queue (base ls)) eqn:Q; [reflexivity|exfalso].
    assert (E0' : exists c0, nth_error (workers (base ls)) 0 = Some c0).
    { destruct (workers (base ls)) as [|c0 r]; [congruence|exists c0; reflexivity]. }
    destruct E0' as [c0 E0].
    destruct (WST 0 c0 E0) as [X|[_ S]].
    - subst c0. destruct (i_exit _ (li_base _ _ I) 0 E0) as [Q0 _]. congruence.
    - destruct (li_j1 _ _ I) as [P|[w A]]; [congruence|eauto|lia|apply (NOACT w A)]. }
  assert (WD : all_waits_done (base ls)).
  { intros k p E. destruct (is_done p) eqn:D; [reflexivity|exfalso].
    destruct (nth_error_len _ _ (ksleep ls) _ k p (li_lenk _ _ I) E) as [[|] F]; [|apply WAIT; eauto 6].
    pose proof (li_j3 _ _ I k p F E) as C. destruct p as [n0|n0 i|n0]; simpl in C; try discriminate.
    - congruence.
    - destruct C as [c [Ec Ic]]. rewrite (IDLE i c Ec) in Ic; discriminate. }
  destruct (stop (base ls)) eqn:ST.
  - assert (AE : all_exited (workers (base ls)) = true).
    { apply all_exited_intro. intros w c E. destruct (WST w c E) as [X|[_ S]]; [exact X|].
      exfalso. apply (li_j2 _ _ I ST PA w S). }
    destruct (joined (base ls)) eqn:J.
    + left. repeat split; auto. intros w E; apply PW; eauto.
    + right. eexists; eexists; split; [apply (l_joined na ls); [exact PA|exact J|apply st_joined; assumption]|reflexivity].
  - left. repeat split; auto; try congruence. intros w E; apply PW; eauto.
Qed.

Theorem deadlock_free : forall na disc, na || disc = true -> forall n tr ls, n >= 1 ->
  lrun na disc (linit n) tr ls -> final ls \/ can_progress na ls.
Proof.
  intros na disc ND n tr ls N R. pose proof (lrun_linv na disc ND _ _ _ R (linv_init na n)) as I.
  apply (linv_progress na ls I).
  assert (L : length (workers (base ls)) = n).
  { rewrite <- (li_lenw _ _ I). clear I. remember (linit n) as l0. assert (L0 : length (wsleep l0) = n) by (subst; apply repeat_length).
    clear Heql0. induction R; [exact L0|]. apply IHR. 
    inversion H; subst; lprojs;
    try match goal with Ha : add_notify _ _ _ _ _ |- _ => destruct (add_notify_only_wakes _ _ _ _ _ Ha) as (A1 & _) end;
    rewrite ?set_nth_length, ?allawake_length, ?wake_w_length; auto; try lia. }
  intro Z; rewrite Z in L; simpl in L; lia.
Qed.

(* the lost wake-up of the code as written: one worker, a client inside addTask and another client calling wait() *)
Definition lost_wakeup_trace : list levent :=
  [LBlock 0; LAddPush 0 None; LWaitCall; LWaitSeg 0; LAddNotify None (Some (TK 0)); LWaitSeg 0].
Definition lost_wakeup_state : lstate :=
  lmk (mk [0] false [WAwait] [WQ 1] 1 [] [] false) [true] [true] 0 [false] false.

Lemma lost_wakeup_reachable : lrun false false (linit 1) lost_wakeup_trace lost_wakeup_state.
Proof.
  unfold lost_wakeup_trace, lost_wakeup_state, linit, init; simpl.
  eapply lrun_cons; [eapply l_block; [reflexivity|apply st_block; reflexivity]|discriminate|]; simpl.
  eapply lrun_cons; [eapply l_push_client; apply st_add; reflexivity|discriminate|]; simpl.
  eapply lrun_cons; [eapply l_waitcall; apply st_waitcall|discriminate|]; simpl.
  eapply lrun_cons; [eapply l_waitseg; [reflexivity|eapply (st_waitseg _ 0 (WQ 1)); reflexivity]|discriminate|]; simpl.
  eapply lrun_cons; [eapply (l_notify_client false _ (Some (TK 0))); [simpl; lia|apply an_one; reflexivity]|discriminate|]; simpl.
  eapply lrun_cons; [eapply l_waitseg; [reflexivity|eapply (st_waitseg _ 0 (WQ 1)); reflexivity]|discriminate|]; simpl.
  apply lrun_nil.
Qed.

Lemma lost_wakeup_stuck : forall e ls', lstep false lost_wakeup_state e ls' -> internal e = false.
Proof.
  intros e ls' H; inversion H; subst; simpl in *; try reflexivity; exfalso;
    try inv_base; simpl in *; unfold awake in *; simpl in *;
    try lia; try discriminate;
    try match goal with Hn : nth_error _ ?w = _ |- _ => destruct w as [|[|?]]; simpl in Hn; discriminate end.
Qed.

Lemma lost_wakeup_not_final : ~ final lost_wakeup_state.
Proof. intros [Q _]; discriminate Q. Qed.

Lemma sumf_set_nth : forall (A : Type) (f : A -> nat) l w c c', nth_error l w = Some c ->
  sumf f (set_nth l w c') + f c = sumf f l + f c'.
Proof.
  induction l as [|x r IH]; intros [|q] c c' H; simpl in *; try discriminate.
  - inversion H; subst; lia.
  - specialize (IH q c c' H); lia.
Qed.

Lemma sum_over_sumf : forall f l, sum_over f l = sumf f l.
Proof. induction l; simpl; auto. Qed.

(* every step of the pool's own machinery decreases the measure *)
Theorem internal_step_decreases : forall na ls e ls', lstep na ls e ls' -> internal e = true ->
  lex_lt (measure ls') (measure ls).
Proof.
  intros na ls e ls' H IE; inversion H; subst; try discriminate; unfold lex_lt, measure, todo, awake_flags; lprojs; simpl fst; simpl snd.
  - (* notify client *) left. destruct (pendc ls); simpl; lia.
  - (* notify body *) left. pose proof (sumf_set_nth _ b2n (pendw ls) w true false H0) as X; simpl in X. lia.
  - (* block *) right. inv_base; lprojs. split; [reflexivity|].
    pose proof (sumf_set_nth _ nb2n (wsleep ls) w false true H0) as X; simpl in X. lia.
  - (* pop *) left. inv_base; lprojs.
    match goal with Hw : nth_error (workers _) w = Some WAwait, Hq : queue _ = _ |- _ =>
      pose proof (sumf_set_nth _ wweight _ w WAwait (WHeld t) Hw) as X; rewrite Hq end. simpl in *. lia.
  - (* begin *) left. inv_base; lprojs.
    match goal with Hw : nth_error (workers _) w = Some _ |- _ => pose proof (sumf_set_nth _ wweight _ w _ (WRunning t) Hw) as X end. simpl in *. lia.
  - (* end *) left. inv_base; lprojs.
    match goal with Hw : nth_error (workers _) w = Some _ |- _ => pose proof (sumf_set_nth _ wweight _ w _ (WRan t) Hw) as X end. simpl in *. lia.
  - (* idle *) left. inv_base; lprojs.
    match goal with Hw : nth_error (workers _) w = Some _ |- _ => pose proof (sumf_set_nth _ wweight _ w _ WAwait Hw) as X end. simpl in *. lia.
  - (* exit *) left. inv_base; lprojs.
    match goal with Hw : nth_error (workers _) w = Some _ |- _ => pose proof (sumf_set_nth _ wweight _ w _ WExited Hw) as X end. simpl in *. lia.
  - (* stopnotify *) left. rewrite H0; simpl. lia.
  - (* joined *) left. inv_base; lprojs. match goal with Hj : joined _ = false |- _ => rewrite Hj end; simpl. lia.
  - (* waitseg *) inv_base; lprojs.
    match goal with Hk : nth_error (waiters _) k = Some ?p |- _ =>
      pose proof (sumf_set_nth _ kweight _ k p (advance (queue (base ls)) (workers (base ls)) p) Hk) as X end.
    assert (K1 : kweight p = 1) by (unfold kweight; match goal with Hd : is_done p = false |- _ => rewrite Hd end; reflexivity). rewrite K1 in X.
    destruct (is_done (advance (queue (base ls)) (workers (base ls)) p)) eqn:D; simpl negb.
    + left. assert (K2 : kweight (advance (queue (base ls)) (workers (base ls)) p) = 0) by (unfold kweight; rewrite D; reflexivity). lia.
    + right. assert (K2 : kweight (advance (queue (base ls)) (workers (base ls)) p) = 1) by (unfold kweight; rewrite D; reflexivity). split; [lia|]. pose proof (sumf_set_nth _ nb2n (ksleep ls) k false true H0) as Y; simpl in Y. lia.
Qed.

Lemma lex_lt_wf : well_founded lex_lt.
Proof.
  intros [a b]. revert b. induction a as [a IHa] using lt_wf_ind. intro b. induction b as [b IHb] using lt_wf_ind.
  constructor. intros [a' b'] [L|[E L]]; simpl in *; [apply IHa; exact L|subst a'; apply IHb; exact L].
Qed.

(* hence no infinite run of the pool's own machinery: without new client calls the pool comes to rest *)
Theorem internal_runs_terminate : forall na, well_founded (istep na).
Proof.
  intro na. apply (wf_incl _ _ (fun a b => lex_lt (measure a) (measure b))).
  - intros a b [e [H IE]]. apply (internal_step_decreases na b e a H IE).
  - apply (wf_inverse_image _ _ lex_lt measure), lex_lt_wf.
Qed.

Lemma internal_disciplined : forall ls e, internal e = true -> disciplined ls e.
Proof. intros ls [] H; simpl in *; try discriminate; exact I. Qed.

Lemma lrun_app1 : forall na disc ls e ls1 tr ls2, lstep na ls e ls1 -> (disc = true -> disciplined ls e) ->
  lrun na disc ls1 tr ls2 -> lrun na disc ls (e :: tr) ls2.
Proof. intros; econstructor; eauto. Qed.

Lemma lstep_workers_length : forall na ls e ls', lstep na ls e ls' ->
  length (workers (base ls')) = length (workers (base ls)).
Proof. intros na ls e ls' H; inversion H; subst; lprojs; try inv_base; lprojs; rewrite ?set_nth_length; reflexivity. Qed.

(* from every state satisfying the invariant the pool's own machinery reaches, in finitely many steps, a state in
   which every accepted task has run, every wait() has returned and a started destructor has joined *)
Theorem rest_is_reached : forall na disc, na || disc = true -> forall ls, LInv na ls -> workers (base ls) <> [] ->
  exists tr ls', lrun na disc ls tr ls' /\ forallb internal tr = true /\ final ls' /\ LInv na ls'.
Proof.
  intros na disc ND ls. induction ls as [ls IH] using (well_founded_induction (internal_runs_terminate na)).
  intros I NW. destruct (linv_progress na ls I NW) as [F|[e [ls1 [H IE]]]].
  - exists [], ls. split; [constructor|split; [reflexivity|split; assumption]].
  - assert (I1 : LInv na ls1).
    { apply (lstep_linv _ _ _ _ H); [|exact I]. right; apply internal_disciplined; exact IE. }
    assert (NW1 : workers (base ls1) <> []).
    { intro Z. apply NW. pose proof (lstep_workers_length _ _ _ _ H) as L. rewrite Z in L.
      destruct (workers (base ls)); [reflexivity|discriminate]. }
    destruct (IH ls1 (ex_intro _ e (conj H IE)) I1 NW1) as (tr & ls2 & R & A & F & I2).
    exists (e :: tr), ls2. split; [|split; [|split; assumption]].
    + econstructor; eauto. intros _; apply internal_disciplined; exact IE.
    + simpl. rewrite IE; exact A.
Qed.

(* in a final state every accepted task has run exactly once *)
Lemma final_all_done : forall na ls, LInv na ls -> final ls ->
  all_done (submitted (base ls)) (runs (base ls)) (finished (base ls)).
Proof.
  intros na ls I (Q & W & _). apply inv_quiescent_all_done; [apply (li_base _ _ I)|].
  split; [exact Q|]. intros c Hin. apply In_nth_error in Hin. destruct Hin as [w E]. apply (W w c E).
Qed.

(* the live model refines the model of C29Model.v: every live run projects onto a run of the base model *)
Lemma lstep_refines : forall na ls e ls', lstep na ls e ls' ->
  base ls' = base ls \/ exists ev, step (base ls) ev (base ls').
Proof. intros na ls e ls' H; inversion H; subst; lprojs; eauto. Qed.

Lemma lrun_refines : forall na disc ls tr ls', lrun na disc ls tr ls' -> exists btr, steps (base ls) btr (base ls').
Proof.
  intros na disc ls tr ls' R; induction R; [exists []; constructor|].
  destruct IHR as [btr S]. destruct (lstep_refines _ _ _ _ H) as [E|[ev St]].
  - rewrite <- E. exists btr; exact S.
  - exists (ev :: btr); econstructor; eauto.
Qed.

(* ---- no lost wake-up, in the vocabulary of the code ---- *)
Definition worker_predicate (b : state) : bool := stop b || negb (is_nil (queue b)).   (* stop || !tasks.empty() *)

Lemma no_lost_wakeup : forall na ls, LInv na ls ->
  (* a worker sleeps although its predicate holds only while the notification is still to come, or while another
     worker is on its way to the queue (it will take the task and notify_all) *)
  (forall w, sleeping (wsleep ls) w -> worker_predicate (base ls) = true ->
     pendall ls = true \/ pendc ls > 0 \/ exists w', active ls w') /\
  (* a call of wait() never sleeps on a condition that already holds *)
  (forall k p, sleeping (ksleep ls) k -> nth_error (waiters (base ls)) k = Some p -> wait_cond_false (base ls) p).
Proof.
  intros na ls I; split; [|apply (li_j3 _ _ I)].
  intros w S P. unfold worker_predicate in P. destruct (stop (base ls)) eqn:ST.
  - destruct (pendall ls) eqn:PA; [left; reflexivity|]. exfalso. apply (li_j2 _ _ I ST PA w S).
  - simpl in P. right. apply (li_j1 _ _ I); [|eauto]. intro Z; rewrite Z in P; discriminate.
Qed.

(* ---- ThreadPool(0): no worker ---- *)
Lemma pool0_step : forall s e s', step s e s' -> workers s = [] -> runs s = [] -> finished s = [] ->
  workers s' = [] /\ runs s' = [] /\ finished s' = [] /\ length (queue s) <= length (queue s').
Proof.
  intros s e s' H W R F; inversion H; subst; simpl; try rewrite W in *; auto;
    try (rewrite app_length; simpl; auto with arith);
    try match goal with Hn : nth_error [] ?w = Some _ |- _ => destruct w; discriminate end.
Qed.

Lemma pool0_nothing_runs : forall tr s, steps (init 0) tr s ->
  workers s = [] /\ runs s = [] /\ finished s = [].
Proof.
  intros tr s H. remember (init 0) as s0.
  assert (P0 : workers s0 = [] /\ runs s0 = [] /\ finished s0 = []) by (subst; simpl; auto). clear Heqs0.
  induction H; [exact P0|]. apply IHsteps. destruct P0 as (W & R & F).
  destruct (pool0_step _ _ _ H W R F) as (A & B & C & _); auto.
Qed.

Lemma pool0_wait_returns_only_if_nothing_was_submitted : forall tr s k n0, steps (init 0) tr s ->
  nth_error (waiters s) k = Some (WDone n0) -> n0 = 0.
Proof.
  intros tr s k n0 H E. destruct (pool0_nothing_runs tr s H) as (_ & _ & F).
  pose proof (inv_wait_complete s (reachable_inv 0 tr s H) k n0 E) as C.
  destruct n0; [reflexivity|]. specialize (C 0 (Nat.lt_0_succ _)). rewrite F in C; destruct C.
Qed.

(* the destructor of a pool without worker returns at once and leaves the queued task unrun *)
Lemma pool0_destructor_abandons_tasks :
  exists s, steps (init 0) [Add 0 true; Stop true; Joined] s /\ joined s = true /\ queue s = [0] /\ runs s = [].
Proof.
  eexists; split.
  - eapply steps_cons; [apply st_add; reflexivity|]. eapply steps_cons; [apply st_stop; reflexivity|].
    eapply steps_cons; [apply st_joined; reflexivity|]. apply steps_nil.
  - simpl; auto.
Qed.

(* and wait() after one addTask sleeps for ever, whichever notification addTask uses, even with a single client *)
Definition pool0_trace : list levent := [LAddPush 0 None; LAddNotify None None; LWaitCall; LWaitSeg 0].
Definition pool0_state : lstate := lmk (mk [0] false [] [WQ 1] 1 [] [] false) [] [true] 0 [] false.

Lemma pool0_wait_deadlocks : forall na, lrun na true (linit 0) pool0_trace pool0_state /\ ~ final pool0_state /\
  forall e ls', lstep na pool0_state e ls' -> internal e = false.
Proof.
  intro na; split; [|split].
  - unfold pool0_trace, pool0_state, linit, init; simpl.
    eapply lrun_cons; [eapply l_push_client; apply st_add; reflexivity|intros _ k p E; destruct k; discriminate|]; simpl.
    eapply lrun_cons; [eapply (l_notify_client na _ None); [simpl; lia|]|intros _; exact I|]; simpl.
    { destruct na; [apply (an_all true); reflexivity|apply an_none; [reflexivity|]].
      intros [w|k] A; simpl in A; unfold sleeping in A; [destruct w|destruct k]; discriminate. }
    destruct na; simpl;
    (eapply lrun_cons; [eapply l_waitcall; apply st_waitcall|intros _; reflexivity|]; simpl;
     eapply lrun_cons; [eapply l_waitseg; [reflexivity|eapply (st_waitseg _ 0 (WQ 1)); reflexivity]|intros _; exact I|]; simpl;
     apply lrun_nil).
  - intros [Q _]; discriminate Q.
  - intros e ls' H; inversion H; subst; simpl in *; try reflexivity; exfalso;
      try inv_base; simpl in *; unfold awake in *; simpl in *;
      try lia; try discriminate;
      try match goal with Hn : nth_error _ ?w = _ |- _ => destruct w as [|[|?]]; simpl in Hn; discriminate end.
Qed.

(* ---- the Wrapper ---- *)
Lemma wrapper_never_throws : forall (V X : Type) (body : outcome X V), exists r, wrapper V X body = Returned r.
Proof. intros V X body; eexists; reflexivity. Qed.

Lemma wrapper_carries_value : forall (V X : Type) (v : V) r, wrapper V X (Returned v) = Returned r ->
  ttr_bool V X r = true /\ ttr_deref V X r = inl v.
Proof. intros V X v r H; inversion H; subst; split; reflexivity. Qed.

Lemma wrapper_carries_exception : forall (V X : Type) (x : X) r, wrapper V X (Threw x) = Returned r ->
  ttr_bool V X r = false /\ ttr_deref V X r = inr (Rethrown X x).
Proof. intros V X x r H; inversion H; subst; split; reflexivity. Qed.

(* ---- from the initial state ---- *)
Lemma lrun_wsleep_length : forall na disc ls tr ls', lrun na disc ls tr ls' -> length (wsleep ls') = length (wsleep ls).
Proof.
  intros na disc ls tr ls' R; induction R; [reflexivity|]. rewrite IHR.
  inversion H; subst; lprojs;
    try match goal with Ha : add_notify _ _ _ _ _ |- _ => destruct (add_notify_only_wakes _ _ _ _ _ Ha) as (A1 & _) end;
    rewrite ?set_nth_length, ?allawake_length, ?wake_w_length; auto.
Qed.

Lemma rest_is_reached_from_init : forall na disc, na || disc = true -> forall n tr ls, n >= 1 ->
  lrun na disc (linit n) tr ls ->
  exists tr' ls', lrun na disc ls tr' ls' /\ forallb internal tr' = true /\ final ls' /\
                  all_done (submitted (base ls')) (runs (base ls')) (finished (base ls')).
Proof.
  intros na disc ND n tr ls N R.
  pose proof (lrun_linv na disc ND _ _ _ R (linv_init na n)) as I.
  assert (NW : workers (base ls) <> []).
  { intro Z. pose proof (lrun_wsleep_length _ _ _ _ _ R) as L. simpl in L. rewrite repeat_length in L.
    rewrite (li_lenw _ _ I), Z in L. simpl in L. lia. }
  destruct (rest_is_reached na disc ND ls I NW) as (tr' & ls' & R' & A & F & I').
  exists tr', ls'. split; [exact R'|split; [exact A|split; [exact F|apply (final_all_done na ls' I' F)]]].
Qed.

Lemma lrun_trans : forall na disc ls1 tr1 ls2, lrun na disc ls1 tr1 ls2 -> forall tr2 ls3, lrun na disc ls2 tr2 ls3 ->
  lrun na disc ls1 (tr1 ++ tr2) ls3.
Proof. induction 1; intros tr2 ls3 R2; simpl; [exact R2|]. econstructor; eauto. Qed.

(* with the two theorems above: every run of the pool's own machinery that cannot be extended (weak fairness: no thread
   of the pool that can take a step is left out for ever) has ended in a final state *)
Lemma maximal_runs_end_final : forall na disc, na || disc = true -> forall n tr ls tr' ls', n >= 1 ->
  lrun na disc (linit n) tr ls -> lrun na disc ls tr' ls' -> ~ can_progress na ls' -> final ls'.
Proof.
  intros na disc ND n tr ls tr' ls' N R R' NP.
  destruct (deadlock_free na disc ND n (tr ++ tr') ls' N (lrun_trans _ _ _ _ _ R _ _ R')) as [F|P]; [exact F|contradiction].
Qed.

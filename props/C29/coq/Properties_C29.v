(* C29 -- property theorems (statements only; proofs are in C29Proofs.v).
   `steps (init n) tr s`: s is reached from a fresh pool of n workers by the trace tr -- any number of workers, tasks,
   submitting / waiting threads, any interleaving of the lock-protected segments of ThreadPool.cxx. *)
From Coq Require Import List Arith.
From C29 Require Import C29Spec C29Model C29Proofs.
Import ListNotations.

(* every submitted task is in exactly one place: pending, in the hands of exactly one worker, or finished *)
Theorem C29_each_task_in_exactly_one_place : forall n tr s, steps (init n) tr s ->
  one_place (queue s) (workers s) (submitted s) (finished s).
Proof. intros n tr s H; apply inv_one_place, (reachable_inv n tr s H). Qed.
Print Assumptions C29_each_task_in_exactly_one_place.

(* no task body is started twice *)
Theorem C29_task_runs_at_most_once : forall n tr s, steps (init n) tr s -> at_most_once (runs s).
Proof. intros n tr s H; apply inv_at_most_once, (reachable_inv n tr s H). Qed.
Print Assumptions C29_task_runs_at_most_once.

(* when nothing is pending and no worker is busy, every submitted task has run exactly once *)
Theorem C29_exactly_once_when_quiescent : forall n tr s, steps (init n) tr s ->
  quiescent (queue s) (workers s) -> all_done (submitted s) (runs s) (finished s).
Proof. intros n tr s H; apply inv_quiescent_all_done, (reachable_inv n tr s H). Qed.
Print Assumptions C29_exactly_once_when_quiescent.

(* wait() returns only when every task submitted before the call has finished *)
Theorem C29_wait_is_complete : forall n tr s, steps (init n) tr s -> wait_complete (waiters s) (finished s).
Proof. intros n tr s H; apply inv_wait_complete, (reachable_inv n tr s H). Qed.
Print Assumptions C29_wait_is_complete.

(* once the destructor has joined the workers (at least one), the queue is empty and every task has run once *)
Theorem C29_destructor_drains_the_queue : forall n tr s, steps (init n) tr s -> joined s = true -> workers s <> [] ->
  queue s = [] /\ all_done (submitted s) (runs s) (finished s).
Proof. intros n tr s H; apply inv_joined_all_done, (reachable_inv n tr s H). Qed.
Print Assumptions C29_destructor_drains_the_queue.

(* every change that a sleeping thread waits for is accompanied by its notification *)
Theorem C29_wakeups_are_issued : forall s e s', step s e s' ->
  (worker_may_run s = false -> worker_may_run s' = true -> notifies e = true) /\
  (is_nil (queue s) = false -> is_nil (queue s') = true -> notifies e = true) /\
  (statuses_idle s <> statuses_idle s' ->
   (exists w t, e = Pop w t true) \/ (exists w, e = Idle w true) \/ exists w, e = Exit w).
Proof. exact wakeups_issued. Qed.
Print Assumptions C29_wakeups_are_issued.

(* the executable acceptor run on the traces of the real code is exactly the step relation *)
Theorem C29_acceptor_sound : forall n tr, accepts n tr = true -> exists s, steps (init n) tr s.
Proof. exact accepts_sound. Qed.
Print Assumptions C29_acceptor_sound.

Theorem C29_acceptor_complete : forall n tr s, steps (init n) tr s -> accepts n tr = true.
Proof. exact accepts_complete. Qed.
Print Assumptions C29_acceptor_complete.

Theorem C29_run_is_steps : forall s tr s', run s tr = Some s' <-> steps s tr s'.
Proof. intros; split; [apply run_sound | apply run_complete]. Qed.
Print Assumptions C29_run_is_steps.

(* C29 -- specification of "ThreadPool runs every task exactly once and wait() is complete".
   Written independently of the code, over an abstract observation of a pool: where every submitted task is
   (pending / held by a worker / finished), how often its body was started, which wait() calls have returned. *)
From Coq Require Import List Arith.
Import ListNotations.

(* what a worker thread is doing *)
Inductive wpc :=
| WAwait              (* at the top of its loop: no task in hand, status IDLE *)
| WHeld (t : nat)     (* popped task t (status WORKING), body not started *)
| WRunning (t : nat)  (* body of t started, not finished *)
| WRan (t : nat)      (* body of t finished, status still WORKING *)
| WExited.            (* left its loop: thread joinable *)

(* a call of wait(): n0 = number of tasks submitted before the call *)
Inductive waitpc :=
| WQ (n0 : nat)       (* waiting for the queue to be empty *)
| WS (n0 i : nat)     (* queue was seen empty; waiting for statuses[i] = IDLE, all j < i were seen IDLE *)
| WDone (n0 : nat).   (* wait() has returned *)

Definition hold (t : nat) (c : wpc) : nat :=
  match c with WHeld u | WRunning u => if Nat.eqb u t then 1 else 0 | _ => 0 end.
Definition running (t : nat) (c : wpc) : nat :=
  match c with WRunning u => if Nat.eqb u t then 1 else 0 | _ => 0 end.
Fixpoint sum_over (f : wpc -> nat) (l : list wpc) : nat :=
  match l with [] => 0 | c :: r => f c + sum_over f r end.
Definition holding (t : nat) (l : list wpc) : nat := sum_over (hold t) l.
Definition occ (t : nat) (l : list nat) : nat := count_occ Nat.eq_dec l t.
Definition idle (c : wpc) : bool := match c with WAwait | WExited => true | _ => false end.

Section Observed.
  Variables (queue : list nat) (workers : list wpc) (submitted : nat) (runs finished : list nat).

  (* every submitted task is in exactly one place: pending, in the hands of one worker, or finished *)
  Definition one_place : Prop :=
    forall t, occ t queue + holding t workers + occ t finished = if Nat.ltb t submitted then 1 else 0.
  (* no task body is ever started twice *)
  Definition at_most_once : Prop := forall t, occ t runs <= 1.
  (* nothing pending, no worker busy *)
  Definition quiescent : Prop := queue = [] /\ forall c, In c workers -> idle c = true.
  (* every submitted task was started exactly once and finished exactly once *)
  Definition all_done : Prop := forall t, t < submitted -> occ t runs = 1 /\ occ t finished = 1.
End Observed.

(* a returned wait() saw every task submitted before the call finished *)
Definition wait_complete (waiters : list waitpc) (finished : list nat) : Prop :=
  forall k n0, nth_error waiters k = Some (WDone n0) -> forall t, t < n0 -> In t finished.

(* C29 -- liveness of the code AS IT IS in the tree: addTask calls c.notify_one() (observed on the traces of the real
   ThreadPool by check.py, which selects this file then).  Deadlock freedom holds for one client thread only. *)
From Coq Require Import List Arith Bool.
From C29 Require Import C29Spec C29Model C29Proofs C29LiveModel C29LiveProofs.
Import ListNotations.

Definition code_notifies_all : bool := false.

(* wanted: forall n >= 1, tr, ls, lrun code_notifies_all false (linit n) tr ls -> final ls \/ can_progress ... : refuted *)
Theorem C29_code_deadlock_free_refuted : exists n tr ls, n >= 1 /\ lrun code_notifies_all false (linit n) tr ls /\
  ~ (final ls \/ can_progress code_notifies_all ls).
Proof.
  exists 1, lost_wakeup_trace, lost_wakeup_state. split; [apply le_n|split; [exact lost_wakeup_reachable|]].
  intros [F|[e [ls' [H IE]]]]; [exact (lost_wakeup_not_final F)|].
  rewrite (lost_wakeup_stuck e ls' H) in IE; discriminate.
Qed.
Print Assumptions C29_code_deadlock_free_refuted.

(* what does hold for the code as it is: one client thread (tasks may submit tasks) *)
Theorem C29_code_deadlock_free_one_client : forall n tr ls, n >= 1 ->
  lrun code_notifies_all true (linit n) tr ls -> final ls \/ can_progress code_notifies_all ls.
Proof. intros n tr ls; apply (deadlock_free false true eq_refl). Qed.
Print Assumptions C29_code_deadlock_free_one_client.

(* C29 -- executable model of tfel::system::ThreadPool (src/System/ThreadPool.cxx, ThreadPool.ixx). Definitions only.
   One atomic step = one lock-protected segment of the real code (from acquiring `m` -- by lock() or by waking up
   inside c.wait -- to releasing it by unlock or by going to sleep in c.wait), or one unlocked action (task body
   begin / end, the call of wait(), join returning).

   worker lambda:  { lock; while(!(stop||!tasks.empty())) c.wait;        -> Block w   (goes to sleep: queue empty, !stop)
                     if(stop&&tasks.empty()) return;                     -> Exit w
                     task=front; pop; statuses[i]=WORKING; notify_all }  -> Pop w t notified
                   task();                                               -> Begin w t ... End_ w t
                   { lock; statuses[i]=IDLE; notify_all }                -> Idle w notified
   addTask:        { lock; if(stop) throw; tasks.emplace } notify_one    -> Add t notified | AddRejected
   wait():         { lock; while(!tasks.empty()) c.wait;
                     for i: while(statuses[i]!=IDLE) c.wait }            -> WaitCall, then WaitSeg k blocked for each
                                                                            segment: the call advances as far as the
                                                                            current state allows and then sleeps
                                                                            (blocked=true) or returns (blocked=false)
   ~ThreadPool:    { lock; stop=true } notify_all; join all              -> Stop notified, Joined
   Condition-variable wake-ups may be spurious: a woken thread only re-evaluates its predicate, so sleeping is
   modelled by the segment simply ending; the `notified` flags record that the segment issued the notification that
   the sleeping threads depend on, and a step is only a step of the model if it did. *)
From Coq Require Import List Arith Bool.
From C29 Require Import C29Spec.
Import ListNotations.

Inductive event :=
| Add (t : nat) (notified : bool)
| AddRejected
| Block (w : nat)
| Pop (w t : nat) (notified : bool)
| Begin (w t : nat)
| End_ (w t : nat)
| Idle (w : nat) (notified : bool)
| Exit (w : nat)
| Stop (notified : bool)
| Joined
| WaitCall
| WaitSeg (k : nat) (blocked : bool).

Record state := mk {
  queue : list nat;        (* ThreadPool::tasks, task identifiers in FIFO order *)
  stop : bool;             (* ThreadPool::stop *)
  workers : list wpc;      (* control point of each worker; statuses[i] = WORKING iff not (idle workers[i]) *)
  waiters : list waitpc;   (* the calls of wait() made so far *)
  submitted : nat;         (* number of tasks accepted by addTask; the next identifier *)
  runs : list nat;         (* ghost: task bodies started *)
  finished : list nat;     (* ghost: task bodies finished *)
  joined : bool }.         (* the destructor has joined every worker *)

Definition init (n : nat) : state := mk [] false (repeat WAwait n) [] 0 [] [] false.

Fixpoint set_nth {A : Type} (l : list A) (n : nat) (x : A) : list A :=
  match l, n with
  | [], _ => []
  | _ :: r, 0 => x :: r
  | y :: r, S m => y :: set_nth r m x
  end.

Definition is_done (p : waitpc) : bool := match p with WDone _ => true | _ => false end.

Fixpoint idle_prefix (l : list wpc) : nat :=
  match l with c :: r => if idle c then S (idle_prefix r) else 0 | [] => 0 end.

(* how far a call of wait() gets in one lock-protected segment *)
Definition advance_s (ws : list wpc) (n0 i : nat) : waitpc :=
  let j := i + idle_prefix (skipn i ws) in
  if Nat.leb (length ws) j then WDone n0 else WS n0 j.
Definition advance (q : list nat) (ws : list wpc) (p : waitpc) : waitpc :=
  match p with
  | WQ n0 => match q with [] => advance_s ws n0 0 | _ => WQ n0 end
  | WS n0 i => advance_s ws n0 i
  | WDone n0 => WDone n0
  end.

Definition all_exited (ws : list wpc) : bool :=
  forallb (fun c => match c with WExited => true | _ => false end) ws.

Definition with_workers (s : state) (ws : list wpc) : state :=
  mk (queue s) (stop s) ws (waiters s) (submitted s) (runs s) (finished s) (joined s).

Inductive step : state -> event -> state -> Prop :=
| st_add : forall s, stop s = false ->
    step s (Add (submitted s) true)
         (mk (queue s ++ [submitted s]) (stop s) (workers s) (waiters s) (S (submitted s)) (runs s) (finished s) (joined s))
| st_add_rejected : forall s, stop s = true -> step s AddRejected s
| st_block : forall s w, nth_error (workers s) w = Some WAwait -> queue s = [] -> stop s = false ->
    step s (Block w) s
| st_pop : forall s w t q, nth_error (workers s) w = Some WAwait -> queue s = t :: q ->
    step s (Pop w t true)
         (mk q (stop s) (set_nth (workers s) w (WHeld t)) (waiters s) (submitted s) (runs s) (finished s) (joined s))
| st_begin : forall s w t, nth_error (workers s) w = Some (WHeld t) ->
    step s (Begin w t)
         (mk (queue s) (stop s) (set_nth (workers s) w (WRunning t)) (waiters s) (submitted s) (t :: runs s) (finished s) (joined s))
| st_end : forall s w t, nth_error (workers s) w = Some (WRunning t) ->
    step s (End_ w t)
         (mk (queue s) (stop s) (set_nth (workers s) w (WRan t)) (waiters s) (submitted s) (runs s) (t :: finished s) (joined s))
| st_idle : forall s w t, nth_error (workers s) w = Some (WRan t) ->
    step s (Idle w true) (with_workers s (set_nth (workers s) w WAwait))
| st_exit : forall s w, nth_error (workers s) w = Some WAwait -> queue s = [] -> stop s = true ->
    step s (Exit w) (with_workers s (set_nth (workers s) w WExited))
| st_stop : forall s, stop s = false ->
    step s (Stop true) (mk (queue s) true (workers s) (waiters s) (submitted s) (runs s) (finished s) (joined s))
| st_joined : forall s, stop s = true -> all_exited (workers s) = true ->
    step s Joined (mk (queue s) (stop s) (workers s) (waiters s) (submitted s) (runs s) (finished s) true)
| st_waitcall : forall s,
    step s WaitCall
         (mk (queue s) (stop s) (workers s) (waiters s ++ [WQ (submitted s)]) (submitted s) (runs s) (finished s) (joined s))
| st_waitseg : forall s k p, nth_error (waiters s) k = Some p -> is_done p = false ->
    step s (WaitSeg k (negb (is_done (advance (queue s) (workers s) p))))
         (mk (queue s) (stop s) (workers s) (set_nth (waiters s) k (advance (queue s) (workers s) p))
             (submitted s) (runs s) (finished s) (joined s)).

Inductive steps : state -> list event -> state -> Prop :=
| steps_nil : forall s, steps s [] s
| steps_cons : forall s e s1 tr s2, step s e s1 -> steps s1 tr s2 -> steps s (e :: tr) s2.

(* ---- executable acceptor ---- *)
Definition wpc_eqb (a b : wpc) : bool :=
  match a, b with
  | WAwait, WAwait | WExited, WExited => true
  | WHeld t, WHeld u | WRunning t, WRunning u | WRan t, WRan u => Nat.eqb t u
  | _, _ => false
  end.
Definition at_w (s : state) (w : nat) (c : wpc) : bool :=
  match nth_error (workers s) w with Some x => wpc_eqb x c | None => false end.
Definition is_nil {A : Type} (l : list A) : bool := match l with [] => true | _ => false end.

Definition step_fn (s : state) (e : event) : option state :=
  match e with
  | Add t true =>
      if negb (stop s) && Nat.eqb t (submitted s)
      then Some (mk (queue s ++ [submitted s]) (stop s) (workers s) (waiters s) (S (submitted s)) (runs s) (finished s) (joined s))
      else None
  | Add _ false => None
  | AddRejected => if stop s then Some s else None
  | Block w => if at_w s w WAwait && is_nil (queue s) && negb (stop s) then Some s else None
  | Pop w t true =>
      if at_w s w WAwait
      then match queue s with
           | u :: q => if Nat.eqb u t
                       then Some (mk q (stop s) (set_nth (workers s) w (WHeld t)) (waiters s) (submitted s) (runs s) (finished s) (joined s))
                       else None
           | [] => None
           end
      else None
  | Pop _ _ false => None
  | Begin w t =>
      if at_w s w (WHeld t)
      then Some (mk (queue s) (stop s) (set_nth (workers s) w (WRunning t)) (waiters s) (submitted s) (t :: runs s) (finished s) (joined s))
      else None
  | End_ w t =>
      if at_w s w (WRunning t)
      then Some (mk (queue s) (stop s) (set_nth (workers s) w (WRan t)) (waiters s) (submitted s) (runs s) (t :: finished s) (joined s))
      else None
  | Idle w true =>
      match nth_error (workers s) w with
      | Some (WRan _) => Some (with_workers s (set_nth (workers s) w WAwait))
      | _ => None
      end
  | Idle _ false => None
  | Exit w =>
      if at_w s w WAwait && is_nil (queue s) && stop s
      then Some (with_workers s (set_nth (workers s) w WExited)) else None
  | Stop true =>
      if stop s then None
      else Some (mk (queue s) true (workers s) (waiters s) (submitted s) (runs s) (finished s) (joined s))
  | Stop false => None
  | Joined =>
      if stop s && all_exited (workers s)
      then Some (mk (queue s) (stop s) (workers s) (waiters s) (submitted s) (runs s) (finished s) true) else None
  | WaitCall =>
      Some (mk (queue s) (stop s) (workers s) (waiters s ++ [WQ (submitted s)]) (submitted s) (runs s) (finished s) (joined s))
  | WaitSeg k b =>
      match nth_error (waiters s) k with
      | Some p =>
          if negb (is_done p) && Bool.eqb b (negb (is_done (advance (queue s) (workers s) p)))
          then Some (mk (queue s) (stop s) (workers s) (set_nth (waiters s) k (advance (queue s) (workers s) p))
                        (submitted s) (runs s) (finished s) (joined s))
          else None
      | None => None
      end
  end.

Fixpoint run (s : state) (tr : list event) : option state :=
  match tr with
  | [] => Some s
  | e :: r => match step_fn s e with Some s1 => run s1 r | None => None end
  end.

Definition accepts (n : nat) (tr : list event) : bool :=
  match run (init n) tr with Some _ => true | None => false end.

(* C29 -- liveness theorems (statements only; proofs in C29LiveProofs.v).  Live model = C29LiveModel.v: the model of
   C29Model.v plus who sleeps in c.wait, the notifications issued outside the mutex as separate steps, notify_one waking
   ANY one sleeping thread, spurious wake-ups never counted as progress.  `na` = addTask notifies all (false: the code
   as written, notify_one); `disc` = runs restricted to the one-client discipline (no addTask by a client while a
   wait() is in progress and conversely; tasks may submit tasks freely). *)
From Coq Require Import List Arith Bool.
From C29 Require Import C29Spec C29Model C29Proofs C29LiveModel C29LiveProofs.
Import ListNotations.

(* every run of the live model projects onto a run of the model validated against the real traces *)
Theorem C29_live_refines_model : forall na disc ls tr ls', lrun na disc ls tr ls' ->
  exists btr, steps (base ls) btr (base ls').
Proof. exact lrun_refines. Qed.
Print Assumptions C29_live_refines_model.

(* deadlock freedom: with at least one worker, under the one-client discipline or with notify_all in addTask, every
   reachable state that is not final has an enabled step of the pool itself that is not a spurious wake-up *)
Theorem C29_deadlock_free : forall na disc, na || disc = true -> forall n tr ls, n >= 1 ->
  lrun na disc (linit n) tr ls -> final ls \/ can_progress na ls.
Proof. exact deadlock_free. Qed.
Print Assumptions C29_deadlock_free.

(* every such step decreases a lexicographic measure: the pool's own machinery cannot run for ever *)
Theorem C29_internal_step_decreases : forall na ls e ls', lstep na ls e ls' -> internal e = true ->
  lex_lt (measure ls') (measure ls).
Proof. exact internal_step_decreases. Qed.
Print Assumptions C29_internal_step_decreases.

Theorem C29_internal_runs_terminate : forall na, well_founded (istep na).
Proof. exact internal_runs_terminate. Qed.
Print Assumptions C29_internal_runs_terminate.

(* hence from every reachable state there is a finite continuation by the pool itself after which every accepted task
   has run exactly once, every wait() has returned and a started destructor has joined (and every maximal
   continuation is finite and ends in such a state: the two theorems above) *)
Theorem C29_rest_is_reached : forall na disc, na || disc = true -> forall n tr ls, n >= 1 ->
  lrun na disc (linit n) tr ls ->
  exists tr' ls', lrun na disc ls tr' ls' /\ forallb internal tr' = true /\ final ls' /\
                  all_done (submitted (base ls')) (runs (base ls')) (finished (base ls')).
Proof. exact rest_is_reached_from_init. Qed.
Print Assumptions C29_rest_is_reached.

(* a run that the pool itself cannot extend has ended in a final state; with termination: under weak fairness (no
   thread of the pool that can take a step is left out for ever) every accepted task is run and every wait() returns *)
Theorem C29_maximal_runs_end_final : forall na disc, na || disc = true -> forall n tr ls tr' ls', n >= 1 ->
  lrun na disc (linit n) tr ls -> lrun na disc ls tr' ls' -> ~ can_progress na ls' -> final ls'.
Proof. exact maximal_runs_end_final. Qed.
Print Assumptions C29_maximal_runs_end_final.

(* no lost wake-up: a worker sleeps while `stop || !tasks.empty()` holds only if the notification is still to be issued
   or another worker is awake; a call of wait() never sleeps on a condition that holds *)
Theorem C29_no_lost_wakeup : forall na disc, na || disc = true -> forall n tr ls, lrun na disc (linit n) tr ls ->
  (forall w, sleeping (wsleep ls) w -> worker_predicate (base ls) = true ->
     pendall ls = true \/ pendc ls > 0 \/ exists w', active ls w') /\
  (forall k p, sleeping (ksleep ls) k -> nth_error (waiters (base ls)) k = Some p -> wait_cond_false (base ls) p).
Proof. intros na disc ND n tr ls R. apply (no_lost_wakeup na), (lrun_linv na disc ND _ _ _ R (linv_init na n)). Qed.
Print Assumptions C29_no_lost_wakeup.

(* WITHOUT the discipline and with notify_one the protocol loses a wake-up: one worker, a client between the unlock
   and the notify_one of addTask, another client entering wait(): the notification goes to the wait() call, the
   worker sleeps for ever on a non-empty queue, wait() for ever on the same queue *)
Theorem C29_notify_one_loses_a_wakeup :
  lrun false false (linit 1) lost_wakeup_trace lost_wakeup_state /\ ~ final lost_wakeup_state /\
  (forall e ls', lstep false lost_wakeup_state e ls' -> internal e = false) /\
  sleeping (wsleep lost_wakeup_state) 0 /\ worker_predicate (base lost_wakeup_state) = true.
Proof.
  split; [exact lost_wakeup_reachable|split; [exact lost_wakeup_not_final|split; [exact lost_wakeup_stuck|split; reflexivity]]].
Qed.
Print Assumptions C29_notify_one_loses_a_wakeup.

(* ThreadPool(0): no task is ever run; wait() returns only if nothing had been submitted before the call, and sleeps for
   ever otherwise; the destructor returns with the tasks still queued (their futures are broken) *)
Theorem C29_pool0_nothing_runs : forall tr s, steps (init 0) tr s -> workers s = [] /\ runs s = [] /\ finished s = [].
Proof. exact pool0_nothing_runs. Qed.
Print Assumptions C29_pool0_nothing_runs.

Theorem C29_pool0_wait : forall tr s k n0, steps (init 0) tr s -> nth_error (waiters s) k = Some (WDone n0) -> n0 = 0.
Proof. exact pool0_wait_returns_only_if_nothing_was_submitted. Qed.
Print Assumptions C29_pool0_wait.

Theorem C29_pool0_wait_deadlocks : forall na, lrun na true (linit 0) pool0_trace pool0_state /\ ~ final pool0_state /\
  forall e ls', lstep na pool0_state e ls' -> internal e = false.
Proof. exact pool0_wait_deadlocks. Qed.
Print Assumptions C29_pool0_wait_deadlocks.

Theorem C29_pool0_destructor_abandons_tasks :
  exists s, steps (init 0) [Add 0 true; Stop true; Joined] s /\ joined s = true /\ queue s = [0] /\ runs s = [].
Proof. exact pool0_destructor_abandons_tasks. Qed.
Print Assumptions C29_pool0_destructor_abandons_tasks.

(* the Wrapper turns the outcome of the body into a ThreadedTaskResult and never throws *)
Theorem C29_wrapper_never_throws : forall (V X : Type) (body : outcome X V), exists r, wrapper V X body = Returned r.
Proof. exact wrapper_never_throws. Qed.
Print Assumptions C29_wrapper_never_throws.

Theorem C29_wrapper_carries_value : forall (V X : Type) (v : V) r, wrapper V X (Returned v) = Returned r ->
  ttr_bool V X r = true /\ ttr_deref V X r = inl v.
Proof. exact wrapper_carries_value. Qed.
Print Assumptions C29_wrapper_carries_value.

Theorem C29_wrapper_carries_exception : forall (V X : Type) (x : X) r, wrapper V X (Threw x) = Returned r ->
  ttr_bool V X r = false /\ ttr_deref V X r = inr (Rethrown X x).
Proof. exact wrapper_carries_exception. Qed.
Print Assumptions C29_wrapper_carries_exception.

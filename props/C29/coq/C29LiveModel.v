(* C29 -- liveness model of tfel::system::ThreadPool: the transition system of C29Model.v refined with what a
   progress argument needs and a safety argument does not:
     * which threads are asleep inside `c.wait` (a sleeping thread takes no step before it is woken);
     * the notifications issued OUTSIDE the mutex: `addTask` = { lock; push; unlock } ... `c.notify_one()`,
       `~ThreadPool` = { lock; stop = true; unlock } ... `c.notify_all()` are two steps each, any other segment may run
       in between;
     * whom a notification wakes: `notify_all` every sleeping thread, `notify_one` ANY ONE sleeping thread (worker
       or wait() call: they share the single condition variable `c`), chosen by the adversary, none if nobody sleeps;
     * spurious wake-ups exist (LSpurious) but are never counted as progress.
   Every live step carries the step of the base model it refines (or none), so every invariant of C29Proofs.v holds on
   `base ls`.  `na` is the variant flag: `false` = the code as written (addTask calls notify_one), `true` = addTask
   calls notify_all (props/C29/fix_addtask_notify_all.diff).  Definitions only. *)
From Coq Require Import List Arith Bool.
From C29 Require Import C29Spec C29Model.
Import ListNotations.

Inductive thread := TW (w : nat) | TK (k : nat).   (* worker w / the k-th call of wait() *)

Inductive levent :=
| LAddPush (t : nat) (o : option nat)       (* addTask's locked segment; o = Some w: called from the body run by worker w *)
| LAddNotify (o : option nat) (target : option thread)   (* the notification of addTask, after the unlock *)
| LAddRejected
| LBlock (w : nat)
| LPop (w t : nat)
| LBegin (w t : nat)
| LEnd (w t : nat)
| LIdle (w : nat)
| LExit (w : nat)
| LStopSet                                  (* destructor: { lock; stop = true } *)
| LStopNotify                               (* destructor: c.notify_all() *)
| LJoined
| LWaitCall
| LWaitSeg (k : nat)
| LSpurious (th : thread).

Record lstate := lmk {
  base : state;          (* the state of C29Model.v *)
  wsleep : list bool;    (* worker i is asleep in c.wait *)
  ksleep : list bool;    (* the k-th call of wait() is asleep in c.wait *)
  pendc : nat;           (* addTask calls of client threads that have pushed and unlocked but not yet notified *)
  pendw : list bool;     (* the body run by worker i is inside addTask, between the unlock and the notification *)
  pendall : bool }.      (* the destructor has set `stop` and not yet called notify_all *)

Definition linit (n : nat) : lstate := lmk (init n) (repeat false n) [] 0 (repeat false n) false.

Definition allawake (l : list bool) : list bool := map (fun _ : bool => false) l.
Definition awake (l : list bool) (i : nat) : Prop := nth_error l i = Some false.
Definition sleeping (l : list bool) (i : nat) : Prop := nth_error l i = Some true.
Definition is_asleep (ls : lstate) (th : thread) : Prop :=
  match th with TW w => sleeping (wsleep ls) w | TK k => sleeping (ksleep ls) k end.
Definition wake_w (ls : lstate) (th : thread) : list bool :=
  match th with TW w => set_nth (wsleep ls) w false | TK _ => wsleep ls end.
Definition wake_k (ls : lstate) (th : thread) : list bool :=
  match th with TW _ => ksleep ls | TK k => set_nth (ksleep ls) k false end.

(* whom the notification of addTask wakes: new sleep flags of the workers and of the wait() calls *)
Inductive add_notify (na : bool) (ls : lstate) : option thread -> list bool -> list bool -> Prop :=
| an_all : na = true -> add_notify na ls None (allawake (wsleep ls)) (allawake (ksleep ls))
| an_one : forall th, na = false -> is_asleep ls th -> add_notify na ls (Some th) (wake_w ls th) (wake_k ls th)
| an_none : na = false -> (forall th, ~ is_asleep ls th) -> add_notify na ls None (wsleep ls) (ksleep ls).

Definition with_base (ls : lstate) (b : state) : lstate :=
  lmk b (wsleep ls) (ksleep ls) (pendc ls) (pendw ls) (pendall ls).

Inductive lstep (na : bool) : lstate -> levent -> lstate -> Prop :=
| l_push_client : forall ls t b', step (base ls) (Add t true) b' ->
    lstep na ls (LAddPush t None) (lmk b' (wsleep ls) (ksleep ls) (S (pendc ls)) (pendw ls) (pendall ls))
| l_push_body : forall ls t w u b', step (base ls) (Add t true) b' ->
    nth_error (workers (base ls)) w = Some (WRunning u) -> nth_error (pendw ls) w = Some false ->
    lstep na ls (LAddPush t (Some w)) (lmk b' (wsleep ls) (ksleep ls) (pendc ls) (set_nth (pendw ls) w true) (pendall ls))
| l_notify_client : forall ls tg ws ks, pendc ls > 0 -> add_notify na ls tg ws ks ->
    lstep na ls (LAddNotify None tg) (lmk (base ls) ws ks (pred (pendc ls)) (pendw ls) (pendall ls))
| l_notify_body : forall ls w tg ws ks, nth_error (pendw ls) w = Some true -> add_notify na ls tg ws ks ->
    lstep na ls (LAddNotify (Some w) tg) (lmk (base ls) ws ks (pendc ls) (set_nth (pendw ls) w false) (pendall ls))
| l_rejected : forall ls b', step (base ls) AddRejected b' -> lstep na ls LAddRejected (with_base ls b')
| l_block : forall ls w b', awake (wsleep ls) w -> step (base ls) (Block w) b' ->
    lstep na ls (LBlock w) (lmk b' (set_nth (wsleep ls) w true) (ksleep ls) (pendc ls) (pendw ls) (pendall ls))
| l_pop : forall ls w t b', awake (wsleep ls) w -> step (base ls) (Pop w t true) b' ->
    lstep na ls (LPop w t) (lmk b' (allawake (wsleep ls)) (allawake (ksleep ls)) (pendc ls) (pendw ls) (pendall ls))
| l_begin : forall ls w t b', step (base ls) (Begin w t) b' -> lstep na ls (LBegin w t) (with_base ls b')
| l_end : forall ls w t b', nth_error (pendw ls) w = Some false -> step (base ls) (End_ w t) b' ->
    lstep na ls (LEnd w t) (with_base ls b')
| l_idle : forall ls w b', step (base ls) (Idle w true) b' ->
    lstep na ls (LIdle w) (lmk b' (allawake (wsleep ls)) (allawake (ksleep ls)) (pendc ls) (pendw ls) (pendall ls))
| l_exit : forall ls w b', awake (wsleep ls) w -> step (base ls) (Exit w) b' -> lstep na ls (LExit w) (with_base ls b')
| l_stopset : forall ls b', step (base ls) (Stop true) b' ->
    lstep na ls LStopSet (lmk b' (wsleep ls) (ksleep ls) (pendc ls) (pendw ls) true)
| l_stopnotify : forall ls, pendall ls = true ->
    lstep na ls LStopNotify (lmk (base ls) (allawake (wsleep ls)) (allawake (ksleep ls)) (pendc ls) (pendw ls) false)
| l_joined : forall ls b', pendall ls = false -> joined (base ls) = false -> step (base ls) Joined b' ->
    lstep na ls LJoined (with_base ls b')
| l_waitcall : forall ls b', step (base ls) WaitCall b' ->
    lstep na ls LWaitCall (lmk b' (wsleep ls) (ksleep ls ++ [false]) (pendc ls) (pendw ls) (pendall ls))
| l_waitseg : forall ls k b b', awake (ksleep ls) k -> step (base ls) (WaitSeg k b) b' ->
    lstep na ls (LWaitSeg k) (lmk b' (wsleep ls) (set_nth (ksleep ls) k b) (pendc ls) (pendw ls) (pendall ls))
| l_spurious : forall ls th, is_asleep ls th ->
    lstep na ls (LSpurious th) (lmk (base ls) (wake_w ls th) (wake_k ls th) (pendc ls) (pendw ls) (pendall ls)).

(* steps taken by the pool's own machinery once its clients have made their calls: everything except a new call
   of addTask / wait() / the destructor, and except spurious wake-ups (allowed, never relied upon) *)
Definition internal (e : levent) : bool :=
  match e with
  | LAddPush _ _ | LAddRejected | LStopSet | LWaitCall | LSpurious _ => false
  | _ => true
  end.

(* the event of the base model that a live step refines *)
Definition erase (e : levent) (blocked : bool) : option event :=
  match e with
  | LAddPush t _ => Some (Add t true)
  | LAddRejected => Some AddRejected
  | LBlock w => Some (Block w)
  | LPop w t => Some (Pop w t true)
  | LBegin w t => Some (Begin w t)
  | LEnd w t => Some (End_ w t)
  | LIdle w => Some (Idle w true)
  | LExit w => Some (Exit w)
  | LStopSet => Some (Stop true)
  | LJoined => Some Joined
  | LWaitCall => Some WaitCall
  | LWaitSeg k => Some (WaitSeg k blocked)
  | LAddNotify _ _ | LStopNotify | LSpurious _ => None
  end.

(* usage discipline "one client thread" (tasks may still submit tasks): no client calls addTask while a call of wait()
   is in progress, and wait() is not called while a client is still inside addTask *)
Definition all_waits_done (b : state) : Prop := forall k p, nth_error (waiters b) k = Some p -> is_done p = true.
Definition disciplined (ls : lstate) (e : levent) : Prop :=
  match e with
  | LAddPush _ None => all_waits_done (base ls)
  | LWaitCall => pendc ls = 0
  | _ => True
  end.

Inductive lrun (na disc : bool) : lstate -> list levent -> lstate -> Prop :=
| lrun_nil : forall ls, lrun na disc ls [] ls
| lrun_cons : forall ls e ls1 tr ls2, lstep na ls e ls1 -> (disc = true -> disciplined ls e) ->
    lrun na disc ls1 tr ls2 -> lrun na disc ls (e :: tr) ls2.

(* nothing left to do: every accepted task has been run, every call of wait() has returned, every notification has
   been issued, and a destructor that has started has joined all workers *)
Definition final (ls : lstate) : Prop :=
  queue (base ls) = [] /\
  (forall w c, nth_error (workers (base ls)) w = Some c -> idle c = true) /\
  all_waits_done (base ls) /\
  pendc ls = 0 /\ (forall w, nth_error (pendw ls) w <> Some true) /\ pendall ls = false /\
  (stop (base ls) = true -> all_exited (workers (base ls)) = true /\ joined (base ls) = true).

Definition can_progress (na : bool) (ls : lstate) : Prop := exists e ls', lstep na ls e ls' /\ internal e = true.

(* a worker that is neither asleep nor gone: it will take a step of its loop by itself *)
Definition active (ls : lstate) (w : nat) : Prop :=
  exists c, nth_error (workers (base ls)) w = Some c /\ c <> WExited /\ awake (wsleep ls) w.

(* the condition a sleeping call of wait() is waiting for is false *)
Definition wait_cond_false (b : state) (p : waitpc) : Prop :=
  match p with
  | WQ _ => queue b <> []
  | WS _ i => exists c, nth_error (workers b) i = Some c /\ idle c = false
  | WDone _ => False
  end.

(* what is left to do, for the termination argument.  `todo` strictly decreases with every step that moves a task,
   a worker, a call of wait() or a notification forward; a step that only puts a thread to sleep keeps `todo` and
   decreases `awake_flags` *)
Fixpoint sumf {A : Type} (f : A -> nat) (l : list A) : nat :=
  match l with [] => 0 | x :: r => f x + sumf f r end.
Definition wweight (c : wpc) : nat :=
  match c with WHeld _ => 4 | WRunning _ => 3 | WRan _ => 2 | WAwait => 1 | WExited => 0 end.
Definition kweight (p : waitpc) : nat := if is_done p then 0 else 1.
Definition b2n (b : bool) : nat := if b then 1 else 0.
Definition nb2n (b : bool) : nat := if b then 0 else 1.
Definition todo (ls : lstate) : nat :=
  5 * length (queue (base ls)) + sumf wweight (workers (base ls)) + sumf kweight (waiters (base ls)) +
  nb2n (joined (base ls)) + pendc ls + sumf b2n (pendw ls) + b2n (pendall ls).
Definition awake_flags (ls : lstate) : nat := sumf nb2n (wsleep ls) + sumf nb2n (ksleep ls).
Definition lex_lt (a b : nat * nat) : Prop := fst a < fst b \/ (fst a = fst b /\ snd a < snd b).
Definition measure (ls : lstate) : nat * nat := (todo ls, awake_flags ls).
Definition istep (na : bool) (ls' ls : lstate) : Prop := exists e, lstep na ls e ls' /\ internal e = true.

(* ---- ThreadPool::Wrapper and ThreadedTaskResult (ThreadPool.ixx, ThreadedTaskResult.ixx) ----
   A task body either returns a value or throws.  Wrapper<F>::operator() = { ThreadedTaskResult<R> r;
   try { r = f(args...); } catch (...) { r.setException(std::current_exception()); } return r; } never throws: what the
   packaged_task stores in the shared state of the future is always a ThreadedTaskResult, and the `task()` call of the
   worker loop always returns (so `statuses[i] = IDLE` is always reached: step Idle of the model). *)
Section Wrapper.
  Variables V X : Type.            (* values returned by the task / exceptions *)
  Inductive outcome (A : Type) := Returned (a : A) | Threw (x : X).
  Arguments Returned {A} a.
  Arguments Threw {A} x.
  Record ttr := mkttr { result : option V; eptr : option X }.   (* std::optional<T> result; std::exception_ptr eptr *)
  Definition ttr_empty : ttr := mkttr None None.
  Definition ttr_assign (r : ttr) (v : V) : ttr := mkttr (Some v) (eptr r).          (* operator=(T&&) *)
  Definition ttr_set_exception (r : ttr) (x : X) : ttr := mkttr None (Some x).       (* result.reset(); eptr = e *)
  Definition wrapper (body : outcome V) : outcome ttr :=
    Returned (match body with Returned v => ttr_assign ttr_empty v | Threw x => ttr_set_exception ttr_empty x end).
  Definition ttr_bool (r : ttr) : bool :=                                            (* operator bool *)
    match result r, eptr r with Some _, None => true | _, _ => false end.
  Inductive ttr_error := BadCast | Rethrown (x : X).
  Definition ttr_deref (r : ttr) : V + ttr_error :=                                  (* operator* *)
    match eptr r with
    | Some x => inr (Rethrown x)
    | None => match result r with Some v => inl v | None => inr BadCast end
    end.
End Wrapper.
Arguments Returned {X A} a.
Arguments Threw {X A} x.

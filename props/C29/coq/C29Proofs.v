(* C29 -- invariant of the ThreadPool model by induction over every trace; acceptor sound and complete *)
From Coq Require Import List Arith Bool Lia.
From C29 Require Import C29Spec C29Model.
Import ListNotations.

(* ---- lists ---- *)
Lemma sum_over_set_nth : forall f l w c c', nth_error l w = Some c ->
  sum_over f (set_nth l w c') + f c = sum_over f l + f c'.
Proof.
  induction l as [|x r IH]; intros [|q] c c' H; simpl in *; try discriminate.
  - inversion H; subst; lia.
  - specialize (IH q c c' H); lia.
Qed.

Lemma nth_error_set_nth : forall (A : Type) (l : list A) w x j,
  nth_error (set_nth l w x) j =
  if Nat.eqb j w then match nth_error l w with Some _ => Some x | None => None end else nth_error l j.
Proof.
  induction l as [|y r IH]; intros w x j.
  - simpl. destruct j, w; simpl; try reflexivity; destruct (Nat.eqb j w); reflexivity.
  - destruct w, j; simpl; try reflexivity. apply IH.
Qed.

Lemma set_nth_length : forall (A : Type) (l : list A) w x, length (set_nth l w x) = length l.
Proof. induction l; intros [|w] x; simpl; auto. Qed.

Lemma occ_cons : forall t u l, occ t (u :: l) = (if Nat.eqb u t then 1 else 0) + occ t l.
Proof.
  intros; unfold occ; simpl. destruct (Nat.eq_dec u t) as [E|E].
  - subst; rewrite Nat.eqb_refl; reflexivity.
  - apply Nat.eqb_neq in E; rewrite E; reflexivity.
Qed.
Lemma occ_app : forall t a b, occ t (a ++ b) = occ t a + occ t b.
Proof. intros; unfold occ; apply count_occ_app. Qed.
Lemma occ_nil : forall t, occ t [] = 0.
Proof. reflexivity. Qed.
Lemma occ_pos_In : forall t l, occ t l > 0 -> In t l.
Proof. intros t l H; unfold occ in H; apply (count_occ_In Nat.eq_dec); exact H. Qed.

Lemma sum_over_zero : forall f l, (forall j c, nth_error l j = Some c -> f c = 0) -> sum_over f l = 0.
Proof.
  induction l as [|x r IH]; intro H; simpl; [reflexivity|].
  rewrite (H 0 x eq_refl), IH; [reflexivity|]. intros j c E; apply (H (S j) c E).
Qed.

Lemma running_le_hold : forall t c, running t c <= hold t c.
Proof. intros t []; simpl; try lia; destruct (Nat.eqb _ _); lia. Qed.
Lemma sum_running_le_holding : forall t l, sum_over (running t) l <= holding t l.
Proof. induction l; simpl; [lia|]. pose proof (running_le_hold t a); unfold holding in *; simpl; lia. Qed.
Lemma idle_no_hold : forall t c, idle c = true -> hold t c = 0.
Proof. intros t []; simpl; intro H; try reflexivity; discriminate. Qed.

Lemma nth_error_skipn' : forall (A : Type) i (l : list A) m, nth_error (skipn i l) m = nth_error l (i + m).
Proof. induction i; intros [|x r] m; simpl; try reflexivity; [destruct m; reflexivity | apply IHi]. Qed.

Lemma idle_prefix_spec : forall l m c, m < idle_prefix l -> nth_error l m = Some c -> idle c = true.
Proof.
  induction l as [|x r IH]; intros m c H E; simpl in H; [lia|].
  destruct (idle x) eqn:I; [|lia]. destruct m; simpl in E; [inversion E; subst; exact I|].
  apply (IH m c); [lia|exact E].
Qed.

(* ---- the invariant ---- *)
Definition winv (s : state) (p : waitpc) : Prop :=
  match p with
  | WQ n0 => n0 <= submitted s
  | WS n0 i => n0 <= submitted s /\
               forall t, t < n0 -> occ t (queue s) = 0 /\
                 forall j c, j < i -> nth_error (workers s) j = Some c -> hold t c = 0
  | WDone n0 => forall t, t < n0 -> In t (finished s)
  end.

Record Inv (s : state) : Prop := {
  i_place : forall t, occ t (queue s) + holding t (workers s) + occ t (finished s) =
                      if Nat.ltb t (submitted s) then 1 else 0;
  i_runs : forall t, occ t (runs s) = sum_over (running t) (workers s) + occ t (finished s);
  i_wait : forall k p, nth_error (waiters s) k = Some p -> winv s p;
  i_exit : forall w, nth_error (workers s) w = Some WExited -> queue s = [] /\ stop s = true;
  i_join : joined s = true -> all_exited (workers s) = true }.

Lemma inv_init : forall n, Inv (init n).
Proof.
  intro n; constructor; simpl.
  - intro t. assert (H : holding t (repeat WAwait n) = 0) by (induction n; simpl; auto). rewrite H; reflexivity.
  - intro t. assert (H : sum_over (running t) (repeat WAwait n) = 0) by (induction n; simpl; auto). rewrite H; reflexivity.
  - intros [|k] p H; discriminate.
  - intros w H. apply nth_error_In, repeat_spec in H; discriminate.
  - discriminate.
Qed.

(* preservation of the waiters' knowledge when queue / workers / finished change *)
Lemma winv_preserved : forall s s' p, winv s p ->
  submitted s <= submitted s' ->
  (forall t, t < submitted s -> occ t (queue s) = 0 -> occ t (queue s') = 0) ->
  (forall t j c', occ t (queue s) = 0 -> nth_error (workers s') j = Some c' ->
                  exists c, nth_error (workers s) j = Some c /\ (hold t c = 0 -> hold t c' = 0)) ->
  (forall t, In t (finished s) -> In t (finished s')) ->
  winv s' p.
Proof.
  intros s s' [n0|n0 i|n0] H Hs Hq Hw Hf; simpl in *.
  - lia.
  - destruct H as [Hn H]; split; [lia|]. intros t Ht. destruct (H t Ht) as [Q W]. split; [apply Hq; [lia|exact Q]|].
    intros j c' Hj E. destruct (Hw t j c' Q E) as [c [Ec Hc]]. apply Hc. apply (W j c Hj Ec).
  - intros t Ht; apply Hf, H, Ht.
Qed.

Lemma all_exited_nth : forall ws w c, all_exited ws = true -> nth_error ws w = Some c -> c = WExited.
Proof.
  intros ws w c H E. unfold all_exited in H. rewrite forallb_forall in H.
  specialize (H c (nth_error_In _ _ E)). destruct c; try discriminate; reflexivity.
Qed.

Lemma all_exited_set : forall ws w, all_exited ws = true -> all_exited (set_nth ws w WExited) = true.
Proof. induction ws as [|x r IH]; intros [|w] H; simpl in *; auto; apply andb_true_iff in H; destruct H as [A B]; rewrite ?A, ?B, ?IH; auto. Qed.

(* a worker changes its control point from c to c' *)
Section WorkerChange.
  Variables (s : state) (w : nat) (c c' : wpc).
  Hypothesis Hc : nth_error (workers s) w = Some c.

  Lemma holding_change : forall t, holding t (set_nth (workers s) w c') + hold t c = holding t (workers s) + hold t c'.
  Proof. intro t; unfold holding; apply sum_over_set_nth; exact Hc. Qed.
  Lemma running_change : forall t,
    sum_over (running t) (set_nth (workers s) w c') + running t c = sum_over (running t) (workers s) + running t c'.
  Proof. intro t; apply sum_over_set_nth; exact Hc. Qed.

  Lemma worker_lookup : forall j x, nth_error (set_nth (workers s) w c') j = Some x ->
    (j = w /\ x = c') \/ (j <> w /\ nth_error (workers s) j = Some x).
  Proof.
    intros j x H; rewrite nth_error_set_nth in H. destruct (Nat.eqb j w) eqn:E.
    - apply Nat.eqb_eq in E; rewrite Hc in H; inversion H; left; auto.
    - apply Nat.eqb_neq in E; right; auto.
  Qed.
End WorkerChange.

Ltac inv_joined_absurd s Hj Hw :=
  let X := fresh in
  pose proof (all_exited_nth _ _ _ Hj Hw) as X; discriminate X.

Lemma winv_same : forall s s' p, queue s = queue s' -> workers s = workers s' -> submitted s = submitted s' ->
  finished s = finished s' -> winv s p -> winv s' p.
Proof. intros s s' [n0|n0 i|n0] Q W S F; simpl; rewrite <- ?Q, <- ?W, <- ?S, <- ?F; auto. Qed.

Lemma advance_s_winv : forall s,
  (forall t, occ t (queue s) + holding t (workers s) + occ t (finished s) = if Nat.ltb t (submitted s) then 1 else 0) ->
  forall n0 i, n0 <= submitted s ->
  (forall t, t < n0 -> occ t (queue s) = 0 /\ forall j c, j < i -> nth_error (workers s) j = Some c -> hold t c = 0) ->
  winv s (advance_s (workers s) n0 i).
Proof.
  intros s Ip n0 i Hn Hall. unfold advance_s.
  assert (IDL : forall j c, i <= j -> j < i + idle_prefix (skipn i (workers s)) ->
                            nth_error (workers s) j = Some c -> idle c = true).
  { intros j c L1 L2 Ec. apply (idle_prefix_spec (skipn i (workers s)) (j - i) c); [lia|].
    rewrite nth_error_skipn'. replace (i + (j - i)) with j by lia. exact Ec. }
  assert (NOH : forall t, t < n0 -> forall j c, j < i + idle_prefix (skipn i (workers s)) ->
                            nth_error (workers s) j = Some c -> hold t c = 0).
  { intros t Ht j c Lj Ec. destruct (Nat.lt_ge_cases j i) as [A|A].
    - apply (proj2 (Hall t Ht) j c A Ec).
    - apply idle_no_hold. apply (IDL j c A Lj Ec). }
  destruct (Nat.leb (length (workers s)) (i + idle_prefix (skipn i (workers s)))) eqn:LE; simpl.
  - apply Nat.leb_le in LE. intros t Ht. apply occ_pos_In.
    pose proof (Ip t) as P. assert (LT : (t <? submitted s) = true) by (apply Nat.ltb_lt; lia). rewrite LT in P.
    rewrite (proj1 (Hall t Ht)) in P.
    assert (Z : holding t (workers s) = 0).
    { apply sum_over_zero. intros j c Ec. apply (NOH t Ht j c); [|exact Ec].
      assert (j < length (workers s)) by (apply nth_error_Some; congruence). lia. }
    lia.
  - split; [exact Hn|]. intros t Ht; split; [apply (proj1 (Hall t Ht))|]. intros j c Lj Ec. apply (NOH t Ht j c Lj Ec).
Qed.

Lemma advance_WQ : forall q ws n0, advance q ws (WQ n0) = if is_nil q then advance_s ws n0 0 else WQ n0.
Proof. intros [|x r] ws n0; reflexivity. Qed.

Ltac projs := cbn [queue stop workers waiters submitted runs finished joined with_workers].

Ltac preserve Iw k p E :=
  apply (winv_preserved _ _ p (Iw k p E)); projs;
  [ try lia | try (intros ? ? Q; exact Q) | try (intros ? ? c' ? Ec; exists c'; auto; fail)
  | try (intros ? Hin; exact Hin) ].

Lemma step_inv : forall s e s', step s e s' -> Inv s -> Inv s'.
Proof.
  intros s e s' H I; destruct I as [Ip Ir Iw Ie Ij]; inversion H; subst; clear H.
  - (* Add *) constructor; projs.
    + intro t; specialize (Ip t). rewrite occ_app, occ_cons, occ_nil.
      destruct (Nat.eqb (submitted s) t) eqn:E.
      * apply Nat.eqb_eq in E; subst t. rewrite Nat.ltb_irrefl in Ip.
        replace (S (submitted s) <=? S (submitted s)) with true by (symmetry; apply Nat.leb_le; lia).
        assert (L : (submitted s <? S (submitted s)) = true) by (apply Nat.ltb_lt; lia). rewrite L. lia.
      * apply Nat.eqb_neq in E. destruct (Nat.ltb t (submitted s)) eqn:L.
        -- apply Nat.ltb_lt in L. assert (L' : (t <? S (submitted s)) = true) by (apply Nat.ltb_lt; lia). rewrite L'; lia.
        -- apply Nat.ltb_ge in L. assert (L' : (t <? S (submitted s)) = false) by (apply Nat.ltb_ge; lia). rewrite L'; lia.
    + exact Ir.
    + intros k p E. preserve Iw k p E.
      intros t Ht Q. rewrite occ_app, occ_cons, occ_nil, Q.
      assert (N : Nat.eqb (submitted s) t = false) by (apply Nat.eqb_neq; lia). rewrite N; reflexivity.
    + intros w E. destruct (Ie w E) as [_ S]. congruence.
    + exact Ij.
  - (* AddRejected *) constructor; assumption.
  - (* Block *) constructor; assumption.
  - (* Pop *) rename H0 into Hw, H1 into Hq. constructor; projs.
    + intro t'; specialize (Ip t'). rewrite Hq, occ_cons in Ip.
      pose proof (holding_change s w WAwait (WHeld t) Hw t') as C; simpl in C. lia.
    + intro t'. pose proof (running_change s w WAwait (WHeld t) Hw t') as C; simpl in C. rewrite Ir; lia.
    + intros k p E. preserve Iw k p E.
      * intros t' _ Q. rewrite Hq, occ_cons in Q. lia.
      * intros t' j c' Q Ec. apply (worker_lookup s w WAwait (WHeld t) Hw) in Ec. destruct Ec as [[-> ->]|[_ Ec]].
        -- exists WAwait; split; [exact Hw|]. intros _. simpl. rewrite Hq, occ_cons in Q.
           destruct (Nat.eqb t t'); [lia|reflexivity].
        -- exists c'; auto.
    + intros j E. apply (worker_lookup s w WAwait (WHeld t) Hw) in E. destruct E as [[_ E]|[_ E]]; [discriminate|].
      destruct (Ie j E) as [Q _]. congruence.
    + intro J. specialize (Ij J). inv_joined_absurd s Ij Hw.
  - (* Begin *) rename H0 into Hw. constructor; projs.
    + intro t'; specialize (Ip t'). pose proof (holding_change s w (WHeld t) (WRunning t) Hw t') as C; simpl in C. lia.
    + intro t'. pose proof (running_change s w (WHeld t) (WRunning t) Hw t') as C; simpl in C.
      rewrite occ_cons, Ir. lia.
    + intros k p E. preserve Iw k p E.
      intros t' j c' Q Ec. apply (worker_lookup s w _ _ Hw) in Ec. destruct Ec as [[-> ->]|[_ Ec]].
      * exists (WHeld t); split; [exact Hw|]. simpl; auto.
      * exists c'; auto.
    + intros j E. apply (worker_lookup s w _ _ Hw) in E. destruct E as [[_ E]|[_ E]]; [discriminate|]. apply (Ie j E).
    + intro J. specialize (Ij J). inv_joined_absurd s Ij Hw.
  - (* End *) rename H0 into Hw. constructor; projs.
    + intro t'; specialize (Ip t'). pose proof (holding_change s w (WRunning t) (WRan t) Hw t') as C; simpl in C.
      rewrite occ_cons. lia.
    + intro t'. pose proof (running_change s w (WRunning t) (WRan t) Hw t') as C; simpl in C.
      rewrite occ_cons, Ir. lia.
    + intros k p E. preserve Iw k p E.
      * intros t' j c' Q Ec. apply (worker_lookup s w _ _ Hw) in Ec. destruct Ec as [[-> ->]|[_ Ec]].
        -- exists (WRunning t); split; [exact Hw|]. simpl; auto.
        -- exists c'; auto.
      * intros t' Hin; right; exact Hin.
    + intros j E. apply (worker_lookup s w _ _ Hw) in E. destruct E as [[_ E]|[_ E]]; [discriminate|]. apply (Ie j E).
    + intro J. specialize (Ij J). inv_joined_absurd s Ij Hw.
  - (* Idle *) rename H0 into Hw. constructor; projs.
    + intro t'; specialize (Ip t'). pose proof (holding_change s w (WRan t) WAwait Hw t') as C; simpl in C. lia.
    + intro t'. pose proof (running_change s w (WRan t) WAwait Hw t') as C; simpl in C. rewrite Ir; lia.
    + intros k p E. preserve Iw k p E.
      intros t' j c' Q Ec. apply (worker_lookup s w _ _ Hw) in Ec. destruct Ec as [[-> ->]|[_ Ec]].
      * exists (WRan t); split; [exact Hw|]. simpl; auto.
      * exists c'; auto.
    + intros j E. apply (worker_lookup s w _ _ Hw) in E. destruct E as [[_ E]|[_ E]]; [discriminate|]. apply (Ie j E).
    + intro J. specialize (Ij J). inv_joined_absurd s Ij Hw.
  - (* Exit *) rename H0 into Hw. constructor; projs.
    + intro t'; specialize (Ip t'). pose proof (holding_change s w WAwait WExited Hw t') as C; simpl in C. lia.
    + intro t'. pose proof (running_change s w WAwait WExited Hw t') as C; simpl in C. rewrite Ir; lia.
    + intros k p E. preserve Iw k p E.
      intros t' j c' Q Ec. apply (worker_lookup s w _ _ Hw) in Ec. destruct Ec as [[-> ->]|[_ Ec]].
      * exists WAwait; split; [exact Hw|]. simpl; auto.
      * exists c'; auto.
    + intros j E; split; assumption.
    + intro J. apply all_exited_set, Ij, J.
  - (* Stop *) constructor; projs.
    + exact Ip.
    + exact Ir.
    + intros k p E. preserve Iw k p E.
    + intros w E; split; [apply (Ie w E)|reflexivity].
    + exact Ij.
  - (* Joined *) constructor; projs.
    + exact Ip.
    + exact Ir.
    + intros k p E. preserve Iw k p E.
    + exact Ie.
    + intros _; assumption.
  - (* WaitCall *) constructor; projs.
    + exact Ip.
    + exact Ir.
    + intros k p E. destruct (Nat.lt_ge_cases k (length (waiters s))) as [L|L].
      * rewrite nth_error_app1 in E by exact L. preserve Iw k p E.
      * rewrite nth_error_app2 in E by exact L. destruct (k - length (waiters s)) as [|m]; simpl in E.
        -- inversion E; subst; simpl; lia.
        -- destruct m; discriminate.
    + exact Ie.
    + exact Ij.
  - (* WaitSeg *) rename H0 into Hk, H1 into Hd. constructor; projs; [exact Ip | exact Ir | | exact Ie | exact Ij].
    intros k' p' E. rewrite nth_error_set_nth in E. destruct (Nat.eqb k' k) eqn:EK.
    + rewrite Hk in E; inversion E; subst p'; clear E. pose proof (Iw k p Hk) as W.
      apply (winv_same s); try reflexivity.
      destruct p as [n0|n0 i|n0]; try discriminate.
      * rewrite advance_WQ. destruct (is_nil (queue s)) eqn:Q; [|exact W].
        destruct (queue s) eqn:Q'; [|discriminate]. rewrite <- Q' in *.
        apply advance_s_winv; [exact Ip|exact W|]. intros t Ht; split; [rewrite Q'; reflexivity| intros j c Lj; lia].
      * destruct W as [Hn Hall]. simpl advance. apply advance_s_winv; assumption.
    + preserve Iw k' p' E.
Qed.

Lemma steps_inv : forall s tr s', steps s tr s' -> Inv s -> Inv s'.
Proof. induction 1; intro I; [exact I|]. apply IHsteps, (step_inv _ _ _ H I). Qed.

Lemma reachable_inv : forall n tr s, steps (init n) tr s -> Inv s.
Proof. intros n tr s H; apply (steps_inv _ _ _ H (inv_init n)). Qed.

(* ---- consequences, in the vocabulary of the specification ---- *)
Lemma inv_one_place : forall s, Inv s -> one_place (queue s) (workers s) (submitted s) (finished s).
Proof. intros s I t; apply (i_place s I). Qed.

Lemma inv_at_most_once : forall s, Inv s -> at_most_once (runs s).
Proof.
  intros s I t. rewrite (i_runs s I). pose proof (i_place s I t) as P.
  pose proof (sum_running_le_holding t (workers s)). destruct (Nat.ltb t (submitted s)); lia.
Qed.

Lemma inv_quiescent_all_done : forall s, Inv s ->
  quiescent (queue s) (workers s) -> all_done (submitted s) (runs s) (finished s).
Proof.
  intros s I [Q W] t Ht. pose proof (i_place s I t) as P. pose proof (i_runs s I t) as R.
  assert (LT : (t <? submitted s) = true) by (apply Nat.ltb_lt; lia). rewrite LT, Q, occ_nil in P.
  assert (Z : holding t (workers s) = 0).
  { apply sum_over_zero. intros j c E. apply idle_no_hold, W, (nth_error_In _ _ E). }
  pose proof (sum_running_le_holding t (workers s)). lia.
Qed.

Lemma inv_wait_complete : forall s, Inv s -> wait_complete (waiters s) (finished s).
Proof. intros s I k n0 E t Ht. apply (i_wait s I k _ E t Ht). Qed.

Lemma inv_joined_all_done : forall s, Inv s -> joined s = true -> workers s <> [] ->
  queue s = [] /\ all_done (submitted s) (runs s) (finished s).
Proof.
  intros s I J N. pose proof (i_join s I J) as A.
  assert (Q : queue s = []).
  { destruct (workers s) as [|c r] eqn:E; [congruence|].
    assert (C : nth_error (workers s) 0 = Some c) by (rewrite E; reflexivity).
    pose proof C as C'. rewrite E in C'. rewrite <- E in A.
    rewrite (all_exited_nth _ _ _ A C) in C. apply (i_exit s I 0 C). }
  split; [exact Q|]. apply inv_quiescent_all_done; [exact I|]. split; [exact Q|].
  intros c Hin. apply In_nth_error in Hin. destruct Hin as [j E]. rewrite (all_exited_nth _ _ _ A E). reflexivity.
Qed.

(* every wake-up that a sleeping thread depends on is issued: a step that makes the sleeping condition of a
   worker (stop or non-empty queue) or of a waiter (empty queue / idle status) true carries its notification *)
Definition notifies (e : event) : bool :=
  match e with
  | Add _ b | Pop _ _ b | Idle _ b | Stop b => b
  | _ => false
  end.
Definition worker_may_run (s : state) : bool := stop s || negb (is_nil (queue s)).
Definition statuses_idle (s : state) : list bool := map idle (workers s).

Lemma map_idle_set_nth : forall ws w c c', nth_error ws w = Some c -> idle c = idle c' ->
  map idle (set_nth ws w c') = map idle ws.
Proof.
  induction ws as [|x r IH]; intros [|w] c c' E I; simpl in *; try reflexivity; try discriminate.
  - inversion E; subst; rewrite I; reflexivity.
  - f_equal; apply (IH w c c' E I).
Qed.

Lemma wakeups_issued : forall s e s', step s e s' ->
  (worker_may_run s = false -> worker_may_run s' = true -> notifies e = true) /\
  (is_nil (queue s) = false -> is_nil (queue s') = true -> notifies e = true) /\
  (statuses_idle s <> statuses_idle s' ->
   (exists w t, e = Pop w t true) \/ (exists w, e = Idle w true) \/ exists w, e = Exit w).
Proof.
  intros s e s' H; inversion H; subst; unfold worker_may_run, statuses_idle; projs; simpl notifies;
    (split; [|split]); intros; try reflexivity; try congruence; eauto.
  all: exfalso; apply H1; symmetry; apply (map_idle_set_nth _ _ _ _ H0); reflexivity.
Qed.

(* ---- acceptor ---- *)
Lemma wpc_eqb_eq : forall a b, wpc_eqb a b = true <-> a = b.
Proof.
  intros [|t|t|t|] [|u|u|u|]; simpl; split; intro H; try reflexivity; try discriminate;
    try (apply Nat.eqb_eq in H; subst; reflexivity); try (inversion H; apply Nat.eqb_refl).
Qed.
Lemma at_w_spec : forall s w c, at_w s w c = true <-> nth_error (workers s) w = Some c.
Proof.
  intros s w c; unfold at_w. destruct (nth_error (workers s) w) as [x|]; split; intro H; try discriminate.
  - apply wpc_eqb_eq in H; subst; reflexivity.
  - inversion H; apply wpc_eqb_eq; reflexivity.
Qed.
Lemma is_nil_spec : forall (A : Type) (l : list A), is_nil l = true <-> l = [].
Proof. intros A [|x r]; simpl; split; intro H; try reflexivity; discriminate. Qed.

Lemma step_fn_sound : forall s e s', step_fn s e = Some s' -> step s e s'.
Proof.
  intros s e s' H; destruct e as [t [|]| |w|w t [|]|w t|w t|w [|]|w|[|]| | |k b]; simpl in H; try discriminate.
  - destruct (negb (stop s) && Nat.eqb t (submitted s)) eqn:G; [|discriminate]. apply andb_true_iff in G; destruct G as [G1 G2].
    apply negb_true_iff in G1. apply Nat.eqb_eq in G2; subst t. inversion H. apply st_add; exact G1.
  - destruct (stop s) eqn:G; [|discriminate]. inversion H; subst. apply st_add_rejected; exact G.
  - destruct (at_w s w WAwait && is_nil (queue s) && negb (stop s)) eqn:G; [|discriminate].
    apply andb_true_iff in G; destruct G as [G G3]. apply andb_true_iff in G; destruct G as [G1 G2].
    inversion H; subst. apply st_block; [apply at_w_spec; exact G1 | apply is_nil_spec; exact G2 | apply negb_true_iff; exact G3].
  - destruct (at_w s w WAwait) eqn:G1; [|discriminate]. destruct (queue s) as [|u q] eqn:Q; [discriminate|].
    destruct (Nat.eqb u t) eqn:G2; [|discriminate]. apply Nat.eqb_eq in G2; subst u. inversion H.
    apply st_pop; [apply at_w_spec; exact G1|exact Q].
  - destruct (at_w s w (WHeld t)) eqn:G1; [|discriminate]. inversion H. apply st_begin, at_w_spec, G1.
  - destruct (at_w s w (WRunning t)) eqn:G1; [|discriminate]. inversion H. apply st_end, at_w_spec, G1.
  - destruct (nth_error (workers s) w) as [[|u|u|u|]|] eqn:G1; try discriminate. inversion H. apply (st_idle s w u G1).
  - destruct (at_w s w WAwait && is_nil (queue s) && stop s) eqn:G; [|discriminate].
    apply andb_true_iff in G; destruct G as [G G3]. apply andb_true_iff in G; destruct G as [G1 G2].
    inversion H. apply st_exit; [apply at_w_spec; exact G1 | apply is_nil_spec; exact G2 | exact G3].
  - destruct (stop s) eqn:G; [discriminate|]. inversion H. apply st_stop; exact G.
  - destruct (stop s && all_exited (workers s)) eqn:G; [|discriminate]. apply andb_true_iff in G; destruct G as [G1 G2].
    inversion H. apply st_joined; assumption.
  - inversion H. apply st_waitcall.
  - destruct (nth_error (waiters s) k) as [p|] eqn:G1; [|discriminate].
    destruct (negb (is_done p) && Bool.eqb b (negb (is_done (advance (queue s) (workers s) p)))) eqn:G; [|discriminate].
    apply andb_true_iff in G; destruct G as [G2 G3]. apply negb_true_iff in G2. apply eqb_prop in G3; subst b.
    inversion H. apply st_waitseg; assumption.
Qed.

Lemma step_fn_complete : forall s e s', step s e s' -> step_fn s e = Some s'.
Proof.
  intros s e s' H; inversion H; subst; simpl.
  - rewrite H0, Nat.eqb_refl; reflexivity.
  - rewrite H0; reflexivity.
  - apply at_w_spec in H0; rewrite H0, H1, H2; reflexivity.
  - apply at_w_spec in H0; rewrite H0, H1, Nat.eqb_refl; reflexivity.
  - apply at_w_spec in H0; rewrite H0; reflexivity.
  - apply at_w_spec in H0; rewrite H0; reflexivity.
  - rewrite H0; reflexivity.
  - apply at_w_spec in H0; rewrite H0, H1, H2; reflexivity.
  - rewrite H0; reflexivity.
  - rewrite H0, H1; reflexivity.
  - reflexivity.
  - rewrite H0, H1, eqb_reflx; reflexivity.
Qed.

Lemma run_sound : forall tr s s', run s tr = Some s' -> steps s tr s'.
Proof.
  induction tr as [|e r IH]; intros s s' H; simpl in H.
  - inversion H; constructor.
  - destruct (step_fn s e) as [s1|] eqn:E; [|discriminate].
    econstructor; [apply step_fn_sound; exact E | apply IH; exact H].
Qed.
Lemma run_complete : forall s tr s', steps s tr s' -> run s tr = Some s'.
Proof. induction 1; simpl; [reflexivity|]. rewrite (step_fn_complete _ _ _ H). exact IHsteps. Qed.

Lemma accepts_sound : forall n tr, accepts n tr = true -> exists s, steps (init n) tr s.
Proof.
  intros n tr H; unfold accepts in H. destruct (run (init n) tr) as [s|] eqn:E; [|discriminate].
  exists s; apply run_sound; exact E.
Qed.
Lemma accepts_complete : forall n tr s, steps (init n) tr s -> accepts n tr = true.
Proof. intros n tr s H; unfold accepts; rewrite (run_complete _ _ _ H); reflexivity. Qed.

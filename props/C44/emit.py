"""Cut the text of the <behaviour>_<Hypothesis>_rotate* functions out of the source emitted by mfront's generic interface."""
import re


def extract_rotation_functions(path):
    s = open(path).read()
    out = []
    for m in re.finditer(r"^void (\w+_rotate\w+)\(", s, flags=re.M):
        i = s.index("{", m.start())
        depth, j = 0, i
        while True:
            ch = s[j]
            if ch == "{":
                depth += 1
            elif ch == "}":
                depth -= 1
                if depth == 0:
                    break
            j += 1
        out.append((m.group(1), "inline " + s[m.start():j + 1] + "\n"))
    return out

(* C44: proofs (skeleton written by mkcoq.py; shape-independent tactics of C44Tactics.v) *)
From Coq Require Import Reals List Lra.
From VLib Require Import RealExtra.
From C44 Require Import C44Spec C44_gen C44Statements C44Tactics.
Import ListNotations.
Local Open Scope R_scope.

Lemma fromrot_1_index_proof : fromrot_1_index_ok.
Proof. unfold fromrot_1_index_ok. prove fromrot_1. Qed.

Lemma fromrot_1_acts_proof : fromrot_1_acts_ok.
Proof. unfold fromrot_1_acts_ok. intros; unfold app_1, fromrot_1; spec_red; list_eq. Qed.

Lemma cb2_1_meaning_proof : cb2_1_meaning_ok.
Proof. unfold cb2_1_meaning_ok. prove cb2_1. Qed.

Lemma cb4_1_index_proof : cb4_1_index_ok.
Proof. unfold cb4_1_index_ok. prove cb4_1. Qed.

Lemma app_1_meaning_proof : app_1_meaning_ok.
Proof. unfold app_1_meaning_ok. prove app_1. Qed.

Lemma fromrot_2_index_proof : fromrot_2_index_ok.
Proof. unfold fromrot_2_index_ok. prove fromrot_2. Qed.

Lemma fromrot_2_acts_proof : fromrot_2_acts_ok.
Proof. unfold fromrot_2_acts_ok. intros; unfold app_2, fromrot_2; spec_red; list_eq. Qed.

Lemma cb2_2_meaning_proof : cb2_2_meaning_ok.
Proof. unfold cb2_2_meaning_ok. prove cb2_2. Qed.

Lemma cb4_2_index_proof : cb4_2_index_ok.
Proof. unfold cb4_2_index_ok. prove cb4_2. Qed.

Lemma app_2_meaning_proof : app_2_meaning_ok.
Proof. unfold app_2_meaning_ok. prove app_2. Qed.

Lemma fromrot_3_index_proof : fromrot_3_index_ok.
Proof. unfold fromrot_3_index_ok. prove fromrot_3. Qed.

Lemma fromrot_3_acts_proof : fromrot_3_acts_ok.
Proof. unfold fromrot_3_acts_ok. intros; unfold app_3, fromrot_3; spec_red; list_eq. Qed.

Lemma cb2_3_meaning_proof : cb2_3_meaning_ok.
Proof. unfold cb2_3_meaning_ok. prove cb2_3. Qed.

Lemma app_3_meaning_proof : app_3_meaning_ok.
Proof. unfold app_3_meaning_ok. prove app_3. Qed.

Lemma isoD_tri_meaning_proof : isoD_tri_meaning_ok.
Proof. unfold isoD_tri_meaning_ok. prove isoD_tri. Qed.

Lemma isosig_tri_meaning_proof : isosig_tri_meaning_ok.
Proof. unfold isosig_tri_meaning_ok. prove isosig_tri. Qed.

Lemma isosig_pstrain_is_3D_restricted_proof : isosig_pstrain_is_3D_restricted_ok.
Proof. unfold isosig_pstrain_is_3D_restricted_ok. intros; unfold isosig_tri, isosig_pstrain; spec_red; list_eq. Qed.

Lemma isosig_gps_is_3D_restricted_proof : isosig_gps_is_3D_restricted_ok.
Proof. unfold isosig_gps_is_3D_restricted_ok. intros; unfold isosig_tri, isosig_gps; spec_red; list_eq. Qed.

Lemma isosig_axis_is_3D_restricted_proof : isosig_axis_is_3D_restricted_ok.
Proof. unfold isosig_axis_is_3D_restricted_ok. intros; unfold isosig_tri, isosig_axis; spec_red; list_eq. Qed.

Lemma isosig_pstress_is_3D_restricted_proof : isosig_pstress_is_3D_restricted_ok.
Proof. unfold isosig_pstress_is_3D_restricted_ok. intros; unfold isosig_tri, isosig_pstress; spec_red; list_eq. Qed.

Lemma isosig_agpstrain_is_3D_restricted_proof : isosig_agpstrain_is_3D_restricted_ok.
Proof. unfold isosig_agpstrain_is_3D_restricted_ok. intros; unfold isosig_tri, isosig_agpstrain; spec_red; list_eq. Qed.

Lemma isosig_pstress_alt_szz_proof : isosig_pstress_alt_szz_ok.
Proof. unfold isosig_pstress_alt_szz_ok. intros; unfold isosig_pstress_alt; spec_red; comp. Qed.

Lemma isosig_pstress_alt_is_3D_condensed_proof : isosig_pstress_alt_is_3D_condensed_ok.
Proof. unfold isosig_pstress_alt_is_3D_condensed_ok. intros; nzprod; unfold isosig_tri, isosig_pstress_alt; spec_red; list_eq. Qed.

Lemma ortsig_pstrain_is_3D_restricted_proof : ortsig_pstrain_is_3D_restricted_ok.
Proof. unfold ortsig_pstrain_is_3D_restricted_ok. intros; unfold ortsig_tri, ortsig_pstrain; spec_red; list_eq. Qed.

Lemma ortsig_gps_is_3D_restricted_proof : ortsig_gps_is_3D_restricted_ok.
Proof. unfold ortsig_gps_is_3D_restricted_ok. intros; unfold ortsig_tri, ortsig_gps; spec_red; list_eq. Qed.

Lemma ortsig_axis_is_3D_restricted_proof : ortsig_axis_is_3D_restricted_ok.
Proof. unfold ortsig_axis_is_3D_restricted_ok. intros; unfold ortsig_tri, ortsig_axis; spec_red; list_eq. Qed.

Lemma ortsig_agpstrain_is_3D_restricted_proof : ortsig_agpstrain_is_3D_restricted_ok.
Proof. unfold ortsig_agpstrain_is_3D_restricted_ok. intros; unfold ortsig_tri, ortsig_agpstrain; spec_red; list_eq. Qed.

Lemma ortsig_pstress_alt_szz_proof : ortsig_pstress_alt_szz_ok.
Proof. unfold ortsig_pstress_alt_szz_ok. intros; unfold ortsig_pstress_alt; spec_red; comp. Qed.

Lemma ortsig_pstress_alt_pipe_szz_proof : ortsig_pstress_alt_pipe_szz_ok.
Proof. unfold ortsig_pstress_alt_pipe_szz_ok. intros; unfold ortsig_pstress_alt_pipe; spec_red; comp. Qed.


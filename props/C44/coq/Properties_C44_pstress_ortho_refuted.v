(* C44 (c): orthotropic plane-stress class while defect F-C44b is observed: the positive statement is refuted by a witness *)
From Coq Require Import Reals List.
From C44 Require Import C44PS_gen C44PSStatements C44ProofsPS C44ProofsPSOrthoRefuted.

Theorem C44_generated_orthotropic_plane_stress_jacobian_is_the_derivative_of_the_residual_refuted : ~ ops_jac_is_derivative_ok.
Proof. exact ops_jac_is_derivative_refuted_proof. Qed.
Print Assumptions C44_generated_orthotropic_plane_stress_jacobian_is_the_derivative_of_the_residual_refuted.

(* C44: proofs (skeleton written by mkcoq.py; shape-independent tactics of C44Tactics.v) *)
From Coq Require Import Reals List Lra.
From VLib Require Import RealExtra.
From C44 Require Import C44Spec C44_gen C44Statements C44Tactics.
Import ListNotations.
Local Open Scope R_scope.

Lemma cb4_3_index_proof : cb4_3_index_ok.
Proof. unfold cb4_3_index_ok. prove cb4_3. Qed.

Lemma gen_rotk_tri_index_proof : gen_rotk_tri_index_ok.
Proof. unfold gen_rotk_tri_index_ok. prove gen_rotk_tri. Qed.

Lemma tg_rotk_pstrain_index_proof : tg_rotk_pstrain_index_ok.
Proof. unfold tg_rotk_pstrain_index_ok. prove tg_rotk_pstrain. Qed.

Lemma tg_arrk_pstrain_index_proof : tg_arrk_pstrain_index_ok.
Proof. unfold tg_arrk_pstrain_index_ok. prove tg_arrk_pstrain. Qed.

